import Mamba.Lemmas.CombCoeff
import Mathlib.Data.List.Induction
import Mathlib.Data.List.Basic
/-!
# Lemmas for C16, part 2: the combinatorial number system

`rankNat c = Σ_i C(c_i, i+1)` for an ascending list `c`.  Key fact: the rank of a strictly increasing list of
length `k` with all elements `< bound` is `< C(bound, k)`; injectivity, colex monotonicity and the greedy
unranking follow from it.
-/
namespace Comb

/-- colex rank of a list whose head sits at position `j` -/
def rankFrom : Nat → List Nat → Nat
  | _, [] => 0
  | j, v :: vs => Nat.choose v (j + 1) + rankFrom (j + 1) vs

/-- colex rank `Σ_i C(c_i, i+1)` -/
def rankNat (c : List Nat) : Nat := rankFrom 0 c

/-- strictly increasing -/
abbrev Asc (c : List Nat) : Prop := c.Pairwise (· < ·)

theorem rankFrom_append (j : Nat) (a b : List Nat) :
    rankFrom j (a ++ b) = rankFrom j a + rankFrom (j + a.length) b := by
  induction a generalizing j with
  | nil => simp [rankFrom]
  | cons v vs ih =>
    simp only [List.cons_append, rankFrom, ih, List.length_cons]
    rw [show j + 1 + vs.length = j + (vs.length + 1) by omega]
    omega

theorem rankNat_concat (c : List Nat) (x : Nat) :
    rankNat (c ++ [x]) = rankNat c + Nat.choose x (c.length + 1) := by
  unfold rankNat
  rw [rankFrom_append]
  simp [rankFrom]

theorem asc_concat {c : List Nat} {x : Nat} : Asc (c ++ [x]) ↔ Asc c ∧ ∀ y ∈ c, y < x := by
  unfold Asc
  rw [List.pairwise_append]
  simp

/-- `n ≤ C(n, j)` for `1 ≤ j ≤ n - 1`. -/
theorem le_choose {n j : Nat} (h1 : 1 ≤ j) (h2 : j + 1 ≤ n) : n ≤ Nat.choose n j := by
  induction n with
  | zero => omega
  | succ n ih =>
    obtain ⟨j', rfl⟩ : ∃ j', j = j' + 1 := ⟨j - 1, by omega⟩
    rw [Nat.choose_succ_succ']
    rcases Nat.lt_or_ge (j' + 1) n with h | h
    · have := ih (by omega)
      have : 0 < Nat.choose n j' := Nat.choose_pos (by omega)
      omega
    · have hn : n = j' + 1 := by omega
      subst hn
      rw [Nat.choose_self, Nat.choose_succ_self_right]

/-- The rank of a `k`-subset of `{0, …, bound-1}` is `< C(bound, k)`. -/
theorem rank_lt_choose (c : List Nat) : ∀ bound, Asc c → (∀ x ∈ c, x < bound) →
    rankNat c < Nat.choose bound c.length := by
  induction c using List.reverseRecOn with
  | nil => intro bound _ _; simp [rankNat, rankFrom]
  | append_singleton c x ih =>
    intro bound hasc hb
    rw [asc_concat] at hasc
    rw [rankNat_concat, List.length_append, List.length_singleton]
    have h1 := ih x hasc.1 hasc.2
    have hx : x + 1 ≤ bound := hb x (by simp)
    have h2 : Nat.choose (x + 1) (c.length + 1) ≤ Nat.choose bound (c.length + 1) :=
      Nat.choose_le_choose _ hx
    rw [Nat.choose_succ_succ'] at h2
    omega

theorem rankNat_inj (a : List Nat) : ∀ b : List Nat, Asc a → Asc b → a.length = b.length →
    rankNat a = rankNat b → a = b := by
  induction a using List.reverseRecOn with
  | nil => intro b _ _ hl _; exact (List.length_eq_zero_iff.mp hl.symm).symm
  | append_singleton a x ih =>
    intro b ha hb hl hr
    rcases List.eq_nil_or_concat b with rfl | ⟨b', y, rfl⟩
    · simp at hl
    · rw [List.concat_eq_append] at *
      rw [asc_concat] at ha hb
      simp only [List.length_append, List.length_singleton, Nat.add_right_cancel_iff] at hl
      rw [rankNat_concat, rankNat_concat] at hr
      have ka := rank_lt_choose a x ha.1 ha.2
      have kb := rank_lt_choose b' y hb.1 hb.2
      have hxy : x = y := by
        rcases Nat.lt_trichotomy x y with h | h | h
        · exfalso
          have : Nat.choose (x + 1) (a.length + 1) ≤ Nat.choose y (a.length + 1) :=
            Nat.choose_le_choose _ h
          rw [Nat.choose_succ_succ'] at this
          rw [← hl] at hr
          omega
        · exact h
        · exfalso
          have : Nat.choose (y + 1) (b'.length + 1) ≤ Nat.choose x (b'.length + 1) :=
            Nat.choose_le_choose _ h
          rw [Nat.choose_succ_succ'] at this
          rw [hl] at hr ka
          omega
      subst hxy
      rw [hl] at hr
      have := ih b' ha.1 hb.1 hl (by omega)
      rw [this]

/-- colex order: compare the largest elements first -/
def ColexLt (a b : List Nat) : Prop := List.Lex (· < ·) a.reverse b.reverse

theorem rankNat_lt_of_colexLt (a : List Nat) : ∀ b : List Nat, Asc a → Asc b → a.length = b.length →
    ColexLt a b → rankNat a < rankNat b := by
  induction a using List.reverseRecOn with
  | nil =>
    intro b _ _ hl h
    have : b = [] := List.length_eq_zero_iff.mp hl.symm
    subst this
    simp [ColexLt] at h
  | append_singleton a x ih =>
    intro b ha hb hl h
    rcases List.eq_nil_or_concat b with rfl | ⟨b', y, rfl⟩
    · simp at hl
    · rw [List.concat_eq_append] at *
      rw [asc_concat] at ha hb
      simp only [List.length_append, List.length_singleton, Nat.add_right_cancel_iff] at hl
      rw [rankNat_concat, rankNat_concat]
      unfold ColexLt at h
      simp only [List.reverse_append, List.reverse_cons, List.reverse_nil, List.nil_append,
        List.singleton_append] at h
      have ka := rank_lt_choose a x ha.1 ha.2
      rcases List.cons_lex_cons_iff.mp h with hlt | ⟨heq, hrest⟩
      · have : Nat.choose (x + 1) (a.length + 1) ≤ Nat.choose y (a.length + 1) :=
          Nat.choose_le_choose _ hlt
        rw [Nat.choose_succ_succ'] at this
        rw [← hl]
        omega
      · subst heq
        have := ih b' ha.1 hb.1 hl hrest
        rw [hl]
        omega


/-! # The model: `Unrank`, `Coeff`, `Rank` -/
section Model
set_option linter.unusedVariables false
open Gen.Comb

/-- a list of naturals as Go `int`s -/
def toInts (c : List Nat) : List Int := c.map Int.ofNat

@[simp] theorem toInts_nil : toInts [] = [] := rfl
@[simp] theorem toInts_cons (a : Nat) (l : List Nat) : toInts (a :: l) = (a : Int) :: toInts l := rfl
@[simp] theorem toInts_append (a b : List Nat) : toInts (a ++ b) = toInts a ++ toInts b := by simp [toInts]
@[simp] theorem toInts_length (a : List Nat) : (toInts a).length = a.length := by simp [toInts]
/-! ## machine integers -/

theorem wrapInt_eq {x : Int} (h1 : -9223372036854775808 ≤ x) (h2 : x < 9223372036854775808) : wrapInt x = x := by
  unfold wrapInt
  apply Int.bmod_eq_of_le_mul_two
  · simp only [W]; omega
  · simp only [W]; omega

theorem wrapInt_neg {x : Int} (h1 : 9223372036854775808 ≤ x) (h2 : x < 18446744073709551616) : wrapInt x < 0 := by
  unfold wrapInt
  rw [Int.bmod_def]
  simp only [W]
  omega

theorem toU64_nat (n : Nat) (h : n < 18446744073709551616) : toU64 (n : Int) = n := by
  unfold toU64
  simp only [W]
  omega

theorem maxInt_val : maxInt = 9223372036854775807 := by decide

/-! ## inner loop of `Unrank` -/

theorem unrankInner_spec (i M : Nat) (hM : M < 9223372036854775808) (hi : i + 2 < 9223372036854775808) :
    ∀ fuel l b next, i ≤ l → b = Nat.choose l (i + 1) → next = Nat.choose (l + 1) (i + 1) → b ≤ M →
      max M (i + 1) < fuel + l →
      ∃ l', unrankInner i (M : Int) fuel l b next = .ok (l', Nat.choose l' (i + 1)) ∧ l ≤ l' ∧
        Nat.choose l' (i + 1) ≤ M ∧ M < Nat.choose (l' + 1) (i + 1) ∧ l' ≤ max M (i + 1) := by
  intro fuel
  induction fuel with
  | zero =>
    intro l b next hil hb hnext hbM hfuel
    exfalso
    have : l ≤ Nat.choose l (i + 1) := le_choose (by omega) (by omega)
    omega
  | succ f ih =>
    intro l b next hil hb hnext hbM hfuel
    unfold unrankInner
    have htoM : toU64 (M : Int) = M := toU64_nat M (by omega)
    by_cases hc : next ≤ M
    · rw [if_pos ⟨by omega, by rw [htoM]; exact hc⟩]
      have hl1 : l + 1 ≤ max M (i + 1) := by
        rcases Nat.lt_or_ge (l + 1) (i + 2) with h | h
        · omega
        · have := le_choose (n := l + 1) (j := i + 1) (by omega) (by omega)
          omega
      have e1 : toU64 (((l + 1 : Nat) : Int) + 1) = l + 2 := by
        have := toU64_nat (l + 2) (by omega)
        rw [← this]; congr 1
      have e2 : toU64 (((l + 1 : Nat) : Int) - (i : Int)) = l + 1 - i := by
        have := toU64_nat (l + 1 - i) (by omega)
        rw [← this]; congr 1; omega
      have hy : 0 < l + 1 - i := by omega
      have hp : next * (l + 2) = Nat.choose (l + 2) (i + 1) * (l + 1 - i) := by
        rw [hnext]
        have := Nat.choose_mul_succ_eq (l + 1) (i + 1)
        rw [show l + 1 + 1 - (i + 1) = l + 1 - i by omega] at this
        exact this
      simp only [e1, e2, hp]
      by_cases hN : W ≤ Nat.choose (l + 2) (i + 1)
      · have : Nat.choose (l + 2) (i + 1) * (l + 1 - i) / W ≥ l + 1 - i := by
          rw [ge_iff_le, Nat.le_div_iff_mul_le (by decide)]
          rw [Nat.mul_comm]
          exact Nat.mul_le_mul_right _ hN
        rw [if_pos this]
        refine ⟨l + 1, ?_, by omega, ?_, ?_, hl1⟩
        · rw [hnext]
        · rw [← hnext]; exact hc
        · have : M < W := by simp only [W]; omega
          have hN' : W ≤ Nat.choose (l + 1 + 1) (i + 1) := hN
          omega
      · have hlt : ¬ (Nat.choose (l + 2) (i + 1) * (l + 1 - i) / W ≥ l + 1 - i) := by
          rw [ge_iff_le, Nat.le_div_iff_mul_le (by decide), Nat.mul_comm]
          intro hcon
          have := Nat.le_of_mul_le_mul_right hcon hy
          omega
        rw [if_neg hlt]
        have hdiv : div64 (Nat.choose (l + 2) (i + 1) * (l + 1 - i) / W)
            (Nat.choose (l + 2) (i + 1) * (l + 1 - i) % W) (l + 1 - i) = .ok (Nat.choose (l + 2) (i + 1)) := by
          unfold div64
          rw [if_neg (by omega), if_neg (by omega)]
          congr 1
          rw [Nat.mul_comm _ W, Nat.div_add_mod]
          exact Nat.mul_div_cancel _ hy
        rw [hdiv]
        simp only
        obtain ⟨l', h1, h2, h3, h4, h5⟩ := ih (l + 1) next (Nat.choose (l + 2) (i + 1)) (by omega) hnext rfl hc (by omega)
        exact ⟨l', h1, by omega, h3, h4, h5⟩
    · rw [if_neg (by rw [htoM]; intro h; exact hc h.2)]
      refine ⟨l, by rw [hb], le_refl _, by omega, by omega, ?_⟩
      rcases Nat.lt_or_ge l (i + 2) with h | h
      · omega
      · have := le_choose (n := l) (j := i + 1) (by omega) (by omega)
        omega


/-! ## outer loop of `Unrank` -/

theorem unrankLoop_spec (fuel : Nat) : ∀ (cnt m bound : Nat) (acc : List Int),
    m < 9223372036854775808 → cnt + 1 < 9223372036854775808 → m + 2 ≤ fuel → m < Nat.choose bound cnt →
    ∃ c : List Nat, unrankLoop fuel cnt (m : Int) acc = .ok (toInts c ++ acc) ∧
      c.length = cnt ∧ Asc c ∧ (∀ x ∈ c, x < bound) ∧ (∀ x ∈ c, x ≤ max m cnt) ∧ rankNat c = m := by
  intro cnt
  induction cnt with
  | zero =>
    intro m bound acc hm _ _ hb
    refine ⟨[], by simp [unrankLoop], rfl, List.Pairwise.nil, by simp, by simp, ?_⟩
    simp at hb
    simp [rankNat, rankFrom, hb]
  | succ i ih =>
    intro m bound acc hm hi hf hb
    obtain ⟨l, hl, hil, h1, h2, h3⟩ := unrankInner_spec i m hm (by omega) fuel i 0 1 (le_refl _)
      (by rw [Nat.choose_succ_self]) (by rw [Nat.choose_self]) (Nat.zero_le _) (by omega)
    unfold unrankLoop
    rw [hl]
    simp only
    have hw1 : wrapInt ((Nat.choose l (i + 1) : Nat) : Int) = ((Nat.choose l (i + 1) : Nat) : Int) :=
      wrapInt_eq (by omega) (by omega)
    have hsub : (m : Int) - ((Nat.choose l (i + 1) : Nat) : Int) = ((m - Nat.choose l (i + 1) : Nat) : Int) := by
      omega
    have hw2 : wrapInt (((m - Nat.choose l (i + 1) : Nat) : Int)) = ((m - Nat.choose l (i + 1) : Nat) : Int) :=
      wrapInt_eq (by omega) (by omega)
    rw [hw1, hsub, hw2]
    clear hw1 hw2 hsub
    have hlb : l < bound := by
      by_contra hcon
      have : Nat.choose bound (i + 1) ≤ Nat.choose l (i + 1) := Nat.choose_le_choose _ (by omega)
      omega
    have hm' : m - Nat.choose l (i + 1) < Nat.choose l i := by
      rw [Nat.choose_succ_succ'] at h2
      omega
    obtain ⟨c', hc', hlen, hasc, hbd, hmx, hrk⟩ :=
      ih (m - Nat.choose l (i + 1)) l ((l : Int) :: acc) (by omega) (by omega) (by omega) hm'
    refine ⟨c' ++ [l], ?_, by simp [hlen], ?_, ?_, ?_, ?_⟩
    · rw [hc']; simp
    · rw [asc_concat]; exact ⟨hasc, hbd⟩
    · intro x hx
      rcases List.mem_append.mp hx with h | h
      · have := hbd x h; omega
      · simp at h; omega
    · intro x hx
      rcases List.mem_append.mp hx with h | h
      · have := hmx x h; omega
      · simp at h; omega
    · rw [rankNat_concat, hrk, hlen]; omega

theorem unrank_spec (r k fuel : Nat) (hr : r < 9223372036854775808) (hk : k + 1 < 9223372036854775808)
    (hf : r + 2 ≤ fuel) (hk1 : 1 ≤ k ∨ r = 0) :
    ∃ c : List Nat, unrank fuel (r : Int) (k : Int) = .ok (toInts c) ∧
      c.length = k ∧ Asc c ∧ (∀ x ∈ c, x ≤ max r k) ∧ rankNat c = r := by
  have hb : r < Nat.choose (r + k + 1) k := by
    rcases hk1 with h | h
    · have := le_choose (n := r + k + 1) (j := k) h (by omega)
      omega
    · subst h
      exact Nat.choose_pos (by omega)
  obtain ⟨c, hc, hlen, hasc, _, hmx, hrk⟩ := unrankLoop_spec fuel k r (r + k + 1) [] hr hk hf hb
  refine ⟨c, ?_, hlen, hasc, hmx, hrk⟩
  unfold unrank
  rw [if_neg (by omega), Int.toNat_natCast, hc]
  simp

/-- the loop of `Unrank` never runs out of fuel `rank + 2`, whatever `k` -/
theorem unrank_fuel (r k fuel : Nat) (hr : r < 9223372036854775808) (hk : k + 1 < 9223372036854775808)
    (hf : r + 2 ≤ fuel) : ∃ c, unrank fuel (r : Int) (k : Int) = .ok c := by
  rcases Nat.eq_zero_or_pos k with h | h
  · subst h
    exact ⟨[], by simp [unrank, unrankLoop]⟩
  · obtain ⟨c, hc, _⟩ := unrank_spec r k fuel hr hk hf (Or.inl h)
    exact ⟨_, hc⟩


/-! ## `Coeff` -/

theorem coeff_neg {n : Int} (hn : n < 0) (k : Int) : coeff n k = .panic := by
  unfold coeff; rw [if_pos hn]

theorem coeff_ok {n k : Nat} (hn : n < 9223372036854775808) (hk : k < 9223372036854775808) {v : Int}
    (h : coeff (n : Int) (k : Int) = .ok v) :
    v = ((Nat.choose n k : Nat) : Int) ∧ Nat.choose n k ≤ 9223372036854775807 := by
  unfold coeff at h
  rw [if_neg (by omega), if_neg (by omega), toU64_nat n (by omega), toU64_nat k (by omega)] at h
  cases hc : coeffU64 n k with
  | ok c =>
    rw [hc] at h
    simp only at h
    have := coeffU64_exact_or_panic' n k c (by simp only [W]; omega) hc
    subst this
    rw [maxInt_val] at h
    split at h
    · cases h
    · next hle =>
      have hv := Outcome.ok.inj h
      rw [wrapInt_eq (by omega) (by omega)] at hv
      exact ⟨hv.symm, by omega⟩
  | panic => rw [hc] at h; cases h
  | outOfFuel => rw [hc] at h; cases h

theorem coeff_returns {n k : Nat} (hn : n < 9223372036854775808) (hk : k < 9223372036854775808)
    (hfit : k ≤ n → min k (n - k) * Nat.choose n k ≤ 9223372036854775807) :
    coeff (n : Int) (k : Int) = .ok ((Nat.choose n k : Nat) : Int) := by
  unfold coeff
  rw [if_neg (by omega), if_neg (by omega), toU64_nat n (by omega), toU64_nat k (by omega)]
  have hle : Nat.choose n k ≤ 9223372036854775807 := by
    rcases Nat.lt_or_ge n k with hkn | hkn
    · rw [Nat.choose_eq_zero_of_lt hkn]; omega
    · have h := hfit hkn
      rcases Nat.eq_zero_or_pos (min k (n - k)) with h0 | h0
      · have : k = 0 ∨ k = n := by omega
        rcases this with rfl | rfl
        · simp
        · simp
      · have : Nat.choose n k ≤ min k (n - k) * Nat.choose n k := Nat.le_mul_of_pos_left _ h0
        omega
  obtain ⟨c, hc⟩ : ∃ c, coeffU64 n k = .ok c := by
    rcases Nat.lt_or_ge n k with hkn | hkn
    · exact ⟨0, by unfold coeffU64; rw [if_pos hkn]⟩
    · exact coeffU64_returns_when_fits' n k hkn (by have := hfit hkn; simp only [W]; omega)
  have := coeffU64_exact_or_panic' n k c (by simp only [W]; omega) hc
  subst this
  rw [hc]
  simp only
  rw [maxInt_val, if_neg (by omega), wrapInt_eq (by omega) (by omega)]

/-! ## `Rank` -/

theorem addHasOverflowed_nat (a b : Nat) (ha : a < 9223372036854775808) (hb : b < 9223372036854775808) :
    addHasOverflowed (a : Int) (b : Int) =
      if a + b < 9223372036854775808 then (((a + b : Nat) : Int), false) else (wrapInt ((a : Int) + (b : Int)), true) := by
  unfold addHasOverflowed
  split
  · next h =>
    rw [wrapInt_eq (by omega) (by omega)]
    have h1 : ¬ ((a : Int) + (b : Int) < 0) := by omega
    have h2 : ¬ ((a : Int) < 0) := by omega
    simp [h1, h2]
  · next h =>
    have h0 := wrapInt_neg (x := (a : Int) + (b : Int)) (by omega) (by omega)
    have h2 : ¬ ((a : Int) < 0) := by omega
    have h3 : ¬ ((b : Int) < 0) := by omega
    simp [h0, h2, h3]

theorem rankLoop_ok : ∀ (c : List Int) (i acc : Nat) (r : Int), acc < 9223372036854775808 →
    (∀ x ∈ c, x < 9223372036854775808) → i + c.length < 9223372036854775808 →
    rankLoop i (acc : Int) c = .ok r →
    (∀ x ∈ c, 0 ≤ x) ∧ r = ((acc + rankFrom i (c.map Int.toNat) : Nat) : Int) ∧
      acc + rankFrom i (c.map Int.toNat) < 9223372036854775808 := by
  intro c
  induction c with
  | nil =>
    intro i acc r hacc _ _ h
    simp only [rankLoop] at h
    have := Outcome.ok.inj h
    simp [rankFrom, ← this, hacc]
  | cons v vs ih =>
    intro i acc r hacc hc hlen h
    unfold rankLoop at h
    by_cases hv : v < 0
    · rw [coeff_neg hv] at h; cases h
    · have hvn : v = ((v.toNat : Nat) : Int) := by omega
      have hvb : v.toNat < 9223372036854775808 := by
        have := hc v (by simp); omega
      have hi1 : (i : Int) + 1 = ((i + 1 : Nat) : Int) := by omega
      simp only [List.length_cons] at hlen
      rw [hvn, hi1] at h
      cases hcv : coeff ((v.toNat : Nat) : Int) ((i + 1 : Nat) : Int) with
      | ok cv =>
        rw [hcv] at h
        obtain ⟨hcv1, hcv2⟩ := coeff_ok hvb (by omega) hcv
        subst hcv1
        simp only at h
        rw [addHasOverflowed_nat acc _ hacc (by omega)] at h
        split at h
        · next hfit =>
          simp only [Bool.false_eq_true, if_false] at h
          obtain ⟨h1, h2, h3⟩ := ih (i + 1) _ r hfit (fun x hx => hc x (by simp [hx])) (by omega) h
          refine ⟨?_, ?_, ?_⟩
          · intro x hx
            rcases List.mem_cons.mp hx with rfl | hx
            · omega
            · exact h1 x hx
          · rw [h2]; simp only [List.map_cons, rankFrom]; congr 1; omega
          · simp only [List.map_cons, rankFrom]; omega
        · simp at h
      | panic => rw [hcv] at h; cases h
      | outOfFuel => rw [hcv] at h; cases h

/-- every term `C(c_j, j+1)` can be computed by `Coeff` -/
def termsFit : Nat → List Nat → Prop
  | _, [] => True
  | i, v :: vs => (i + 1 ≤ v → min (i + 1) (v - (i + 1)) * Nat.choose v (i + 1) ≤ 9223372036854775807) ∧ termsFit (i + 1) vs

theorem rankLoop_returns : ∀ (c : List Nat) (i acc : Nat), (∀ x ∈ c, x < 9223372036854775808) →
    i + c.length < 9223372036854775808 → termsFit i c → acc + rankFrom i c < 9223372036854775808 →
    rankLoop i (acc : Int) (toInts c) = .ok ((acc + rankFrom i c : Nat) : Int) := by
  intro c
  induction c with
  | nil => intro i acc _ _ _ _; simp [rankLoop, rankFrom]
  | cons v vs ih =>
    intro i acc hc hlen hfit hsum
    simp only [List.length_cons] at hlen
    simp only [rankFrom] at hsum
    have hi1 : (i : Int) + 1 = ((i + 1 : Nat) : Int) := by omega
    rw [toInts_cons]
    unfold rankLoop
    simp only
    rw [hi1, coeff_returns (hc v (by simp)) (by omega) hfit.1]
    simp only
    have hadd : addHasOverflowed (acc : Int) ((Nat.choose v (i + 1) : Nat) : Int) =
        (((acc + Nat.choose v (i + 1) : Nat) : Int), false) := by
      have hlt : acc + Nat.choose v (i + 1) < 9223372036854775808 := by omega
      rw [addHasOverflowed_nat acc (Nat.choose v (i + 1)) (by omega) (by omega), if_pos hlt]
    rw [hadd]
    simp only [Bool.false_eq_true, if_false]
    rw [ih (i + 1) _ (fun x hx => hc x (by simp [hx])) (by omega) hfit.2 (by omega)]
    simp only [rankFrom]
    congr 2; omega


theorem toInts_toNat (c : List Nat) : (toInts c).map Int.toNat = c := by
  induction c with
  | nil => rfl
  | cons a l ih => simp [ih]

theorem toInts_mem_lt {c : List Nat} {B : Int} (h : ∀ x ∈ c, (x : Int) < B) : ∀ y ∈ toInts c, y < B := by
  induction c with
  | nil => intro y hy; simp at hy
  | cons a l ih =>
    intro y hy
    simp only [toInts_cons, List.mem_cons] at hy
    rcases hy with rfl | hy
    · exact h a (by simp)
    · exact ih (fun x hx => h x (by simp [hx])) y hy

theorem coeffU64_ne_outOfFuel (n k : Nat) : coeffU64 n k ≠ .outOfFuel := by
  rcases Nat.lt_or_ge n k with hkn | hkn
  · unfold coeffU64; rw [if_pos hkn]; intro h; cases h
  · rw [coeffU64_unfold n k hkn]
    generalize kred n k = k'
    split
    · intro h; cases h
    · split
      · split
        · intro h; cases h
        · split <;> (intro h; cases h)
      · split
        · intro h; cases h
        · split
          · intro h; cases h
          · split <;> (intro h; cases h)

theorem coeff_ne_outOfFuel (n k : Int) : coeff n k ≠ .outOfFuel := by
  unfold coeff
  split
  · intro h; cases h
  · split
    · intro h; cases h
    · cases hc : coeffU64 (toU64 n) (toU64 k) with
      | ok c => simp only; split <;> (intro h; cases h)
      | panic => intro h; cases h
      | outOfFuel => exact absurd hc (coeffU64_ne_outOfFuel _ _)

theorem rankLoop_ne_outOfFuel : ∀ (c : List Int) (i : Nat) (acc : Int), rankLoop i acc c ≠ .outOfFuel := by
  intro c
  induction c with
  | nil => intro i acc h; simp [rankLoop] at h
  | cons v vs ih =>
    intro i acc
    unfold rankLoop
    cases hcv : coeff v ((i : Int) + 1) with
    | ok cv =>
      simp only
      rcases hadd : addHasOverflowed acc cv with ⟨r, o⟩
      cases o
      · simp only [Bool.false_eq_true, if_false]; exact ih _ _
      · simp
    | panic => intro h; cases h
    | outOfFuel => exact absurd hcv (coeff_ne_outOfFuel _ _)

/-! ## colex successor -/

/-- successor in colex order of a strictly increasing list whose head sits at position `j`: increase the first
element that can be increased and reset everything before it to `0, 1, 2, …` -/
def colexSuccAux : Nat → List Nat → List Nat
  | _, [] => []
  | _, [v] => [v + 1]
  | j, v :: w :: rest => if v + 1 < w then (v + 1) :: w :: rest else j :: colexSuccAux (j + 1) (w :: rest)

def colexSucc (c : List Nat) : List Nat := colexSuccAux 0 c

theorem rankFrom_colexSuccAux : ∀ (c : List Nat) (j v : Nat), Asc c → c.head? = some v →
    rankFrom j (colexSuccAux j c) = rankFrom j c + Nat.choose v j := by
  intro c
  induction c with
  | nil => intro j v _ h; simp at h
  | cons a l ih =>
    intro j v hasc hv
    simp only [List.head?_cons, Option.some.injEq] at hv
    subst hv
    cases l with
    | nil =>
      simp only [colexSuccAux, rankFrom, Nat.choose_succ_succ']
      omega
    | cons w rest =>
      unfold colexSuccAux
      have haw : a < w := (List.pairwise_cons.mp hasc).1 w (by simp)
      split
      · simp only [rankFrom, Nat.choose_succ_succ']
        omega
      · next hn =>
        have hw : w = a + 1 := by omega
        subst hw
        have := ih (j + 1) (a + 1) (List.pairwise_cons.mp hasc).2 (by simp)
        simp only [rankFrom] at this ⊢
        rw [this, Nat.choose_succ_self]
        have e1 := Nat.choose_succ_succ' a j
        omega

theorem colexSuccAux_asc : ∀ (c : List Nat) (j : Nat), Asc c → (∀ x ∈ c, j ≤ x) →
    Asc (colexSuccAux j c) ∧ (∀ x ∈ colexSuccAux j c, j ≤ x) ∧ (colexSuccAux j c).length = c.length := by
  intro c
  induction c with
  | nil => intro j _ _; simp [colexSuccAux]
  | cons a l ih =>
    intro j hasc hlb
    cases l with
    | nil =>
      simp only [colexSuccAux, List.pairwise_cons, List.length_cons, List.length_nil]
      have := hlb a (by simp)
      simp
      omega
    | cons w rest =>
      unfold colexSuccAux
      obtain ⟨ha, hrest⟩ := List.pairwise_cons.mp hasc
      have haw : a < w := ha w (by simp)
      split
      · next h =>
        refine ⟨?_, ?_, by simp⟩
        · refine List.pairwise_cons.mpr ⟨?_, hrest⟩
          intro x hx
          rcases List.mem_cons.mp hx with rfl | hx
          · exact h
          · have := (List.pairwise_cons.mp hrest).1 x hx
            omega
        · intro x hx
          rcases List.mem_cons.mp hx with rfl | hx
          · have := hlb a (by simp); omega
          · exact hlb x (by simp [hx])
      · next h =>
        obtain ⟨h1, h2, h3⟩ := ih (j + 1) hrest (by
          intro x hx
          rcases List.mem_cons.mp hx with rfl | hx
          · have := hlb a (by simp); omega
          · have := (List.pairwise_cons.mp hrest).1 x hx
            have := hlb a (by simp); omega)
        refine ⟨?_, ?_, by simp [h3]⟩
        · refine List.pairwise_cons.mpr ⟨?_, h1⟩
          intro x hx
          have := h2 x hx
          omega
        · intro x hx
          rcases List.mem_cons.mp hx with rfl | hx
          · exact le_refl _
          · have := h2 x hx; omega

theorem rankNat_colexSucc (c : List Nat) (hne : c ≠ []) (hasc : Asc c) :
    rankNat (colexSucc c) = rankNat c + 1 := by
  cases c with
  | nil => exact absurd rfl hne
  | cons a l =>
    have := rankFrom_colexSuccAux (a :: l) 0 a hasc rfl
    simpa [rankNat, colexSucc] using this

theorem colexSucc_asc (c : List Nat) (hasc : Asc c) :
    Asc (colexSucc c) ∧ (colexSucc c).length = c.length := by
  obtain ⟨h1, _, h3⟩ := colexSuccAux_asc c 0 hasc (fun _ _ => Nat.zero_le _)
  exact ⟨h1, h3⟩


theorem two63 : (2 : Int) ^ 63 = 9223372036854775808 := by norm_num
theorem two63n : (2 : Nat) ^ 63 = 9223372036854775808 := by norm_num


/-! ## `Coeffs` -/

/-- row `i` of Pascal's triangle, entries `0 .. i/2`, as `int`s -/
def rowSpec (i : Nat) : Array Int := ((List.range (i / 2 + 1)).map (fun j => ((Nat.choose i j : Nat) : Int))).toArray

/-- the first `n` rows -/
def rowsSpec (n : Nat) : Array (Array Int) := ((List.range n).map rowSpec).toArray

/-- every entry of row `i` fits an `int` -/
def RowFits (i : Nat) : Prop := ∀ j, j ≤ i / 2 → Nat.choose i j < 9223372036854775808

theorem rowSpec_get {i j : Nat} (h : j ≤ i / 2) : (rowSpec i)[j]? = some ((Nat.choose i j : Nat) : Int) := by
  unfold rowSpec
  rw [List.getElem?_toArray, List.getElem?_map, List.getElem?_range (by omega)]
  rfl

theorem rowsSpec_get {n i : Nat} (h : i < n) : (rowsSpec n)[i]? = some (rowSpec i) := by
  unfold rowsSpec
  rw [List.getElem?_toArray, List.getElem?_map, List.getElem?_range h]
  rfl

/-- the two summands of entry `(i+1, j'+1)` as the code picks them add up to `C(i+1, j'+1)` -/
theorem pascal_sum (i j' : Nat) :
    Nat.choose i j' + (if 2 * (j' + 1) ≠ i + 1 then Nat.choose i (j' + 1) else Nat.choose i j') =
      Nat.choose (i + 1) (j' + 1) := by
  rw [Nat.choose_succ_succ']
  split
  · rfl
  · next h =>
    have hi : i = 2 * j' + 1 := by omega
    subst hi
    rw [Nat.choose_symm_half]

theorem coeffsRowLoop_spec (rows : Array (Array Int)) (i : Nat) (hprev : prevRow rows (i + 1) = some (rowSpec i))
    (hfit : RowFits i) :
    ∀ s j, 1 ≤ j → j + s = (i + 1) / 2 + 1 →
      ((∀ j', j ≤ j' → j' ≤ (i + 1) / 2 → Nat.choose (i + 1) j' < 9223372036854775808) →
        coeffsRowLoop rows (i + 1) s j ((List.range j).map (fun j => ((Nat.choose (i + 1) j : Nat) : Int))).toArray
          = .ok (rowSpec (i + 1))) ∧
      ((∃ j', j ≤ j' ∧ j' ≤ (i + 1) / 2 ∧ 9223372036854775808 ≤ Nat.choose (i + 1) j') →
        coeffsRowLoop rows (i + 1) s j ((List.range j).map (fun j => ((Nat.choose (i + 1) j : Nat) : Int))).toArray
          = .panic) := by
  intro s
  induction s with
  | zero =>
    intro j hj hs
    refine ⟨fun _ => ?_, fun ⟨j', h1, h2, _⟩ => by omega⟩
    unfold coeffsRowLoop rowSpec
    rw [show (i + 1) / 2 + 1 = j by omega]
  | succ s ih =>
    intro j hj hs
    obtain ⟨j', rfl⟩ : ∃ j', j = j' + 1 := ⟨j - 1, by omega⟩
    -- one iteration, in general
    have hstep : ∀ tmp, coeffsRowLoop rows (i + 1) (s + 1) (j' + 1) tmp =
        if Nat.choose (i + 1) (j' + 1) < 9223372036854775808 then
          coeffsRowLoop rows (i + 1) s (j' + 1 + 1) (tmp.push ((Nat.choose (i + 1) (j' + 1) : Nat) : Int))
        else .panic := by
      intro tmp
      rw [coeffsRowLoop, hprev]
      simp only [Nat.add_sub_cancel]
      rw [rowSpec_get (by omega)]
      simp only
      have hb : (if 2 * (j' + 1) ≠ i + 1 then (rowSpec i)[j' + 1]? else some ((Nat.choose i j' : Nat) : Int)) =
          some (((if 2 * (j' + 1) ≠ i + 1 then Nat.choose i (j' + 1) else Nat.choose i j' : Nat)) : Int) := by
        split
        · rw [rowSpec_get (by omega)]
        · rfl
      rw [hb]
      simp only
      have ha1 := hfit j' (by omega)
      have ha2 : (if 2 * (j' + 1) ≠ i + 1 then Nat.choose i (j' + 1) else Nat.choose i j') < 9223372036854775808 := by
        split
        · exact hfit (j' + 1) (by omega)
        · exact ha1
      rw [addHasOverflowed_nat _ _ ha1 ha2, pascal_sum]
      split
      · simp
      · simp
    have hnext : ((List.range (j' + 1)).map (fun j => ((Nat.choose (i + 1) j : Nat) : Int))).toArray.push
          ((Nat.choose (i + 1) (j' + 1) : Nat) : Int) =
        ((List.range (j' + 1 + 1)).map (fun j => ((Nat.choose (i + 1) j : Nat) : Int))).toArray := by
      rw [List.push_toArray, List.range_succ (n := j' + 1), List.map_append]
      rfl
    obtain ⟨ihA, ihB⟩ := ih (j' + 1 + 1) (by omega) (by omega)
    rw [hstep]
    constructor
    · intro hall
      rw [if_pos (hall (j' + 1) (le_refl _) (by omega)), hnext]
      exact ihA (fun j'' h1 h2 => hall j'' (by omega) h2)
    · intro ⟨w, h1, h2, h3⟩
      split
      · next hlt =>
        rw [hnext]
        have : w ≠ j' + 1 := by intro h; subst h; omega
        exact ihB ⟨w, by omega, h2, h3⟩
      · rfl

theorem rowFits_zero : RowFits 0 := by
  intro j hj
  have : j = 0 := by omega
  subst this
  simp

/-- row `i` computed from the exact rows `0..i-1`: exact if it fits, panic otherwise -/
theorem coeffsRow_spec (i : Nat) (hprev : ∀ i', i' < i → RowFits i') :
    (RowFits i → coeffsRowLoop (rowsSpec i) i (i / 2) 1 #[1] = .ok (rowSpec i)) ∧
    (¬ RowFits i → coeffsRowLoop (rowsSpec i) i (i / 2) 1 #[1] = .panic) := by
  cases i with
  | zero => exact ⟨fun _ => by decide, fun h => absurd rowFits_zero h⟩
  | succ i =>
    have hp : prevRow (rowsSpec (i + 1)) (i + 1) = some (rowSpec i) := by
      unfold prevRow
      rw [if_neg (by omega), Nat.add_sub_cancel, rowsSpec_get (by omega)]
    obtain ⟨hA, hB⟩ := coeffsRowLoop_spec (rowsSpec (i + 1)) i hp (hprev i (by omega)) ((i + 1) / 2) 1 (le_refl _) (by omega)
    have h1 : ((List.range 1).map (fun j => ((Nat.choose (i + 1) j : Nat) : Int))).toArray = #[1] := by
      simp
    rw [h1] at hA hB
    constructor
    · intro hf
      exact hA (fun j' _ h2 => hf j' h2)
    · intro hf
      apply hB
      unfold RowFits at hf
      simp only [not_forall, not_lt, exists_prop] at hf
      obtain ⟨w, hw1, hw2⟩ := hf
      have : w ≠ 0 := by intro h; subst h; simp at hw2
      exact ⟨w, by omega, hw1, hw2⟩

theorem rowsSpec_push (i : Nat) : (rowsSpec i).push (rowSpec i) = rowsSpec (i + 1) := by
  unfold rowsSpec
  rw [List.push_toArray, List.range_succ, List.map_append]
  rfl

theorem coeffsLoop_spec : ∀ s i, (∀ i', i' < i → RowFits i') →
    ((∀ i', i ≤ i' → i' < i + s → RowFits i') → coeffsLoop s i (rowsSpec i) = .ok (rowsSpec (i + s))) ∧
    ((∃ i', i ≤ i' ∧ i' < i + s ∧ ¬ RowFits i') → coeffsLoop s i (rowsSpec i) = .panic) := by
  intro s
  induction s with
  | zero => intro i _; exact ⟨fun _ => rfl, fun ⟨i', h1, h2, _⟩ => by omega⟩
  | succ s ih =>
    intro i hprev
    obtain ⟨rA, rB⟩ := coeffsRow_spec i hprev
    constructor
    · intro hall
      have hfi := hall i (le_refl _) (by omega)
      unfold coeffsLoop
      rw [rA hfi]
      simp only
      rw [rowsSpec_push]
      have := (ih (i + 1) (fun i' h => by
        rcases Nat.lt_or_ge i' i with h' | h'
        · exact hprev i' h'
        · have : i' = i := by omega
          subst this; exact hfi)).1 (fun i' h1 h2 => hall i' (by omega) (by omega))
      rw [this]
      congr 2; omega
    · intro ⟨w, h1, h2, h3⟩
      unfold coeffsLoop
      by_cases hfi : RowFits i
      · rw [rA hfi]
        simp only
        rw [rowsSpec_push]
        have : w ≠ i := by intro h; subst h; exact h3 hfi
        exact (ih (i + 1) (fun i' h => by
          rcases Nat.lt_or_ge i' i with h' | h'
          · exact hprev i' h'
          · have : i' = i := by omega
            subst this; exact hfi)).2 ⟨w, by omega, by omega, h3⟩
      · rw [rB hfi]

theorem coeffs_unfold (n : Nat) : coeffs (n : Int) = coeffsLoop (n + 1) 0 (rowsSpec 0) := by
  unfold coeffs
  rw [if_neg (by omega)]
  have : ((n : Int) + 1).toNat = n + 1 := by omega
  rw [this]
  rfl

/-! threshold: row 66 fits, row 67 does not -/

theorem choose_66_33 : chooseMul 33 33 < 9223372036854775808 := by decide
theorem choose_67_33 : 9223372036854775808 ≤ chooseMul 34 33 := by decide

theorem rowFits_iff (i : Nat) : RowFits i ↔ i ≤ 66 := by
  constructor
  · intro h
    by_contra hcon
    have h1 := h (i / 2) (le_refl _)
    have h2 : Nat.choose 67 33 ≤ Nat.choose i 33 := Nat.choose_le_choose 33 (by omega)
    have h3 : Nat.choose i 33 ≤ Nat.choose i (i / 2) := Nat.choose_le_middle 33 i
    have h4 : 9223372036854775808 ≤ Nat.choose 67 33 := by
      have := choose_67_33
      rwa [chooseMul_eq] at this
    omega
  · intro h j _
    have h1 : Nat.choose i j ≤ Nat.choose 66 j := Nat.choose_le_choose j h
    have h2 : Nat.choose 66 j ≤ Nat.choose 66 33 := Nat.choose_le_middle j 66
    have h3 : Nat.choose 66 33 < 9223372036854775808 := by
      have := choose_66_33
      rwa [chooseMul_eq] at this
    omega

/-! ## `Unrank` outside the property's domain: `k = 0`, negative rank -/

theorem unrank_k_zero (fuel : Nat) (r : Int) : unrank fuel r 0 = .ok [] := by
  simp [unrank, unrankLoop]

theorem unrankLoop_neg (f : Nat) (m : Int) (hm : m < 0) (hm' : -9223372036854775808 ≤ m) :
    ∀ cnt acc, unrankLoop (f + 1) cnt m acc = .ok (toInts (List.range cnt) ++ acc) := by
  intro cnt
  induction cnt with
  | zero => intro acc; simp [unrankLoop]
  | succ i ih =>
    intro acc
    unfold unrankLoop unrankInner
    rw [if_neg (by omega)]
    simp only
    have h0 : wrapInt ((0 : Nat) : Int) = 0 := by decide
    rw [h0, Int.sub_zero, wrapInt_eq hm' (by omega), ih]
    rw [List.range_succ, toInts_append]
    simp


end Model

end Comb
