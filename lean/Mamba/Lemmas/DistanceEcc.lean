import Mamba.Lemmas.DistanceBfs
/-!
# Lemmas for C10: eccentricity, diameter, radius unfold to their definitions
-/
namespace GDist
open GraphSpec

theorem distRow_eq (g : G) (s : Nat) : distRow g s = (List.range g.n).map (dist g s) := rfl

theorem le_listMax {l : List Nat} {x : Nat} (h : x ∈ l) : x ≤ listMax l := by
  induction l with
  | nil => cases h
  | cons a t ih =>
    simp only [listMax]
    rcases List.mem_cons.1 h with rfl | h
    · exact Nat.le_max_left _ _
    · exact Nat.le_trans (ih h) (Nat.le_max_right _ _)

theorem listMax_mem {l : List Nat} (h : l ≠ []) : listMax l ∈ l := by
  induction l with
  | nil => exact absurd rfl h
  | cons a t ih =>
    simp only [listMax]
    by_cases ht : t = []
    · subst ht; simp [listMax]
    · rcases Nat.le_total a (listMax t) with hle | hle
      · rw [Nat.max_eq_right hle]; exact List.mem_cons_of_mem _ (ih ht)
      · rw [Nat.max_eq_left hle]; exact List.mem_cons_self

theorem le_listMaxInt {l : List Int} {x : Int} (h : x ∈ l) : x ≤ listMaxInt l := by
  induction l with
  | nil => cases h
  | cons a t ih =>
    cases t with
    | nil => simp at h; subst h; simp [listMaxInt]
    | cons b t' =>
      simp only [listMaxInt]
      rcases List.mem_cons.1 h with rfl | h
      · exact Int.le_max_left _ _
      · exact Int.le_trans (ih h) (Int.le_max_right _ _)

theorem listMaxInt_mem {l : List Int} (h : l ≠ []) : listMaxInt l ∈ l := by
  induction l with
  | nil => exact absurd rfl h
  | cons a t ih =>
    cases t with
    | nil => simp [listMaxInt]
    | cons b t' =>
      simp only [listMaxInt]
      have ih' := ih (by simp)
      rcases Int.le_total a (listMaxInt (b :: t')) with hle | hle
      · rw [Int.max_eq_right hle]; exact List.mem_cons_of_mem _ ih'
      · rw [Int.max_eq_left hle]; exact List.mem_cons_self

theorem listMinInt_le {l : List Int} {x : Int} (h : x ∈ l) : listMinInt l ≤ x := by
  induction l with
  | nil => cases h
  | cons a t ih =>
    cases t with
    | nil => simp at h; subst h; simp [listMinInt]
    | cons b t' =>
      simp only [listMinInt]
      rcases List.mem_cons.1 h with rfl | h
      · exact Int.min_le_left _ _
      · exact Int.le_trans (Int.min_le_right _ _) (ih h)

theorem listMinInt_mem {l : List Int} (h : l ≠ []) : listMinInt l ∈ l := by
  induction l with
  | nil => exact absurd rfl h
  | cons a t ih =>
    cases t with
    | nil => simp [listMinInt]
    | cons b t' =>
      simp only [listMinInt]
      have ih' := ih (by simp)
      rcases Int.le_total a (listMinInt (b :: t')) with hle | hle
      · rw [Int.min_eq_left hle]; exact List.mem_cons_self
      · rw [Int.min_eq_right hle]; exact List.mem_cons_of_mem _ ih'

/-- the executable connectivity test: every ordered pair of vertices is joined by a walk -/
theorem connectedB_iff (g : G) : connectedB g = true ↔ ∀ s x, s < g.n → x < g.n → Reach g s x := by
  simp only [connectedB, distRow_eq, List.all_eq_true, List.mem_range, List.mem_map]
  constructor
  · intro h s x hs hx
    have := h s hs (dist g s x) ⟨x, hx, rfl⟩
    exact distIn_isSome_iff.1 this
  · rintro h s hs o ⟨x, hx, rfl⟩
    exact distIn_isSome_iff.2 (h s x hs hx)

theorem eccNat_isEcc {g : G} (hc : connectedB g = true) {v : Nat} (hv : v < g.n) : IsEcc g v (eccNat g v) := by
  have hreach := (connectedB_iff g).1 hc
  have hd : ∀ x, x < g.n → ∃ k, dist g v x = some k := by
    intro x hx
    exact Option.isSome_iff_exists.1 (distIn_isSome_iff.2 (hreach v x hv hx))
  constructor
  · intro x hx
    obtain ⟨k, hk⟩ := hd x hx
    refine ⟨k, distIn_eq_some_iff.1 hk, ?_⟩
    apply le_listMax
    simp only [distRow_eq, List.map_map, List.mem_map, List.mem_range]
    exact ⟨x, hx, by simp [hk]⟩
  · have hne : (distRow g v).map (fun o => o.getD 0) ≠ [] := by
      simp only [distRow_eq, List.map_map, ne_eq, List.map_eq_nil_iff, List.range_eq_nil]
      omega
    have hm := listMax_mem hne
    simp only [distRow_eq, List.map_map, List.mem_map, List.mem_range] at hm
    obtain ⟨x, hx, hxe⟩ := hm
    obtain ⟨k, hk⟩ := hd x hx
    refine ⟨x, hx, ?_⟩
    have : k = eccNat g v := by
      simp only [Function.comp, hk, Option.getD_some] at hxe
      simpa [eccNat, distRow_eq, List.map_map] using hxe
    subst this
    exact distIn_eq_some_iff.1 hk

theorem IsEcc.unique {g : G} {v e e' : Nat} (h : IsEcc g v e) (h' : IsEcc g v e') : e = e' := by
  obtain ⟨x, hx, hxe⟩ := h.2
  obtain ⟨x', hx', hxe'⟩ := h'.2
  obtain ⟨k, hk, hke⟩ := h'.1 x hx
  obtain ⟨k', hk', hke'⟩ := h.1 x' hx'
  have := hk.unique hxe
  have := hk'.unique hxe'
  omega

theorem eccs_eq (g : G) : eccs g = (List.range g.n).map (ecc g) := by
  unfold eccs ecc
  by_cases hc : connectedB g = true <;> simp [hc]

end GDist
