import Mamba.Lemmas.DistanceBiconBlk
import Mathlib.Data.List.Forall2
/-!
# The partial blocks (`bicoms`) and the emitted blocks of the `BiconnectedComponents` model: invariant
-/
namespace GDist
open GraphSpec Model

/-- the invariant on `bicoms` / `out` (for a state with a non-empty stack); `cs` lists the vertices whose block has
been emitted, in order -/
structure BK (h : G) (com : List Nat) (out0 : List (List Nat)) (st : BicSt) (tp : Nat → Nat) (cs : List Nat) :
    Prop where
  btop : ∀ b ∈ st.bicoms, ∀ x, b.getLast? = some x →
    x < h.n ∧ bvis st x ∧ x ∉ st.toCheck ∧ x ≠ 0 ∧ tp x ∈ st.toCheck ∧ pa st x = (tp x : Int)
  bmem : ∀ b ∈ st.bicoms, ∀ x, b.getLast? = some x → ∀ y, y ∈ b ↔ (y < h.n ∧ bvis st y ∧ NL st tp x y)
  bnd : st.bicoms.flatten.Nodup
  bord : st.bicoms.Pairwise
    (fun b b' => ∀ x x', b.getLast? = some x → b'.getLast? = some x' → dI st x ≤ dI st x')
  bcur : ∀ cur x v rest, st.bicoms.getLast? = some cur → cur.getLast? = some x → st.toCheck = v :: rest → tp x = v
  bcov : ∀ x, x < h.n → bvis st x → x ∉ st.toCheck → x ≠ 0 → tp x ∈ st.toCheck → pa st x = (tp x : Int) →
    ∃ b ∈ st.bicoms, b.getLast? = some x
  bpend : ∀ c, c < h.n → bvis st c → c ∉ st.toCheck → c ≠ 0 → pa st c = (tp c : Int) → tp c ≠ 0 →
    lo st c ≥ dI st (tp c) → ∃ cur, st.bicoms.getLast? = some cur ∧ cur.getLast? = some c
  broot : st.toCheck = [0] → st.bicoms.getLast? = some [] → ∀ x, x < h.n → bvis st x → x = 0
  out : ∃ E, st.out = out0 ++ E ∧ List.Forall₂ (IsBlk h com st tp) E cs
  csmem : ∀ c, c ∈ cs ↔ (c < h.n ∧ bvis st c ∧ c ≠ 0 ∧ pa st c = -1)
  csnd : cs.Nodup

variable {h : G} {com : List Nat} {out0 : List (List Nat)} {st : BicSt} {tp : Nat → Nat} {cs : List Nat}

theorem getLast?_some_of_ne_nil {α : Type} {l : List α} (h : l ≠ []) : ∃ x, l.getLast? = some x :=
  getLast?_isSome_of_ne_nil h

theorem mem_of_getLast?' {α : Type} {l : List α} {x : α} (h : l.getLast? = some x) : x ∈ l :=
  List.mem_of_getLast? h

/-- every vertex of a partial block is finished -/
theorem BK.mem_fin (bk : BK h com out0 st tp cs) (dt : DT h st tp) {b : List Nat} (hb : b ∈ st.bicoms) {y : Nat}
    (hy : y ∈ b) : y < h.n ∧ bvis st y ∧ y ∉ st.toCheck := by
  obtain ⟨x, hx⟩ := getLast?_some_of_ne_nil (List.ne_nil_of_mem hy)
  obtain ⟨h1, h2, h3⟩ := (bk.bmem b hb x hx y).1 hy
  exact ⟨h1, h2, dt.sub_finished (bk.btop b hb x hx).2.2.1 h3.1⟩

theorem DT.top_max (dt : DT h st tp) {v : Nat} {rest : List Nat} (hstk : st.toCheck = v :: rest) :
    ∀ y ∈ rest, dI st y < dI st v := by
  have := dt.sdec
  rw [hstk] at this
  exact (List.pairwise_cons.1 this).1

theorem DT.top_not_in_rest (dt : DT h st tp) {v : Nat} {rest : List Nat} (hstk : st.toCheck = v :: rest) :
    v ∉ rest := fun hm => by
  have := dt.top_max hstk v hm
  omega

theorem DT.stack_depth_le (dt : DT h st tp) {v : Nat} {rest : List Nat} (hstk : st.toCheck = v :: rest)
    {y : Nat} (hy : y ∈ st.toCheck) : dI st y ≤ dI st v ∧ (dI st y = dI st v → y = v) := by
  rw [hstk] at hy
  rcases List.mem_cons.1 hy with rfl | hy
  · exact ⟨Int.le_refl _, fun _ => rfl⟩
  · have := dt.top_max hstk y hy
    exact ⟨by omega, fun h0 => by omega⟩

/-- a child of the top of the stack that is not the top itself is finished -/
theorem DT.child_of_top_fin (dt : DT h st tp) {v c : Nat} {rest : List Nat} (hstk : st.toCheck = v :: rest)
    (hc : c < h.n) (hcv : bvis st c) (htc : tp c = v) (hne : c ≠ v) : c ∉ st.toCheck := by
  intro hm
  have hp := dt.path
  rw [hstk] at hp hm
  have h1 := stackPath_anc rest v hp c hm
  have hvs : v ∈ st.toCheck := by rw [hstk]; exact List.mem_cons_self
  obtain ⟨hvn, hvv⟩ := dt.svis v hvs
  exact hne (dt.anc_antisymm hvn hvv h1 (anc_of_parent htc))

/-- the parent of the top of the stack is the next vertex of the stack -/
theorem DT.parent_of_top (dt : DT h st tp) {v : Nat} {rest : List Nat} (hstk : st.toCheck = v :: rest)
    (hv0 : v ≠ 0) : ∃ rest', rest = tp v :: rest' := by
  have hp := dt.path
  rw [hstk] at hp
  cases rest with
  | nil => exact absurd hp hv0
  | cons p rest' => exact ⟨rest', by rw [hp.1]⟩

theorem bvis_descendSt (dt : DT h st tp) {v u : Nat} {rest cur : List Nat} (hstk : st.toCheck = v :: rest)
    (hu : u < h.n) (x : Nat) : bvis (descendSt st v u cur) x ↔ (x = u ∨ bvis st x) := by
  have hvs : v ∈ st.toCheck := by rw [hstk]; exact List.mem_cons_self
  obtain ⟨hvn, hvv⟩ := dt.svis v hvs
  have huD : u < st.depths.size := by rw [dt.ok.dsz]; exact hu
  unfold bvis
  rw [dI_descendSt huD]
  have := dt.dnn v hvv
  by_cases hxu : x = u
  · simp only [hxu, if_true, true_or, iff_true]; omega
  · simp only [hxu, if_false, false_or]

theorem bk_descend (dt : DT h st tp) (la : LA h st tp) (bk : BK h com out0 st tp cs) {v u : Nat}
    {rest cur : List Nat} (hstk : st.toCheck = v :: rest) (hu : u < h.n) (hunv : ¬ bvis st u)
    (hcur : st.bicoms.getLast? = some cur)
    (hnopend : ∀ c, c < h.n → bvis st c → c ∉ st.toCheck → c ≠ 0 → pa st c = (v : Int) → v ≠ 0 →
      lo st c ≥ dI st v → False) :
    BK h com out0 (descendSt st v u cur) (Function.update tp u v) cs := by
  have hvs : v ∈ st.toCheck := by rw [hstk]; exact List.mem_cons_self
  obtain ⟨hvn, hvv⟩ := dt.svis v hvs
  have huD : u < st.depths.size := by rw [dt.ok.dsz]; exact hu
  have huL : u < st.low.size := by rw [dt.ok.lsz]; exact hu
  have huP : u < st.parents.size := by rw [dt.ok.psz]; exact hu
  have hd : ∀ x, dI (descendSt st v u cur) x = if x = u then dI st v + 1 else dI st x := dI_descendSt huD
  have hl : ∀ x, lo (descendSt st v u cur) x = if x = u then dI st v + 1 else lo st x := lo_descendSt huL
  have hp : ∀ x, pa (descendSt st v u cur) x = if x = u then (v : Int) else pa st x := pa_descendSt huP
  have hvis := bvis_descendSt (cur := cur) dt hstk hu
  have hstk' : (descendSt st v u cur).toCheck = u :: st.toCheck := rfl
  have hbic : (descendSt st v u cur).bicoms = if cur.length > 0 then st.bicoms ++ [[]] else st.bicoms := rfl
  have hne_u : ∀ x, bvis st x → x ≠ u := fun x hx h0 => hunv (h0 ▸ hx)
  have htp : ∀ x, x ≠ u → Function.update tp u v x = tp x := fun x hx => by simp [Function.update, hx]
  have hmemb : ∀ b, b ∈ (descendSt st v u cur).bicoms → b ∈ st.bicoms ∨ b = [] := by
    intro b hb
    rw [hbic] at hb
    split at hb
    · rcases List.mem_append.1 hb with h0 | h0
      · exact .inl h0
      · simp at h0; exact .inr h0
    · exact .inl hb
  have hsubb : ∀ b, b ∈ st.bicoms → b ∈ (descendSt st v u cur).bicoms := by
    intro b hb
    rw [hbic]
    split
    · exact List.mem_append.2 (.inl hb)
    · exact hb
  have hA : ∀ a z, z < h.n → bvis st z → (Anc (Function.update tp u v) a z ↔ Anc tp a z) :=
    fun a z hz hzv => anc_update_iff dt hunv hz hzv
  have hL : ∀ z, z < h.n → bvis st z → z ∉ st.toCheck → z ≠ 0 →
      lo (descendSt st v u cur) z = lo st z ∧
        dI (descendSt st v u cur) (Function.update tp u v z) = dI st (tp z) := by
    intro z hz hzv _ hz0
    have hzu := hne_u z hzv
    obtain ⟨_, h2, _, _⟩ := dt.tree z hz hzv hz0
    rw [hl, htp z hzu, hd]
    simp [hzu, hne_u _ h2]
  have hNL : ∀ x y, x ∉ st.toCheck → y < h.n → bvis st y →
      (NL (descendSt st v u cur) (Function.update tp u v) x y ↔ NL st tp x y) :=
    fun x y hxs hy hyv => NL_congr dt hA hL (fun z hz _ => dt.sub_finished hxs hz) hy hyv
  -- the new vertex is below no finished vertex
  have hnew : ∀ x, x < h.n → bvis st x → x ∉ st.toCheck →
      ¬ NL (descendSt st v u cur) (Function.update tp u v) x u := by
    intro x hx hxv hxs hn
    have hxu : u ≠ x := fun h0 => hunv (h0 ▸ hxv)
    have h1 := anc_parent_of_ne hn.1 hxu
    simp only [Function.update_self] at h1
    have h2 := (hA x v hvn hvv).1 h1
    exact dt.sub_finished hxs h2 hvs
  have hblk : ∀ S c, IsBlk h com st tp S c → IsBlk h com (descendSt st v u cur) (Function.update tp u v) S c := by
    rintro S c ⟨⟨hc, hcv, hcs, hc0⟩, hS, hm⟩
    have hcu := hne_u c hcv
    refine ⟨⟨hc, (hvis c).2 (.inr hcv), ?_, hc0⟩, hS, fun w => ?_⟩
    · rw [hstk']; intro hm'
      rcases List.mem_cons.1 hm' with h0 | h0
      · exact hcu h0
      · exact hcs h0
    · rw [hm w, htp c hcu]
      constructor
      · rintro ⟨y, hy, hyv, hyw, hor⟩
        refine ⟨y, hy, (hvis y).2 (.inr hyv), hyw, ?_⟩
        rcases hor with h0 | h0
        · exact .inl h0
        · exact .inr ((hNL c y hcs hy hyv).2 h0)
      · rintro ⟨y, hy, hyv, hyw, hor⟩
        have hyu : y ≠ u := by
          rintro rfl
          rcases hor with h0 | h0
          · exact hunv (h0 ▸ (dt.tree c hc hcv hc0).2.1)
          · exact hnew c hc hcv hcs h0
        have hyv' : bvis st y := by
          rcases (hvis y).1 hyv with h0 | h0
          · exact absurd h0 hyu
          · exact h0
        refine ⟨y, hy, hyv', hyw, ?_⟩
        rcases hor with h0 | h0
        · exact .inl h0
        · exact .inr ((hNL c y hcs hy hyv').1 h0)
  refine { btop := ?_, bmem := ?_, bnd := ?_, bord := ?_, bcur := ?_, bcov := ?_, bpend := ?_, broot := ?_,
           out := ?_, csmem := ?_, csnd := bk.csnd }
  · intro b hb x hx
    rcases hmemb b hb with hb' | hb'
    · obtain ⟨h1, h2, h3, h4, h5, h6⟩ := bk.btop b hb' x hx
      have hxu := hne_u x h2
      refine ⟨h1, (hvis x).2 (.inr h2), ?_, h4, ?_, ?_⟩
      · rw [hstk']; intro hm
        rcases List.mem_cons.1 hm with h0 | h0
        · exact hxu h0
        · exact h3 h0
      · rw [htp x hxu, hstk']; exact List.mem_cons_of_mem _ h5
      · rw [hp, htp x hxu]; simp [hxu, h6]
    · subst hb'; cases hx
  · intro b hb x hx y
    rcases hmemb b hb with hb' | hb'
    · obtain ⟨h1, h2, h3, h4, h5, h6⟩ := bk.btop b hb' x hx
      rw [bk.bmem b hb' x hx y]
      constructor
      · rintro ⟨hy, hyv, hn⟩
        exact ⟨hy, (hvis y).2 (.inr hyv), (hNL x y h3 hy hyv).2 hn⟩
      · rintro ⟨hy, hyv, hn⟩
        have hyu : y ≠ u := by
          rintro rfl
          exact hnew x h1 h2 h3 hn
        have hyv' : bvis st y := by
          rcases (hvis y).1 hyv with h0 | h0
          · exact absurd h0 hyu
          · exact h0
        exact ⟨hy, hyv', (hNL x y h3 hy hyv').1 hn⟩
    · subst hb'; cases hx
  · rw [hbic]
    split
    · simpa using bk.bnd
    · exact bk.bnd
  · have hold : st.bicoms.Pairwise (fun b b' => ∀ x x', b.getLast? = some x → b'.getLast? = some x' →
        dI (descendSt st v u cur) x ≤ dI (descendSt st v u cur) x') := by
      refine bk.bord.imp_of_mem ?_
      intro b b' hb hb' hR x x' hx hx'
      have h1 := (bk.btop b hb x hx).2.1
      have h2 := (bk.btop b' hb' x' hx').2.1
      rw [hd, hd]
      simp only [hne_u x h1, hne_u x' h2, if_false]
      exact hR x x' hx hx'
    rw [hbic]
    split
    · rw [List.pairwise_append]
      refine ⟨hold, by simp, ?_⟩
      intro b _ b' hb' x x' _ hx'
      simp at hb'; subst hb'; cases hx'
    · exact hold
  · intro cur' x v' rest' hc' hx' _
    exfalso
    rw [hbic] at hc'
    split at hc'
    · rw [List.getLast?_concat] at hc'
      cases hc'; cases hx'
    · next hlen =>
      rw [hcur] at hc'
      cases hc'
      have : cur = [] := by
        cases cur with
        | nil => rfl
        | cons a t => simp at hlen
      subst this; cases hx'
  · intro x hx hxv hxs hx0 htx hpx
    rw [hstk'] at hxs
    have hxu : x ≠ u := fun h0 => hxs (h0 ▸ List.mem_cons_self)
    have hxv' : bvis st x := by
      rcases (hvis x).1 hxv with h0 | h0
      · exact absurd h0 hxu
      · exact h0
    rw [htp x hxu, hstk'] at htx
    have htx' : tp x ∈ st.toCheck := by
      rcases List.mem_cons.1 htx with h0 | h0
      · exact absurd h0 (hne_u _ (dt.tree x hx hxv' hx0).2.1)
      · exact h0
    rw [hp, htp x hxu] at hpx
    simp only [hxu, if_false] at hpx
    obtain ⟨b, hb, hbx⟩ := bk.bcov x hx hxv' (fun hm => hxs (List.mem_cons_of_mem _ hm)) hx0 htx' hpx
    exact ⟨b, hsubb b hb, hbx⟩
  · intro c hc hcv hcs hc0 hpc htc hlc
    exfalso
    rw [hstk'] at hcs
    have hcu : c ≠ u := fun h0 => hcs (h0 ▸ List.mem_cons_self)
    have hcv' : bvis st c := by
      rcases (hvis c).1 hcv with h0 | h0
      · exact absurd h0 hcu
      · exact h0
    have hcs' : c ∉ st.toCheck := fun hm => hcs (List.mem_cons_of_mem _ hm)
    obtain ⟨e1, e2⟩ := hL c hc hcv' hcs' hc0
    rw [hp, htp c hcu] at hpc
    simp only [hcu, if_false] at hpc
    rw [htp c hcu] at htc
    rw [e1, e2] at hlc
    obtain ⟨rest', hr, _⟩ := la.ar3 c hc hcv' hcs' hc0 hpc htc hlc
    rw [hstk] at hr
    have htcv : tp c = v := by cases hr; rfl
    rw [htcv] at hpc hlc htc
    exact hnopend c hc hcv' hcs' hc0 hpc htc hlc
  · intro h0
    rw [hstk', hstk] at h0
    simp at h0
  · obtain ⟨E, hE, hF⟩ := bk.out
    exact ⟨E, hE, hF.imp hblk⟩
  · intro c
    rw [bk.csmem c]
    by_cases hcu : c = u
    · subst hcu
      constructor
      · rintro ⟨_, h2, _⟩; exact absurd h2 hunv
      · rintro ⟨_, _, _, h4⟩
        rw [hp] at h4; simp at h4
    · rw [hp]
      simp only [hcu, if_false]
      constructor
      · rintro ⟨h1, h2, h3, h4⟩; exact ⟨h1, (hvis c).2 (.inr h2), h3, h4⟩
      · rintro ⟨h1, h2, h3, h4⟩
        refine ⟨h1, ?_, h3, h4⟩
        rcases (hvis c).1 h2 with h0 | h0
        · exact absurd h0 hcu
        · exact h0

end GDist
