import Mamba.Lemmas.CanonFMainJ
import Mamba.Lemmas.CanonFGens
namespace CanonF

/-- the state with which `CanonicalIsomorphAllocated` enters the main loop (after the initial refinement and
`expandValue`) -/
structure InitSt (n m : Nat) (nb : Nbrs) (opts : Options) (op0 : OP) (s0 : LS) : Prop where
  minv : MInv n m nb s0
  cinv : CInv n m nb s0 false
  count : s0.count = 0
  ngens : s0.ngens = 0
  path : s0.path = []
  choices : s0.choices = []
  bpLen : s0.bestPath.len = n ∧ s0.bestPath.WF
  fpLen : s0.flPath.len = n ∧ s0.flPath.WF
  ref : ∃ sc op1 sc1 w2, ScratchOK n sc ∧ sc.timesSeen.len = n ∧
    refine nb s0.currentBest s0.firstLeaf opts op0 sc = .ok (false, op1, sc1) ∧
    expandValue nb s0.currentBest s0.firstLeaf op1 = .ok (w2, s0.op)

set_option maxHeartbeats 1000000 in
/-- any invariant of the main loop (`MainJ`) that holds for the initial state holds, with an empty stack, for the state
from which `CanonicalIsomorphAllocated` (general path, no viability check) reads its results -/
theorem allocated_mainJ (hst : StablePerm) (hx : ExpandCert) {fuel n m : Nat} {nb : Nbrs}
    {JA JN JS : List (Nat × Nat) → LS → Prop} {JM : List (Nat × Nat) → Bool → LS → Prop} (hJ : MainJ n m nb JA JN JS JM)
    {op0 : OP} {st : Storage} {opts : Options} {r : Res} {opR : Option OP} {stR : Storage}
    (hn : n ≠ 0) (hgen : m = 0 → op0.binDividers.len ≠ 1) (hv : opts.checkViability = false)
    (hp : PartInv n op0) (ha : AgeInv op0) (hage : op0.age = 0) (hspl : op0.spl = 0)
    (hval : op0.value.len = 0)
    (hinit : ∀ s0, InitSt n m nb opts op0 s0 → JM [] false s0)
    (h : canonicalIsomorphAllocated fuel n m nb (some op0) st opts = .ok (r, opR, stR)) :
    ∃ s, JA [] s ∧ r.perm = some s.bestPerm.toList ∧ r.orbits = some s.flOrbits.toList ∧
      r.gens = some ((s.gens.toList.take s.ngens).map Sl.toList) := by
  unfold canonicalIsomorphAllocated at h
  rw [if_neg hn] at h
  have hshort : (if m = 0 then (match (some op0 : Option OP) with
      | none => Outcome.panic
      | some o => Outcome.ok (o.binDividers.len == 1)) else Outcome.ok false) = Outcome.ok false := by
    by_cases hm : m = 0
    · rw [if_pos hm]; simp [hgen hm]
    · rw [if_neg hm]
  simp only [hshort] at h
  osplit h
  · rename_i hvw
    simp [hv] at hvw
  · rename_i _ _ _ _ bestPath bestPerm bestPermInv bestOrbits bestRest hbp hbpm hbpi hbo _ _ _ _ firstLeaf flPermInv flOrbits flRest flPath hfl hfpi hfo hfp _ _ _ space dws nbs _ _ _ _ _ _ timesSeen maxCell numberOfMax hts hmc hnm _ worse op1 sc1 href hvw _ w2 op2 hexp _ s hmain
    cases h
    obtain ⟨w1, l1, d1⟩ := slOf_spec hts
    obtain ⟨w2', l2, d2⟩ := slOf_spec hmc
    obtain ⟨w3, l3, d3⟩ := slOf_spec hnm
    obtain ⟨w4, l4, d4⟩ := slOf_spec hbpm
    obtain ⟨w5, l5, _⟩ := slOf_spec hbpi
    obtain ⟨w6, l6, _⟩ := slOf_spec hfl
    obtain ⟨w7, l7, _⟩ := slOf_spec hfpi
    obtain ⟨w8, l8, _⟩ := slOf_spec hbp
    obtain ⟨w9, l9, _⟩ := slOf_spec hfp
    have hsc : ScratchOK n (Scratch.mk dws nbs space timesSeen maxCell numberOfMax) := ⟨w1, w2', w3, l2, l3⟩
    obtain ⟨r1, r2, r3, r4, _, _, _, z1, z2, z3, _⟩ := refine_inv hst hp ha hsc href
    have z1' : sc1.timesSeen.data.size = timesSeen.data.size := z1
    have hwf := refine_not_worse (cb := ⟨st.currentBest, 0⟩) rfl hv href
    subst hwf
    have htc : n ≤ timesSeen.data.size := by have := w1; unfold Sl.WF at this; omega
    obtain ⟨i1, i2, i3⟩ := refine_cert_init hst hx hp ha hsc hspl hval (cb := ⟨st.currentBest, 0⟩) (fl := firstLeaf)
      (nb := nb) rfl href
    have hw2 : w2 = false := by
      unfold expandValue at hexp
      exact expandLoop_not_worse (cb := ⟨st.currentBest, 0⟩) rfl _ _ _ _ _ hexp
    have hvc2 : VClean nb op2 := (hx n nb ⟨st.currentBest, 0⟩ firstLeaf op1 op2 w2 r1 i1 i2 i3 hexp).1 hw2
    obtain ⟨f1, f2, f3, f4, f5, f6⟩ := expandValue_frame hexp
    have hI : MInv n m nb
        { op := op2,
          sc := { dws := ⟨sc1.dws.data, n⟩, nbs := ⟨sc1.nbs.data, n⟩, space := ⟨sc1.space.data, n⟩,
                  timesSeen := ⟨sc1.timesSeen.data, n⟩, maxCell := ⟨sc1.maxCell.data, n⟩,
                  numberOfMax := ⟨sc1.numberOfMax.data, n⟩ },
          count := 0, ngens := 0, gens := st.generators, currentBest := ⟨st.currentBest, 0⟩,
          bestPath := bestPath, bestPerm := bestPerm, bestPermInv := bestPermInv, bestOrbits := bestOrbits,
          firstLeaf := firstLeaf, flPermInv := flPermInv, flOrbits := flOrbits, flPath := flPath,
          path := [], choices := [], skipDeage := false } := by
      constructor
      · constructor
        · exact PartInv.of_frame r1 f1 f2 f3 f6
        · exact AgeInv.of_frame r2 f3 f5
        · exact scratch_rewrap hsc htc z1 z2 z3
        · exact w4
        · exact l4
        · intro hc; exact absurd hc (Nat.lt_irrefl 0)
      · exact ⟨[], by simp [LevelsOK]⟩
      · show op2.age = _; rw [f5, r3, hage]; rfl
      · rfl
      · show n ≤ sc1.timesSeen.data.size; omega
      · rfl
      · intro _; rfl
      · intro hc; exact absurd hc (Nat.lt_irrefl 0)
    have hC : CInv n m nb
        { op := op2,
          sc := { dws := ⟨sc1.dws.data, n⟩, nbs := ⟨sc1.nbs.data, n⟩, space := ⟨sc1.space.data, n⟩,
                  timesSeen := ⟨sc1.timesSeen.data, n⟩, maxCell := ⟨sc1.maxCell.data, n⟩,
                  numberOfMax := ⟨sc1.numberOfMax.data, n⟩ },
          count := 0, ngens := 0, gens := st.generators, currentBest := ⟨st.currentBest, 0⟩,
          bestPath := bestPath, bestPerm := bestPerm, bestPermInv := bestPermInv, bestOrbits := bestOrbits,
          firstLeaf := firstLeaf, flPermInv := flPermInv, flOrbits := flOrbits, flPath := flPath,
          path := [], choices := [], skipDeage := false } false := by
      constructor
      · constructor
        · intro hc; exact absurd hc (Nat.lt_irrefl 0)
        · exact ⟨l6, w6⟩
        · intro hc; exact absurd hc (Nat.lt_irrefl 0)
        · intro k hk; exact absurd hk (Nat.not_lt_zero _)
        · intro hc; exact absurd hc (Nat.lt_irrefl 0)
        · exact ⟨dsSlice_spec hfo, dsSlice_spec hbo⟩
        · exact ⟨l7, w7⟩
        · exact ⟨l5, w5⟩
      · intro _; exact hvc2
      · exact Or.inl hvc2
    have hM := hinit _ ⟨hI, hC, rfl, rfl, rfl, rfl, ⟨l8, w8⟩, ⟨l9, w9⟩,
      ⟨_, op1, sc1, w2, hsc, l1, href, hexp⟩⟩
    have hfin := mainLoopJ hst hJ fuel false _ s [] hI (fun _ => rfl) (by simp [LevelsOK]) hM hmain
    exact ⟨s, hfin, rfl, rfl, rfl⟩

end CanonF
