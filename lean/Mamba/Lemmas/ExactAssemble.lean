import Mamba.Lemmas.ExactAug
/-! Assembling `Specs` from the oracle specification: the `addAugmentations` half is proved, the `isCanonical` half is
the structure `CanonSpecs`. -/
namespace Search
open GraphSpec GSearch

/-- the three statements about `isCanonical` used by the exactness argument -/
structure CanonSpecs (O : Oracle) (n : Nat) : Prop where
  canon_iso : ∀ {P1 P2 g1 g2 : DG} {x1 x2 : Nat} {c1 c2 : Option Ans}, Built P1 → Built P2 → P1.nv < n → P2.nv < n →
    InRange P1 x1 → InRange P2 x2 → AccK O n P1 x1 g1 c1 → AccK O n P2 x2 g2 c2 → IsoD g1 g2 →
    ExtEquiv P1 (bitsOf x1) P2 (bitsOf x2)
  canon_inv : ∀ {P1 P2 g1 g2 : DG} {x1 x2 : Nat} {c1 c2 : Option Ans} {b : Bool}, Built P1 → Built P2 →
    P1.nv < n → P2.nv < n → InRange P1 x1 → InRange P2 x2 → AccK O n P1 x1 g1 c1 → ExtEquiv P1 (bitsOf x1) P2 (bitsOf x2) →
    P2.addVertex (bitsOf x2) = .ok g2 → isCanonical O n g2 (bitsOf x2) none = .ok (c2, b) → b = true
  canon_exists : ∀ (Y : G), Y.WF → 2 ≤ Y.n → Y.n ≤ n →
    ∃ (P g2 : DG) (x : Nat) (c : Option Ans), Built P ∧ InRange P x ∧ AccK O n P x g2 c ∧ Iso Y g2.toG

/-- `Specs` from the oracle specification, a hereditary property and the `isCanonical` statements -/
theorem specs_of_oracle {O : Oracle} {n : Nat} {P : G → Bool} (hO : OracleSpec O n) (hP : Hereditary P)
    (hC : CanonSpecs O n) : Specs O n (pruneOf P) where
  canon_iso := hC.canon_iso
  canon_inv := hC.canon_inv
  canon_exists := hC.canon_exists
  aug_range := fun hb hlt hc haug => aug_range_of_oracle hO hb hlt hc haug
  aug_complete := fun hb hlt hc haug T P0 g0 x0 c0 hb0 hr0 ha0 hT =>
    aug_complete_of_oracle hO hb hlt hc haug T P0 g0 x0 c0 hb0 hr0 ha0 hT
  aug_distinct := fun hb hlt hc haug => aug_distinct_of_oracle hO hb hlt hc haug
  pre_iso := fun _ _ i => pruneOf_iso hP i
  pre_her := fun hb hr ha h => pruneOf_her hP hb (bitsOf_nodup _) hr ha h

end Search
