import Mamba.Lemmas.DistanceGibbsStep3
/-!
# Helper lemmas for Gibbs' selection
-/
namespace GDist
open GraphSpec Model

theorem sXor_length_disjoint {s t : List Nat} (hs : s.Pairwise (· < ·)) (ht : t.Pairwise (· < ·))
    (hd : ∀ x ∈ s, x ∉ t) : (sXor s t).length = s.length + t.length := by
  obtain ⟨h1, h2⟩ := sXor_spec s t hs ht
  have n1 : (sXor s t).Nodup := h1.imp (fun h => Nat.ne_of_lt h)
  have ns : s.Nodup := hs.imp (fun h => Nat.ne_of_lt h)
  have nt : t.Nodup := ht.imp (fun h => Nat.ne_of_lt h)
  have n2 : (s ++ t).Nodup := List.nodup_append.2 ⟨ns, nt, fun a ha b hb hab => hd a ha (hab ▸ hb)⟩
  have := ((List.perm_ext_iff_of_nodup n1 n2).2 (fun x => by
    rw [h2 x, List.mem_append]
    constructor
    · rintro (⟨h, _⟩ | ⟨_, h⟩)
      · exact .inl h
      · exact .inr h
    · rintro (h | h)
      · exact .inl ⟨h, hd x h⟩
      · exact .inr ⟨fun h' => hd x h' h, h⟩)).length_eq
  simpa using this

/-- if `fc ⊆ t XOR fc` then `t` and `fc` are disjoint -/
theorem disjoint_of_sub_sXor {t fc : List Nat} (ht : t.Pairwise (· < ·)) (hf : fc.Pairwise (· < ·))
    (h : ∀ x ∈ fc, x ∈ sXor t fc) : ∀ x ∈ t, x ∉ fc := by
  intro x hxt hxf
  rcases ((sXor_spec t fc ht hf).2 x).1 (h x hxf) with ⟨_, h2⟩ | ⟨h1, _⟩
  · exact h2 hxf
  · exact h1 hxt

theorem isXorOf_nil : IsXorOf [] [] := ⟨List.Pairwise.nil, fun x => by simp [occ]⟩

theorem isXorOf_ext {I : List (List Nat)} {s t : List Nat} (hs : IsXorOf I s) (ht : IsXorOf I t) : s = t :=
  strict_sorted_ext hs.1 ht.1 (fun x => by rw [hs.2 x, ht.2 x])

/-- the XOR of a list of strictly increasing lists exists; it has even degrees when they all have -/
theorem exists_xor (n : Nat) : ∀ (I : List (List Nat)), (∀ f ∈ I, f.Pairwise (· < ·)) → (∀ f ∈ I, EvenSet n f) →
    ∃ t, IsXorOf I t ∧ EvenSet n t := by
  intro I
  induction I using List.reverseRecOn with
  | nil => intro _ _; exact ⟨[], isXorOf_nil, fun w _ => by simp [degIn]⟩
  | append_singleton I f ih =>
    intro hs he
    obtain ⟨t, ht, hte⟩ := ih (fun g hg => hs g (List.mem_append.2 (.inl hg)))
      (fun g hg => he g (List.mem_append.2 (.inl hg)))
    exact ⟨sXor t f, isXorOf_snoc ht (hs f (by simp)), even_sXor hte (he f (by simp))⟩

/-- the codes of a cycle are codes of edges -/
theorem cycCode_edges {a : G} (hsym : ∀ u v, a.adj u v = a.adj v u) {f : List Nat} (h : IsCycCode a f) :
    ∀ z ∈ f, ∃ p q, p < a.n ∧ q < a.n ∧ a.adj p q = true ∧ z = edgeCode p q := by
  obtain ⟨c, ⟨hlen, _, hn, hch, hclose⟩, rfl⟩ := h
  intro z hz
  rw [mem_sortInts] at hz
  unfold cycCodes at hz
  have hcne : c ≠ [] := by intro h0; subst h0; simp at hlen
  rcases List.mem_cons.1 hz with h | h
  · have hh : c.headD 0 ∈ c := by
      obtain ⟨y, t, rfl⟩ := List.exists_cons_of_ne_nil hcne; simp
    have hl : c.getLastD 0 ∈ c := by
      rw [List.getLastD_eq_getLast?, List.getLast?_eq_some_getLast hcne]
      exact List.getLast_mem _
    exact ⟨_, _, hn _ hh, hn _ hl, hclose, h⟩
  · obtain ⟨x, y, hx, hy, hadj, hc⟩ := mem_pathCodes_adj c hch z h
    exact ⟨x, y, hn x hx, hn y hy, by rw [hsym]; exact hadj, hc⟩

theorem chainAdj_graph_mono {g g' : G} (h : ∀ x y, g.adj x y = true → g'.adj x y = true) :
    ∀ (c : List Nat), chainAdj g c → chainAdj g' c
  | [], _ => trivial
  | [_], _ => trivial
  | _ :: y :: r, hc => ⟨h _ _ hc.1, chainAdj_graph_mono h (y :: r) hc.2⟩

end GDist
