import Mamba.Lemmas.ExactAugHelp
namespace Search
open Disjoint GSearch GraphSpec

variable {O : Oracle} {n : Nat}

theorem aug_range_of_oracle (hO : OracleSpec O n) {g : DG} {c c' : Option Ans} {new : Array Nat} {num : Nat}
    (hb : Built g) (hlt : g.nv < n) (hc : c = none ∨ ∃ P x, Built P ∧ InRange P x ∧ AccK O n P x g c)
    (haug : addAugmentations O n g #[] c = .ok (new, c', num)) : ∀ x ∈ new.toList, InRange g x := by
  obtain ⟨orb, gens, md, blocks, -, hd, hnew, hblocks⟩ := aug_form hO hb hlt hc haug
  intro x hx
  rw [hnew] at hx
  simp only [List.mem_append, List.mem_singleton] at hx
  rcases hx with (rfl | hx) | hx
  · intro v hv; rw [bitsOf_zero] at hv; cases hv
  · obtain ⟨i, hi, -, rfl⟩ := mem_rootMasks.1 hx
    intro v hv
    rw [mem_bitsOf_shift.1 hv, ← hd.size]; exact hi
  · obtain ⟨k, -, b, hbk, hxb, -⟩ := forall2_of_mem_flatten hblocks x hx
    obtain ⟨c0, hc0, rfl⟩ := hbk.form x hxb
    intro v hv
    exact hc0.2.2 v (mem_bitsOf_maskOf.1 hv)

theorem aug_distinct_of_oracle (hO : OracleSpec O n) {g : DG} {c c' : Option Ans} {new : Array Nat} {num : Nat}
    (hb : Built g) (hlt : g.nv < n) (hc : c = none ∨ ∃ P x, Built P ∧ InRange P x ∧ AccK O n P x g c)
    (haug : addAugmentations O n g #[] c = .ok (new, c', num)) :
    new.toList.Pairwise fun x y => ¬ ExtEquiv g (bitsOf x) g (bitsOf y) := by
  obtain ⟨orb, gens, md, blocks, -, hd, hnew, hblocks⟩ := aug_form hO hb hlt hc haug
  rw [hnew]
  have hks : (List.range' 2 ((md + 1).toNat - 1)).Pairwise (· < ·) := List.pairwise_lt_range'
  obtain ⟨hp, hcard⟩ := blocks_pairwise _ _ hblocks hks
  have hcardB : ∀ x ∈ blocks.flatten, 2 ≤ cardIn g.nv (bitsOf x) := by
    intro x hx
    obtain ⟨k, hk, he⟩ := hcard x hx
    rw [he]
    exact (List.mem_range'_1.1 hk).1
  have hcardR : ∀ x ∈ rootMasks orb, cardIn g.nv (bitsOf x) = 1 := by
    intro x hx
    obtain ⟨i, hi, -, rfl⟩ := mem_rootMasks.1 hx
    exact cardIn_shift (hd.size ▸ hi)
  rw [List.append_assoc, List.pairwise_append]
  refine ⟨List.pairwise_singleton _ _, ?_, ?_⟩
  · rw [List.pairwise_append]
    refine ⟨rootMasks_pairwise hd, hp, ?_⟩
    intro x hx y hy e
    have := cardIn_equiv e
    rw [hcardR x hx] at this
    have := hcardB y hy
    omega
  · intro x hx y hy e
    rw [List.mem_singleton] at hx
    subst hx
    have := cardIn_equiv e
    rw [cardIn_zero] at this
    rcases List.mem_append.1 hy with hy | hy
    · rw [hcardR y hy] at this; omega
    · have := hcardB y hy; omega

theorem aug_complete_of_oracle (hO : OracleSpec O n) {g : DG} {c c' : Option Ans} {new : Array Nat} {num : Nat}
    (hb : Built g) (hlt : g.nv < n) (hc : c = none ∨ ∃ P x, Built P ∧ InRange P x ∧ AccK O n P x g c)
    (haug : addAugmentations O n g #[] c = .ok (new, c', num))
    (T : List Nat) (P0 g0 : DG) (x0 : Nat) (c0 : Option Ans) (hb0 : Built P0) (hr0 : InRange P0 x0)
    (ha0 : AccK O n P0 x0 g0 c0) (hT : ExtEquiv g T P0 (bitsOf x0)) :
    ∃ x ∈ new.toList, ExtEquiv g T g (bitsOf x) := by
  obtain ⟨orb, gens, md, blocks, hmd, hd, hnew, hblocks⟩ := aug_form hO hb hlt hc haug
  -- the set T as a sorted list, and its size
  let cT : List Nat := (List.range g.nv).filter fun v => decide (v ∈ T)
  have hcT : IsSub g.nv (cardIn g.nv T) cT :=
    ⟨rfl, (List.pairwise_lt_range).filter _, fun v hv => List.mem_range.1 (List.mem_filter.1 hv).1⟩
  have heT : ExtEquiv g T g cT := by
    refine ⟨rfl, fun u => u, IsBij.id _, fun _ _ _ _ => rfl, ?_⟩
    intro v hv
    simp only [cT, List.mem_filter, List.mem_range, decide_eq_true_eq]
    exact ⟨fun h => ⟨hv, h⟩, fun h => h.2⟩
  -- the size bound
  have hk : ((cardIn g.nv T : Nat) : Int) ≤ md + 1 := by
    obtain ⟨i, hi, hdi⟩ := minInts_mem hmd
    rw [hb.sized.degs] at hi
    have hdeg := hb.degOK i hi
    rw [hdeg] at hdi
    have hmdv : md = ((g.toG.deg i : Nat) : Int) := (Option.some.inj hdi).symm
    have hcardT := cardIn_equiv hT
    obtain ⟨hn0, σ, hσ, hadj, -⟩ := hT
    have hiso := deg_iso (g := g.toG) (h := P0.toG) hn0 hσ hadj (show i < g.toG.n from hi)
    have hle := acc_card_le hb0 hr0 ha0 (σ i) (hn0 ▸ hσ.maps i hi)
    rw [hiso, ← hcardT] at hle
    rw [hmdv]
    exact_mod_cast hle
  rw [hnew]
  by_cases h0 : cardIn g.nv T = 0
  · refine ⟨0, by simp, ?_⟩
    have hnil : cT = [] := List.length_eq_zero_iff.1 (hcT.1.trans h0)
    rw [bitsOf_zero, ← hnil]
    exact heT
  · by_cases h1 : cardIn g.nv T = 1
    · obtain ⟨t, ht⟩ := List.length_eq_one_iff.1 (hcT.1.trans h1)
      have htlt : t < g.nv := hcT.2.2 t (by rw [ht]; simp)
      have htO : t < orb.size := hd.size ▸ htlt
      have hj : rep orb t < orb.size := rep_lt hd.inv t htO
      have hjroot := rep_isRoot hd.inv t htO
      refine ⟨1 <<< rep orb t, ?_, ?_⟩
      · simp only [List.mem_append, List.mem_singleton]
        exact Or.inl (Or.inr (mem_rootMasks.2 ⟨_, hj, hjroot, rfl⟩))
      · obtain ⟨σ, hσ, hσt⟩ := (hd.orbits t (rep orb t) htlt (hd.size ▸ hj)).1 (rep_rep hd.inv t htO).symm
        refine heT.trans ⟨rfl, σ, hσ.1, hσ.2, ?_⟩
        intro v hv
        rw [ht, mem_bitsOf_shift, List.mem_singleton]
        constructor
        · rintro rfl; exact hσt
        · intro h; exact hσ.1.inj v t hv htlt (h.trans hσt.symm)
    · have hk2 : cardIn g.nv T ∈ List.range' 2 ((md + 1).toNat - 1) := by
        rw [List.mem_range'_1]
        have : 0 ≤ md + 1 := by omega
        constructor
        · omega
        · have h3 : (cardIn g.nv T : Int) ≤ ((md + 1).toNat : Int) := by rw [Int.toNat_of_nonneg this]; exact hk
          have h4 : cardIn g.nv T ≤ (md + 1).toNat := by exact_mod_cast h3
          omega
      obtain ⟨b, hbk, hsub⟩ := forall2_block hblocks _ hk2
      obtain ⟨x, hx, hex⟩ := hbk.complete cT hcT
      refine ⟨x, ?_, heT.trans hex⟩
      simp only [List.mem_append]
      exact Or.inr (hsub x hx)

end Search
