import Mamba.Lemmas.CanonFDfsMain
import Mamba.Lemmas.CanonFClassQ
/-!
# Invariance of the canonical form under relabelling, with vertex classes (faithful model `Model/CanonF.lean`)

If `σ` is an isomorphism `g → g'` that maps the `k`-th vertex class of `g` into the `k`-th vertex class of `g'`, the two
runs of `CanonicalIsomorph` return permutations with the same certificate, hence the same relabelled graph.
-/
namespace CanonF
open GraphSpec

/-- the initial partition has one bin per vertex class -/
theorem new_bdLen_classes {n m : Nat} {cls : List (List Nat)} {op0 : OP} (hn : 0 < n) (hc : ClassesOK n (some cls))
    (h : newOrderedPartition n m (some cls) = .ok (some op0)) : op0.binDividers.len = cls.length := by
  obtain ⟨op', h', hs, _⟩ := new_spec (m := m) hn hc
  rw [h] at h'
  obtain rfl : op0 = op' := Option.some.inj (Outcome.ok.inj h')
  rw [← Sl.length_toList _ hs.wfBd, hs.bd]
  simp [bdL]

/-- the initial cell of a vertex is the index of the class that lists it -/
theorem cellOf_classes {n m : Nat} {cls : List (List Nat)} {op0 : OP} (hn : 0 < n) (hc : ClassesOK n (some cls))
    (h : newOrderedPartition n m (some cls) = .ok (some op0)) :
    ∀ (k : Nat) (c : List Nat), cls[k]? = some c → ∀ v ∈ c, cellOf op0 v = k := by
  intro k c hk v hv
  have hin : ∀ (k : Nat) (c : List Nat), cls[k]? = some c → ∀ v ∈ c, op0.inCell.toList[v]? = some k :=
    new_inCell_classes hn hc h
  unfold cellOf
  rw [hin k c hk v hv]; rfl

/-- the canonical certificate and the canonically relabelled graph computed by the faithful model are invariant under
relabelling the input graph together with its vertex classes -/
theorem canonF_canon_invariant_classes_full (fuel fuel' : Nat) (g g' : G) (hg : g.WF) (hg' : g'.WF) (hn : g.n ≠ 0)
    {σ τ : Nat → Nat} (R : IR.Relabel (IR.ofSpec g) (IR.ofSpec g') σ τ) (cls cls' : List (List Nat))
    (hvc : ClassesOK g.n (some cls)) (hvc' : ClassesOK g'.n (some cls')) (hlen : cls'.length = cls.length)
    (hcls : ∀ (k : Nat) (c c' : List Nat), cls[k]? = some c → cls'[k]? = some c' → ∀ v, v ∈ c → σ v ∈ c')
    (r r' : Res) (h : canonicalIsomorphFull fuel g (some cls) = .ok r)
    (h' : canonicalIsomorphFull fuel' g' (some cls') = .ok r') :
    ∃ p p', r.perm = some p ∧ r'.perm = some p' ∧ p.Perm (List.range g.n) ∧ p'.Perm (List.range g'.n) ∧
      certPos (nbrsOf g') p' g'.n = certPos (nbrsOf g) p g.n ∧ g.induced p = g'.induced p' := by
  have hnn : g'.n = g.n := R.n_eq
  have hn' : g'.n ≠ 0 := by omega
  have hn0 : 0 < g.n := Nat.pos_of_ne_zero hn
  have hn0' : 0 < g'.n := Nat.pos_of_ne_zero hn'
  obtain ⟨op0, p, hnew, hp, hperm, hc⟩ := canonF_complete_full fuel g hg (some cls) hvc hn r h
  obtain ⟨op0', p', hnew', hp', hperm', hc'⟩ := canonF_complete_full fuel' g' hg' (some cls') hvc' hn' r' h'
  have hk : op0.binDividers.len = cls.length := new_bdLen_classes hn0 hvc hnew
  have hk' : op0'.binDividers.len = cls.length := by rw [new_bdLen_classes hn0' hvc' hnew', hlen]
  have hcell : ∀ v, v < (IR.ofSpec g).n → cellOf op0' (σ v) = cellOf op0 v := by
    intro v hv
    have hv' : v < g.n := hv
    have hvf : v ∈ cls.flatten := hvc.1.mem_iff.2 (List.mem_range.2 hv')
    obtain ⟨c, hcm, hvc0⟩ := List.mem_flatten.1 hvf
    obtain ⟨k, hkc⟩ := List.getElem?_of_mem hcm
    have hkl : k < cls'.length := by
      rw [hlen]; exact (List.getElem?_eq_some_iff.1 hkc).1
    have hkc' : cls'[k]? = some cls'[k] := List.getElem?_eq_getElem hkl
    rw [cellOf_classes hn0 hvc hnew k c hkc v hvc0,
      cellOf_classes hn0' hvc' hnew' k _ hkc' (σ v) (hcls k c _ hkc hkc' v hvc0)]
  have hcert : certPos (nbrsOf g') p' g'.n = certPos (nbrsOf g) p g.n := by
    rw [hc, hc']
    unfold irInit
    rw [hk, hk']
    exact IR.canonCertFrom_invariant R (IR.initSt_rel R cls.length hcell)
  refine ⟨p, p', hp, hp', hperm, hperm', hcert, ?_⟩
  apply ofSpec_inj (induced_supp g p) (induced_supp g' p')
  rw [ofSpec_induced_eq_ofCodes g hg p hperm, ofSpec_induced_eq_ofCodes g' hg' p' hperm', hcert, hnn]

end CanonF
