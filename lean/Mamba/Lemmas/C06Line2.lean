import Mamba.Lemmas.C06Line
/-! C06: `LineGraphDense` — one round of the loop. -/
namespace Construct
open GraphSpec


structure LgInv (m : Nat) (E : List (Nat × Nat)) (st : LineSt) : Prop where
  idx : st.mIndex = E.length
  lower : st.lower.toList = E.map (·.1)
  upper : st.upper.toList = E.map (·.2)
  size : st.edges.size = tri m
  bits : ∀ x, bitAt st.edges x = lgBit E x

/-- one round of the loop of `LineGraphDense` -/
def lgStep (g : GraphI) (st : LineSt) (p : Nat × Nat) : Outcome LineSt := do
  let i := p.1
  let j := p.2
  if (← g.isEdge i j) then
    let e ← (enum st.lower).foldlM (fun e (kv : Nat × Nat) =>
        if i == kv.2 then setAt e ((st.mIndex * (st.mIndex - 1)) / 2 + kv.1) 1 else pure e) st.edges
    let e ← lineScanUpper i st.mIndex (enum st.upper) e
    let e ← lineScanBack j st.mIndex (enum st.upper).reverse e
    pure { edges := e, lower := st.lower.push i, upper := st.upper.push j, mIndex := st.mIndex + 1 }
  else pure st

theorem getD_map_fst (E : List (Nat × Nat)) (k : Nat) : (E.map (·.1)).getD k 0 = (E.getD k (0, 0)).1 := by
  simp only [List.getD, List.getElem?_map]; cases E[k]? <;> rfl

theorem getD_map_snd (E : List (Nat × Nat)) (k : Nat) : (E.map (·.2)).getD k 0 = (E.getD k (0, 0)).2 := by
  simp only [List.getD, List.getElem?_map]; cases E[k]? <;> rfl

theorem enum_eq (a : Array Nat) (E : List (Nat × Nat)) (f : Nat × Nat → Nat) (hf : ∀ L : List (Nat × Nat), ∀ k, (L.map f).getD k 0 = f (L.getD k (0, 0)))
    (h : a.toList = E.map f) : enum a = (List.range E.length).map fun k => (k, f (E.getD k (0, 0))) := by
  have hsz : a.size = E.length := by rw [← Array.length_toList, h]; simp
  unfold enum
  rw [h, hsz]
  have := zip_range_eq (E.map f)
  simp only [List.length_map] at this
  rw [this]
  apply List.map_congr_left
  intro k _
  rw [hf]

theorem lgStep_edge (g : GraphI) (m : Nat) (E : List (Nat × Nat)) (st : LineSt) (i j : Nat)
    (hinv : LgInv m E st) (hlen : E.length < m) (hsorted : E.Pairwise fun p q => p.2 ≤ q.2)
    (hE : ∀ p ∈ E, p.1 < p.2 ∧ p.2 ≤ j) (hij : i < j) (hedge : g.isEdge i j = .ok true) :
    ∃ st', lgStep g st (i, j) = .ok st' ∧ LgInv m (E ++ [(i, j)]) st' := by
  have hb : st.mIndex = E.length := hinv.idx
  have hbound : ∀ k, k < E.length → tri E.length + k < tri m := fun k hk => tri_add_lt hk hlen
  have hl1 := enum_eq st.lower E (·.1) (fun L k => getD_map_fst L k) hinv.lower
  have hl2 := enum_eq st.upper E (·.2) (fun L k => getD_map_snd L k) hinv.upper
  -- scan 1
  obtain ⟨e1, f1, s1, b1⟩ := lineScan1 i E.length (enum st.lower) st.edges (by
    intro kv hkv; rw [hl1] at hkv; simp only [List.mem_map, List.mem_range] at hkv
    obtain ⟨k, hk, rfl⟩ := hkv; rw [hinv.size]; exact hbound k hk)
  -- scan 2
  have hsorted2 : (enum st.upper).Pairwise fun p q => p.2 ≤ q.2 := by
    rw [hl2, List.pairwise_map]
    rw [List.pairwise_iff_getElem] at hsorted ⊢
    intro a b ha hb' hab
    simp only [List.length_range] at ha hb'
    simp only [List.getElem_range, List.getD, List.getElem?_eq_getElem ha, List.getElem?_eq_getElem hb', Option.getD_some]
    exact hsorted a b ha hb' hab
  obtain ⟨e2, f2, s2, b2⟩ := lineScan2 i E.length (enum st.upper) e1 (by
    intro kv hkv; rw [hl2] at hkv; simp only [List.mem_map, List.mem_range] at hkv
    obtain ⟨k, hk, rfl⟩ := hkv; rw [s1, hinv.size]; exact hbound k hk) hsorted2
  -- scan 3
  obtain ⟨e3, f3, s3, b3⟩ := lineScan3 j E.length (enum st.upper).reverse e2 (by
    intro kv hkv; rw [List.mem_reverse, hl2] at hkv; simp only [List.mem_map, List.mem_range] at hkv
    obtain ⟨k, hk, rfl⟩ := hkv; rw [s2, s1, hinv.size]; exact hbound k hk)
    (by rw [List.pairwise_reverse]; exact hsorted2)
    (by
      intro kv hkv; rw [List.mem_reverse, hl2] at hkv; simp only [List.mem_map, List.mem_range] at hkv
      obtain ⟨k, hk, rfl⟩ := hkv
      simp only [List.getD, List.getElem?_eq_getElem hk, Option.getD_some]
      exact (hE _ (List.getElem_mem hk)).2)
  refine ⟨{ edges := e3, lower := st.lower.push i, upper := st.upper.push j, mIndex := st.mIndex + 1 }, ?_, ?_⟩
  · simp only [lgStep, hedge, Outcome.bind_ok, ↓reduceIte, hb]
    rw [f1]; simp only [Outcome.bind_ok]; rw [f2]; simp only [Outcome.bind_ok]; rw [f3]; rfl
  · refine ⟨by simp [hb], by simp [hinv.lower], by simp [hinv.upper], by rw [s3, s2, s1, hinv.size], ?_⟩
    intro x
    show bitAt e3 x = _
    rw [b3 x, b2 x, b1 x, hinv.bits x, lgBit_snoc, List.any_reverse, hl1, hl2]
    simp only [List.any_map, Bool.or_assoc]
    congr 1
    rw [Bool.eq_iff_iff]
    simp only [Bool.or_eq_true, List.any_eq_true, List.mem_range, Function.comp, Bool.and_eq_true, beq_iff_eq]
    constructor
    · rintro (⟨k, hk, h1, h2⟩ | ⟨k, hk, h1, h2⟩ | ⟨k, hk, h1, h2⟩)
      · exact ⟨k, hk, h1, by simp only [share, Bool.or_eq_true, beq_iff_eq]; exact Or.inl (Or.inl (Or.inl h2.symm))⟩
      · exact ⟨k, hk, h1, by simp only [share, Bool.or_eq_true, beq_iff_eq]; exact Or.inl (Or.inr h2.symm)⟩
      · exact ⟨k, hk, h1, by simp only [share, Bool.or_eq_true, beq_iff_eq]; exact Or.inr h2⟩
    · rintro ⟨k, hk, h1, h2⟩
      have hEk := hE _ (List.getElem_mem hk)
      have hget : E.getD k (0, 0) = E[k] := by simp [List.getD, hk]
      rw [← hget] at hEk
      simp only [share, Bool.or_eq_true, beq_iff_eq] at h2
      rcases h2 with ((h2 | h2) | h2) | h2
      · exact Or.inl ⟨k, hk, h1, h2.symm⟩
      · omega
      · exact Or.inr (Or.inl ⟨k, hk, h1, h2.symm⟩)
      · exact Or.inr (Or.inr ⟨k, hk, h1, h2⟩)


end Construct
