import Mamba.Lemmas.CanonFCov
import Mamba.Lemmas.CanonFCovOrbit
import Mamba.Lemmas.CanonFCovWorse
/-!
# The coverage invariant through the transitions of the search that need no automorphism argument
-/
namespace CanonF

/-- the member of the top cell at the position `c - 1` that `jLoop` looks at -/
theorem top_member {n : Nat} {nb : Nbrs} {rf : Nat} {r : IR.St} {st sz : Nat} {ls : List (Nat × Nat)} {s : LS}
    {c : Nat} {cs : List Nat} {p : Nat} {ps : List Nat} {ce k : Nat} (hc : Core n s)
    (ht : TopOK s.op (k + 1) s.path s.choices ((st, sz) :: ls)) (hage : s.op.age + 1 = s.path.length)
    (hch : s.choices = c :: cs) (hpth : s.path = p :: ps) (hget : s.op.order.get (c - 1) = .ok ce)
    {vs : List Nat} (h : WalkNv n nb rf r vs ((st, sz) :: ls) s) :
    (cellL n nb rf r vs ps.length st)[k]? = some ce ∧ c - 1 - st = k ∧ st < c ∧ vs.length = ps.length ∧ ce < n := by
  obtain ⟨h1, h2, h3, h4, h5, h6, h7⟩ := h
  rw [hpth, hch] at ht
  simp only [TopOK] at ht
  obtain ⟨tb, tsz, tc, tk, _⟩ := ht
  rw [hpth] at h3 hage
  simp only [List.length_cons] at h3 hage
  have hvl : vs.length = ps.length := by omega
  have hm : Match n s.op (nodeL n nb rf r vs vs.length) := (h4 vs.length (Nat.le_refl _)).toMatch hc.part hc.age (by omega) h7
  have hb : IsBinAt (s.op.age + 1) s.op st sz := by
    have : s.op.age + 1 = (ps.length : Int) + 1 := by omega
    rw [this]; exact tb
  obtain ⟨_, _, _, _, _, _, _, _, _, f10⟩ := frame_facts (nb := nb) hc.part hc.age hm hb tsz
    (show st ≤ c - 1 by omega) (show c - 1 < st + sz by omega)
  have hv := Sl.get_eq_toList.1 hget
  refine ⟨?_, by omega, by omega, hvl, perm_range_lt hc.part.perm hv⟩
  unfold cellL
  rw [← hvl, ← f10 h6 k (by omega), show st + k = c - 1 by omega]
  exact hv

/-- `deage`, the refinement, … : the coverage does not look at the partition -/
theorem cov_congr_op {n : Nat} {nb : Nbrs} {rf : Nat} {r : IR.St} {s : LS} {vs : List Nat} {incl : Bool}
    {lv : List (Nat × Nat)} (op' : OP) (sc' : Scratch) (b : Bool)
    (h : CovFrames n nb rf r s vs incl s.path s.choices lv) :
    CovFrames n nb rf r { s with op := op', sc := sc', skipDeage := b } vs incl s.path s.choices lv :=
  CovFrames.congr (s := s) (s' := { s with op := op', sc := sc', skipDeage := b }) rfl (fun _ => rfl) rfl incl _ _ _
    (fun _ _ => rfl) h

/-- Heuristic 2 on the first-leaf path: the skipped child is covered by the "not a root" clause -/
theorem cov_skipA {n : Nat} {nb : Nbrs} {rf : Nat} {r : IR.St} (st sz : Nat) (ls : List (Nat × Nat)) (s : LS)
    (c : Nat) (cs : List Nat) (p : Nat) (ps : List Nat) (ce : Nat) (x : Int) (k : Nat) (hc : Core n s)
    (ht : TopOK s.op (k + 1) s.path s.choices ((st, sz) :: ls)) (hage : s.op.age + 1 = s.path.length)
    (hch : s.choices = c :: cs) (hpth : s.path = p :: ps) (hget : s.op.order.get (c - 1) = .ok ce)
    (hon : (decide (s.count > 0) && hasPrefix s.flPath.toList ps.reverse) = true)
    (hx : s.flOrbits[ce]? = some x) (hx0 : x ≥ 0)
    {vs : List Nat} (hw : WalkNv n nb rf r vs ((st, sz) :: ls) s)
    (hcov : CovFrames n nb rf r s vs true s.path s.choices ((st, sz) :: ls)) :
    CovFrames n nb rf r { s with choices := (c - 1) :: cs, skipDeage := true } vs true (p :: ps) ((c - 1) :: cs)
      ((st, sz) :: ls) := by
  obtain ⟨m1, m2, m3, _, _⟩ := top_member hc ht hage hch hpth hget hw
  rw [hpth, hch] at hcov
  have h' := hcov.step_head m3 (fun w hw' => by
    rw [m2, m1] at hw'
    cases hw'
    exact Or.inr ⟨hon, x, hx, hx0⟩) p
  exact CovFrames.congr (s := s) (s' := { s with choices := (c - 1) :: cs, skipDeage := true }) rfl (fun _ => rfl) rfl
    true _ _ _ (fun _ _ => rfl) h'

/-- `splitBin` that does not report "worse": the child is now being explored -/
theorem cov_split_ok {n : Nat} {nb : Nbrs} {rf : Nat} {r : IR.St} (st sz : Nat) (ls : List (Nat × Nat)) (s : LS)
    (c : Nat) (cs : List Nat) (p : Nat) (ps : List Nat) (bo : Disjoint.DS) (op' : OP) (k : Nat)
    (hch : s.choices = c :: cs) (hpth : s.path = p :: ps) (hst : st < c) {vs : List Nat}
    (hcov : CovFrames n nb rf r s vs true s.path s.choices ((st, sz) :: ls)) :
    CovFrames n nb rf r { s with choices := (c - 1) :: cs, bestOrbits := bo, op := op', path := k :: ps } vs false
      (k :: ps) ((c - 1) :: cs) ((st, sz) :: ls) := by
  rw [hpth, hch] at hcov
  exact CovFrames.congr (s := s)
    (s' := { s with choices := (c - 1) :: cs, bestOrbits := bo, op := op', path := k :: ps }) rfl (fun _ => rfl) rfl
    false _ _ _ (fun _ _ => rfl) (hcov.start_child hst k)

/-- a new frame: nothing is processed yet -/
theorem cov_push {n : Nat} {nb : Nbrs} {rf : Nat} {r : IR.St} {s : LS} {vs : List Nat} {lv : List (Nat × Nat)}
    (st sz : Nat) (hlen : (cellL n nb rf r vs s.path.length st).length = sz)
    (hcov : CovFrames n nb rf r s vs false s.path s.choices lv) :
    CovFrames n nb rf r { s with choices := (st + sz) :: s.choices, path := sz :: s.path, skipDeage := true } vs true
      (sz :: s.path) ((st + sz) :: s.choices) ((st, sz) :: lv) := by
  simp only [CovFrames]
  refine ⟨fun i w hi hw => ?_, CovFrames.congr (s := s)
    (s' := { s with choices := (st + sz) :: s.choices, path := sz :: s.path, skipDeage := true }) rfl (fun _ => rfl) rfl
    false _ _ _ (fun _ _ => rfl) hcov⟩
  simp only [if_true] at hi
  have := (List.getElem?_eq_some_iff.1 hw).1
  omega

/-- the node of level `L + 1` is the child of the node of level `L` by the vertex `vs[L]` -/
theorem nodeL_succ {n : Nat} {nb : Nbrs} {rf : Nat} {r : IR.St} {vs : List Nat} (hpath : IR.IsPath (irG n nb) rf r vs)
    {L t v : Nat} (hv : vs[L]? = some v) (ht : IR.target (irG n nb) (nodeL n nb rf r vs L) = some t) :
    nodeL n nb rf r vs (L + 1) = IR.childSt (irG n nb) rf (nodeL n nb rf r vs L) t v := by
  unfold nodeL at *
  have hL := (List.getElem?_eq_some_iff.1 hv).1
  have e : vs.take (L + 1) = vs.take L ++ [v] := by
    rw [List.take_add_one, hv]; rfl
  rw [e, IR.nodeAt_snoc (vs.take L) r v t (IR.isPath_take vs r L hpath) ht]

/-- Heuristic 2 on the best-leaf path: the skipped child is complete because an orbit mate at a later position is -/
theorem cov_skipB_step {n m : Nat} {nb : Nbrs} {rf : Nat} {r : IR.St} (hnb : NbOK nb n)
    (st sz : Nat) (ls : List (Nat × Nat)) (s : LS) (c : Nat) (cs : List Nat) (p : Nat) (ps : List Nat) (ce : Nat)
    (bo : Disjoint.DS) (k : Nat) (hc : Core n s) (ht : TopOK s.op (k + 1) s.path s.choices ((st, sz) :: ls))
    (hage : s.op.age + 1 = s.path.length) (hch : s.choices = c :: cs) (hpth : s.path = p :: ps)
    (hget : s.op.order.get (c - 1) = .ok ce) (hnf : onFirstB s ps = false)
    (hh : h2Best s.op s.bestOrbits (c - 1) ce = .ok (true, bo))
    {vs : List Nat} (hw : WalkNv n nb rf r vs ((st, sz) :: ls) s)
    (hcov : CovFrames n nb rf r s vs true s.path s.choices ((st, sz) :: ls))
    (S : List Nat → Prop)
    (hS : ∀ γ, S γ → IsAutL nb n γ ∧ ∀ u, u < n →
      IR.col (nodeL n nb rf r vs vs.length).c (γ.getD u 0) = IR.col (nodeL n nb rf r vs vs.length).c u)
    (hds : Disjoint.Inv s.bestOrbits) (hdsz : s.bestOrbits.size = n)
    (horb : ∀ a b, a < n → b < n → Disjoint.rep s.bestOrbits a = Disjoint.rep s.bestOrbits b →
      Relation.EqvGen (fun x y => ∃ γ, S γ ∧ γ[x]? = some y) a b) :
    CovFrames n nb rf r { s with choices := (c - 1) :: cs, bestOrbits := bo, skipDeage := true } vs true (p :: ps)
      ((c - 1) :: cs) ((st, sz) :: ls) := by
  obtain ⟨m1, m2, m3, m4, _⟩ := top_member hc ht hage hch hpth hget hw
  have hcomp := cov_skipB (m := m) hnb st sz ls s c cs p ps ce bo k hc ht hage hch hpth hget hnf hh hw hcov S hS hds hdsz horb
  rw [hpth, hch] at hcov
  have h' := hcov.step_head m3 (fun w hw' => by
    rw [m2, m1] at hw'
    cases hw'
    rw [m4] at hcomp
    exact Or.inl hcomp) p
  exact CovFrames.congr (s := s) (s' := { s with choices := (c - 1) :: cs, bestOrbits := bo, skipDeage := true })
    rfl (fun _ => rfl) rfl true _ _ _ (fun _ _ => rfl) h'

/-- `splitBin` reports "worse": the child is complete (partial-certificate pruning) -/
theorem cov_split_worse_step {n m : Nat} {nb : Nbrs} {rf : Nat} {r : IR.St} (hnb : NbOK nb n) (hsz : nb.size = n)
    (hm : m = ((nb.toList.map List.length).sum) / 2) (hrf : 3 * n + 3 ≤ rf)
    (hA : IR.InvA (irG n nb) r) (hD : IR.InvD (irG n nb) r)
    (st sz : Nat) (ls : List (Nat × Nat)) (s : LS) (c : Nat) (cs : List Nat) (p : Nat) (ps : List Nat) (ce : Nat)
    (bo : Disjoint.DS) (op' : OP) (k : Nat) (hc : Core n s) (ht : TopOK s.op (k + 1) s.path s.choices ((st, sz) :: ls))
    (hage : s.op.age + 1 = s.path.length) (hch : s.choices = c :: cs) (hpth : s.path = p :: ps)
    (hget : s.op.order.get (c - 1) = .ok ce)
    (hs : splitBin nb s.currentBest s.firstLeaf s.op (c - 1) = .ok (true, op'))
    {vs : List Nat} (hw : WalkNv n nb rf r vs ((st, sz) :: ls) s) (hcert : CertN n m nb ((st, sz) :: ls) s)
    (hcov : CovFrames n nb rf r s vs true s.path s.choices ((st, sz) :: ls)) :
    CovFrames n nb rf r { s with choices := (c - 1) :: cs, bestOrbits := bo, op := op', path := k :: ps } vs true
      (k :: ps) ((c - 1) :: cs) ((st, sz) :: ls) := by
  obtain ⟨m1, m2, m3, m4, _⟩ := top_member hc ht hage hch hpth hget hw
  have hcomp := cov_split_worse hnb hsz hm hrf hA hD st sz ls s c cs p ps op' k hc ht hage hch hpth hs hw hcert
  rw [hpth, hch] at hcov
  have h' := hcov.step_head m3 (fun w hw' => by
    rw [m2] at hw'
    rw [← m4] at hw'
    exact Or.inl (by rw [← m4]; exact hcomp w hw')) k
  exact CovFrames.congr (s := s)
    (s' := { s with choices := (c - 1) :: cs, bestOrbits := bo, op := op', path := k :: ps })
    rfl (fun _ => rfl) rfl true _ _ _ (fun _ _ => rfl) h'

/-- the refinement reports "worse": the child that was being explored is complete -/
theorem cov_refine_worse_step {n m : Nat} {nb : Nbrs} {rf : Nat} {r : IR.St} (hnb : NbOK nb n) (hsz : nb.size = n)
    (hm : m = ((nb.toList.map List.length).sum) / 2) (hrf : 3 * n + 3 ≤ rf)
    (hA : IR.InvA (irG n nb) r) (hD : IR.InvD (irG n nb) r)
    (st sz : Nat) (ls : List (Nat × Nat)) (s : LS) (c : Nat) (cs : List Nat) (p : Nat) (ps : List Nat)
    (op' : OP) (sc' sc2 : Scratch) (hc : Core n s) (htl : s.sc.timesSeen.len = n)
    (hch : s.choices = c :: cs) (hpth : s.path = p :: ps) (hcp : c = st + p)
    {vs : List Nat} {t v : Nat} (hw : WalkSv n nb rf r vs t v ((st, sz) :: ls) s) (hcert : CertN n m nb ((st, sz) :: ls) s)
    (hr : refine nb s.currentBest s.firstLeaf {} s.op s.sc = .ok (true, op', sc'))
    (hcov : CovFrames n nb rf r s vs false s.path s.choices ((st, sz) :: ls)) :
    CovFrames n nb rf r { s with op := op', sc := sc2 } vs true (p :: ps) (c :: cs) ((st, sz) :: ls) := by
  have hcomp := cov_refine_worse hnb hsz hm hrf hA hD ((st, sz) :: ls) s op' sc' hc htl hw hcert hr
  obtain ⟨h1, h2, _, _, h5, _, _, _, h9, _⟩ := hw
  rw [hpth] at h9 h2
  rw [hch] at h9
  simp only [FramesOK, List.length_cons] at h9 h2
  have hvl : vs.length = ps.length := by omega
  obtain ⟨g1, _, g3, _⟩ := h9
  obtain ⟨g3a, _⟩ := g3 (by simp; omega)
  rw [hpth, hch] at hcov
  have h' := hcov.finish_child (fun w hw' => by
    have hv : v = w := by
      have e1 : (vs ++ [v])[ps.length]? = some v := by
        rw [← hvl]; simp
      have ec : cellL n nb rf r (vs ++ [v]) ps.length st = cellL n nb rf r vs ps.length st := by
        unfold cellL
        rw [nodeL_congr (take_append_le vs v (by omega))]
      rw [e1, ec, show p = c - st by omega] at g3a
      rw [hw'] at g3a
      exact Option.some.inj g3a
    subst hv
    have et : t = st := by
      have en : nodeL n nb rf r (vs ++ [v]) ps.length = nodeL n nb rf r vs vs.length := by
        rw [← hvl]; exact nodeL_congr (take_append_le vs v (Nat.le_refl _))
      rw [en, h5] at g1
      exact Option.some.inj g1
    have hcomp' := hcomp
    rw [hvl, et] at hcomp'
    exact Or.inl hcomp')
  exact CovFrames.congr (s := s) (s' := { s with op := op', sc := sc2 }) rfl (fun _ => rfl) rfl true _ _ _
    (fun _ _ => rfl) h'

set_option maxHeartbeats 1000000 in
/-- all children of the top frame are processed: the node of the frame is complete, the frame is popped and the child of
the frame below that was being explored (that node) is covered -/
theorem cov_pop_step {n m : Nat} {nb : Nbrs} {rf : Nat} {r : IR.St} (hnb : NbOK nb n)
    (st sz : Nat) (ls : List (Nat × Nat)) (s : LS)
    (ht : TopOK s.op 0 s.path s.choices ((st, sz) :: ls))
    {vs : List Nat} (hw : WalkNv n nb rf r vs ((st, sz) :: ls) s) (hg : GInv n m nb s)
    (hcov : CovFrames n nb rf r s vs true s.path s.choices ((st, sz) :: ls))
    (hE1 : ∀ ps, s.path.drop 1 = ps → onFirstB s ps = true → ∀ k, k < s.ngens → ∀ γ, s.gens[k]? = some γ →
      ∀ u, u < n → IR.col (nodeL n nb rf r vs ps.length).c (γ.toList.getD u 0) = IR.col (nodeL n nb rf r vs ps.length).c u) :
    Complete n nb rf s.currentBest.toList (nodeL n nb rf r vs (s.path.length - 1)) ∧
    CovFrames n nb rf r { s with path := s.path.drop 1, choices := s.choices.drop 1 } vs.dropLast true
      (s.path.drop 1) (s.choices.drop 1) ls := by
  obtain ⟨p, ps, c, cs, st', sz', ls', e1, e2, e3⟩ := topOK_path_ne ht
  cases e3
  have ht' := ht
  rw [e1, e2] at ht'
  simp only [TopOK] at ht'
  obtain ⟨_, _, tc, _, tl⟩ := ht'
  have hcomp := cov_pop (m := m) hnb st sz ls s c cs p ps e2 e1 (by omega) hw hg hcov
    (hE1 ps (by rw [e1]; rfl))
  refine ⟨by rw [e1]; simpa using hcomp, ?_⟩
  obtain ⟨h1, h2, h3, h4, h5, h6, h7⟩ := hw
  rw [e1, e2] at hcov h5
  have htail := hcov
  simp only [CovFrames] at htail
  have hcovt := htail.2
  have h5t := h5.tail
  rw [e1] at h3
  simp only [List.length_cons] at h3
  simp only [e1, e2, List.drop_succ_cons, List.drop_zero]
  -- shape of the frame below
  cases ps with
  | nil =>
    cases cs <;> cases ls <;> simp_all [CovFrames]
  | cons p' ps' =>
    cases cs with
    | nil => simp [CovFrames] at hcovt
    | cons c' cs' =>
      cases ls with
      | nil => simp [CovFrames] at hcovt
      | cons x ls'' =>
        obtain ⟨st2, sz2⟩ := x
        simp only [LevelsOK] at tl
        obtain ⟨_, _, tc2, _, _⟩ := tl
        simp only [FramesOK] at h5t
        obtain ⟨g1, _, g3, _⟩ := h5t
        simp only [List.length_cons] at h3 hcomp
        obtain ⟨g3a, _⟩ := g3 (by omega)
        have hfin := hcovt.finish_child (fun w hw' => by
          rw [show c' - st2 = p' by omega, ← g3a] at hw'
          have hn := nodeL_succ h1 hw' g1
          rw [hn] at hcomp
          exact Or.inl hcomp)
        apply CovFrames.congr (s := s)
          (s' := { s with path := p' :: ps', choices := c' :: cs' }) rfl (fun _ => rfl) rfl true _ _ _ _ hfin
        intro L hL
        simp only [List.length_cons] at hL
        exact take_dropLast vs (by omega)

end CanonF
