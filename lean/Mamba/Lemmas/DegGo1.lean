import Mamba.Model.DegeneracyGo
import Mamba.Lemmas.CliqueColourGreedy
import Mamba.Lemmas.CliqueGoBK2
/-! Correctness of the faithful model of `graph.Degeneracy`: helpers and the neighbour-update loop. -/
namespace CliqueColour
open GraphSpec

/-- the vertices not yet removed -/
def remOf (n : Nat) (removed : List Nat) : List Nat := (List.range n).filter fun w => !removed.contains w

theorem mem_remOf {n : Nat} {r : List Nat} {w : Nat} : w ∈ remOf n r ↔ w < n ∧ w ∉ r := by
  simp [remOf]

theorem nodup_remOf (n : Nat) (r : List Nat) : (remOf n r).Nodup := List.nodup_range.sublist List.filter_sublist

theorem remOf_cons (n v : Nat) (r : List Nat) : remOf n (v :: r) = (remOf n r).filter (fun w => w != v) := by
  simp only [remOf, List.filter_filter]
  apply List.filter_congr
  intro w _
  by_cases h : w = v
  · subst h; simp
  · simp [h]

/-- current degree of `w`: neighbours among the vertices not yet removed -/
def curDeg (g : G) (order : List Nat) (w : Nat) : Nat := degIn g (remOf g.n order) w

theorem degIn_cons (g : G) (a : Nat) (t : List Nat) (w : Nat) :
    degIn g (a :: t) w = (if g.adj w a then 1 else 0) + degIn g t w := by
  unfold degIn
  by_cases ha : g.adj w a = true
  · rw [List.filter_cons, if_pos ha, if_pos ha, List.length_cons]; omega
  · rw [List.filter_cons, if_neg ha, if_neg ha]; omega

theorem degIn_remove (g : G) (w v : Nat) : ∀ (S : List Nat), S.Nodup → v ∈ S →
    degIn g S w = degIn g (S.filter fun x => x != v) w + (if g.adj w v then 1 else 0) := by
  intro S
  induction S with
  | nil => intro _ h; cases h
  | cons a t ih =>
    intro hn hv
    have hn' := List.nodup_cons.1 hn
    by_cases hav : a = v
    · subst hav
      have hfil : t.filter (fun x => x != a) = t := by
        rw [List.filter_eq_self]
        intro x hx
        have : x ≠ a := fun h => hn'.1 (h ▸ hx)
        simp [this]
      rw [List.filter_cons, if_neg (by simp), hfil, degIn_cons]; omega
    · have hvt : v ∈ t := by
        rcases List.mem_cons.1 hv with h | h
        · exact absurd h.symm hav
        · exact h
      have := ih hn'.2 hvt
      rw [List.filter_cons, if_pos (by simp [hav]), degIn_cons, degIn_cons, this]; omega

theorem curDeg_cons {g : G} {order : List Nat} {v : Nat} (hv : v < g.n) (hvo : v ∉ order) (w : Nat) :
    curDeg g order w = curDeg g (v :: order) w + (if g.adj w v then 1 else 0) := by
  unfold curDeg
  rw [remOf_cons]
  exact degIn_remove g w v _ (nodup_remOf _ _) (mem_remOf.2 ⟨hv, hvo⟩)

theorem getD_map_range {α : Type} (B : Nat) (f : Nat → α) (d : α) {k : Nat} (hk : k < B) :
    ((List.range B).map f).getD k d = f k := by
  simp [List.getD_eq_getElem?_getD, List.getElem?_map, List.getElem?_range hk]

theorem getD_mem_of_lt {α : Type} {l : List α} {k : Nat} (d : α) (hk : k < l.length) : l.getD k d ∈ l := by
  rw [List.getD_eq_getElem?_getD, List.getElem?_eq_getElem hk, Option.getD_some]
  exact List.getElem_mem hk

/-- number of pending decrements for `w` -/
def pend (us : List Nat) (w : Nat) : Nat := if w ∈ us then 1 else 0

/-- invariant inside the neighbour loop: `us` are the neighbours of the removed vertex still to be handled -/
structure MInv (g : G) (B : Nat) (order us : List Nat) (bins : List (List Nat)) (degrees : List Int) : Prop where
  dlen : degrees.length = g.n
  blen : bins.length = B
  removed : ∀ w ∈ order, degrees.getD w 0 = -1
  live : ∀ w, w < g.n → w ∉ order →
    degrees.getD w 0 = ((curDeg g order w + pend us w : Nat) : Int) ∧ curDeg g order w + pend us w < B ∧
      w ∈ bins.getD (curDeg g order w + pend us w) []
  binsok : ∀ k, k < B → (bins.getD k []).Nodup ∧
    ∀ w ∈ bins.getD k [], w < g.n ∧ w ∉ order ∧ curDeg g order w + pend us w = k

theorem degUpdate_spec {g : G} {B : Nat} {order us : List Nat} {bins : List (List Nat)} {degrees : List Int}
    {u : Nat} (hinv : MInv g B order (u :: us) bins degrees) (hun : u < g.n) (hus : u ∉ us) :
    ∃ b' d', degUpdate bins degrees u = .ok (b', d') ∧ MInv g B order us b' d' := by
  have hud : u < degrees.length := by rw [hinv.dlen]; exact hun
  have hpend_ne : ∀ w, w ≠ u → pend (u :: us) w = pend us w := by
    intro w hw; simp [pend, hw]
  simp only [degUpdate, getElem?_eq_some_getD hud 0]
  by_cases huo : u ∈ order
  · -- already removed
    have hdu := hinv.removed u huo
    rw [hdu]
    simp only [beq_self_eq_true, if_true]
    refine ⟨bins, degrees, rfl, hinv.dlen, hinv.blen, hinv.removed, fun w hw hwo => ?_, fun k hk => ?_⟩
    · have hne : w ≠ u := fun h => hwo (h ▸ huo)
      rw [← hpend_ne w hne]; exact hinv.live w hw hwo
    · refine ⟨(hinv.binsok k hk).1, fun w hwm => ?_⟩
      obtain ⟨h1, h2, h3⟩ := (hinv.binsok k hk).2 w hwm
      have hne : w ≠ u := fun h => h2 (h ▸ huo)
      rw [← hpend_ne w hne]; exact ⟨h1, h2, h3⟩
  · -- live neighbour: move it one bin down
    obtain ⟨hdu, hcB, hmem⟩ := hinv.live u hun huo
    have hpu : pend (u :: us) u = 1 := by simp [pend]
    have hpu' : pend us u = 0 := by simp [pend, hus]
    rw [hpu] at hdu hcB hmem
    generalize hc : curDeg g order u = cu at hdu hcB hmem
    rw [hdu]
    have h1 : ((((cu + 1 : Nat) : Int)) == -1) = false := by
      rw [beq_eq_false_iff_ne]; omega
    have h2 : ¬ (((cu + 1 : Nat) : Int) < 0) := by omega
    simp only [h1, Bool.false_eq_true, if_false, h2, Int.toNat_natCast]
    have hkB : cu + 1 < bins.length := by rw [hinv.blen]; exact hcB
    rw [getElem?_eq_some_getD hkB []]
    simp only
    have hpos : (bins.getD (cu + 1) []).idxOf u < (bins.getD (cu + 1) []).length :=
      List.idxOf_lt_length_of_mem hmem
    rw [if_pos hpos, if_neg (by omega)]
    have hlen1 : (bins.set (cu + 1) (swapRemove (bins.getD (cu + 1) []) ((bins.getD (cu + 1) []).idxOf u))).length
        = bins.length := by simp
    have hk1 : cu + 1 - 1 < (bins.set (cu + 1)
        (swapRemove (bins.getD (cu + 1) []) ((bins.getD (cu + 1) []).idxOf u))).length := by
      rw [hlen1]; omega
    rw [getElem?_eq_some_getD hk1 []]
    simp only
    have hsub : cu + 1 - 1 = cu := by omega
    rw [hsub, getD_set, if_neg (by omega)]
    -- abbreviations
    obtain ⟨hbn, hbm⟩ := hinv.binsok (cu + 1) hcB
    have hcuB : cu < B := by omega
    obtain ⟨hb2n, hb2m⟩ := hinv.binsok cu hcuB
    obtain ⟨hsn, _, hsm⟩ := swapRemove_facts hpos hbn
    have hgetu : (bins.getD (cu + 1) [])[(bins.getD (cu + 1) []).idxOf u] = u := List.getElem_idxOf hpos
    rw [hgetu] at hsm
    have hu_b2 : u ∉ bins.getD cu [] := by
      intro h
      have := (hb2m u h).2.2
      rw [hc, hpu] at this; omega
    -- the new bins, pointwise
    have hget : ∀ k, (((bins.set (cu + 1) (swapRemove (bins.getD (cu + 1) [])
          ((bins.getD (cu + 1) []).idxOf u))).set cu (bins.getD cu [] ++ [u])).getD k []) =
        if k = cu then bins.getD cu [] ++ [u]
        else if k = cu + 1 then swapRemove (bins.getD (cu + 1) []) ((bins.getD (cu + 1) []).idxOf u)
        else bins.getD k [] := by
      intro k
      rw [getD_set, getD_set]
      by_cases hk : k = cu
      · subst hk; rw [if_pos ⟨rfl, by rw [hlen1]; omega⟩, if_pos rfl]
      · rw [if_neg (fun h => hk h.1.symm), if_neg hk]
        by_cases hk' : k = cu + 1
        · subst hk'; rw [if_pos ⟨rfl, hkB⟩, if_pos rfl]
        · rw [if_neg (fun h => hk' h.1.symm), if_neg hk']
    refine ⟨_, _, rfl, by simpa using hinv.dlen, by simpa using hinv.blen, fun w hwo => ?_, fun w hw hwo => ?_,
      fun k hk => ?_⟩
    · have hne : w ≠ u := fun h => huo (h ▸ hwo)
      rw [getD_set, if_neg (fun h => hne h.1.symm)]
      exact hinv.removed w hwo
    · by_cases hwu : w = u
      · subst hwu
        simp only [hc, hpu', Nat.add_zero]
        rw [getD_set, if_pos ⟨rfl, hud⟩, hget, if_pos rfl]
        exact ⟨by push_cast; omega, hcuB, by simp⟩
      · obtain ⟨l1, l2, l3⟩ := hinv.live w hw hwo
        rw [hpend_ne w hwu] at l1 l2 l3
        rw [getD_set, if_neg (fun h => hwu h.1.symm)]
        refine ⟨l1, l2, ?_⟩
        rw [hget]
        by_cases hk : curDeg g order w + pend us w = cu
        · rw [if_pos hk]; rw [hk] at l3; exact List.mem_append_left _ l3
        · rw [if_neg hk]
          by_cases hk' : curDeg g order w + pend us w = cu + 1
          · rw [if_pos hk']; rw [hk'] at l3; exact (hsm w).2 ⟨l3, hwu⟩
          · rw [if_neg hk']; exact l3
    · rw [hget]
      by_cases hkc : k = cu
      · subst hkc
        rw [if_pos rfl]
        refine ⟨List.nodup_append.2 ⟨hb2n, by simp, fun a ha b hb hab => ?_⟩, fun w hwm => ?_⟩
        · have : b = u := by simpa using hb
          subst this; subst hab; exact hu_b2 ha
        · rcases List.mem_append.1 hwm with h | h
          · obtain ⟨m1, m2, m3⟩ := hb2m w h
            have hne : w ≠ u := fun e => hu_b2 (e ▸ h)
            rw [hpend_ne w hne] at m3
            exact ⟨m1, m2, m3⟩
          · have : w = u := by simpa using h
            subst this
            exact ⟨hun, huo, by rw [hc, hpu']; rfl⟩
      · rw [if_neg hkc]
        by_cases hkc' : k = cu + 1
        · subst hkc'
          rw [if_pos rfl]
          refine ⟨hsn, fun w hwm => ?_⟩
          obtain ⟨hwb, hne⟩ := (hsm w).1 hwm
          obtain ⟨m1, m2, m3⟩ := hbm w hwb
          rw [hpend_ne w hne] at m3
          exact ⟨m1, m2, m3⟩
        · rw [if_neg hkc']
          obtain ⟨hn0, hm0⟩ := hinv.binsok k hk
          refine ⟨hn0, fun w hwm => ?_⟩
          obtain ⟨m1, m2, m3⟩ := hm0 w hwm
          have hne : w ≠ u := by
            intro e
            subst e
            rw [hc, hpu] at m3
            exact hkc' m3.symm
          rw [hpend_ne w hne] at m3
          exact ⟨m1, m2, m3⟩

theorem degNbrs_spec {g : G} {B : Nat} {order : List Nat} : ∀ (us : List Nat) (bins : List (List Nat))
    (degrees : List Int), MInv g B order us bins degrees → us.Nodup → (∀ u ∈ us, u < g.n) →
    ∃ b' d', degNbrs us bins degrees = .ok (b', d') ∧ MInv g B order [] b' d' := by
  intro us
  induction us with
  | nil => intro bins degrees h _ _; exact ⟨bins, degrees, rfl, h⟩
  | cons u us ih =>
    intro bins degrees h hn hlt
    have hn' := List.nodup_cons.1 hn
    obtain ⟨b1, d1, he, h1⟩ := degUpdate_spec h (hlt u List.mem_cons_self) hn'.1
    obtain ⟨b2, d2, he2, h2⟩ := ih b1 d1 h1 hn'.2 (fun w hw => hlt w (List.mem_cons_of_mem _ hw))
    exact ⟨b2, d2, by simp only [degNbrs, he, he2], h2⟩

end CliqueColour
