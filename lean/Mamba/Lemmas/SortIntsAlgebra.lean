import Mamba.Spec.SortInts
import Mathlib.Data.List.Sort
/-! Lemmas for C17: the two-pointer functions of `sortints` on strictly increasing lists. -/
set_option linter.unusedTactic false
set_option linter.unreachableTactic false
set_option linter.unnecessarySeqFocus false
namespace SortInts

theorem mem_union (a b : List Int) (x : Int) : x ∈ union a b ↔ x ∈ a ∨ x ∈ b := by
  fun_induction union a b <;> simp_all <;> try grind

theorem union_sorted (a b : List Int) (ha : SS a) (hb : SS b) : SS (union a b) := by
  fun_induction union a b <;> simp_all [mem_union] <;> grind

theorem mem_intersection (a b : List Int) (ha : SS a) (hb : SS b) (x : Int) :
    x ∈ intersection a b ↔ x ∈ a ∧ x ∈ b := by
  fun_induction intersection a b <;> simp_all <;> try grind

theorem intersection_sorted (a b : List Int) (ha : SS a) (hb : SS b) : SS (intersection a b) := by
  fun_induction intersection a b <;> simp_all [mem_intersection] <;> grind

theorem intersectionSize_eq (a b : List Int) : intersectionSize a b = (intersection a b).length := by
  fun_induction intersectionSize a b <;> simp_all [intersection]; grind

theorem mem_setMinus (a b : List Int) (ha : SS a) (hb : SS b) (x : Int) :
    x ∈ setMinus a b ↔ x ∈ a ∧ x ∉ b := by
  fun_induction setMinus a b <;> simp_all <;> grind

theorem setMinus_sorted (a b : List Int) (ha : SS a) (hb : SS b) : SS (setMinus a b) := by
  fun_induction setMinus a b <;> simp_all [mem_setMinus] <;> grind

theorem mem_xor (a b : List Int) (ha : SS a) (hb : SS b) (x : Int) :
    x ∈ xor a b ↔ (x ∈ a ∧ x ∉ b) ∨ (x ∉ a ∧ x ∈ b) := by
  fun_induction xor a b <;> simp_all <;> grind

theorem xor_sorted (a b : List Int) (ha : SS a) (hb : SS b) : SS (xor a b) := by
  fun_induction xor a b <;> simp_all [mem_xor] <;> grind

theorem containsSorted_iff (a b : List Int) (ha : SS a) (hb : SS b) :
    containsSorted a b = true ↔ ∀ x ∈ b, x ∈ a := by
  fun_induction containsSorted a b
  case case1 b =>
    cases b with
    | nil => simp
    | cons h t => simp; exact ⟨h, by simp⟩
  all_goals simp_all <;> grind

end SortInts

namespace SortInts
theorem intersectionSize_le_length (a b : List Int) : intersectionSize a b ≤ a.length ∧ intersectionSize a b ≤ b.length := by
  fun_induction intersectionSize a b <;> simp_all <;> omega
end SortInts
