import Mamba.Lemmas.DistanceXor
import Mamba.Lemmas.DistancePatonTotal
import Mathlib.Data.List.Sublists
/-!
# Gibbs' loop: `Q` is the list of all non-empty XOR combinations of the processed fundamental cycles
-/
namespace GDist
open Model

/-- in how many of the lists of `I` the code `x` occurs -/
def occ (I : List (List Nat)) (x : Nat) : Nat := I.countP fun f => decide (x ∈ f)

/-- `t` is (the strictly increasing list of) the XOR of the lists of `I` -/
def IsXorOf (I : List (List Nat)) (t : List Nat) : Prop :=
  t.Pairwise (· < ·) ∧ ∀ x, x ∈ t ↔ occ I x % 2 = 1

structure QInv (F : List (List Nat)) (Q : List (List Nat)) : Prop where
  sound : ∀ t ∈ Q, ∃ I, I ≠ [] ∧ I.Sublist F ∧ IsXorOf I t
  complete : ∀ I, I ≠ [] → I.Sublist F → ∃ t ∈ Q, IsXorOf I t
  len : Q.length + 1 = 2 ^ F.length

theorem occ_append (I J : List (List Nat)) (x : Nat) : occ (I ++ J) x = occ I x + occ J x := by
  unfold occ; rw [List.countP_append]

theorem occ_single (f : List Nat) (x : Nat) : occ [f] x = if x ∈ f then 1 else 0 := by
  unfold occ; simp [List.countP_cons]

theorem isXorOf_single {f : List Nat} (hf : f.Pairwise (· < ·)) : IsXorOf [f] f :=
  ⟨hf, fun x => by rw [occ_single]; split <;> simp_all⟩

theorem isXorOf_snoc {I : List (List Nat)} {t fc : List Nat} (ht : IsXorOf I t) (hf : fc.Pairwise (· < ·)) :
    IsXorOf (I ++ [fc]) (sXor t fc) := by
  obtain ⟨h1, h2⟩ := sXor_spec t fc ht.1 hf
  refine ⟨h1, fun x => ?_⟩
  rw [h2 x, occ_append, occ_single, ht.2 x]
  by_cases hx : x ∈ fc
  · simp only [hx, if_true, not_true_eq_false, and_false, and_true, false_or]; omega
  · simp only [hx, if_false, not_false_eq_true, and_true, and_false, or_false]; omega

theorem qinv_step {F Q : List (List Nat)} {fc : List Nat} (h : QInv F Q) (hf : fc.Pairwise (· < ·)) :
    QInv (F ++ [fc]) (Q ++ (Q.map fun t => sXor t fc) ++ [fc]) := by
  refine ⟨?_, ?_, ?_⟩
  · intro t ht
    rcases List.mem_append.1 ht with ht | ht
    · rcases List.mem_append.1 ht with ht | ht
      · obtain ⟨I, h1, h2, h3⟩ := h.sound t ht
        exact ⟨I, h1, h2.trans (List.sublist_append_left _ _), h3⟩
      · obtain ⟨t0, ht0, rfl⟩ := List.mem_map.1 ht
        obtain ⟨I, h1, h2, h3⟩ := h.sound t0 ht0
        exact ⟨I ++ [fc], by simp, List.Sublist.append h2 (List.Sublist.refl _), isXorOf_snoc h3 hf⟩
    · simp at ht; subst ht
      exact ⟨[t], by simp, List.sublist_append_right _ _, isXorOf_single hf⟩
  · intro J hJ hsub
    obtain ⟨I, K, rfl, hI, hK⟩ := List.sublist_append_iff.1 hsub
    have hK' : K = [] ∨ K = [fc] := by
      cases K with
      | nil => exact .inl rfl
      | cons k K' =>
        right
        have := hK.length_le
        have hlen : K' = [] := by
          cases K' with
          | nil => rfl
          | cons _ _ => simp at this
        subst hlen
        have := hK.subset (List.mem_cons_self)
        simp at this; rw [this]
    rcases hK' with rfl | rfl
    · rw [List.append_nil] at hJ ⊢
      obtain ⟨t, ht, hx⟩ := h.complete I hJ hI
      exact ⟨t, List.mem_append.2 (.inl (List.mem_append.2 (.inl ht))), hx⟩
    · by_cases hI0 : I = []
      · subst hI0
        exact ⟨fc, by simp, isXorOf_single hf⟩
      · obtain ⟨t, ht, hx⟩ := h.complete I hI0 hI
        exact ⟨sXor t fc, List.mem_append.2 (.inl (List.mem_append.2 (.inr (List.mem_map.2 ⟨t, ht, rfl⟩)))),
          isXorOf_snoc hx hf⟩
  · have := h.len
    simp only [List.length_append, List.length_map, List.length_cons, List.length_nil]
    rw [Nat.pow_succ]
    omega

/-- the `Q` component of one iteration of Gibbs' loop -/
theorem gibbsLoop_Q : ∀ (fcs : List (List Nat)) (st : GibbsSt) (F : List (List Nat)), QInv F st.Q →
    (∀ f ∈ fcs, f.Pairwise (· < ·)) → ∀ gs, gibbsLoop fcs st = .ok gs → QInv (F ++ fcs) gs.Q := by
  intro fcs
  induction fcs with
  | nil =>
    intro st F h _ gs hres
    simp only [gibbsLoop] at hres
    cases hres
    simpa using h
  | cons fc fcs ih =>
    intro st F h hs gs hres
    unfold gibbsLoop at hres
    simp only at hres
    split at hres
    · next R' P' _ =>
      have hq := qinv_step h (hs fc List.mem_cons_self)
      have hmm : (st.Q.map fun t => (t, sXor t fc)).map (·.2) = st.Q.map fun t => sXor t fc := by
        rw [List.map_map]; rfl
      have := ih _ (F ++ [fc]) (by
        show QInv (F ++ [fc]) (st.Q ++ (st.Q.map fun t => (t, sXor t fc)).map (·.2) ++ [fc])
        rw [hmm]; exact hq) (fun f hf => hs f (List.mem_cons_of_mem _ hf)) gs hres
      simpa [List.append_assoc] using this
    · cases hres
    · cases hres

end GDist
