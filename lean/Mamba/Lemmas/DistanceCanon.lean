import Mamba.Lemmas.DistanceCycles
import Mathlib.Data.List.Chain
import Mathlib.Data.List.Rotate
/-!
# Lemmas for C10: every cycle has exactly one canonical vertex sequence (up to rotation and reflection)
-/
namespace GDist
open GraphSpec List

variable {g : G}

/-- the adjacency relation in the orientation used by `chainAdj` -/
def RAdj (g : G) (a b : Nat) : Prop := g.adj b a = true

theorem chainAdj_iff_isChain (c : List Nat) : chainAdj g c ↔ IsChain (RAdj g) c := by
  induction c with
  | nil => simp [chainAdj]
  | cons a t ih =>
    cases t with
    | nil => simp [chainAdj]
    | cons b t' =>
      simp only [chainAdj, isChain_cons_cons, RAdj]
      rw [ih]

theorem headD_eq_of_head? {c : List Nat} {a : Nat} (h : c.head? = some a) : c.headD 0 = a := by
  cases c with
  | nil => cases h
  | cons x t => simp at h; simp [h]

/-- `IsCycleSeq` in terms of `IsChain`, `head?`, `getLast?` -/
theorem isCycleSeq_iff (c : List Nat) :
    IsCycleSeq g c ↔
      (3 ≤ c.length ∧ c.Nodup ∧ (∀ x ∈ c, x < g.n) ∧ IsChain (RAdj g) c ∧
        ∀ x ∈ c.getLast?, ∀ y ∈ c.head?, RAdj g x y) := by
  unfold IsCycleSeq
  rw [chainAdj_iff_isChain]
  constructor
  · rintro ⟨h1, h2, h3, h4, h5⟩
    refine ⟨h1, h2, h3, h4, ?_⟩
    intro x hx y hy
    have hx' := getLastD_of_getLast? (p := c) hx
    have hy' := headD_eq_of_head? hy
    unfold RAdj
    rw [← hx', ← hy']; exact h5
  · rintro ⟨h1, h2, h3, h4, h5⟩
    refine ⟨h1, h2, h3, h4, ?_⟩
    have hne : c ≠ [] := by intro h; rw [h] at h1; simp at h1
    have hl := getLast?_of_ne_nil hne
    obtain ⟨a, t, rfl⟩ := List.exists_cons_of_ne_nil hne
    exact h5 _ hl a rfl

theorem isCycleSeq_rotate_one {c : List Nat} (hc : IsCycleSeq g c) : IsCycleSeq g (c.rotate 1) := by
  rw [isCycleSeq_iff] at hc ⊢
  obtain ⟨h1, h2, h3, h4, h5⟩ := hc
  match c, h1 with
  | a :: b :: t, h1 =>
    have hrot : (a :: b :: t).rotate 1 = (b :: t) ++ [a] := by simp [List.rotate_cons_succ]
    rw [hrot]
    refine ⟨by simpa using h1, ?_, ?_, ?_, ?_⟩
    · have : ((b :: t) ++ [a]).Perm (a :: b :: t) := by
        simpa using (List.perm_append_singleton a (b :: t))
      exact this.nodup_iff.2 h2
    · intro x hx
      apply h3
      simp at hx ⊢
      tauto
    · rw [isChain_append]
      refine ⟨h4.tail, isChain_singleton a, ?_⟩
      intro x hx y hy
      have hya : y = a := by simpa using hy.symm
      subst hya
      apply h5 x _ y rfl
      rw [List.getLast?_cons_cons]; exact hx
    · intro x hx y hy
      have hl : ((b :: t) ++ [a]).getLast? = some a := by
        rw [List.getLast?_append]; simp
      rw [hl] at hx
      have hxa : x = a := by simpa using hx.symm
      have hyb : y = b := by simpa using hy.symm
      subst hxa; subst hyb
      exact (isChain_cons_cons.1 h4).1

theorem isCycleSeq_rotate {c : List Nat} (hc : IsCycleSeq g c) (k : Nat) : IsCycleSeq g (c.rotate k) := by
  induction k with
  | zero => simpa using hc
  | succ k ih =>
    have := isCycleSeq_rotate_one ih
    rwa [List.rotate_rotate] at this

theorem isCycleSeq_of_isRotated {c d : List Nat} (hc : IsCycleSeq g c) (h : c ~r d) : IsCycleSeq g d := by
  obtain ⟨k, rfl⟩ := h
  exact isCycleSeq_rotate hc k

theorem isCycleSeq_reverse (hsym : ∀ u v, g.adj u v = g.adj v u) {c : List Nat} (hc : IsCycleSeq g c) :
    IsCycleSeq g c.reverse := by
  rw [isCycleSeq_iff] at hc ⊢
  obtain ⟨h1, h2, h3, h4, h5⟩ := hc
  refine ⟨by simpa using h1, List.nodup_reverse.2 h2, by simpa using h3, ?_, ?_⟩
  · rw [isChain_reverse]
    exact h4.imp (fun a b hab => by unfold RAdj at hab ⊢; rw [hsym]; exact hab)
  · intro x hx y hy
    simp at hx hy
    have := h5 y hy x hx
    unfold RAdj at this ⊢
    rw [hsym]; exact this

theorem exists_min_mem : ∀ {l : List Nat}, l ≠ [] → ∃ m ∈ l, ∀ x ∈ l, m ≤ x
  | [], h => absurd rfl h
  | [a], _ => ⟨a, by simp, by simp⟩
  | a :: b :: t, _ => by
    obtain ⟨m, hm, hmin⟩ := exists_min_mem (l := b :: t) (by simp)
    by_cases h : a ≤ m
    · refine ⟨a, by simp, ?_⟩
      intro x hx
      rcases List.mem_cons.1 hx with rfl | hx
      · exact Nat.le_refl _
      · exact Nat.le_trans h (hmin x hx)
    · refine ⟨m, List.mem_cons_of_mem _ hm, ?_⟩
      intro x hx
      rcases List.mem_cons.1 hx with rfl | hx
      · omega
      · exact hmin x hx

theorem headD_reverse (Y : List Nat) : Y.reverse.headD 0 = Y.getLastD 0 := by
  rw [List.headD_eq_head?_getD, List.head?_reverse, List.getLastD_eq_getLast?]

theorem getLastD_reverse (Y : List Nat) : Y.reverse.getLastD 0 = Y.headD 0 := by
  rw [List.getLastD_eq_getLast?, List.getLast?_reverse, List.headD_eq_head?_getD]

theorem getLastD_concat (X : List Nat) (m : Nat) : (X ++ [m]).getLastD 0 = m := by
  rw [List.getLastD_eq_getLast?, List.getLast?_append]; simp

theorem headD_append_of_ne_nil {X : List Nat} (h : X ≠ []) (Z : List Nat) : (X ++ Z).headD 0 = X.headD 0 := by
  obtain ⟨a, t, rfl⟩ := List.exists_cons_of_ne_nil h
  rfl

/-- the canonical-form conditions for a cycle sequence written as `X ++ [m]` -/
theorem isCanon_concat {X : List Nat} {m : Nat} (hc : IsCycleSeq g (X ++ [m])) (hmin : ∀ x ∈ X, m < x)
    (hdir : X.getLastD 0 < X.headD 0) : IsCanonCycle g (X ++ [m]).length (X ++ [m]) := by
  have hX : X ≠ [] := by
    intro h; subst h
    have := hc.1; simp at this
  refine ⟨hc, rfl, ?_, ?_⟩
  · rw [List.dropLast_concat, getLastD_concat]; exact hmin
  · rw [List.dropLast_concat, headD_append_of_ne_nil hX]; exact hdir

theorem head_ne_last_of_nodup {X : List Nat} (hn : X.Nodup) (hl : 2 ≤ X.length) : X.headD 0 ≠ X.getLastD 0 := by
  match X, hl with
  | a :: b :: t, _ =>
    intro h
    have hmem : (a :: b :: t).getLastD 0 ∈ b :: t := by
      have : (a :: b :: t).getLastD 0 = (b :: t).getLastD 0 := by
        rw [List.getLastD_eq_getLast?, List.getLastD_eq_getLast?, List.getLast?_cons_cons]
      rw [this]; exact getLastD_mem (by simp)
    rw [← h] at hmem
    exact (List.nodup_cons.1 hn).1 hmem

/-- **existence**: every cycle sequence can be rotated, and if necessary reflected, into canonical form -/
theorem canon_exists (hsym : ∀ u v, g.adj u v = g.adj v u) {c : List Nat} (hc : IsCycleSeq g c) :
    ∃ c', IsCanonCycle g c.length c' ∧ (c' ~r c ∨ c' ~r c.reverse) := by
  obtain ⟨m, hm, hmin⟩ := exists_min_mem hc.ne_nil
  obtain ⟨A, B, rfl⟩ := List.append_of_mem hm
  have h0 : (A ++ m :: B) ~r ((B ++ A) ++ [m]) := by
    have h1 : (A ++ m :: B) ~r (m :: B ++ A) := isRotated_append
    have h2 : (m :: (B ++ A)) ~r ((B ++ A) ++ [m]) := IsRotated.cons_append_singleton
    exact h1.trans (by simpa using h2)
  have hc0 := isCycleSeq_of_isRotated hc h0
  have hlen : ((B ++ A) ++ [m]).length = (A ++ m :: B).length := h0.perm.length_eq.symm
  have hnd : ((B ++ A) ++ [m]).Nodup := hc0.2.1
  have hlt : ∀ x ∈ B ++ A, m < x := by
    intro x hx
    have hxc : x ∈ A ++ m :: B := h0.perm.mem_iff.2 (List.mem_append.2 (.inl hx))
    have hle := hmin x hxc
    have hne : x ≠ m := by
      rintro rfl
      have := List.nodup_append.1 hnd
      exact this.2.2 x hx x (by simp) rfl
    omega
  have hX2 : 2 ≤ (B ++ A).length := by
    have := hc0.1; simp at this ⊢; omega
  have hXnd : (B ++ A).Nodup := (List.nodup_append.1 hnd).1
  by_cases hdir : (B ++ A).getLastD 0 < (B ++ A).headD 0
  · refine ⟨(B ++ A) ++ [m], ?_, .inl h0.symm⟩
    rw [← hlen]; exact isCanon_concat hc0 hlt hdir
  · have hne := head_ne_last_of_nodup hXnd hX2
    have hdir' : (B ++ A).reverse.getLastD 0 < (B ++ A).reverse.headD 0 := by
      rw [getLastD_reverse, headD_reverse]; omega
    have h1 : (A ++ m :: B).reverse ~r ((B ++ A) ++ [m]).reverse := h0.reverse
    have h2 : ((B ++ A) ++ [m]).reverse ~r ((B ++ A).reverse ++ [m]) := by
      rw [List.reverse_append]
      simpa using (IsRotated.cons_append_singleton (a := m) (l := (B ++ A).reverse))
    have h3 := h1.trans h2
    have hc1 := isCycleSeq_of_isRotated (isCycleSeq_reverse hsym hc) h3
    refine ⟨(B ++ A).reverse ++ [m], ?_, .inr h3.symm⟩
    have hlen' : ((B ++ A).reverse ++ [m]).length = (A ++ m :: B).length := by
      rw [← hlen]; simp; omega
    rw [← hlen']
    exact isCanon_concat hc1 (fun x hx => hlt x (List.mem_reverse.1 hx)) hdir'

/-- two rotations of a duplicate-free list with the same last element are equal -/
theorem rot_eq_of_last {l l' : List Nat} (hn : l.Nodup) (hr : l ~r l') (hlast : l.getLast? = l'.getLast?) :
    l = l' := by
  by_cases hnil : l = []
  · subst hnil; exact (isRotated_nil_iff'.1 hr)
  obtain ⟨k, hk, rfl⟩ := isRotated_iff_mod.1 hr
  have hpos : 0 < l.length := List.length_pos_iff.2 hnil
  by_cases hk0 : k = 0
  · subst hk0; simp
  by_cases hkl : k = l.length
  · subst hkl; simp
  exfalso
  have hidx : l.length - 1 < l.length := by omega
  rw [List.getLast?_eq_getElem?, List.getLast?_eq_getElem?, List.length_rotate,
    List.getElem?_rotate hidx] at hlast
  have hmod : (l.length - 1 + k) % l.length = k - 1 := by
    have : l.length - 1 + k = l.length + (k - 1) := by omega
    rw [this, Nat.add_mod_left, Nat.mod_eq_of_lt (by omega)]
  rw [hmod] at hlast
  have h1 : k - 1 < l.length := by omega
  rw [List.getElem?_eq_getElem hidx, List.getElem?_eq_getElem h1] at hlast
  have := (hn.getElem_inj_iff).1 (Option.some.inj hlast)
  omega

theorem canon_decomp {l : Nat} {d : List Nat} (hd : IsCanonCycle g l d) :
    d = d.dropLast ++ [d.getLastD 0] ∧ 2 ≤ d.dropLast.length := by
  have hne := hd.1.ne_nil
  constructor
  · conv_lhs => rw [← List.dropLast_append_getLast hne]
    congr 2
    rw [List.getLastD_eq_getLast?, List.getLast?_eq_some_getLast hne]; rfl
  · have := hd.1.1
    simp; omega

/-- **uniqueness**: two canonical sequences that agree up to rotation and reflection are equal -/
theorem canon_unique {l : Nat} {d d' : List Nat} (hd : IsCanonCycle g l d) (hd' : IsCanonCycle g l d')
    (h : d ~r d' ∨ d ~r d'.reverse) : d = d' := by
  obtain ⟨hdX, hX2⟩ := canon_decomp hd
  obtain ⟨hdY, hY2⟩ := canon_decomp hd'
  have hperm : d.Perm d' := by
    rcases h with h | h
    · exact h.perm
    · exact h.perm.trans (List.reverse_perm d')
  -- the last elements are the minima of the same vertex set
  have hm : d.getLastD 0 = d'.getLastD 0 := by
    have h1 : d'.getLastD 0 ∈ d := hperm.mem_iff.2 (getLastD_mem hd'.1.ne_nil)
    have h2 : d.getLastD 0 ∈ d' := hperm.mem_iff.1 (getLastD_mem hd.1.ne_nil)
    rw [hdX] at h1
    rw [hdY] at h2
    rcases List.mem_append.1 h1 with h1 | h1 <;> rcases List.mem_append.1 h2 with h2 | h2
    · have := hd.2.2.1 _ h1
      have := hd'.2.2.1 _ h2
      omega
    · rw [List.mem_singleton] at h2; exact h2
    · rw [List.mem_singleton] at h1; exact h1.symm
    · rw [List.mem_singleton] at h2; exact h2
  have hlast : d.getLast? = d'.getLast? := by
    rw [getLast?_of_ne_nil hd.1.ne_nil, getLast?_of_ne_nil hd'.1.ne_nil, hm]
  rcases h with h | h
  · exact rot_eq_of_last hd.1.2.1 h hlast
  · exfalso
    have h2 : d'.reverse ~r (d'.dropLast.reverse ++ [d'.getLastD 0]) := by
      conv_lhs => rw [hdY, List.reverse_append]
      simpa using (IsRotated.cons_append_singleton (a := d'.getLastD 0) (l := d'.dropLast.reverse))
    have h3 := h.trans h2
    have hlast' : d.getLast? = (d'.dropLast.reverse ++ [d'.getLastD 0]).getLast? := by
      rw [getLast?_of_ne_nil hd.1.ne_nil, hm, List.getLast?_append]; simp
    have heq := rot_eq_of_last hd.1.2.1 h3 hlast'
    have hX : d.dropLast = d'.dropLast.reverse := by
      rw [heq, List.dropLast_concat]
    have c1 := hd.2.2.2
    have c2 := hd'.2.2.2
    have hXne : d.dropLast ≠ [] := by intro h0; rw [h0] at hX2; simp at hX2
    have hYne : d'.dropLast ≠ [] := by intro h0; rw [h0] at hY2; simp at hY2
    have e1 : d.headD 0 = d.dropLast.headD 0 := by
      conv_lhs => rw [hdX]
      exact headD_append_of_ne_nil hXne _
    have e2 : d'.headD 0 = d'.dropLast.headD 0 := by
      conv_lhs => rw [hdY]
      exact headD_append_of_ne_nil hYne _
    rw [e1, hX, getLastD_reverse, headD_reverse] at c1
    rw [e2] at c2
    omega

/-- every cycle has exactly one canonical vertex sequence among its rotations and reflections -/
theorem canon_exists_unique (hsym : ∀ u v, g.adj u v = g.adj v u) {c : List Nat} (hc : IsCycleSeq g c) :
    ∃! c', IsCanonCycle g c.length c' ∧ (c' ~r c ∨ c' ~r c.reverse) := by
  obtain ⟨c', h1, h2⟩ := canon_exists hsym hc
  refine ⟨c', ⟨h1, h2⟩, ?_⟩
  rintro d ⟨hd1, hd2⟩
  apply canon_unique hd1 h1
  rcases hd2 with hd2 | hd2 <;> rcases h2 with h2 | h2
  · exact .inl (hd2.trans h2.symm)
  · exact .inr (hd2.trans (by simpa using h2.reverse.symm))
  · exact .inr (hd2.trans h2.reverse.symm)
  · exact .inl (hd2.trans h2.symm)

end GDist
