import Mamba.Lemmas.CanonFTotal
/-!
# Storage reuse: a run of `CanonicalIsomorphAllocated` never shrinks a backing array

`SizeInv n N M s`: every backing array of the loop state has at least the capacity `N` resp. `M` of the storage / partition
(`N`, `M` are the capacities with which they were allocated, possibly larger than the `n`, `m` of the current call); the
two union–finds have size `n`. It is carried by the main loop (`sizeMainJX`, on top of the trivial invariant `rc_trivMainJ`):
every operation keeps `data.size` (`set`, `reslice`, `copyFrom`, `copySelf`, `sortRange`, `deage`, `insertAt`,
`recordGenerator`) or does not shrink it (`append` on `value`, `unionSl` on `binsToCheck`).
`allocated_keeps_caps` (general path), `edgeless_keeps_caps` / `allocated_keeps_caps_short` (the `m = 0` shortcut).
-/
namespace CanonF

/-! ## the capacity of `value` never shrinks -/

theorem rc_append_size (s : Sl Nat) (x : Nat) : s.data.size ≤ (s.append x).data.size := by
  unfold Sl.append
  split
  · simp
  · simp only [List.size_toArray, List.length_append, List.length_take, Array.length_toList, List.length_cons,
      List.length_nil, List.length_replicate]
    omega

theorem rc_codeLoop_size {inCell : Sl Nat} {j : Nat} : ∀ (l : List Nat) (value value' : Sl Nat),
    forList (codeStep inCell j) l value = .ok value' → value.data.size ≤ value'.data.size := by
  intro l value value' h
  exact forList_inv (codeStep inCell j) (fun v => value.data.size ≤ v.data.size) l value value' (Nat.le_refl _)
    (fun x s s' _ hs hx => by
      unfold codeStep at hx
      split at hx
      · split at hx
        · cases hx; exact Nat.le_trans hs (rc_append_size _ _)
        · cases hx; exact hs
      · cases hx
      · cases hx) h

theorem rc_sortRange_size {s s' : Sl Nat} {a b : Nat} (h : s.sortRange a b = .ok s') : s'.data.size = s.data.size := by
  unfold Sl.sortRange at h
  split at h
  · cases h; simp
  · cases h

theorem rc_expandLoop_value (nb : Nbrs) (cb fl : Sl Nat) : ∀ (k j : Nat) (op : OP) (w : Bool) (op' : OP),
    expandLoop nb cb fl k j op = .ok (w, op') → op.value.data.size ≤ op'.value.data.size := by
  intro k
  induction k with
  | zero => intro j op w op' h; simp [expandLoop] at h; obtain ⟨_, rfl⟩ := h; exact Nat.le_refl _
  | succ k ih =>
    intro j op w op' h
    rw [expandLoop] at h
    osplit h
    · simp at h; obtain ⟨_, rfl⟩ := h; exact Nat.le_refl _
    · rename_i _ _ _ _ _ _ _ _ v1 hcode _ v2 hsort _ _
      simp at h; obtain ⟨_, rfl⟩ := h
      show op.value.data.size ≤ v2.data.size
      rw [rc_sortRange_size hsort]; exact rc_codeLoop_size _ _ _ hcode
    · rename_i _ _ _ _ _ _ _ _ v1 hcode _ v2 hsort _ _
      have := ih _ _ _ _ h
      have h2 : op.value.data.size ≤ v2.data.size := by
        rw [rc_sortRange_size hsort]; exact rc_codeLoop_size _ _ _ hcode
      exact Nat.le_trans h2 this

theorem rc_expandValue_value {nb : Nbrs} {cb fl : Sl Nat} {op op' : OP} {w : Bool}
    (h : expandValue nb cb fl op = .ok (w, op')) : op.value.data.size ≤ op'.value.data.size :=
  rc_expandLoop_value nb cb fl _ _ _ _ _ h

theorem rc_recompute_value {op op' : OP} (h : recomputeInCell op = .ok op') : op'.value = op.value := by
  unfold recomputeInCell at h
  split at h
  · cases h; rfl
  · cases h
  · cases h

theorem rc_scTail_value {nb : Nbrs} {cb fl : Sl Nat} {opts : Options} {j : Nat} {op : OP} {sc : Scratch}
    {r : Bool} {op' : OP} {sc' : Scratch} (h : scTail nb cb fl opts j op sc = .ok (r, op', sc')) :
    op.value.data.size ≤ op'.value.data.size := by
  obtain ⟨_, w, hex, _, _⟩ := scTail_ok h
  by_cases hj : j = op.spl
  · rw [if_pos hj] at hex
    exact rc_expandValue_value hex
  · rw [if_neg hj] at hex
    simp only [Outcome.ok.injEq, Prod.mk.injEq] at hex
    rw [← hex.2]

theorem rc_splitCell_value {nb : Nbrs} {n : Nat} {cb fl : Sl Nat} {opts : Options} {j : Nat} {b : Bool} {op op' : OP}
    {sc sc' : Scratch} {r : Bool} (h : splitCell nb n cb fl opts j (b, op, sc) = .ok (r, op', sc')) :
    op.value.data.size ≤ op'.value.data.size := by
  cases b with
  | true =>
    rw [splitCell_true] at h
    simp only [Outcome.ok.injEq, Prod.mk.injEq] at h
    rw [← h.2.1]
  | false =>
    rw [splitCell_false] at h
    rcases scHead_ok h with h | ⟨bs, dj, mc, nm, dws0, _, _, _, _, _, _, _, _, h⟩
    · simp only [Prod.mk.injEq] at h
      rw [h.2.1]
    · obtain ⟨dws, _, h⟩ := scFill_ok h
      obtain ⟨nbs0, kv0, order1, order2, nbs2, idx, _, _, _, _, h⟩ := scWrite_ok h
      obtain ⟨nbs3, btc, bd1, bd2, bd3, _, _, _, _, _, h⟩ := scUpd1_ok h
      obtain ⟨ag1, ag2, ag3, sp1, sp2, btc2, op2, _, _, _, _, _, _, hrec, h⟩ := scUpd2_ok h
      have := rc_scTail_value h
      rw [rc_recompute_value hrec] at this
      exact this

theorem rc_refineIter_value {nb : Nbrs} {n : Nat} {cb fl : Sl Nat} {opts : Options} {op op' : OP} {sc sc' : Scratch}
    {r : Bool} (h : refineIter nb n cb fl opts op sc = .ok (r, op', sc')) :
    op.value.data.size ≤ op'.value.data.size := by
  obtain ⟨mc1, nm1, i, btc, a, b, ts2, mc2, nm2, _, _, _, _, _, _, _, _, h⟩ := refineIter_ok h
  exact forDown_inv (splitCell nb n cb fl opts)
    (fun _ (st : Bool × OP × Scratch) => op.value.data.size ≤ st.2.1.value.data.size) _ _ (r, op', sc')
    (Nat.le_refl _)
    (by
      rintro k ⟨b0, o0, s0⟩ ⟨b1, o1, s1⟩ _ hP hs
      exact Nat.le_trans hP (rc_splitCell_value hs)) h

theorem rc_refineLoop_value {nb : Nbrs} {n : Nat} {cb fl : Sl Nat} {opts : Options} :
    ∀ (f : Nat) (op op' : OP) (sc sc' : Scratch) (w : Bool),
    refineLoop nb n cb fl opts f op sc = .ok (w, op', sc') → op.value.data.size ≤ op'.value.data.size := by
  intro f
  induction f with
  | zero => intro op op' sc sc' w h; simp [refineLoop] at h
  | succ f ih =>
    intro op op' sc sc' w h
    rw [refineLoop] at h
    by_cases hb : op.binsToCheck.len > 0
    · rw [if_pos hb] at h
      cases hit : refineIter nb n cb fl opts op sc with
      | ok R =>
        obtain ⟨r1, o1, s1⟩ := R
        rw [hit] at h
        have h1 := rc_refineIter_value hit
        cases r1 with
        | true =>
          simp only [Outcome.ok.injEq, Prod.mk.injEq] at h
          rw [← h.2.1]; exact h1
        | false => exact Nat.le_trans h1 (ih _ _ _ _ _ h)
      | panic => rw [hit] at h; cases h
      | outOfFuel => rw [hit] at h; cases h
    · rw [if_neg hb] at h
      simp only [Outcome.ok.injEq, Prod.mk.injEq] at h
      rw [← h.2.1]

theorem rc_refine_value {nb : Nbrs} {cb fl : Sl Nat} {opts : Options} {op op' : OP} {sc sc' : Scratch} {w : Bool}
    (h : refine nb cb fl opts op sc = .ok (w, op', sc')) : op.value.data.size ≤ op'.value.data.size := by
  unfold refine at h
  exact rc_refineLoop_value _ _ _ _ _ _ h

/-! ## capacities of the partition -/

/-- no backing array of the partition is smaller in `op'` than in `op` -/
structure OpGe (op op' : OP) : Prop where
  order : op.order.data.size ≤ op'.order.data.size
  inCell : op.inCell.data.size ≤ op'.inCell.data.size
  bd : op.binDividers.data.size ≤ op'.binDividers.data.size
  ages : op.binAges.data.size ≤ op'.binAges.data.size
  btc : op.binsToCheck.data.size ≤ op'.binsToCheck.data.size
  value : op.value.data.size ≤ op'.value.data.size

theorem OpGe.refl (op : OP) : OpGe op op :=
  ⟨Nat.le_refl _, Nat.le_refl _, Nat.le_refl _, Nat.le_refl _, Nat.le_refl _, Nat.le_refl _⟩

theorem OpGe.trans {a b c : OP} (h1 : OpGe a b) (h2 : OpGe b c) : OpGe a c :=
  ⟨Nat.le_trans h1.order h2.order, Nat.le_trans h1.inCell h2.inCell, Nat.le_trans h1.bd h2.bd,
    Nat.le_trans h1.ages h2.ages, Nat.le_trans h1.btc h2.btc, Nat.le_trans h1.value h2.value⟩

/-- the capacities of the partition -/
structure OpCap (N M : Nat) (op : OP) : Prop where
  order : N ≤ op.order.data.size
  inCell : N ≤ op.inCell.data.size
  bd : N ≤ op.binDividers.data.size
  ages : N ≤ op.binAges.data.size
  btc : N ≤ op.binsToCheck.data.size
  value : M ≤ op.value.data.size

theorem OpCap.mono {N M : Nat} {op op' : OP} (h : OpCap N M op) (g : OpGe op op') : OpCap N M op' :=
  ⟨Nat.le_trans h.order g.order, Nat.le_trans h.inCell g.inCell, Nat.le_trans h.bd g.bd,
    Nat.le_trans h.ages g.ages, Nat.le_trans h.btc g.btc, Nat.le_trans h.value g.value⟩

theorem rc_expandValue_ge {nb : Nbrs} {cb fl : Sl Nat} {op op' : OP} {w : Bool}
    (h : expandValue nb cb fl op = .ok (w, op')) : OpGe op op' := by
  obtain ⟨e1, e2, e3, e4, _, e6⟩ := expandValue_frame h
  exact ⟨by rw [e1], by rw [e6], by rw [e2],
    by rw [e3], by rw [e4], rc_expandValue_value h⟩

theorem rc_deage_ge {n : Nat} {op op' : OP} (h : PartInv n op) (ha : AgeInv op) (hage : 0 < op.age)
    (hd : deage op = .ok op') : OpGe op op' := by
  obtain ⟨_, _, _, _, _, e, ev, _, _, z0, zi, z1, z2⟩ := deage_inv h ha hage hd
  exact ⟨Nat.le_of_eq z0.symm, Nat.le_of_eq zi.symm, Nat.le_of_eq z1.symm, Nat.le_of_eq z2.symm,
    by rw [e], by rw [ev]⟩

theorem rc_deageTimes_ge {n : Nat} : ∀ (k : Nat) (op op' : OP), PartInv n op → AgeInv op → (k : Int) ≤ op.age →
    deageTimes k op = .ok op' → OpGe op op' := by
  intro k
  induction k with
  | zero => intro op op' _ _ _ h; simp [deageTimes] at h; subst h; exact OpGe.refl _
  | succ k ih =>
    intro op op' hp ha hk h
    rw [deageTimes] at h
    cases hd : deage op with
    | panic => rw [hd] at h; cases h
    | outOfFuel => rw [hd] at h; cases h
    | ok op1 =>
      rw [hd] at h
      simp only at h
      obtain ⟨d1, d2, d3, _⟩ := deage_inv hp ha (by omega) hd
      exact (rc_deage_ge hp ha (by omega) hd).trans (ih op1 op' d1 d2 (by rw [d3]; omega) h)

theorem rc_splitBin_ge {n : Nat} {nb : Nbrs} {cb fl : Sl Nat} {op op' : OP} {i : Nat} {w : Bool}
    (hp : PartInv n op) (hi : i < n) (hs : splitBin nb cb fl op i = .ok (w, op')) : OpGe op op' := by
  obtain ⟨order, ic, hfront, _, _, zo, _, _, _, zi, _⟩ := splitBin_front (nb := nb) (cb := cb) (fl := fl) hp hi
  rw [hfront] at hs
  unfold splitTail at hs
  cases hbd : insertAt op.binDividers (binIdx op.binDividers.toList i) (binStartOf op.binDividers.toList i + 1) with
  | ok bd' =>
    cases hag : insertAt op.binAges (binIdx op.binDividers.toList i) (op.age + 1) with
    | ok ages' =>
      rw [hbd, hag] at hs
      simp only at hs
      cases hbt : unionSl op.binsToCheck [(binIdx op.binDividers.toList i : Int), (binIdx op.binDividers.toList i : Int) + 1] with
      | ok btc =>
        rw [hbt] at hs
        simp only at hs
        have z1 := cj_insertAt_size hbd
        have z2 := cj_insertAt_size hag
        have z3 := cj_unionSl_size hbt
        have h1 : OpGe op { op with age := op.age + 1, order := order, inCell := ic, binDividers := bd', binAges := ages',
                                    binsToCheck := btc } :=
          ⟨Nat.le_of_eq zo.symm, Nat.le_of_eq zi.symm, Nat.le_of_eq z1.symm, Nat.le_of_eq z2.symm, z3, Nat.le_refl _⟩
        by_cases hsp : binIdx op.binDividers.toList i = op.spl
        · rw [if_pos hsp] at hs
          exact h1.trans (rc_expandValue_ge hs)
        · rw [if_neg hsp] at hs
          simp only [Outcome.ok.injEq, Prod.mk.injEq] at hs
          rw [← hs.2]
          exact h1
      | panic => rw [hbt] at hs; simp at hs
      | outOfFuel => rw [hbt] at hs; simp at hs
    | panic => rw [hbd, hag] at hs; simp at hs
    | outOfFuel => rw [hbd, hag] at hs; simp at hs
  | panic => rw [hbd] at hs; simp at hs
  | outOfFuel => rw [hbd] at hs; simp at hs

/-- the six scratch arrays keep their capacity -/
structure ScCap (N : Nat) (sc : Scratch) : Prop where
  dws : N ≤ sc.dws.data.size
  nbs : N ≤ sc.nbs.data.size
  space : N ≤ sc.space.data.size
  ts : N ≤ sc.timesSeen.data.size
  mc : N ≤ sc.maxCell.data.size
  nm : N ≤ sc.numberOfMax.data.size

theorem rc_refine_ge {n : Nat} {nb : Nbrs} {cb fl : Sl Nat} {opts : Options} {op op' : OP} {sc sc' : Scratch}
    {w : Bool} (h : PartInv n op) (ha : AgeInv op) (hsc : ScratchOK n sc)
    (hr : refine nb cb fl opts op sc = .ok (w, op', sc')) :
    OpGe op op' ∧ ∀ N, ScCap N sc → ScCap N sc' := by
  obtain ⟨_, _, _, _, y1, y2, y3, y4, y5, y6, z0, zi, z1, z2⟩ := refine_inv stablePerm h ha hsc hr
  refine ⟨⟨Nat.le_of_eq z0.symm, Nat.le_of_eq zi.symm, Nat.le_of_eq z1.symm, Nat.le_of_eq z2.symm, cj_refine_btc hr,
    rc_refine_value hr⟩, fun N c => ⟨?_, ?_, ?_, ?_, ?_, ?_⟩⟩
  · rw [y1]; exact c.dws
  · rw [y2]; exact c.nbs
  · rw [y3]; exact c.space
  · rw [y4]; exact c.ts
  · rw [y5]; exact c.mc
  · rw [y6]; exact c.nm


/-! ## the size invariant of the loop state -/

structure SizeInv (n N M : Nat) (s : LS) : Prop where
  op : OpCap N M s.op
  sc : ScCap N s.sc
  cb : M ≤ s.currentBest.data.size
  fl : M ≤ s.firstLeaf.data.size
  bpath : N ≤ s.bestPath.data.size
  bperm : N ≤ s.bestPerm.data.size
  bpinv : N ≤ s.bestPermInv.data.size
  fpinv : N ≤ s.flPermInv.data.size
  fpath : N ≤ s.flPath.data.size
  gens : N ≤ s.gens.size + 1
  borb : s.bestOrbits.size = n
  forb : s.flOrbits.size = n

/-- only the partition, the stacks, `skipDeage`, `count`, `ngens` change, `bestOrbits` keeps its size -/
theorem SizeInv.step {n N M : Nat} {s s' : LS} (h : SizeInv n N M s) (hop : OpGe s.op s'.op) (e1 : s'.sc = s.sc)
    (e2 : s'.currentBest = s.currentBest) (e3 : s'.firstLeaf = s.firstLeaf) (e4 : s'.bestPath = s.bestPath)
    (e5 : s'.bestPerm = s.bestPerm) (e6 : s'.bestPermInv = s.bestPermInv) (e7 : s'.flPermInv = s.flPermInv)
    (e8 : s'.flPath = s.flPath) (e9 : s'.gens.size = s.gens.size) (e10 : s'.bestOrbits.size = s.bestOrbits.size)
    (e11 : s'.flOrbits.size = s.flOrbits.size) : SizeInv n N M s' :=
  ⟨h.op.mono hop, by rw [e1]; exact h.sc, by rw [e2]; exact h.cb, by rw [e3]; exact h.fl, by rw [e4]; exact h.bpath,
    by rw [e5]; exact h.bperm, by rw [e6]; exact h.bpinv, by rw [e7]; exact h.fpinv, by rw [e8]; exact h.fpath,
    by rw [e9]; exact h.gens, by rw [e10]; exact h.borb, by rw [e11]; exact h.forb⟩

/-- the loop of the "new best leaf" branch: `bestPermInv[order[i]] = i; bestOrbits[i] = -1` -/
theorem rc_bestLoop_size {order : Sl Nat} {k : Nat} {a a' : Sl Nat × Disjoint.DS}
    (h : forRange (fun i (st : Sl Nat × Disjoint.DS) =>
              match order.get i with
              | .ok v =>
                match st.1.set v i with
                | .ok pinv => if i < st.2.size then .ok (pinv, st.2.setIfInBounds i (-1)) else .panic
                | .panic => .panic
                | .outOfFuel => .outOfFuel
              | .panic => .panic
              | .outOfFuel => .outOfFuel) k 0 a = .ok a') :
    a'.1.data.size = a.1.data.size ∧ a'.2.size = a.2.size := by
  refine forRange_inv _ (fun _ (st : Sl Nat × Disjoint.DS) => st.1.data.size = a.1.data.size ∧ st.2.size = a.2.size)
    k 0 a a' ⟨rfl, rfl⟩ ?_ h
  intro i st st' _ _ hP hf
  split at hf
  · split at hf
    · rename_i pinv hset
      split at hf
      · cases hf
        exact ⟨by show pinv.data.size = _; rw [Sl.set_cap hset]; exact hP.1, by simp; exact hP.2⟩
      · cases hf
    · cases hf
    · cases hf
  · cases hf
  · cases hf

theorem rc_backJump_size {n N M : Nat} {s0 s1 : LS} {ref : Sl Nat} (h : backJump s0 ref = .ok s1) (hp : PartInv n s0.op)
    (ha : AgeInv s0.op) (hage : s0.op.age = s0.path.length) (hc : SizeInv n N M s0) : SizeInv n N M s1 := by
  obtain ⟨j, op', hj, _, hd, rfl⟩ := backJump_shape h
  exact hc.step (rc_deageTimes_ge j s0.op op' hp ha (by rw [hage]; exact_mod_cast hj) hd)
    rfl rfl rfl rfl rfl rfl rfl rfl rfl rfl rfl

theorem rc_record_size {n : Nat} {order pinv : Sl Nat} {gens gens' : Array (Sl Nat)} {ngens ngens' : Nat} {merges : Bool}
    (hlen : order.len = n)
    (hr : (if merges = true then recordGenerator n order pinv gens ngens else Outcome.ok (gens, ngens))
      = .ok (gens', ngens')) : gens'.size = gens.size := by
  cases merges with
  | true =>
    rw [if_pos rfl] at hr
    exact (recordGenerator_spec hlen hr).2.2.1
  | false =>
    rw [if_neg (by simp)] at hr
    simp only [Outcome.ok.injEq, Prod.mk.injEq] at hr
    rw [← hr.1]

theorem rc_leafNode_size {n m N M : Nat} {s s1 : LS} (hc : Core n s) (hage : s.op.age = s.path.length)
    (hz : SizeInv n N M s) (h : leafNode n m s = .ok s1) : SizeInv n N M s1 := by
  by_cases hc1 : (compare s.op.value.toList s.currentBest.toList == 1 || s.count + 1 == 1) = true
  · unfold leafNode at h
    dsimp only at h
    rw [if_pos hc1] at h
    osplit h
    all_goals
      rename_i cb hcb _ bpi bo hloop _
      cases h
      obtain ⟨_, hd, _⟩ := Sl.reslice_len hcb
      obtain ⟨q1, q2⟩ := rc_bestLoop_size hloop
      have q1' : bpi.data.size = s.bestPermInv.data.size := q1
      have q2' : bo.size = s.bestOrbits.size := q2
    · refine ⟨hz.op, hz.sc, ?_, ?_, ?_, ?_, ?_, ?_, ?_, hz.gens, ?_, ?_⟩
      · show M ≤ (cb.copyFrom s.op.value.toList).data.size
        rw [Sl.copyFrom_cap, hd]; exact hz.cb
      · show M ≤ (s.firstLeaf.copyFrom s.op.value.toList).data.size
        rw [Sl.copyFrom_cap]; exact hz.fl
      · show N ≤ (s.bestPath.copyFrom s.path.reverse).data.size
        rw [Sl.copyFrom_cap]; exact hz.bpath
      · show N ≤ (s.bestPerm.copyFrom s.op.order.toList).data.size
        rw [Sl.copyFrom_cap]; exact hz.bperm
      · show N ≤ bpi.data.size
        rw [q1']; exact hz.bpinv
      · show N ≤ (s.flPermInv.copyFrom bpi.toList).data.size
        rw [Sl.copyFrom_cap]; exact hz.fpinv
      · show N ≤ (s.flPath.copyFrom s.path.reverse).data.size
        rw [Sl.copyFrom_cap]; exact hz.fpath
      · show bo.size = n
        rw [q2']; exact hz.borb
      · show (Sl.copyFrom ⟨s.flOrbits, s.flOrbits.size⟩ bo.toList).data.size = n
        rw [Sl.copyFrom_cap]; exact hz.forb
    · refine ⟨hz.op, hz.sc, ?_, hz.fl, ?_, ?_, ?_, hz.fpinv, hz.fpath, hz.gens, ?_, hz.forb⟩
      · show M ≤ (cb.copyFrom s.op.value.toList).data.size
        rw [Sl.copyFrom_cap, hd]; exact hz.cb
      · show N ≤ (s.bestPath.copyFrom s.path.reverse).data.size
        rw [Sl.copyFrom_cap]; exact hz.bpath
      · show N ≤ (s.bestPerm.copyFrom s.op.order.toList).data.size
        rw [Sl.copyFrom_cap]; exact hz.bperm
      · show N ≤ bpi.data.size
        rw [q1']; exact hz.bpinv
      · show bo.size = n
        rw [q2']; exact hz.borb
  · have hc1f : (compare s.op.value.toList s.currentBest.toList == 1 || s.count + 1 == 1) = false := by
      simpa using hc1
    by_cases hc0 : (compare s.op.value.toList s.currentBest.toList == 0) = true
    · obtain ⟨bo, b0, fo, merges, gens', ngens', hl1, hl2, hrec, hbj⟩ := lb_leafNode_unfold hc1f hc0 h
      refine rc_backJump_size (n := n) hbj hc.part hc.age hage ?_
      exact hz.step (OpGe.refl _) rfl rfl rfl rfl rfl rfl rfl rfl (rc_record_size hc.part.lenOrder hrec)
        (orbitLoop_size hl1) (orbitLoop_size hl2)
    · have hc0f : (compare s.op.value.toList s.currentBest.toList == 0) = false := by simpa using hc0
      by_cases hcf : (compare s.op.value.toList s.firstLeaf.toList == 0) = true
      · obtain ⟨fo, merges, gens', ngens', hl2, hrec, hbj⟩ := le_leaf_unfold h hc1f hc0f hcf
        refine rc_backJump_size (n := n) hbj hc.part hc.age hage ?_
        exact hz.step (OpGe.refl _) rfl rfl rfl rfl rfl rfl rfl rfl (rc_record_size hc.part.lenOrder hrec)
          rfl (orbitLoop_size hl2)
      · have hcff : (compare s.op.value.toList s.firstLeaf.toList == 0) = false := by simpa using hcf
        have es := lo_leafNode_eq hc1f hc0f hcff h
        subst es
        exact hz.step (OpGe.refl _) rfl rfl rfl rfl rfl rfl rfl rfl rfl rfl rfl

/-! ## the main loop -/

/-- the trivial invariant of the main loop -/
theorem rc_trivMainJ {n m : Nat} {nb : Nbrs} :
    MainJ n m nb (fun _ _ => True) (fun _ _ => True) (fun _ _ => True) (fun _ _ _ => True) where
  step :=
    { na := fun _ _ _ => trivial
      deage := fun _ _ _ _ _ _ _ _ _ _ => trivial
      noskip := fun _ _ _ _ => trivial
      skipA := fun _ _ _ _ _ _ _ _ _ _ _ _ _ _ _ _ _ _ _ _ _ _ => trivial
      skipB := fun _ _ _ _ _ _ _ _ _ _ _ _ _ _ _ _ _ _ _ _ _ => trivial
      split := fun _ _ _ _ _ _ _ _ _ _ _ _ _ _ _ _ _ _ _ _ _ _ _ _ _ => ⟨fun _ => trivial, fun _ => trivial⟩
      pop := fun _ _ _ _ _ _ _ _ _ => trivial }
  node := fun lv worse s s1 hI hw hlv _ hs1 => by
    obtain ⟨lv1, _, l1, _⟩ := node_step (nb := nb) hI hw hlv s1 hs1
    exact ⟨lv1, l1, trivial, fun _ => trivial⟩
  refine := fun _ _ _ _ _ _ _ _ _ _ _ _ => trivial

/-- the size invariant is carried by the main loop -/
theorem sizeMainJX {n m N M : Nat} {nb : Nbrs} :
    MainJX n m nb (fun _ _ => True) (fun _ _ => True) (fun _ _ => True) (fun _ _ _ => True)
      (fun _ s => SizeInv n N M s) (fun _ s => SizeInv n N M s) (fun _ s => SizeInv n N M s)
      (fun _ _ s => SizeInv n N M s) where
  na := fun _ _ _ h => h
  deage := fun lv s op' k hc ht hsk hage _ hx hd => by
    have hpos : 0 < s.op.age := by
      rw [hage]
      cases hp : s.path with
      | nil => rw [hp] at ht; cases hch : s.choices <;> cases lv <;> simp [TopOK] at ht
      | cons p ps => simp
    exact hx.step (rc_deage_ge hc.part hc.age hpos hd) rfl rfl rfl rfl rfl rfl rfl rfl rfl rfl rfl
  noskip := fun _ _ _ _ hx => hx.step (OpGe.refl _) rfl rfl rfl rfl rfl rfl rfl rfl rfl rfl rfl
  skipA := fun _ _ _ _ _ _ _ _ _ _ _ _ _ _ _ _ _ _ _ _ _ _ hx =>
    hx.step (OpGe.refl _) rfl rfl rfl rfl rfl rfl rfl rfl rfl rfl rfl
  skipB := fun _ _ _ _ _ _ _ _ _ _ _ _ _ _ _ _ _ _ _ hh _ hx =>
    hx.step (OpGe.refl _) rfl rfl rfl rfl rfl rfl rfl rfl rfl (h2Best_size hh) rfl
  split := fun st sz ls s c cs p ps ce bo w op' k hc _ _ _ _ _ hget hh _ _ hs _ hx => by
    have hi : c - 1 < n := by rw [← hc.part.lenOrder]; exact Sl.get_lt hget
    have key : SizeInv n N M { s with choices := (c - 1) :: cs, bestOrbits := bo, op := op', path := k :: ps } :=
      hx.step (rc_splitBin_ge hc.part hi hs) rfl rfl rfl rfl rfl rfl rfl rfl rfl (bestOrbits_if_size hh) rfl
    exact ⟨fun _ _ => key, fun _ _ => key⟩
  pop := fun _ _ _ _ _ _ _ _ _ hx => hx.step (OpGe.refl _) rfl rfl rfl rfl rfl rfl rfl rfl rfl rfl rfl
  node := fun lv worse s s1 lv1 hI _ _ _ hx hs1 _ _ _ => by
    have key : SizeInv n N M s1 := by
      cases worse with
      | true =>
        simp only [Bool.not_true, Bool.false_and, Bool.false_eq_true, if_false, Outcome.ok.injEq] at hs1
        rw [← hs1]; exact hx
      | false =>
        by_cases hleaf : s.op.binDividers.len = n
        · rw [if_pos (by simp [hleaf])] at hs1
          exact rc_leafNode_size hI.core hI.age hx hs1
        · rw [if_neg (by simp [hleaf]), if_pos (by simp)] at hs1
          unfold innerNode at hs1
          split at hs1
          · cases hs1
            exact hx.step (OpGe.refl _) rfl rfl rfl rfl rfl rfl rfl rfl rfl rfl rfl
          · cases hs1; exact hx
          · cases hs1
          · cases hs1
    exact ⟨key, fun _ => key⟩
  refine := fun lv s w op' sc' hc _ _ _ _ _ hx hr _ => by
    obtain ⟨g1, g2⟩ := rc_refine_ge hc.part hc.age hc.scr hr
    have c := g2 N hx.sc
    exact ⟨hx.op.mono g1, ⟨c.dws, c.nbs, c.space, c.ts, c.mc, c.nm⟩, hx.cb, hx.fl, hx.bpath, hx.bperm, hx.bpinv, hx.fpinv,
      hx.fpath, hx.gens, hx.borb, hx.forb⟩

/-! ## the whole call -/

theorem rc_dsSlice {a : Array Int} {n : Nat} {ds rest : Array Int} (h : dsSlice a n = .ok (ds, rest)) :
    ds.size = n ∧ ds.size + rest.size = a.size := by
  unfold dsSlice at h
  split at h
  · cases h; simp; omega
  · cases h

set_option maxHeartbeats 1000000 in
/-- general path: the storage and the partition returned by `CanonicalIsomorphAllocated` have at least the capacities
`N`, `M` of the storage and the partition it was called with -/
theorem allocated_keeps_caps {fuel n m : Nat} {nb : Nbrs} {op0 : OP} {st : Storage} {r : Res} {opR : Option OP}
    {stR : Storage} (hn : n ≠ 0) (hgen : m = 0 → op0.binDividers.len ≠ 1)
    (hp : PartInv n op0) (ha : AgeInv op0) (hage : op0.age = 0)
    (h : canonicalIsomorphAllocated fuel n m nb (some op0) st {} = .ok (r, opR, stR)) (N M : Nat)
    (hS : StorageOK N M st)
    (c3 : N ≤ op0.binDividers.data.size) (c4 : N ≤ op0.binAges.data.size) (c5 : N ≤ op0.binsToCheck.data.size)
    (c1 : N ≤ op0.order.data.size) (c2 : N ≤ op0.inCell.data.size) (c6 : M ≤ op0.value.data.size) :
    StorageOK N M stR ∧ ∃ op', opR = some op' ∧ N ≤ op'.order.data.size ∧ N ≤ op'.inCell.data.size ∧
      N ≤ op'.binDividers.data.size ∧ N ≤ op'.binAges.data.size ∧ N ≤ op'.binsToCheck.data.size ∧
      M ≤ op'.value.data.size := by
  unfold canonicalIsomorphAllocated at h
  rw [if_neg hn] at h
  have hshort : (if m = 0 then (match (some op0 : Option OP) with
      | none => Outcome.panic
      | some o => Outcome.ok (o.binDividers.len == 1)) else Outcome.ok false) = Outcome.ok false := by
    by_cases hm : m = 0
    · rw [if_pos hm]; simp [hgen hm]
    · rw [if_neg hm]
  simp only [hshort] at h
  osplit h
  · rename_i hvw
    simp at hvw
  · rename_i _ _ _ _ bestPath bestPerm bestPermInv bestOrbits bestRest hbp hbpm hbpi hbo _ _ _ _ firstLeaf flPermInv flOrbits flRest flPath hfl hfpi hfo hfp _ _ _ space dws nbs hsp hdw hnb _ _ _ timesSeen maxCell numberOfMax hts hmc hnm _ worse op1 sc1 href hvw _ w2 op2 hexp _ s hmain
    cases h
    obtain ⟨w1, l1, d1⟩ := slOf_spec hts
    obtain ⟨w2', l2, d2⟩ := slOf_spec hmc
    obtain ⟨w3, l3, d3⟩ := slOf_spec hnm
    obtain ⟨w4, l4, d4⟩ := slOf_spec hbpm
    obtain ⟨_, _, d5⟩ := slOf_spec hbpi
    obtain ⟨_, _, d6⟩ := slOf_spec hfl
    obtain ⟨_, _, d7⟩ := slOf_spec hfpi
    obtain ⟨_, _, d8⟩ := slOf_spec hbp
    obtain ⟨_, _, d9⟩ := slOf_spec hfp
    obtain ⟨_, _, d10⟩ := slOf_spec hsp
    obtain ⟨_, _, d11⟩ := slOf_spec hdw
    obtain ⟨_, _, d12⟩ := slOf_spec hnb
    obtain ⟨b1, b2⟩ := rc_dsSlice hbo
    obtain ⟨f1', f2'⟩ := rc_dsSlice hfo
    have hsc : ScratchOK n (Scratch.mk dws nbs space timesSeen maxCell numberOfMax) := ⟨w1, w2', w3, l2, l3⟩
    obtain ⟨r1, r2, r3, r4, _, _, _, z1, z2, z3, _⟩ := refine_inv stablePerm hp ha hsc href
    have z1' : sc1.timesSeen.data.size = timesSeen.data.size := z1
    have hwf := refine_not_worse (cb := ⟨st.currentBest, 0⟩) rfl rfl href
    subst hwf
    have htc : n ≤ timesSeen.data.size := by have := w1; unfold Sl.WF at this; omega
    obtain ⟨f1, f2, f3, f4, f5, f6⟩ := expandValue_frame hexp
    obtain ⟨g1, g2⟩ := rc_refine_ge hp ha hsc href
    have hI : MInv n m nb
        { op := op2,
          sc := { dws := ⟨sc1.dws.data, n⟩, nbs := ⟨sc1.nbs.data, n⟩, space := ⟨sc1.space.data, n⟩,
                  timesSeen := ⟨sc1.timesSeen.data, n⟩, maxCell := ⟨sc1.maxCell.data, n⟩,
                  numberOfMax := ⟨sc1.numberOfMax.data, n⟩ },
          count := 0, ngens := 0, gens := st.generators, currentBest := ⟨st.currentBest, 0⟩,
          bestPath := bestPath, bestPerm := bestPerm, bestPermInv := bestPermInv, bestOrbits := bestOrbits,
          firstLeaf := firstLeaf, flPermInv := flPermInv, flOrbits := flOrbits, flPath := flPath,
          path := [], choices := [], skipDeage := false } := by
      constructor
      · constructor
        · exact PartInv.of_frame r1 f1 f2 f3 f6
        · exact AgeInv.of_frame r2 f3 f5
        · exact scratch_rewrap hsc htc z1 z2 z3
        · exact w4
        · exact l4
        · intro hc; exact absurd hc (Nat.lt_irrefl 0)
      · exact ⟨[], by simp [LevelsOK]⟩
      · show op2.age = _; rw [f5, r3, hage]; rfl
      · rfl
      · show n ≤ sc1.timesSeen.data.size; omega
      · rfl
      · intro _; rfl
      · intro hc; exact absurd hc (Nat.lt_irrefl 0)
    have hsc0 : ScCap N (Scratch.mk dws nbs space timesSeen maxCell numberOfMax) :=
      ⟨by show N ≤ dws.data.size; rw [d11]; exact hS.dws, by show N ≤ nbs.data.size; rw [d12]; exact hS.nbs,
        by show N ≤ space.data.size; rw [d10]; exact hS.space, by show N ≤ timesSeen.data.size; rw [d1]; exact hS.ts,
        by show N ≤ maxCell.data.size; rw [d2]; exact hS.mc, by show N ≤ numberOfMax.data.size; rw [d3]; exact hS.nm⟩
    have hsc1 := g2 N hsc0
    have hZ : SizeInv n N M
        { op := op2,
          sc := { dws := ⟨sc1.dws.data, n⟩, nbs := ⟨sc1.nbs.data, n⟩, space := ⟨sc1.space.data, n⟩,
                  timesSeen := ⟨sc1.timesSeen.data, n⟩, maxCell := ⟨sc1.maxCell.data, n⟩,
                  numberOfMax := ⟨sc1.numberOfMax.data, n⟩ },
          count := 0, ngens := 0, gens := st.generators, currentBest := ⟨st.currentBest, 0⟩,
          bestPath := bestPath, bestPerm := bestPerm, bestPermInv := bestPermInv, bestOrbits := bestOrbits,
          firstLeaf := firstLeaf, flPermInv := flPermInv, flOrbits := flOrbits, flPath := flPath,
          path := [], choices := [], skipDeage := false } :=
      ⟨(OpCap.mk c1 c2 c3 c4 c5 c6).mono (g1.trans (rc_expandValue_ge hexp)),
        ⟨hsc1.dws, hsc1.nbs, hsc1.space, hsc1.ts, hsc1.mc, hsc1.nm⟩, hS.cb,
        by show M ≤ firstLeaf.data.size; rw [d6]; exact hS.fl,
        by show N ≤ bestPath.data.size; rw [d8]; exact hS.bpath,
        by show N ≤ bestPerm.data.size; rw [d4]; exact hS.bperm,
        by show N ≤ bestPermInv.data.size; rw [d5]; exact hS.bpinv,
        by show N ≤ flPermInv.data.size; rw [d7]; exact hS.fpinv,
        by show N ≤ flPath.data.size; rw [d9]; exact hS.fpath,
        hS.gens, b1, f1'⟩
    have hfin := mainLoopJ stablePerm (rc_trivMainJ.extend (sizeMainJX (N := N) (M := M))) fuel false _ s [] hI
      (fun _ => rfl) (by simp [LevelsOK]) ⟨trivial, hZ⟩ hmain
    obtain ⟨_, hF⟩ := hfin
    refine ⟨⟨hF.gens, hF.cb, hF.bpath, hF.bperm, hF.bpinv, ?_, hF.fl, hF.fpinv, ?_, hF.fpath, hF.sc.space, hF.sc.dws,
      hF.sc.nbs, hF.sc.ts, hF.sc.mc, hF.sc.nm⟩, s.op, rfl, hF.op.order, hF.op.inCell, hF.op.bd, hF.op.ages, hF.op.btc,
      hF.op.value⟩
    · show N ≤ (s.bestOrbits ++ bestRest).size
      have := hS.borb
      rw [Array.size_append, hF.borb]
      omega
    · show N ≤ (s.flOrbits ++ flRest).size
      have := hS.forb
      rw [Array.size_append, hF.forb]
      omega

/-! ## the `m = 0` shortcut -/

theorem rc_identLoop_size {n : Nat} {o o' : Sl Nat} (h : identLoop n o = .ok o') : o'.data.size = o.data.size := by
  unfold identLoop at h
  exact rf_forRange_set_size (fun i => i) (fun i => i) n 0 o o' h

theorem rc_storage_edge {N M : Nat} {st0 : Storage} (p : Array Nat) (o : Array Int)
    (hp : st0.currentBestPerm.size ≤ p.size) (ho : st0.firstLeafOrbits.size ≤ o.size) (h0 : StorageOK N M st0) :
    StorageOK N M { st0 with currentBestPerm := p, firstLeafOrbits := o } :=
  ⟨h0.gens, h0.cb, h0.bpath, Nat.le_trans h0.bperm hp, h0.bpinv, h0.borb, h0.fl, h0.fpinv, Nat.le_trans h0.forb ho,
    h0.fpath, h0.space, h0.dws, h0.nbs, h0.ts, h0.mc, h0.nm⟩

theorem rc_storage_setGen {N M : Nat} {st0 : Storage} (k : Nat) (t : Sl Nat) (h0 : StorageOK N M st0) :
    StorageOK N M { st0 with generators := st0.generators.setIfInBounds k t } :=
  ⟨by show N ≤ (st0.generators.setIfInBounds k t).size + 1
      rw [Array.size_setIfInBounds]; exact h0.gens,
    h0.cb, h0.bpath, h0.bperm, h0.bpinv, h0.borb, h0.fl, h0.fpinv, h0.forb, h0.fpath, h0.space, h0.dws, h0.nbs,
    h0.ts, h0.mc, h0.nm⟩

set_option maxHeartbeats 1000000 in
theorem edgeless_keeps_caps {n : Nat} {st st' : Storage} {r : Res} (h : edgeless n st = .ok (r, st')) (N M : Nat)
    (hS : StorageOK N M st) : StorageOK N M st' := by
  unfold edgeless at h
  split at h
  · rename_i perm ds dsRest hperm hds
    obtain ⟨_, hpd, _⟩ := Sl.reslice_len hperm
    obtain ⟨_, q2⟩ := rc_dsSlice hds
    split at h
    · rename_i perm1 hid
      have hp1 : perm1.data.size = st.currentBestPerm.size := by
        rw [rc_identLoop_size hid, hpd]
      have key := rc_storage_edge (N := N) (M := M) (st0 := st) perm1.data
        (((ds.setIfInBounds 0 (-2)).mapIdx (fun i v => if 0 < i then 0 else v)) ++ dsRest)
        (Nat.le_of_eq hp1.symm)
        (by simp only [Array.size_append, Array.size_mapIdx, Array.size_setIfInBounds]; omega) hS
      dsimp only at h
      osplit h
      all_goals
        simp only [Outcome.ok.injEq, Prod.mk.injEq] at h
        obtain ⟨_, rfl⟩ := h
      · exact key
      · exact rc_storage_setGen _ _ key
      · exact rc_storage_setGen _ _ (rc_storage_setGen _ _ key)
    · cases h
    · cases h
  · cases h

theorem allocated_keeps_caps_short {fuel n m : Nat} {nb : Nbrs} {op0 : OP} {st : Storage} {r : Res} {opR : Option OP}
    {stR : Storage} (hn : n ≠ 0) (hm : m = 0) (hb : op0.binDividers.len = 1)
    (h : canonicalIsomorphAllocated fuel n m nb (some op0) st {} = .ok (r, opR, stR)) (N M : Nat)
    (hS : StorageOK N M st) : StorageOK N M stR ∧ opR = some op0 := by
  unfold canonicalIsomorphAllocated at h
  rw [if_neg hn] at h
  simp only [hm, if_true, hb, beq_self_eq_true] at h
  cases he : edgeless n st with
  | ok x =>
    obtain ⟨r', st'⟩ := x
    rw [he] at h
    simp only [Outcome.ok.injEq, Prod.mk.injEq] at h
    obtain ⟨_, rfl, rfl⟩ := h
    exact ⟨edgeless_keeps_caps he N M hS, rfl⟩
  | panic => rw [he] at h; cases h
  | outOfFuel => rw [he] at h; cases h

end CanonF
