import Mathlib.Data.List.Perm.Subperm
import Mamba.Lemmas.TermMono
namespace Search
open Disjoint GSearch GraphSpec

variable {O : Oracle} {n : Nat}
theorem lt_two_pow_of_inRange {P : DG} {x : Nat} (h : InRange P x) : x < 2 ^ P.nv := by
  apply Nat.lt_pow_two_of_testBit
  intro i hi
  by_contra hc
  have : x.testBit i = true := by simpa using hc
  have := h i (mem_bitsOf.2 this)
  omega

theorem nodup_lt_length_le {N : Nat} {l : List Nat} (hnd : l.Nodup) (hlt : ∀ x ∈ l, x < N) : l.length ≤ N := by
  have hsub : l ⊆ List.range N := fun x hx => List.mem_range.2 (hlt x hx)
  have := (List.subperm_of_subset hnd hsub).length_le
  simpa using this

/-- `addAugmentations` pushes at most `2 ^ nv` choices -/
theorem aug_size_le (hO : OracleSpec O n) {g : DG} {c c' : Option Ans} {new : Array Nat} {num : Nat}
    (hb : Built g) (hlt : g.nv < n) (hc : c = none ∨ ∃ P x, Built P ∧ InRange P x ∧ AccK O n P x g c)
    (haug : addAugmentations O n g #[] c = .ok (new, c', num)) : new.size ≤ 2 ^ g.nv := by
  have hr := aug_range_of_oracle hO hb hlt hc haug
  have hd := aug_distinct_of_oracle hO hb hlt hc haug
  have hnd : new.toList.Nodup := by
    refine hd.imp ?_
    intro a b hab e
    exact hab (e ▸ ExtEquiv.refl g _)
  have := nodup_lt_length_le hnd (fun x hx => lt_two_pow_of_inRange (hr x hx))
  simpa using this

theorem built_removeLast {g : DG} (hb : Built g) (h2 : 2 ≤ g.nv) :
    ∃ P, g.removeLast = .ok P ∧ Built P ∧ P.nv + 1 = g.nv := by
  cases hb with
  | one => exact absurd h2 (by decide)
  | add hb' hnd hr ha =>
    exact ⟨_, removeLast_addVertex hb'.sized hnd ha, hb', (addVertex_nv ha).symm⟩

/-- the stack of choices is cut into frames by the counts `cps` (top first); the choices of the frame whose parent has
`lvl` vertices only mention vertices `< lvl` -/
def SegT : List Nat → List Nat → Prop
  | [], chs => chs = []
  | k :: rest, chs => k ≤ chs.length ∧ (∀ x ∈ chs.take k, ∀ v ∈ bitsOf x, v < rest.length + 1) ∧ SegT rest (chs.drop k)

theorem SegT.pop {i : Nat} {rest : List Nat} {x : Nat} {chs : List Nat} (h : SegT ((i + 1) :: rest) (x :: chs)) :
    SegT (i :: rest) chs ∧ ∀ v ∈ bitsOf x, v < rest.length + 1 := by
  obtain ⟨h1, h2, h3⟩ := h
  simp only [List.take_succ_cons, List.drop_succ_cons, List.length_cons] at h1 h2 h3
  exact ⟨⟨by omega, fun y hy => h2 y (List.mem_cons_of_mem _ hy), h3⟩, h2 x (List.mem_cons_self)⟩

theorem SegT.zero {rest chs : List Nat} (h : SegT (0 :: rest) chs) : SegT rest chs := by
  simpa using h.2.2

theorem SegT.ne_nil {i : Nat} {rest chs : List Nat} (h : SegT ((i + 1) :: rest) chs) : chs ≠ [] := by
  intro e; subst e; have := h.1; simp at this

theorem SegT.push {cps chs new : List Nat} (h : SegT cps chs) (hn : ∀ x ∈ new, ∀ v ∈ bitsOf x, v < cps.length + 1) :
    SegT (new.length :: cps) (new ++ chs) := by
  refine ⟨by simp, ?_, ?_⟩
  · simpa using hn
  · simpa using h


/-! ### the potential -/

/-- weight of one pending child of a graph with `v` vertices: bounds the number of steps of `run` spent below it -/
def Wt (n v : Nat) : Nat := (2 ^ n + 5) ^ (n - v)

theorem Wt_step {v : Nat} (h : v < n) : 2 ^ n * Wt n (v + 1) + 5 ≤ Wt n v := by
  unfold Wt
  have : n - v = (n - (v + 1)) + 1 := by omega
  rw [this, Nat.pow_succ]
  generalize 2 ^ n = B
  have hp : 1 ≤ (B + 5) ^ (n - (v + 1)) := Nat.one_le_pow _ _ (Nat.succ_le_of_lt (by omega))
  generalize (B + 5) ^ (n - (v + 1)) = X at hp ⊢
  rw [Nat.mul_add, Nat.mul_comm X B]
  omega

theorem Wt_six {v : Nat} (h : v < n) : 6 ≤ Wt n v := by
  have h1 := Wt_step h
  have h2 : 1 ≤ 2 ^ n * Wt n (v + 1) :=
    Nat.mul_pos (Nat.pow_pos (by decide)) (show 0 < (2 ^ n + 5) ^ (n - (v + 1)) from Nat.pow_pos (Nat.succ_pos _))
  omega

def SumW (n : Nat) : List Nat → Nat
  | [] => 0
  | k :: rest => k * Wt n (rest.length + 1) + SumW n rest

/-- the frame counts of a configuration, top frame first -/
def cpsOf : Mode → State → List Nat
  | .inner _ i, s => i :: (topList s.currentPath).tail
  | _, s => topList s.currentPath

def Phi (n : Nat) : Mode → State → Nat
  | .inner _ i, s => SumW n (i :: (topList s.currentPath).tail) + 2 * s.currentPath.size
  | .step _, s => SumW n (topList s.currentPath) + 2 * s.currentPath.size + 1
  | .outer true _, s => SumW n (topList s.currentPath) + 2 * s.currentPath.size + 2
  | .outer false _, s => SumW n (topList s.currentPath) + 2 * s.currentPath.size + Wt n s.currentPath.size - 1

def Mode.fresh : Mode → Bool
  | .outer false _ => true
  | _ => false

def Mode.isInner : Mode → Bool
  | .inner _ _ => true
  | _ => false

def CacheOK (O : Oracle) (n : Nat) (g : DG) (c : Option Ans) : Prop :=
  c = none ∨ ∃ P x, Built P ∧ InRange P x ∧ AccK O n P x g c

/-- invariant of the configurations of `run` for termination -/
structure TInv (O : Oracle) (n : Nat) (mode : Mode) (s : State) : Prop where
  hn : s.n = n
  hm : 0 < s.m
  hL : s.currentPath.size + 1 ≤ n
  built : Built s.g
  nv : s.g.nv = if mode.eff then s.currentPath.size else s.currentPath.size + 1
  seg : SegT (cpsOf mode s) (topList s.choices)
  cache : mode.fresh = true → CacheOK O n s.g s.cache
  pos : mode.isInner = true → 1 ≤ s.currentPath.size

/-- the parent of the children of the top frame -/
theorem parent_step {s : State} {sf : Bool} (hb : Built s.g)
    (hnv : s.g.nv = if sf then s.currentPath.size else s.currentPath.size + 1) (hpos : 1 ≤ s.currentPath.size) :
    ∃ s1, (if !sf then removeClear s else .ok s) = .ok s1 ∧ s1.n = s.n ∧ s1.a = s.a ∧ s1.m = s.m ∧
      s1.choices = s.choices ∧ s1.currentPath = s.currentPath ∧ Built s1.g ∧ s1.g.nv = s.currentPath.size := by
  cases sf with
  | true => exact ⟨s, rfl, rfl, rfl, rfl, rfl, rfl, hb, by simpa using hnv⟩
  | false =>
    simp only [Bool.false_eq_true, if_false] at hnv
    obtain ⟨P, hP, hbP, hnP⟩ := built_removeLast hb (by omega)
    refine ⟨{ s with g := P, cache := none }, ?_, rfl, rfl, rfl, rfl, rfl, hbP, by simp only; omega⟩
    simp [removeClear, hP]

end Search
