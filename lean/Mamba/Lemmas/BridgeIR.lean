import Mamba.Lemmas.BridgeOracle
namespace Search
open GraphSpec GSearch

/-- the `IR` graph of a `DenseGraph` value -/
def irOf (g : DG) : IR.G := IR.ofSpec g.toG

theorem irOf_eq (g : DG) : irGraph g.nv ((List.range g.nv).map g.toG.nbrs) = irOf g := rfl

theorem irOf_n (g : DG) : (irOf g).n = g.nv := rfl

theorem irOf_wf (g : DG) : IR.WF (irOf g) := IR.ofSpec_wf (toG_wf g)

theorem mem_irOf_nbrs {g : DG} {u v : Nat} (hu : u < g.nv) : v ∈ (irOf g).nbrs u ↔ v < g.nv ∧ g.toG.adj u v = true := by
  unfold irOf
  rw [IR.nbrs_ofSpec _ (show u < g.toG.n from hu)]
  unfold G.nbrs
  simp only [List.mem_filter, List.mem_range]
  rfl

/-- an isomorphism in the `Search` vocabulary is a relabelling in the `IR` vocabulary -/
theorem relabel_of_isIso {g h : DG} {σ : Nat → Nat} (i : IsIso g h σ) : IR.Relabel (irOf g) (irOf h) σ i.bij.inv where
  n_eq := i.nv.symm
  left := fun v hv => i.bij.inv_left hv
  right := fun v hv => (i.bij.inv_spec hv).2
  σ_lt := fun v hv => i.bij.maps v hv
  τ_lt := fun v hv => (i.bij.inv_spec hv).1
  nbrs_lt := (irOf_wf g).lt
  nbrs := by
    intro v hv
    have hv' : v < g.nv := hv
    unfold irOf
    have hσv : σ v < h.toG.n := by
      have := i.bij.maps v hv'
      have := i.nv
      show σ v < h.nv
      omega
    rw [IR.nbrs_ofSpec _ hσv, IR.nbrs_ofSpec _ (show v < g.toG.n from hv')]
    exact i.nbrs_perm hv'

/-- a relabelling of the `IR` graph onto itself is an automorphism -/
theorem isAut_of_relabel {g : DG} {γ τ : Nat → Nat} (R : IR.Relabel (irOf g) (irOf g) γ τ) : IsAut g γ := by
  have hn : (irOf g).n = g.nv := rfl
  refine ⟨⟨fun u hu => R.σ_lt u hu, ?_, ?_⟩, ?_⟩
  · intro u v hu hv h
    have := congrArg τ h
    rwa [R.left u hu, R.left v hv] at this
  · intro w hw
    exact ⟨τ w, R.τ_lt w hw, R.right w hw⟩
  · intro u v hu hv
    have key : v ∈ (irOf g).nbrs u ↔ γ v ∈ (irOf g).nbrs (γ u) := by
      rw [(R.nbrs u hu).mem_iff, List.mem_map]
      constructor
      · intro h; exact ⟨v, h, rfl⟩
      · rintro ⟨w, hw, he⟩
        have hwn := R.nbrs_lt u hu w hw
        have := congrArg τ he
        rw [R.left w hwn, R.left v hv] at this
        exact this ▸ hw
    rw [mem_irOf_nbrs hu, mem_irOf_nbrs (R.σ_lt u hu)] at key
    have hγv : γ v < g.nv := R.σ_lt v hv
    cases h1 : g.toG.adj u v <;> cases h2 : g.toG.adj (γ u) (γ v)
    · rfl
    · exact absurd (key.2 ⟨hγv, h2⟩).2 (by simp [h1])
    · exact absurd (key.1 ⟨hv, h1⟩).2 (by simp [h2])
    · rfl

theorem relabel_of_isAut {g : DG} {σ : Nat → Nat} (h : IsAut g σ) : ∃ τ, IR.Relabel (irOf g) (irOf g) σ τ :=
  ⟨_, relabel_of_isIso (isAut_iff_isIso.1 h)⟩

end Search
