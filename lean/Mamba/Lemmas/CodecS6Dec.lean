import Mamba.Lemmas.CodecBits
import Mamba.Lemmas.CodecHeader
/-!
The model's `s6Decode` against the format's reader `Formats.s6DecodeSpec` (C07/C08 for sparse6):
`SparseGraph.AddEdge` keeps `Sparse.WF`; the byte/bit cursor reads `unR`; the stream loop is `Formats.s6Read`
followed by `addEdges`; the decoder never panics and fuel suffices.
-/
namespace Codec
open Formats

/-! ### `insertSorted` -/

theorem mem_insertSorted (x y : Nat) (l : List Nat) : y ∈ insertSorted x l ↔ y = x ∨ y ∈ l := by
  induction l with
  | nil => simp [insertSorted]
  | cons z zs ih =>
    unfold insertSorted
    by_cases h1 : x < z
    · simp [h1]
    · by_cases h2 : x = z
      · subst h2; simp
      · simp only [h1, h2, if_false, List.mem_cons, ih]
        constructor
        · rintro (h | h | h) <;> simp [h]
        · rintro (h | h | h) <;> simp [h]

theorem insertSorted_pairwise (x : Nat) (l : List Nat) (h : l.Pairwise (· < ·)) :
    (insertSorted x l).Pairwise (· < ·) := by
  induction l with
  | nil => simp [insertSorted]
  | cons z zs ih =>
    rw [List.pairwise_cons] at h
    unfold insertSorted
    by_cases h1 : x < z
    · simp only [h1, if_true]
      rw [List.pairwise_cons]
      refine ⟨?_, List.pairwise_cons.2 h⟩
      intro a ha
      rcases List.mem_cons.1 ha with e | e
      · omega
      · have := h.1 a e; omega
    · by_cases h2 : x = z
      · subst h2; simp only [Nat.lt_irrefl, if_false, if_true]; exact List.pairwise_cons.2 h
      · simp only [h1, h2, if_false]
        rw [List.pairwise_cons]
        refine ⟨?_, ih h.2⟩
        intro a ha
        rcases (mem_insertSorted x a zs).1 ha with e | e
        · omega
        · exact h.1 a e

theorem length_insertSorted (x : Nat) (l : List Nat) (h : x ∉ l) : (insertSorted x l).length = l.length + 1 := by
  induction l with
  | nil => simp [insertSorted]
  | cons z zs ih =>
    unfold insertSorted
    simp only [List.mem_cons, not_or] at h
    by_cases h1 : x < z
    · simp [h1]
    · simp [h1, h.1, ih h.2]

/-! ### `Sparse.WF` is kept by `AddEdge` -/

theorem sum_replicate_zero (n : Nat) : (List.replicate n 0).sum = 0 := by
  induction n with
  | zero => rfl
  | succ k ih => simp [List.replicate_succ, ih]

theorem newSparseNil_wf (n : Nat) : (newSparseNil n).WF := by
  refine ⟨by simp [newSparseNil], by simp [newSparseNil], ?_, ?_, ?_, ?_, ?_⟩
  · intro v l h
    simp only [newSparseNil, Array.getElem?_replicate] at h
    split at h <;> simp at h
    subst h; simp
  · intro v l h
    simp only [newSparseNil, Array.getElem?_replicate] at h
    split at h <;> simp at h
    subst h; simp
  · intro u v lu lv hu hv
    simp only [newSparseNil, Array.getElem?_replicate] at hu hv
    split at hu <;> simp at hu
    split at hv <;> simp at hv
    subst hu; subst hv; simp
  · intro v l h
    simp only [newSparseNil, Array.getElem?_replicate] at h ⊢
    split at h <;> simp at h
    subst h; simp [*]
  · simp [newSparseNil]

theorem sum_map_set {α : Type} (f : α → Nat) (l : List α) (i : Nat) (x : α) (h : i < l.length) :
    ((l.set i x).map f).sum + f l[i] = (l.map f).sum + f x := by
  induction l generalizing i with
  | nil => simp at h
  | cons y ys ih =>
    cases i with
    | zero => simp; omega
    | succ j =>
      simp only [List.set_cons_succ, List.map_cons, List.sum_cons, List.getElem_cons_succ]
      have := ih j (by simpa using h)
      omega

theorem Sparse.isEdge_wf (g : Sparse) (h : g.WF) (i j : Nat) (hi : i < g.n) (hj : j < g.n) :
    ∃ li lj, g.nbrs[i]? = some li ∧ g.nbrs[j]? = some lj ∧ g.isEdge i j = .ok (li.contains j) ∧
      g.isEdge i j = .ok (lj.contains i) := by
  have hi' : i < g.nbrs.size := by rw [h.nbrs_size]; exact hi
  have hj' : j < g.nbrs.size := by rw [h.nbrs_size]; exact hj
  have e1 : g.nbrs[i]? = some g.nbrs[i] := Array.getElem?_eq_getElem hi'
  have e2 : g.nbrs[j]? = some g.nbrs[j] := Array.getElem?_eq_getElem hj'
  have d1 := h.deg_eq i _ e1
  have d2 := h.deg_eq j _ e2
  have hs := h.symm i j _ _ e1 e2
  have hc : (g.nbrs[i]).contains j = (g.nbrs[j]).contains i := by
    rw [Bool.eq_iff_iff, List.contains_iff_mem, List.contains_iff_mem]; exact hs
  refine ⟨_, _, e1, e2, ?_, ?_⟩
  · unfold Sparse.isEdge
    simp only [d1, d2, e1, e2]
    split <;> simp [hs]
  · unfold Sparse.isEdge
    simp only [d1, d2, e1, e2]
    split <;> simp [hs]

theorem Sparse.addEdge_wf (g : Sparse) (h : g.WF) (i j : Nat) (hi : i < g.n) (hj : j < g.n) :
    ∃ g', g.addEdge i j = .ok g' ∧ g'.WF ∧ g'.n = g.n := by
  unfold Sparse.addEdge
  by_cases hij : i = j
  · simp only [hij, if_true]; exact ⟨g, rfl, h, rfl⟩
  simp only [hij, if_false]
  obtain ⟨li, lj, e1, e2, he1, he2⟩ := Sparse.isEdge_wf g h i j hi hj
  cases hc : li.contains j with
  | true => rw [he1, hc]; exact ⟨g, rfl, h, rfl⟩
  | false =>
    have hc2 : lj.contains i = false := by
      have := he1.symm.trans he2
      rw [hc] at this; exact (Outcome.ok.inj this).symm
    have hji : j ∉ li := by intro hm; rw [← List.contains_iff_mem] at hm; rw [hm] at hc; cases hc
    have hil : i ∉ lj := by intro hm; rw [← List.contains_iff_mem] at hm; rw [hm] at hc2; cases hc2
    have hi' : i < g.nbrs.size := by rw [h.nbrs_size]; exact hi
    have hj' : j < g.nbrs.size := by rw [h.nbrs_size]; exact hj
    have hdi : i < g.deg.size := by rw [h.deg_size]; exact hi
    have hdj : j < g.deg.size := by rw [h.deg_size]; exact hj
    have n1 : (g.nbrs.setIfInBounds i (insertSorted j li))[j]? = some lj := by
      rw [Array.getElem?_setIfInBounds]; simp only [hij, if_false]; exact e2
    have d1 := h.deg_eq i _ e1
    have d2 := h.deg_eq j _ e2
    have gi : g.deg[i] = li.length := by
      rw [Array.getElem?_eq_getElem hdi] at d1; exact Option.some.inj d1
    have gj' : (g.deg.setIfInBounds i (li.length + 1))[j]? = some lj.length := by
      rw [Array.getElem?_setIfInBounds]; simp only [hij, if_false]; exact d2
    have hdj2 : j < (g.deg.setIfInBounds i (li.length + 1)).size := by
      rw [Array.size_setIfInBounds]; exact hdj
    have gj : (g.deg.setIfInBounds i (li.length + 1))[j] = lj.length := by
      rw [Array.getElem?_eq_getElem hdj2] at gj'; exact Option.some.inj gj'
    rw [he1, hc]
    simp only [e1, e2, n1, incr_ok hdi, gi, incr_ok hdj2, gj]
    refine ⟨_, rfl, ?_, rfl⟩
    -- characterisation of the new neighbour lists
    have key : ∀ (v : Nat) (l : List Nat),
        ((g.nbrs.setIfInBounds i (insertSorted j li)).setIfInBounds j (insertSorted i lj))[v]? = some l →
        (v = j ∧ l = insertSorted i lj) ∨ (v = i ∧ l = insertSorted j li) ∨ (v ≠ i ∧ v ≠ j ∧ g.nbrs[v]? = some l) := by
      intro v l hv
      rw [Array.getElem?_setIfInBounds, Array.size_setIfInBounds] at hv
      by_cases hvj : j = v
      · subst hvj
        simp only [if_true, hj'] at hv
        left; exact ⟨rfl, (Option.some.inj hv).symm⟩
      · simp only [hvj, if_false] at hv
        rw [Array.getElem?_setIfInBounds] at hv
        by_cases hvi : i = v
        · subst hvi
          simp only [if_true, hi'] at hv
          right; left; exact ⟨rfl, (Option.some.inj hv).symm⟩
        · simp only [hvi, if_false] at hv
          right; right; exact ⟨fun e => hvi e.symm, fun e => hvj e.symm, hv⟩
    -- membership in the new lists
    have memk : ∀ (u v : Nat) (l : List Nat),
        ((g.nbrs.setIfInBounds i (insertSorted j li)).setIfInBounds j (insertSorted i lj))[u]? = some l →
        ∃ l0, g.nbrs[u]? = some l0 ∧ (v ∈ l ↔ (v ∈ l0 ∨ (u = i ∧ v = j) ∨ (u = j ∧ v = i))) := by
      intro u v l hu
      rcases key u l hu with ⟨e, el⟩ | ⟨e, el⟩ | ⟨ne1, ne2, el⟩
      · subst e; subst el
        refine ⟨lj, e2, ?_⟩
        rw [mem_insertSorted]
        constructor
        · rintro (h | h)
          · right; right; exact ⟨rfl, h⟩
          · left; exact h
        · rintro (h | ⟨h, _⟩ | ⟨_, h⟩)
          · right; exact h
          · exact absurd h.symm hij
          · left; exact h
      · subst e; subst el
        refine ⟨li, e1, ?_⟩
        rw [mem_insertSorted]
        constructor
        · rintro (h | h)
          · right; left; exact ⟨rfl, h⟩
          · left; exact h
        · rintro (h | ⟨_, h⟩ | ⟨h, _⟩)
          · right; exact h
          · left; exact h
          · exact absurd h hij
      · refine ⟨l, el, ?_⟩
        constructor
        · intro h; left; exact h
        · rintro (h | ⟨h, _⟩ | ⟨h, _⟩)
          · exact h
          · exact absurd h ne1
          · exact absurd h ne2
    refine ⟨?_, ?_, ?_, ?_, ?_, ?_, ?_⟩
    · simp [Array.size_setIfInBounds, h.nbrs_size]
    · simp [Array.size_setIfInBounds, h.deg_size]
    · intro v l hv
      rcases key v l hv with ⟨_, el⟩ | ⟨_, el⟩ | ⟨_, _, el⟩
      · rw [el]; exact insertSorted_pairwise _ _ (h.sorted j lj e2)
      · rw [el]; exact insertSorted_pairwise _ _ (h.sorted i li e1)
      · exact h.sorted v l el
    · intro v l hv u hu
      obtain ⟨l0, hl0, hm⟩ := memk v u l hv
      rcases (hm.1 hu) with h1 | ⟨h1, h2⟩ | ⟨h1, h2⟩
      · exact h.range v l0 hl0 u h1
      · subst h1; subst h2; exact ⟨hj, fun e => hij e.symm⟩
      · subst h1; subst h2; exact ⟨hi, hij⟩
    · intro u v lu lv hu hv
      obtain ⟨l0, hl0, hm⟩ := memk u v lu hu
      obtain ⟨l1, hl1, hm1⟩ := memk v u lv hv
      rw [hm, hm1, h.symm u v l0 l1 hl0 hl1]
      constructor
      · rintro (h | ⟨h, h'⟩ | ⟨h, h'⟩)
        · left; exact h
        · right; right; exact ⟨h', h⟩
        · right; left; exact ⟨h', h⟩
      · rintro (h | ⟨h, h'⟩ | ⟨h, h'⟩)
        · left; exact h
        · right; right; exact ⟨h', h⟩
        · right; left; exact ⟨h', h⟩
    · intro v l hv
      show ((g.deg.setIfInBounds i (li.length + 1)).setIfInBounds j (lj.length + 1))[v]? = some l.length
      rw [Array.getElem?_setIfInBounds, Array.size_setIfInBounds, Array.getElem?_setIfInBounds]
      rcases key v l hv with ⟨e, el⟩ | ⟨e, el⟩ | ⟨ne1, ne2, el⟩
      · subst e; subst el
        simp only [if_true, hdj, length_insertSorted _ _ hil]
      · subst e; subst el
        have hne : ¬ j = v := fun e => hij e.symm
        simp only [if_true, hdi, length_insertSorted _ _ hji, hne, if_false]
      · have hn1 : ¬ j = v := fun e => ne2 e.symm
        have hn2 : ¬ i = v := fun e => ne1 e.symm
        simp only [hn1, hn2, if_false]
        exact h.deg_eq v l el
    · show 2 * (g.m + 1) = _
      rw [Array.toList_setIfInBounds, Array.toList_setIfInBounds]
      have hl1 : i < g.nbrs.toList.length := by simpa using hi'
      have hl2 : j < (g.nbrs.toList.set i (insertSorted j li)).length := by simpa using hj'
      have s1 := sum_map_set List.length g.nbrs.toList i (insertSorted j li) hl1
      have s2 := sum_map_set List.length (g.nbrs.toList.set i (insertSorted j li)) j (insertSorted i lj) hl2
      have g1 : g.nbrs.toList[i] = li := by
        have := e1; rw [← Array.getElem?_toList, List.getElem?_eq_getElem hl1] at this; exact Option.some.inj this
      have g2 : (g.nbrs.toList.set i (insertSorted j li))[j] = lj := by
        rw [List.getElem_set_ne hij]
        have := e2; rw [← Array.getElem?_toList, List.getElem?_eq_getElem (by simpa using hj')] at this
        exact Option.some.inj this
      rw [g1, length_insertSorted _ _ hji] at s1
      rw [g2, length_insertSorted _ _ hil] at s2
      have := h.m_eq
      omega

/-! ### the bit cursor -/

theorem bits6_length (x : Nat) : (bits6 x).length = 6 := rfl

theorem bit_fact : ∀ x : Fin 64, ∀ p : Fin 6,
    (bits6 x.val)[p.val]? = some (((x.val >>> (5 - p.val)) &&& 1) == 1) ∧ ((x.val >>> (5 - p.val)) &&& 1) ≤ 1 := by decide

theorem bit_fact' (x p : Nat) (hx : x < 64) (hp : p < 6) :
    (bits6 x)[p]? = some (((x >>> (5 - p)) &&& 1) == 1) ∧ ((x >>> (5 - p)) &&& 1) ≤ 1 :=
  bit_fact ⟨x, hx⟩ ⟨p, hp⟩

theorem unR_getElem? (l : List Nat) (p : Nat) :
    (unR l)[p]? = (l[p / 6]?).bind fun c => (bits6 (c - 63))[p % 6]? := by
  induction l generalizing p with
  | nil => simp [unR]
  | cons c cs ih =>
    rw [unR_cons, List.getElem?_append, bits6_length]
    by_cases h : p < 6
    · have h1 : p / 6 = 0 := by omega
      have h2 : p % 6 = p := by omega
      simp [h, h1, h2]
    · have h1 : p / 6 = (p - 6) / 6 + 1 := by omega
      have h2 : p % 6 = (p - 6) % 6 := by omega
      simp only [h, if_false, ih, h1, h2, List.getElem?_cons_succ]

/-- the byte/bit cursor reads the bit stream `unR (s[i:])` -/
theorem s6ReadBit_spec (s : Bytes) (hr : inRange s = true) (i pos : Nat) (hp : pos < 6 * (s.size - i)) :
    ∃ b, (unR (s.toList.drop i))[pos]? = some b ∧ s6ReadBit s i pos = .ok b.toNat := by
  have hlt : i + pos / 6 < s.size := by omega
  have hc := (inRange_iff s).1 hr s[i + pos / 6] (by simp)
  have e : s[i + pos / 6]? = some s[i + pos / 6] := Array.getElem?_eq_getElem hlt
  have bf := bit_fact' (s[i + pos / 6] - 63) (pos % 6) (by omega) (Nat.mod_lt _ (by decide))
  refine ⟨((s[i + pos / 6] - 63) >>> (5 - pos % 6) &&& 1 == 1), ?_, ?_⟩
  · rw [unR_getElem?, List.getElem?_drop, Array.getElem?_toList, e]
    exact bf.1
  · unfold s6ReadBit
    rw [e]
    simp only [bsub_of_le hc.1 (by omega : s[i + pos / 6] < 256)]
    congr 1
    generalize (s[i + pos / 6] - 63) >>> (5 - pos % 6) &&& 1 = y at bf
    have := bf.2
    rcases (by omega : y = 0 ∨ y = 1) with h | h <;> subst h <;> rfl

def accBits (x : Nat) (bs : List Bool) : Nat := bs.foldl (fun a b => 2 * a + b.toNat) x

theorem s6ReadNum_spec (s : Bytes) (hr : inRange s = true) (i : Nat) :
    ∀ (k pos x : Nat), pos + k ≤ 6 * (s.size - i) →
      s6ReadNum s i k pos x = .ok (accBits x (((unR (s.toList.drop i)).drop pos).take k)) := by
  intro k
  induction k with
  | zero => intro pos x _; simp [s6ReadNum, accBits]
  | succ k ih =>
    intro pos x hp
    obtain ⟨b, hb, hrd⟩ := s6ReadBit_spec s hr i pos (by omega)
    unfold s6ReadNum
    rw [hrd]
    simp only []
    rw [ih (pos + 1) _ (by omega)]
    congr 1
    have hd : (unR (s.toList.drop i)).drop pos = b :: (unR (s.toList.drop i)).drop (pos + 1) := by
      rw [List.drop_eq_getElem?_toList_append, hb]; rfl
    rw [hd, List.take_succ_cons]
    unfold accBits
    rw [List.foldl_cons]
    congr 1
    have hb1 : b.toNat < 2 ^ 1 := by cases b <;> decide
    rw [← Nat.shiftLeft_add_eq_or_of_lt hb1, Nat.shiftLeft_eq]; omega

theorem accBits_zero (bs : List Bool) : accBits 0 bs = bitsToNat bs := rfl

/-! ### the stream loop -/

theorem s6Read_of_ge (n k g v : Nat) (bits : List Bool) (h : v ≥ n) : s6Read n k g v bits = [] := by
  cases g with
  | zero => rfl
  | succ g =>
    unfold s6Read
    have : (if bits.headD false = true then v + 1 else v) ≥ n := by split <;> omega
    simp only [this, if_true]

theorem s6Read_range (n k g v : Nat) (bits : List Bool) :
    ∀ p ∈ Formats.s6Read n k g v bits, p.1 ≤ p.2 ∧ p.2 < n := by
  induction g generalizing v bits with
  | zero => intro p hp; simp [s6Read] at hp
  | succ g ih =>
    intro p hp
    unfold s6Read at hp
    simp only [] at hp
    generalize (if bits.headD false = true then v + 1 else v) = v' at hp
    by_cases h1 : v' ≥ n
    · simp [h1] at hp
    · simp only [h1, if_false] at hp
      by_cases h2 : bitsToNat ((bits.drop 1).take k) > v'
      · simp only [h2, if_true] at hp; exact ih _ _ p hp
      · simp only [h2, if_false] at hp
        rcases List.mem_cons.1 hp with e | e
        · subst e; simp only []; omega
        · exact ih _ _ p e

theorem addEdges_nil (g : Sparse) : addEdges g [] = .ok g := rfl

theorem addEdges_cons (g : Sparse) (p : Nat × Nat) (es : List (Nat × Nat)) :
    addEdges g (p :: es) = match g.addEdge p.2 p.1 with
      | .ok g' => addEdges g' es | .panic => .panic | .outOfFuel => .outOfFuel := by
  unfold addEdges
  rw [List.foldlM_cons]
  cases g.addEdge p.2 p.1 <;> rfl

theorem addEdges_wf (g : Sparse) (h : g.WF) (es : List (Nat × Nat)) (hes : ∀ p ∈ es, p.1 < g.n ∧ p.2 < g.n) :
    ∃ g', addEdges g es = .ok g' ∧ g'.WF ∧ g'.n = g.n := by
  induction es generalizing g with
  | nil => exact ⟨g, rfl, h, rfl⟩
  | cons p es ih =>
    have hp := hes p (by simp)
    obtain ⟨g1, h1, w1, n1⟩ := Sparse.addEdge_wf g h p.2 p.1 hp.2 hp.1
    obtain ⟨g2, h2, w2, n2⟩ := ih g1 w1 (by intro q hq; rw [n1]; exact hes q (by simp [hq]))
    refine ⟨g2, ?_, w2, n2.trans n1⟩
    rw [addEdges_cons, h1]; exact h2

/-- the stream loop is the format's reader followed by `AddEdge` on each emitted pair -/
theorem s6Loop_spec (s : Bytes) (hr : inRange s = true) (i n k numBits : Nat) (hnb : numBits = 6 * (s.size - i)) :
    ∀ (fuel pos v : Nat) (g : Sparse), v < n → (numBits - pos) / (k + 1) < fuel →
      s6Loop s i n k numBits fuel pos v g =
        addEdges g (s6Read n k ((numBits - pos) / (k + 1)) v ((unR (s.toList.drop i)).drop pos)) := by
  intro fuel
  induction fuel with
  | zero => intro pos v g _ h; exact absurd h (Nat.not_lt_zero _)
  | succ fuel ih =>
    intro pos v g hv hf
    unfold s6Loop
    by_cases hle : pos + 1 + k ≤ numBits
    · simp only [hle, if_true]
      have hg : (numBits - pos) / (k + 1) = (numBits - (pos + 1 + k)) / (k + 1) + 1 := by
        rw [← Nat.add_div_right _ (by omega : 0 < k + 1)]
        congr 1; omega
      obtain ⟨b, hb, hrd⟩ := s6ReadBit_spec s hr i pos (by omega)
      rw [hrd]
      simp only []
      rw [s6ReadNum_spec s hr i k (pos + 1) 0 (by omega), accBits_zero]
      simp only []
      rw [hg]
      unfold s6Read
      have hd : (unR (s.toList.drop i)).drop pos = b :: (unR (s.toList.drop i)).drop (pos + 1) := by
        rw [List.drop_eq_getElem?_toList_append, hb]; rfl
      have hhd : ((unR (s.toList.drop i)).drop pos).headD false = b := by rw [hd]; rfl
      have hd1 : ((unR (s.toList.drop i)).drop pos).drop 1 = (unR (s.toList.drop i)).drop (pos + 1) := by
        rw [List.drop_drop]
      have hdk : ((unR (s.toList.drop i)).drop pos).drop (k + 1) = (unR (s.toList.drop i)).drop (pos + 1 + k) := by
        rw [List.drop_drop]; congr 1; omega
      simp only [hhd, hd1, hdk]
      have hbv : (if b.toNat = 1 then v + 1 else v) = (if b = true then v + 1 else v) := by
        cases b <;> simp
      rw [hbv]
      generalize (if b = true then v + 1 else v) = v'
      generalize bitsToNat (((unR (s.toList.drop i)).drop (pos + 1)).take k) = x
      have hf' : (numBits - (pos + 1 + k)) / (k + 1) < fuel := by rw [hg] at hf; omega
      by_cases hv' : v' ≥ n
      · simp [hv', addEdges_nil]
      · by_cases hx : x ≥ n
        · have hxv : x > v' := by omega
          simp only [hx, hv', hxv, if_true, if_false, Bool.or_false, decide_true, decide_false]
          rw [s6Read_of_ge n k _ x _ hx]; rfl
        · by_cases hxv : x > v'
          · simp only [hx, hv', hxv, if_true, if_false, Bool.or_false, decide_false]
            exact ih _ _ g (by omega) hf'
          · simp only [hx, hv', hxv, if_false, Bool.or_false, decide_false]
            rw [addEdges_cons]
            simp only []
            cases g.addEdge v' x with
            | ok g' => exact ih _ _ g' (by omega) hf'
            | panic => rfl
            | outOfFuel => rfl
    · simp only [hle, if_false]
      have : (numBits - pos) / (k + 1) = 0 := by
        apply Nat.div_eq_of_lt; omega
      rw [this]; rfl

/-- `Sparse6Decode` after the optional prefix has been removed -/
def s6DecodeCore (s1 : Bytes) : Outcome (Option Sparse) :=
  if s1.size = 0 then .ok none
  else
    match s1[0]? with
    | none => .panic
    | some c =>
      if c ≠ 58 then .ok none
      else
        let s := dropBytes s1 1
        if !inRange s then .ok none
        else if s.size = 0 then .ok none
        else
          match decHeader s with
          | .ok none => .ok none
          | .ok (some (n, i)) =>
            let g := newSparseNil n
            if n = 0 then .ok (some g)
            else
              let k := bitLen (n - 1)
              let numBits := 6 * (s.size - i)
              match s6Loop s i n k numBits (numBits + 1) 0 0 g with
              | .ok g' => .ok (some g')
              | .panic => .panic
              | .outOfFuel => .outOfFuel
          | .panic => .panic
          | .outOfFuel => .outOfFuel

theorem s6Decode_eq_core (s0 : Bytes) :
    s6Decode s0 = s6DecodeCore (if hasPrefix s0 s6Magic then dropBytes s0 11 else s0) := rfl

theorem bitLen_eq (x : Nat) : bitLen x = Formats.bitLen x := rfl

theorem s6DecodeSpec_nil : s6DecodeSpec [] = none := rfl

theorem s6DecodeSpec_ne (c : Nat) (t : List Nat) (h : c ≠ 58) : s6DecodeSpec (c :: t) = none := by
  unfold s6DecodeSpec
  split
  · rename_i heq; injection heq with h1 _; exact absurd h1 h
  · rfl

theorem s6DecodeSpec_cons (t : List Nat) : s6DecodeSpec (58 :: t) =
    if !Formats.inRange t then none else
    match readN t with
    | none => none
    | some (n, rest) =>
      some (n, s6Read n (Formats.bitLen (n - 1)) ((unR rest).length / (Formats.bitLen (n - 1) + 1)) 0 (unR rest)) := rfl

/-- the outcome the format's reader followed by `AddEdge` prescribes -/
def s6Expected (l : List Nat) : Outcome (Option Sparse) :=
  match Formats.s6DecodeSpec l with
  | none => .ok none
  | some (n, es) => match addEdges (newSparseNil n) es with
    | .ok g => .ok (some g) | .panic => .panic | .outOfFuel => .outOfFuel

theorem s6DecodeCore_spec (s : Bytes) : s6DecodeCore s = s6Expected s.toList := by
  obtain ⟨l⟩ := s
  unfold s6Expected
  cases l with
  | nil => simp [s6DecodeCore, s6DecodeSpec_nil]
  | cons c t =>
    unfold s6DecodeCore
    have h0 : ¬ ((c :: t).toArray.size = 0) := by simp
    have hc0 : (c :: t).toArray[0]? = some c := by simp
    simp only [h0, if_false, hc0]
    by_cases hc : c ≠ 58
    · rw [if_pos hc, s6DecodeSpec_ne c t hc]
    · have hc : c = 58 := by omega
      subst hc
      have hd : dropBytes (58 :: t).toArray 1 = t.toArray := by simp [dropBytes]
      simp only [ne_eq, not_true_eq_false, if_false, hd, s6DecodeSpec_cons, inRange_eq_spec]
      cases hr : Formats.inRange t with
      | false => simp
      | true =>
        simp only [Bool.not_true, Bool.false_eq_true, if_false]
        cases t with
        | nil => simp [readN]
        | cons a t' =>
          have hs : ¬ ((a :: t').toArray.size = 0) := by simp
          simp only [hs, if_false]
          have hr' : inRange (a :: t').toArray = true := by rw [inRange_eq_spec]; exact hr
          rcases decHeader_spec (a :: t').toArray (by simp) hr' with ⟨h1, h2⟩ | ⟨n, i, h1, h2, hi, _, _, _, _⟩
          · simp only [h1]
            simp only [h2]
          · simp only [h1]
            simp only [h2]
            by_cases hn : n = 0
            · subst hn
              simp only [if_true]
              rw [s6Read_of_ge 0 _ _ 0 _ (Nat.le_refl 0)]
              rfl
            · simp only [hn, if_false]
              have hlen : (unR (List.drop i (a :: t'))).length = 6 * ((a :: t').toArray.size - i) := by
                rw [unR_length, List.length_drop]; simp
              have := s6Loop_spec (a :: t').toArray hr' i n (bitLen (n - 1)) _ rfl
                (6 * ((a :: t').toArray.size - i) + 1) 0 0 (newSparseNil n) (by omega)
                (Nat.lt_succ_of_le (Nat.div_le_self _ _))
              rw [this, bitLen_eq, hlen]
              simp only [Nat.sub_zero, List.drop_zero]

theorem s6Decode_core_spec (s : Bytes) (hm : hasPrefix s s6Magic = false) :
    s6Decode s = match Formats.s6DecodeSpec s.toList with
      | none => .ok none
      | some (n, es) => match addEdges (newSparseNil n) es with
        | .ok g => .ok (some g) | .panic => .panic | .outOfFuel => .outOfFuel := by
  rw [s6Decode_eq_core, hm]
  exact s6DecodeCore_spec s

theorem s6Decode_strip (s : Bytes) (hm : hasPrefix s s6Magic = true) :
    s6Decode s = match Formats.s6DecodeSpec (s.toList.drop 11) with
      | none => .ok none
      | some (n, es) => match addEdges (newSparseNil n) es with
        | .ok g => .ok (some g) | .panic => .panic | .outOfFuel => .outOfFuel := by
  rw [s6Decode_eq_core, hm]
  have := s6DecodeCore_spec (dropBytes s 11)
  simp only [dropBytes, List.toList_toArray] at this
  exact this

theorem s6DecodeSpec_range (l : List Nat) (n : Nat) (es : List (Nat × Nat)) (h : s6DecodeSpec l = some (n, es)) :
    ∀ p ∈ es, p.1 ≤ p.2 ∧ p.2 < n := by
  cases l with
  | nil => simp [s6DecodeSpec_nil] at h
  | cons c t =>
    by_cases hc : c ≠ 58
    · simp [s6DecodeSpec_ne c t hc] at h
    · have hc : c = 58 := by omega
      subst hc
      rw [s6DecodeSpec_cons] at h
      split at h
      · cases h
      · split at h
        · cases h
        · simp only [Option.some.injEq, Prod.mk.injEq] at h
          obtain ⟨h1, h2⟩ := h
          subst h1; subst h2
          exact s6Read_range _ _ _ _ _

theorem s6Expected_total (l : List Nat) :
    s6Expected l ≠ .panic ∧ s6Expected l ≠ .outOfFuel ∧
    ∀ g, s6Expected l = .ok (some g) → g.WF ∧ ∃ es, Formats.s6DecodeSpec l = some (g.n, es) := by
  unfold s6Expected
  cases hs : s6DecodeSpec l with
  | none => simp
  | some ne =>
    obtain ⟨n, es⟩ := ne
    have hrange := s6DecodeSpec_range l n es hs
    obtain ⟨g', h1, w, hn⟩ := addEdges_wf (newSparseNil n) (newSparseNil_wf n) es (by
      intro p hp; have := hrange p hp; show p.1 < n ∧ p.2 < n; omega)
    simp only [h1]
    refine ⟨by simp, by simp, ?_⟩
    intro g hg
    simp only [Outcome.ok.injEq, Option.some.injEq] at hg
    subst hg
    refine ⟨w, es, ?_⟩
    rw [hn]; rfl

/-- C08 for sparse6: never panics, fuel suffices, success gives a well-formed graph on the declared n -/
theorem s6Decode_total (s : Bytes) :
    s6Decode s ≠ .panic ∧ s6Decode s ≠ .outOfFuel ∧
    ∀ g, s6Decode s = .ok (some g) → g.WF ∧
      ∃ es, Formats.s6DecodeSpec (if hasPrefix s s6Magic then s.toList.drop 11 else s.toList) = some (g.n, es) := by
  rw [s6Decode_eq_core, s6DecodeCore_spec]
  have e : (if hasPrefix s s6Magic = true then dropBytes s 11 else s).toList =
      (if hasPrefix s s6Magic = true then s.toList.drop 11 else s.toList) := by
    split <;> simp [dropBytes]
  rw [e]
  exact s6Expected_total _

end Codec
