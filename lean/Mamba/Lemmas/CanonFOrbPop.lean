import Mamba.Lemmas.CanonFOrbTree
import Mamba.Lemmas.CanonFOrbRel
import Mamba.Lemmas.CanonFOrbBase
/-!
# Orbit completeness: the top frame is popped (`orb_pop`)

All children of the top frame are processed. A child that is only covered by the "non-root on the first path" clause is
the image of its root (a member of the same cell, covered by the first clause) under the recorded generators
(`acov_eqvGen`); hence the node of the frame is `ACov` (`acov_of_children`), and it is the child that was being explored in
the frame below (`finish_child`).
-/
namespace CanonF
open Relation

/-- all children of the top frame are covered ⇒ the node of the top frame is covered (cf. `cov_pop`) -/
theorem op_node_acov {n m : Nat} {nb : Nbrs} {rf : Nat} {r : IR.St} (hnb : NbOK nb n) {gh : Gh}
    (st sz : Nat) (ls : List (Nat × Nat)) (s : LS) (c : Nat) (cs : List Nat) (p : Nat) (ps : List Nat)
    (hcst : c = st)
    (h5 : FramesOK n nb rf r gh.vs (p :: ps) (c :: cs) ((st, sz) :: ls)) (hg : GInv n m nb s)
    (hGA : GlobalA n gh s)
    (hcov : ACovFrames n nb rf r gh s gh.vs true (p :: ps) (c :: cs) ((st, sz) :: ls))
    (hE1 : onFirstB s ps = true → ∀ k, k < s.ngens → ∀ γ, s.gens[k]? = some γ →
      ∀ u, u < n → IR.col (nodeL n nb rf r gh.vs ps.length).c (γ.toList.getD u 0)
        = IR.col (nodeL n nb rf r gh.vs ps.length).c u) :
    ACov n nb rf (lFof n gh) s.firstLeaf.toList (ORel s) (nodeL n nb rf r gh.vs ps.length) := by
  simp only [FramesOK] at h5
  obtain ⟨htar, _, _, _⟩ := h5
  have hcov1 : ∀ w, w ∈ IR.cellMembers (irG n nb) (nodeL n nb rf r gh.vs ps.length).c st →
      ACovChild n nb rf r gh s gh.vs ps st w := by
    intro w hwm
    obtain ⟨i, hi⟩ := List.getElem?_of_mem hwm
    exact ACovFrames.head hcov i w (by simp only [if_true]; omega) hi
  refine acov_of_children (rf := rf) htar ?_
  intro w hwm
  rcases hcov1 w hwm with hcomp | ⟨hof, y, hy, hy0⟩
  · exact hcomp
  · have hcnt : 0 < s.count := by
      unfold onFirstB at hof
      simp only [Bool.and_eq_true, decide_eq_true_eq] at hof
      exact hof.1
    obtain ⟨hinv, horb⟩ := hg.orb hcnt
    have hsz := hg.orbSz.1
    obtain ⟨hwn, hwc⟩ := IR.mem_cellMembers.1 hwm
    have hwn' : w < n := hwn
    obtain ⟨hρ, y', hy', hneg⟩ := rep_is_root hinv (v := w) (by rw [hsz]; exact hwn')
    rw [hsz] at hρ
    have hself := rep_self_of_root hinv hy' hneg
    have hS : ∀ γ, (∃ k g, k < s.ngens ∧ s.gens[k]? = some g ∧ g.toList = γ) →
        IsAutL nb n γ ∧ (∀ v, v < n → IR.col (nodeL n nb rf r gh.vs ps.length).c (γ.getD v 0)
          = IR.col (nodeL n nb rf r gh.vs ps.length).c v) ∧ ∀ x, x < n → ORel s x (γ.getD x 0) := by
      rintro γ ⟨k, g, hk, hgk, rfl⟩
      obtain ⟨g', hg', haut⟩ := hg.gens k hk
      rw [hgk] at hg'
      cases hg'
      exact ⟨haut, hE1 hof k hk g hgk, hGA.gensM k hk g hgk⟩
    have h' : EqvGen (fun x y => ∃ γ, (∃ k g, k < s.ngens ∧ s.gens[k]? = some g ∧ g.toList = γ) ∧ γ[x]? = some y)
        w (Disjoint.rep s.flOrbits w) := by
      apply eqvGen_of_imp _ (horb w _ hwn' hρ hself.symm)
      rintro x y ⟨k, g, hk, hgk, e⟩
      exact EqvGen.rel _ _ ⟨g.toList, ⟨k, g, hk, hgk, rfl⟩, e⟩
    obtain ⟨_, hiff⟩ := acov_eqvGen (rf := rf) (lF := lFof n gh) (certF := s.firstLeaf.toList) (R := ORel s)
      (ν := nodeL n nb rf r gh.vs ps.length) (t := st) hnb (fun u _ => ORel.refl s u) (fun u v _ _ h => h.symm)
      (fun u v w _ _ _ h1 h2 => h1.trans h2) hS hwn' h'
    obtain ⟨_, hcol, _⟩ := eqvGen_subtree hnb rf (ν := nodeL n nb rf r gh.vs ps.length)
      (fun γ hγ => ⟨(hS γ hγ).1, (hS γ hγ).2.1⟩) hwn' h'
    have hρm : Disjoint.rep s.flOrbits w ∈ IR.cellMembers (irG n nb) (nodeL n nb rf r gh.vs ps.length).c st :=
      IR.mem_cellMembers.2 ⟨hρ, by rw [hcol]; exact hwc⟩
    rcases hcov1 _ hρm with hcomp | ⟨_, z, hz, hz0⟩
    · exact hiff.2 hcomp
    · rw [hy'] at hz
      cases hz
      omega

section
variable {n m : Nat} {nb : Nbrs} {rf : Nat} {r : IR.St}
  (hnb : NbOK nb n)

set_option linter.unusedVariables false in
include hnb in
theorem orb_pop (gh : Gh) (st sz : Nat) (ls : List (Nat × Nat)) (s : LS) (hc : Core n s)
    (ht : TopOK s.op 0 s.path s.choices ((st, sz) :: ls)) (hsk : s.skipDeage = false)
    (hage : s.op.age + 1 = s.path.length)
    (hJ : CertN n m nb ((st, sz) :: ls) s) (hDv : DNv n nb rf r gh ((st, sz) :: ls) s)
    (hAv : ANv n nb rf r gh ((st, sz) :: ls) s) :
    AAv n nb rf r { gh with vs := gh.vs.dropLast } ls { s with path := s.path.drop 1, choices := s.choices.drop 1 } := by
  obtain ⟨hw, hG, _, haux⟩ := hDv
  obtain ⟨hGA, hacov, hauxA⟩ := hAv
  obtain ⟨p, ps, c, cs, st', sz', ls', e1, e2, e3⟩ := topOK_path_ne ht
  cases e3
  have ht' := ht
  rw [e1, e2] at ht'
  simp only [TopOK] at ht'
  obtain ⟨_, tsz, tc, _, tl⟩ := ht'
  obtain ⟨h1, h2, h3, h4, h5, h6, h7⟩ := hw
  rw [e1, e2] at haux h5 hacov hauxA
  rw [e1] at h3
  simp only [List.length_cons] at h3
  have hhead := FrameAux.head haux
  have h5t := h5.tail
  have hcnt : 0 < s.count := by
    rcases Nat.eq_zero_or_pos s.count with h0 | hpos
    · have := hhead.ph1 h0
      simp only [if_true] at this
      omega
    · exact hpos
  have hE1 : onFirstB s ps = true → ∀ k, k < s.ngens → ∀ γ, s.gens[k]? = some γ →
      ∀ u, u < n → IR.col (nodeL n nb rf r gh.vs ps.length).c (γ.toList.getD u 0)
        = IR.col (nodeL n nb rf r gh.vs ps.length).c u := by
    intro hon
    have hpre := prefixF_of_onFirst (frames_idxPath ps cs ls h5t (by omega)) h1 (by omega) hG hon
    exact hhead.e1 hcnt hpre
  have hcomp := op_node_acov hnb st sz ls s c cs p ps (by omega) h5 hJ.1 hGA hacov hE1
  have hAt := ACovFrames.tail hacov
  have hXt := FrameAuxA.tail hauxA
  -- the frames below, the new top frame is "between two children"
  have hB : ACovFrames n nb rf r gh s gh.vs true ps cs ls ∧ FrameAuxA n nb rf r gh s gh.vs true ps cs ls := by
    cases ps with
    | nil => cases cs <;> cases ls <;> simp_all [ACovFrames, FrameAuxA]
    | cons p' ps' =>
      cases cs with
      | nil => simp [FrameAuxA] at hXt
      | cons c' cs' =>
        cases ls with
        | nil => simp [FrameAuxA] at hXt
        | cons x ls'' =>
          obtain ⟨st2, sz2⟩ := x
          simp only [LevelsOK] at tl
          obtain ⟨_, _, tc2, _, _⟩ := tl
          simp only [FramesOK] at h5t
          obtain ⟨g1, _, g3, _⟩ := h5t
          simp only [List.length_cons] at h3 hcomp
          obtain ⟨g3a, _⟩ := g3 (by omega)
          have hnew : ∀ w, (cellL n nb rf r gh.vs ps'.length st2)[c' - st2]? = some w →
              ACov n nb rf (lFof n gh) s.firstLeaf.toList (ORel s)
                (IR.childSt (irG n nb) rf (nodeL n nb rf r gh.vs ps'.length) st2 w) := by
            intro w hw'
            rw [show c' - st2 = p' by omega, ← g3a] at hw'
            rw [← nodeL_succ h1 hw' g1]
            exact hcomp
          exact ⟨hAt.finish_child (fun w hw' => Or.inl (hnew w hw')),
            FrameAuxA.mk ((FrameAuxA.head hXt).finish_child (fun w hw' _ => hnew w hw')) (FrameAuxA.tail hXt)⟩
  have hlen : ∀ L, L < ps.length → gh.vs.dropLast.take L = gh.vs.take L :=
    fun L hL => take_dropLast gh.vs (by omega)
  refine ⟨⟨hGA.bgf, hGA.bestA, hGA.bgsM, hGA.gensM⟩, ?_, ?_, ?_⟩
  · show ACovFrames n nb rf r { gh with vs := gh.vs.dropLast }
      { s with path := s.path.drop 1, choices := s.choices.drop 1 } gh.vs.dropLast true (s.path.drop 1)
      (s.choices.drop 1) ls
    simp only [e1, e2, List.drop_succ_cons, List.drop_zero]
    exact ACovFrames.congr (gh := gh) (gh' := { gh with vs := gh.vs.dropLast }) (s := s)
      (s' := { s with path := ps, choices := cs }) rfl rfl (fun _ => rfl) rfl true ps cs ls hlen hB.1
  · show FrameAuxA n nb rf r { gh with vs := gh.vs.dropLast }
      { s with path := s.path.drop 1, choices := s.choices.drop 1 } gh.vs.dropLast true (s.path.drop 1)
      (s.choices.drop 1) ls
    simp only [e1, e2, List.drop_succ_cons, List.drop_zero]
    exact FrameAuxA.mono (gh := gh) (gh' := { gh with vs := gh.vs.dropLast }) (s := s)
      (s' := { s with path := ps, choices := cs }) (fun h0 => h0) rfl (fun _ _ _ _ hab => hab) rfl rfl rfl
      true ps cs ls hlen hB.2
  · intro hp
    have hp' : s.path.drop 1 = [] := hp
    rw [e1] at hp'
    simp only [List.drop_succ_cons, List.drop_zero] at hp'
    subst hp'
    have : nodeL n nb rf r gh.vs 0 = r := by simp [nodeL, IR.nodeAt]
    rw [← this]
    exact hcomp

end
end CanonF
