import Mamba.Lemmas.DistanceBiconLow2
import Mamba.Lemmas.DistanceSep
/-!
# The DFS criterion for articulation vertices is the separation property (inside one component)
-/
namespace GDist
open GraphSpec Model

/-- the state at the end of the DFS of a component: everything visited, stack empty -/
structure DFinal (h : G) (st : BicSt) (tp : Nat → Nat) : Prop where
  dt : DT h st tp
  la : LA h st tp
  hall : ∀ x, x < h.n → bvis st x
  hemp : st.toCheck = []

variable {h : G} {st : BicSt} {tp : Nat → Nat}

theorem iter_zero (tp0 : tp 0 = 0) : ∀ k, tp^[k] 0 = 0 := by
  intro k
  induction k with
  | zero => rfl
  | succ k ih => rw [Function.iterate_succ_apply', ih, tp0]

theorem anc_linear {a b z : Nat} (ha : Anc tp a z) (hb : Anc tp b z) : Anc tp a b ∨ Anc tp b a := by
  obtain ⟨j, hj⟩ := ha
  obtain ⟨k, hk⟩ := hb
  rcases Nat.le_total j k with hle | hle
  · right
    refine ⟨k - j, ?_⟩
    rw [← hj, ← Function.iterate_add_apply, Nat.sub_add_cancel hle, hk]
  · left
    refine ⟨j - k, ?_⟩
    rw [← hk, ← Function.iterate_add_apply, Nat.sub_add_cancel hle, hj]

theorem anc_parent_of_ne {c z : Nat} (ha : Anc tp c z) (hne : z ≠ c) : Anc tp c (tp z) := by
  obtain ⟨k, hk⟩ := ha
  cases k with
  | zero => exact absurd hk hne
  | succ k => exact ⟨k, by rw [← Function.iterate_succ_apply]; exact hk⟩

namespace DFinal

variable (df : DFinal h st tp)
include df

theorem fin (x : Nat) : x ∉ st.toCheck := by rw [df.hemp]; simp

/-- a proper ancestor is strictly shallower -/
theorem anc_lt {a x : Nat} (hx : x < h.n) (ha : Anc tp a x) (hne : a ≠ x) : dI st a < dI st x := by
  by_cases hx0 : x = 0
  · subst hx0
    obtain ⟨k, hk⟩ := ha
    rw [iter_zero df.dt.tp0] at hk
    exact absurd hk.symm hne
  · obtain ⟨h1, h2, _, h4⟩ := df.dt.tree x hx (df.hall x hx) hx0
    have := df.dt.anc_depth h1 h2 (anc_parent_of_ne ha (Ne.symm hne))
    omega

/-- every vertex reaches the root by tree edges -/
theorem reaches_root : ∀ (m : Nat) (x : Nat), x < h.n → dI st x = (m : Int) → tp^[m] x = 0 := by
  intro m
  induction m with
  | zero =>
    intro x hx hd
    by_contra hx0
    obtain ⟨h1, h2, _, h4⟩ := df.dt.tree x hx (df.hall x hx) hx0
    have := df.dt.dnn _ h2
    simp at hd; omega
  | succ m ih =>
    intro x hx hd
    have hx0 : x ≠ 0 := by
      intro h0; subst h0; rw [df.dt.root] at hd; omega
    obtain ⟨h1, h2, _, h4⟩ := df.dt.tree x hx (df.hall x hx) hx0
    rw [Function.iterate_succ_apply]
    exact ih (tp x) h1 (by push_cast at hd; omega)

theorem anc_root (x : Nat) (hx : x < h.n) : Anc tp 0 x := by
  have hnn := df.dt.dnn x (df.hall x hx)
  exact ⟨(dI st x).toNat, df.reaches_root _ x hx (by omega)⟩

/-- walking up the tree from `z` to its ancestor `c`, avoiding `i` -/
theorem tree_walk_up (hsym : ∀ u v, h.adj u v = h.adj v u) {i c : Nat} :
    ∀ (k : Nat) (z : Nat), z < h.n → tp^[k] z = c → (∀ j, j ≤ k → tp^[j] z ≠ i) →
      ReachIn h ((List.range h.n).erase i) z c := by
  intro k
  induction k with
  | zero =>
    intro z hz hk hne
    have hzi : z ≠ i := hne 0 (Nat.le_refl _)
    have : z = c := hk
    subst this
    exact ReachIn.refl ((List.mem_erase_of_ne hzi).2 (List.mem_range.2 hz))
  | succ k ih =>
    intro z hz hk hne
    have hzi : z ≠ i := hne 0 (Nat.zero_le _)
    have hzV : z ∈ (List.range h.n).erase i := (List.mem_erase_of_ne hzi).2 (List.mem_range.2 hz)
    rw [Function.iterate_succ_apply] at hk
    by_cases hz0 : z = 0
    · subst hz0
      rw [df.dt.tp0] at hk
      exact ih 0 hz hk (fun j hj => by
        have := hne (j + 1) (by omega)
        rwa [Function.iterate_succ_apply, df.dt.tp0] at this)
    · obtain ⟨h1, _, h3, _⟩ := df.dt.tree z hz (df.hall z hz) hz0
      have hti : tp z ≠ i := by
        have := hne 1 (by omega)
        simpa using this
      have hstep : ReachIn h ((List.range h.n).erase i) z (tp z) :=
        ⟨1, .step (.base hzV) (by rw [hsym]; exact h3) ((List.mem_erase_of_ne hti).2 (List.mem_range.2 h1))⟩
      exact hstep.trans (ih (tp z) h1 hk (fun j hj => by
        have := hne (j + 1) (by omega)
        rwa [Function.iterate_succ_apply] at this))

end DFinal

/-- `v` separates two other vertices of `g[V]` -/
def SepIn (g : G) (V : List Nat) (v : Nat) : Prop :=
  ∃ x y, x ∈ V.erase v ∧ y ∈ V.erase v ∧ ReachIn g V x y ∧ ¬ ReachIn g (V.erase v) x y

/-- the DFS criterion: a non-root vertex with a child whose lowpoint does not pass above it, or a root with two
children -/
def Crit (h : G) (st : BicSt) (tp : Nat → Nat) (i : Nat) : Prop :=
  (i ≠ 0 ∧ ∃ c, c < h.n ∧ c ≠ 0 ∧ tp c = i ∧ lo st c ≥ dI st i) ∨
  (i = 0 ∧ ∃ c1 c2, c1 ≠ c2 ∧ c1 < h.n ∧ c2 < h.n ∧ c1 ≠ 0 ∧ c2 ≠ 0 ∧ tp c1 = 0 ∧ tp c2 = 0)

namespace DFinal

variable (df : DFinal h st tp)
include df

/-- if every edge leaving the subtree of `c` (other than to `i`) stays inside, walks avoiding `i` stay inside -/
theorem stay_in_subtree {i c : Nat}
    (hexit : ∀ z w, z < h.n → Anc tp c z → h.adj z w = true → w < h.n → w ≠ i → Anc tp c w) :
    ∀ w k, WalkIn h ((List.range h.n).erase i) c w k → Anc tp c w ∧ w < h.n := by
  intro w k hw
  induction hw with
  | base hc => exact ⟨Anc.refl _ _, List.mem_range.1 (List.mem_of_mem_erase hc)⟩
  | @step u w k _ hadj hwV ih =>
    have hwn : w < h.n := List.mem_range.1 (List.mem_of_mem_erase hwV)
    have hwi : w ≠ i := by
      intro h0; subst h0
      exact (List.Nodup.mem_erase_iff List.nodup_range).1 hwV |>.1 rfl
    exact ⟨hexit u w ih.2 ih.1 hadj hwn hwi, hwn⟩

/-- the common part of the exit analysis: an edge from the subtree of `c` leads into the subtree or to a proper
ancestor of `c` -/
theorem exit_cases {c z w : Nat} (hc : c < h.n) (hz : z < h.n) (hw : w < h.n) (ha : Anc tp c z)
    (hadj : h.adj z w = true) : Anc tp c w ∨ (Anc tp w c ∧ w ≠ c) := by
  rcases df.dt.nocross z w hz hw (df.hall z hz) (df.hall w hw) hadj with h1 | h1
  · exact .inl (ha.trans h1)
  · rcases anc_linear ha h1 with h2 | h2
    · exact .inl h2
    · by_cases hwc : w = c
      · exact .inl (hwc ▸ Anc.refl _ _)
      · exact .inr ⟨h2, hwc⟩

theorem crit_sep (hsym : ∀ u v, h.adj u v = h.adj v u) {i : Nat} (hi : i < h.n)
    (hc : Crit h st tp i) : SepIn h (List.range h.n) i := by
  have hreach : ∀ x y, x < h.n → y < h.n → ReachIn h (List.range h.n) x y := by
    intro x y hx hy
    have up : ∀ z, z < h.n → ReachIn h (List.range h.n) z 0 := by
      intro z hz
      obtain ⟨k, hk⟩ := df.anc_root z hz
      have := df.tree_walk_up hsym (i := h.n) k z hz hk (fun j _ => by
        have := (df.dt.iter_vis hz (df.hall z hz) j).1; omega)
      exact reachIn_mono (fun a ha => List.mem_of_mem_erase ha) this
    exact (up x hx).trans ((up y hy).symm hsym)
  have hmemE : ∀ x, x < h.n → x ≠ i → x ∈ (List.range h.n).erase i :=
    fun x hx hne => (List.mem_erase_of_ne hne).2 (List.mem_range.2 hx)
  rcases hc with ⟨hi0, c, hcn, hc0, htc, hlc⟩ | ⟨hi0, c1, c2, hne, h1, h2, h10, h20, ht1, ht2⟩
  · -- non-root: the child `c` is separated from the parent of `i`
    obtain ⟨hpn, _, _, hdi⟩ := df.dt.tree i hi (df.hall i hi) hi0
    obtain ⟨_, _, _, hdc⟩ := df.dt.tree c hcn (df.hall c hcn) hc0
    rw [htc] at hdc
    have hci : c ≠ i := by intro h0; rw [h0] at hdc; omega
    have hpi : tp i ≠ i := by intro h0; rw [h0] at hdi; omega
    refine ⟨c, tp i, hmemE c hcn hci, hmemE _ hpn hpi, hreach c (tp i) hcn hpn, ?_⟩
    rintro ⟨k, hk⟩
    have hexit : ∀ z w, z < h.n → Anc tp c z → h.adj z w = true → w < h.n → w ≠ i → Anc tp c w := by
      intro z w hz ha hadj hw hwi
      rcases df.exit_cases hcn hz hw ha hadj with h0 | ⟨h0, hwc⟩
      · exact h0
      · exfalso
        have hwi' : Anc tp w i := by rw [← htc]; exact anc_parent_of_ne h0 (Ne.symm hwc)
        have hdw := df.anc_lt hi hwi' hwi
        have hwtp : w ≠ tp z := by
          intro h1
          by_cases hzc : z = c
          · rw [hzc, htc] at h1; exact hwi h1
          · have := anc_parent_of_ne ha hzc
            rw [← h1] at this
            -- `w` is both in the subtree of `c` and a proper ancestor of `c`
            have h3 := df.anc_lt hcn h0 hwc
            have h4 := df.dt.anc_depth hw (df.hall w hw) this
            omega
        have := df.la.lob c hcn (df.hall c hcn) (df.fin c) z w hz ha (df.hall z hz) hadj hw hwtp
        omega
    obtain ⟨hanc, _⟩ := df.stay_in_subtree hexit (tp i) k hk
    have := df.dt.anc_depth hpn (df.hall _ hpn) hanc
    omega
  · -- root with two children
    subst hi0
    refine ⟨c1, c2, hmemE c1 h1 h10, hmemE c2 h2 h20, hreach c1 c2 h1 h2, ?_⟩
    rintro ⟨k, hk⟩
    have hexit : ∀ z w, z < h.n → Anc tp c1 z → h.adj z w = true → w < h.n → w ≠ 0 → Anc tp c1 w := by
      intro z w hz ha hadj hw hw0
      rcases df.exit_cases h1 hz hw ha hadj with h0 | ⟨h0, hwc⟩
      · exact h0
      · exfalso
        have : Anc tp w 0 := by rw [← ht1]; exact anc_parent_of_ne h0 (Ne.symm hwc)
        obtain ⟨j, hj⟩ := this
        rw [iter_zero df.dt.tp0] at hj
        exact hw0 hj.symm
    obtain ⟨hanc, _⟩ := df.stay_in_subtree hexit c2 k hk
    have := anc_parent_of_ne hanc (Ne.symm hne)
    rw [ht2] at this
    obtain ⟨j, hj⟩ := this
    rw [iter_zero df.dt.tp0] at hj
    exact h10 hj.symm

/-- from a vertex to the child of `i` above it, inside that child's subtree -/
theorem reach_child (hsym : ∀ u v, h.adj u v = h.adj v u) {i c x : Nat} (hx : x < h.n) (hcn : c < h.n)
    (ha : Anc tp c x) (hnot : ¬ Anc tp c i) : ReachIn h ((List.range h.n).erase i) x c := by
  obtain ⟨k, hk⟩ := ha
  apply df.tree_walk_up hsym k x hx hk
  intro j hj hji
  apply hnot
  refine ⟨k - j, ?_⟩
  rw [← hji, ← Function.iterate_add_apply, Nat.sub_add_cancel hj, hk]

theorem sep_crit (hsym : ∀ u v, h.adj u v = h.adj v u) {i : Nat} (hi : i < h.n)
    (hs : SepIn h (List.range h.n) i) : Crit h st tp i := by
  by_contra hnc
  obtain ⟨x, y, hx, hy, _, hnr⟩ := hs
  have hmem : ∀ z, z ∈ (List.range h.n).erase i → z < h.n ∧ z ≠ i := by
    intro z hz
    obtain ⟨h1, h2⟩ := (List.Nodup.mem_erase_iff List.nodup_range).1 hz
    exact ⟨List.mem_range.1 h2, h1⟩
  obtain ⟨hxn, hxi⟩ := hmem x hx
  obtain ⟨hyn, hyi⟩ := hmem y hy
  apply hnr
  by_cases hi0 : i = 0
  · -- root with at most one child: everything else hangs below that child
    subst hi0
    have hchild : ∀ z, z < h.n → z ≠ 0 → ∃ c, c < h.n ∧ c ≠ 0 ∧ tp c = 0 ∧
        ReachIn h ((List.range h.n).erase 0) z c := by
      intro z hz hz0
      obtain ⟨c, hc1, hc2, hc3⟩ := anc_child (df.anc_root z hz) hz0
      have hcn : c < h.n := by
        obtain ⟨k, hk⟩ := hc3
        have := (df.dt.iter_vis hz (df.hall z hz) k).1
        rwa [hk] at this
      refine ⟨c, hcn, hc2, hc1, df.reach_child hsym hz hcn hc3 ?_⟩
      rintro ⟨j, hj⟩
      rw [iter_zero df.dt.tp0] at hj
      exact hc2 hj.symm
    obtain ⟨cx, hcx1, hcx2, hcx3, hrx⟩ := hchild x hxn hxi
    obtain ⟨cy, hcy1, hcy2, hcy3, hry⟩ := hchild y hyn hyi
    have : cx = cy := by
      by_contra hne
      exact hnc (.inr ⟨rfl, cx, cy, hne, hcx1, hcy1, hcx2, hcy2, hcx3, hcy3⟩)
    rw [this] at hrx
    exact hrx.trans (hry.symm hsym)
  · -- non-root without critical child: everything else is joined to the root avoiding `i`
    have h0E : (0 : Nat) ∈ (List.range h.n).erase i :=
      (List.mem_erase_of_ne (Ne.symm hi0)).2 (List.mem_range.2 (by omega))
    have up : ∀ z, z < h.n → ¬ Anc tp i z → ReachIn h ((List.range h.n).erase i) z 0 := by
      intro z hz hna
      obtain ⟨k, hk⟩ := df.anc_root z hz
      exact df.tree_walk_up hsym k z hz hk (fun j _ hji => hna ⟨j, hji⟩)
    have toroot : ∀ z, z < h.n → z ≠ i → ReachIn h ((List.range h.n).erase i) z 0 := by
      intro z hz hzi
      by_cases hanc : Anc tp i z
      · obtain ⟨c, hc1, hc2, hc3⟩ := anc_child hanc hzi
        have hcn : c < h.n := by
          obtain ⟨k, hk⟩ := hc3
          have := (df.dt.iter_vis hz (df.hall z hz) k).1
          rwa [hk] at this
        have hc0 : c ≠ 0 := by
          intro h0; rw [h0, df.dt.tp0] at hc1; exact hi0 hc1.symm
        obtain ⟨_, _, _, hdc⟩ := df.dt.tree c hcn (df.hall c hcn) hc0
        rw [hc1] at hdc
        have hlow : lo st c < dI st i := by
          by_contra hge
          exact hnc (.inl ⟨hi0, c, hcn, hc0, hc1, by omega⟩)
        have hnotci : ¬ Anc tp c i := by
          intro h1
          have := df.dt.anc_depth hi (df.hall i hi) h1
          omega
        rcases df.la.loatt c hcn (df.hall c hcn) (df.fin c) with h1 | ⟨w, a, hw, haw, _, hadj, han, _, hla⟩
        · omega
        · have hai : a ≠ i := by intro h1; rw [h1] at hla; omega
          have hnai : ¬ Anc tp i a := by
            intro h1
            have := df.dt.anc_depth han (df.hall a han) h1
            omega
          have hwi : w ≠ i := fun h1 => hnotci (h1 ▸ haw)
          have r1 := df.reach_child hsym hz hcn hc3 hnotci
          have r2 := df.reach_child hsym hw hcn haw hnotci
          have hwE : w ∈ (List.range h.n).erase i := (List.mem_erase_of_ne hwi).2 (List.mem_range.2 hw)
          have haE : a ∈ (List.range h.n).erase i := (List.mem_erase_of_ne hai).2 (List.mem_range.2 han)
          have r3 : ReachIn h ((List.range h.n).erase i) w a := ⟨1, .step (.base hwE) hadj haE⟩
          exact (r1.trans (r2.symm hsym)).trans (r3.trans (up a han hnai))
      · exact up z hz hanc
    exact (toroot x hxn hxi).trans ((toroot y hyn hyi).symm hsym)

theorem crit_iff_sep (hsym : ∀ u v, h.adj u v = h.adj v u) {i : Nat} (hi : i < h.n) :
    Crit h st tp i ↔ SepIn h (List.range h.n) i :=
  ⟨df.crit_sep hsym hi, df.sep_crit hsym hi⟩

end DFinal

end GDist
