import Mamba.Model.Tsp
/-! Helper lemmas for the C20 theorems (`Props/C20.lean`). -/
namespace Tsp

/-! ### decimal text -/

/-- a character that the tabwriter treats as ordinary text and that is not a blank -/
def Plain (c : Char) : Prop := c ≠ '\t' ∧ c ≠ '\n' ∧ c ≠ ' '

theorem digitChar_plain (d : Nat) : Plain (digitChar d) := by
  unfold digitChar Plain; split <;> decide

theorem decNat_plain (n : Nat) : ∀ c ∈ decNat n, Plain c := by
  induction n using Nat.strongRecOn with
  | _ n ih =>
    intro c hc
    rw [decNat] at hc
    split at hc
    · simp at hc; subst hc; exact digitChar_plain n
    · simp at hc
      rcases hc with hc | hc
      · exact ih (n / 10) (by omega) c hc
      · subst hc; exact digitChar_plain _

theorem decNat_ne_nil (n : Nat) : decNat n ≠ [] := by
  rw [decNat]; split <;> simp

theorem decInt_plain (x : Int) : ∀ c ∈ decInt x, Plain c := by
  intro c hc
  cases x with
  | ofNat m => exact decNat_plain m c hc
  | negSucc m =>
    simp [decInt] at hc
    rcases hc with rfl | hc
    · unfold Plain; decide
    · exact decNat_plain _ c hc

theorem decInt_ne_nil (x : Int) : decInt x ≠ [] := by
  cases x with
  | ofNat m => exact decNat_ne_nil m
  | negSucc m => simp [decInt]

/-! ### writing rows into the tabwriter never reaches the underlying writer -/

theorem twWrite_text_tab (f : Nat → WriteResult) (txt : List Char) (h : ∀ c ∈ txt, Plain c) (t : TW) (s : W) :
    twWrite f t s (txt ++ ['\t']) = (⟨[], t.done, t.cur ++ [⟨t.cell ++ txt, true⟩]⟩, s, none) := by
  induction txt generalizing t with
  | nil => simp [twWrite, twWriteChar]
  | cons c cs ih =>
    have hc := h c (by simp)
    have h1 : c ≠ '\t' := hc.1
    have h2 : c ≠ '\n' := hc.2.1
    simp only [List.cons_append, twWrite, twWriteChar, h1, h2, if_false]
    rw [ih (fun x hx => h x (by simp [hx]))]
    simp

theorem twWrite_nl (f : Nat → WriteResult) (t : TW) (s : W) (h : t.cur ≠ []) :
    twWrite f t s ['\n'] = (⟨[], t.done ++ [t.cur ++ [⟨t.cell, false⟩]], []⟩, s, none) := by
  simp [twWrite, twWriteChar, h]

/-- the cells of row `i` as the tabwriter sees them: `i` weights and the diagonal `0`, all tab-terminated, and
the empty text between the last tab and the line break -/
def rowCells (w : Nat → Nat → Int) (i : Nat) : List Cell :=
  (List.range' 0 i).map (fun j => ⟨decInt (w i j), true⟩) ++ [⟨['0'], true⟩, ⟨[], false⟩]

def rowPairs (i : Nat) : List (Nat × Nat) := (List.range' 0 i).map (fun j => (i, j))

theorem inner_eq (f : Nat → WriteResult) (w : Nat → Nat → Int) (i : Nat) :
    ∀ (k j : Nat) (done : List (List Cell)) (cur : List Cell) (s : W) (wc : List (Nat × Nat)),
    inner f w i k j ⟨⟨[], done, cur⟩, s, wc⟩ =
      ⟨⟨[], done, cur ++ (List.range' j k).map (fun j => ⟨decInt (w i j), true⟩)⟩, s,
        wc ++ (List.range' j k).map (fun j => (i, j))⟩ := by
  intro k
  induction k with
  | zero => intro j done cur s wc; simp [inner]
  | succ k ih =>
    intro j done cur s wc
    simp only [inner]
    rw [twWrite_text_tab f _ (decInt_plain _)]
    simp only [List.nil_append]
    rw [ih]
    simp [List.range'_succ]

theorem rows_eq (f : Nat → WriteResult) (w : Nat → Nat → Int) :
    ∀ (k i : Nat) (done : List (List Cell)) (s : W) (wc : List (Nat × Nat)),
    rows f w k i ⟨⟨[], done, []⟩, s, wc⟩ =
      ⟨⟨[], done ++ (List.range' i k).map (rowCells w), []⟩, s, wc ++ (List.range' i k).flatMap rowPairs⟩ := by
  intro k
  induction k with
  | zero => intro i done s wc; simp [rows]
  | succ k ih =>
    intro i done s wc
    simp only [rows]
    rw [inner_eq]
    have hplain : ∀ c ∈ ['0'], Plain c := by
      intro c hc; simp at hc; subst hc; unfold Plain; decide
    have h0 := twWrite_text_tab f ['0'] hplain
    simp only [List.cons_append, List.nil_append] at h0
    rw [h0]
    rw [twWrite_nl _ _ _ (by simp)]
    simp only [List.nil_append]
    rw [ih]
    simp [List.range'_succ, rowCells, rowPairs]

/-! ### `lib` with the row loops evaluated -/

/-- the buffered lines at `Flush` time -/
def triLines (n : Nat) (w : Nat → Nat → Int) : List Line :=
  ((List.range' 0 n).map (rowCells w)).map (fun c => ⟨c, false⟩) ++ [⟨[], true⟩]

/-- the `Write` calls of `Flush` -/
def body (n : Nat) (w : Nat → Nat → Int) : List Chunk := format [] (triLines n w)

def allPairs (n : Nat) : List (Nat × Nat) := (List.range' 0 n).flatMap rowPairs

theorem lib_unfold (n : Nat) (w : Nat → Nat → Int) (f : Nat → WriteResult) :
    lib n w f =
      match writeAll f ⟨0, []⟩ (hdrWrites n) with
      | (s3, some e) => Res.of s3 (some e) []
      | (s3, none) =>
      match writeAll0 f s3 (body n w) with
      | (s4, some e) => Res.of s4 (some e) (allPairs n)
      | (s4, none) =>
      match writeAll f s4 trailerWrites with
      | (s5, some e) => Res.of s5 (some e) (allPairs n)
      | (s5, none) => Res.of s5 none (allPairs n) := by
  simp only [lib, TW.new, rows_eq, twFlush, TW.flushChunks, TW.lines, List.nil_append, body, triLines, allPairs,
    List.length_nil, Nat.lt_irrefl, if_false]
  rcases writeAll f ⟨0, []⟩ (hdrWrites n) with ⟨s3, _ | e3⟩
  rotate_left
  · rfl
  dsimp only
  generalize writeAll0 f s3 _ = r
  rcases r with ⟨s4, _ | e⟩ <;> rfl

/-! ### error propagation -/

/-- no `Write` call with index in `[a, b)` returned an error -/
def Clean (f : Nat → WriteResult) (a b : Nat) : Prop := ∀ k, a ≤ k → k < b → ∀ c, f k ≠ .err c

theorem write_calls (f : Nat → WriteResult) (s : W) (p : List Char) : (write f s p).1.calls = s.calls + 1 := by
  unfold write; split <;> rfl

theorem write_none {f : Nat → WriteResult} {s s' : W} {p : List Char} {m : Nat}
    (h : write f s p = (s', m, none)) : ∀ c, f s.calls ≠ .err c := by
  intro c hc
  simp [write, hc] at h

theorem write_some {f : Nat → WriteResult} {s s' : W} {p : List Char} {m : Nat} {e : Err}
    (h : write f s p = (s', m, some e)) : ∃ c, f s.calls = .err c := by
  unfold write at h
  split at h
  · simp at h
  · exact ⟨_, by assumption⟩
  · simp at h

theorem write0_calls (f : Nat → WriteResult) (s : W) (p : List Char) : (write0 f s p).1.calls = s.calls + 1 := by
  have := write_calls f s p
  unfold write0
  split
  · rename_i h; rw [h] at this; exact this
  · rename_i h; rw [h] at this; split <;> exact this

theorem write0_none {f : Nat → WriteResult} {s s' : W} {p : List Char}
    (h : write0 f s p = (s', none)) : ∀ c, f s.calls ≠ .err c := by
  unfold write0 at h
  split at h
  · simp at h
  · rename_i hw
    exact write_none hw

theorem writeAll0_calls_le (f : Nat → WriteResult) (cs : List Chunk) :
    ∀ s : W, s.calls ≤ (writeAll0 f s cs).1.calls := by
  induction cs with
  | nil => intro s; simp [writeAll0]
  | cons c cs ih =>
    intro s
    have h0 := write0_calls f s c.bytes
    unfold writeAll0
    split
    · rename_i h; rw [h] at h0; simp at h0 ⊢; omega
    · rename_i s' h; rw [h] at h0; have := ih s'; simp at h0; omega

theorem writeAll0_none (f : Nat → WriteResult) (cs : List Chunk) :
    ∀ (s s' : W), writeAll0 f s cs = (s', none) → Clean f s.calls s'.calls := by
  induction cs with
  | nil =>
    intro s s' h
    simp [writeAll0] at h
    subst h
    intro k h1 h2; omega
  | cons c cs ih =>
    intro s s' h
    have h0 := write0_calls f s c.bytes
    unfold writeAll0 at h
    split at h
    · simp at h
    · rename_i s1 hw
      rw [hw] at h0
      simp at h0
      have hc := ih s1 s' h
      intro k h1 h2 c'
      by_cases hk : k = s.calls
      · subst hk; exact write0_none hw c'
      · exact hc k (by omega) h2 c'

theorem writeAll_calls_le (f : Nat → WriteResult) (ps : List (List Char)) :
    ∀ s : W, s.calls ≤ (writeAll f s ps).1.calls := by
  induction ps with
  | nil => intro s; simp [writeAll]
  | cons p ps ih =>
    intro s
    have h0 := write_calls f s p
    unfold writeAll
    split
    · rename_i h; rw [h] at h0; simp at h0 ⊢; omega
    · rename_i s' _ h; rw [h] at h0; have := ih s'; simp at h0; omega

theorem writeAll_none (f : Nat → WriteResult) (ps : List (List Char)) :
    ∀ (s s' : W), writeAll f s ps = (s', none) → Clean f s.calls s'.calls := by
  induction ps with
  | nil =>
    intro s s' h
    simp [writeAll] at h
    subst h
    intro k h1 h2; omega
  | cons p ps ih =>
    intro s s' h
    have h0 := write_calls f s p
    unfold writeAll at h
    split at h
    · simp at h
    · rename_i s1 _ hw
      rw [hw] at h0
      simp at h0
      have hc := ih s1 s' h
      intro k h1 h2 c'
      by_cases hk : k = s.calls
      · subst hk; exact write_none hw c'
      · exact hc k (by omega) h2 c'

/-- a failed header/trailer sequence failed at one of its own calls -/
theorem writeAll_some (f : Nat → WriteResult) (ps : List (List Char)) :
    ∀ (s s' : W) (e : Err), writeAll f s ps = (s', some e) →
      ∃ k, s.calls ≤ k ∧ k < s.calls + ps.length ∧ ∃ c, f k = .err c := by
  induction ps with
  | nil => intro s s' e h; simp [writeAll] at h
  | cons p ps ih =>
    intro s s' e h
    have h0 := write_calls f s p
    unfold writeAll at h
    split at h
    · rename_i hw
      exact ⟨s.calls, Nat.le_refl _, by simp, write_some hw⟩
    · rename_i s1 _ hw
      rw [hw] at h0
      simp at h0
      obtain ⟨k, h1, h2, hc⟩ := ih s1 s' e h
      exact ⟨k, by omega, by simp; omega, hc⟩

theorem lib_clean (n : Nat) (w : Nat → Nat → Int) (f : Nat → WriteResult)
    (h : (lib n w f).err = none) : Clean f 0 (lib n w f).calls := by
  rw [lib_unfold] at h ⊢
  rcases h3 : writeAll f ⟨0, []⟩ (hdrWrites n) with ⟨s3, _ | e3⟩
  rotate_left
  · rw [h3] at h; simp [Res.of] at h
  have c3 := writeAll_none f _ _ _ h3
  rw [h3] at h
  dsimp only at c3 h ⊢
  rcases h4 : writeAll0 f s3 (body n w) with ⟨s4, _ | e4⟩
  rotate_left
  · rw [h4] at h; simp [Res.of] at h
  have c4 := writeAll0_none f _ _ _ h4
  have c4' := writeAll0_calls_le f (body n w) s3
  rw [h4] at c4' h
  dsimp only at c4' h ⊢
  rcases h5 : writeAll f s4 trailerWrites with ⟨s5, _ | e5⟩
  rotate_left
  · rw [h5] at h; simp [Res.of] at h
  have c5 := writeAll_none f _ _ _ h5
  dsimp only [Res.of]
  intro k _ hk c
  by_cases k3 : k < s3.calls
  · exact c3 k (Nat.zero_le _) k3 c
  by_cases k4 : k < s4.calls
  · exact c4 k (by omega) k4 c
  · exact c5 k (by omega) hk c

/-! ### `format` on the triangular table -/

theorem takeWhile_all {α : Type} {p : α → Bool} {l : List α} (h : ∀ x ∈ l, p x = true) : l.takeWhile p = l := by
  induction l with
  | nil => rfl
  | cons a as ih =>
    simp [List.takeWhile, h a (by simp)]
    exact ih (fun x hx => h x (by simp [hx]))

theorem dropWhile_all {α : Type} {p : α → Bool} {l : List α} (h : ∀ x ∈ l, p x = true) : l.dropWhile p = [] := by
  induction l with
  | nil => rfl
  | cons a as ih =>
    simp [List.dropWhile, h a (by simp)]
    exact ih (fun x hx => h x (by simp [hx]))

theorem takeWhile_none {α : Type} {p : α → Bool} {l : List α} (h : ∀ x ∈ l, p x = false) : l.takeWhile p = [] := by
  cases l with
  | nil => rfl
  | cons a as => simp [List.takeWhile, h a (by simp)]

theorem dropWhile_none {α : Type} {p : α → Bool} {l : List α} (h : ∀ x ∈ l, p x = false) : l.dropWhile p = l := by
  cases l with
  | nil => rfl
  | cons a as => simp [List.dropWhile, h a (by simp)]

def rowL (w : Nat → Nat → Int) (i : Nat) : Line := ⟨rowCells w i, false⟩
def lastL : Line := ⟨[], true⟩

/-- rows `k, k+1, …, k+m-1` -/
def rowsFrom (w : Nat → Nat → Int) (k m : Nat) : List Line := (List.range' k m).map (rowL w)

theorem triLines_eq (n : Nat) (w : Nat → Nat → Int) : triLines n w = rowsFrom w 0 n ++ [lastL] := by
  simp [triLines, rowsFrom, rowL, lastL, List.map_map, Function.comp_def]

theorem rowCells_length (w : Nat → Nat → Int) (i : Nat) : (rowCells w i).length = i + 2 := by
  simp [rowCells]

theorem hasCell_rowL (w : Nat → Nat → Int) (c i : Nat) : hasCell c (rowL w i) = decide (c < i + 1) := by
  simp [hasCell, rowL, rowCells_length]

theorem format_nil (ws : List Nat) : format ws [] = [] := by
  rw [format]; simp [writeLines]

theorem hasCell_rowsFrom (w : Nat → Nat → Int) (c k m : Nat) (h : c < k + 1) :
    ∀ l ∈ rowsFrom w k m, hasCell c l = true := by
  intro l hl
  simp [rowsFrom] at hl
  obtain ⟨i, hi, rfl⟩ := hl
  simp [hasCell_rowL] at *
  omega

/-- one column step of `format`: the first row has no cell in column `k+1`, all later rows do and form one block -/
theorem format_step (w : Nat → Nat → Int) (ws : List Nat) (k m : Nat) (hws : ws.length = k + 1) :
    format ws (rowsFrom w k (m + 1)) =
      writeLine ws (rowL w k) ++
        (if m = 0 then [] else format (ws ++ [blockWidth (k + 1) (rowsFrom w (k + 1) m)]) (rowsFrom w (k + 1) m)) := by
  have hsplit : rowsFrom w k (m + 1) = rowL w k :: rowsFrom w (k + 1) m := by
    simp [rowsFrom, List.range'_succ]
  have hrest := hasCell_rowsFrom w (k + 1) (k + 1) m (by omega)
  have hrest' : ∀ l ∈ rowsFrom w (k + 1) m, (!hasCell (k + 1) l) = false := by
    intro l hl; simp [hrest l hl]
  have h0 : (!hasCell (k + 1) (rowL w k)) = true := by simp [hasCell_rowL]
  rw [format, hws, hsplit]
  simp only [List.takeWhile_cons, List.dropWhile_cons, h0, if_true, takeWhile_none hrest', dropWhile_none hrest']
  by_cases hm : m = 0
  · subst hm
    simp [rowsFrom, writeLines]
  · have hne : rowsFrom w (k + 1) m ≠ [] := by
      cases m with
      | zero => exact absurd rfl hm
      | succ m => simp [rowsFrom, List.range'_succ]
    simp only [hne, dite_false, hm, if_false, takeWhile_all hrest, dropWhile_all hrest, format_nil, List.append_nil]
    simp [writeLines]

/-- the width of column `j`: one block over rows `j .. n-1` -/
def colW (n : Nat) (w : Nat → Nat → Int) (j : Nat) : Nat := blockWidth j (rowsFrom w j (n - j))

/-- the widths of columns `0 .. i` (those in force when row `i` is printed) -/
def widthsUpTo (n : Nat) (w : Nat → Nat → Int) (i : Nat) : List Nat := (List.range' 0 (i + 1)).map (colW n w)

theorem widthsUpTo_succ (n : Nat) (w : Nat → Nat → Int) (i : Nat) :
    widthsUpTo n w (i + 1) = widthsUpTo n w i ++ [colW n w (i + 1)] := by
  simp [widthsUpTo, List.range'_concat]

theorem format_rows (n : Nat) (w : Nat → Nat → Int) :
    ∀ (m k : Nat), k + m + 1 = n →
      format (widthsUpTo n w k) (rowsFrom w k (m + 1)) =
        (List.range' k (m + 1)).flatMap (fun i => writeLine (widthsUpTo n w i) (rowL w i)) := by
  intro m
  induction m with
  | zero =>
    intro k _
    rw [format_step w _ k 0 (by simp [widthsUpTo])]
    simp
  | succ m ih =>
    intro k hk
    rw [format_step w _ k (m + 1) (by simp [widthsUpTo])]
    have hcw : blockWidth (k + 1) (rowsFrom w (k + 1) (m + 1)) = colW n w (k + 1) := by
      have : n - (k + 1) = m + 1 := by omega
      simp [colW, this]
    rw [hcw, ← widthsUpTo_succ, if_neg (by omega), ih (k + 1) (by omega)]
    rw [List.range'_succ (s := k) (n := m + 1)]
    simp

theorem format_last : format [] [lastL] = [Chunk.tail] := by
  rw [format]
  simp [hasCell, lastL, writeLines, writeLine, writeCells]

theorem takeWhile_append_single {α : Type} {p : α → Bool} {l : List α} {x : α}
    (h : ∀ y ∈ l, p y = true) (hx : p x = false) : (l ++ [x]).takeWhile p = l := by
  induction l with
  | nil => simp [hx]
  | cons a as ih =>
    simp [h a (by simp)]
    exact ih (fun y hy => h y (by simp [hy]))

theorem dropWhile_append_single {α : Type} {p : α → Bool} {l : List α} {x : α}
    (h : ∀ y ∈ l, p y = true) (hx : p x = false) : (l ++ [x]).dropWhile p = [x] := by
  induction l with
  | nil => simp [hx]
  | cons a as ih =>
    simp [h a (by simp)]
    exact ih (fun y hy => h y (by simp [hy]))

/-- **The tabwriter on the triangular table.**  Row `i` is printed with the widths of columns `0..i`, each the
maximum over rows `j..n-1` of the cell width plus the padding; after the last row comes the empty `Write`. -/
theorem body_eq (n : Nat) (w : Nat → Nat → Int) :
    body n w = (List.range' 0 n).flatMap (fun i => writeLine (widthsUpTo n w i) (rowL w i)) ++ [Chunk.tail] := by
  rw [body, triLines_eq]
  cases n with
  | zero => simp [rowsFrom, format_last]
  | succ m =>
    have hall := hasCell_rowsFrom w 0 0 (m + 1) (by omega)
    have hall' : ∀ l ∈ rowsFrom w 0 (m + 1), (!hasCell 0 l) = false := by
      intro l hl; simp [hall l hl]
    have hsplit : rowsFrom w 0 (m + 1) = rowL w 0 :: rowsFrom w 1 m := by
      simp [rowsFrom, List.range'_succ]
    have hlast : hasCell 0 lastL = false := by simp [hasCell, lastL]
    have hne : rowsFrom w 0 (m + 1) ++ [lastL] ≠ [] := by simp
    have htw : (rowsFrom w 0 (m + 1) ++ [lastL]).takeWhile (fun l => !hasCell 0 l) = [] := by
      rw [hsplit]; simp [hasCell_rowL]
    have hdw : (rowsFrom w 0 (m + 1) ++ [lastL]).dropWhile (fun l => !hasCell 0 l) =
        rowsFrom w 0 (m + 1) ++ [lastL] := by
      rw [hsplit]; simp [hasCell_rowL]
    rw [format]
    simp only [List.length_nil, htw, hdw, hne, dite_false, takeWhile_append_single hall hlast,
      dropWhile_append_single hall hlast, format_last, writeLines, List.flatMap_nil, List.nil_append]
    have hw0 : [blockWidth 0 (rowsFrom w 0 (m + 1))] = widthsUpTo (m + 1) w 0 := by
      simp [widthsUpTo, colW]
    rw [hw0, format_rows (m + 1) w m 0 (by omega)]

/-! ### the calls of `weights` -/

theorem mem_allPairs (n : Nat) (p : Nat × Nat) : p ∈ allPairs n ↔ p.2 < p.1 ∧ p.1 < n := by
  simp only [allPairs, rowPairs, List.mem_flatMap, List.mem_map, List.mem_range'_1]
  constructor
  · rintro ⟨i, hi, j, hj, rfl⟩
    simp only; omega
  · intro h
    exact ⟨p.1, by omega, p.2, by omega, rfl⟩

theorem allPairs_nodup (n : Nat) : (allPairs n).Nodup := by
  unfold allPairs List.Nodup
  rw [List.pairwise_flatMap]
  constructor
  · intro i _
    unfold rowPairs
    rw [List.pairwise_map]
    have := List.nodup_range' (s := 0) (n := i) 1
    refine List.Pairwise.imp ?_ this
    intro a b hab h
    exact hab (by simpa using h)
  · have := List.nodup_range' (s := 0) (n := n) 1
    refine List.Pairwise.imp ?_ this
    intro a b hab x hx y hy hxy
    simp only [rowPairs, List.mem_map] at hx hy
    obtain ⟨_, _, rfl⟩ := hx
    obtain ⟨_, _, rfl⟩ := hy
    exact hab (by simpa using congrArg Prod.fst hxy)

theorem allPairs_eq (n : Nat) :
    allPairs n = (List.range n).flatMap (fun i => (List.range i).map (fun j => (i, j))) := by
  simp only [allPairs, List.range_eq_range']
  rfl

theorem lib_wcalls (n : Nat) (w : Nat → Nat → Int) (f : Nat → WriteResult) :
    ((lib n w f).wcalls = [] ∧ ∃ k, k < (hdrWrites n).length ∧ ∃ c, f k = .err c) ∨
      (lib n w f).wcalls = allPairs n := by
  rw [lib_unfold]
  rcases h3 : writeAll f ⟨0, []⟩ (hdrWrites n) with ⟨s3, _ | e3⟩
  rotate_left
  · left
    obtain ⟨k, _, h2, hc⟩ := writeAll_some f _ _ _ _ h3
    exact ⟨rfl, k, by simpa using h2, hc⟩
  dsimp only
  right
  rcases writeAll0 f s3 (body n w) with ⟨s4, _ | e4⟩
  · dsimp only
    rcases writeAll f s4 trailerWrites with ⟨s5, _ | e5⟩ <;> rfl
  · rfl

theorem rowCells_congr (w w' : Nat → Nat → Int) (i : Nat) (h : ∀ j, j < i → w i j = w' i j) :
    rowCells w i = rowCells w' i := by
  unfold rowCells
  congr 1
  apply List.map_congr_left
  intro j hj
  rw [List.mem_range'_1] at hj
  rw [h j (by omega)]

theorem body_congr (n : Nat) (w w' : Nat → Nat → Int) (h : ∀ i j, j < i → i < n → w i j = w' i j) :
    body n w = body n w' := by
  unfold body triLines
  congr 3
  apply List.map_congr_left
  intro i hi
  rw [List.mem_range'_1] at hi
  exact rowCells_congr w w' i (fun j hj => h i j hj (by omega))

/-! ### no silent truncation -/

theorem write_none_ok {f : Nat → WriteResult} {s s' : W} {p : List Char} {m : Nat}
    (hs : ∀ k c, f k ≠ .shortNil c) (h : write f s p = (s', m, none)) : s' = ⟨s.calls + 1, s.out ++ p⟩ := by
  unfold write at h
  split at h
  · simp at h; exact h.1.symm
  · simp at h
  · rename_i c hc; exact absurd hc (hs _ c)

theorem writeAll0_none_ok {f : Nat → WriteResult} (hs : ∀ k c, f k ≠ .shortNil c) (cs : List Chunk) :
    ∀ (s s' : W), writeAll0 f s cs = (s', none) →
      s' = ⟨s.calls + cs.length, s.out ++ cs.flatMap Chunk.bytes⟩ := by
  induction cs with
  | nil => intro s s' h; simp [writeAll0] at h; subst h; simp
  | cons c cs ih =>
    intro s s' h
    unfold writeAll0 at h
    split at h
    · simp at h
    · rename_i s1 hw
      have hs1 : s1 = ⟨s.calls + 1, s.out ++ c.bytes⟩ := by
        unfold write0 at hw
        split at hw
        · simp at hw
        · rename_i s2 m hw2
          have := write_none_ok hs hw2
          split at hw
          · simp at hw
          · simp at hw; rw [← hw]; exact this
      rw [ih s1 s' h, hs1]
      simp
      omega

theorem writeAll_none_ok {f : Nat → WriteResult} (hs : ∀ k c, f k ≠ .shortNil c) (ps : List (List Char)) :
    ∀ (s s' : W), writeAll f s ps = (s', none) → s' = ⟨s.calls + ps.length, s.out ++ ps.flatten⟩ := by
  induction ps with
  | nil => intro s s' h; simp [writeAll] at h; subst h; simp
  | cons p ps ih =>
    intro s s' h
    unfold writeAll at h
    split at h
    · simp at h
    · rename_i s1 _ hw
      rw [ih s1 s' h, write_none_ok hs hw]
      simp
      omega

end Tsp
