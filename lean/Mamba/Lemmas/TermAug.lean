import Mathlib.Data.Nat.Choose.Basic
import Mamba.Lemmas.BridgeSpec
namespace Search
open Disjoint GSearch GraphSpec

theorem choose_eq : ∀ n k, choose n k = Nat.choose n k
  | _, 0 => by simp [choose]
  | 0, k + 1 => by simp [choose]
  | n + 1, k + 1 => by simp only [choose, choose_eq n k, choose_eq n (k + 1), Nat.choose_succ_succ]

theorem choose_cap {nv n : Nat} (h : nv ≤ n) (k : Nat) : choose nv k ≤ choose n (n / 2) := by
  rw [choose_eq, choose_eq]
  exact Nat.le_trans (Nat.choose_le_choose k h) (Nat.choose_le_middle k n)

variable {O : Oracle} {n : Nat}

theorem sizeLoop_total {g : DG} {gens : List (Array Nat)} (hg : GensAut g gens) (hle : g.nv ≤ n) :
    ∀ (ks : List Nat) (ch : Array Nat) (num : Nat), ∃ r, sizeLoop n g.nv gens ks ch num = .ok r
  | [], ch, num => ⟨_, rfl⟩
  | k :: ks, ch, num => by
    simp only [sizeLoop]
    rw [if_neg (Nat.not_lt.2 (choose_cap hle k))]
    have hN : choose g.nv k = (colex g.nv k).length := (colex_length g.nv k).symm
    have hsubs : ∀ ci ∈ (colex g.nv k).zipIdx, IsSub g.nv k ci.1 ∧ ci.2 < choose g.nv k := by
      rintro ⟨c, i⟩ hci
      obtain ⟨hi, he⟩ := mem_zipIdx_colex hci
      exact ⟨he ▸ (mem_colex g.nv k _).1 (List.getElem_mem hi), hN ▸ hi⟩
    obtain ⟨d', f, t⟩ := unionPass_tracks hN gens hg.ok _ [] _ hsubs (tracks_new _)
    have : Disjoint.new (choose g.nv k) = Array.replicate (choose g.nv k) (-1) := rfl
    rw [this] at f
    rw [f]
    simp only
    rw [rootPass_form d' _ ch num (fun ci hci => by rw [t.2.1]; exact (hsubs ci hci).2)]
    simp only
    exact sizeLoop_total hg hle ks _ _

/-- `addAugmentations` does not panic on the graphs the search builds -/
theorem addAugmentations_total (hO : OracleSpec O n) {g : DG} (hb : Built g) (hlt : g.nv < n) {c : Option Ans}
    (hc : c = none ∨ ∃ P x, Built P ∧ InRange P x ∧ AccK O n P x g c) (base : Array Nat) :
    ∃ new c', addAugmentations O n g base c = .ok (base ++ new, c', new.size) := by
  have key : ∃ r, addAugmentations O n g #[] c = .ok r := by
    have hpos := hb.pos
    have hd0 : g.degs[0]? = some (g.degs[0]'(by rw [hb.sized.degs]; omega)) :=
      Array.getElem?_eq_getElem (by rw [hb.sized.degs]; omega)
    have fin : ∀ a1 : Ans, AutData g a1.orbits a1.gens → ∃ r,
        (match sizeLoop n g.nv a1.gens (List.range' 2
            ((Array.foldl (fun m v => if v < m then v else m) (g.degs[0]'(by rw [hb.sized.degs]; omega)) g.degs + 1).toNat - 1))
            (orbitRoots a1.orbits (#[].push 0) 1).1 (orbitRoots a1.orbits (#[].push 0) 1).2 with
          | Outcome.ok (ch2, num2) => Outcome.ok (ch2, some a1, num2)
          | Outcome.panic => Outcome.panic
          | Outcome.outOfFuel => Outcome.outOfFuel) = Outcome.ok r := by
      intro a1 hd
      obtain ⟨r, hr⟩ := sizeLoop_total hd.gensAut (Nat.le_of_lt hlt) (List.range' 2
        ((Array.foldl (fun m v => if v < m then v else m) (g.degs[0]'(by rw [hb.sized.degs]; omega)) g.degs + 1).toNat - 1))
        (orbitRoots a1.orbits (#[].push 0) 1).1 (orbitRoots a1.orbits (#[].push 0) 1).2
      rw [hr]
      exact ⟨_, rfl⟩
    cases c with
    | none =>
      obtain ⟨a, ha⟩ := hO.total hb (Nat.le_of_lt hlt)
      unfold addAugmentations
      simp only [minInts, hd0, ha]
      exact fin a (autData_of_answer hO hb ha)
    | some c0 =>
      rcases hc with hc | ⟨P, x, _, _, hacc⟩
      · cases hc
      · unfold addAugmentations
        simp only [minInts, hd0]
        exact fin c0 (autData_of_cache hO hb hacc.2)
  obtain ⟨⟨ch', c', num⟩, hr⟩ := key
  obtain ⟨new, -, -, h3⟩ := addAugmentations_append O n g c #[] hr
  exact ⟨new, c', h3 base⟩

end Search
