import Mamba.Lemmas.CliqueColourLine
import Mathlib.Tactic.Ring
/-! Helper lemmas for C09: deletion–contraction. `evalPoly (chromaticPolynomial g) k = countColourings g k`. -/
namespace CliqueColour
open GraphSpec

/-! ### the list of proper colourings -/

/-- all proper colourings of `g` with colours `< k` -/
def Cols (g : G) (k : Nat) : List (List Nat) := (exts k g.n []).filter (properB g)

theorem mem_Cols {g : G} {k : Nat} {c : List Nat} :
    c ∈ Cols g k ↔ c.length = g.n ∧ (∀ x ∈ c, x < k) ∧ ProperUpTo g c := by
  rw [Cols, List.mem_filter, mem_exts, properB_iff]
  constructor
  · rintro ⟨⟨s, rfl, hl, hk⟩, hp⟩
    exact ⟨by simpa using hl, by simpa using hk, hp⟩
  · rintro ⟨hl, hk, hp⟩
    exact ⟨⟨c, by simp, hl, hk⟩, hp⟩

theorem nodup_Cols (g : G) (k : Nat) : (Cols g k).Nodup := (nodup_exts _ _).sublist List.filter_sublist

theorem countColourings_eq_length {g : G} (hw : g.WF) (k : Nat) : countColourings g k = (Cols g k).length :=
  countFrom_eq hw g.n [] (by intro u v hu; simp at hu)

theorem length_eq_of_mem_iff {α : Type} [DecidableEq α] {l₁ l₂ : List α} (h₁ : l₁.Nodup) (h₂ : l₂.Nodup)
    (h : ∀ a, a ∈ l₁ ↔ a ∈ l₂) : l₁.length = l₂.length :=
  ((List.perm_ext_iff_of_nodup h₁ h₂).2 h).length_eq

/-! ### lists as tables -/

def tab (m : Nat) (f : Nat → Nat) : List Nat := (List.range m).map f

theorem tab_length (m : Nat) (f : Nat → Nat) : (tab m f).length = m := by simp [tab]

theorem tab_getD {m : Nat} {f : Nat → Nat} {x : Nat} (hx : x < m) : (tab m f).getD x 0 = f x := by
  simp [tab, List.getD_eq_getElem?_getD, List.getElem?_map, List.getElem?_range hx]

theorem mem_tab {m : Nat} {f : Nat → Nat} {y : Nat} : y ∈ tab m f ↔ ∃ x, x < m ∧ f x = y := by
  simp [tab]

theorem eq_tab {c : List Nat} : c = tab c.length (fun x => c.getD x 0) := by
  apply List.ext_getElem
  · simp [tab]
  · intro i h1 h2
    simp [tab, List.getD_eq_getElem?_getD, List.getElem?_eq_getElem h1]

theorem list_ext_getD {c d : List Nat} (hl : c.length = d.length)
    (h : ∀ x, x < c.length → c.getD x 0 = d.getD x 0) : c = d := by
  rw [eq_tab (c := c), eq_tab (c := d), ← hl]
  simp only [tab]
  apply List.map_congr_left
  intro x hx
  exact h x (List.mem_range.1 hx)

theorem getD_mem {c : List Nat} {x : Nat} (hx : x < c.length) : c.getD x 0 ∈ c := by
  rw [List.getD_eq_getElem?_getD, List.getElem?_eq_getElem hx, Option.getD_some]
  exact List.getElem_mem hx

/-! ### well-formedness of the edited graphs; `tabulate` is the identity on well-formed graphs -/

theorem tabulate_eq {g : G} (hw : g.WF) : tabulate g = g := by
  have h1 : (tabulate g).adj = g.adj := by
    funext u v; exact tabulate_adj_wf hw u v
  have h2 : (tabulate g).n = g.n := rfl
  cases hg : tabulate g with
  | mk n adj =>
    cases g with
    | mk n' adj' =>
      rw [hg] at h1 h2
      simp only at h1 h2
      subst h1; subst h2; rfl

theorem removeEdge_wf {g : G} (hw : g.WF) (i j : Nat) : (removeEdge g i j).WF where
  symm := fun u v => by
    simp only [removeEdge]
    rw [hw.symm u v]
    congr 2
    rw [Bool.eq_iff_iff]
    simp only [Bool.or_eq_true, Bool.and_eq_true, beq_iff_eq]
    omega
  irrefl := fun v => by simp [removeEdge, hw.irrefl]
  supp := fun u v h => by
    simp only [removeEdge, Bool.and_eq_true] at h
    exact hw.supp u v h.1

/-- old label of vertex `x` of the contracted graph -/
def upj (j x : Nat) : Nat := if x < j then x else x + 1

theorem contract_adj (g : G) (i j u v : Nat) :
    (contract g i j).adj u v =
      (decide (u < g.n - 1) && decide (v < g.n - 1) &&
        (g.adj (upj j u) (upj j v) || (upj j u == i && upj j v != i && g.adj j (upj j v)) ||
          (upj j v == i && upj j u != i && g.adj j (upj j u)))) := rfl

theorem contract_wf {g : G} (hw : g.WF) (i j : Nat) : (contract g i j).WF where
  symm := fun u v => by
    rw [contract_adj, contract_adj, hw.symm (upj j u) (upj j v)]
    rw [Bool.eq_iff_iff]
    simp only [Bool.and_eq_true, Bool.or_eq_true, decide_eq_true_eq, beq_iff_eq, bne_iff_ne]
    tauto
  irrefl := fun v => by
    rw [contract_adj, hw.irrefl]
    cases h : (upj j v == i) <;> simp [bne, h]
  supp := fun u v h => by
    rw [contract_adj] at h
    simp only [Bool.and_eq_true, decide_eq_true_eq] at h
    exact ⟨h.1.1, h.1.2⟩

/-! ### deletion–contraction for the number of colourings -/

theorem removeEdge_adj (g : G) (i j u v : Nat) :
    (removeEdge g i j).adj u v = (g.adj u v && !((u == i && v == j) || (u == j && v == i))) := rfl

theorem removeEdge_adj_true {g : G} {i j u v : Nat} :
    (removeEdge g i j).adj u v = true ↔ g.adj u v = true ∧ ¬ (u = i ∧ v = j) ∧ ¬ (u = j ∧ v = i) := by
  rw [removeEdge_adj]
  simp only [Bool.and_eq_true, Bool.not_eq_true', Bool.or_eq_false_iff, Bool.and_eq_false_imp, beq_iff_eq,
    beq_eq_false_iff_ne, ne_eq]
  tauto

theorem dc_part1 {g : G} (hw : g.WF) {i j : Nat} (hadj : g.adj i j = true) (k : Nat) :
    ((Cols (removeEdge g i j) k).filter (fun c => c.getD i 0 != c.getD j 0)).length = (Cols g k).length := by
  have hs := hw.supp i j hadj
  apply length_eq_of_mem_iff ((nodup_Cols _ _).sublist List.filter_sublist) (nodup_Cols _ _)
  intro c
  rw [List.mem_filter, mem_Cols, mem_Cols, bne_iff_ne]
  constructor
  · rintro ⟨⟨hl, hk, hp⟩, hne⟩
    refine ⟨hl, hk, fun u v hu hv ha => ?_⟩
    by_cases h1 : u = i ∧ v = j
    · rw [h1.1, h1.2]; exact hne
    · by_cases h2 : u = j ∧ v = i
      · rw [h2.1, h2.2]; exact fun h => hne h.symm
      · exact hp u v hu hv (removeEdge_adj_true.2 ⟨ha, h1, h2⟩)
  · rintro ⟨hl, hk, hp⟩
    have hl' : c.length = g.n := hl
    exact ⟨⟨hl, hk, fun u v hu hv ha => hp u v hu hv (removeEdge_adj_true.1 ha).1⟩,
      hp i j (by omega) (by omega) hadj⟩

/-- new label of the old vertex `y ≠ j` -/
def dnj (j y : Nat) : Nat := if y < j then y else y - 1

/-- colouring of the contracted graph from a colouring of `g` -/
def down (j : Nat) (c : List Nat) : List Nat := tab (c.length - 1) (fun a => c.getD (upj j a) 0)

/-- colouring of `g` (with `i` and `j` coloured alike) from a colouring of the contracted graph -/
def lift (i j n : Nat) (d : List Nat) : List Nat :=
  tab n (fun x => d.getD (dnj j (if x = j then i else x)) 0)

theorem upj_ne (j a : Nat) : upj j a ≠ j := by unfold upj; split <;> omega
theorem dnj_upj (j a : Nat) : dnj j (upj j a) = a := by
  simp only [upj, dnj]; split_ifs <;> omega
theorem upj_dnj {j y : Nat} (h : y ≠ j) : upj j (dnj j y) = y := by
  simp only [upj, dnj]; split_ifs <;> omega
theorem upj_lt {j a n : Nat} (h : a < n - 1) : upj j a < n := by unfold upj; split <;> omega
theorem dnj_lt {j y n : Nat} (hy : y < n) (hj : j < n) (h : y ≠ j) : dnj j y < n - 1 := by
  unfold dnj; split <;> omega

theorem dc_part2 {g : G} (hw : g.WF) {i j : Nat} (hadj : g.adj i j = true) (hji : j ≠ i) (k : Nat) :
    ((Cols (removeEdge g i j) k).filter (fun c => !(c.getD i 0 != c.getD j 0))).length =
      (Cols (contract g i j) k).length := by
  have hs := hw.supp i j hadj
  have hi : i < g.n := hs.1
  have hj : j < g.n := hs.2
  have hnd : ((Cols (removeEdge g i j) k).filter (fun c => !(c.getD i 0 != c.getD j 0))).Nodup :=
    (nodup_Cols _ _).sublist List.filter_sublist
  have hmem : ∀ c, c ∈ (Cols (removeEdge g i j) k).filter (fun c => !(c.getD i 0 != c.getD j 0)) ↔
      (c.length = g.n ∧ (∀ x ∈ c, x < k) ∧ ProperUpTo (removeEdge g i j) c) ∧ c.getD i 0 = c.getD j 0 := by
    intro c
    rw [List.mem_filter, mem_Cols]
    simp only [Bool.not_eq_true', bne_eq_false_iff_eq]
    rfl
  rw [← List.length_map (f := down j)]
  apply length_eq_of_mem_iff _ (nodup_Cols _ _)
  · intro d
    rw [List.mem_map, mem_Cols]
    constructor
    · rintro ⟨c, hc, rfl⟩
      obtain ⟨⟨hl, hk, hp⟩, heq⟩ := (hmem c).1 hc
      have hdl : (down j c).length = g.n - 1 := by rw [down, tab_length, hl]
      refine ⟨hdl, fun x hx => ?_, fun a b ha hb hab => ?_⟩
      · obtain ⟨a, ha, rfl⟩ := mem_tab.1 hx
        exact hk _ (getD_mem (by rw [hl]; rw [hl] at ha; exact upj_lt ha))
      · rw [hdl] at ha hb
        have hua : upj j a < c.length := by rw [hl]; exact upj_lt ha
        have hub : upj j b < c.length := by rw [hl]; exact upj_lt hb
        rw [down, tab_getD (by rw [hl]; exact ha), tab_getD (by rw [hl]; exact hb)]
        rw [contract_adj] at hab
        simp only [Bool.and_eq_true, Bool.or_eq_true, decide_eq_true_eq, beq_iff_eq, bne_iff_ne] at hab
        rcases hab.2 with (h | h) | h
        · exact hp _ _ hua hub (removeEdge_adj_true.2 ⟨h, fun h' => upj_ne j b h'.2, fun h' => upj_ne j a h'.1⟩)
        · rw [h.1.1, heq]
          refine hp j _ (by omega) hub (removeEdge_adj_true.2 ⟨h.2, fun h' => hji h'.1, fun h' => h.1.2 h'.2⟩)
        · rw [h.1.1, heq]
          have := hp j _ (by omega) hua (removeEdge_adj_true.2 ⟨h.2, fun h' => hji h'.1, fun h' => h.1.2 h'.2⟩)
          exact fun e => this e.symm
    · rintro ⟨hl, hk, hp⟩
      have hl' : d.length = g.n - 1 := hl
      have hget : ∀ x, x < g.n → (lift i j g.n d).getD x 0 = d.getD (dnj j (if x = j then i else x)) 0 :=
        fun x hx => tab_getD hx
      have hrep : ∀ x, x < g.n → dnj j (if x = j then i else x) < g.n - 1 := by
        intro x hx
        split
        · exact dnj_lt hi hj (Ne.symm hji)
        · exact dnj_lt hx hj (by assumption)
      refine ⟨lift i j g.n d, (hmem _).2 ⟨⟨by rw [lift, tab_length], fun y hy => ?_, fun u v hu hv ha => ?_⟩, ?_⟩, ?_⟩
      · obtain ⟨x, hx, rfl⟩ := mem_tab.1 hy
        exact hk _ (getD_mem (by rw [hl']; exact hrep x hx))
      · rw [lift, tab_length] at hu hv
        rw [hget u hu, hget v hv]
        obtain ⟨hg, h1, h2⟩ := removeEdge_adj_true.1 ha
        refine hp _ _ (by rw [hl']; exact hrep u hu) (by rw [hl']; exact hrep v hv) ?_
        rw [contract_adj]
        simp only [Bool.and_eq_true, Bool.or_eq_true, decide_eq_true_eq, beq_iff_eq, bne_iff_ne]
        refine ⟨⟨hrep u hu, hrep v hv⟩, ?_⟩
        by_cases huj : u = j <;> by_cases hvj : v = j
        · subst huj; subst hvj; rw [hw.irrefl] at hg; cases hg
        · subst huj
          have hvi : v ≠ i := fun h => h2 ⟨rfl, h⟩
          rw [if_pos rfl, if_neg hvj, upj_dnj (Ne.symm hji), upj_dnj hvj]
          exact Or.inl (Or.inr ⟨⟨rfl, hvi⟩, hg⟩)
        · subst hvj
          have hui : u ≠ i := fun h => h1 ⟨h, rfl⟩
          rw [if_pos rfl, if_neg huj, upj_dnj (Ne.symm hji), upj_dnj huj]
          exact Or.inr ⟨⟨rfl, hui⟩, by rw [hw.symm]; exact hg⟩
        · rw [if_neg huj, if_neg hvj, upj_dnj huj, upj_dnj hvj]
          exact Or.inl (Or.inl hg)
      · rw [hget i hi, hget j hj, if_neg (Ne.symm hji), if_pos rfl]
      · apply list_ext_getD
        · rw [down, tab_length, lift, tab_length, hl']
        · intro a ha
          rw [down, tab_length, lift, tab_length] at ha
          rw [down, lift, tab_length, tab_getD ha, ← lift, hget _ (upj_lt ha), if_neg (upj_ne j a), dnj_upj]
  · refine List.Nodup.map_on ?_ hnd
    intro c1 hc1 c2 hc2 he
    obtain ⟨⟨hl1, _, _⟩, heq1⟩ := (hmem c1).1 hc1
    obtain ⟨⟨hl2, _, _⟩, heq2⟩ := (hmem c2).1 hc2
    have hpt : ∀ a, a < g.n - 1 → c1.getD (upj j a) 0 = c2.getD (upj j a) 0 := by
      intro a ha
      have h1 : (down j c1).getD a 0 = c1.getD (upj j a) 0 := by rw [down, tab_getD (by rw [hl1]; exact ha)]
      have h2 : (down j c2).getD a 0 = c2.getD (upj j a) 0 := by rw [down, tab_getD (by rw [hl2]; exact ha)]
      rw [← h1, ← h2, he]
    have hne : ∀ x, x < g.n → x ≠ j → c1.getD x 0 = c2.getD x 0 := by
      intro x hx hxj
      have := hpt (dnj j x) (dnj_lt hx hj hxj)
      rwa [upj_dnj hxj] at this
    apply list_ext_getD (by rw [hl1, hl2])
    intro x hx
    rw [hl1] at hx
    by_cases hxj : x = j
    · subst hxj
      rw [← heq1, ← heq2]
      exact hne i hi (Ne.symm hji)
    · exact hne x hx hxj

theorem deletion_contraction {g : G} (hw : g.WF) {i j : Nat} (hadj : g.adj i j = true) (k : Nat) :
    countColourings (removeEdge g i j) k = countColourings g k + countColourings (contract g i j) k := by
  have hji : j ≠ i := by
    intro h; subst h; rw [hw.irrefl] at hadj; cases hadj
  rw [countColourings_eq_length (removeEdge_wf hw i j), countColourings_eq_length hw,
    countColourings_eq_length (contract_wf hw i j), ← dc_part1 hw hadj k, ← dc_part2 hw hadj hji k]
  exact List.length_eq_length_filter_add _

/-! ### graphs without edges -/

theorem adj_false_of_m_zero {g : G} (hw : g.WF) (hm : g.m = 0) (u v : Nat) : g.adj u v = false := by
  cases h : g.adj u v
  · rfl
  · have := opair_mem hw h
    have he : g.edges = [] := List.length_eq_zero_iff.1 hm
    rw [he] at this
    cases this

theorem sumList_const {α : Type} (l : List α) (a : Nat) : sumList (l.map fun _ => a) = l.length * a := by
  induction l with
  | nil => simp [sumList]
  | cons x t ih =>
    simp only [sumList, List.map_cons, List.foldr_cons, List.length_cons] at *
    rw [ih]; ring

theorem countFrom_edgeless {g : G} (h : ∀ u v, g.adj u v = false) (k : Nat) :
    ∀ (r : Nat) (p : List Nat), countFrom g k r p = k ^ r := by
  intro r
  induction r with
  | zero => intro p; simp [countFrom]
  | succ r ih =>
    intro p
    simp only [countFrom]
    have : ((List.range k).map fun c => if compat g p c = true then countFrom g k r (p ++ [c]) else 0) =
        (List.range k).map fun _ => k ^ r := by
      apply List.map_congr_left
      intro c _
      have hc : compat g p c = true := by simp [compat, h]
      rw [if_pos hc, ih]
    rw [this, sumList_const, List.length_range]; ring

theorem countColourings_edgeless {g : G} (hw : g.WF) (hm : g.m = 0) (k : Nat) :
    countColourings g k = k ^ g.n :=
  countFrom_edgeless (adj_false_of_m_zero hw hm) k g.n []

/-! ### evaluation of the coefficient list -/

theorem evalPoly_cons (a : Int) (p : List Int) (k : Int) : evalPoly (a :: p) k = a + k * evalPoly p k := rfl

theorem evalPoly_replicate (m : Nat) (k : Int) : evalPoly (List.replicate m 0) k = 0 := by
  induction m with
  | zero => rfl
  | succ m ih => rw [List.replicate_succ, evalPoly_cons, ih]; ring

theorem evalPoly_set : ∀ (p : List Int) (idx : Nat) (s k : Int), idx < p.length →
    evalPoly (p.set idx (p.getD idx 0 + s)) k = evalPoly p k + s * k ^ idx := by
  intro p
  induction p with
  | nil => intro idx s k h; simp at h
  | cons a t ih =>
    intro idx s k h
    cases idx with
    | zero => simp [evalPoly_cons]; ring
    | succ idx =>
      have h' : idx < t.length := by simpa using h
      simp only [List.set_cons_succ, List.getD_cons_succ, evalPoly_cons]
      rw [ih idx s k h']; ring

theorem firstEdge_spec {g : G} {i j : Nat} (h : firstEdge g = some (i, j)) :
    j < i ∧ i < g.n ∧ g.adj i j = true := by
  obtain ⟨x, hx, hfx⟩ := List.exists_of_findSome?_eq_some h
  rw [Option.map_eq_some_iff] at hfx
  obtain ⟨y, hy, he⟩ := hfx
  have h1 : x = i := (Prod.mk.inj he).1
  have h2 : y = j := (Prod.mk.inj he).2
  subst h1; subst h2
  have hmem := List.mem_of_find?_eq_some hy
  have hp := List.find?_some hy
  exact ⟨List.mem_range.1 hmem, List.mem_range.1 hx, hp⟩

/-! ### the explicit-stack loop (partial correctness: whenever it returns a coefficient list) -/

def stackSum (stack : List (G × Int)) (k : Nat) : Int :=
  (stack.map fun hs => hs.2 * (countColourings hs.1 k : Int)).sum

theorem cpLoop_partial : ∀ (fuel : Nat) (stack : List (G × Int)) (poly res : List Int),
    (∀ hs ∈ stack, hs.1.WF ∧ hs.1.n < poly.length) → cpLoop fuel stack poly = .ok res →
    res.length = poly.length ∧ ∀ k : Nat, evalPoly res k = evalPoly poly k + stackSum stack k := by
  intro fuel
  induction fuel with
  | zero =>
    intro stack poly res _ h
    cases stack with
    | nil =>
      simp only [cpLoop, Outcome.ok.injEq] at h
      subst h
      exact ⟨rfl, fun k => by simp [stackSum]⟩
    | cons a t => simp [cpLoop] at h
  | succ fuel ih =>
    intro stack poly res hst h
    cases stack with
    | nil =>
      simp only [cpLoop, Outcome.ok.injEq] at h
      subst h
      exact ⟨rfl, fun k => by simp [stackSum]⟩
    | cons a rest =>
      obtain ⟨g, s⟩ := a
      have hg : g.WF ∧ g.n < poly.length := hst (g, s) List.mem_cons_self
      have hrest : ∀ hs ∈ rest, hs.1.WF ∧ hs.1.n < poly.length :=
        fun hs hm => hst hs (List.mem_cons_of_mem _ hm)
      simp only [cpLoop] at h
      by_cases hm : (g.m == 0) = true
      · rw [if_pos hm] at h
        have hm' : g.m = 0 := by simpa using hm
        simp only [addAt, hg.2, if_true] at h
        have := ih rest _ res (by simpa using hrest) h
        refine ⟨by simpa using this.1, fun k => ?_⟩
        rw [this.2 k, evalPoly_set poly g.n s k hg.2]
        simp only [stackSum, List.map_cons, List.sum_cons]
        rw [countColourings_edgeless hg.1 hm' k]
        push_cast; ring
      · rw [if_neg hm] at h
        cases hfe : firstEdge g with
        | none => rw [hfe] at h; cases h
        | some ij =>
          obtain ⟨i, j⟩ := ij
          rw [hfe] at h
          simp only at h
          obtain ⟨_, hi, hadj⟩ := firstEdge_spec hfe
          rw [tabulate_eq (contract_wf hg.1 i j), tabulate_eq (removeEdge_wf hg.1 i j)] at h
          have := ih _ poly res (by
            intro hs hmem
            rcases List.mem_cons.1 hmem with rfl | hmem
            · exact ⟨contract_wf hg.1 i j, by show g.n - 1 < poly.length; omega⟩
            · rcases List.mem_cons.1 hmem with rfl | hmem
              · exact ⟨removeEdge_wf hg.1 i j, hg.2⟩
              · exact hrest hs hmem) h
          refine ⟨this.1, fun k => ?_⟩
          rw [this.2 k]
          simp only [stackSum, List.map_cons, List.sum_cons]
          rw [deletion_contraction hg.1 hadj k]
          push_cast; ring

theorem chromaticPolynomial_partial {g : G} (hw : g.WF) {p : List Int} (h : chromaticPolynomial g = .ok p) :
    p.length = g.n + 1 ∧ ∀ k : Nat, evalPoly p k = (countColourings g k : Int) := by
  rw [chromaticPolynomial, tabulate_eq hw] at h
  have := cpLoop_partial _ _ _ _ (by
    intro hs hm
    have : hs = (g, 1) := by simpa using hm
    subst this
    exact ⟨hw, by simp⟩) h
  refine ⟨by simpa using this.1, fun k => ?_⟩
  rw [this.2 k, evalPoly_replicate]
  simp [stackSum]

end CliqueColour
