import Mathlib.Algebra.BigOperators.Group.List.Basic
import Mamba.Lemmas.CanonAccept
namespace Search
open Disjoint GSearch GraphSpec

/-- an isomorphism of `DenseGraph` values, with its map -/
structure IsIso (g h : DG) (σ : Nat → Nat) : Prop where
  nv : g.nv = h.nv
  bij : IsBij g.nv σ
  adj : ∀ u v, u < g.nv → v < g.nv → g.toG.adj u v = h.toG.adj (σ u) (σ v)

theorem IsIso.deg {g h : DG} {σ : Nat → Nat} (i : IsIso g h σ) {v : Nat} (hv : v < g.nv) :
    dgi h (σ v) = dgi g v := by
  unfold dgi
  rw [deg_iso (g := g.toG) (h := h.toG) i.nv i.bij i.adj hv]

theorem wsum_perm {g : DG} {l l' : List Nat} (h : l.Perm l') : wsum g l = wsum g l' := by
  unfold wsum
  rw [(h.map _).sum_eq, (h.map _).sum_eq]

theorem IsIso.nbrs_perm {g h : DG} {σ : Nat → Nat} (i : IsIso g h σ) {v : Nat} (hv : v < g.nv) :
    (h.toG.nbrs (σ v)).Perm ((g.toG.nbrs v).map σ) := by
  unfold G.nbrs
  have hn : h.toG.n = g.toG.n := i.nv.symm
  rw [hn]
  have hp : ((List.range g.toG.n).filter fun u => h.toG.adj (σ v) u).Perm
      (((List.range g.toG.n).map σ).filter fun u => h.toG.adj (σ v) u) := (perm_of_isBij i.bij).symm.filter _
  refine hp.trans ?_
  rw [List.filter_map]
  apply List.Perm.of_eq
  congr 1
  apply List.filter_congr
  intro u hu
  simp only [Function.comp]
  exact (i.adj v u hv (List.mem_range.1 hu)).symm

theorem IsIso.nkey {g h : DG} {σ : Nat → Nat} (i : IsIso g h σ) {v : Nat} (hv : v < g.nv) :
    nkey h (σ v) = nkey g v := by
  unfold Search.nkey
  rw [wsum_perm (i.nbrs_perm hv)]
  unfold wsum
  simp only [List.map_map]
  have hmem : ∀ j ∈ g.toG.nbrs v, j < g.nv := by
    intro j hj
    unfold G.nbrs at hj
    exact List.mem_range.1 (List.mem_filter.1 hj).1
  congr 1
  · congr 1
    apply List.map_congr_left
    intro j hj
    have := i.deg (hmem j hj)
    unfold dgi at this
    simpa using this
  · congr 1
    apply List.map_congr_left
    intro j hj
    have := i.deg (hmem j hj)
    unfold dgi at this
    simp only [Function.comp]
    rw [this]

theorem IsIso.best {g h : DG} {σ : Nat → Nat} (i : IsIso g h σ) {v : Nat} (hv : v < g.nv) :
    Best h (σ v) ↔ Best g v := by
  unfold Best
  constructor
  · rintro ⟨-, hall⟩
    refine ⟨hv, fun u hu => ?_⟩
    have := hall (σ u) (i.nv ▸ i.bij.maps u hu)
    rw [i.deg hu, i.deg hv, i.nkey hu, i.nkey hv] at this
    exact this
  · rintro ⟨-, hall⟩
    refine ⟨i.nv ▸ i.bij.maps v hv, fun w hw => ?_⟩
    obtain ⟨u, hu, rfl⟩ := i.bij.surj w (i.nv ▸ hw)
    rw [i.deg hu, i.deg hv, i.nkey hu, i.nkey hv]
    exact hall u hu

theorem IsIso.symm {g h : DG} {σ : Nat → Nat} (i : IsIso g h σ) : IsIso h g i.bij.inv := by
  refine ⟨i.nv.symm, i.nv ▸ i.bij.inv_isBij, ?_⟩
  intro u v hu hv
  rw [← i.nv] at hu hv
  have := i.adj _ _ (i.bij.inv_spec hu).1 (i.bij.inv_spec hv).1
  rw [(i.bij.inv_spec hu).2, (i.bij.inv_spec hv).2] at this
  exact this.symm

theorem IsIso.comp {g h k : DG} {σ τ : Nat → Nat} (i : IsIso g h σ) (j : IsIso h k τ) :
    IsIso g k (fun u => τ (σ u)) := by
  refine ⟨i.nv.trans j.nv, i.bij.comp (i.nv ▸ j.bij), ?_⟩
  intro u v hu hv
  rw [i.adj u v hu hv, j.adj _ _ (i.nv ▸ i.bij.maps u hu) (i.nv ▸ i.bij.maps v hv)]

end Search
