import Mamba.Lemmas.MinorExec
/-!
# Soundness of the certificate checker `isMinorCert` (property C11)
-/
namespace Minor
open GraphSpec

theorem mem_classOf {p : PG} {f : Nat → Nat} {c x : Nat} : x ∈ classOf p f c ↔ p.V x ∧ f x = c := by
  simp [classOf, mem_verts]

theorem grow_inv {p : PG} {f : Nat → Nat} {c r : Nat} {cls : List Nat}
    (hcls : ∀ x ∈ cls, p.V x ∧ f x = c) :
    ∀ (k : Nat) (seen : List Nat), (∀ x ∈ seen, p.Conn f c r x) → ∀ x ∈ grow p cls k seen, p.Conn f c r x := by
  intro k
  induction k with
  | zero => intro seen h x hx; exact h x hx
  | succ k ih =>
    intro seen h x hx
    simp only [grow] at hx
    split at hx
    · exact h x hx
    · refine ih _ ?_ x hx
      intro y hy
      rcases List.mem_append.1 hy with hy | hy
      · exact h y hy
      · simp only [List.mem_filter, Bool.and_eq_true, List.any_eq_true] at hy
        obtain ⟨hyc, _, u, hu, hadj⟩ := hy
        have hcu := h u hu
        exact hcu.trans (PG.Conn.single hcu.right.1 hcu.right.2 (hcls y hyc).1 (hcls y hyc).2 hadj)

theorem classConn_sound {p : PG} {f : Nat → Nat} {c : Nat} (hs : p.Sym)
    (h : classConn p (classOf p f c) = true) :
    (∃ r, p.V r ∧ f r = c) ∧ ∀ u v, p.V u → p.V v → f u = c → f v = c → p.Conn f c u v := by
  have hcls : ∀ x ∈ classOf p f c, p.V x ∧ f x = c := fun x hx => mem_classOf.1 hx
  generalize hcl : classOf p f c = cls at h hcls
  cases cls with
  | nil => simp [classConn] at h
  | cons r rest =>
    simp only [classConn, List.all_eq_true] at h
    have hr := hcls r List.mem_cons_self
    have hreach : ∀ x ∈ (r :: rest), p.Conn f c r x := by
      intro x hx
      have := h x hx
      rw [List.contains_iff_mem] at this
      refine grow_inv hcls _ [r] ?_ x this
      intro y hy
      rw [List.mem_singleton.1 hy]
      exact .refl hr.1 hr.2
    refine ⟨⟨r, hr⟩, ?_⟩
    intro u v hu hv hfu hfv
    have hu' : u ∈ r :: rest := hcl ▸ mem_classOf.2 ⟨hu, hfu⟩
    have hv' : v ∈ r :: rest := hcl ▸ mem_classOf.2 ⟨hv, hfv⟩
    exact ((hreach u hu').symm hs).trans (hreach v hv')

theorem certOk_sound {p : PG} {H : G} {f : Nat → Nat} (hs : p.Sym) (h : certOk p H f = true) : IsModel p H f := by
  simp only [certOk, Bool.and_eq_true, List.all_eq_true, List.mem_range] at h
  obtain ⟨h1, h2⟩ := h
  refine ⟨?_, ?_, ?_⟩
  · intro c hc
    exact (classConn_sound hs (h1 c hc)).1
  · intro u v hu hv hlt heq
    exact (classConn_sound hs (h1 (f u) hlt)).2 u v hu hv rfl heq.symm
  · intro c c' hc hc' hne hadj
    have := h2 c hc c' hc'
    simp only [Bool.or_eq_true, Bool.not_eq_true', Bool.and_eq_false_iff, bne_eq_false_iff_eq, List.any_eq_true] at this
    rcases this with (h3 | h3) | h3
    · exact absurd h3 hne
    · rw [hadj] at h3; cases h3
    · obtain ⟨u, hu, v, hv, huv⟩ := h3
      have hu' := mem_classOf.1 hu
      have hv' := mem_classOf.1 hv
      exact ⟨u, v, hu'.1, hv'.1, hu'.2, hv'.2, huv⟩

theorem isMinorCert_sound' (cert : List Nat) (g H : G) (h : isMinorCert cert g H = true) : HasMinor g H :=
  ⟨_, certOk_sound (ofG_sym g) h⟩

/-- the graph the driver builds for large inputs is the shared `ofEdges` graph -/
theorem fastG_adj' (n : Nat) (es : List (Nat × Nat)) (u v : Nat) :
    (fastG n es).adj u v = (ofEdges n es).adj u v := by
  simp [fastG, ofEdges, Std.HashSet.contains_ofList]

end Minor
