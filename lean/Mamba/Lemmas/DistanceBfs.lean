import Mamba.Spec.Distance
import Mathlib.Data.List.Perm.Subperm
import Mathlib.Data.List.Basic
/-!
# Lemmas for C10: the level BFS of `Spec/Distance.lean` computes exact distances
-/
namespace GDist
open GraphSpec

variable {g : G} {V : List Nat} {s : Nat}

theorem WalkIn.mem_V {x k : Nat} (h : WalkIn g V s x k) : x ∈ V := by
  cases h with
  | base h => exact h
  | step _ _ h => exact h

theorem WalkIn.start_mem {x k : Nat} (h : WalkIn g V s x k) : s ∈ V := by
  induction h with
  | base h => exact h
  | step _ _ _ ih => exact ih

theorem walkIn_zero_iff {x : Nat} : WalkIn g V s x 0 ↔ x = s ∧ s ∈ V := by
  constructor
  · intro h; cases h with
    | base h => exact ⟨rfl, h⟩
  · rintro ⟨rfl, h⟩; exact .base h

theorem walkIn_succ_iff {x k : Nat} :
    WalkIn g V s x (k+1) ↔ ∃ u, WalkIn g V s u k ∧ g.adj u x = true ∧ x ∈ V := by
  constructor
  · intro h; cases h with
    | step h1 h2 h3 => exact ⟨_, h1, h2, h3⟩
  · rintro ⟨u, h1, h2, h3⟩; exact .step h1 h2 h3

theorem IsDistIn.unique {x k k' : Nat} (h : IsDistIn g V s x k) (h' : IsDistIn g V s x k') : k = k' := by
  rcases Nat.lt_trichotomy k k' with hlt | heq | hgt
  · exact absurd h.1 (h'.2 k hlt)
  · exact heq
  · exact absurd h'.1 (h.2 k' hgt)

/-- a vertex at exact distance `k+1` has a neighbour at exact distance `k` -/
theorem IsDistIn.pred {x k : Nat} (h : IsDistIn g V s x (k+1)) :
    ∃ u, IsDistIn g V s u k ∧ g.adj u x = true := by
  obtain ⟨u, hu, hadj, hx⟩ := walkIn_succ_iff.1 h.1
  refine ⟨u, ⟨hu, ?_⟩, hadj⟩
  intro j hj hw
  exact h.2 (j+1) (by omega) (.step hw hadj hx)

/-- every smaller exact distance is realised -/
theorem IsDistIn.exists_le {x k : Nat} (h : IsDistIn g V s x k) :
    ∀ j, j ≤ k → ∃ y, IsDistIn g V s y j := by
  induction k generalizing x with
  | zero => intro j hj; exact ⟨x, by have : j = 0 := by omega
                                     subst this; exact h⟩
  | succ k ih =>
    intro j hj
    obtain ⟨u, hu, _⟩ := h.pred
    by_cases hjk : j ≤ k
    · exact ih hu j hjk
    · have : j = k + 1 := by omega
      subst this; exact ⟨x, h⟩

/-- if there is a walk there is a shortest one -/
theorem exists_isDistIn_of_walk {x : Nat} : ∀ {k : Nat}, WalkIn g V s x k → ∃ k', k' ≤ k ∧ IsDistIn g V s x k' := by
  intro k
  induction k using Nat.strongRecOn with
  | _ k ih =>
    intro h
    by_cases hex : ∃ j, j < k ∧ WalkIn g V s x j
    · obtain ⟨j, hj, hw⟩ := hex
      obtain ⟨k', hk', hd⟩ := ih j hj hw
      exact ⟨k', by omega, hd⟩
    · exact ⟨k, Nat.le_refl _, h, fun j hj hw => hex ⟨j, hj, hw⟩⟩

/-- vertices on a shortest walk are distinct: a witness list of `k+1` distinct vertices of `V` -/
theorem IsDistIn.witness {x k : Nat} (h : IsDistIn g V s x k) :
    ∃ l : List Nat, l.length = k + 1 ∧ l.Nodup ∧ (∀ y ∈ l, y ∈ V) ∧ ∀ y ∈ l, ∃ j, j ≤ k ∧ IsDistIn g V s y j := by
  induction k generalizing x with
  | zero =>
    refine ⟨[x], rfl, by simp, ?_, ?_⟩
    · intro y hy; simp at hy; subst hy; exact h.1.mem_V
    · intro y hy; simp at hy; subst hy; exact ⟨0, Nat.le_refl _, h⟩
  | succ k ih =>
    obtain ⟨u, hu, _⟩ := h.pred
    obtain ⟨l, hl, hnd, hV, hd⟩ := ih hu
    refine ⟨x :: l, by simp [hl], ?_, ?_, ?_⟩
    · refine List.nodup_cons.2 ⟨?_, hnd⟩
      intro hx
      obtain ⟨j, hj, hdj⟩ := hd x hx
      have := hdj.unique h
      omega
    · intro y hy
      rcases List.mem_cons.1 hy with rfl | hy
      · exact h.1.mem_V
      · exact hV y hy
    · intro y hy
      rcases List.mem_cons.1 hy with rfl | hy
      · exact ⟨k+1, Nat.le_refl _, h⟩
      · obtain ⟨j, hj, hdj⟩ := hd y hy
        exact ⟨j, by omega, hdj⟩

/-- a shortest walk inside `V` has fewer than `|V|` edges -/
theorem IsDistIn.lt_length {x k : Nat} (h : IsDistIn g V s x k) : k < V.length := by
  obtain ⟨l, hl, hnd, hV, _⟩ := h.witness
  have : l.length ≤ V.length := (List.subperm_of_subset hnd hV).length_le
  omega

/-! ### the BFS invariant -/

theorem mem_bfsNext {seen fr : List Nat} {x : Nat} :
    x ∈ bfsNext g V seen fr ↔ x ∈ V ∧ x ∉ seen ∧ ∃ u, u ∈ fr ∧ g.adj u x = true := by
  simp [bfsNext, List.mem_filter, List.any_eq_true]

structure BfsInv (g : G) (V : List Nat) (s d : Nat) (seen fr : List Nat) : Prop where
  fr_iff : ∀ x, x ∈ fr ↔ IsDistIn g V s x d
  seen_iff : ∀ x, x ∈ seen ↔ ∃ j, j ≤ d ∧ WalkIn g V s x j

theorem bfsInv_init (hs : s ∈ V) : BfsInv g V s 0 [s] [s] := by
  constructor
  · intro x
    simp only [List.mem_singleton, IsDistIn]
    constructor
    · rintro rfl; exact ⟨.base hs, fun j hj => absurd hj (Nat.not_lt_zero _)⟩
    · rintro ⟨h, _⟩; exact (walkIn_zero_iff.1 h).1
  · intro x
    simp only [List.mem_singleton]
    constructor
    · rintro rfl; exact ⟨0, Nat.le_refl _, .base hs⟩
    · rintro ⟨j, hj, h⟩
      have : j = 0 := by omega
      subst this; exact (walkIn_zero_iff.1 h).1

theorem bfsInv_next {d : Nat} {seen fr : List Nat} (inv : BfsInv g V s d seen fr) :
    BfsInv g V s (d+1) (bfsNext g V seen fr ++ seen) (bfsNext g V seen fr) := by
  have hfr : ∀ x, x ∈ bfsNext g V seen fr ↔ IsDistIn g V s x (d+1) := by
    intro x
    rw [mem_bfsNext]
    constructor
    · rintro ⟨hxV, hns, u, hu, hadj⟩
      have hud := (inv.fr_iff u).1 hu
      refine ⟨.step hud.1 hadj hxV, ?_⟩
      intro j hj hw
      exact hns ((inv.seen_iff x).2 ⟨j, by omega, hw⟩)
    · intro h
      obtain ⟨u, hu, hadj⟩ := h.pred
      refine ⟨h.1.mem_V, ?_, u, (inv.fr_iff u).2 hu, hadj⟩
      intro hseen
      obtain ⟨j, hj, hw⟩ := (inv.seen_iff x).1 hseen
      exact h.2 j (by omega) hw
  constructor
  · exact hfr
  · intro x
    rw [List.mem_append, hfr, inv.seen_iff]
    constructor
    · rintro (h | ⟨j, hj, hw⟩)
      · exact ⟨d+1, Nat.le_refl _, h.1⟩
      · exact ⟨j, by omega, hw⟩
    · rintro ⟨j, hj, hw⟩
      by_cases hex : ∃ j', j' ≤ d ∧ WalkIn g V s x j'
      · exact .inr hex
      · left
        have hjd : j = d + 1 := by
          by_contra hne
          exact hex ⟨j, by omega, hw⟩
        subst hjd
        refine ⟨hw, ?_⟩
        intro j' hj' hw'
        exact hex ⟨j', by omega, hw'⟩

theorem findLevel_bfsLevels (x : Nat) :
    ∀ (f d : Nat) (seen fr : List Nat), BfsInv g V s d seen fr →
      ∀ k, findLevel x (bfsLevels g V f seen fr) d = some k ↔ (d ≤ k ∧ k < d + f ∧ IsDistIn g V s x k) := by
  intro f
  induction f with
  | zero =>
    intro d seen fr _ k
    simp only [bfsLevels, findLevel]
    constructor
    · intro h; cases h
    · rintro ⟨h1, h2, _⟩; omega
  | succ f ih =>
    intro d seen fr inv k
    unfold bfsLevels
    by_cases hemp : fr.isEmpty = true
    · simp only [hemp, if_true, findLevel]
      constructor
      · intro h; cases h
      · rintro ⟨h1, _, h3⟩
        obtain ⟨y, hy⟩ := h3.exists_le d h1
        have := (inv.fr_iff y).2 hy
        have hnil : fr = [] := List.isEmpty_iff.1 hemp
        rw [hnil] at this
        cases this
    · simp only [hemp, Bool.false_eq_true, if_false, findLevel]
      by_cases hx : fr.contains x = true
      · simp only [hx, if_true]
        have hxd := (inv.fr_iff x).1 (by simpa using hx)
        constructor
        · intro h
          have : d = k := by simpa using h
          subst this
          exact ⟨Nat.le_refl _, by omega, hxd⟩
        · rintro ⟨_, _, h3⟩
          rw [h3.unique hxd]
      · simp only [hx, Bool.false_eq_true, if_false]
        rw [ih (d+1) _ _ (bfsInv_next inv) k]
        constructor
        · rintro ⟨h1, h2, h3⟩; exact ⟨by omega, by omega, h3⟩
        · rintro ⟨h1, h2, h3⟩
          refine ⟨?_, by omega, h3⟩
          by_contra hlt
          have : k = d := by omega
          subst this
          exact hx (by simpa using (inv.fr_iff x).2 h3)

/-- **the level BFS computes the least walk length** -/
theorem distIn_eq_some_iff {x k : Nat} : distIn g V s x = some k ↔ IsDistIn g V s x k := by
  unfold distIn levelsIn
  by_cases hs : V.contains s = true
  · have hs' : s ∈ V := by simpa using hs
    simp only [hs, if_true]
    rw [findLevel_bfsLevels x V.length 0 [s] [s] (bfsInv_init hs') k]
    constructor
    · rintro ⟨_, _, h⟩; exact h
    · intro h; exact ⟨Nat.zero_le _, by have := h.lt_length; omega, h⟩
  · simp only [hs, Bool.false_eq_true, if_false, findLevel]
    constructor
    · intro h; cases h
    · intro h
      exact absurd (by simpa using h.1.start_mem) hs

theorem distIn_eq_none_iff {x : Nat} : distIn g V s x = none ↔ ∀ k, ¬ WalkIn g V s x k := by
  constructor
  · intro h k hw
    obtain ⟨k', _, hd⟩ := exists_isDistIn_of_walk hw
    rw [distIn_eq_some_iff.2 hd] at h
    cases h
  · intro h
    cases hd : distIn g V s x with
    | none => rfl
    | some k => exact absurd (distIn_eq_some_iff.1 hd).1 (h k)

theorem distIn_isSome_iff {x : Nat} : (distIn g V s x).isSome = true ↔ ReachIn g V s x := by
  constructor
  · intro h
    obtain ⟨k, hk⟩ := Option.isSome_iff_exists.1 h
    exact ⟨k, (distIn_eq_some_iff.1 hk).1⟩
  · rintro ⟨k, hw⟩
    obtain ⟨k', _, hd⟩ := exists_isDistIn_of_walk hw
    rw [distIn_eq_some_iff.2 hd]; rfl

end GDist
