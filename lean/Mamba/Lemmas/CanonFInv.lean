import Mamba.Lemmas.CanonFBase
/-!
# Invariants of the ordered partition of `Model/CanonF.lean`

* `binIdx bd p`  — index of the bin (cell) that contains position `p`: the number of dividers `≤ p`.
* `PartInv n op` — the ordered-partition invariant: `order` is a permutation of `0..n-1`, `binDividers` is strictly
  increasing, positive and ends at `n`, `inCell[order[p]]` is the index of the bin containing `p`, the slices are well
  formed and of the right lengths.
* `AgeInv op`    — every divider age is at most `op.age`, the last divider (`n`) has age 0.
* `divs op`      — the dividers with their ages.
-/
namespace CanonF

/-- index of the bin containing position `p` -/
def binIdx (bd : List Nat) (p : Nat) : Nat := bd.countP (fun d => decide (d ≤ p))

structure PartInv (n : Nat) (op : OP) : Prop where
  wfOrder : op.order.WF
  wfBd : op.binDividers.WF
  wfAges : op.binAges.WF
  wfInCell : op.inCell.WF
  lenOrder : op.order.len = n
  lenInCell : op.inCell.len = n
  lenAges : op.binAges.len = op.binDividers.len
  perm : op.order.toList.Perm (List.range n)
  sorted : (0 :: op.binDividers.toList).Pairwise (· < ·)
  last : op.binDividers.toList.getLast? = some n
  inCell : ∀ p v, op.order.toList[p]? = some v → op.inCell.toList[v]? = some (binIdx op.binDividers.toList p)

structure AgeInv (op : OP) : Prop where
  le : ∀ a ∈ op.binAges.toList, a ≤ op.age
  last : op.binAges.toList.getLast? = some 0

/-- the dividers with their ages -/
def divs (op : OP) : List (Nat × Int) := op.binDividers.toList.zip op.binAges.toList

/-- position `i` lies in a bin with at least two elements -/
def NonSingleton (bd : List Nat) (i : Nat) : Prop := ¬ (i ∈ 0 :: bd ∧ i + 1 ∈ bd)


/-- in a strictly increasing list the elements below `i` are exactly the first `countP (· < i)` ones -/
theorem sorted_lt_iff_idx (l : List Nat) (hs : l.Pairwise (· < ·)) (i : Nat) :
    ∀ k (hk : k < l.length), (l[k] < i ↔ k < l.countP (fun d => decide (d < i))) := by
  induction l with
  | nil => intro k hk; simp at hk
  | cons x xs ih =>
    intro k hk
    rw [List.pairwise_cons] at hs
    cases k with
    | zero =>
      simp only [List.getElem_cons_zero, List.countP_cons]
      by_cases hx : x < i
      · simp [hx]
      · simp only [hx, decide_false, Bool.false_eq_true, if_false, Nat.add_zero, false_iff, Nat.not_lt, Nat.le_zero]
        rw [List.countP_eq_zero]
        intro a ha
        have := hs.1 a ha
        simp; omega
    | succ k =>
      simp only [List.getElem_cons_succ, List.countP_cons]
      have hk' : k < xs.length := by simpa using hk
      have := ih hs.2 k hk'
      by_cases hx : x < i
      · simp [hx, this]
      · simp only [hx, decide_false, Bool.false_eq_true, if_false, Nat.add_zero]
        have h1 : xs[k] ≥ i := by
          have := hs.1 xs[k] (List.getElem_mem _); omega
        have h2 : xs.countP (fun d => decide (d < i)) = 0 := by
          rw [List.countP_eq_zero]; intro a ha; have := hs.1 a ha; simp; omega
        omega

theorem binIdx_eq (bd : List Nat) (p : Nat) : binIdx bd p = bd.countP (fun d => decide (d < p + 1)) := by
  unfold binIdx
  congr 1; funext d; simp [Nat.lt_succ_iff]

/-- with dividers ending at `n`, every position `p < n` lies in some bin -/
theorem binIdx_lt (bd : List Nat) (n p : Nat) (hl : bd.getLast? = some n) (hp : p < n) : binIdx bd p < bd.length := by
  unfold binIdx
  have hmem : n ∈ bd := List.mem_of_getLast? hl
  have h1 := List.countP_le_length (p := fun d => decide (d ≤ p)) (l := bd)
  have h2 : bd.countP (fun d => decide (d ≤ p)) ≠ bd.length := by
    intro h; rw [List.countP_eq_length] at h; have := h n hmem; simp at this; omega
  omega


theorem countP_lt_succ (l : List Nat) (hs : l.Pairwise (· < ·)) (i : Nat) (hc : l.countP (fun d => decide (d < i)) < l.length) :
    l.countP (fun d => decide (d < i + 1)) =
      if l[l.countP (fun d => decide (d < i))]'hc = i then l.countP (fun d => decide (d < i)) + 1
      else l.countP (fun d => decide (d < i)) := by
  have hmono : l.countP (fun d => decide (d < i)) ≤ l.countP (fun d => decide (d < i + 1)) :=
    List.countP_mono_left (fun x _ hx => by simp at hx ⊢; omega)
  have h0 := sorted_lt_iff_idx l hs i _ hc
  have h1 := sorted_lt_iff_idx l hs (i + 1) _ hc
  have hge : l[l.countP (fun d => decide (d < i))]'hc ≥ i := by
    have : ¬ (l[l.countP (fun d => decide (d < i))]'hc < i) := by rw [h0]; omega
    omega
  have hub : l.countP (fun d => decide (d < i + 1)) ≤ l.countP (fun d => decide (d < i)) + 1 := by
    by_cases h2 : l.countP (fun d => decide (d < i)) + 1 < l.length
    · have h3 := sorted_lt_iff_idx l hs (i + 1) _ h2
      have : l[l.countP (fun d => decide (d < i))]'hc < l[l.countP (fun d => decide (d < i)) + 1]'h2 :=
        List.pairwise_iff_getElem.1 hs _ _ hc h2 (by omega)
      have : ¬ (l[l.countP (fun d => decide (d < i)) + 1]'h2 < i + 1) := by omega
      rw [h3] at this; omega
    · have := List.countP_le_length (p := fun d => decide (d < i + 1)) (l := l)
      omega
  by_cases hd : l[l.countP (fun d => decide (d < i))]'hc = i
  · rw [if_pos hd]
    have : l[l.countP (fun d => decide (d < i))]'hc < i + 1 := by omega
    rw [h1] at this; omega
  · rw [if_neg hd]
    have : ¬ (l[l.countP (fun d => decide (d < i))]'hc < i + 1) := by omega
    rw [h1] at this; omega


theorem perm_range_lt {l : List Nat} {n : Nat} (h : l.Perm (List.range n)) {p v : Nat} (hv : l[p]? = some v) : v < n := by
  have : v ∈ l := List.mem_of_getElem? hv
  simpa using (h.mem_iff.1 this)

theorem perm_range_inj {l : List Nat} {n : Nat} (h : l.Perm (List.range n)) {p q v : Nat}
    (hp : l[p]? = some v) (hq : l[q]? = some v) : p = q := by
  have hnd : l.Nodup := h.nodup_iff.2 List.nodup_range
  obtain ⟨hp1, hp2⟩ := List.getElem?_eq_some_iff.1 hp
  obtain ⟨hq1, hq2⟩ := List.getElem?_eq_some_iff.1 hq
  exact (List.getElem_inj hnd).mp (hp2.trans hq2.symm)

/-- the loop that recomputes `inCell` from `order` and `binDividers` succeeds and makes `inCell` consistent -/
theorem recomputeInCell_spec {n : Nat} {op : OP} (hwo : op.order.WF) (hwb : op.binDividers.WF) (hwi : op.inCell.WF)
    (hlo : op.order.len = n) (hli : op.inCell.len = n) (hperm : op.order.toList.Perm (List.range n))
    (hsorted : (0 :: op.binDividers.toList).Pairwise (· < ·)) (hlast : op.binDividers.toList.getLast? = some n) :
    ∃ ic, recomputeInCell op = .ok { op with inCell := ic } ∧ ic.WF ∧ ic.len = n ∧ ic.data.size = op.inCell.data.size ∧
      ∀ p v, op.order.toList[p]? = some v → ic.toList[v]? = some (binIdx op.binDividers.toList p) := by
  have hs : op.binDividers.toList.Pairwise (· < ·) := (List.pairwise_cons.1 hsorted).2
  have hblen : op.binDividers.toList.length = op.binDividers.len := Sl.length_toList _ hwb
  have hmem : n ∈ op.binDividers.toList := List.mem_of_getLast? hlast
  obtain ⟨r, hr, hP⟩ := forRange_total (inCellStep op.order op.binDividers)
    (fun i (st : Sl Nat × Nat) => st.1.WF ∧ st.1.len = n ∧ st.1.data.size = op.inCell.data.size ∧
      st.2 = op.binDividers.toList.countP (fun d => decide (d < i)) ∧
      ∀ p v, p < i → op.order.toList[p]? = some v → st.1.toList[v]? = some (binIdx op.binDividers.toList p))
    op.order.len 0 (op.inCell, 0)
    ⟨hwi, hli, rfl, by
      symm; rw [List.countP_eq_zero]; intro a _; simp, by intro p v hp; omega⟩
    (by
      rintro i ⟨ic, cb⟩ _ hi ⟨w1, l1, z1, hcb, hinv⟩
      simp only at w1 l1 hcb hinv z1
      have hin : i < n := by omega
      -- the divider at index cb exists and is ≥ i
      have hcl : op.binDividers.toList.countP (fun d => decide (d < i)) < op.binDividers.toList.length := by
        have h1 := List.countP_le_length (p := fun d => decide (d < i)) (l := op.binDividers.toList)
        have h2 : op.binDividers.toList.countP (fun d => decide (d < i)) ≠ op.binDividers.toList.length := by
          intro h; rw [List.countP_eq_length] at h; have := h n hmem; simp at this; omega
        omega
      have hget : op.binDividers.get cb = .ok (op.binDividers.toList[cb]'(by rw [hcb]; exact hcl)) := by
        rw [Sl.get_eq_toList]; exact List.getElem?_eq_getElem _
      obtain ⟨v, hv, hv'⟩ := Sl.get_ok_of_lt hwo (show i < op.order.len by omega)
      have hvl : op.order.toList[i]? = some v := Sl.get_eq_toList.1 hv
      have hvn : v < n := perm_range_lt hperm hvl
      let cb' := if op.binDividers.toList[cb]'(by rw [hcb]; exact hcl) = i then cb + 1 else cb
      have hset := Sl.set_ok_of_lt w1 (show v < ic.len by omega) cb'
      refine ⟨(⟨ic.data.setIfInBounds v cb', ic.len⟩, cb'), ?_, ?_⟩
      · simp only [inCellStep, hget, hv, hset, cb']
      · have hcb' : cb' = op.binDividers.toList.countP (fun d => decide (d < i + 1)) := by
          rw [countP_lt_succ _ hs i hcl]
          simp only [cb', hcb]
        refine ⟨Sl.set_wf w1 hset, by rw [Sl.set_len hset]; exact l1, by rw [Sl.set_cap hset]; exact z1, hcb', ?_⟩
        intro p u hp hu
        rw [Sl.toList_set hset, List.getElem?_set]
        by_cases hpi : p = i
        · subst hpi
          have : u = v := by rw [hvl] at hu; exact (Option.some.inj hu).symm
          subst this
          rw [if_pos rfl, if_pos (by rw [Sl.length_toList _ w1]; omega), binIdx_eq, ← hcb']
        · have hne : v ≠ u := by
            intro e; subst e
            exact hpi (perm_range_inj hperm hu hvl)
          rw [if_neg hne]
          exact hinv p u (by omega) hu)
  obtain ⟨ic, cb⟩ := r
  obtain ⟨w1, l1, z1, _, hinv⟩ := hP
  refine ⟨ic, ?_, w1, l1, z1, ?_⟩
  · simp only [recomputeInCell, hr]
  · intro p v hv
    have hp : p < op.order.len := by
      have := (List.getElem?_eq_some_iff.1 hv).1
      rw [Sl.length_toList _ hwo] at this; exact this
    exact hinv p v (by omega) hv



/-- `expandValue` only touches `value` and `singletonPrefixLength` -/
theorem expandLoop_frame (nb : Nbrs) (cb fl : Sl Nat) : ∀ (k j : Nat) (op : OP) (w : Bool) (op' : OP),
    expandLoop nb cb fl k j op = .ok (w, op') →
    op'.order = op.order ∧ op'.binDividers = op.binDividers ∧ op'.binAges = op.binAges ∧
      op'.binsToCheck = op.binsToCheck ∧ op'.age = op.age ∧ op'.inCell = op.inCell := by
  intro k
  induction k with
  | zero => intro j op w op' h; simp [expandLoop] at h; obtain ⟨_, rfl⟩ := h; simp
  | succ k ih =>
    intro j op w op' h
    rw [expandLoop] at h
    osplit h
    · simp at h; obtain ⟨_, rfl⟩ := h; simp
    · simp at h; obtain ⟨_, rfl⟩ := h; simp
    · have := ih _ _ _ _ h; simpa using this

theorem expandValue_frame {nb : Nbrs} {cb fl : Sl Nat} {op op' : OP} {w : Bool}
    (h : expandValue nb cb fl op = .ok (w, op')) :
    op'.order = op.order ∧ op'.binDividers = op.binDividers ∧ op'.binAges = op.binAges ∧
      op'.binsToCheck = op.binsToCheck ∧ op'.age = op.age ∧ op'.inCell = op.inCell :=
  expandLoop_frame nb cb fl _ _ _ _ _ h

theorem PartInv.of_frame {n : Nat} {op op' : OP} (h : PartInv n op)
    (e1 : op'.order = op.order) (e2 : op'.binDividers = op.binDividers) (e3 : op'.binAges = op.binAges)
    (e4 : op'.inCell = op.inCell) : PartInv n op' := by
  constructor
  · rw [e1]; exact h.wfOrder
  · rw [e2]; exact h.wfBd
  · rw [e3]; exact h.wfAges
  · rw [e4]; exact h.wfInCell
  · rw [e1]; exact h.lenOrder
  · rw [e4]; exact h.lenInCell
  · rw [e3, e2]; exact h.lenAges
  · rw [e1]; exact h.perm
  · rw [e2]; exact h.sorted
  · rw [e2]; exact h.last
  · rw [e1, e2, e4]; exact h.inCell

theorem AgeInv.of_frame {op op' : OP} (h : AgeInv op) (e3 : op'.binAges = op.binAges) (e5 : op'.age = op.age) :
    AgeInv op' := by
  constructor
  · rw [e3, e5]; exact h.le
  · rw [e3]; exact h.last

/-- scratch slices as `CanonicalIsomorphAllocated` hands them to the refinement: `maxCell`, `numberOfMax` of length `n` -/
structure ScratchOK (n : Nat) (sc : Scratch) : Prop where
  wfT : sc.timesSeen.WF
  wfM : sc.maxCell.WF
  wfN : sc.numberOfMax.WF
  lenM : sc.maxCell.len = n
  lenN : sc.numberOfMax.len = n


end CanonF
