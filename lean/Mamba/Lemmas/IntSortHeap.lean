import Mamba.Lemmas.IntSortInsertion
/-! Lemmas for C17 (`ints.Sort`): correctness of `heapSort` (siftDown invariant, build, pop). -/
set_option linter.unusedTactic false
set_option linter.unreachableTactic false
set_option linter.unnecessarySeqFocus false
set_option linter.unusedSimpArgs false
set_option linter.unusedVariables false
namespace IntSort

/-- heap node `k` (stored at `first+k`) dominates its children among the first `hi` nodes -/
def HeapAt (d : Data) (first hi k : Int) : Prop :=
  (2*k+1 < hi → vi d (first + (2*k+1)) ≤ vi d (first + k)) ∧
  (2*k+2 < hi → vi d (first + (2*k+2)) ≤ vi d (first + k))

/-- max-heap property for the nodes `lo ≤ k < hi` -/
def HeapFrom (d : Data) (first lo hi : Int) : Prop := ∀ k, lo ≤ k → k < hi → HeapAt d first hi k

/-- invariant of the `siftDown` loop at `root = r` -/
def SiftInv (d : Data) (first lo hi r : Int) : Prop :=
  (∀ k, lo ≤ k → k < hi → k ≠ r → HeapAt d first hi k) ∧
  (∀ p c, lo ≤ p → (r = 2*p+1 ∨ r = 2*p+2) → (c = 2*r+1 ∨ c = 2*r+2) → c < hi →
    vi d (first + c) ≤ vi d (first + p))

/-- the heap child arithmetic dictated by the algorithm: `child = 2*root+1`, sibling `child+1` -/
def Cfg.HeapOK (cf : Cfg) : Prop := cf.heapMul = 2 ∧ cf.heapAdd = 1 ∧ (cf.heapSib = 1 ∧ cf.heapSibIdx = 1)

theorem pickChild_spec (cf : Cfg) (hk : cf.HeapOK) (d : Data) (first child hi : Int) (hf : 0 ≤ first) (hc0 : 0 ≤ child) (hc : child < hi)
    (hsz : first + hi ≤ d.size) :
    ∃ c, pickChild cf d first child hi = .ok c ∧ (c = child ∨ (c = child + 1 ∧ child + 1 < hi)) ∧
      vi d (first + child) ≤ vi d (first + c) ∧ (child + 1 < hi → vi d (first + child + 1) ≤ vi d (first + c)) := by
  unfold pickChild
  rw [hk.2.2.1, hk.2.2.2]
  by_cases h1 : child + 1 < hi
  · rw [if_pos h1, lt_total (by omega) (by omega) (by omega) (by omega)]
    by_cases h2 : vi d (first + child) < vi d (first + child + 1)
    · refine ⟨child + 1, by simp [h2], Or.inr ⟨rfl, h1⟩, ?_, ?_⟩
      · have : first + (child + 1) = first + child + 1 := by omega
        rw [this]; omega
      · intro _; have : first + (child + 1) = first + child + 1 := by omega
        rw [this]; exact Int.le_refl _
    · refine ⟨child, by simp [h2], Or.inl rfl, Int.le_refl _, ?_⟩
      intro _; omega
  · rw [if_neg h1]
    exact ⟨child, rfl, Or.inl rfl, Int.le_refl _, fun h => absurd h h1⟩


theorem siftLoop_spec (cf : Cfg) (hk : cf.HeapOK) (first lo hi : Int) (hf : 0 ≤ first) (hlo : 0 ≤ lo) :
    ∀ (f : Nat) (d : Data) (r : Int), lo ≤ r → first + hi ≤ d.size → hi - r + 1 ≤ f → 1 ≤ f →
      SiftInv d first lo hi r →
      ∃ d', siftLoop cf f d r hi first = .ok d' ∧ RP (first + lo) (first + hi) d d' ∧ HeapFrom d' first lo hi := by
  intro f
  induction f with
  | zero => intro d r _ _ _ h1; omega
  | succ f ih =>
    intro d r hr hsz hfuel _ hinv
    obtain ⟨inv1, inv2⟩ := hinv
    unfold siftLoop
    simp only [hk.1, hk.2.1]
    by_cases hch : 2 * r + 1 ≥ hi
    · rw [if_pos hch]
      refine ⟨d, rfl, RP.refl _ _ _, ?_⟩
      intro k hk1 hk2
      by_cases hkr : k = r
      · subst hkr; exact ⟨fun h => by omega, fun h => by omega⟩
      · exact inv1 k hk1 hk2 hkr
    · rw [if_neg hch]
      obtain ⟨c, hpick, hcc, hc1, hc2⟩ := pickChild_spec cf hk d first (2*r+1) hi hf (by omega) (by omega) hsz
      rw [hpick]
      simp only
      have hcr : r < c ∧ c < hi := by omega
      rw [lt_total (by omega) (by omega) (by omega) (by omega)]
      by_cases hlt : vi d (first + r) < vi d (first + c)
      · simp only [hlt, decide_true]
        obtain ⟨d1, hsw⟩ := swap_total (d := d) (i := first + r) (j := first + c) (by omega) (by omega) (by omega) (by omega)
        rw [hsw]
        simp only
        obtain ⟨hs, _, _, _, _, hv⟩ := swap_spec hsw
        have hv' : ∀ x, vi d1 (first + x) =
            if x = r then vi d (first + c) else if x = c then vi d (first + r) else vi d (first + x) := by
          intro x
          rw [hv (first + x)]
          by_cases h1 : x = r
          · subst h1; simp
          · by_cases h2 : x = c
            · subst h2
              have : ¬ first + x = first + r := by omega
              simp [this, h1]
            · have n1 : ¬ first + x = first + r := by omega
              have n2 : ¬ first + x = first + c := by omega
              simp [h1, h2, n1, n2]
        have hc2' : 2 * r + 2 < hi → vi d (first + (2 * r + 2)) ≤ vi d (first + c) := by
          intro h
          have := hc2 (by omega)
          have e : first + (2 * r + 1) + 1 = first + (2 * r + 2) := by omega
          rw [e] at this; exact this
        have hinv1 : SiftInv d1 first lo hi c := by
          constructor
          · intro k hk1 hk2 hkc
            by_cases hkr : k = r
            · subst hkr
              constructor
              · intro h
                rw [hv' (2*k+1), hv' k]
                have n1 : ¬ (2 * k + 1 = k) := by omega
                simp only [n1, if_false, if_true]
                split <;> omega
              · intro h
                rw [hv' (2*k+2), hv' k]
                have n1 : ¬ (2 * k + 2 = k) := by omega
                have := hc2' h
                simp only [n1, if_false, if_true]
                split <;> omega
            · have hk := inv1 k hk1 hk2 hkr
              constructor
              · intro h
                rw [hv' (2*k+1), hv' k]
                have n2 : ¬ (2 * k + 1 = c) := by omega
                simp only [hkr, hkc, n2, if_false]
                split
                · rename_i h3
                  exact inv2 k c hk1 (Or.inl h3.symm) (by omega) (by omega)
                · exact hk.1 h
              · intro h
                rw [hv' (2*k+2), hv' k]
                have n2 : ¬ (2 * k + 2 = c) := by omega
                simp only [hkr, hkc, n2, if_false]
                split
                · rename_i h3
                  exact inv2 k c hk1 (Or.inr h3.symm) (by omega) (by omega)
                · exact hk.2 h
          · intro p cc hp hpc hcc2 hcchi
            have hpr : p = r := by omega
            subst hpr
            rw [hv' cc, hv' p]
            have n1 : ¬ cc = p := by omega
            have n2 : ¬ cc = c := by omega
            simp only [n1, n2, if_false, if_true]
            have hk := inv1 c (by omega) (by omega) (by omega)
            rcases hcc2 with rfl | rfl
            · exact hk.1 hcchi
            · exact hk.2 hcchi
        obtain ⟨d', hr', hrp', hh'⟩ := ih d1 c (by omega) (by rw [hs]; exact hsz) (by omega) (by omega) hinv1
        exact ⟨d', hr', (RP.of_swap hsw ⟨by omega, by omega⟩ ⟨by omega, by omega⟩).trans hrp', hh'⟩
      · simp only [hlt, decide_false]
        refine ⟨d, rfl, RP.refl _ _ _, ?_⟩
        intro k hk1 hk2
        by_cases hkr : k = r
        · subst hkr
          constructor
          · intro _; omega
          · intro h2
            have := hc2 (by omega)
            have e : first + (2 * k + 1) + 1 = first + (2 * k + 2) := by omega
            rw [e] at this; omega
        · exact inv1 k hk1 hk2 hkr


theorem siftDown_spec (cf : Cfg) (hk : cf.HeapOK) (d : Data) (first lo hi : Int) (hf : 0 ≤ first) (hlo : 0 ≤ lo)
    (hsz : first + hi ≤ d.size) (hpre : ∀ k, lo < k → k < hi → HeapAt d first hi k) :
    ∃ d', siftDown cf d lo hi first = .ok d' ∧ RP (first + lo) (first + hi) d d' ∧ HeapFrom d' first lo hi := by
  unfold siftDown
  apply siftLoop_spec cf hk first lo hi hf hlo _ d lo (Int.le_refl _) hsz (by omega) (by omega)
  constructor
  · intro k h1 h2 h3; exact hpre k (by omega) h2
  · intro p c hp hr; omega

theorem heapBuild_spec (cf : Cfg) (hk : cf.HeapOK) (d : Data) (i hi first : Int) : 0 ≤ first → first + hi ≤ d.size →
    (∀ k, i + 1 ≤ k → 0 ≤ k → k < hi → HeapAt d first hi k) →
    ∃ d', heapBuild cf d i hi first = .ok d' ∧ RP first (first + hi) d d' ∧ HeapFrom d' first 0 hi := by
  fun_induction heapBuild cf d i hi first
  all_goals intro hf hsz hh
  case case1 d i h0 d1 hsd ih =>
    obtain ⟨d1', hr, hrp, hh1⟩ := siftDown_spec cf hk d first i hi hf h0 hsz (fun k h1 h2 => hh k (by omega) (by omega) h2)
    rw [hr] at hsd; cases hsd
    obtain ⟨d', hr', hrp', hh'⟩ := ih hf (by rw [hrp.1]; exact hsz) (fun k h1 _ h2 => hh1 k (by omega) h2)
    exact ⟨d', hr', (hrp.mono (by omega) (Int.le_refl _)).trans hrp', hh'⟩
  case case2 d i h0 hsd =>
    obtain ⟨d1', hr, _⟩ := siftDown_spec cf hk d first i hi hf h0 hsz (fun k h1 h2 => hh k (by omega) (by omega) h2)
    rw [hr] at hsd; cases hsd
  case case3 d i h0 hsd =>
    obtain ⟨d1', hr, _⟩ := siftDown_spec cf hk d first i hi hf h0 hsz (fun k h1 h2 => hh k (by omega) (by omega) h2)
    rw [hr] at hsd; cases hsd
  case case4 d i h0 =>
    exact ⟨d, rfl, RP.refl _ _ _, fun k h1 h2 => hh k (by omega) h1 h2⟩

/-- the root of a heap is its maximum -/
theorem heap_root_max (d : Data) (first n : Int) (hh : HeapFrom d first 0 n) :
    ∀ (m : Nat) (k : Int), k.toNat = m → 0 ≤ k → k < n → vi d (first + k) ≤ vi d (first + 0) := by
  intro m
  induction m using Nat.strong_induction_on with
  | _ m ih =>
    intro k hkm hk0 hkn
    by_cases hz : k = 0
    · subst hz; exact Int.le_refl _
    · have hp := ih ((k - 1) / 2).toNat (by omega) ((k - 1) / 2) rfl (by omega) (by omega)
      have hat := hh ((k - 1) / 2) (by omega) (by omega)
      rcases (show (k - 1) % 2 = 0 ∨ (k - 1) % 2 = 1 by omega) with h | h
      · have e : 2 * ((k - 1) / 2) + 1 = k := by omega
        have := hat.1 (by omega)
        rw [e] at this; omega
      · have e : 2 * ((k - 1) / 2) + 2 = k := by omega
        have := hat.2 (by omega)
        rw [e] at this; omega


/-- invariant of the pop loop of `heapSort` when the heap has `n` nodes left -/
def PopInv (d : Data) (first hi n : Int) : Prop :=
  HeapFrom d first 0 n ∧ SortedOn (first + n) (first + hi) d ∧
  (∀ p q, first ≤ p → p < first + n → first + n ≤ q → q < first + hi → vi d p ≤ vi d q)

theorem swap_first_vi {d d1 : Data} {first i : Int} (h0 : 0 ≤ i) (hsw : swap d first (first + i) = .ok d1) :
    ∀ x, vi d1 (first + x) =
      if x = 0 then vi d (first + i) else if x = i then vi d (first + 0) else vi d (first + x) := by
  obtain ⟨hs1, _, _, _, _, hv⟩ := swap_spec hsw
  intro x
  rw [hv (first + x)]
  by_cases h1 : x = 0
  · subst h1; simp
  · by_cases h2 : x = i
    · subst h2
      have : ¬ first + x = first := by omega
      simp [this, h1]
    · have n1 : ¬ first + x = first := by omega
      have n2 : ¬ first + x = first + i := by omega
      simp [h1, h2, n1, n2]

theorem pop_sift_pre {d d1 : Data} {first i : Int} (h0 : 0 ≤ i) (hheap : HeapFrom d first 0 (i+1))
    (hsw : swap d first (first + i) = .ok d1) : ∀ k, 0 < k → k < i → HeapAt d1 first i k := by
  have hv' := swap_first_vi h0 hsw
  intro k hk1 hk2
  have hk := hheap k (by omega) (by omega)
  constructor
  · intro h
    rw [hv' (2*k+1), hv' k]
    have n1 : ¬ (2*k+1 = 0) := by omega
    have n2 : ¬ (2*k+1 = i) := by omega
    have n3 : ¬ (k = 0) := by omega
    have n4 : ¬ (k = i) := by omega
    simp only [n1, n2, n3, n4, if_false]
    exact hk.1 (by omega)
  · intro h
    rw [hv' (2*k+2), hv' k]
    have n1 : ¬ (2*k+2 = 0) := by omega
    have n2 : ¬ (2*k+2 = i) := by omega
    have n3 : ¬ (k = 0) := by omega
    have n4 : ¬ (k = i) := by omega
    simp only [n1, n2, n3, n4, if_false]
    exact hk.2 (by omega)

theorem heapPop_spec (cf : Cfg) (hk : cf.HeapOK) (hi : Int) (d : Data) (i first : Int) : 0 ≤ first → first + hi ≤ d.size → i < hi →
    PopInv d first hi (i+1) →
    ∃ d', heapPop cf d i first = .ok d' ∧ RP first (first + hi) d d' ∧ SortedOn first (first + hi) d' := by
  fun_induction heapPop cf d i first
  all_goals intro hf hsz hihi hinv
  case case1 d i h0 d1 hsw d2 hsd ih =>
    obtain ⟨hheap, hsorted, hcross⟩ := hinv
    obtain ⟨hs1, _, _, _, _, hv⟩ := swap_spec hsw
    have hv' := swap_first_vi h0 hsw
    have hmax := heap_root_max d first (i+1) hheap
    obtain ⟨d2', hr2, hrp2, hh2⟩ := siftDown_spec cf hk d1 first 0 i hf (Int.le_refl _) (by rw [hs1]; omega)
      (pop_sift_pre h0 hheap hsw)
    rw [hr2] at hsd; cases hsd
    obtain ⟨hs2, hfr2, hmem2⟩ := hrp2
    -- every element of the old heap is at most the old root
    have hold : ∀ x, 0 ≤ x → x < i + 1 → vi d (first + x) ≤ vi d (first + 0) :=
      fun x h1 h2 => hmax x.toNat x rfl h1 h2
    have hinv2 : PopInv d2 first hi (i - 1 + 1) := by
      have e : i - 1 + 1 = i := by omega
      rw [e]
      refine ⟨hh2, ?_, ?_⟩
      · intro p q h1 h2 h3
        rw [hfr2 p (Or.inr (by omega)), hfr2 q (Or.inr (by omega))]
        have ep : p = first + (p - first) := by omega
        have eq : q = first + (q - first) := by omega
        rw [ep, eq, hv' (p - first), hv' (q - first)]
        have n2 : ¬ (q - first = 0) := by omega
        have n3 : ¬ (q - first = i) := by omega
        simp only [n2, n3, if_false]
        have hc := hcross first (first + (q - first)) (by omega) (by omega) (by omega) (by omega)
        by_cases hp0 : p - first = 0
        · have hi0 : i = 0 := by omega
          simp only [hp0, if_true]
          rw [hi0]; simpa using hc
        · simp only [hp0, if_false]
          by_cases hpi : p - first = i
          · simp only [hpi, if_true]
            simpa using hc
          · simp only [hpi, if_false]
            exact hsorted (first + (p - first)) (first + (q - first)) (by omega) (by omega) (by omega)
      · intro p q h1 h2 h3 h4
        obtain ⟨p', hp1, hp2, hpe⟩ := hmem2 p (by omega) (by omega)
        rw [hpe, hfr2 q (Or.inr (by omega))]
        have ep : p' = first + (p' - first) := by omega
        have eq : q = first + (q - first) := by omega
        rw [ep, eq, hv' (p' - first), hv' (q - first)]
        have n2 : ¬ (q - first = 0) := by omega
        have n3 : ¬ (p' - first = i) := by omega
        simp only [n2, n3, if_false]
        -- left: an element of the old heap; right: the old root or an element of the sorted tail
        have hleft : (if p' - first = 0 then vi d (first + i) else vi d (first + (p' - first))) ≤ vi d (first + 0) := by
          split
          · exact hold i h0 (by omega)
          · exact hold (p' - first) (by omega) (by omega)
        by_cases hqi : q - first = i
        · simp only [hqi, if_true]; exact hleft
        · simp only [hqi, if_false]
          have h5 := hcross first (first + (q - first)) (by omega) (by omega) (by omega) (by omega)
          have e0 : first + 0 = first := by omega
          rw [e0] at hleft
          omega
    obtain ⟨d', hr', hrp', hso'⟩ := ih hf (by rw [hs2, hs1]; exact hsz) (by omega) hinv2
    refine ⟨d', hr', ?_, hso'⟩
    have rp1 : RP first (first + hi) d d1 :=
      RP.of_swap hsw ⟨by omega, by omega⟩ ⟨by omega, by omega⟩
    have rp2 : RP first (first + hi) d1 d2 :=
      RP.mono ⟨hs2, hfr2, hmem2⟩ (by omega) (by omega)
    exact (rp1.trans rp2).trans hrp'
  case case2 d i h0 d1 hsw hsd =>
    obtain ⟨hs1, _⟩ := swap_spec hsw
    obtain ⟨d2', hr2, _⟩ := siftDown_spec cf hk d1 first 0 i hf (Int.le_refl _) (by rw [hs1]; omega)
      (pop_sift_pre h0 hinv.1 hsw)
    rw [hr2] at hsd; cases hsd
  case case3 d i h0 d1 hsw hsd =>
    obtain ⟨hs1, _⟩ := swap_spec hsw
    obtain ⟨d2', hr2, _⟩ := siftDown_spec cf hk d1 first 0 i hf (Int.le_refl _) (by rw [hs1]; omega)
      (pop_sift_pre h0 hinv.1 hsw)
    rw [hr2] at hsd; cases hsd
  case case4 d i h0 hsw =>
    obtain ⟨d1, h⟩ := swap_total (d := d) (i := first) (j := first + i) (by omega) (by omega) (by omega) (by omega)
    rw [h] at hsw; cases hsw
  case case5 d i h0 hsw =>
    obtain ⟨d1, h⟩ := swap_total (d := d) (i := first) (j := first + i) (by omega) (by omega) (by omega) (by omega)
    rw [h] at hsw; cases hsw
  case case6 d i h0 =>
    obtain ⟨_, hsorted, _⟩ := hinv
    have : i + 1 ≤ 0 := by omega
    exact ⟨d, rfl, RP.refl _ _ _, fun p q h1 h2 h3 => hsorted p q (by omega) h2 h3⟩


/-- the build loop of `heapSort` starts at or after the last inner node -/
def Cfg.BuildOK (cf : Cfg) : Prop :=
  (cf.heapBuildDiv = 2 ∧ cf.heapBuildSub ≤ 2) ∨ (cf.heapBuildDiv = 1 ∧ cf.heapBuildSub ≤ 1)

/-- `heapSort(data, a, b)` on a valid range: no panic (the fuel of `siftDown` suffices), `data[a:b]` sorted, a
rearrangement of `data[a:b]` -/
theorem heapSort_spec (cf : Cfg) (hk : cf.HeapOK) (hbo : cf.BuildOK) (d : Data) (a b : Int) (h0 : 0 ≤ a) (hab : a ≤ b)
    (hb : b ≤ d.size) :
    ∃ d', heapSort cf d a b = .ok d' ∧ RP a b d d' ∧ SortedOn a b d' := by
  unfold heapSort
  simp only
  have hbuild : ∀ k, Int.tdiv (b - a - cf.heapBuildSub) cf.heapBuildDiv + 1 ≤ k → 0 ≤ k → k < b - a →
      HeapAt d a (b - a) k := by
    intro k hk1 hk0 hk2
    have : 2 * k + 1 ≥ b - a := by
      rcases hbo with ⟨hD, hS⟩ | ⟨hD, hS⟩
      · rw [hD] at hk1
        by_cases hz : 0 ≤ b - a - cf.heapBuildSub
        · have : Int.tdiv (b - a - cf.heapBuildSub) 2 = (b - a - cf.heapBuildSub) / 2 := Int.tdiv_eq_ediv_of_nonneg hz
          rw [this] at hk1; omega
        · omega
      · rw [hD, Int.tdiv_one] at hk1; omega
    exact ⟨fun h => by omega, fun h => by omega⟩
  obtain ⟨d1, hr1, hrp1, hh1⟩ := heapBuild_spec cf hk d (Int.tdiv (b - a - cf.heapBuildSub) cf.heapBuildDiv) (b - a) a h0
    (by omega) hbuild
  rw [hr1]
  simp only
  obtain ⟨d2, hr2, hrp2, hs2⟩ := heapPop_spec cf hk (b - a) d1 (b - a - 1) a h0 (by rw [hrp1.1]; omega) (by omega)
    ⟨by simpa using hh1, fun p q h1 h2 h3 => by omega, fun p q h1 h2 h3 h4 => by omega⟩
  have e : a + (b - a) = b := by omega
  rw [e] at hrp1 hrp2 hs2
  exact ⟨d2, hr2, hrp1.trans hrp2, hs2⟩

end IntSort
