import Mamba.Lemmas.DistanceCCModel
import Mathlib.Data.List.Nodup
import Mathlib.Data.List.Perm.Subperm
namespace GDist
open GraphSpec
open Model (swapRemove)

theorem sortInts_eq {S L : List Nat} (ndS : S.Nodup) (hL : L.Pairwise (· < ·)) (hmem : ∀ x, x ∈ S ↔ x ∈ L) :
    Model.sortInts S = L := by
  have ndL : L.Nodup := hL.imp (fun h => Nat.ne_of_lt h)
  have hperm : (Model.sortInts S).Perm L :=
    (List.mergeSort_perm S _).trans ((List.perm_ext_iff_of_nodup ndS ndL).2 hmem)
  have hs1 : (Model.sortInts S).Pairwise (fun a b => decide (a ≤ b) = true) := by
    unfold Model.sortInts
    apply List.pairwise_mergeSort
    · intro a b c h1 h2; simp at h1 h2 ⊢; omega
    · intro a b; simp; omega
  have hs2 : L.Pairwise (fun a b => decide (a ≤ b) = true) :=
    hL.imp (fun h => by simp; omega)
  refine List.Perm.eq_of_pairwise ?_ hs1 hs2 hperm
  intro a b _ _ h1 h2
  simp at h1 h2; omega

/-- the faithful model of `ConnectedComponent` returns the reference component -/
theorem connectedComponent_eq (g : G) (v : Nat) (hv : v < g.n) (fuel : Nat) (hf : g.n + 1 ≤ fuel) :
    Model.connectedComponent g v fuel = .ok (component g v) := by
  have hn : g.n ≠ 0 := by omega
  unfold Model.connectedComponent
  simp only [hn, if_false]
  have hinj := injA_range g.n
  have hvU : v < (Array.range g.n).size := by simpa using hv
  have hmemU : ∀ x, x ∈ swapRemove (Array.range g.n) v hvU ↔ (x < g.n ∧ x ≠ v) := by
    intro x
    rw [mem_swapRemove hinj]
    simp [Array.mem_range]
  have ff0 : FF g (fun x => x < g.n) v (swapRemove (Array.range g.n) v hvU) [v] [v] :=
    { injU := injA_swapRemove hinj v hvU, ndS := by simp,
      disj := fun x hx hxU => by simp at hx; exact ((hmemU x).1 hxU).2 hx,
      cover := fun x => by
        rw [hmemU]
        constructor
        · rintro (h | h)
          · simp at h; omega
          · exact h.1
        · intro h
          by_cases hx : x = v
          · exact .inl (by simp [hx])
          · exact .inr ⟨h, hx⟩,
      tsub := fun x hx => hx,
      reach := fun s hs => by simp at hs; subst hs; exact ReachIn.refl (List.mem_range.2 hv),
      vS := by simp,
      done := fun s hs hsT => absurd hs hsT }
  obtain ⟨U', S', e, ff⟩ := ccLoop_spec (C := fun x => x < g.n) (fun x h => h) (fun a b _ _ h => h) fuel _ [v] [v] ff0
    (by rw [swapRemove_size]; simp; omega)
  rw [dif_pos hvU, e]
  simp only
  congr 1
  obtain ⟨hS, _⟩ := ff_final ff
  exact sortInts_eq ff.ndS (component_sorted g v) (fun x => by rw [hS, component, mem_componentIn]; rfl)
where
  component_sorted (g : G) (v : Nat) : (component g v).Pairwise (· < ·) :=
    List.pairwise_lt_range.sublist (componentIn_sublist g _ v)

theorem injA_toList_nodup {U : Array Nat} (h : InjA U) : U.toList.Nodup := by
  rw [List.nodup_iff_injective_get]
  intro a b hab
  apply Fin.ext
  exact h a.1 b.1 (by simpa using a.2) (by simpa using b.2) (by simpa using hab)

theorem size_le_of_subset {U V : Array Nat} (h : InjA U) (hsub : ∀ x, x ∈ U → x ∈ V) : U.size ≤ V.size := by
  have := (List.subperm_of_subset (injA_toList_nodup h)
    (fun x hx => Array.mem_toList_iff.2 (hsub x (Array.mem_toList_iff.1 hx)))).length_le
  simpa using this

/-- invariant of the outer loop of `ConnectedComponents` -/
structure CCS (g : G) (U : Array Nat) (comps : List (List Nat)) : Prop where
  injU : InjA U
  ult : ∀ x ∈ U, x < g.n
  closed : ∀ a b, a ∈ U → g.adj a b = true → b < g.n → b ∈ U
  isComp : ∀ c ∈ comps, ∃ s, s < g.n ∧ c = component g s
  notU : ∀ c ∈ comps, ∀ x ∈ c, x ∉ U
  nd : comps.Nodup
  cover : ∀ x, x < g.n → x ∈ U ∨ ∃ c ∈ comps, x ∈ c
  small : U.size ≤ g.n

theorem ccsLoop_spec (g : G) (hsym : ∀ u v, g.adj u v = g.adj v u) (fuel : Nat) (hf : g.n + 1 ≤ fuel) :
    ∀ (k : Nat) (U : Array Nat) (comps : List (List Nat)), CCS g U comps → U.size + 1 ≤ k →
      ∃ cs, Model.ccsLoop g fuel k U comps = .ok cs ∧ CCS g #[] cs := by
  intro k
  induction k with
  | zero => intro U comps _ h; omega
  | succ k ih =>
    intro U comps inv hk
    unfold Model.ccsLoop
    by_cases hU : 0 < U.size
    · simp only [hU, dif_pos]
      have hlast : U.size - 1 < U.size := by omega
      have hvU : U[U.size - 1] ∈ U := Array.getElem_mem hlast
      have hv : U[U.size - 1] < g.n := inv.ult _ hvU
      have hmemP := mem_pop_iff inv.injU hU
      have ff0 : FF g (fun x => x ∈ U) U[U.size - 1] U.pop [U[U.size - 1]] [U[U.size - 1]] :=
        { injU := injA_pop inv.injU, ndS := by simp,
          disj := fun x hx hxU => by simp at hx; exact ((hmemP x).1 hxU).2 hx,
          cover := fun x => by
            rw [hmemP]
            constructor
            · rintro (h | h)
              · simp at h; rw [h]; exact hvU
              · exact h.1
            · intro h
              by_cases hx : x = U[U.size - 1]
              · exact .inl (by simp [hx])
              · exact .inr ⟨h, hx⟩,
          tsub := fun x hx => hx,
          reach := fun s hs => by simp at hs; subst hs; exact ReachIn.refl (List.mem_range.2 hv),
          vS := by simp,
          done := fun s hs hsT => absurd hs hsT }
      obtain ⟨U2, S, e, ff⟩ := ccLoop_spec (C := fun x => x ∈ U) inv.ult inv.closed fuel _ _ _ ff0
        (by have := inv.small; simp; omega)
      rw [e]
      simp only
      obtain ⟨hS, hU2⟩ := ff_final ff
      have hsort : Model.sortInts S = component g U[U.size - 1] :=
        sortInts_eq ff.ndS (List.pairwise_lt_range.sublist (componentIn_sublist g _ _))
          (fun x => by rw [hS, component, mem_componentIn]; rfl)
      rw [hsort]
      have hreachmem : ∀ x, x ∈ component g U[U.size - 1] ↔ Reach g U[U.size - 1] x := fun x => mem_componentIn
      have hU2sz : U2.size ≤ U.size - 1 := by
        have := size_le_of_subset (V := U.pop) ff.injU (fun x hx => by
          have := (hU2 x).1 hx
          rcases (ff0.cover x).2 this.1 with h | h
          · simp at h
            exfalso
            apply this.2
            rw [h]; exact ReachIn.refl (List.mem_range.2 hv)
          · exact h)
        simpa using this
      have inv' : CCS g U2 (comps ++ [component g U[U.size - 1]]) :=
        { injU := ff.injU,
          ult := fun x hx => inv.ult x ((hU2 x).1 hx).1,
          closed := by
            intro a b ha hadj hb
            obtain ⟨haU, hnr⟩ := (hU2 a).1 ha
            refine (hU2 b).2 ⟨inv.closed a b haU hadj hb, ?_⟩
            intro hr
            apply hnr
            have hba : Reach g b a :=
              ⟨1, .step (.base (List.mem_range.2 hb)) (by rw [hsym]; exact hadj) (List.mem_range.2 (inv.ult a haU))⟩
            exact hr.trans hba,
          isComp := by
            intro c hc
            rcases List.mem_append.1 hc with hc | hc
            · exact inv.isComp c hc
            · simp at hc; exact ⟨_, hv, hc⟩,
          notU := by
            intro c hc x hx hxU
            rcases List.mem_append.1 hc with hc | hc
            · exact inv.notU c hc x hx ((hU2 x).1 hxU).1
            · simp at hc; subst hc
              exact ((hU2 x).1 hxU).2 ((hreachmem x).1 hx),
          nd := by
            rw [List.nodup_append]
            refine ⟨inv.nd, by simp, ?_⟩
            intro a ha b hb
            simp at hb; subst hb
            rintro rfl
            have : U[U.size - 1] ∈ component g U[U.size - 1] :=
              (hreachmem _).2 (ReachIn.refl (List.mem_range.2 hv))
            exact inv.notU _ ha _ this hvU,
          cover := by
            intro x hx
            rcases inv.cover x hx with h | ⟨c, hc, hxc⟩
            · by_cases hr : Reach g U[U.size - 1] x
              · exact .inr ⟨_, List.mem_append.2 (.inr (by simp)), (hreachmem x).2 hr⟩
              · exact .inl ((hU2 x).2 ⟨h, hr⟩)
            · exact .inr ⟨c, List.mem_append.2 (.inl hc), hxc⟩,
          small := by
            have := hU2sz
            have := inv.small
            omega }
      exact ih U2 _ inv' (by omega)
    · simp only [hU, dif_neg, not_false_eq_true]
      have : U = #[] := by
        apply Array.eq_empty_of_size_eq_zero; omega
      subst this
      exact ⟨comps, rfl, inv⟩

/-- a duplicate-free list of reference components that covers all vertices is a permutation of `components g` -/
theorem perm_components_of (g : G) (hsym : ∀ u v, g.adj u v = g.adj v u) {cs : List (List Nat)}
    (hnd : cs.Nodup) (hcomp : ∀ c ∈ cs, ∃ s, s < g.n ∧ c = component g s)
    (hcover : ∀ x, x < g.n → ∃ c ∈ cs, x ∈ c) : cs.Perm (components g) := by
  have hV : ∀ r ∈ List.range g.n, r ∈ List.range g.n := fun _ h => h
  have hcl : ∀ x ∈ ([] : List Nat), ∀ y, ReachIn g (List.range g.n) x y → y ∈ ([] : List Nat) :=
    fun x hx => by cases hx
  obtain ⟨h1, h2, _, h4⟩ := componentsFrom_spec hsym (List.range g.n) [] hV hcl
  have hmemc : ∀ s, s < g.n → component g s ∈ components g := by
    intro s hs
    rcases h2 s (List.mem_range.2 hs) with h | ⟨c, hc, hsc⟩
    · cases h
    · obtain ⟨t, _, _, rfl⟩ := h1 c hc
      have : component g s = componentIn g (List.range g.n) t :=
        (componentIn_congr hsym (mem_componentIn.1 hsc)).symm
      rw [this]; exact hc
  have hnd2 : (components g).Nodup := by
    refine List.Pairwise.imp_of_mem ?_ h4
    intro a b ha _ hdis hab
    subst hab
    obtain ⟨t, ht, _, rfl⟩ := h1 a ha
    have : t ∈ componentIn g (List.range g.n) t := mem_componentIn.2 (ReachIn.refl ht)
    exact hdis t this this
  refine (List.perm_ext_iff_of_nodup hnd hnd2).2 ?_
  intro c
  constructor
  · intro hc
    obtain ⟨s, hs, rfl⟩ := hcomp c hc
    exact hmemc s hs
  · intro hc
    obtain ⟨t, ht, _, rfl⟩ := h1 c hc
    have htn := List.mem_range.1 ht
    obtain ⟨c', hc', htc'⟩ := hcover t htn
    obtain ⟨s, hs, rfl⟩ := hcomp c' hc'
    have : component g s = componentIn g (List.range g.n) t := componentIn_congr hsym (mem_componentIn.1 htc')
    rw [← this]; exact hc'

/-- the faithful model of `ConnectedComponents` returns the reference components (in some order) -/
theorem connectedComponents_perm (g : G) (hsym : ∀ u v, g.adj u v = g.adj v u) (fuel : Nat)
    (hf : g.n + 1 ≤ fuel) :
    ∃ cs, Model.connectedComponents g fuel = .ok cs ∧ cs.Perm (components g) := by
  unfold Model.connectedComponents
  by_cases h0 : g.n = 0
  · refine ⟨[], by simp [h0], ?_⟩
    simp [components, componentsIn, componentsFrom, h0]
  by_cases h1 : g.n = 1
  · refine ⟨[[0]], by simp [h1], ?_⟩
    have hc0 : component g 0 = [0] := by
      have hr : (distIn g (List.range g.n) 0 0).isSome = true :=
        distIn_isSome_iff.2 (ReachIn.refl (List.mem_range.2 (by omega)))
      rw [component, componentIn_eq, h1]
      rw [h1] at hr
      have hr' : (distIn g [0] 0 0).isSome = true := by simpa [List.range_succ] using hr
      simp [List.range_succ, hr']
    apply perm_components_of g hsym (by simp)
    · intro c hc
      simp at hc
      exact ⟨0, by omega, by rw [hc, hc0]⟩
    · intro x hx
      exact ⟨[0], by simp, by simp; omega⟩
  simp only [h0, h1, if_false]
  have inv0 : CCS g (Array.range g.n) [] :=
    { injU := injA_range g.n, ult := fun x hx => by simpa [Array.mem_range] using hx,
      closed := fun a b _ _ hb => by simpa [Array.mem_range] using hb,
      isComp := fun c hc => (by cases hc), notU := fun c hc => (by cases hc), nd := (by simp),
      cover := fun x hx => .inl (by simpa [Array.mem_range] using hx), small := by simp }
  obtain ⟨cs, e, inv⟩ := ccsLoop_spec g hsym fuel hf fuel (Array.range g.n) [] inv0 (by simp; omega)
  refine ⟨cs, e, perm_components_of g hsym inv.nd inv.isComp ?_⟩
  intro x hx
  rcases inv.cover x hx with h | h
  · simp at h
  · exact h

end GDist
