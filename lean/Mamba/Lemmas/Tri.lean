import Mamba.Model.GraphRep
import Mathlib.Tactic.Ring
/-!
# Arithmetic of the packed-triangle index `tri j + i` (property C05)

`tri j = j (j-1) / 2` is quadratic, so `omega` cannot see it; everything the model proofs need is derived here
from the recurrence `tri (j+1) = tri j + j`, after which the index facts are linear.
-/
namespace GraphRep

@[simp] theorem tri_zero : tri 0 = 0 := rfl

theorem tri_succ (j : Nat) : tri (j + 1) = tri j + j := by
  unfold tri
  cases j with
  | zero => rfl
  | succ k =>
    have h : (k + 1 + 1) * (k + 1 + 1 - 1) = (k + 1) * (k + 1 - 1) + 2 * (k + 1) := by
      simp only [Nat.add_sub_cancel]; ring
    rw [h, Nat.add_mul_div_left _ _ (by decide : 0 < 2)]

/-- the Go expression `(v*(v+1))/2` used by `RemoveVertex` -/
theorem tri_succ' (v : Nat) : v * (v + 1) / 2 = tri (v + 1) := by
  unfold tri; rw [Nat.add_sub_cancel, Nat.mul_comm]

theorem tri_mono {a b : Nat} (h : a ≤ b) : tri a ≤ tri b := by
  induction h with
  | refl => exact Nat.le_refl _
  | step _ ih => rw [tri_succ]; omega

/-- rows do not overlap: row `j` occupies `[tri j, tri j + j) = [tri j, tri (j+1))` -/
theorem tri_add_lt {i j n : Nat} (hij : i < j) (hjn : j < n) : tri j + i < tri n := by
  have := tri_mono (show j + 1 ≤ n from hjn)
  rw [tri_succ] at this; omega

theorem tri_row_le {i j i' j' : Nat} (hi : i < j) (h : tri j + i ≤ tri j' + i') (hi' : i' < j') : j ≤ j' := by
  by_contra hc
  have hlt : j' + 1 ≤ j := by omega
  have := tri_mono hlt
  rw [tri_succ] at this; omega

/-- `(i, j) ↦ tri j + i` is injective on `i < j` -/
theorem tri_inj {i j i' j' : Nat} (hi : i < j) (hi' : i' < j') (h : tri j + i = tri j' + i') :
    i = i' ∧ j = j' := by
  have h1 := tri_row_le hi (Nat.le_of_eq h) hi'
  have h2 := tri_row_le hi' (Nat.le_of_eq h.symm) hi
  have : j = j' := Nat.le_antisymm h1 h2
  subst this
  exact ⟨by omega, rfl⟩

theorem tri_eq_iff {i j i' j' : Nat} (hi : i < j) (hi' : i' < j') :
    tri j + i = tri j' + i' ↔ i = i' ∧ j = j' :=
  ⟨tri_inj hi hi', fun ⟨a, b⟩ => by subst a; subst b; rfl⟩

/-- every position below `tri n` is the position of exactly one pair `i < j < n` -/
theorem tri_surj {n p : Nat} (hp : p < tri n) : ∃ i j, i < j ∧ j < n ∧ p = tri j + i := by
  induction n with
  | zero => simp at hp
  | succ k ih =>
    rw [tri_succ] at hp
    by_cases h : p < tri k
    · obtain ⟨i, j, h1, h2, h3⟩ := ih h
      exact ⟨i, j, h1, by omega, h3⟩
    · exact ⟨p - tri k, k, by omega, by omega, by omega⟩

end GraphRep
