import Mamba.Lemmas.DistanceBiconStatic5
import Mamba.Lemmas.DistanceBlocks
import Mathlib.Data.List.Sort
/-!
# Transfer of block sets between `g` and the graph of a component
-/
namespace GDist
open GraphSpec Model

variable {g : G} {com : List Nat}

/-- block sets of `g`, as a proposition -/
def BSetG (g : G) (S : List Nat) : Prop :=
  S ≠ [] ∧ (∀ x ∈ S, ∀ y ∈ S, ReachIn g S x y) ∧ ∀ v ∈ S, ¬ SepIn g S v

theorem isBlockSet_iff (hsym : ∀ u v, g.adj u v = g.adj v u) (S : List Nat) :
    isBlockSet g S = true ↔ BSetG g S := by
  unfold isBlockSet BSetG
  simp only [Bool.and_eq_true, Bool.not_eq_true', List.all_eq_true, List.isEmpty_eq_false_iff]
  rw [connectedIn_iff hsym]
  constructor
  · rintro ⟨⟨h1, h2⟩, h3⟩
    refine ⟨h1, h2, fun v hv hs => ?_⟩
    have := h3 v hv
    rw [(isArticIn_iff_sep hsym S v).2 hs] at this
    cases this
  · rintro ⟨h1, h2, h3⟩
    refine ⟨⟨h1, h2⟩, fun v hv => ?_⟩
    cases hA : isArticIn g S v with
    | false => rfl
    | true => exact absurd ((isArticIn_iff_sep hsym S v).1 hA) (h3 v hv)

theorem sorted_sublist_range {S : List Nat} {n : Nat} (hS : S.Pairwise (· < ·)) (hn : ∀ x ∈ S, x < n) :
    S.Sublist (List.range n) := by
  have ndS : S.Nodup := hS.imp (fun h => Nat.ne_of_lt h)
  have hsub : S.Subperm (List.range n) := List.subperm_of_subset ndS (fun x hx => List.mem_range.2 (hn x hx))
  have h1 : S.Pairwise (· ≤ ·) := hS.imp (fun h => Nat.le_of_lt h)
  have h2 : (List.range n).Pairwise (· ≤ ·) := List.pairwise_lt_range.imp (fun h => Nat.le_of_lt h)
  exact List.sublist_of_subperm_of_pairwise hsub h1 h2

section transfer
variable (gc : GoodCom g com) {S : List Nat} (hSc : ∀ x ∈ S, x ∈ com) (hSnd : S.Nodup)
include gc hSc hSnd

theorem local_facts :
    (∀ z ∈ localOf com S, z < com.length ∧ com.getD z 0 ∈ S) ∧
    (∀ z, z < com.length → com.getD z 0 ∈ S → z ∈ localOf com S) ∧
    (∀ x ∈ S, ∃ a, a ∈ localOf com S ∧ com.getD a 0 = x) ∧ (∀ y ∈ S, y < g.n) := by
  refine ⟨fun z hz => mem_localOf.1 hz, fun z hz hm => mem_localOf.2 ⟨hz, hm⟩, ?_, fun y hy => gc.rng y (hSc y hy)⟩
  intro x hx
  obtain ⟨a, ha, hax⟩ := List.getElem_of_mem (hSc x hx)
  have : com.getD a 0 = x := by rw [getD_eq_getElem' ha]; exact hax
  exact ⟨a, mem_localOf.2 ⟨ha, by rw [this]; exact hx⟩, this⟩

theorem reach_local {a b : Nat} (ha : a ∈ localOf com S) (hb : b ∈ localOf com S) :
    ReachIn g S (com.getD a 0) (com.getD b 0) ↔ ReachIn (g.induced com) (localOf com S) a b := by
  obtain ⟨f1, f2, _, f4⟩ := local_facts gc hSc hSnd
  have emb := goodCom_emb gc
  constructor
  · rintro ⟨k, hk⟩
    obtain ⟨b', hb', hbb, hw⟩ := walk_g_to_h gc f4 f2 (f1 a ha).1 hk
    have : b' = b := emb.inj b' b hb' (f1 b hb).1 hbb
    subst this; exact ⟨k, hw⟩
  · rintro ⟨k, hk⟩
    exact ⟨k, walk_h_to_g gc f1 hk⟩

theorem reach_local_erase {i a b : Nat} (hi : i ∈ localOf com S) (ha : a ∈ (localOf com S).erase i)
    (hb : b ∈ (localOf com S).erase i) :
    ReachIn g (S.erase (com.getD i 0)) (com.getD a 0) (com.getD b 0) ↔
      ReachIn (g.induced com) ((localOf com S).erase i) a b := by
  obtain ⟨f1, f2, _, f4⟩ := local_facts gc hSc hSnd
  have emb := goodCom_emb gc
  have hBnd := localOf_nodup (com := com) S
  have e1 : ∀ z ∈ (localOf com S).erase i, z < com.length ∧ com.getD z 0 ∈ S.erase (com.getD i 0) := by
    intro z hz
    obtain ⟨hz1, hz2⟩ := (mem_erase_nodup hBnd).1 hz
    refine ⟨(f1 z hz1).1, (mem_erase_nodup hSnd).2 ⟨(f1 z hz1).2, ?_⟩⟩
    intro h0; exact hz2 (emb.inj z i (f1 z hz1).1 (f1 i hi).1 h0)
  have e2 : ∀ z, z < com.length → com.getD z 0 ∈ S.erase (com.getD i 0) → z ∈ (localOf com S).erase i := by
    intro z hz hm
    obtain ⟨h1, h2⟩ := (mem_erase_nodup hSnd).1 hm
    refine (mem_erase_nodup hBnd).2 ⟨f2 z hz h1, ?_⟩
    intro h0; subst h0; exact h2 rfl
  constructor
  · rintro ⟨k, hk⟩
    obtain ⟨b', hb', hbb, hw⟩ := walk_g_to_h gc (fun y hy => f4 y (List.mem_of_mem_erase hy)) e2 (e1 a ha).1 hk
    have : b' = b := emb.inj b' b hb' (e1 b hb).1 hbb
    subst this; exact ⟨k, hw⟩
  · rintro ⟨k, hk⟩
    exact ⟨k, walk_h_to_g gc e1 hk⟩

theorem sep_local {i : Nat} (hi : i ∈ localOf com S) :
    SepIn g S (com.getD i 0) ↔ SepIn (g.induced com) (localOf com S) i := by
  obtain ⟨f1, f2, f3, f4⟩ := local_facts gc hSc hSnd
  have emb := goodCom_emb gc
  have hBnd := localOf_nodup (com := com) S
  constructor
  · rintro ⟨x, y, hx, hy, hxy, hnr⟩
    obtain ⟨hx1, hx2⟩ := (mem_erase_nodup hSnd).1 hx
    obtain ⟨hy1, hy2⟩ := (mem_erase_nodup hSnd).1 hy
    obtain ⟨a, ha, hax⟩ := f3 x hx1
    obtain ⟨b, hb, hby⟩ := f3 y hy1
    subst hax; subst hby
    have hai : a ≠ i := fun h0 => hx2 (by rw [h0])
    have hbi : b ≠ i := fun h0 => hy2 (by rw [h0])
    have haE := (mem_erase_nodup hBnd).2 ⟨ha, hai⟩
    have hbE := (mem_erase_nodup hBnd).2 ⟨hb, hbi⟩
    exact ⟨a, b, haE, hbE, (reach_local gc hSc hSnd ha hb).1 hxy,
      fun hr => hnr ((reach_local_erase gc hSc hSnd hi haE hbE).2 hr)⟩
  · rintro ⟨a, b, haE, hbE, hab, hnr⟩
    obtain ⟨ha, hai⟩ := (mem_erase_nodup hBnd).1 haE
    obtain ⟨hb, hbi⟩ := (mem_erase_nodup hBnd).1 hbE
    have hne : ∀ z, z ∈ localOf com S → z ≠ i → com.getD z 0 ∈ S.erase (com.getD i 0) := by
      intro z hz hzi
      refine (mem_erase_nodup hSnd).2 ⟨(f1 z hz).2, ?_⟩
      intro h0; exact hzi (emb.inj z i (f1 z hz).1 (f1 i hi).1 h0)
    exact ⟨com.getD a 0, com.getD b 0, hne a ha hai, hne b hb hbi, (reach_local gc hSc hSnd ha hb).2 hab,
      fun hr => hnr ((reach_local_erase gc hSc hSnd hi haE hbE).1 hr)⟩

/-- **block sets of `g` inside a component are the block sets of the component graph** -/
theorem bset_local : BSetG g S ↔ BSet (g.induced com) (localOf com S) := by
  obtain ⟨f1, f2, f3, f4⟩ := local_facts gc hSc hSnd
  have hBnd := localOf_nodup (com := com) S
  constructor
  · rintro ⟨hne, hconn, hns⟩
    refine ⟨?_, hBnd, fun x hx => (f1 x hx).1, ?_, ?_⟩
    · obtain ⟨x, t, hxt⟩ := List.exists_cons_of_ne_nil hne
      obtain ⟨a, ha, _⟩ := f3 x (by rw [hxt]; exact List.mem_cons_self)
      exact List.ne_nil_of_mem ha
    · intro a ha b hb
      exact (reach_local gc hSc hSnd ha hb).1 (hconn _ (f1 a ha).2 _ (f1 b hb).2)
    · intro i hi hs
      exact hns _ (f1 i hi).2 ((sep_local gc hSc hSnd hi).2 hs)
  · rintro ⟨hne, _, _, hconn, hns⟩
    refine ⟨?_, ?_, ?_⟩
    · obtain ⟨a, t, hat⟩ := List.exists_cons_of_ne_nil hne
      exact List.ne_nil_of_mem (f1 a (by rw [hat]; exact List.mem_cons_self)).2
    · intro x hx y hy
      obtain ⟨a, ha, hax⟩ := f3 x hx
      obtain ⟨b, hb, hby⟩ := f3 y hy
      subst hax; subst hby
      exact (reach_local gc hSc hSnd ha hb).2 (hconn a ha b hb)
    · intro v hv hs
      obtain ⟨i, hi, hiv⟩ := f3 v hv
      subst hiv
      exact hns i hi ((sep_local gc hSc hSnd hi).1 hs)

end transfer

/-- a connected vertex set that meets a component lies inside it -/
theorem conn_in_com (gc : GoodCom g com) {T : List Nat} (hTn : ∀ x ∈ T, x < g.n)
    (hconn : ∀ x ∈ T, ∀ y ∈ T, ReachIn g T x y) {a : Nat} (haT : a ∈ T) (hac : a ∈ com) : ∀ x ∈ T, x ∈ com :=
  fun x hx => goodCom_reach_closed gc hac
    (reachIn_mono (fun y hy => List.mem_range.2 (hTn y hy)) (hconn a haT x hx))

end GDist
