import Mamba.Spec.Dawg
import Mamba.Lemmas.DawgSearch
/-! Partial correctness of the explicit-stack traversal shared by `listNodesCountEdges` and `GobEncode`
(`dfsInner` / `dfsLoop`): when it returns, every reachable node has been inserted exactly once. -/
namespace Dawg

/-- every link of a visited node leads to a visited node, or a pending stack entry / the running inner loop will
still examine it -/
def Covered (h : Heap) (V : List Nat) (entries : List (Nat × Nat)) (extra : Option (Nat × Nat)) : Prop :=
  ∀ X n k q, X ∈ V → h[X]? = some n → n.links[k]? = some q →
    q ∈ V ∨ (∃ nxt, (X, nxt) ∈ entries ∧ nxt ≤ k) ∨ (∃ j, extra = some (X, j) ∧ j ≤ k)

structure InvBase (d : Dawg) (V : List Nat) (st : DfsSt) : Prop where
  sorted : st.nodes.Pairwise (· ≤ ·)
  vreach : ∀ p ∈ V, Reach d.heap d.root p
  vroot : d.root ∈ V
  seen : ∀ c n, Reach d.heap d.root c → c ≠ d.root → d.heap[c]? = some n → (n.id ∈ st.nodes ↔ c ∈ V)
  stackV : ∀ e ∈ st.stack, e.1 ∈ V

/-- outcome of one run of the inner loop -/
structure InnerPost (d : Dawg) (emit : Option (Nat → Nat)) (V : List Nat) (st st' : DfsSt) (b : Bool) : Prop where
  notFound : b = false → InvBase d V st' ∧ Covered d.heap V st'.stack.tail none ∧ st'.stack ≠ [] ∧
      st'.out = st.out ∧ st'.nodes = st.nodes
  found : b = true → ∃ c cn, c ∉ V ∧ d.heap[c]? = some cn ∧ InvBase d (V ++ [c]) st' ∧
      Covered d.heap (V ++ [c]) st'.stack none ∧ st'.nodes.Perm (cn.id :: st.nodes) ∧
      (match emit with
       | none => st'.out = st.out
       | some conv => ∃ r, encRecord d.heap conv cn = .ok r ∧ st'.out = st.out ++ r)

theorem getNode_eq_ok {h : Heap} {p : Nat} {n : Node} : getNode h p = .ok n ↔ h[p]? = some n := by
  unfold getNode
  split <;> simp_all

theorem getNode_of_some {h : Heap} {p : Nat} {n : Node} (hp : h[p]? = some n) : getNode h p = .ok n :=
  getNode_eq_ok.2 hp

theorem dfsInner_spec (d : Dawg) (wf : WF d) (emit : Option (Nat → Nat)) (pT : Nat) (T : Node)
    (hT : d.heap[pT]? = some T) (hTr : Reach d.heap d.root pT) :
    ∀ (labs : List Nat) (j : Nat) (st : DfsSt) (V : List Nat) (st' : DfsSt) (b : Bool),
      labs.length = T.links.length - j →
      InvBase d V st →
      pT ∈ V →
      Covered d.heap V st.stack.tail (some (pT, j)) →
      (st.stack.head? = some (pT, j) ∨ ∃ nxt, (pT, nxt) ∈ st.stack.tail ∧ nxt ≤ j) →
      st.stack ≠ [] →
      dfsInner emit d.heap T labs j st = .ok (st', b) →
      InnerPost d emit V st st' b := by
  intro labs
  induction labs with
  | nil =>
    intro j st V st' b hlen hinv hpV hcov htop hne hres
    simp only [dfsInner, Outcome.ok.injEq, Prod.mk.injEq] at hres
    obtain ⟨rfl, rfl⟩ := hres
    refine ⟨fun _ => ⟨hinv, ?_, hne, rfl, rfl⟩, fun h => by cases h⟩
    intro X n k q hX hn hk
    rcases hcov X n k q hX hn hk with h1 | h1 | ⟨j', hj', hjk⟩
    · exact Or.inl h1
    · exact Or.inr (Or.inl h1)
    · exfalso
      simp only [Option.some.injEq, Prod.mk.injEq] at hj'
      obtain ⟨rfl, rfl⟩ := hj'
      rw [hT] at hn
      cases hn
      have : k < T.links.length := by
        rcases List.getElem?_eq_some_iff.1 hk with ⟨hlt, _⟩
        exact hlt
      simp at hlen
      omega
  | cons lab labs ih =>
    intro j st V st' b hlen hinv hpV hcov htop hne hres
    simp only [dfsInner] at hres
    have hjlt : j < T.links.length := by simp at hlen; omega
    have hlen' : labs.length = T.links.length - (j + 1) := by
      have h0 : labs.length + 1 = T.links.length - j := by simpa using hlen
      omega
    have hc : T.links[j]? = some (T.links[j]) := List.getElem?_eq_getElem hjlt
    generalize hcdef : T.links[j] = c at hc
    rw [hc] at hres
    simp only at hres
    -- the child is reachable, exists, is not the root
    have hcmem : c ∈ T.links := by rw [← hcdef]; exact List.getElem_mem hjlt
    have hcr : Reach d.heap d.root c := Reach.step hTr hT hcmem
    obtain ⟨cn, hcn⟩ := wf.closed c hcr
    have hcroot : c ≠ d.root := by
      intro h; exact wf.noBack pT T hTr hT (h ▸ hcmem)
    cases hst : st.stack with
    | nil => exact absurd hst hne
    | cons top below =>
      obtain ⟨tp, tn⟩ := top
      rw [hst] at hres
      simp only [getNode_of_some hcn] at hres
      rw [hst] at hcov htop
      simp only [List.tail_cons, List.head?_cons, Option.some.injEq, Prod.mk.injEq] at hcov htop
      have htpV : tp ∈ V := hinv.stackV (tp, tn) (by rw [hst]; exact List.mem_cons_self)
      have hbelowV : ∀ e ∈ below, e.1 ∈ V := fun e he => hinv.stackV e (by rw [hst]; exact List.mem_cons_of_mem _ he)
      by_cases hseen : st.nodes[searchGE st.nodes cn.id]? = some cn.id
      · -- already seen: continue the inner loop
        rw [if_pos hseen] at hres
        have hcV : c ∈ V := (hinv.seen c cn hcr hcroot hcn).1 ((get_searchGE_iff _ _ hinv.sorted).1 hseen)
        have hinv' : InvBase d V { st with stack := (c, 0) :: (tp, j + 1) :: below } := by
          refine ⟨hinv.sorted, hinv.vreach, hinv.vroot, hinv.seen, ?_⟩
          intro e he
          simp only [List.mem_cons] at he
          rcases he with rfl | rfl | he
          · exact hcV
          · exact htpV
          · exact hbelowV e he
        have := ih (j + 1) { st with stack := (c, 0) :: (tp, j + 1) :: below } V st' b
          hlen' hinv' hpV ?_ ?_ (by simp) hres
        · refine ⟨fun hb => ?_, fun hb => ?_⟩
          · obtain ⟨h1, h2, h3, h4, h5⟩ := this.notFound hb
            exact ⟨h1, h2, h3, h4, h5⟩
          · exact this.found hb
        · -- coverage
          intro X n k q hX hn hk
          simp only [List.tail_cons]
          rcases hcov X n k q hX hn hk with h1 | ⟨nxt, h1, h2⟩ | ⟨j', hj', hjk⟩
          · exact Or.inl h1
          · exact Or.inr (Or.inl ⟨nxt, List.mem_cons_of_mem _ h1, h2⟩)
          · simp only [Option.some.injEq, Prod.mk.injEq] at hj'
            obtain ⟨rfl, rfl⟩ := hj'
            by_cases hkj : k = j
            · rw [hkj] at hk
              rw [hT] at hn; cases hn
              rw [hc] at hk; cases hk
              exact Or.inl hcV
            · exact Or.inr (Or.inr ⟨j + 1, rfl, by omega⟩)
        · simp only [List.tail_cons, List.head?_cons]
          right
          rcases htop with ⟨rfl, rfl⟩ | ⟨nxt, h1, h2⟩
          · exact ⟨tn + 1, List.mem_cons_self, Nat.le_refl _⟩
          · exact ⟨nxt, List.mem_cons_of_mem _ h1, by omega⟩
      · -- a new node
        rw [if_neg hseen] at hres
        have hcV : c ∉ V := fun hV => hseen ((get_searchGE_iff _ _ hinv.sorted).2 ((hinv.seen c cn hcr hcroot hcn).2 hV))
        -- facts independent of `emit`
        have hbase : ∀ out, InvBase d (V ++ [c])
            { nodes := insertAt st.nodes (searchGE st.nodes cn.id) cn.id, stack := (c, 0) :: (tp, j + 1) :: below, out := out } := by
          intro out
          refine ⟨sorted_insertAt _ _ hinv.sorted, ?_, ?_, ?_, ?_⟩
          · intro p hp
            rw [List.mem_append, List.mem_singleton] at hp
            rcases hp with hp | rfl
            · exact hinv.vreach p hp
            · exact hcr
          · exact List.mem_append_left _ hinv.vroot
          · intro c' n' hc'r hc'root hn'
            simp only [mem_insertAt, List.mem_append, List.mem_singleton]
            constructor
            · rintro (h1 | h1)
              · right; exact wf.idInj c' c n' cn hc'r hcr hn' hcn h1
              · left; exact (hinv.seen c' n' hc'r hc'root hn').1 h1
            · rintro (h1 | h1)
              · right; exact (hinv.seen c' n' hc'r hc'root hn').2 h1
              · left; subst h1; rw [hcn] at hn'; cases hn'; rfl
          · intro e he
            simp only [List.mem_cons] at he
            rcases he with rfl | rfl | he
            · simp
            · exact List.mem_append_left _ htpV
            · exact List.mem_append_left _ (hbelowV e he)
        have hcover : Covered d.heap (V ++ [c]) ((c, 0) :: (tp, j + 1) :: below) none := by
          intro X n k q hX hn hk
          rw [List.mem_append, List.mem_singleton] at hX
          rcases hX with hX | rfl
          · rcases hcov X n k q hX hn hk with h1 | ⟨nxt, h1, h2⟩ | ⟨j', hj', hjk⟩
            · exact Or.inl (List.mem_append_left _ h1)
            · exact Or.inr (Or.inl ⟨nxt, List.mem_cons_of_mem _ (List.mem_cons_of_mem _ h1), h2⟩)
            · simp only [Option.some.injEq, Prod.mk.injEq] at hj'
              obtain ⟨rfl, rfl⟩ := hj'
              rw [hT] at hn; cases hn
              by_cases hkj : k = j
              · rw [hkj] at hk
                rw [hc] at hk; cases hk
                exact Or.inl (by simp)
              · right; left
                rcases htop with ⟨rfl, rfl⟩ | ⟨nxt, h1, h2⟩
                · exact ⟨tn + 1, by simp, by omega⟩
                · exact ⟨nxt, List.mem_cons_of_mem _ (List.mem_cons_of_mem _ h1), by omega⟩
          · exact Or.inr (Or.inl ⟨0, List.mem_cons_self, Nat.zero_le _⟩)
        cases emit with
        | none =>
          simp only [Outcome.ok.injEq, Prod.mk.injEq] at hres
          obtain ⟨rfl, rfl⟩ := hres
          refine ⟨(fun h => by cases h), fun _ => ⟨c, cn, hcV, hcn, hbase _, hcover, insertAt_perm _ _ _, rfl⟩⟩
        | some conv =>
          simp only at hres
          cases henc : encRecord d.heap conv cn with
          | ok r =>
            rw [henc] at hres
            simp only [Outcome.ok.injEq, Prod.mk.injEq] at hres
            obtain ⟨rfl, rfl⟩ := hres
            exact ⟨(fun h => by cases h), fun _ => ⟨c, cn, hcV, hcn, hbase _, hcover, insertAt_perm _ _ _, r, henc, rfl⟩⟩
          | panic => rw [henc] at hres; cases hres
          | outOfFuel => rw [henc] at hres; cases hres

/-- `ids` are the ids of the nodes `ps`, in order -/
inductive IdsOf (h : Heap) : List Nat → List Nat → Prop where
  | nil : IdsOf h [] []
  | cons {c : Nat} {cn : Node} {ps ids : List Nat} : h[c]? = some cn → IdsOf h ps ids → IdsOf h (c :: ps) (cn.id :: ids)

theorem IdsOf.snoc {h : Heap} {ps ids : List Nat} {c : Nat} {cn : Node} (hi : IdsOf h ps ids) (hc : h[c]? = some cn) :
    IdsOf h (ps ++ [c]) (ids ++ [cn.id]) := by
  induction hi with
  | nil => exact IdsOf.cons hc IdsOf.nil
  | cons h1 _ ih => exact IdsOf.cons h1 ih

/-- `bs` is the concatenation of the records of the nodes `ps`, in order -/
inductive Emitted (h : Heap) (conv : Nat → Nat) : List Nat → List Nat → Prop where
  | nil : Emitted h conv [] []
  | cons {c : Nat} {cn : Node} {r : List Nat} {ps bs : List Nat} :
      h[c]? = some cn → encRecord h conv cn = .ok r → Emitted h conv ps bs → Emitted h conv (c :: ps) (r ++ bs)

theorem Emitted.snoc {h : Heap} {conv : Nat → Nat} {ps bs : List Nat} {c : Nat} {cn : Node} {r : List Nat}
    (he : Emitted h conv ps bs) (hc : h[c]? = some cn) (hr : encRecord h conv cn = .ok r) :
    Emitted h conv (ps ++ [c]) (bs ++ r) := by
  induction he with
  | nil => simpa using Emitted.cons hc hr Emitted.nil
  | cons h1 h2 _ ih => rw [List.append_assoc]; exact Emitted.cons h1 h2 ih

def OutRel (h : Heap) (emit : Option (Nat → Nat)) (out0 : List Nat) (tl : List Nat) (out : Array Nat) : Prop :=
  match emit with
  | none => True
  | some conv => ∃ bs, Emitted h conv tl bs ∧ out.toList = out0 ++ bs

structure InvLoop (d : Dawg) (emit : Option (Nat → Nat)) (nodes0 out0 : List Nat) (tl : List Nat) (st : DfsSt) : Prop where
  base : InvBase d (d.root :: tl) st
  cover : Covered d.heap (d.root :: tl) st.stack none
  nodup : (d.root :: tl).Nodup
  ids : ∃ I, IdsOf d.heap tl I ∧ st.nodes.Perm (nodes0 ++ I)
  out : OutRel d.heap emit out0 tl st.out

/-- what holds when the traversal returns -/
structure DfsPost (d : Dawg) (emit : Option (Nat → Nat)) (nodes0 out0 : List Nat) (tl : List Nat) (st : DfsSt) : Prop where
  nodup : (d.root :: tl).Nodup
  all : ∀ p, Reach d.heap d.root p ↔ p ∈ d.root :: tl
  sorted : st.nodes.Pairwise (· ≤ ·)
  ids : ∃ I, IdsOf d.heap tl I ∧ st.nodes.Perm (nodes0 ++ I)
  out : OutRel d.heap emit out0 tl st.out

theorem closure_of_covered (d : Dawg) (V : List Nat) (hroot : d.root ∈ V) (hc : Covered d.heap V [] none) :
    ∀ p, Reach d.heap d.root p → p ∈ V := by
  intro p hp
  induction hp with
  | root => exact hroot
  | step _ hn hq ih =>
    obtain ⟨k, hk, hkq⟩ := List.getElem_of_mem hq
    have hk' := List.getElem?_eq_getElem hk
    rw [hkq] at hk'
    rcases hc _ _ k _ ih hn hk' with h1 | ⟨_, h1, _⟩ | ⟨_, h1, _⟩
    · exact h1
    · cases h1
    · cases h1

theorem dfsLoop_spec (d : Dawg) (wf : WF d) (emit : Option (Nat → Nat)) (nodes0 out0 : List Nat) :
    ∀ (fuel : Nat) (st : DfsSt) (tl : List Nat) (st' : DfsSt),
      InvLoop d emit nodes0 out0 tl st →
      dfsLoop emit d.heap fuel st = .ok st' →
      ∃ tl', DfsPost d emit nodes0 out0 tl' st' := by
  intro fuel
  induction fuel with
  | zero => intro st tl st' _ hres; simp [dfsLoop] at hres
  | succ fuel ih =>
    intro st tl st' hinv hres
    simp only [dfsLoop] at hres
    cases hst : st.stack with
    | nil => rw [hst] at hres; cases hres
    | cons top rest =>
      obtain ⟨p, nxt⟩ := top
      rw [hst] at hres
      simp only at hres
      have hpV : p ∈ d.root :: tl := hinv.base.stackV (p, nxt) (by rw [hst]; exact List.mem_cons_self)
      have hpr := hinv.base.vreach p hpV
      obtain ⟨T, hT⟩ := wf.closed p hpr
      rw [getNode_of_some hT] at hres
      simp only at hres
      cases hin : dfsInner emit d.heap T (List.drop nxt T.labels) nxt st with
      | panic => rw [hin] at hres; cases hres
      | outOfFuel => rw [hin] at hres; cases hres
      | ok res =>
        obtain ⟨st1, b⟩ := res
        rw [hin] at hres
        have hlen : (List.drop nxt T.labels).length = T.links.length - nxt := by
          rw [List.length_drop, wf.lens p T hpr hT]
        have hcov : Covered d.heap (d.root :: tl) st.stack.tail (some (p, nxt)) := by
          intro X n k q hX hn hk
          rcases hinv.cover X n k q hX hn hk with h1 | ⟨nxt', h1, h2⟩ | ⟨_, h1, _⟩
          · exact Or.inl h1
          · rw [hst, List.mem_cons] at h1
            rcases h1 with h1 | h1
            · simp only [Prod.mk.injEq] at h1
              obtain ⟨rfl, rfl⟩ := h1
              exact Or.inr (Or.inr ⟨nxt', rfl, h2⟩)
            · exact Or.inr (Or.inl ⟨nxt', by rw [hst]; exact h1, h2⟩)
          · cases h1
        have hpost := dfsInner_spec d wf emit p T hT hpr _ nxt st (d.root :: tl) st1 b hlen hinv.base hpV hcov
          (Or.inl (by rw [hst]; rfl)) (by rw [hst]; simp) hin
        cases b with
        | true =>
          simp only at hres
          obtain ⟨c, cn, hcV, hcn, hbase, hcover, hperm, hout⟩ := hpost.found rfl
          obtain ⟨I, hI, hIperm⟩ := hinv.ids
          refine ih st1 (tl ++ [c]) st' ⟨by simpa using hbase, by simpa using hcover, ?_, ?_, ?_⟩ hres
          · have : (d.root :: tl ++ [c]).Nodup := by
              rw [List.nodup_append]
              refine ⟨hinv.nodup, by simp, ?_⟩
              intro a ha b hb
              simp only [List.mem_singleton] at hb
              subst hb
              intro hab; subst hab; exact hcV ha
            simpa using this
          · refine ⟨I ++ [cn.id], hI.snoc hcn, ?_⟩
            refine hperm.trans ?_
            refine (List.Perm.cons _ hIperm).trans ?_
            rw [← List.append_assoc]
            exact (List.perm_append_singleton _ _).symm
          · unfold OutRel
            have ho := hinv.out
            unfold OutRel at ho
            cases emit with
            | none => trivial
            | some conv =>
              simp only at ho hout ⊢
              obtain ⟨bs, hbs, hobs⟩ := ho
              obtain ⟨r, hr, hor⟩ := hout
              refine ⟨bs ++ r, hbs.snoc hcn hr, ?_⟩
              rw [hor]; simp [hobs]
        | false =>
          simp only at hres
          obtain ⟨hbase, hcover, hne, hout, hnodes⟩ := hpost.notFound rfl
          cases hst1 : st1.stack with
          | nil => exact absurd hst1 hne
          | cons top1 rest1 =>
            rw [hst1] at hres hcover
            simp only [List.tail_cons] at hcover
            cases rest1 with
            | nil =>
              simp only [Outcome.ok.injEq] at hres
              subst hres
              refine ⟨tl, hinv.nodup, ?_, hbase.sorted, ?_, ?_⟩
              · intro q
                exact ⟨closure_of_covered d _ hbase.vroot hcover q, hbase.vreach q⟩
              · simpa [hnodes] using hinv.ids
              · simpa [hout] using hinv.out
            | cons e2 rest2 =>
              simp only at hres
              refine ih _ tl st' ⟨?_, hcover, hinv.nodup, ?_, ?_⟩ hres
              · refine ⟨hbase.sorted, hbase.vreach, hbase.vroot, hbase.seen, ?_⟩
                intro e he
                exact hbase.stackV e (by rw [hst1]; exact List.mem_cons_of_mem _ he)
              · simpa [hnodes] using hinv.ids
              · simpa [hout] using hinv.out

end Dawg
