import Mamba.Lemmas.DistanceBiconArt
import Mamba.Lemmas.DistanceIPaths4
import Mamba.Lemmas.DistanceICycles5
import Mamba.Lemmas.DistanceBiconCover
import Mamba.Lemmas.DistanceCCModel2
/-!
# Articulation vertices reported by the model = `articulation g`
-/
namespace GDist
open GraphSpec Model

variable {h : G} {st : BicSt} {tp : Nat → Nat}

namespace DFinal
variable (df : DFinal h st tp)
include df

/-- `isArticulation[i]` for a non-root `i` at the end of the DFS -/
theorem isA_iff {i : Nat} (hi : i < h.n) (hi0 : i ≠ 0) :
    isA st i = true ↔ ∃ c, c < h.n ∧ c ≠ 0 ∧ tp c = i ∧ lo st c ≥ dI st i := by
  constructor
  · intro ha
    obtain ⟨_, c, hc, _, _, hc0, htc, hlc⟩ := df.la.ar4 i hi ha
    exact ⟨c, hc, hc0, htc, hlc⟩
  · rintro ⟨c, hc, hc0, htc, hlc⟩
    rcases df.la.ar1 c hc (df.hall c hc) hc0 with h1 | h1
    · exfalso
      obtain ⟨rest, hr, _⟩ := df.la.ar3 c hc (df.hall c hc) (df.fin c) hc0 h1 (by rw [htc]; exact hi0)
        (by rw [htc]; exact hlc)
      rw [df.hemp] at hr; cases hr
    · have := (df.la.ar2 c hc (df.hall c hc) hc0 h1).2.2.2
      rwa [htc] at this

/-- `childCount >= 2` iff the root has two different children -/
theorem childCount_iff :
    2 ≤ st.childCount ↔ ∃ c1 c2, c1 ≠ c2 ∧ c1 < h.n ∧ c2 < h.n ∧ c1 ≠ 0 ∧ c2 ≠ 0 ∧ tp c1 = 0 ∧ tp c2 = 0 := by
  obtain ⟨L, hnd, hlen, hmem⟩ := df.la.ar5
  constructor
  · intro h2
    rw [← hlen] at h2
    match L, hnd, h2, hmem with
    | a :: b :: t, hnd, _, hmem =>
      have ha := (hmem a).1 (by simp)
      have hb := (hmem b).1 (by simp)
      have hab : a ≠ b := by
        intro h0; subst h0
        simp at hnd
      exact ⟨a, b, hab, ha.1, hb.1, ha.2.2.1, hb.2.2.1, ha.2.2.2, hb.2.2.2⟩
  · rintro ⟨c1, c2, hne, h1, h2, h10, h20, ht1, ht2⟩
    have m1 := (hmem c1).2 ⟨h1, df.hall c1 h1, h10, ht1⟩
    have m2 := (hmem c2).2 ⟨h2, df.hall c2 h2, h20, ht2⟩
    have hnd2 : [c1, c2].Nodup := by simp [hne]
    have := (List.subperm_of_subset hnd2 (fun x hx => by
      simp at hx
      rcases hx with rfl | rfl
      · exact m1
      · exact m2)).length_le
    simp at this
    omega

/-- the vertices reported as articulation vertices of the component (local labels) are those satisfying the DFS
criterion -/
theorem reported_iff {i : Nat} (hi : i < h.n) :
    (st.isArt.setIfInBounds 0 (decide (2 ≤ st.childCount))).getD i false = true ↔ Crit h st tp i := by
  have hsz : 0 < st.isArt.size := by rw [df.dt.ok.asz]; omega
  rw [getD_setIfInBounds _ _ _ _ _ hsz]
  by_cases hi0 : i = 0
  · subst hi0
    simp only [if_true, decide_eq_true_eq]
    rw [df.childCount_iff]
    unfold Crit
    constructor
    · intro hc; exact .inr ⟨rfl, hc⟩
    · rintro (⟨h0, _⟩ | ⟨_, hc⟩)
      · exact absurd rfl h0
      · exact hc
  · simp only [hi0, if_false]
    have : st.isArt.getD i false = isA st i := rfl
    rw [this, df.isA_iff hi hi0]
    unfold Crit
    constructor
    · intro hc; exact .inl ⟨hi0, hc⟩
    · rintro (⟨_, hc⟩ | ⟨h0, _⟩)
      · exact hc
      · exact absurd h0 hi0

end DFinal

/-! ### transfer of the separation property between `g` and the component graph -/

variable {g : G} {com : List Nat}

theorem goodCom_reach_closed (gc : GoodCom g com) {x y : Nat} (hx : x ∈ com)
    (hr : ReachIn g (List.range g.n) x y) : y ∈ com := by
  obtain ⟨k, hk⟩ := hr
  induction hk with
  | base _ => exact hx
  | step _ hadj hy ih => exact gc.closed _ ih _ hadj (List.mem_range.1 hy)


variable {Vh Vg : List Nat}

/-- walks of the component graph are walks of `g` (through `com`) -/
theorem walk_h_to_g (gc : GoodCom g com) (h1 : ∀ z ∈ Vh, z < com.length ∧ com.getD z 0 ∈ Vg) {a b k : Nat}
    (hw : WalkIn (g.induced com) Vh a b k) : WalkIn g Vg (com.getD a 0) (com.getD b 0) k := by
  have emb := goodCom_emb gc
  induction hw with
  | base ha => exact .base (h1 _ ha).2
  | @step u x k hwu hadj hx ih =>
    refine .step ih ?_ (h1 _ hx).2
    rw [← emb.adj u x (h1 _ hwu.mem_V).1 (h1 _ hx).1]; exact hadj

theorem walk_g_to_h (gc : GoodCom g com) (hVg : ∀ y ∈ Vg, y < g.n)
    (h2 : ∀ z, z < com.length → com.getD z 0 ∈ Vg → z ∈ Vh) {a y k : Nat} (ha : a < com.length)
    (hw : WalkIn g Vg (com.getD a 0) y k) :
    ∃ b, b < com.length ∧ com.getD b 0 = y ∧ WalkIn (g.induced com) Vh a b k := by
  have emb := goodCom_emb gc
  induction hw with
  | base hm => exact ⟨a, ha, rfl, .base (h2 a ha hm)⟩
  | @step u x k _ hadj hx ih =>
    obtain ⟨b0, hb0, hb0u, hwb⟩ := ih
    rw [← hb0u] at hadj
    obtain ⟨b1, hb1, hb1x⟩ := emb.closed b0 x hb0 (hVg x hx) hadj
    refine ⟨b1, hb1, hb1x, .step hwb ?_ (h2 b1 hb1 (by rw [hb1x]; exact hx))⟩
    rw [emb.adj b0 b1 hb0 hb1, hb1x]; exact hadj

theorem mem_range_erase {n i z : Nat} : z ∈ (List.range n).erase i ↔ z < n ∧ z ≠ i := by
  rw [List.Nodup.mem_erase_iff List.nodup_range, List.mem_range]
  exact ⟨fun h => ⟨h.2, h.1⟩, fun h => ⟨h.2, h.1⟩⟩

/-- **`com[i]` separates two vertices of `g` iff `i` separates two vertices of the component graph** -/
theorem sep_transfer (gc : GoodCom g com) (hsym : ∀ u v, g.adj u v = g.adj v u) {i : Nat} (hi : i < com.length) :
    SepIn g (List.range g.n) (com.getD i 0) ↔ SepIn (g.induced com) (List.range (g.induced com).n) i := by
  have emb := goodCom_emb gc
  have hn : (g.induced com).n = com.length := rfl
  rw [hn]
  have hvm : com.getD i 0 ∈ com := by rw [getD_eq_getElem' hi]; exact List.getElem_mem hi
  -- the index maps between the vertex sets
  have e1 : ∀ z ∈ (List.range com.length).erase i,
      z < com.length ∧ com.getD z 0 ∈ (List.range g.n).erase (com.getD i 0) := by
    intro z hz
    obtain ⟨hz1, hz2⟩ := mem_range_erase.1 hz
    refine ⟨hz1, mem_range_erase.2 ⟨emb.rng z hz1, ?_⟩⟩
    intro h0; exact hz2 (emb.inj z i hz1 hi h0)
  have e2 : ∀ z, z < com.length → com.getD z 0 ∈ (List.range g.n).erase (com.getD i 0) →
      z ∈ (List.range com.length).erase i := by
    intro z hz hm
    refine mem_range_erase.2 ⟨hz, ?_⟩
    intro h0; subst h0
    exact (mem_range_erase.1 hm).2 rfl
  have r1 : ∀ z ∈ List.range com.length, z < com.length ∧ com.getD z 0 ∈ List.range g.n :=
    fun z hz => ⟨List.mem_range.1 hz, List.mem_range.2 (emb.rng z (List.mem_range.1 hz))⟩
  have r2 : ∀ z, z < com.length → com.getD z 0 ∈ List.range g.n → z ∈ List.range com.length :=
    fun z hz _ => List.mem_range.2 hz
  constructor
  · rintro ⟨x, y, hx, hy, hxy, hnr⟩
    obtain ⟨k, hk⟩ := hxy
    have hxv : ReachIn g (List.range g.n) x (com.getD i 0) := by
      rcases walk_avoid_or_reach hx hk with ⟨j, hj⟩ | h0
      · exact absurd ⟨j, hj⟩ hnr
      · exact h0
    have hxc : x ∈ com := goodCom_reach_closed gc hvm (hxv.symm hsym)
    obtain ⟨a, ha, hax⟩ := List.getElem_of_mem hxc
    have hax' : com.getD a 0 = x := by rw [getD_eq_getElem' ha]; exact hax
    rw [← hax'] at hk hnr hx
    obtain ⟨b, hb, hby, hwab⟩ := walk_g_to_h gc (fun y hy => List.mem_range.1 hy) r2 ha hk
    rw [← hby] at hnr hy
    refine ⟨a, b, e2 a ha hx, e2 b hb hy, ⟨k, hwab⟩, ?_⟩
    rintro ⟨j, hj⟩
    exact hnr ⟨j, walk_h_to_g gc e1 hj⟩
  · rintro ⟨a, b, ha, hb, hab, hnr⟩
    obtain ⟨k, hk⟩ := hab
    refine ⟨com.getD a 0, com.getD b 0, (e1 a ha).2, (e1 b hb).2, ⟨k, walk_h_to_g gc r1 hk⟩, ?_⟩
    rintro ⟨j, hj⟩
    obtain ⟨b', hb', hbb, hw⟩ := walk_g_to_h gc (fun y hy => List.mem_range.1 (List.mem_of_mem_erase hy)) e2
      (e1 a ha).1 hj
    have : b' = b := emb.inj b' b hb' (e1 b hb).1 hbb
    subst this
    exact hnr ⟨j, hw⟩

/-! ### the final state of the DFS of one component -/

/-- what `bicComponent` returns, in terms of the final state of its loop -/
theorem bicComponent_final (gc : GoodCom g com) (hne : com ≠ [])
    (hconn : ∀ x ∈ com, Reach g (com.getD 0 0) x) (hsym : ∀ u v, g.adj u v = g.adj v u)
    (hirr : ∀ v, g.adj v v = false) (acc acc' : List (List Nat) × List Nat)
    (hacc : ∀ b ∈ acc.1, b.Pairwise (fun a b => decide (a ≤ b) = true))
    (hres : bicComponent g com acc = .ok acc') :
    ∃ st tp, BicReach (g.induced com) com acc.1 st ∧ DFinal (g.induced com) st tp ∧
      acc'.1 = st.out ++ (((st.bicoms.dropLast.map fun b => b ++ [0]) ++
        (match st.bicoms.getLast? with | some c => [c] | none => [])).map
          fun b => sortInts (b.map fun x => com.getD x 0)) ∧
      acc'.2 = acc.2 ++ ((List.range com.length).filter fun i =>
        (st.isArt.setIfInBounds 0 (decide (2 ≤ st.childCount))).getD i false).map fun i => com.getD i 0 := by
  unfold bicComponent at hres
  have hn : (g.induced com).n = com.length := rfl
  have hpos : 0 < com.length := List.length_pos_iff.2 hne
  have hn0 : ¬ (g.induced com).n = 0 := by rw [hn]; omega
  simp only [hn0, if_false] at hres
  cases hloop : bicLoop (g.induced com) com (2 * (g.induced com).n + 2) (bicInit (g.induced com).n acc.1) with
  | panic => unfold bicInit at hloop; rw [hloop] at hres; simp at hres
  | outOfFuel => unfold bicInit at hloop; rw [hloop] at hres; simp at hres
  | ok st =>
    have hloop' := hloop
    unfold bicInit at hloop'
    rw [hloop'] at hres
    simp only at hres
    obtain ⟨hr, hemp⟩ := bicLoop_invariant (g.induced com) com (BicReach (g.induced com) com acc.1)
      (fun st s hI hs => .step hI hs) _ _ st .init hloop
    obtain ⟨tp, dt, la⟩ := dtla_reach com (induced_symm hsym com) (induced_irrefl hirr com) (by rw [hn]; exact hpos)
      acc.1 hacc hr
    have emb := goodCom_emb gc
    have hroot : bvis st 0 := by unfold bvis; rw [dt.root]; omega
    have hall : ∀ x, x < (g.induced com).n → bvis st x := by
      intro x hx
      have hxc : com.getD x 0 ∈ com := by rw [getD_eq_getElem' hx]; exact List.getElem_mem hx
      obtain ⟨k, hk⟩ := hconn _ hxc
      have : ∀ y k, WalkIn g (List.range g.n) (com.getD 0 0) y k →
          ∃ i, i < com.length ∧ com.getD i 0 = y ∧ bvis st i := by
        intro y k hw
        induction hw with
        | base _ => exact ⟨0, hpos, rfl, hroot⟩
        | step _ hadj hy ih =>
          obtain ⟨i, hi, hiy, hiv⟩ := ih
          rw [← hiy] at hadj
          obtain ⟨j, hj, hjy⟩ := emb.closed i _ hi (List.mem_range.1 hy) hadj
          refine ⟨j, hj, hjy, ?_⟩
          apply dt.fin i hi hiv (by rw [hemp]; simp) j _ hj
          rw [emb.adj i j hi hj, hjy]; exact hadj
      obtain ⟨i, hi, hix, hiv⟩ := this _ k hk
      have : i = x := emb.inj i x hi hx hix
      subst this; exact hiv
    cases hres
    exact ⟨st, tp, hr, ⟨dt, la, hall, hemp⟩, rfl, rfl⟩

/-- **the articulation vertices reported for one component are exactly the articulation vertices of `g` in it** -/
theorem bicComponent_arts (gc : GoodCom g com) (hne : com ≠ [])
    (hconn : ∀ x ∈ com, Reach g (com.getD 0 0) x) (hsym : ∀ u v, g.adj u v = g.adj v u)
    (hirr : ∀ v, g.adj v v = false) (acc acc' : List (List Nat) × List Nat)
    (hacc : ∀ b ∈ acc.1, b.Pairwise (fun a b => decide (a ≤ b) = true))
    (hres : bicComponent g com acc = .ok acc') :
    ∃ new : List Nat, acc'.2 = acc.2 ++ new ∧ new.Nodup ∧
      ∀ x, x ∈ new ↔ x ∈ com ∧ x ∈ articulation g := by
  obtain ⟨st, tp, _, df, _, h2⟩ := bicComponent_final gc hne hconn hsym hirr acc acc' hacc hres
  have emb := goodCom_emb gc
  have hn : (g.induced com).n = com.length := rfl
  refine ⟨_, h2, ?_, ?_⟩
  · apply List.Nodup.map_on
    · intro a ha b hb hab
      have ha' := List.mem_range.1 (List.mem_filter.1 ha).1
      have hb' := List.mem_range.1 (List.mem_filter.1 hb).1
      exact emb.inj a b ha' hb' hab
    · exact List.nodup_range.filter _
  · intro x
    have key : ∀ i, i < com.length →
        ((st.isArt.setIfInBounds 0 (decide (2 ≤ st.childCount))).getD i false = true ↔
          com.getD i 0 ∈ articulation g) := by
      intro i hi
      rw [df.reported_iff (by rw [hn]; exact hi), df.crit_iff_sep (induced_symm hsym com) (by rw [hn]; exact hi),
        ← sep_transfer gc hsym hi]
      unfold articulation
      rw [List.mem_filter, isArticIn_iff_sep hsym]
      unfold SepIn
      constructor
      · intro h0; exact ⟨List.mem_range.2 (emb.rng i hi), h0⟩
      · intro h0; exact h0.2
    constructor
    · intro hx
      obtain ⟨i, hi, hix⟩ := List.mem_map.1 hx
      obtain ⟨hi1, hi2⟩ := List.mem_filter.1 hi
      have hi1 := List.mem_range.1 hi1
      subst hix
      refine ⟨by rw [getD_eq_getElem' hi1]; exact List.getElem_mem hi1, (key i hi1).1 hi2⟩
    · rintro ⟨hxc, hxa⟩
      obtain ⟨i, hi, hix⟩ := List.getElem_of_mem hxc
      have hix' : com.getD i 0 = x := by rw [getD_eq_getElem' hi]; exact hix
      refine List.mem_map.2 ⟨i, List.mem_filter.2 ⟨List.mem_range.2 hi, ?_⟩, hix'⟩
      rw [key i hi, hix']; exact hxa

theorem bicAll_arts (g : G) (hsym : ∀ u v, g.adj u v = g.adj v u) (hirr : ∀ v, g.adj v v = false) :
    ∀ (coms : List (List Nat)) (acc acc' : List (List Nat) × List Nat),
      (∀ c ∈ coms, GoodCom g c ∧ c ≠ [] ∧ ∀ x ∈ c, Reach g (c.getD 0 0) x) →
      (∀ b ∈ acc.1, b.Pairwise (fun a b => decide (a ≤ b) = true)) →
      coms.flatten.Nodup → acc.2.Nodup → (∀ x ∈ acc.2, x ∉ coms.flatten) →
      bicAll g coms acc = .ok acc' →
      acc'.2.Nodup ∧ ∀ x, x ∈ acc'.2 ↔ x ∈ acc.2 ∨ (x ∈ coms.flatten ∧ x ∈ articulation g) := by
  intro coms
  induction coms with
  | nil =>
    intro acc acc' _ _ _ hnd _ hres
    simp only [bicAll] at hres
    cases hres
    exact ⟨hnd, fun x => by simp⟩
  | cons com coms ih =>
    intro acc acc' hcoms hacc hfl hnd hdis hres
    obtain ⟨gc, hne, hconn⟩ := hcoms com List.mem_cons_self
    obtain ⟨acc1, e1, hs1⟩ := bicComponent_total g com hne acc hacc
    simp only [bicAll, e1] at hres
    obtain ⟨new, hnew, hnn, hmem⟩ := bicComponent_arts gc hne hconn hsym hirr acc acc1 hacc e1
    rw [List.flatten_cons, List.nodup_append] at hfl
    obtain ⟨_, hfl2, hfl3⟩ := hfl
    have hnd1 : acc1.2.Nodup := by
      rw [hnew, List.nodup_append]
      refine ⟨hnd, hnn, ?_⟩
      intro a ha b hb hab
      subst hab
      exact hdis a ha (by rw [List.flatten_cons]; exact List.mem_append.2 (.inl ((hmem a).1 hb).1))
    have hdis1 : ∀ x ∈ acc1.2, x ∉ coms.flatten := by
      intro x hx
      rw [hnew] at hx
      rcases List.mem_append.1 hx with hx | hx
      · intro h0; exact hdis x hx (by rw [List.flatten_cons]; exact List.mem_append.2 (.inr h0))
      · intro h0; exact hfl3 x ((hmem x).1 hx).1 x h0 rfl
    obtain ⟨r1, r2⟩ := ih acc1 acc' (fun c hc => hcoms c (List.mem_cons_of_mem _ hc)) hs1 hfl2 hnd1 hdis1 hres
    refine ⟨r1, fun x => ?_⟩
    rw [r2 x, hnew, List.mem_append, hmem x, List.flatten_cons, List.mem_append]
    constructor
    · rintro ((h0 | ⟨h0, h1⟩) | ⟨h0, h1⟩)
      · exact .inl h0
      · exact .inr ⟨.inl h0, h1⟩
      · exact .inr ⟨.inr h0, h1⟩
    · rintro (h0 | ⟨h0 | h0, h1⟩)
      · exact .inl (.inl h0)
      · exact .inl (.inr ⟨h0, h1⟩)
      · exact .inr ⟨h0, h1⟩

/-- **the articulation vertices returned by the `BiconnectedComponents` model, sorted, are `articulation g`** -/
theorem bicon_articulation_eq (g : G) (hsym : ∀ u v, g.adj u v = g.adj v u) (hirr : ∀ v, g.adj v v = false)
    (bs : List (List Nat)) (arts : List Nat) (hres : Model.biconnectedComponents g = .ok (bs, arts)) :
    arts.Nodup ∧ (∀ x, x ∈ arts ↔ x ∈ articulation g) ∧ Model.sortInts arts = articulation g := by
  unfold Model.biconnectedComponents at hres
  obtain ⟨cs, ecs, hperm⟩ := connectedComponents_perm g hsym (g.n + 1) (Nat.le_refl _)
  rw [ecs] at hres
  simp only at hres
  obtain ⟨hgood, hflat⟩ := components_good g hsym
  have hV : ∀ r ∈ List.range g.n, r ∈ List.range g.n := fun _ h => h
  have hcl : ∀ x ∈ ([] : List Nat), ∀ y, ReachIn g (List.range g.n) x y → y ∈ ([] : List Nat) :=
    fun x hx => by cases hx
  obtain ⟨h1, h2, _, _⟩ := componentsFrom_spec hsym (List.range g.n) [] hV hcl
  have hcoms : ∀ c ∈ cs, GoodCom g c ∧ c ≠ [] ∧ ∀ x ∈ c, Reach g (c.getD 0 0) x := by
    intro c hc
    have hc' := hperm.mem_iff.1 hc
    obtain ⟨s, hs, _, rfl⟩ := h1 c hc'
    have hsmem : s ∈ componentIn g (List.range g.n) s := mem_componentIn.2 (ReachIn.refl hs)
    have hne : componentIn g (List.range g.n) s ≠ [] := List.ne_nil_of_mem hsmem
    refine ⟨hgood _ hc', hne, ?_⟩
    intro x hx
    have h0 : (componentIn g (List.range g.n) s).getD 0 0 ∈ componentIn g (List.range g.n) s := by
      obtain ⟨a, t, hat⟩ := List.exists_cons_of_ne_nil hne
      rw [hat]; simp
    exact ((mem_componentIn.1 h0).symm hsym).trans (mem_componentIn.1 hx)
  have hfp : cs.flatten.Perm (List.range g.n) := (List.Perm.flatten hperm).trans hflat
  obtain ⟨r1, r2⟩ := bicAll_arts g hsym hirr cs ([], []) (bs, arts) hcoms (fun b hb => by cases hb)
    (hfp.nodup_iff.2 List.nodup_range) List.nodup_nil (fun x hx => by cases hx) hres
  have hmem : ∀ x, x ∈ arts ↔ x ∈ articulation g := by
    intro x
    rw [r2 x]
    constructor
    · rintro (h0 | ⟨_, h0⟩)
      · cases h0
      · exact h0
    · intro h0
      refine .inr ⟨hfp.mem_iff.2 ?_, h0⟩
      unfold articulation at h0
      exact (List.mem_filter.1 h0).1
  refine ⟨r1, hmem, sortInts_eq r1 ?_ hmem⟩
  unfold articulation
  exact List.Pairwise.filter _ List.pairwise_lt_range

end GDist
