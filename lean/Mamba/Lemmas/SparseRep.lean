import Mamba.Lemmas.SortedInts
import Mamba.Lemmas.GraphCount
import Mamba.Lemmas.DenseRep
/-!
# SparseGraph refines the abstract graph (property C05): definitions, observers, AddEdge / RemoveEdge
-/
namespace GraphRep
open GraphSpec

/-- neighbour list of `u` -/
def Sparse.row (g : Sparse) (u : Nat) : List Int := g.nbrs.getD u []

/-- the abstract graph represented by a `SparseGraph` value -/
def Sparse.abs (g : Sparse) : G where
  n := g.n
  adj u v := decide (u < g.n) && decide (v < g.n) && (g.row u).contains (v : Int)

/-- representation invariant of `SparseGraph` -/
structure Sparse.WF (g : Sparse) : Prop where
  nbrs_size : g.nbrs.size = g.n
  deg_size : g.deg.size = g.n
  sorted : ∀ u, u < g.n → SInc (g.row u)
  inrange : ∀ u, u < g.n → ∀ x ∈ g.row u, 0 ≤ x ∧ x < g.n
  symm : ∀ u v, u < g.n → v < g.n → ((v : Int) ∈ g.row u ↔ (u : Int) ∈ g.row v)
  irrefl : ∀ u, u < g.n → (u : Int) ∉ g.row u
  deg_len : ∀ u, u < g.n → g.deg[u]? = some ((g.row u).length : Int)
  m_eq : g.m = (g.abs.m : Int)

theorem Sparse.abs_adj {g : Sparse} {u v : Nat} (hu : u < g.n) (hv : v < g.n) :
    g.abs.adj u v = decide ((v : Int) ∈ g.row u) := by
  simp [Sparse.abs, hu, hv]

theorem Sparse.abs_adj_true {g : Sparse} {u v : Nat} :
    g.abs.adj u v = true ↔ u < g.n ∧ v < g.n ∧ (v : Int) ∈ g.row u := by
  simp [Sparse.abs, and_assoc]

theorem Sparse.abs_wf {g : Sparse} (h : g.WF) : g.abs.WF where
  symm := by
    intro u v
    by_cases hu : u < g.n
    · by_cases hv : v < g.n
      · rw [Sparse.abs_adj hu hv, Sparse.abs_adj hv hu]
        exact decide_eq_decide.mpr (h.symm u v hu hv)
      · simp [Sparse.abs, hv]
    · simp [Sparse.abs, hu]
  irrefl := by
    intro v
    by_cases hv : v < g.n
    · rw [Sparse.abs_adj hv hv]; simpa using h.irrefl v hv
    · simp [Sparse.abs, hv]
  supp := by
    intro u v huv
    have := Sparse.abs_adj_true.mp huv
    exact ⟨this.1, this.2.1⟩

/-- membership in a neighbour list, in terms of the abstract graph -/
theorem Sparse.mem_row {g : Sparse} (h : g.WF) {u : Nat} (hu : u < g.n) (x : Int) :
    x ∈ g.row u ↔ ∃ v : Nat, (v : Int) = x ∧ g.abs.adj u v = true := by
  constructor
  · intro hx
    obtain ⟨h0, h1⟩ := h.inrange u hu x hx
    refine ⟨x.toNat, by omega, ?_⟩
    rw [Sparse.abs_adj_true]
    refine ⟨hu, by omega, ?_⟩
    have : ((x.toNat : Nat) : Int) = x := by omega
    rw [this]; exact hx
  · rintro ⟨v, rfl, hv⟩
    exact (Sparse.abs_adj_true.mp hv).2.2

theorem map_ofNat_sinc {l : List Nat} (h : l.Pairwise (· < ·)) : SInc (l.map Int.ofNat) := by
  rw [SInc, List.pairwise_map]
  exact h.imp (fun hab => by simpa using hab)

/-- the neighbour lists are the canonical ones -/
theorem Sparse.row_eq {g : Sparse} (h : g.WF) {u : Nat} (hu : u < g.n) :
    g.row u = (g.abs.nbrs u).map Int.ofNat := by
  apply sinc_ext (h.sorted u hu) (map_ofNat_sinc (nbrs_pairwise _ _))
  intro x
  rw [Sparse.mem_row h hu, List.mem_map]
  constructor
  · rintro ⟨v, rfl, hv⟩; exact ⟨v, (mem_nbrs (Sparse.abs_wf h) u v).mpr hv, rfl⟩
  · rintro ⟨v, hv, rfl⟩; exact ⟨v, rfl, (mem_nbrs (Sparse.abs_wf h) u v).mp hv⟩

theorem Sparse.deg_eq {g : Sparse} (h : g.WF) {u : Nat} (hu : u < g.n) :
    g.deg[u]? = some (g.abs.deg u : Int) := by
  rw [h.deg_len u hu, Sparse.row_eq h hu, List.length_map]; rfl

theorem Sparse.row_get {g : Sparse} (h : g.WF) {u : Nat} (hu : u < g.n) : g.nbrs[u]? = some (g.row u) := by
  unfold Sparse.row
  rw [Array.getD_eq_getD_getElem?, Array.getElem?_eq_getElem (by rw [h.nbrs_size]; exact hu)]
  rfl

/-! ## observers -/

theorem Sparse.isEdge_eq {g : Sparse} (h : g.WF) {i j : Nat} (hi : i < g.n) (hj : j < g.n) :
    g.isEdge i j = .ok (g.abs.adj i j) := by
  unfold Sparse.isEdge
  rw [h.deg_len i hi, h.deg_len j hj]
  simp only
  split
  · rw [Sparse.row_get h hi]
    simp only
    rw [containsSingle_eq (h.sorted i hi), Sparse.abs_adj hi hj]
  · rw [Sparse.row_get h hj]
    simp only
    rw [containsSingle_eq (h.sorted j hj), Sparse.abs_adj hi hj]
    congr 1
    exact decide_eq_decide.mpr (h.symm j i hj hi)

theorem Sparse.neighbours_eq {g : Sparse} (h : g.WF) {v : Nat} (hv : v < g.n) :
    g.neighbours v = .ok ((g.abs.nbrs v).map Int.ofNat) := by
  unfold Sparse.neighbours getA
  rw [Sparse.row_get h hv, Sparse.row_eq h hv]

theorem Sparse.degrees_eq {g : Sparse} (h : g.WF) : g.degrees = g.abs.degrees.map Int.ofNat :=
  degs_aux g.deg g.n g.abs.deg h.deg_size (fun _ hv => Sparse.deg_eq h hv)

/-! ## building a well-formed value from a description of its lists -/

theorem Sparse.wf_of {g' : Sparse} {G0 : G} (hG : G0.WF) (hn : g'.n = G0.n) (hns : g'.nbrs.size = g'.n)
    (hds : g'.deg.size = g'.n) (hsorted : ∀ u, u < g'.n → SInc (g'.row u))
    (hmem : ∀ u, u < g'.n → ∀ x : Int, x ∈ g'.row u ↔ ∃ v : Nat, (v : Int) = x ∧ G0.adj u v = true)
    (hdeg : ∀ u, u < g'.n → g'.deg[u]? = some ((g'.row u).length : Int))
    (hm : g'.m = (G0.m : Int)) : g'.WF ∧ g'.abs = G0 := by
  have habs : g'.abs = G0 := by
    refine G_ext hn ?_
    intro u v
    by_cases hu : u < g'.n
    · by_cases hv : v < g'.n
      · rw [Sparse.abs_adj hu hv]
        cases hc : G0.adj u v
        · rw [decide_eq_false_iff_not, hmem u hu]
          rintro ⟨w, hw, hadj⟩
          have : w = v := by omega
          subst this; rw [hc] at hadj; cases hadj
        · rw [decide_eq_true_iff, hmem u hu]
          exact ⟨v, rfl, hc⟩
      · have : G0.adj u v = false := by
          cases hc : G0.adj u v
          · rfl
          · have := (hG.supp _ _ hc).2; omega
        rw [this]; simp [Sparse.abs, hv]
    · have : G0.adj u v = false := by
        cases hc : G0.adj u v
        · rfl
        · have := (hG.supp _ _ hc).1; omega
      rw [this]; simp [Sparse.abs, hu]
  refine ⟨⟨hns, hds, hsorted, ?_, ?_, ?_, hdeg, by rw [habs]; exact hm⟩, habs⟩
  · intro u hu x hx
    obtain ⟨v, rfl, hv⟩ := (hmem u hu x).mp hx
    have := (hG.supp _ _ hv).2
    omega
  · intro u v hu hv
    rw [hmem u hu, hmem v hv]
    constructor
    · rintro ⟨w, hw, hadj⟩
      have : w = v := by omega
      subst this
      exact ⟨u, rfl, by rw [hG.symm]; exact hadj⟩
    · rintro ⟨w, hw, hadj⟩
      have : w = u := by omega
      subst this
      exact ⟨v, rfl, by rw [hG.symm]; exact hadj⟩
  · intro u hu hc
    obtain ⟨w, hw, hadj⟩ := (hmem u hu _).mp hc
    have : w = u := by omega
    subst this
    rw [hG.irrefl] at hadj; cases hadj

/-! ## AddEdge / RemoveEdge -/

theorem modifyI_ok {α : Type} {a : Array α} {i : Nat} {x : α} (f : α → α) (h : a[i]? = some x) :
    modifyI a (i : Int) f = .ok (a.setIfInBounds i (f x)) := by
  unfold modifyI
  rw [if_neg (by omega)]
  simp [h]

theorem getD_set {a : Array (List Int)} {i : Nat} (x : List Int) (hi : i < a.size) (u : Nat) :
    (a.setIfInBounds i x).getD u [] = if u = i then x else a.getD u [] := by
  rw [Array.getD_eq_getD_getElem?, Array.getD_eq_getD_getElem?, Array.getElem?_setIfInBounds]
  by_cases hu : u = i
  · subst hu; simp [hi]
  · have : ¬ i = u := fun e => hu e.symm
    simp [hu, this]

theorem get?_set_ne {α : Type} {a : Array α} {i u : Nat} (x : α) (hu : u ≠ i) :
    (a.setIfInBounds i x)[u]? = a[u]? := by
  rw [Array.getElem?_setIfInBounds, if_neg (fun e => hu e.symm)]

theorem addEdgeG_adj_true (g : G) {i j : Nat} (hij : i ≠ j) (u v : Nat) :
    (addEdgeG g i j).adj u v = true ↔ g.adj u v = true ∨ (u = i ∧ v = j) ∨ (u = j ∧ v = i) := by
  have : (i != j) = true := by simpa using hij
  simp [addEdgeG, this]

theorem removeEdgeG_adj_true (g : G) (i j u v : Nat) :
    (removeEdgeG g i j).adj u v = true ↔ g.adj u v = true ∧ (u = i → ¬ v = j) ∧ (u = j → ¬ v = i) := by
  simp only [removeEdgeG, Bool.and_eq_true, Bool.not_eq_true', Bool.or_eq_false_iff, Bool.and_eq_false_imp,
    beq_iff_eq, beq_eq_false_iff_ne, ne_eq]

/-- two rows replaced, the two degrees adjusted: the common part of `AddEdge` and `RemoveEdge` -/
theorem Sparse.edit_two {g : Sparse} (h : g.WF) {i j : Nat} (hi : i < g.n) (hj : j < g.n) (hij : i ≠ j)
    (li lj : List Int) (c : Int) (dm : Int) (G0 : G) (hG : G0.WF) (hn : G0.n = g.n)
    (hsi : SInc li) (hsj : SInc lj)
    (hli : (li.length : Int) = (g.row i).length + c) (hlj : (lj.length : Int) = (g.row j).length + c)
    (hmi : ∀ x : Int, x ∈ li ↔ ∃ v : Nat, (v : Int) = x ∧ G0.adj i v = true)
    (hmj : ∀ x : Int, x ∈ lj ↔ ∃ v : Nat, (v : Int) = x ∧ G0.adj j v = true)
    (hother : ∀ u v, u ≠ i → u ≠ j → G0.adj u v = g.abs.adj u v)
    (hm : g.m + dm = (G0.m : Int)) :
    Sparse.WF ⟨g.n, g.m + dm, (g.nbrs.setIfInBounds i li).setIfInBounds j lj,
        (g.deg.setIfInBounds i (↑(g.row i).length + c)).setIfInBounds j (↑(g.row j).length + c)⟩ ∧
      Sparse.abs ⟨g.n, g.m + dm, (g.nbrs.setIfInBounds i li).setIfInBounds j lj,
        (g.deg.setIfInBounds i (↑(g.row i).length + c)).setIfInBounds j (↑(g.row j).length + c)⟩ = G0 := by
  have hdj' : (g.deg.setIfInBounds i (↑(g.row i).length + c))[j]? = some ((g.row j).length : Int) := by
    rw [get?_set_add c (h.deg_len i hi), if_neg (fun e => hij e.symm)]; exact h.deg_len j hj
  have hrow : ∀ u, Sparse.row ⟨g.n, g.m + dm, (g.nbrs.setIfInBounds i li).setIfInBounds j lj,
        (g.deg.setIfInBounds i (↑(g.row i).length + c)).setIfInBounds j (↑(g.row j).length + c)⟩ u =
      if u = j then lj else if u = i then li else g.row u := by
    intro u
    unfold Sparse.row
    simp only
    rw [getD_set _ (by simp [h.nbrs_size, hj]), getD_set _ (by simp [h.nbrs_size, hi])]
  apply Sparse.wf_of hG
  · exact hn.symm
  · simp [h.nbrs_size]
  · simp [h.deg_size]
  · intro u hu
    rw [hrow u]
    split
    · exact hsj
    · split
      · exact hsi
      · exact h.sorted u hu
  · intro u hu x
    rw [hrow u]
    by_cases huj : u = j
    · subst huj; rw [if_pos rfl]; exact hmj x
    · rw [if_neg huj]
      by_cases hui : u = i
      · subst hui; rw [if_pos rfl]; exact hmi x
      · rw [if_neg hui, Sparse.mem_row h hu]
        simp only [hother u _ hui huj]
  · intro u hu
    have hu' : u < g.n := hu
    rw [hrow u]
    show ((g.deg.setIfInBounds i _).setIfInBounds j _)[u]? = _
    rw [get?_set_add c hdj', get?_set_add c (h.deg_len i hi)]
    by_cases huj : u = j
    · subst huj; simp [hlj]
    · by_cases hui : u = i
      · subst hui; simp [huj, hli]
      · simp [huj, hui, h.deg_len u hu']
  · exact hm

/-- the four array updates of `AddEdge` / `RemoveEdge` succeed -/
theorem Sparse.edit_two_run {g : Sparse} (h : g.WF) {i j : Nat} (hi : i < g.n) (hj : j < g.n) (hij : i ≠ j)
    (f1 f2 : List Int → List Int) (c : Int) :
    modifyI g.nbrs (i : Int) f1 = .ok (g.nbrs.setIfInBounds i (f1 (g.row i))) ∧
    modifyI (g.nbrs.setIfInBounds i (f1 (g.row i))) (j : Int) f2 =
      .ok ((g.nbrs.setIfInBounds i (f1 (g.row i))).setIfInBounds j (f2 (g.row j))) ∧
    addA g.deg i c = .ok (g.deg.setIfInBounds i (↑(g.row i).length + c)) ∧
    addA (g.deg.setIfInBounds i (↑(g.row i).length + c)) j c =
      .ok ((g.deg.setIfInBounds i (↑(g.row i).length + c)).setIfInBounds j (↑(g.row j).length + c)) := by
  have hri := Sparse.row_get h hi
  have hrj := Sparse.row_get h hj
  have hrj' : (g.nbrs.setIfInBounds i (f1 (g.row i)))[j]? = some (g.row j) := by
    rw [get?_set_ne _ (fun e => hij e.symm)]; exact hrj
  have hdj' : (g.deg.setIfInBounds i (↑(g.row i).length + c))[j]? = some ((g.row j).length : Int) := by
    rw [get?_set_add c (h.deg_len i hi), if_neg (fun e => hij e.symm)]; exact h.deg_len j hj
  exact ⟨modifyI_ok _ hri, modifyI_ok _ hrj', addA_ok c (h.deg_len i hi), addA_ok c hdj'⟩

theorem Sparse.addEdge_spec {g : Sparse} (h : g.WF) {i j : Nat} (hi : i < g.n) (hj : j < g.n) :
    ∃ g', g.addEdge i j = .ok g' ∧ g'.WF ∧ g'.abs = addEdgeG g.abs i j := by
  have hw := Sparse.abs_wf h
  unfold Sparse.addEdge
  by_cases hij : i = j
  · rw [if_pos hij]; exact ⟨g, rfl, h, (addEdgeG_noop hw (Or.inl hij)).symm⟩
  · rw [if_neg hij, Sparse.isEdge_eq h hi hj]
    cases hadj : g.abs.adj i j
    · simp only
      have hnj : (j : Int) ∉ g.row i := by
        intro hc
        rw [Sparse.abs_adj hi hj] at hadj
        simp [hc] at hadj
      have hni : (i : Int) ∉ g.row j := fun hc => hnj ((h.symm i j hi hj).mpr hc)
      obtain ⟨s1, m1, l1⟩ := addSingle_spec (h.sorted i hi) (j : Int)
      obtain ⟨s2, m2, l2⟩ := addSingle_spec (h.sorted j hj) (i : Int)
      obtain ⟨r1, r2, r3, r4⟩ := Sparse.edit_two_run h hi hj hij (fun l => addSingle l j)
        (fun l => addSingle l i) 1
      rw [r1]; simp only
      rw [r2]; simp only
      rw [r3]; simp only
      rw [r4]; simp only
      refine ⟨_, rfl, ?_⟩
      exact Sparse.edit_two h hi hj hij (addSingle (g.row i) j) (addSingle (g.row j) i) 1 1
        (addEdgeG g.abs i j) (addEdgeG_wf hw hi hj) rfl s1 s2
        (by rw [l1, if_neg hnj]; simp) (by rw [l2, if_neg hni]; simp)
        (by
          intro x
          rw [m1, Sparse.mem_row h hi]
          constructor
          · rintro (rfl | ⟨v, rfl, hv⟩)
            · exact ⟨j, rfl, (addEdgeG_adj_true _ hij _ _).mpr (Or.inr (Or.inl ⟨rfl, rfl⟩))⟩
            · exact ⟨v, rfl, (addEdgeG_adj_true _ hij _ _).mpr (Or.inl hv)⟩
          · rintro ⟨v, rfl, hv⟩
            rcases (addEdgeG_adj_true _ hij _ _).mp hv with hv | ⟨_, rfl⟩ | ⟨e, _⟩
            · exact Or.inr ⟨v, rfl, hv⟩
            · exact Or.inl rfl
            · exact absurd e hij)
        (by
          intro x
          rw [m2, Sparse.mem_row h hj]
          constructor
          · rintro (rfl | ⟨v, rfl, hv⟩)
            · exact ⟨i, rfl, (addEdgeG_adj_true _ hij _ _).mpr (Or.inr (Or.inr ⟨rfl, rfl⟩))⟩
            · exact ⟨v, rfl, (addEdgeG_adj_true _ hij _ _).mpr (Or.inl hv)⟩
          · rintro ⟨v, rfl, hv⟩
            rcases (addEdgeG_adj_true _ hij _ _).mp hv with hv | ⟨e, _⟩ | ⟨_, rfl⟩
            · exact Or.inr ⟨v, rfl, hv⟩
            · exact absurd e.symm hij
            · exact Or.inl rfl)
        (by
          intro u v hui huj
          have e1 : (u == i) = false := by simpa using hui
          have e2 : (u == j) = false := by simpa using huj
          simp [addEdgeG, e1, e2])
        (by rw [m_addEdgeG hw hi hj hij hadj, h.m_eq]; simp)
    · exact ⟨g, rfl, h, (addEdgeG_noop hw (Or.inr hadj)).symm⟩

theorem Sparse.removeEdge_spec {g : Sparse} (h : g.WF) {i j : Nat} (hi : i < g.n) (hj : j < g.n) :
    ∃ g', g.removeEdge i j = .ok g' ∧ g'.WF ∧ g'.abs = removeEdgeG g.abs i j := by
  have hw := Sparse.abs_wf h
  unfold Sparse.removeEdge
  by_cases hij : i = j
  · rw [if_pos hij]
    refine ⟨g, rfl, h, (removeEdgeG_noop hw ?_).symm⟩
    subst hij; exact hw.irrefl i
  · rw [if_neg hij, Sparse.isEdge_eq h hi hj]
    cases hadj : g.abs.adj i j
    · exact ⟨g, rfl, h, (removeEdgeG_noop hw hadj).symm⟩
    · simp only
      have hnj : (j : Int) ∈ g.row i := (Sparse.abs_adj_true.mp hadj).2.2
      have hni : (i : Int) ∈ g.row j := (h.symm i j hi hj).mp hnj
      obtain ⟨s1, m1, l1⟩ := removeS_spec (h.sorted i hi) (j : Int)
      obtain ⟨s2, m2, l2⟩ := removeS_spec (h.sorted j hj) (i : Int)
      obtain ⟨r1, r2, r3, r4⟩ := Sparse.edit_two_run h hi hj hij (fun l => removeS l j)
        (fun l => removeS l i) (-1)
      rw [r1]; simp only
      rw [r2]; simp only
      rw [r3]; simp only
      rw [r4]; simp only
      refine ⟨_, rfl, ?_⟩
      have hp1 : 0 < (g.row i).length := List.length_pos_of_mem hnj
      have hp2 : 0 < (g.row j).length := List.length_pos_of_mem hni
      exact Sparse.edit_two h hi hj hij (removeS (g.row i) j) (removeS (g.row j) i) (-1) (-1)
        (removeEdgeG g.abs i j) (removeEdgeG_wf hw i j) rfl s1 s2
        (by rw [l1, if_pos hnj]; omega) (by rw [l2, if_pos hni]; omega)
        (by
          intro x
          rw [m1, Sparse.mem_row h hi]
          constructor
          · rintro ⟨⟨v, rfl, hv⟩, hne⟩
            refine ⟨v, rfl, (removeEdgeG_adj_true _ _ _ _ _).mpr ⟨hv, fun _ e => hne (by rw [e]), fun e => absurd e hij⟩⟩
          · rintro ⟨v, rfl, hv⟩
            obtain ⟨h1, h2, _⟩ := (removeEdgeG_adj_true _ _ _ _ _).mp hv
            exact ⟨⟨v, rfl, h1⟩, fun e => h2 rfl (by exact_mod_cast e)⟩)
        (by
          intro x
          rw [m2, Sparse.mem_row h hj]
          constructor
          · rintro ⟨⟨v, rfl, hv⟩, hne⟩
            refine ⟨v, rfl, (removeEdgeG_adj_true _ _ _ _ _).mpr ⟨hv, fun e => absurd e.symm hij, fun _ e => hne (by rw [e])⟩⟩
          · rintro ⟨v, rfl, hv⟩
            obtain ⟨h1, _, h3⟩ := (removeEdgeG_adj_true _ _ _ _ _).mp hv
            exact ⟨⟨v, rfl, h1⟩, fun e => h3 rfl (by exact_mod_cast e)⟩)
        (by
          intro u v hui huj
          have e1 : (u == i) = false := by simpa using hui
          have e2 : (u == j) = false := by simpa using huj
          simp [removeEdgeG, e1, e2])
        (by
          have := m_removeEdgeG hw hi hj hij hadj
          rw [h.m_eq, ← this]; simp)

/-! ## `NewSparse(n, nil)` -/

theorem Sparse.new_row (n u : Nat) : (Sparse.new n).row u = [] := by
  unfold Sparse.row Sparse.new
  rw [Array.getD_eq_getD_getElem?]
  simp only [Array.getElem?_replicate]
  split <;> rfl

theorem Sparse.new_wf (n : Nat) : (Sparse.new n).WF := by
  have hadj : ∀ u v, (Sparse.new n).abs.adj u v = false := by
    intro u v; simp [Sparse.abs, Sparse.new_row]
  have hc := empty_counts (g := (Sparse.new n).abs) hadj
  refine ⟨by simp [Sparse.new], by simp [Sparse.new], ?_, ?_, ?_, ?_, ?_, ?_⟩
  · intro u _; rw [Sparse.new_row]; exact List.Pairwise.nil
  · intro u _ x hx; rw [Sparse.new_row] at hx; cases hx
  · intro u v _ _; rw [Sparse.new_row, Sparse.new_row]; simp
  · intro u _ hx; rw [Sparse.new_row] at hx; cases hx
  · intro u hu
    have hu' : u < n := hu
    rw [Sparse.new_row]; simp [Sparse.new, hu']
  · rw [hc.1]; rfl

theorem new_abs_eq (n : Nat) : (Dense.new n).abs = (Sparse.new n).abs := by
  refine G_ext rfl ?_
  intro u v
  rw [Dense.new_adj]
  simp [Sparse.abs, Sparse.new_row]

end GraphRep
