import Mamba.Lemmas.CodecBits
import Mamba.Lemmas.CodecNn
import Mamba.Lemmas.CodecHeader
import Mamba.Lemmas.CodecCount
/-! `Graph6Decode` of the model: reading the edge bits. -/
namespace Codec
open Formats GraphSpec

theorem mapM_loop_ok {α β : Type} (f : α → Outcome β) (f' : α → β) (l : List α) (acc : List β)
    (h : ∀ x ∈ l, f x = .ok (f' x)) : List.mapM.loop f l acc = .ok (acc.reverse ++ l.map f') := by
  induction l generalizing acc with
  | nil => simp [List.mapM.loop]
  | cons x xs ih =>
    simp only [List.mapM.loop]
    rw [h x (by simp)]
    show List.mapM.loop f xs (f' x :: acc) = _
    rw [ih _ (fun y hy => h y (by simp [hy]))]
    simp

theorem mapM_ok {α β : Type} (f : α → Outcome β) (f' : α → β) (l : List α)
    (h : ∀ x ∈ l, f x = .ok (f' x)) : l.mapM f = .ok (l.map f') := by
  unfold List.mapM
  rw [mapM_loop_ok f f' l [] h]; simp

/-- the value `g6Bit` computes when its index is in range -/
def g6BitVal (s : Bytes) (i j : Nat) : Nat :=
  (bsub (s.getD (i + j / 6) 0) 63 &&& (1 <<< (5 - j % 6))) >>> (5 - j % 6)

theorem g6Bit_ok (s : Bytes) (i j : Nat) (h : i + j / 6 < s.size) : g6Bit s i j = .ok (g6BitVal s i j) := by
  unfold g6Bit g6BitVal
  rw [Array.getElem?_eq_getElem h]
  simp [Array.getD, h]

theorem g6BitVal_le_one (s : Bytes) (i j : Nat) : g6BitVal s i j = 0 ∨ g6BitVal s i j = 1 := by
  unfold g6BitVal
  have hp : 5 - j % 6 < 6 := by omega
  generalize 5 - j % 6 = p at hp
  generalize bsub (s.getD (i + j / 6) 0) 63 = x
  rw [Nat.shiftRight_eq_div_pow, Nat.shiftLeft_eq, Nat.one_mul]
  have h2 : x &&& 2 ^ p ≤ 2 ^ p := Nat.and_le_right
  have hpos : 0 < 2 ^ p := Nat.pos_of_ne_zero (by simp)
  have : (x &&& 2 ^ p) / 2 ^ p ≤ 1 := by
    calc (x &&& 2 ^ p) / 2 ^ p ≤ 2 ^ p / 2 ^ p := Nat.div_le_div_right h2
      _ = 1 := Nat.div_self hpos
  exact Nat.le_one_iff_eq_zero_or_eq_one.1 this

theorem g6_unR_getElem? (l : List Nat) (j : Nat) :
    (unR l)[j]? = match l[j / 6]? with
      | none => none
      | some c => (bits6 (c - 63))[j % 6]? := by
  induction l generalizing j with
  | nil => simp [unR]
  | cons c cs ih =>
    rw [unR_cons]
    have hl : (bits6 (c - 63)).length = 6 := by simp [bits6]
    rcases Nat.lt_or_ge j 6 with h | h
    · have h0 : j / 6 = 0 := by omega
      have h1 : j % 6 = j := by omega
      rw [List.getElem?_append_left (by omega), h0, h1]; simp
    · obtain ⟨k, rfl⟩ : ∃ k, j = k + 6 := ⟨j - 6, by omega⟩
      have h0 : (k + 6) / 6 = k / 6 + 1 := by omega
      have h1 : (k + 6) % 6 = k % 6 := by omega
      rw [List.getElem?_append_right (by omega), hl, h0, h1, Nat.add_sub_cancel, ih]
      simp

theorem bit_extract : ∀ x, x < 64 → ∀ p, p < 6 →
    ((x &&& (1 <<< (5 - p))) >>> (5 - p)) = if (bits6 x)[p]? = some true then 1 else 0 := by
  decide

/-- on the format's string `Nn n ++ R bits ++ extra`, the decoder's `j`-th edge byte is the `j`-th bit -/
theorem g6BitVal_spec (n : Nat) (hn : n ≤ 68719476735) (bits : List Bool) (extra : List Nat) (j : Nat) (hj : j < bits.length) :
    g6BitVal (Nn n ++ R bits ++ extra).toArray (Nn n).length j = if bits[j] then 1 else 0 := by
  have hlen := R_length bits
  have hj6 : j / 6 < (R bits).length := by rw [hlen]; omega
  have hget : (Nn n ++ R bits ++ extra).toArray.getD ((Nn n).length + j / 6) 0 = (R bits)[j / 6] := by
    rw [Array.getD_eq_getD_getElem?, List.getElem?_toArray, List.append_assoc,
      List.getElem?_append_right (by omega), Nat.add_sub_cancel_left, List.getElem?_append_left hj6,
      List.getElem?_eq_getElem hj6]
    rfl
  have hc := R_range bits _ (List.getElem_mem hj6)
  have hu : (unR (R bits))[j]? = some bits[j] := by
    rw [unR_R, List.getElem?_append_left hj, List.getElem?_eq_getElem hj]
  rw [g6_unR_getElem?, List.getElem?_eq_getElem hj6] at hu
  simp only at hu
  unfold g6BitVal
  rw [hget, bsub_of_le hc.1 (by omega), bit_extract _ (by omega) _ (Nat.mod_lt _ (by decide)), hu]
  cases bits[j] <;> simp

theorem g6Bits_length (g : G) : (g6Bits g).length = tri g.n := by
  have h1 : g6Bits g = (allPairs g.n).map (fun p => g.adj p.1 p.2) := by
    unfold g6Bits allPairs
    rw [List.map_flatMap]
    congr 1; funext j; simp
  rw [h1, List.length_map, allPairs_length]

theorem g6Bits_upperBits (g : G) : (g6Bits g).map (fun b => if b then 1 else 0) = upperBits g := by
  unfold g6Bits upperBits
  rw [List.map_flatMap]
  congr 1; funext j; simp

theorem Nn_head (n : Nat) : ∃ c t, Nn n = c :: t ∧ 63 ≤ c := by
  unfold Nn
  split
  · exact ⟨_, _, rfl, by omega⟩
  · split <;> exact ⟨_, _, rfl, by omega⟩

theorem hasPrefix_false_of_head (c : Nat) (t : List Nat) (p0 : Nat) (p : List Nat) (h : c ≠ p0) :
    hasPrefix (c :: t).toArray (p0 :: p) = false := by
  unfold hasPrefix
  simp [h]

theorem outcome_match_ok {α β : Type} (x : Outcome α) (a : α) (h : x = .ok a) (f : α → Outcome β) :
    (match x with | .ok a => f a | .panic => .panic | .outOfFuel => .outOfFuel) = f a := by
  subst h; rfl

/-- the edge bytes read from the format's string -/
theorem g6_edges_of_spec (g : G) (hn : g.n ≤ 68719476735) (extra : List Nat) :
    (List.range (tri g.n)).mapM (g6Bit (Nn g.n ++ R (g6Bits g) ++ extra).toArray (Nn g.n).length) = .ok (upperBits g) := by
  have hbl := g6Bits_length g
  have hR := R_length (g6Bits g)
  rw [mapM_ok _ (g6BitVal (Nn g.n ++ R (g6Bits g) ++ extra).toArray (Nn g.n).length)]
  · congr 1
    rw [← g6Bits_upperBits]
    apply List.ext_getElem
    · simp [hbl]
    · intro j h1 h2
      simp only [List.getElem_map, List.getElem_range]
      have hj : j < (g6Bits g).length := by simpa using h2
      rw [g6BitVal_spec g.n hn _ extra j hj]
  · intro j hj
    have hj : j < tri g.n := List.mem_range.1 hj
    apply g6Bit_ok
    simp only [List.size_toArray, List.length_append, hR, hbl]
    omega

/-- `Graph6Decode` on the format's string of `g` reaches `NewDense(n, edges)` with the upper triangle of `g` -/
theorem g6Decode_spec_string (g : G) (hn : g.n ≤ 4294967296) :
    g6Decode (g6Spec g).toArray =
      match newDense g.n (upperBits g).toArray with
      | .ok d => .ok (some d)
      | .panic => .panic
      | .outOfFuel => .outOfFuel := by
  have hn' : g.n ≤ 68719476735 := by omega
  obtain ⟨c, t, hNn, hc⟩ := Nn_head g.n
  have hbl := g6Bits_length g
  have hR := R_length (g6Bits g)
  have hrange : inRange (g6Spec g).toArray = true := by
    rw [inRange_iff]
    intro x hx
    simp only [g6Spec] at hx
    rcases List.mem_append.1 hx with h | h
    · exact Nn_range _ hn' x h
    · exact R_range _ x h
  have hsize : (g6Spec g).toArray.size = (Nn g.n).length + (tri g.n + 5) / 6 := by
    simp [g6Spec, hR, hbl]
  have hpos : 0 < (g6Spec g).toArray.size := by rw [hsize, hNn]; simp
  have hpre : hasPrefix (g6Spec g).toArray g6Magic = false := by
    unfold g6Spec; rw [hNn]
    exact hasPrefix_false_of_head c _ 62 _ (by omega)
  have hdec : decHeader (g6Spec g).toArray = .ok (some (g.n, (Nn g.n).length)) := by
    rcases decHeader_spec _ hpos hrange with ⟨_, h2⟩ | ⟨n', i, h1, h2, h3, _⟩
    · simp [g6Spec, readN_Nn g.n hn'] at h2
    · simp only [g6Spec, List.toList_toArray, readN_Nn g.n hn', Option.some.injEq, Prod.mk.injEq] at h2
      obtain ⟨rfl, h2⟩ := h2
      have hl := congrArg List.length h2
      simp only [List.length_drop, List.length_append] at hl
      have : i = (Nn g.n).length := by
        rw [hsize] at h3; rw [hR, hbl] at hl; omega
      rw [h1, this]
  have hlen8 : ((Nn g.n).length = 8 && decide (g.n > 4294967296)) = false := by
    simp; omega
  unfold g6Decode
  simp only [hpre, if_false, Bool.false_eq_true, hrange, Bool.not_true, hdec, hlen8]
  rw [if_neg (by omega)]
  rw [if_neg (by rw [hsize]; show ¬ (Nn g.n).length + (tri g.n + 5) / 6 > _; omega)]
  have hed := g6_edges_of_spec g hn' []
  simp only [List.append_nil] at hed
  show (match (List.range (tri g.n)).mapM (g6Bit (g6Spec g).toArray (Nn g.n).length) with
    | .ok edges => _ | .panic => _ | .outOfFuel => _) = _
  unfold g6Spec
  rw [hed]
  rfl

end Codec
