import Mamba.Lemmas.CanonFTreeIR
import Mamba.Lemmas.IRIso
/-!
# Paths in the unpruned tree of `Model/IR.lean`

`IsPath g rf s vs`: starting at the (refined) state `s`, individualising the vertices `vs` one after the other — each one
a member of the target cell of the node reached so far — and refining (`childSt`) stays inside the tree; `nodeAt` is the
node reached. A path that ends in a node without target cell ends in a leaf of `IR.leaves` (`leaf_of_path`).
-/
namespace IR

/-- the child of the node `s` obtained by individualising `v` in the cell `t` -/
def childSt (g : G) (rf : Nat) (s : St) (t v : Nat) : St := refine g rf (individualise g s t v)

def IsPath (g : G) (rf : Nat) : St → List Nat → Prop
  | _, [] => True
  | s, v :: vs => ∃ t, target g s = some t ∧ v ∈ cellMembers g s.c t ∧ IsPath g rf (childSt g rf s t v) vs

def nodeAt (g : G) (rf : Nat) : St → List Nat → St
  | s, [] => s
  | s, v :: vs =>
    match target g s with
    | some t => nodeAt g rf (childSt g rf s t v) vs
    | none => s

theorem isPath_snoc {g : G} {rf : Nat} : ∀ (vs : List Nat) (s : St) (v : Nat),
    IsPath g rf s (vs ++ [v]) ↔
      (IsPath g rf s vs ∧ ∃ t, target g (nodeAt g rf s vs) = some t ∧ v ∈ cellMembers g (nodeAt g rf s vs).c t) := by
  intro vs
  induction vs with
  | nil =>
    intro s v
    simp only [List.nil_append, IsPath, nodeAt, true_and, and_true]
  | cons x xs ih =>
    intro s v
    simp only [List.cons_append, IsPath]
    constructor
    · rintro ⟨t, ht, hx, hp⟩
      obtain ⟨h1, h2⟩ := (ih _ v).1 hp
      refine ⟨⟨t, ht, hx, h1⟩, ?_⟩
      simp only [nodeAt, ht]
      exact h2
    · rintro ⟨⟨t, ht, hx, h1⟩, h2⟩
      refine ⟨t, ht, hx, (ih _ v).2 ⟨h1, ?_⟩⟩
      simp only [nodeAt, ht] at h2
      exact h2

theorem nodeAt_snoc {g : G} {rf : Nat} : ∀ (vs : List Nat) (s : St) (v t : Nat), IsPath g rf s vs →
    target g (nodeAt g rf s vs) = some t →
    nodeAt g rf s (vs ++ [v]) = childSt g rf (nodeAt g rf s vs) t v := by
  intro vs
  induction vs with
  | nil => intro s v t _ ht; simp only [nodeAt] at ht; simp only [List.nil_append, nodeAt, ht]
  | cons x xs ih =>
    intro s v t hp ht
    obtain ⟨t', ht', _, hp'⟩ := hp
    simp only [nodeAt, ht'] at ht
    simp only [List.cons_append, nodeAt, ht']
    exact ih _ v t hp' ht

theorem isPath_take {g : G} {rf : Nat} : ∀ (vs : List Nat) (s : St) (k : Nat), IsPath g rf s vs →
    IsPath g rf s (vs.take k) := by
  intro vs
  induction vs with
  | nil => intro s k _; simp [IsPath]
  | cons x xs ih =>
    intro s k hp
    cases k with
    | zero => simp [IsPath]
    | succ k =>
      obtain ⟨t, ht, hx, hp'⟩ := hp
      simp only [List.take_succ_cons, IsPath]
      exact ⟨t, ht, hx, ih _ k hp'⟩

/-- a path that ends in a node without target cell ends in a leaf -/
theorem leaf_of_path {g : G} {rf : Nat} : ∀ (vs : List Nat) (s : St) (fuel : Nat), IsPath g rf s vs →
    target g (nodeAt g rf s vs) = none → vs.length ≤ fuel → (nodeAt g rf s vs).c ∈ leaves g rf fuel s := by
  intro vs
  induction vs with
  | nil =>
    intro s fuel _ ht _
    simp only [nodeAt] at ht ⊢
    cases fuel with
    | zero => simp [leaves]
    | succ f => simp [leaves, ht]
  | cons x xs ih =>
    intro s fuel hp ht hlen
    obtain ⟨t, htt, hx, hp'⟩ := hp
    simp only [nodeAt, htt] at ht ⊢
    cases fuel with
    | zero => simp at hlen
    | succ f =>
      simp only [leaves, htt, List.mem_flatMap]
      exact ⟨x, hx, ih _ f hp' ht (by simpa using hlen)⟩

/-- along a path the number of cells grows by at least one per step -/
theorem path_cells {g : G} (hg : WF g) {rf : Nat} : ∀ (vs : List Nat) (s : St), InvA g s → InvD g s →
    IsPath g rf s vs → s.cells + vs.length ≤ (nodeAt g rf s vs).cells ∧
      InvA g (nodeAt g rf s vs) ∧ InvD g (nodeAt g rf s vs) := by
  intro vs
  induction vs with
  | nil => intro s hA hD _; exact ⟨by simp [nodeAt], hA, hD⟩
  | cons x xs ih =>
    intro s hA hD hp
    obtain ⟨t, ht, hx, hp'⟩ := hp
    obtain ⟨htc, hlen⟩ := target_some ht
    have hA' := ind_invA hA htc x
    have hD' := ind_invD hA hD htc hx hlen
    have hinv := refine_inv rf _ ⟨hA', hD'⟩
    have hcells := refine_cells_le hg rf ⟨hA', hD'⟩
    obtain ⟨h1, h2, h3⟩ := ih (childSt g rf s t x) hinv.1 hinv.2 hp'
    simp only [nodeAt, ht]
    refine ⟨?_, h2, h3⟩
    have e : (individualise g s t x).cells = s.cells + 1 := rfl
    have hc : s.cells + 1 ≤ (childSt g rf s t x).cells := by unfold childSt; omega
    simp only [List.length_cons]
    omega

end IR
