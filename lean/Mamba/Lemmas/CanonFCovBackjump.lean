import Mamba.Lemmas.CanonFCovLeaf
/-!
# Heuristic 1 (backjump) at tree level: the child on the current path is complete if the child on the reference path is
-/
namespace CanonF

theorem bj_isPath_append {g : IR.G} {rf : Nat} : ∀ (l1 : List Nat) (s : IR.St) (l2 : List Nat),
    IR.IsPath g rf s (l1 ++ l2) ↔ IR.IsPath g rf s l1 ∧ IR.IsPath g rf (IR.nodeAt g rf s l1) l2 := by
  intro l1
  induction l1 with
  | nil => intro s l2; simp [IR.IsPath, IR.nodeAt]
  | cons x xs ih =>
    intro s l2
    simp only [List.cons_append, IR.IsPath]
    constructor
    · rintro ⟨t, ht, hx, hp⟩
      obtain ⟨a, b⟩ := (ih _ l2).1 hp
      refine ⟨⟨t, ht, hx, a⟩, ?_⟩
      simp only [IR.nodeAt, ht]
      exact b
    · rintro ⟨⟨t, ht, hx, a⟩, b⟩
      simp only [IR.nodeAt, ht] at b
      exact ⟨t, ht, hx, (ih _ l2).2 ⟨a, b⟩⟩

theorem bj_nodeAt_append {g : IR.G} {rf : Nat} : ∀ (l1 : List Nat) (s : IR.St) (l2 : List Nat),
    IR.IsPath g rf s l1 → IR.nodeAt g rf s (l1 ++ l2) = IR.nodeAt g rf (IR.nodeAt g rf s l1) l2 := by
  intro l1
  induction l1 with
  | nil => intro s l2 _; simp [IR.nodeAt]
  | cons x xs ih =>
    intro s l2 hp
    obtain ⟨t, ht, _, hp'⟩ := hp
    simp only [List.cons_append, IR.nodeAt, ht]
    exact ih _ l2 hp'

theorem bj_split_at {l : List Nat} {i c : Nat} (h : l[i]? = some c) : l = l.take i ++ c :: l.drop (i + 1) := by
  obtain ⟨hi, e⟩ := List.getElem?_eq_some_iff.1 h
  have := List.drop_eq_getElem_cons hi
  rw [e] at this
  rw [← this, List.take_append_drop]

/-- a leaf below the child `c` of the node `ν = nodeAt r pre` (target cell `st`): the leaf order refines `ν` and puts `c`
at position `st` -/
theorem bj_leaf_facts {n : Nat} {nb : Nbrs} {rf : Nat} {r : IR.St} (hnb : NbOK nb n)
    (hA : IR.InvA (irG n nb) r) (hD : IR.InvD (irG n nb) r) {pre suf o : List Nat} {st c : Nat}
    (hp : IR.IsPath (irG n nb) rf r (pre ++ c :: suf))
    (ht : IR.target (irG n nb) (IR.nodeAt (irG n nb) rf r (pre ++ c :: suf)) = none)
    (hc : (IR.nodeAt (irG n nb) rf r (pre ++ c :: suf)).c = IR.tab n (fun v => o.idxOf v))
    (hst : IR.target (irG n nb) (IR.nodeAt (irG n nb) rf r pre) = some st) :
    c < n ∧ IR.Mono n (IR.nodeAt (irG n nb) rf r pre).c (IR.tab n (fun v => o.idxOf v)) ∧ o.idxOf c = st := by
  obtain ⟨hpre, hsuf⟩ := (bj_isPath_append pre r (c :: suf)).1 hp
  have hnode := bj_nodeAt_append pre r (c :: suf) hpre
  have hmono := path_mono hnb rf (c :: suf) _ hsuf
  rw [← hnode, hc] at hmono
  obtain ⟨t', ht', hcm, hsuf'⟩ := hsuf
  rw [hst] at ht'
  cases ht'
  have hcn : c < n := (IR.mem_cellMembers.1 hcm).1
  obtain ⟨_, hAν, hDν⟩ := IR.path_cells (irG_wf hnb) (rf := rf) pre r hA hD hpre
  have hnode' : IR.nodeAt (irG n nb) rf r (pre ++ c :: suf) =
      IR.nodeAt (irG n nb) rf (IR.childSt (irG n nb) rf (IR.nodeAt (irG n nb) rf r pre) st c) suf := by
    rw [hnode]; simp only [IR.nodeAt, hst]
  rw [hnode'] at ht hc
  have hpos := IR.child_pos (irG_wf hnb) rf hAν hDν hst hcm suf hsuf' ht
  rw [hc, IR.col_tab _ hcn] at hpos
  exact ⟨hcn, hmono, hpos⟩

theorem backjump_child_complete {n : Nat} {nb : Nbrs} {rf : Nat} {r : IR.St} (hnb : NbOK nb n)
    (hA : IR.InvA (irG n nb) r) (hD : IR.InvD (irG n nb) r) {best : List Nat}
    {vs vsR : List Nat} {o1 o2 : List Nat} {i st b c : Nat}
    (hp1 : IR.IsPath (irG n nb) rf r vsR) (ht1 : IR.target (irG n nb) (IR.nodeAt (irG n nb) rf r vsR) = none)
    (hc1 : (IR.nodeAt (irG n nb) rf r vsR).c = IR.tab n (fun v => o1.idxOf v)) (ho1 : o1.Perm (List.range n))
    (hp2 : IR.IsPath (irG n nb) rf r vs) (ht2 : IR.target (irG n nb) (IR.nodeAt (irG n nb) rf r vs) = none)
    (hc2 : (IR.nodeAt (irG n nb) rf r vs).c = IR.tab n (fun v => o2.idxOf v)) (ho2 : o2.Perm (List.range n))
    (hcert : certPos nb o1 n = certPos nb o2 n)
    (hcommon : vsR.take i = vs.take i) (hb : vsR[i]? = some b) (hcv : vs[i]? = some c)
    (hst : IR.target (irG n nb) (nodeL n nb rf r vs i) = some st)
    (hcomp : Complete n nb rf best (IR.childSt (irG n nb) rf (nodeL n nb rf r vs i) st b)) :
    Complete n nb rf best (IR.childSt (irG n nb) rf (nodeL n nb rf r vs i) st c) := by
  have e1 := bj_split_at hb
  rw [hcommon] at e1
  have e2 := bj_split_at hcv
  have hst' : IR.target (irG n nb) (IR.nodeAt (irG n nb) rf r (vs.take i)) = some st := hst
  obtain ⟨hbn, hm1, hi1⟩ := bj_leaf_facts hnb hA hD (o := o1) (e1 ▸ hp1) (e1 ▸ ht1) (e1 ▸ hc1) hst'
  obtain ⟨hcn, hm2, hi2⟩ := bj_leaf_facts hnb hA hD (o := o2) (e2 ▸ hp2) (e2 ▸ ht2) (e2 ▸ hc2) hst'
  have hcmem : c ∈ o2 := ho2.mem_iff.2 (List.mem_range.2 hcn)
  have hpos : o2[o1.idxOf b]? = some c := by
    rw [hi1, ← hi2]; exact getElem?_idxOf_of_mem hcmem
  intro x hx
  exact hcomp x ((backjump_sound hnb rf (ν := nodeL n nb rf r vs i) ho1 ho2 hm1 hm2 hcert hbn hpos x).1 hx)

end CanonF
