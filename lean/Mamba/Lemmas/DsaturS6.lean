import Mamba.Lemmas.DsaturS5
/-! DSATUR model: a backtracking step (`dsBacktrackTo`) preserves the state invariant. -/
namespace CliqueColour
open GraphSpec

theorem uncolourLoop_inv {g : G} {U0 : Nat} {s : Dsat} (h : DSInv g U0 s) : ∀ (js pre : List Nat) (t : Dsat),
    (pre ++ js.reverse) <+: s.chosen → UInv g U0 s (pre ++ js.reverse) t → UInv g U0 s pre (uncolourLoop g js t) := by
  intro js
  induction js with
  | nil =>
    intro pre t _ hu
    have e : pre ++ ([] : List Nat).reverse = pre := by simp
    rw [e] at hu
    exact hu
  | cons cv rest ih =>
    intro pre t hp hu
    have e : pre ++ (cv :: rest).reverse = (pre ++ rest.reverse) ++ [cv] := by simp
    rw [e] at hp hu
    have h1 := uncolour_one h hp hu
    have hp' : (pre ++ rest.reverse) <+: s.chosen :=
      List.IsPrefix.trans (List.prefix_append _ _) hp
    exact ih pre _ hp' h1

theorem recolour_step {g : G} (st : Dsat) (cv old nc u : Nat) (hu : u < st.seen.length)
    (hk1 : old < (st.seen.getD u []).length) (hk2 : nc < (st.seen.getD u []).length) :
    SameFrame st (if g.adj u cv then seeInc (seeDec st u old) u nc else st) ∧
      (if g.adj u cv then seeInc (seeDec st u old) u nc else st).heap = st.heap ∧
      ∀ u' c', seenAt (if g.adj u cv then seeInc (seeDec st u old) u nc else st) u' c' = seenAt st u' c' +
        (if u' = u then (if g.adj u cv = true then
          ((if c' = nc then 1 else 0) - (if c' = old then 1 else 0)) else 0) else 0) := by
  by_cases hadj : g.adj u cv = true
  · have e : (if g.adj u cv then seeInc (seeDec st u old) u nc else st) = seeInc (seeDec st u old) u nc := by
      simp [hadj]
    rw [e]
    have f1 := seeDec_frame st u old
    have f2 := seeInc_frame (seeDec st u old) u nc
    refine ⟨SameFrame.trans f1.1 f2.1, f2.2.trans f1.2, fun u' c' => ?_⟩
    rw [seeInc_seenAt _ u nc (by rw [f1.1.seenLen]; exact hu) (by rw [f1.1.rowLen]; exact hk2),
      seeDec_seenAt st u old hu hk1]
    by_cases h1 : u' = u
    · rw [if_pos h1, if_pos hadj]
      by_cases h2 : c' = nc <;> by_cases h3 : c' = old <;> simp [h1, h2, h3] <;> omega
    · rw [if_neg h1, if_neg (fun hh => h1 hh.1), if_neg (fun hh => h1 hh.1)]; omega
  · have e : (if g.adj u cv then seeInc (seeDec st u old) u nc else st) = st := by simp [hadj]
    rw [e]
    refine ⟨SameFrame.refl st, rfl, fun u' c' => ?_⟩
    rw [if_neg hadj]
    split <;> omega

/-- everything a backtracking step does, in terms of the state `t` after the uncolouring loop -/
theorem dsBacktrackTo_facts (g : G) {U0 : Nat} {s : Dsat} (h : DSInv g U0 s) {i : Nat} (hi : i < s.chosen.length)
    (hadv : s.cur.getD i 0 + 1 < (s.choices.getD i []).length) :
    ∃ t r oc nc, dsBacktrackTo g s i = r ∧ UInv g U0 s (s.chosen.take (i + 1)) t ∧
      oc = (s.choices.getD i []).getD (s.cur.getD i 0) 0 ∧ nc = (s.choices.getD i []).getD (s.cur.getD i 0 + 1) 0 ∧
      r.heap.Perm t.heap ∧ HeapOK r.num r.deg r.heap ∧
      r.chosen = s.chosen.take (i + 1) ∧ r.cur = (s.cur.take (i + 1)).set i (s.cur.getD i 0 + 1) ∧
      r.choices = s.choices.take (i + 1) ∧ r.colouring = t.colouring.set (s.chosen.getD i 0) (nc : Int) ∧
      r.maxUsed = (s.chosen.take (i + 1)).foldl
        (fun m u => if (t.colouring.set (s.chosen.getD i 0) (nc : Int)).getD u 0 > m
          then (t.colouring.set (s.chosen.getD i 0) (nc : Int)).getD u 0 else m) 0 ∧
      r.upper = s.upper ∧ r.best = s.best ∧ r.seen.length = g.n ∧
      (∀ v, v < g.n → (r.seen.getD v []).length = U0) ∧
      ∀ u c', seenAt r u c' = seenAt t u c' + (if u ∈ t.heap then (if g.adj u (s.chosen.getD i 0) = true then
        ((if c' = nc then 1 else 0) - (if c' = oc then 1 else 0)) else 0) else 0) := by
  have hpre : (s.chosen.take (i + 1) ++ ((s.chosen.drop (i + 1)).reverse).reverse) <+: s.chosen := by
    rw [List.reverse_reverse, List.take_append_drop]; exact List.prefix_refl _
  have hu0 : UInv g U0 s (s.chosen.take (i + 1) ++ ((s.chosen.drop (i + 1)).reverse).reverse) s := by
    rw [List.reverse_reverse, List.take_append_drop]; exact UInv.init h
  have hu := uncolourLoop_inv h _ _ s hpre hu0
  generalize ht : uncolourLoop g (s.chosen.drop (i + 1)).reverse s = t at hu
  obtain ⟨hcur, hcol⟩ := h.colch i hi
  have hcvC : s.chosen.getD i 0 ∈ s.chosen.take (i + 1) := (mem_take_iff_getD (by omega)).2 ⟨i, by omega, rfl⟩
  have hcvn : s.chosen.getD i 0 < g.n := h.chlt _ (getD_mem' hi)
  have hcolt : t.colouring.getD (s.chosen.getD i 0) 0 =
      (((s.choices.getD i []).getD (s.cur.getD i 0) 0 : Nat) : Int) := by
    have := hu.colpre _ hcvC
    unfold colOf at this hcol
    rw [this, hcol]
  have hocU : (s.choices.getD i []).getD (s.cur.getD i 0) 0 + 2 ≤ U0 := (h.optF i hi _ (getD_mem' hcur)).2.1
  have hncU : (s.choices.getD i []).getD (s.cur.getD i 0 + 1) 0 + 2 ≤ U0 := (h.optF i hi _ (getD_mem' hadv)).2.1
  have hgetcv : (t.chosen.take (i + 1)).getD i 0 = s.chosen.getD i 0 := by
    rw [hu.chosen, getD_take_lt 0 (by omega)]
  -- the recolouring fold
  obtain ⟨hfr, hheap, hseen⟩ := foldl_counters
    (fun st u => if g.adj u (s.chosen.getD i 0) then
      seeInc (seeDec st u ((s.choices.getD i []).getD (s.cur.getD i 0) 0)) u
        ((s.choices.getD i []).getD (s.cur.getD i 0 + 1) 0) else st)
    (fun u c' => if g.adj u (s.chosen.getD i 0) = true then
      ((if c' = (s.choices.getD i []).getD (s.cur.getD i 0 + 1) 0 then 1 else 0) -
        (if c' = (s.choices.getD i []).getD (s.cur.getD i 0) 0 then 1 else 0)) else 0)
    (fun st u => u < st.seen.length ∧ (s.choices.getD i []).getD (s.cur.getD i 0) 0 < (st.seen.getD u []).length ∧
      (s.choices.getD i []).getD (s.cur.getD i 0 + 1) 0 < (st.seen.getD u []).length)
    (fun st st' u hfr hP => by rw [hfr.seenLen, hfr.rowLen]; exact hP)
    (fun st u hP => recolour_step st _ _ _ u hP.1 hP.2.1 hP.2.2)
    t.heap ({ t with cur := t.cur.take (i + 1), choices := t.choices.take (i + 1),
                     chosen := t.chosen.take (i + 1) } : Dsat) hu.hnd
    (fun u hum => by
      have hun := ((hu.hmem u).1 hum).1
      show u < t.seen.length ∧ _ < (t.seen.getD u []).length ∧ _ < (t.seen.getD u []).length
      rw [hu.lseen, hu.lrow u hun]; exact ⟨hun, by omega, by omega⟩)
  refine ⟨t, dsBacktrackTo g s i, _, _, rfl, hu, rfl, rfl, ?_⟩
  simp only [dsBacktrackTo, ht, hgetcv, hcolt, Int.toNat_natCast]
  generalize t.heap.foldl _ _ = s3 at hfr hheap hseen
  have hinit := heapInit_spec s3.num s3.deg s3.heap
  refine ⟨hinit.1.trans (by rw [hheap]), hinit.2, hfr.chosen.trans (by simp [hu.chosen]), ?_,
    hfr.choices.trans (by simp [hu.choices]), ?_, ?_, hfr.upper.trans hu.upper, hfr.best.trans hu.best,
    hfr.seenLen.trans hu.lseen, fun v hv => (hfr.rowLen v).trans (hu.lrow v hv), fun u c' => ?_⟩
  · show s3.cur.set i _ = _
    rw [hfr.cur]; simp [hu.cur]
  · show s3.colouring.set _ _ = _
    rw [hfr.colouring]
  · show List.foldl _ 0 s3.chosen = _
    rw [hfr.chosen, hfr.colouring]
    simp [hu.chosen]
  · exact hseen u c'

end CliqueColour
