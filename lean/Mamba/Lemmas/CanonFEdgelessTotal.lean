import Mamba.Lemmas.CanonFEdgelessGen

/-!
# Totality of the `m == 0` shortcut: `edgeless` never panics on a storage of sufficient capacity
-/
namespace CanonF

/-- progress of the fill loop `for i := 0; i < k; i++ { t[i] = f i }` -/
theorem edg_fill_total (f : Nat → Nat) (k : Nat) (t : Sl Nat) (hk : k ≤ t.len) (hw : t.WF) :
    ∃ t', forRange (fun i (t : Sl Nat) => t.set i (f i)) k 0 t = .ok t' ∧ t'.len = t.len ∧
      t'.data.size = t.data.size := by
  have := forRange_total (fun i (t : Sl Nat) => t.set i (f i))
    (fun _ s => s.len = t.len ∧ s.data.size = t.data.size) k 0 t ⟨rfl, rfl⟩ ?_
  · obtain ⟨r, h1, h2⟩ := this
    exact ⟨r, h1, h2⟩
  · intro i s _ hi ⟨hl, hc⟩
    have hw' : s.WF := by unfold Sl.WF at *; omega
    have hs := Sl.set_ok_of_lt hw' (i := i) (by omega) (f i)
    exact ⟨_, hs, by simp [hl], by simp [hc]⟩

/-- the temporary of length `n` -/
theorem edg_mkTmp (n : Nat) (t0 : Sl Nat) :
    (if t0.cap < n then Sl.mk' n n 0 else (⟨t0.data, n⟩ : Sl Nat)).len = n ∧
    (if t0.cap < n then Sl.mk' n n 0 else (⟨t0.data, n⟩ : Sl Nat)).WF := by
  unfold Sl.WF
  split
  · simp [Sl.mk']
  · rename_i h; simp only [Sl.cap] at h; exact ⟨rfl, by simp; omega⟩

/-- progress of a `set` that keeps length and well-formedness -/
theorem edg_set_total {n : Nat} (t : Sl Nat) (hl : t.len = n) (hw : t.WF) (j v : Nat) (hj : j < n) :
    ∃ t', t.set j v = .ok t' ∧ t'.len = n ∧ t'.WF := by
  have hs := Sl.set_ok_of_lt hw (i := j) (by omega) v
  exact ⟨_, hs, by rw [Sl.set_len hs, hl], Sl.set_wf hw hs⟩

/-- progress of the fill loop on a temporary of length `n` -/
theorem edg_fill_total' {n : Nat} (f : Nat → Nat) (t : Sl Nat) (hl : t.len = n) (hw : t.WF) :
    ∃ t', forRange (fun i (t : Sl Nat) => t.set i (f i)) t.len 0 t = .ok t' ∧ t'.len = n ∧ t'.WF := by
  obtain ⟨t', e, l, c⟩ := edg_fill_total f t.len t (Nat.le_refl _) hw
  refine ⟨t', e, by rw [l, hl], ?_⟩
  unfold Sl.WF at *; omega

theorem edgeless_total {n : Nat} {st : Storage} (hn : n ≠ 0) (h1 : n ≤ st.currentBestPerm.size)
    (h2 : n ≤ st.firstLeafOrbits.size) (h3 : n ≤ st.generators.size + 1) : ∃ x, edgeless n st = .ok x := by
  have hperm : (⟨st.currentBestPerm, 0⟩ : Sl Nat).reslice n = .ok ⟨st.currentBestPerm, n⟩ :=
    Sl.reslice_eq_ok.2 ⟨h1, rfl⟩
  have hds : dsSlice st.firstLeafOrbits n =
      .ok (st.firstLeafOrbits.extract 0 n, st.firstLeafOrbits.extract n st.firstLeafOrbits.size) := by
    simp [dsSlice, h2]
  obtain ⟨perm', hid, _, _⟩ := edg_fill_total (fun i => i) n ⟨st.currentBestPerm, n⟩ (Nat.le_refl _) h1
  unfold edgeless
  rw [hperm, hds]
  dsimp only
  unfold identLoop
  rw [hid]
  dsimp only
  by_cases hn1 : n = 1
  · rw [if_pos hn1]; exact ⟨_, rfl⟩
  rw [if_neg hn1, if_pos (by omega)]
  obtain ⟨ta, ea, la, wa⟩ := edg_fill_total' (fun i => i + 1) _ (edg_mkTmp n (st.generators.getD 0 default)).1
    (edg_mkTmp n (st.generators.getD 0 default)).2
  obtain ⟨tb, eb, lb, wb⟩ := edg_set_total ta la wa (n - 1) 0 (by omega)
  rw [ea]; dsimp only
  rw [eb]; dsimp only
  by_cases hn2 : n = 2
  · rw [if_pos hn2]; exact ⟨_, rfl⟩
  rw [if_neg hn2, if_pos (by rw [Array.size_setIfInBounds]; omega)]
  obtain ⟨tc, ec, lc, wc⟩ := edg_fill_total' (fun i => i) _
    (edg_mkTmp n ((st.generators.setIfInBounds 0 tb).getD 1 default)).1
    (edg_mkTmp n ((st.generators.setIfInBounds 0 tb).getD 1 default)).2
  obtain ⟨td, ed, ld, wd⟩ := edg_set_total tc lc wc 0 1 (by omega)
  obtain ⟨te, ee, le, we⟩ := edg_set_total td ld wd 1 0 (by omega)
  rw [ec]; dsimp only
  rw [ed]; dsimp only
  rw [ee]
  exact ⟨_, rfl⟩

end CanonF
