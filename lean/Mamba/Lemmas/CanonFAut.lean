import Mamba.Lemmas.CanonFCert
import Mathlib.Data.List.Perm.Subperm
import Mathlib.Data.List.Nodup

namespace CanonF

theorem aut_tri_succ (p : Nat) : tri (p + 1) = tri p + p := by
  unfold tri
  cases p with
  | zero => rfl
  | succ k =>
    have : (k + 1 + 1) * (k + 1 + 1 - 1) = 2 * (k + 1) + (k + 1) * (k + 1 - 1) := by
      simp only [Nat.add_sub_cancel, Nat.add_mul, Nat.mul_add]; omega
    rw [this, Nat.mul_add_div (by omega)]; omega

theorem aut_tri_le {p p' : Nat} (h : p ≤ p') : tri p ≤ tri p' := by
  induction h with
  | refl => exact Nat.le_refl _
  | step _ ih => rw [aut_tri_succ]; omega

/-- `tri p + q` with `q < p` determines `p` and `q` -/
theorem aut_tri_inj {q p q' p' : Nat} (h1 : q < p) (h2 : q' < p') (e : tri p + q = tri p' + q') : p = p' ∧ q = q' := by
  have hp : p = p' := by
    rcases Nat.lt_trichotomy p p' with h | h | h
    · have := aut_tri_le (show p + 1 ≤ p' from h); rw [aut_tri_succ] at this; omega
    · exact h
    · have := aut_tri_le (show p' + 1 ≤ p from h); rw [aut_tri_succ] at this; omega
  subst hp
  exact ⟨rfl, by omega⟩

theorem aut_perm_facts {o : List Nat} {n : Nat} (ho : o.Perm (List.range n)) :
    o.length = n ∧ o.Nodup ∧ ∀ x, x ∈ o ↔ x < n :=
  ⟨by simpa using ho.length_eq, ho.nodup_iff.2 List.nodup_range, fun x => by rw [ho.mem_iff, List.mem_range]⟩

theorem aut_idxOf_getD {o : List Nat} (hn : o.Nodup) {p : Nat} (hp : p < o.length) : o.idxOf (o.getD p 0) = p := by
  rw [List.getD_eq_getElem?_getD, List.getElem?_eq_getElem hp, Option.getD_some]
  exact hn.idxOf_getElem p hp

theorem aut_getD_idxOf {o : List Nat} {x : Nat} (hx : x ∈ o) : o.getD (o.idxOf x) 0 = x := by
  have h := List.idxOf_lt_length_of_mem hx
  rw [List.getD_eq_getElem?_getD, List.getElem?_eq_getElem h, Option.getD_some]
  exact List.getElem_idxOf h

/-- membership in the certificate -/
theorem mem_certPos {nb : Nbrs} {o : List Nat} {n s x : Nat} (ho : o.Perm (List.range n)) (hs : s ≤ n) :
    x ∈ certPos nb o s ↔ ∃ p q, q < p ∧ p < s ∧ x = tri p + q ∧ o.getD q 0 ∈ nb.getD (o.getD p 0) [] := by
  obtain ⟨hl, hnd, hmem⟩ := aut_perm_facts ho
  unfold certPos
  simp only [List.mem_flatMap, List.mem_range, blockCodes, sortNat, List.mem_mergeSort, rawCodes, List.mem_filterMap]
  constructor
  · rintro ⟨j, hj, v, hv, h⟩
    split at h
    · next hlt =>
      simp only [Option.some.injEq] at h
      refine ⟨j, o.idxOf v, hlt, hj, h.symm, ?_⟩
      rw [aut_getD_idxOf (List.idxOf_lt_length_iff.1 (by omega))]
      exact hv
    · simp at h
  · rintro ⟨p, q, hqp, hps, rfl, hm⟩
    refine ⟨p, hps, o.getD q 0, hm, ?_⟩
    rw [aut_idxOf_getD hnd (by omega)]
    simp [hqp]

theorem aut_transport_getD {n : Nat} {o1 o2 : List Nat} {x : Nat} (hx : x < n) :
    (transport n o1 o2).getD x 0 = o2.getD (o1.idxOf x) 0 := by
  unfold transport
  rw [List.getD_eq_getElem?_getD, List.getElem?_map, List.getElem?_range hx]
  rfl

theorem aut_transport_perm {n : Nat} {o1 o2 : List Nat}
    (h1 : o1.Perm (List.range n)) (h2 : o2.Perm (List.range n)) : (transport n o1 o2).Perm (List.range n) := by
  obtain ⟨hl1, hnd1, hmem1⟩ := aut_perm_facts h1
  obtain ⟨hl2, hnd2, hmem2⟩ := aut_perm_facts h2
  have hidx : ∀ x, x < n → o1.idxOf x < n := fun x hx => by
    rw [← hl1]; exact List.idxOf_lt_length_of_mem ((hmem1 x).2 hx)
  have hnd : (transport n o1 o2).Nodup := by
    unfold transport
    apply List.Nodup.map_on _ List.nodup_range
    intro x hx y hy e
    rw [List.mem_range] at hx hy
    have e2 : o1.idxOf x = o1.idxOf y := by
      have := congrArg o2.idxOf e
      rwa [aut_idxOf_getD hnd2 (by rw [hl2]; exact hidx x hx),
        aut_idxOf_getD hnd2 (by rw [hl2]; exact hidx y hy)] at this
    rw [← aut_getD_idxOf ((hmem1 x).2 hx), ← aut_getD_idxOf ((hmem1 y).2 hy), e2]
  have hsub : transport n o1 o2 ⊆ List.range n := by
    intro z hz
    unfold transport at hz
    rw [List.mem_map] at hz
    obtain ⟨x, hx, rfl⟩ := hz
    rw [List.mem_range] at hx ⊢
    rw [← hmem2, List.getD_eq_getElem?_getD, List.getElem?_eq_getElem (by rw [hl2]; exact hidx x hx), Option.getD_some]
    exact List.getElem_mem _
  exact (hnd.subperm hsub).perm_of_length_le (by simp [transport])

theorem aut_adj_lt {nb : Nbrs} {n : Nat} {o1 o2 : List Nat}
    (h1 : o1.Perm (List.range n)) (h2 : o2.Perm (List.range n))
    (hc : certPos nb o1 n = certPos nb o2 n) {p q : Nat} (hqp : q < p) (hp : p < n) :
    o1.getD q 0 ∈ nb.getD (o1.getD p 0) [] → o2.getD q 0 ∈ nb.getD (o2.getD p 0) [] := by
  intro h
  have m1 : tri p + q ∈ certPos nb o1 n := (mem_certPos h1 (Nat.le_refl n)).2 ⟨p, q, hqp, hp, rfl, h⟩
  rw [hc, mem_certPos h2 (Nat.le_refl n)] at m1
  obtain ⟨p', q', a, b, c, d⟩ := m1
  obtain ⟨rfl, rfl⟩ := aut_tri_inj hqp a c
  exact d

theorem aut_adj {nb : Nbrs} {n : Nat} {o1 o2 : List Nat} (hnb : NbOK nb n)
    (h1 : o1.Perm (List.range n)) (h2 : o2.Perm (List.range n))
    (hc : certPos nb o1 n = certPos nb o2 n) {p q : Nat} (hq : q < n) (hp : p < n) :
    o1.getD q 0 ∈ nb.getD (o1.getD p 0) [] → o2.getD q 0 ∈ nb.getD (o2.getD p 0) [] := by
  intro h
  rcases Nat.lt_trichotomy q p with hlt | heq | hgt
  · exact aut_adj_lt h1 h2 hc hlt hp h
  · subst heq; exact absurd h (hnb.irrefl _)
  · exact hnb.symm _ _ (aut_adj_lt h1 h2 hc hgt hq (hnb.symm _ _ h))

/-- two vertex orders with the same full certificate differ by an automorphism -/
theorem aut_of_cert {nb : Nbrs} {n : Nat} {o1 o2 : List Nat} (hnb : NbOK nb n)
    (h1 : o1.Perm (List.range n)) (h2 : o2.Perm (List.range n))
    (hc : certPos nb o1 n = certPos nb o2 n) : IsAutL nb n (transport n o1 o2) := by
  refine ⟨aut_transport_perm h1 h2, ?_⟩
  intro x y hx hy
  obtain ⟨hl1, hnd1, hmem1⟩ := aut_perm_facts h1
  have hidx : ∀ x, x < n → o1.idxOf x < n := fun x hx => by
    rw [← hl1]; exact List.idxOf_lt_length_of_mem ((hmem1 x).2 hx)
  rw [aut_transport_getD hx, aut_transport_getD hy]
  have ex := aut_getD_idxOf ((hmem1 x).2 hx)
  have ey := aut_getD_idxOf ((hmem1 y).2 hy)
  constructor
  · intro h
    apply aut_adj hnb h1 h2 hc (hidx y hy) (hidx x hx)
    rw [ex, ey]; exact h
  · intro h
    have := aut_adj hnb h2 h1 hc.symm (hidx y hy) (hidx x hx) h
    rwa [ex, ey] at this

theorem transport_eq {n : Nat} {o1 o2 pinv : List Nat} (h1 : o1.Perm (List.range n))
    (hinv : ∀ i x : Nat, o1[i]? = some x → pinv[x]? = some i) :
    (List.range n).map (fun x => o2.getD (pinv.getD x 0) 0) = transport n o1 o2 := by
  obtain ⟨hl1, hnd1, hmem1⟩ := aut_perm_facts h1
  unfold transport
  apply List.map_congr_left
  intro x hx
  rw [List.mem_range] at hx
  have hm := (hmem1 x).2 hx
  have hlt := List.idxOf_lt_length_of_mem hm
  have := hinv (o1.idxOf x) x (by rw [List.getElem?_eq_getElem hlt, List.getElem_idxOf hlt])
  rw [List.getD_eq_getElem?_getD (l := pinv), this, Option.getD_some]

end CanonF
