import Mamba.Model.DawgSearch
/-!
# C13 helper lemmas, part A: the recursive search against a list of lawful searchers

`Spec σ` describes one searcher by what it does as a function of the (reversed) path walked so far:
`R rp s` — `s` is a legitimate state of the searcher after the steps `rp.reverse`; `A rp c` — the answer of
`AllowStep(c)` there; `W rp` — the answer of `AllowWord()` there. `Lawful ops sp` says that the interface
functions `ops` behave like that. Nothing here is specific to the two concrete searchers.
-/
namespace DawgSearch

structure Spec (σ : Type) where
  R : Word → σ → Prop
  A : Word → UInt8 → Bool
  W : Word → Bool

structure Lawful {σ : Type} (ops : Ops σ) (sp : Spec σ) : Prop where
  allowStep : ∀ rp s c, sp.R rp s → ops.allowStep s c = .ok (sp.A rp c)
  step : ∀ rp s c, sp.R rp s → sp.A rp c = true → ∃ s', ops.step s c = .ok s' ∧ sp.R (c :: rp) s'
  backstep : ∀ rp s c, sp.R (c :: rp) s → ∃ s', ops.backstep s = .ok s' ∧ sp.R rp s'
  allowWord : ∀ rp s, sp.R rp s → ops.allowWord s = .ok (sp.W rp)
  chosen : ∀ rp s, sp.R rp s → ∃ s', ops.chosen s = .ok s' ∧ sp.R rp s'

/-- the searcher accepts the continuation `w` from the reversed path `rp`: every step allowed, then the word
allowed -/
def Spec.accFrom {σ : Type} (sp : Spec σ) : Word → Word → Bool
  | rp, [] => sp.W rp
  | rp, c :: w => sp.A rp c && sp.accFrom (c :: rp) w

/-- the searcher accepts the word `w` -/
def Spec.accepts {σ : Type} (sp : Spec σ) (w : Word) : Bool := sp.accFrom [] w

/-- all searchers accept the continuation -/
def accAllFrom {σ : Type} (specs : List (Spec σ)) (rp w : Word) : Bool := specs.all (·.accFrom rp w)

/-- every searcher of the list is in a legitimate state for the path -/
def RAll {σ : Type} : List (Spec σ) → Word → List σ → Prop
  | [], _, [] => True
  | sp :: sps, rp, s :: ss => sp.R rp s ∧ RAll sps rp ss
  | _, _, _ => False

section
variable {σ : Type} {ops : Ops σ}

theorem allowStepAll_spec : ∀ (specs : List (Spec σ)) (ss : List σ) (rp : Word) (c : UInt8),
    (∀ sp ∈ specs, Lawful ops sp) → RAll specs rp ss →
    allowStepAll ops ss c = .ok (specs.all (·.A rp c))
  | [], [], _, _, _, _ => rfl
  | [], _ :: _, _, _, _, h => h.elim
  | _ :: _, [], _, _, _, h => h.elim
  | sp :: sps, s :: ss, rp, c, hl, h => by
    have h1 := (hl sp (by simp)).allowStep rp s c h.1
    have ih := allowStepAll_spec sps ss rp c (fun x hx => hl x (by simp [hx])) h.2
    simp only [allowStepAll, h1, Outcome.bind_ok, List.all_cons]
    cases hA : sp.A rp c <;> simp [ih]

theorem allowWordAll_spec : ∀ (specs : List (Spec σ)) (ss : List σ) (rp : Word),
    (∀ sp ∈ specs, Lawful ops sp) → RAll specs rp ss →
    allowWordAll ops ss = .ok (specs.all (·.W rp))
  | [], [], _, _, _ => rfl
  | [], _ :: _, _, _, h => h.elim
  | _ :: _, [], _, _, h => h.elim
  | sp :: sps, s :: ss, rp, hl, h => by
    have h1 := (hl sp (by simp)).allowWord rp s h.1
    have ih := allowWordAll_spec sps ss rp (fun x hx => hl x (by simp [hx])) h.2
    simp only [allowWordAll, h1, Outcome.bind_ok, List.all_cons]
    cases hA : sp.W rp <;> simp [ih]

theorem stepAll_spec : ∀ (specs : List (Spec σ)) (ss : List σ) (rp : Word) (c : UInt8),
    (∀ sp ∈ specs, Lawful ops sp) → RAll specs rp ss → specs.all (·.A rp c) = true →
    ∃ ss', stepAll ops ss c = .ok ss' ∧ RAll specs (c :: rp) ss'
  | [], [], _, _, _, _, _ => ⟨[], rfl, trivial⟩
  | [], _ :: _, _, _, _, h, _ => h.elim
  | _ :: _, [], _, _, _, h, _ => h.elim
  | sp :: sps, s :: ss, rp, c, hl, h, ha => by
    simp only [List.all_cons, Bool.and_eq_true] at ha
    obtain ⟨s', h1, h2⟩ := (hl sp (by simp)).step rp s c h.1 ha.1
    obtain ⟨ss', h3, h4⟩ := stepAll_spec sps ss rp c (fun x hx => hl x (by simp [hx])) h.2 ha.2
    exact ⟨s' :: ss', by simp [stepAll, h1, h3], h2, h4⟩

theorem backstepAll_spec : ∀ (specs : List (Spec σ)) (ss : List σ) (rp : Word) (c : UInt8),
    (∀ sp ∈ specs, Lawful ops sp) → RAll specs (c :: rp) ss →
    ∃ ss', backstepAll ops ss = .ok ss' ∧ RAll specs rp ss'
  | [], [], _, _, _, _ => ⟨[], rfl, trivial⟩
  | [], _ :: _, _, _, _, h => h.elim
  | _ :: _, [], _, _, _, h => h.elim
  | sp :: sps, s :: ss, rp, c, hl, h => by
    obtain ⟨s', h1, h2⟩ := (hl sp (by simp)).backstep rp s c h.1
    obtain ⟨ss', h3, h4⟩ := backstepAll_spec sps ss rp c (fun x hx => hl x (by simp [hx])) h.2
    exact ⟨s' :: ss', by simp [backstepAll, h1, h3], h2, h4⟩

theorem chosenAll_spec : ∀ (specs : List (Spec σ)) (ss : List σ) (rp : Word),
    (∀ sp ∈ specs, Lawful ops sp) → RAll specs rp ss →
    ∃ ss', chosenAll ops ss = .ok ss' ∧ RAll specs rp ss'
  | [], [], _, _, _ => ⟨[], rfl, trivial⟩
  | [], _ :: _, _, _, h => h.elim
  | _ :: _, [], _, _, h => h.elim
  | sp :: sps, s :: ss, rp, hl, h => by
    obtain ⟨s', h1, h2⟩ := (hl sp (by simp)).chosen rp s h.1
    obtain ⟨ss', h3, h4⟩ := chosenAll_spec sps ss rp (fun x hx => hl x (by simp [hx])) h.2
    exact ⟨s' :: ss', by simp [chosenAll, h1, h3], h2, h4⟩

end

/-! ### `rankFilter` -/

theorem rankFilter_append (acc : Word → Bool) : ∀ (a b : List Word) (k : Int),
    rankFilter acc (a ++ b) k = rankFilter acc a k ++ rankFilter acc b (k + a.length)
  | [], b, k => by simp [rankFilter]
  | w :: a, b, k => by
    have ih := rankFilter_append acc a b (k + 1)
    have e : k + 1 + (a.length : Int) = k + ((a.length : Int) + 1) := by omega
    simp only [List.cons_append, rankFilter, ih, List.length_cons, Int.natCast_add, Int.cast_ofNat_Int, e]
    split <;> simp

theorem rankFilter_map_cons (acc : Word → Bool) (c : UInt8) : ∀ (ws : List Word) (k : Int),
    rankFilter acc (ws.map (c :: ·)) k
      = (rankFilter (fun w => acc (c :: w)) ws k).map (fun p => (c :: p.1, p.2))
  | [], _ => rfl
  | w :: ws, k => by
    have ih := rankFilter_map_cons acc c ws (k + 1)
    simp only [List.map_cons, rankFilter, ih]
    split <;> simp

theorem rankFilter_false (acc : Word → Bool) : ∀ (ws : List Word) (k : Int),
    (∀ w ∈ ws, acc w = false) → rankFilter acc ws k = []
  | [], _, _ => rfl
  | w :: ws, k, h => by
    simp [rankFilter, h w (by simp), rankFilter_false acc ws (k + 1) (fun x hx => h x (by simp [hx]))]

theorem rankFilter_congr (acc acc' : Word → Bool) : ∀ (ws : List Word) (k : Int),
    (∀ w ∈ ws, acc w = acc' w) → rankFilter acc ws k = rankFilter acc' ws k
  | [], _, _ => rfl
  | w :: ws, k, h => by
    simp [rankFilter, h w (by simp), rankFilter_congr acc acc' ws (k + 1) (fun x hx => h x (by simp [hx]))]

/-! ### well-formed tries: `numWords` = number of words below -/

mutual
def Node.WF : Node → Prop
  | .mk f n ls => n = (if f then 1 else 0) + ls.words.length ∧ ls.WF
def Links.WF : Links → Prop
  | .nil => True
  | .cons _ ch r => ch.WF ∧ r.WF
end

theorem Node.WF.numWords_eq : ∀ {t : Node}, t.WF → t.numWords = t.words.length
  | .mk f n ls, h => by
    unfold Node.WF at h
    cases f <;> simp_all [Node.numWords, Node.words] <;> omega

theorem accAllFrom_nil {σ : Type} (specs : List (Spec σ)) (rp : Word) :
    accAllFrom specs rp [] = specs.all (·.W rp) := by
  simp [accAllFrom, Spec.accFrom]

theorem accAllFrom_cons {σ : Type} (specs : List (Spec σ)) (rp : Word) (c : UInt8) (w : Word) :
    accAllFrom specs rp (c :: w) = (specs.all (·.A rp c) && accAllFrom specs (c :: rp) w) := by
  induction specs with
  | nil => rfl
  | cons sp sps ih =>
    simp only [accAllFrom, List.all_cons, Spec.accFrom] at ih ⊢
    rw [ih]
    cases sp.A rp c <;> cases sp.accFrom (c :: rp) w <;> simp

/-- what the search appends to `solns`/`ids` for the continuations `ws` of the path `rp`, the first of them having
rank `k` -/
def emit {σ : Type} (specs : List (Spec σ)) (rp : Word) (ws : List Word) (k : Int) : List (Word × Int) :=
  (rankFilter (accAllFrom specs rp) ws k).map (fun p => (rp.reverse ++ p.1, p.2))

theorem emit_append {σ : Type} (specs : List (Spec σ)) (rp : Word) (a b : List Word) (k : Int) :
    emit specs rp (a ++ b) k = emit specs rp a k ++ emit specs rp b (k + a.length) := by
  simp [emit, rankFilter_append]

theorem emit_map_refused {σ : Type} (specs : List (Spec σ)) (rp : Word) (c : UInt8) (ws : List Word) (k : Int)
    (h : specs.all (·.A rp c) = false) : emit specs rp (ws.map (c :: ·)) k = [] := by
  unfold emit
  rw [rankFilter_false]
  · rfl
  · intro w hw
    obtain ⟨v, _, rfl⟩ := List.mem_map.1 hw
    rw [accAllFrom_cons, h]; rfl

theorem emit_map_allowed {σ : Type} (specs : List (Spec σ)) (rp : Word) (c : UInt8) (ws : List Word) (k : Int)
    (h : specs.all (·.A rp c) = true) : emit specs rp (ws.map (c :: ·)) k = emit specs (c :: rp) ws k := by
  unfold emit
  rw [rankFilter_map_cons, List.map_map]
  rw [rankFilter_congr (fun w => accAllFrom specs rp (c :: w)) (accAllFrom specs (c :: rp))]
  · apply List.map_congr_left
    intro p _
    simp
  · intro w _
    rw [accAllFrom_cons, h]; rfl

section
variable {σ : Type} {ops : Ops σ} {specs : List (Spec σ)}

theorem visitFinal_spec (hl : ∀ sp ∈ specs, Lawful ops sp) (f : Bool) (rp : Word) (k : Int) (ss : List σ)
    (o : List (Word × Int)) (h : RAll specs rp ss) :
    ∃ ss', visitFinal ops f rp ⟨k, ss, o⟩
        = .ok ⟨k + (if f then 1 else 0), ss', (emit specs rp (if f then [[]] else []) (k + 1)).reverse ++ o⟩
      ∧ RAll specs rp ss' := by
  cases f
  · exact ⟨ss, by simp [visitFinal, emit, rankFilter], h⟩
  · have hw := allowWordAll_spec (ops := ops) specs ss rp hl h
    cases hall : specs.all (·.W rp)
    · refine ⟨ss, ?_, h⟩
      simp [visitFinal, hw, hall, emit, rankFilter, accAllFrom_nil]
    · obtain ⟨ss', h1, h2⟩ := chosenAll_spec (ops := ops) specs ss rp hl h
      refine ⟨ss', ?_, h2⟩
      simp [visitFinal, hw, hall, h1, emit, rankFilter, accAllFrom_nil]

mutual
theorem dfsNode_spec (hl : ∀ sp ∈ specs, Lawful ops sp) : (t : Node) → t.WF → ∀ (rp : Word) (k : Int)
    (ss : List σ) (o : List (Word × Int)), RAll specs rp ss →
    ∃ ss', dfsNode ops t rp ⟨k, ss, o⟩
        = .ok ⟨k + t.links.words.length, ss', (emit specs rp t.links.words (k + 1)).reverse ++ o⟩
      ∧ RAll specs rp ss'
  | .mk f n ls, hwf, rp, k, ss, o, h => by
    unfold Node.WF at hwf
    simpa [dfsNode, Node.links] using dfsLinks_spec hl ls hwf.2 rp k ss o h
theorem dfsLinks_spec (hl : ∀ sp ∈ specs, Lawful ops sp) : (ls : Links) → ls.WF → ∀ (rp : Word) (k : Int)
    (ss : List σ) (o : List (Word × Int)), RAll specs rp ss →
    ∃ ss', dfsLinks ops ls rp ⟨k, ss, o⟩
        = .ok ⟨k + ls.words.length, ss', (emit specs rp ls.words (k + 1)).reverse ++ o⟩
      ∧ RAll specs rp ss'
  | .nil, _, rp, k, ss, o, h => ⟨ss, by simp [dfsLinks, Links.words, emit, rankFilter], h⟩
  | .cons l child rest, hwf, rp, k, ss, o, h => by
    unfold Links.WF at hwf
    have ha := allowStepAll_spec (ops := ops) specs ss rp l hl h
    have hnw := hwf.1.numWords_eq
    cases hall : specs.all (·.A rp l)
    · -- refused: the whole subtree is skipped
      obtain ⟨ss', h1, h2⟩ := dfsLinks_spec hl rest hwf.2 rp (k + child.numWords) ss o h
      refine ⟨ss', ?_, h2⟩
      have e1 : k + ((Links.cons l child rest).words.length : Int) = k + child.numWords + rest.words.length := by
        simp [Links.words, hnw]; omega
      have e2 : emit specs rp (Links.cons l child rest).words (k + 1)
          = emit specs rp rest.words (k + child.numWords + 1) := by
        simp only [Links.words, emit_append, emit_map_refused specs rp l _ _ hall, List.nil_append,
          List.length_map, hnw]
        congr 1; omega
      simp only [dfsLinks, ha, hall, Outcome.bind_ok, Bool.false_eq_true, if_false]
      rw [h1, e1, e2]
    · obtain ⟨ss1, h1, h2⟩ := stepAll_spec (ops := ops) specs ss rp l hl h hall
      obtain ⟨ss2, h3, h4⟩ := visitFinal_spec hl child.final (l :: rp) k ss1 o h2
      obtain ⟨ss3, h5, h6⟩ := dfsNode_spec hl child hwf.1 (l :: rp) (k + (if child.final then 1 else 0)) ss2
        ((emit specs (l :: rp) (if child.final then [[]] else []) (k + 1)).reverse ++ o) h4
      obtain ⟨ss4, h7, h8⟩ := backstepAll_spec (ops := ops) specs ss3 rp l hl h6
      obtain ⟨ss5, h9, h10⟩ := dfsLinks_spec hl rest hwf.2 rp
        (k + (if child.final then 1 else 0) + child.links.words.length) ss4
        ((emit specs (l :: rp) child.links.words (k + (if child.final then 1 else 0) + 1)).reverse ++
          ((emit specs (l :: rp) (if child.final then [[]] else []) (k + 1)).reverse ++ o)) h8
      refine ⟨ss5, ?_, h10⟩
      have hcw : child.words = (if child.final then [[]] else []) ++ child.links.words := by
        cases child with | mk f n cls => cases f <;> rfl
      have hlen : ((if child.final then [[]] else [] : List Word).length : Int) = if child.final then 1 else 0 := by
        cases child.final <;> rfl
      have e1 : k + ((Links.cons l child rest).words.length : Int)
          = k + (if child.final then 1 else 0) + child.links.words.length + rest.words.length := by
        simp only [Links.words, hcw, List.length_append, List.length_map, Int.natCast_add, hlen]; omega
      have e2 : emit specs rp (Links.cons l child rest).words (k + 1)
          = emit specs (l :: rp) (if child.final then [[]] else []) (k + 1)
            ++ (emit specs (l :: rp) child.links.words (k + (if child.final then 1 else 0) + 1)
            ++ emit specs rp rest.words (k + (if child.final then 1 else 0) + child.links.words.length + 1)) := by
        simp only [Links.words, emit_append, emit_map_allowed specs rp l _ _ hall, hcw, List.length_append,
          List.length_map, Int.natCast_add, hlen, List.append_assoc]
        congr 3 <;> omega
      simp only [dfsLinks, ha, hall, Outcome.bind_ok, if_true]
      rw [h1]; simp only [Outcome.bind_ok]
      rw [h3]; simp only [Outcome.bind_ok]
      rw [h5]; simp only [Outcome.bind_ok]
      rw [h7]; simp only [Outcome.bind_ok]
      rw [h9, e1, e2]
      simp only [List.reverse_append, List.append_assoc]
end
end

theorem emit_nil_path {σ : Type} (specs : List (Spec σ)) (ws : List Word) (k : Int) :
    emit specs [] ws k = rankFilter (accAllFrom specs []) ws k := by
  unfold emit
  conv => rhs; rw [← List.map_id (rankFilter (accAllFrom specs []) ws k)]
  apply List.map_congr_left
  intro p _
  simp

/-- the recursive search against lawful searchers: the accepted words with their ranks, searchers legitimate for
the empty path again -/
theorem searchRec_spec_aux {σ : Type} {ops : Ops σ} {specs : List (Spec σ)}
    (hl : ∀ sp ∈ specs, Lawful ops sp) (t : Node) (hwf : t.WF) (ss : List σ) (h : RAll specs [] ss) :
    ∃ ss', searchRec ops t ss = .ok (rankFilter (accAllFrom specs []) t.words 0, ss') ∧ RAll specs [] ss' := by
  obtain ⟨ss1, h1, h2⟩ := visitFinal_spec hl t.final [] (-1) ss [] h
  obtain ⟨ss2, h3, h4⟩ := dfsNode_spec hl t hwf [] (-1 + (if t.final then 1 else 0)) ss1
    ((emit specs [] (if t.final then [[]] else []) (-1 + 1)).reverse ++ []) h2
  refine ⟨ss2, ?_, h4⟩
  have hcw : t.words = (if t.final then [[]] else []) ++ t.links.words := by
    cases t with | mk f n cls => cases f <;> rfl
  have hlen : ((if t.final then [[]] else [] : List Word).length : Int) = if t.final then 1 else 0 := by
    cases t.final <;> rfl
  simp only [searchRec, searchRecRS, h1, Outcome.bind_ok, h3, Outcome.pure_eq]
  rw [hcw, rankFilter_append, hlen]
  simp only [emit_nil_path, List.append_nil, List.reverse_append, List.reverse_reverse]
  congr 4 <;> omega

end DawgSearch
