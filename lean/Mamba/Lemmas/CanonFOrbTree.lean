import Mamba.Lemmas.CanonFOrbDef
/-!
# Orbit completeness, tree level: `ACov` through the unpruned tree and along automorphisms

`ACov lF certF R ν`: every leaf below `ν` with the certificate `certF` is position-wise `R`-related to `lF`.
* one unfolding step: `acov_leaf`, `acov_of_children`, `acov_child`;
* transfer along a colour-preserving automorphism that relates every vertex to its image: `acov_transfer_rel` (stated
  with `IR.Relabel`), `acov_transfer` (automorphism given as a list), `acov_eqvGen` (chains), `acov_backjump`
  (the automorphism `transport n o1 o2` read off two equal-certificate leaves);
* `acov_root_aut`: a covered root forces every colour-preserving automorphism into `R`.
-/
namespace CanonF
open Relation

section
variable {n : Nat} {nb : Nbrs} {rf : Nat}

theorem ACov.mono {lF : Array Nat} {certF : List Nat} {R R' : Nat → Nat → Prop} {ν : IR.St}
    (h : ACov n nb rf lF certF R ν) (hR : ∀ u v, u < n → v < n → R u v → R' u v) : ACov n nb rf lF certF R' ν :=
  fun vs hp ht hc u v hu hv e => hR u v hu hv (h vs hp ht hc u v hu hv e)

/-- at a leaf -/
theorem acov_leaf {lF : Array Nat} {certF : List Nat} {R : Nat → Nat → Prop} {ν : IR.St}
    (ht : IR.target (irG n nb) ν = none)
    (h : IR.cert (irG n nb) ν.c = certF → ∀ u v, u < n → v < n → IR.col lF u = IR.col ν.c v → R u v) :
    ACov n nb rf lF certF R ν := by
  intro vs hp _ hc
  cases vs with
  | nil => exact h hc
  | cons x xs =>
    obtain ⟨t, ht', _⟩ := hp
    rw [ht] at ht'
    cases ht'

/-- a node all of whose children are covered -/
theorem acov_of_children {lF : Array Nat} {certF : List Nat} {R : Nat → Nat → Prop} {ν : IR.St} {t : Nat}
    (ht : IR.target (irG n nb) ν = some t)
    (h : ∀ w, w ∈ IR.cellMembers (irG n nb) ν.c t → ACov n nb rf lF certF R (IR.childSt (irG n nb) rf ν t w)) :
    ACov n nb rf lF certF R ν := by
  intro vs hp hn hc
  cases vs with
  | nil =>
    simp only [IR.nodeAt] at hn
    rw [ht] at hn
    cases hn
  | cons x xs =>
    obtain ⟨t', ht', hx, hp'⟩ := hp
    rw [ht] at ht'
    cases ht'
    simp only [IR.nodeAt, ht] at hn hc ⊢
    exact h x hx xs hp' hn hc

theorem acov_child {lF : Array Nat} {certF : List Nat} {R : Nat → Nat → Prop} {ν : IR.St} {t w : Nat}
    (ht : IR.target (irG n nb) ν = some t) (hw : w ∈ IR.cellMembers (irG n nb) ν.c t)
    (h : ACov n nb rf lF certF R ν) : ACov n nb rf lF certF R (IR.childSt (irG n nb) rf ν t w) := by
  intro vs hp hn hc
  have e : IR.nodeAt (irG n nb) rf ν (w :: vs) = IR.nodeAt (irG n nb) rf (IR.childSt (irG n nb) rf ν t w) vs := by
    simp only [IR.nodeAt, ht]
  have := h (w :: vs) ⟨t, ht, hw, hp⟩ (by rw [e]; exact hn) (by rw [e]; exact hc)
  rw [e] at this
  exact this

/-- transfer along an automorphism (given as a relabelling `σ` with inverse `τ`) that preserves the colouring of `ν` and
relates every vertex to its image -/
theorem acov_transfer_rel {lF : Array Nat} {certF : List Nat} {R : Nat → Nat → Prop} {ν : IR.St}
    (htr : ∀ u v w, u < n → v < n → w < n → R u v → R v w → R u w)
    {σ τ : Nat → Nat} (Rl : IR.Relabel (irG n nb) (irG n nb) σ τ) (hS : IR.SRel (irG n nb) σ ν ν)
    (hRσ : ∀ x, x < n → R x (σ x)) {t a : Nat} (ha : a < n)
    (h : ACov n nb rf lF certF R (IR.childSt (irG n nb) rf ν t a)) :
    ACov n nb rf lF certF R (IR.childSt (irG n nb) rf ν t (σ a)) := by
  intro vs hp hn hc u v hu hv e
  have hSτ : IR.SRel (irG n nb) τ ν ν := IR.SRel.symm_aut Rl hS
  have hσa : σ a < n := Rl.σ_lt a ha
  have hrel := IR.childSt_rel Rl.symm rf hSτ t (v := σ a) hσa
  rw [Rl.left a ha] at hrel
  obtain ⟨h1, h2⟩ := IR.path_rel Rl.symm rf vs hrel hp
  have hτv : τ v < n := Rl.τ_lt v hv
  have hcol := h2.1 v hv
  have := h (vs.map τ) h1 (by rw [IR.target_rel Rl.symm h2]; exact hn) (by rw [IR.cert_rel Rl.symm h2.1]; exact hc)
    u (τ v) hu hτv (by rw [hcol]; exact e)
  have h3 := hRσ (τ v) hτv
  rw [Rl.right v hv] at h3
  exact htr u (τ v) v hu hτv hv this h3

/-- transfer along an automorphism that preserves the colouring of `ν` and relates every vertex to its image -/
theorem acov_transfer (hnb : NbOK nb n) {lF : Array Nat} {certF : List Nat} {R : Nat → Nat → Prop} {ν : IR.St}
    (htr : ∀ u v w, u < n → v < n → w < n → R u v → R v w → R u w)
    {γ : List Nat} (hγ : IsAutL nb n γ) (hcol : ∀ v, v < n → IR.col ν.c (γ.getD v 0) = IR.col ν.c v)
    (hRγ : ∀ x, x < n → R x (γ.getD x 0)) {t a : Nat} (ha : a < n)
    (h : ACov n nb rf lF certF R (IR.childSt (irG n nb) rf ν t a)) :
    ACov n nb rf lF certF R (IR.childSt (irG n nb) rf ν t (γ.getD a 0)) := by
  obtain ⟨τ, Rl⟩ := relabel_of_isAutL hnb hγ
  exact acov_transfer_rel htr Rl ⟨fun u hu => hcol u hu, rfl, rfl⟩ hRγ ha h

/-- … and back -/
theorem acov_transfer_iff (hnb : NbOK nb n) {lF : Array Nat} {certF : List Nat} {R : Nat → Nat → Prop} {ν : IR.St}
    (hsym : ∀ u v, u < n → v < n → R u v → R v u)
    (htr : ∀ u v w, u < n → v < n → w < n → R u v → R v w → R u w)
    {γ : List Nat} (hγ : IsAutL nb n γ) (hcol : ∀ v, v < n → IR.col ν.c (γ.getD v 0) = IR.col ν.c v)
    (hRγ : ∀ x, x < n → R x (γ.getD x 0)) {t a : Nat} (ha : a < n) :
    ACov n nb rf lF certF R (IR.childSt (irG n nb) rf ν t a) ↔
      ACov n nb rf lF certF R (IR.childSt (irG n nb) rf ν t (γ.getD a 0)) := by
  obtain ⟨τ, Rl⟩ := relabel_of_isAutL hnb hγ
  have hS : IR.SRel (irG n nb) (fun v => γ.getD v 0) ν ν := ⟨fun u hu => hcol u hu, rfl, rfl⟩
  constructor
  · exact acov_transfer_rel htr Rl hS hRγ ha
  · intro h
    have hRτ : ∀ x, x < n → R x (τ x) := by
      intro x hx
      have hτx : τ x < n := Rl.τ_lt x hx
      have := hRγ (τ x) hτx
      have e : γ.getD (τ x) 0 = x := Rl.right x hx
      rw [e] at this
      exact hsym (τ x) x hτx hx this
    have := acov_transfer_rel (t := t) htr Rl.symm (IR.SRel.symm_aut Rl hS) hRτ (Rl.σ_lt a ha) h
    have e : τ (γ.getD a 0) = a := Rl.left a ha
    rw [e] at this
    exact this

theorem acov_eqvGen_aux (hnb : NbOK nb n) {lF : Array Nat} {certF : List Nat} {R : Nat → Nat → Prop} {ν : IR.St}
    (hsym : ∀ u v, u < n → v < n → R u v → R v u)
    (htr : ∀ u v w, u < n → v < n → w < n → R u v → R v w → R u w)
    {S : List Nat → Prop}
    (hS : ∀ γ, S γ → IsAutL nb n γ ∧ (∀ v, v < n → IR.col ν.c (γ.getD v 0) = IR.col ν.c v) ∧
      ∀ x, x < n → R x (γ.getD x 0))
    {t a b : Nat} (h : EqvGen (fun x y => ∃ γ, S γ ∧ γ[x]? = some y) a b) :
    (a < n ↔ b < n) ∧ (a < n → (ACov n nb rf lF certF R (IR.childSt (irG n nb) rf ν t a) ↔
      ACov n nb rf lF certF R (IR.childSt (irG n nb) rf ν t b))) := by
  induction h with
  | rel a b hab =>
    obtain ⟨γ, hγ, e⟩ := hab
    obtain ⟨haut, hcol, hRγ⟩ := hS γ hγ
    obtain ⟨hl, hnd, hmem⟩ := aut_perm_facts haut.1
    obtain ⟨hlt, e'⟩ := List.getElem?_eq_some_iff.1 e
    have ha : a < n := by omega
    have hb : b < n := (hmem b).1 (by rw [← e']; exact List.getElem_mem _)
    have eb : γ.getD a 0 = b := by rw [List.getD_eq_getElem?_getD, e, Option.getD_some]
    refine ⟨⟨fun _ => hb, fun _ => ha⟩, fun _ => ?_⟩
    rw [← eb]
    exact acov_transfer_iff hnb hsym htr haut hcol hRγ ha
  | refl a => exact ⟨Iff.rfl, fun _ => Iff.rfl⟩
  | symm a b _ ih =>
    obtain ⟨i1, i2⟩ := ih
    exact ⟨i1.symm, fun hb => (i2 (i1.2 hb)).symm⟩
  | trans a b c _ _ ih1 ih2 =>
    obtain ⟨i1, i2⟩ := ih1
    obtain ⟨j1, j2⟩ := ih2
    exact ⟨i1.trans j1, fun ha => (i2 ha).trans (j2 (i1.1 ha))⟩

set_option linter.unusedVariables false in
/-- … and along a chain of such automorphisms and their inverses (`R` an equivalence on `0..n-1`) -/
theorem acov_eqvGen (hnb : NbOK nb n) {lF : Array Nat} {certF : List Nat} {R : Nat → Nat → Prop} {ν : IR.St}
    (hrefl : ∀ u, u < n → R u u) (hsym : ∀ u v, u < n → v < n → R u v → R v u)
    (htr : ∀ u v w, u < n → v < n → w < n → R u v → R v w → R u w)
    {S : List Nat → Prop}
    (hS : ∀ γ, S γ → IsAutL nb n γ ∧ (∀ v, v < n → IR.col ν.c (γ.getD v 0) = IR.col ν.c v) ∧
      ∀ x, x < n → R x (γ.getD x 0))
    {t a b : Nat} (ha : a < n) (h : EqvGen (fun x y => ∃ γ, S γ ∧ γ[x]? = some y) a b) :
    b < n ∧ (ACov n nb rf lF certF R (IR.childSt (irG n nb) rf ν t a) ↔
      ACov n nb rf lF certF R (IR.childSt (irG n nb) rf ν t b)) := by
  obtain ⟨i1, i2⟩ := acov_eqvGen_aux (rf := rf) (lF := lF) (certF := certF) (t := t) hnb hsym htr hS h
  exact ⟨i1.1 ha, i2 ha⟩

/-- the back-jump (cf. `backjump_child_complete`): the subtree of the child `c` on the current path is the image of the
subtree of the child `b` on the reference path under `transport n o1 o2` -/
theorem acov_backjump {r : IR.St} (hnb : NbOK nb n)
    (hA : IR.InvA (irG n nb) r) (hD : IR.InvD (irG n nb) r) {lF : Array Nat} {certF : List Nat} {R : Nat → Nat → Prop}
    (htr : ∀ u v w, u < n → v < n → w < n → R u v → R v w → R u w)
    {vs vsR : List Nat} {o1 o2 : List Nat} {i st b c : Nat}
    (hp1 : IR.IsPath (irG n nb) rf r vsR) (ht1 : IR.target (irG n nb) (IR.nodeAt (irG n nb) rf r vsR) = none)
    (hc1 : (IR.nodeAt (irG n nb) rf r vsR).c = IR.tab n (fun v => o1.idxOf v)) (ho1 : o1.Perm (List.range n))
    (hp2 : IR.IsPath (irG n nb) rf r vs) (ht2 : IR.target (irG n nb) (IR.nodeAt (irG n nb) rf r vs) = none)
    (hc2 : (IR.nodeAt (irG n nb) rf r vs).c = IR.tab n (fun v => o2.idxOf v)) (ho2 : o2.Perm (List.range n))
    (hcert : certPos nb o1 n = certPos nb o2 n)
    (hcommon : vsR.take i = vs.take i) (hb : vsR[i]? = some b) (hcv : vs[i]? = some c)
    (hst : IR.target (irG n nb) (nodeL n nb rf r vs i) = some st)
    (hRt : ∀ x, x < n → R x ((transport n o1 o2).getD x 0))
    (hcomp : ACov n nb rf lF certF R (IR.childSt (irG n nb) rf (nodeL n nb rf r vs i) st b)) :
    ACov n nb rf lF certF R (IR.childSt (irG n nb) rf (nodeL n nb rf r vs i) st c) := by
  have e1 := bj_split_at hb
  rw [hcommon] at e1
  have e2 := bj_split_at hcv
  have hst' : IR.target (irG n nb) (IR.nodeAt (irG n nb) rf r (vs.take i)) = some st := hst
  obtain ⟨hbn, hm1, hi1⟩ := bj_leaf_facts hnb hA hD (o := o1) (e1 ▸ hp1) (e1 ▸ ht1) (e1 ▸ hc1) hst'
  obtain ⟨hcn, hm2, hi2⟩ := bj_leaf_facts hnb hA hD (o := o2) (e2 ▸ hp2) (e2 ▸ ht2) (e2 ▸ hc2) hst'
  have hcmem : c ∈ o2 := ho2.mem_iff.2 (List.mem_range.2 hcn)
  have hpos : o2[o1.idxOf b]? = some c := by
    rw [hi1, ← hi2]; exact getElem?_idxOf_of_mem hcmem
  have e : (transport n o1 o2).getD b 0 = c := by
    rw [aut_transport_getD hbn, List.getD_eq_getElem?_getD, hpos, Option.getD_some]
  have hm1' : IR.Mono n (nodeL n nb rf r vs i).c (IR.tab n (fun v => o1.idxOf v)) := hm1
  have hm2' : IR.Mono n (nodeL n nb rf r vs i).c (IR.tab n (fun v => o2.idxOf v)) := hm2
  have := acov_transfer (rf := rf) (lF := lF) (certF := certF) (ν := nodeL n nb rf r vs i) (t := st) hnb htr
    (aut_of_cert hnb ho1 ho2 hcert) (transport_preserves ho1 ho2 hm1' hm2') hRt hbn hcomp
  rw [e] at this
  exact this

/-- the final step: if the root is covered, every automorphism that preserves the colouring of the root relates every
vertex to its image -/
theorem acov_root_aut {r : IR.St} (hnb : NbOK nb n) {R : Nat → Nat → Prop} {vsF oF : List Nat}
    (hp : IR.IsPath (irG n nb) rf r vsF) (ht : IR.target (irG n nb) (IR.nodeAt (irG n nb) rf r vsF) = none)
    (hc : (IR.nodeAt (irG n nb) rf r vsF).c = IR.tab n (fun v => oF.idxOf v)) (hoF : oF.Perm (List.range n))
    (h : ACov n nb rf (IR.tab n (fun v => oF.idxOf v)) (certPos nb oF n) R r)
    {γ : List Nat} (hγ : IsAutL nb n γ) (hcol : ∀ v, v < n → IR.col r.c (γ.getD v 0) = IR.col r.c v) :
    ∀ u, u < n → R u (γ.getD u 0) := by
  intro u hu
  obtain ⟨τ, Rl⟩ := relabel_of_isAutL hnb hγ
  have hS : IR.SRel (irG n nb) (fun v => γ.getD v 0) r r := ⟨fun u hu => hcol u hu, rfl, rfl⟩
  obtain ⟨h1, h2⟩ := IR.path_rel Rl rf vsF hS hp
  have hσu : γ.getD u 0 < n := Rl.σ_lt u hu
  apply h (vsF.map (fun v => γ.getD v 0)) h1 (by rw [IR.target_rel Rl h2]; exact ht)
    (by rw [IR.cert_rel Rl h2.1, hc]; exact cert_link hnb hoF) u (γ.getD u 0) hu hσu
  have := h2.1 u hu
  rw [hc] at this
  exact this.symm

end
end CanonF
