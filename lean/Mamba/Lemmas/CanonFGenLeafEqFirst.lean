import Mamba.Lemmas.CanonFGenBase
/-!
# The generator layer (G-layer) at a leaf whose certificate equals that of the first leaf (`gen_leaf_eqfirst`)

The recorded generators only grow (`ge_recGen_mono`), frames above the common ancestor with the first-leaf path are
dropped, and the newly processed child of the frame of the common ancestor is not the first-path child (index mismatch of
Heuristic 1, or `NodeOff`), so no new `AutGen` obligation arises. The case analysis is that of `dfs_leaf_eqfirst_v` /
`orb_leaf_eqfirst`.
-/
namespace CanonF

theorem ge_aux_drop {n : Nat} {nb : Nbrs} {rf : Nat} {r : IR.St} {gh : Gh} {s : LS} {vs : List Nat} (j : Nat)
    {path choices : List Nat} {lv : List (Nat × Nat)} (h : FrameAuxG n nb rf r gh s vs false path choices lv) :
    FrameAuxG n nb rf r gh s vs false (path.drop j) (choices.drop j) (lv.drop j) := by
  rcases Nat.eq_zero_or_pos j with h0 | hpos
  · subst h0; simpa using h
  · exact FrameAuxG.drop j _ _ _ hpos h

/-- the members of a cell are pairwise different -/
theorem ge_cell_inj {n : Nat} {nb : Nbrs} {rf : Nat} {r : IR.St} {vs : List Nat} {L st i j w : Nat}
    (hi : (cellL n nb rf r vs L st)[i]? = some w) (hj : (cellL n nb rf r vs L st)[j]? = some w) : i = j := by
  have hs : (cellL n nb rf r vs L st).Pairwise (· < ·) := cellMembers_sorted _ _ _
  obtain ⟨hi1, hi2⟩ := List.getElem?_eq_some_iff.1 hi
  obtain ⟨hj1, hj2⟩ := List.getElem?_eq_some_iff.1 hj
  rcases Nat.lt_trichotomy i j with h | h | h
  · have := List.pairwise_iff_getElem.1 hs i j hi1 hj1 h; omega
  · exact h
  · have := List.pairwise_iff_getElem.1 hs j i hj1 hi1 h; omega

/-- an old recorded generator is still recorded after the leaf branch -/
theorem ge_recGen_mono {n : Nat} {order pinv : Sl Nat} {s s1 : LS} {gens' : Array (Sl Nat)} {ngens' : Nat} {merges : Bool}
    (hlen : order.len = n)
    (hrec : (if merges = true then recordGenerator n order pinv s.gens s.ngens else Outcome.ok (s.gens, s.ngens))
      = .ok (gens', ngens')) (eg : s1.gens = gens') (en : s1.ngens = ngens') :
    ∀ γ, RecGen s γ → RecGen s1 γ := by
  rintro γ ⟨k, g, hk, hg, e⟩
  unfold RecGen
  rw [eg, en]
  by_cases hm : merges = true
  · rw [if_pos hm] at hrec
    obtain ⟨r1, r2, r3, r4, _⟩ := recordGenerator_spec hlen hrec
    exact ⟨k, g, by omega, by rw [r4 k (by omega)]; exact hg, e⟩
  · rw [if_neg hm] at hrec
    injection hrec with hrec
    injection hrec with h1 h2
    subst h1; subst h2
    exact ⟨k, g, hk, hg, e⟩

section
variable {n m : Nat} {nb : Nbrs} {rf : Nat} {r : IR.St}

/-- at the frame of the common ancestor with the first-leaf path: if the current child were the first-path child, the
index paths would agree at this level and the vertex paths one level further -/
theorem ge_first_child {gh : Gh} {s : LS} {vs : List Nat} {p c st sz : Nat} {ps cs : List Nat}
    {ls : List (Nat × Nat)} (hcnt : 0 < s.count) (hG : GlobalInv n nb rf r gh s)
    (hp : IR.IsPath (irG n nb) rf r vs)
    (hfr : FramesOK n nb rf r vs (p :: ps) (c :: cs) ((st, sz) :: ls)) (hcp : c = st + p)
    (hk : ps.length < vs.length) (hpref : hasPrefix s.flPath.toList ps.reverse = true)
    {w : Nat} (hw : (cellL n nb rf r vs ps.length st)[c - st]? = some w) (hx : gh.vsF[ps.length]? = some w) :
    s.flPath.toList[ps.length]? = some p ∧ vs.take (ps.length + 1) = gh.vsF.take (ps.length + 1) := by
  simp only [FramesOK] at hfr
  obtain ⟨g1, g2, g3, gt⟩ := hfr
  have hI := frames_idxPath ps cs ls gt (by omega)
  have L := hG.first hcnt
  obtain ⟨hpre, hkle⟩ := prefix_of_hasPrefix hI hp (by omega) L.path L.leaf L.idx hpref
  have hnode : nodeL n nb rf r vs ps.length = nodeL n nb rf r gh.vsF ps.length := nodeL_congr hpre
  have hklt : ps.length < gh.vsF.length := (List.getElem?_eq_some_iff.1 hx).1
  obtain ⟨t, jj, v, a1, a2, a3, a4⟩ := L.idx ps.length hklt
  rw [← hnode, g1] at a1
  injection a1 with a1
  subst a1
  have hcell : cellL n nb rf r vs ps.length st = cellL n nb rf r gh.vsF ps.length st := cellL_congr hpre
  rw [← hcell] at a3
  rw [hx] at a2
  injection a2 with a2
  subst a2
  obtain ⟨g3a, g3b⟩ := g3 hk
  have hcst : c - st = p := by omega
  rw [hcst] at hw
  have hjp : jj = p := ge_cell_inj a3 hw
  subst hjp
  refine ⟨a4, ?_⟩
  rw [List.take_add_one, List.take_add_one, hpre, g3a, hw, hx]

set_option linter.unusedVariables false in
theorem gen_leaf_eqfirst (gh : Gh) (lv : List (Nat × Nat)) (s s1 : LS) (hI : MInv n m nb s)
    (hlv : LevelsOK s.op s.path s.choices lv) (hleaf : s.op.binDividers.len = n)
    (hJ : CertM n m nb lv false s) (hDv : DNodev n nb rf r gh lv s) (hAv : ANodev n nb rf r gh lv s) (hGv : GNodev n nb rf r gh lv s)
    (hs1 : leafNode n m s = .ok s1) (hJ1 : CertA n m nb lv s1)
    (hc1 : (compare s.op.value.toList s.currentBest.toList == 1 || s.count + 1 == 1) = false)
    (hc0 : (compare s.op.value.toList s.currentBest.toList == 0) = false)
    (hcf : (compare s.op.value.toList s.firstLeaf.toList == 0) = true)
    (lv1 : List (Nat × Nat)) (k : Nat) (hl1 : LevelsOK s1.op s1.path s1.choices lv1)
    (hDv' : DAv n nb rf r { gh with vs := gh.vs.take k } lv1 s1) :
    GAv n nb rf r { gh with vs := gh.vs.take k } lv1 s1 := by
  unfold GNodev at hGv
  obtain ⟨hw, hG, hcov, haux, hoff⟩ := hDv
  obtain ⟨hGA, hcovA, hauxA⟩ := hAv
  have hw' := hw
  obtain ⟨h1, h2, h3, h4, h5, h6, h7⟩ := hw'
  have hc1' := hc1
  simp only [Bool.or_eq_false_iff, beq_eq_false_iff_ne, ne_eq] at hc1'
  have hpos : 0 < s.count := by omega
  -- the current leaf
  obtain ⟨hvc, hspl⟩ := leaf_clean hI.core.part hleaf (hJ.2.2.1 rfl)
  have hval : s.op.value.toList = certPos nb s.op.order.toList n := by rw [← hspl]; exact hvc.val
  have heq : s.op.value.toList = s.firstLeaf.toList := (compare_eq_zero _ _).1 (by simpa using hcf)
  have hm : Match n s.op (nodeL n nb rf r gh.vs gh.vs.length) :=
    (h4 _ (Nat.le_refl _)).toMatch hI.core.part hI.core.age (by omega) h7
  have hnode : nodeL n nb rf r gh.vs gh.vs.length = IR.nodeAt (irG n nb) rf r gh.vs := by
    unfold nodeL; rw [List.take_length]
  rw [hnode] at hm
  have ht2 := target_none (nb := nb) hI.core.part hm hleaf
  have hc2 : (IR.nodeAt (irG n nb) rf r gh.vs).c = IR.tab n (fun v => s.op.order.toList.idxOf v) := by
    rw [hm.col, leaf_colOf hI.core.part hleaf]
  have LF := hG.first hpos
  have hcertF : s.firstLeaf.toList = certPos nb s.op.order.toList n := by rw [← heq, hval]
  have hd0 : 0 < s.path.length := by
    rcases Nat.eq_zero_or_pos s.path.length with h0 | h0
    · exfalso
      have hvs : gh.vs = [] := List.eq_nil_of_length_eq_zero (by omega)
      apply (hoff hpos).1
      rw [hvs]; rfl
    · exact h0
  -- the leaf branch
  obtain ⟨flO, merges, gens', ngens', hloop, hrec, hbj⟩ := le_leaf_unfold hs1 hc1 hc0 hcf
  obtain ⟨rr, op', hidx, hrr, hd, hs'⟩ := le_backJump_shape hbj
  dsimp only at hidx hrr hd hs'
  obtain ⟨l1, l2⟩ := LevelsOK_length _ _ _ hlv
  obtain ⟨j, hj⟩ : ∃ j, j = s.path.length - rr := ⟨_, rfl⟩
  rw [← hj] at hd hs'
  rw [show j + s.choices.length - s.path.length = j by omega] at hs'
  have eop : s1.op = op' := by rw [hs']
  have epath : s1.path = s.path.drop j := by rw [hs']
  have ech : s1.choices = s.choices.drop j := by rw [hs']
  have ecount : s1.count = s.count + 1 := by rw [hs']
  have ecb : s1.currentBest = s.currentBest := by rw [hs']
  have efl : s1.firstLeaf = s.firstLeaf := by rw [hs']
  have ebp : s1.bestPerm = s.bestPerm := by rw [hs']
  have eflp : s1.flPath = s.flPath := by rw [hs']
  have eflo : s1.flOrbits = flO := by rw [hs']
  have egens : s1.gens = gens' := by rw [hs']
  have engens : s1.ngens = ngens' := by rw [hs']
  have hjd : j < s.path.length := by omega
  obtain ⟨q1, q2, q3, q4, _⟩ := deageTimes_spec (StepQ.trivial n nb s.currentBest s.firstLeaf) j s.op op'
    hI.core.part hI.core.age (by rw [hI.age]; omega) trivial hd
  have hlvd := LevelsOK_drop j _ _ _ hlv
  -- `lv1` is `lv.drop j`
  have hlv1 : lv1 = lv.drop j := by
    apply LevelsOK_unique _ _ _ _ hl1
    rw [eop, epath, ech]
    apply LevelsOK_frame q4 _ _ _ _ hlvd
    simp only [List.length_drop]; rw [hI.age]; omega
  -- the frame of the common ancestor
  obtain ⟨p, ps, hpd⟩ : ∃ p ps, s.path.drop j = p :: ps := by
    cases hx : s.path.drop j with
    | nil => have := congrArg List.length hx; simp at this; omega
    | cons p ps => exact ⟨p, ps, rfl⟩
  have hpsl : ps.length + 1 = s.path.length - j := by
    have := congrArg List.length hpd; simp at this; omega
  rw [hpd] at hlvd
  obtain ⟨c, cs, st, sz, ls, hcd, hld, hcp⟩ := le_levelsOK_path_ne hlvd
  -- `k` is the level of that frame
  have hk : k = ps.length := by
    have := hDv'.1.2.1
    rw [epath, hpd] at this
    rcases this with h0 | h0
    · cases h0
    · simp only [List.length_take, List.length_cons] at h0
      omega
  subst hk
  have hfr : FramesOK n nb rf r gh.vs (p :: ps) (c :: cs) ((st, sz) :: ls) := by
    have := h5.drop j; rwa [hpd, hcd, hld] at this
  have hfa : FrameAux n nb rf r gh s gh.vs false (p :: ps) (c :: cs) ((st, sz) :: ls) := by
    have := le_aux_drop j haux; rwa [hpd, hcd, hld] at this
  have hfaG : FrameAuxG n nb rf r gh s gh.vs false (p :: ps) (c :: cs) ((st, sz) :: ls) := by
    have := ge_aux_drop j hGv; rwa [hpd, hcd, hld] at this
  -- the index path
  have hrev : s.path.reverse = ps.reverse ++ p :: (s.path.take j).reverse := by
    conv_lhs => rw [← List.take_append_drop j s.path, hpd]
    simp
  have hsem := le_h1Index_sem _ _ _ _ _ hidx
  simp only [List.length_reverse, Nat.zero_add, Nat.zero_le, true_implies] at hsem
  have hagree : ∀ t, t < ps.length → s.flPath.toList[t]? = ps.reverse[t]? := by
    intro t ht
    have e : s.path.reverse.getD t 0 = ps.reverse[t]?.getD 0 := by
      rw [List.getD_eq_getElem?_getD, hrev, List.getElem?_append_left (by simpa using ht)]
    have e' : ps.reverse[t]? = some (ps.reverse[t]?.getD 0) := by
      rw [List.getElem?_eq_getElem (by simpa using ht)]; rfl
    rw [e', ← e]
    rcases hsem with ⟨a1, a2⟩ | ⟨a1, a2, a3, a4⟩
    · exact a2 t (by omega)
    · exact a3 t (by omega)
  have hpref : hasPrefix s.flPath.toList ps.reverse = true :=
    le_hasPrefix_of (fun t ht => hagree t (by simpa using ht))
  have hpk : s.path.reverse.getD ps.length 0 = p := by
    rw [List.getD_eq_getElem?_getD, hrev, List.getElem?_append_right (by simp)]
    simp
  have hpos1 : 0 < s1.count := by omega
  have hS := ge_recGen_mono (s := s) (s1 := s1) hI.core.part.lenOrder hrec egens engens
  have hv : ∀ L, L < (p :: ps).length → (gh.vs.take ps.length).take L = gh.vs.take L := by
    intro L hL
    simp only [List.length_cons] at hL
    exact take_take_le gh.vs (by omega)
  subst hlv1
  refine ⟨?_, ?_⟩
  · rw [epath, ech, hpd, hcd, hld]
    have a1 := FrameAuxG.mono (gh := gh) (gh' := gh) (s := s) (s' := s1) (us := gh.vs) (us' := gh.vs) (fun _ => hpos) hS
      rfl false _ _ _ (fun _ _ => rfl) hfaG
    have a2 := FrameAuxG.mk (p := p) (cs := cs) (ls := ls)
      (a1.head.finish_child' (fun w hw' _ hx => by
        exfalso
        obtain ⟨hfl, htk⟩ := ge_first_child hpos hG h1 hfr hcp (by omega) hpref hw' hx
        rcases hsem with ⟨b1, b2⟩ | ⟨b1, b2, b3, rv, b4, b5⟩
        · apply (hoff hpos).1
          have : ps.length + 1 = gh.vs.length := by omega
          rw [this] at htk
          rw [← htk, List.take_length]
        · rw [show rr - 1 = ps.length by omega] at b4 b5
          rw [b4] at hfl
          injection hfl with hfl
          exact b5 (by rw [hpk, hfl]))) a1.tail
    exact FrameAuxG.mono (gh := gh) (gh' := { gh with vs := gh.vs.take ps.length }) (s := s1) (s' := s1) (us := gh.vs)
      (fun h0 => h0) (fun _ h => h) rfl true _ _ _ hv a2
  · intro hp0
    rw [epath, hpd] at hp0
    cases hp0
end

end CanonF
