import Mamba.Lemmas.SortIntsNew
import Mathlib.Tactic.Ring
import Mathlib.Tactic.Linarith
/-! Lemmas for C17: `Range`. -/
set_option linter.unusedTactic false
set_option linter.unreachableTactic false
set_option linter.unnecessarySeqFocus false
namespace SortInts

theorem getI_append_mid (A : List Int) (v : Int) (B : List Int) : getI (A ++ v :: B) (A.length : Int) = some v := by
  rw [getI_natCast]; simp

theorem setI_append_mid (A : List Int) (v : Int) (B : List Int) (w : Int) :
    setI (A ++ v :: B) (A.length : Int) w = some (A ++ w :: B) := by
  simp [setI] <;> omega

theorem reverseLoop_spec : ∀ (k : Nat) (A M B : List Int), A.length = B.length → M.length / 2 ≤ k →
    reverseLoop k (A ++ M ++ B) (A.length : Int) ((A.length + M.length : Nat) - 1 : Int) = .ok (A ++ M.reverse ++ B) := by
  intro k
  induction k with
  | zero =>
    intro A M B hAB hk
    have hM : M.length ≤ 1 := by omega
    have : M.reverse = M := by
      match M, hM with
      | [], _ => rfl
      | [a], _ => rfl
    rw [this]
    simp only [reverseLoop]
    have : ¬ ((A.length : Int) < ((A.length + M.length : Nat) : Int) - 1) := by omega
    rw [if_neg this]
  | succ k ih =>
    intro A M B hAB hk
    by_cases hM : M.length ≤ 1
    · have : M.reverse = M := by
        match M, hM with
        | [], _ => rfl
        | [a], _ => rfl
      rw [this]
      simp only [reverseLoop]
      have : ¬ ((A.length : Int) < ((A.length + M.length : Nat) : Int) - 1) := by omega
      rw [if_neg this]
    · obtain ⟨m0, M1, rfl⟩ : ∃ m0 M1, M = m0 :: M1 := by
        cases M with
        | nil => simp at hM
        | cons a t => exact ⟨a, t, rfl⟩
      obtain ⟨M', m1, rfl⟩ : ∃ M' m1, M1 = M' ++ [m1] := by
        rcases List.eq_nil_or_concat M1 with h | ⟨M', m1, h⟩
        · subst h; simp at hM
        · exact ⟨M', m1, by simpa using h⟩
      simp only [reverseLoop]
      have hlt : ((A.length : Int) < ((A.length + (m0 :: (M' ++ [m1])).length : Nat) : Int) - 1) := by
        simp; omega
      simp only [hlt, if_true]
      have hj : (((A.length + (m0 :: (M' ++ [m1])).length : Nat) : Int) - 1) = (((A ++ m0 :: M').length : Nat) : Int) := by
        simp; omega
      have hl1 : A ++ (m0 :: (M' ++ [m1])) ++ B = A ++ m0 :: (M' ++ m1 :: B) := by simp
      have hl2 : A ++ (m0 :: (M' ++ [m1])) ++ B = (A ++ m0 :: M') ++ m1 :: B := by simp
      have g1 : getI (A ++ (m0 :: (M' ++ [m1])) ++ B) (A.length : Int) = some m0 := by
        rw [hl1]; exact getI_append_mid _ _ _
      have g2 : getI (A ++ (m0 :: (M' ++ [m1])) ++ B) (((A ++ m0 :: M').length : Nat) : Int) = some m1 := by
        rw [hl2]; exact getI_append_mid _ _ _
      rw [hj]
      simp only [g1, g2]
      have s1 : setI (A ++ (m0 :: (M' ++ [m1])) ++ B) (A.length : Int) m1 = some (A ++ m1 :: (M' ++ m1 :: B)) := by
        rw [hl1]; exact setI_append_mid _ _ _ _
      simp only [s1]
      have s2 : setI (A ++ m1 :: (M' ++ m1 :: B)) (((A ++ m0 :: M').length : Nat) : Int) m0
          = some ((A ++ [m1]) ++ M' ++ (m0 :: B)) := by
        have : A ++ m1 :: (M' ++ m1 :: B) = (A ++ m1 :: M') ++ m1 :: B := by simp
        rw [this]
        have hlen : (A ++ m0 :: M').length = (A ++ m1 :: M').length := by simp
        rw [hlen, setI_append_mid]; simp
      simp only [s2]
      have e1 : ((A.length : Int) + 1) = (((A ++ [m1]).length : Nat) : Int) := by simp
      have e2 : ((((A ++ m0 :: M').length : Nat) : Int) - 1) = (((A ++ [m1]).length + M'.length : Nat) : Int) - 1 := by
        simp; omega
      rw [e1, e2, ih (A ++ [m1]) M' (m0 :: B) (by simp; omega) (by simp at hk; omega)]
      simp

end SortInts

namespace SortInts

theorem rangeUp_spec (e step : Int) (hs : 0 < step) : ∀ (f : Nat) (i : Int), (e - i).toNat ≤ f →
    ∃ r, rangeUp f i e step = .ok r ∧ (∀ x ∈ r, i ≤ x) ∧ SS r ∧
      ∀ x, x ∈ r ↔ ∃ k : Nat, x = i + k * step ∧ x < e := by
  have hdone : ∀ i : Int, ¬ i < e → ∀ x, x ∈ ([] : List Int) ↔ ∃ k : Nat, x = i + k * step ∧ x < e := by
    intro i hi x
    simp only [List.not_mem_nil, false_iff]
    rintro ⟨k, rfl, hlt⟩
    have : 0 ≤ (k : Int) * step := Int.mul_nonneg (by omega) (by omega)
    omega
  intro f
  induction f with
  | zero =>
    intro i hf
    have hi : ¬ i < e := by omega
    exact ⟨[], by simp [rangeUp, hi], by simp, by simp [SS], hdone i hi⟩
  | succ f ih =>
    intro i hf
    by_cases hi : i < e
    · obtain ⟨r, hr, hge, hss, hmem⟩ := ih (i + step) (by omega)
      refine ⟨i :: r, by simp [rangeUp, hi, hr], ?_, ?_, ?_⟩
      · intro x hx
        rcases List.mem_cons.mp hx with rfl | hx
        · exact Int.le_refl _
        · have := hge x hx; omega
      · rw [SS, List.pairwise_cons]
        exact ⟨fun x hx => by have := hge x hx; omega, hss⟩
      · intro x
        rw [List.mem_cons, hmem]
        constructor
        · rintro (rfl | ⟨k, rfl, hlt⟩)
          · exact ⟨0, by simp, hi⟩
          · exact ⟨k + 1, by push_cast; ring, hlt⟩
        · rintro ⟨k, rfl, hlt⟩
          cases k with
          | zero => left; simp
          | succ k => right; exact ⟨k, by push_cast; ring, hlt⟩
    · exact ⟨[], by simp [rangeUp, hi], by simp, by simp [SS], hdone i hi⟩

theorem rangeDown_spec (e step : Int) (hs : step < 0) : ∀ (f : Nat) (i : Int), (i - e).toNat ≤ f →
    ∃ r, rangeDown f i e step = .ok r ∧ (∀ x ∈ r, x ≤ i) ∧ r.Pairwise (· > ·) ∧
      ∀ x, x ∈ r ↔ ∃ k : Nat, x = i + k * step ∧ e < x := by
  have hdone : ∀ i : Int, ¬ i > e → ∀ x, x ∈ ([] : List Int) ↔ ∃ k : Nat, x = i + k * step ∧ e < x := by
    intro i hi x
    simp only [List.not_mem_nil, false_iff]
    rintro ⟨k, rfl, hlt⟩
    have : (k : Int) * step ≤ 0 := Int.mul_nonpos_of_nonneg_of_nonpos (by omega) (by omega)
    omega
  intro f
  induction f with
  | zero =>
    intro i hf
    have hi : ¬ i > e := by omega
    exact ⟨[], by simp [rangeDown]; omega, by simp, by simp, hdone i hi⟩
  | succ f ih =>
    intro i hf
    by_cases hi : i > e
    · obtain ⟨r, hr, hge, hss, hmem⟩ := ih (i + step) (by omega)
      refine ⟨i :: r, by simp [rangeDown, hi, hr], ?_, ?_, ?_⟩
      · intro x hx
        rcases List.mem_cons.mp hx with rfl | hx
        · exact Int.le_refl _
        · have := hge x hx; omega
      · rw [List.pairwise_cons]
        exact ⟨fun x hx => by have := hge x hx; omega, hss⟩
      · intro x
        rw [List.mem_cons, hmem]
        constructor
        · rintro (rfl | ⟨k, rfl, hlt⟩)
          · exact ⟨0, by simp, hi⟩
          · exact ⟨k + 1, by push_cast; ring, hlt⟩
        · rintro ⟨k, rfl, hlt⟩
          cases k with
          | zero => left; simp
          | succ k => right; exact ⟨k, by push_cast; ring, hlt⟩
    · exact ⟨[], by simp [rangeDown]; omega, by simp, by simp, hdone i hi⟩

/-- the rejection test of the source (regenerated) is the documented one -/
theorem rangeRejects_iff (start e step : Int) :
    Gen.Sort.rangeRejects start e step = true ↔
      ((e < start ∧ step > 0) ∨ (e > start ∧ step < 0) ∨ (e ≠ start ∧ step = 0)) := by
  unfold Gen.Sort.rangeRejects
  simp only [Bool.or_eq_true, Bool.and_eq_true, decide_eq_true_eq]
  omega

theorem range_result (start e step : Int)
    (h : ¬ ((e < start ∧ step > 0) ∨ (e > start ∧ step < 0) ∨ (e ≠ start ∧ step = 0))) :
    ∃ r, range start e step = .ok r ∧ SS r ∧ ∀ x, x ∈ r ↔ InRange start e step x := by
  unfold range
  rw [if_neg (fun h' => h ((rangeRejects_iff start e step).mp h'))]
  by_cases h1 : e = start
  · subst h1
    refine ⟨[], by simp, by simp [SS], ?_⟩
    intro x; simp only [List.not_mem_nil, false_iff, InRange]
    rintro ⟨k, _, h | h⟩ <;> omega
  rw [if_neg h1]
  by_cases h2 : e < start
  · rw [if_pos h2]
    have hs : step < 0 := by omega
    have hcap : ¬ Int.tdiv (start - e - step - 1) (-step) < 0 := by
      have := Int.tdiv_nonneg (a := start - e - step - 1) (b := -step) (by omega) (by omega)
      omega
    rw [if_neg hcap]
    obtain ⟨r, hr, hle, hdec, hmem⟩ := rangeDown_spec e step hs (start - e).toNat start (Nat.le_refl _)
    simp only [hr]
    have hrev := reverseLoop_spec (r.length / 2) [] r [] rfl (Nat.le_refl _)
    simp only [List.nil_append, List.append_nil, List.length_nil, Nat.zero_add] at hrev
    have e0 : (((0 : Nat) : Int)) = 0 := rfl
    rw [e0] at hrev
    refine ⟨r.reverse, hrev, ?_, ?_⟩
    · rw [SS, List.pairwise_reverse]; exact hdec
    · intro x
      rw [List.mem_reverse, hmem]
      constructor
      · rintro ⟨k, rfl, hlt⟩
        refine ⟨k, rfl, Or.inr ⟨hlt, ?_⟩⟩
        have : (k : Int) * step ≤ 0 := Int.mul_nonpos_of_nonneg_of_nonpos (by omega) (by omega)
        omega
      · rintro ⟨k, rfl, h | h⟩
        · omega
        · exact ⟨k, rfl, h.1⟩
  · rw [if_neg h2]
    have hs : 0 < step := by omega
    have hcap : ¬ Int.tdiv (e - start + step - 1) step < 0 := by
      have := Int.tdiv_nonneg (a := e - start + step - 1) (b := step) (by omega) (by omega)
      omega
    rw [if_neg hcap]
    obtain ⟨r, hr, hge, hss, hmem⟩ := rangeUp_spec e step hs (e - start).toNat start (Nat.le_refl _)
    refine ⟨r, hr, hss, ?_⟩
    intro x
    rw [hmem]
    constructor
    · rintro ⟨k, rfl, hlt⟩
      refine ⟨k, rfl, Or.inl ⟨?_, hlt⟩⟩
      have : 0 ≤ (k : Int) * step := Int.mul_nonneg (by omega) (by omega)
      omega
    · rintro ⟨k, rfl, h | h⟩
      · exact ⟨k, rfl, h.2⟩
      · omega

theorem range_rejects (start e step : Int)
    (h : (e < start ∧ step > 0) ∨ (e > start ∧ step < 0) ∨ (e ≠ start ∧ step = 0)) :
    range start e step = .panic := by
  unfold range; rw [if_pos ((rangeRejects_iff start e step).mpr h)]

end SortInts
