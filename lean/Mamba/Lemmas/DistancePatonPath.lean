import Mamba.Lemmas.DistancePatonTotal
import Mamba.Spec.Distance
import Mathlib.Logic.Function.Iterate
/-!
# Paton's spanning-tree phase of `NumberOfCycles`: every fundamental cycle produced is a simple cycle
-/
namespace GDist
open GraphSpec Model

/-- edge codes along a vertex sequence -/
def pathCodes : List Nat → List Nat
  | a :: b :: t => edgeCode a b :: pathCodes (b :: t)
  | _ => []

/-- the edge codes of the cycle with vertex sequence `c`: the closing edge first -/
def cycCodes (c : List Nat) : List Nat := edgeCode (c.headD 0) (c.getLastD 0) :: pathCodes c

/-- `[v, par v, ..., par^k v]` -/
def upPath (T : Array Int) : Nat → Nat → List Nat
  | 0, v => [v]
  | k+1, v => v :: upPath T k (par T v)

def backCodes (T : Array Int) : Nat → Nat → List Nat
  | 0, _ => []
  | k+1, p => edgeCode p (par T p) :: backCodes T k (par T p)

theorem upPath_ne_nil (T : Array Int) (k v : Nat) : upPath T k v ≠ [] := by
  cases k <;> simp [upPath]

theorem upPath_head (T : Array Int) (k v : Nat) : ∃ t, upPath T k v = v :: t := by
  cases k <;> simp [upPath]

theorem pathCodes_upPath (T : Array Int) : ∀ k v, pathCodes (upPath T k v) = backCodes T k v
  | 0, v => by simp [upPath, pathCodes, backCodes]
  | k+1, v => by
    obtain ⟨t, ht⟩ := upPath_head T k (par T v)
    simp only [upPath, backCodes]
    rw [ht, pathCodes, ← ht, pathCodes_upPath T k (par T v)]

theorem upPath_length (T : Array Int) : ∀ k v, (upPath T k v).length = k + 1
  | 0, _ => rfl
  | k+1, v => by simp [upPath, upPath_length T k]

theorem mem_upPath (T : Array Int) : ∀ k v x, x ∈ upPath T k v ↔ ∃ i, i ≤ k ∧ (par T)^[i] v = x
  | 0, v, x => by
    simp only [upPath, List.mem_singleton]
    constructor
    · intro h; exact ⟨0, Nat.le_refl _, h.symm⟩
    · rintro ⟨i, hi, h⟩
      have : i = 0 := by omega
      subst this; exact h.symm
  | k+1, v, x => by
    simp only [upPath, List.mem_cons, mem_upPath T k]
    constructor
    · rintro (h | ⟨i, hi, h⟩)
      · exact ⟨0, Nat.zero_le _, h.symm⟩
      · exact ⟨i + 1, by omega, by rw [Function.iterate_succ_apply]; exact h⟩
    · rintro ⟨i, hi, h⟩
      cases i with
      | zero => exact .inl h.symm
      | succ i => exact .inr ⟨i, by omega, by rw [Function.iterate_succ_apply] at h; exact h⟩

theorem upPath_getLast? (T : Array Int) : ∀ k v, (upPath T k v).getLast? = some ((par T)^[k] v)
  | 0, v => by simp [upPath]
  | k+1, v => by
    obtain ⟨t, ht⟩ := upPath_head T k (par T v)
    have ih := upPath_getLast? T k (par T v)
    simp only [upPath]
    rw [ht, List.getLast?_cons_cons, ← ht, ih, Function.iterate_succ_apply]

theorem upPath_getLast (T : Array Int) (k v : Nat) : (upPath T k v).getLastD 0 = (par T)^[k] v := by
  rw [List.getLastD_eq_getLast?, upPath_getLast?]; rfl

/-- the loop `for i := 2; i < length; i++` computes the codes of the tree path -/
theorem patonBack_spec (T : Array Int) (n : Nat) (hsz : T.size = n)
    (ptree : ∀ x, x < n → inTree T x → 0 ≤ T.getD x (-1) ∧ par T x < n ∧ inTree T (par T x)) :
    ∀ (k p : Nat) (acc : List Nat), p < n → inTree T p →
      patonBack T k p acc = .ok (acc ++ backCodes T k p) := by
  intro k
  induction k with
  | zero => intro p acc _ _; simp [patonBack, backCodes]
  | succ k ih =>
    intro p acc hp ht
    have hpT : p < T.size := by rw [hsz]; exact hp
    obtain ⟨h0, h1, h2⟩ := ptree p hp ht
    have hget : T.getD p (-1) = T[p] := by simp [Array.getD, hpT]
    unfold patonBack
    simp only [hpT, dif_pos]
    rw [hget] at h0
    have : ¬ T[p] < 0 := by omega
    simp only [this, if_false]
    have hpar : T[p].toNat = par T p := by unfold par; rw [hget]
    rw [hpar, ih _ _ h1 h2]
    simp [backCodes]

end GDist
