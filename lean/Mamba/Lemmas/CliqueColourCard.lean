import Mamba.Lemmas.CliqueColourPoly
import Mathlib.Data.Fintype.Card
import Mathlib.Data.Fintype.Pi
/-! `countColourings g k` is the cardinality of the type of proper colourings `Fin n → Fin k`. -/
namespace CliqueColour
open GraphSpec

/-- the type of proper colourings of `g` with `k` colours -/
abbrev PropCol (g : G) (k : Nat) : Type :=
  {f : Fin g.n → Fin k // ∀ u v : Fin g.n, g.adj u v = true → f u ≠ f v}

theorem countColourings_eq_card {g : G} (hw : g.WF) (k : Nat) :
    countColourings g k = Fintype.card (PropCol g k) := by
  rw [countColourings_eq_length hw, ← List.toFinset_card_of_nodup (nodup_Cols g k), ← Finset.card_univ]
  have hlt : ∀ c ∈ (Cols g k).toFinset, ∀ v : Fin g.n, c.getD v 0 < k := by
    intro c hc v
    obtain ⟨hl, hk, _⟩ := mem_Cols.1 (List.mem_toFinset.1 hc)
    exact hk _ (getD_mem (by rw [hl]; exact v.2))
  refine Finset.card_bij (fun c hc => ⟨fun v => ⟨c.getD v 0, hlt c hc v⟩, ?_⟩) (fun _ _ => Finset.mem_univ _) ?_ ?_
  · intro u v ha he
    obtain ⟨hl, _, hp⟩ := mem_Cols.1 (List.mem_toFinset.1 hc)
    exact hp u v (by rw [hl]; exact u.2) (by rw [hl]; exact v.2) ha (Fin.mk.inj he)
  · intro c1 hc1 c2 hc2 he
    obtain ⟨hl1, _, _⟩ := mem_Cols.1 (List.mem_toFinset.1 hc1)
    obtain ⟨hl2, _, _⟩ := mem_Cols.1 (List.mem_toFinset.1 hc2)
    apply list_ext_getD (by rw [hl1, hl2])
    intro x hx
    rw [hl1] at hx
    have := congrFun (congrArg Subtype.val he) ⟨x, hx⟩
    exact Fin.mk.inj this
  · rintro ⟨f, hf⟩ _
    refine ⟨tab g.n (fun v => if h : v < g.n then (f ⟨v, h⟩).val else 0), ?_, ?_⟩
    · rw [List.mem_toFinset, mem_Cols]
      refine ⟨tab_length _ _, fun y hy => ?_, fun u v hu hv ha => ?_⟩
      · obtain ⟨x, hx, rfl⟩ := mem_tab.1 hy
        rw [dif_pos hx]; exact (f ⟨x, hx⟩).2
      · rw [tab_length] at hu hv
        rw [tab_getD hu, tab_getD hv, dif_pos hu, dif_pos hv]
        intro he
        exact hf ⟨u, hu⟩ ⟨v, hv⟩ ha (Fin.ext he)
    · apply Subtype.ext
      funext v
      apply Fin.ext
      show (tab g.n _).getD v 0 = (f v).val
      rw [tab_getD v.2, dif_pos v.2]

end CliqueColour
