import Mamba.Lemmas.CanonFDfsMain
/-!
# Orbit completeness: the second coverage invariant (definitions)

`ACov lF certF R ν`: every leaf of the unpruned tree below `ν` whose certificate is `certF` (the certificate of the first
leaf, colouring `lF`) is an `R`-image of the first leaf: vertices at the same position of the two leaves are `R`-related.
`R` will be `ORel s` (same class of `firstLeafOrbits`). The predicates below mirror `CovFrames` / `FrameAux` /
`GlobalInv` of the D-layer (`CanonFCov.lean`, `CanonFDfs.lean`) with `ACov` in place of `Complete`; they use the ghost data
`gh : Gh` of the D-layer.
-/
namespace CanonF

/-- same class of `firstLeafOrbits` -/
def ORel (s : LS) (a b : Nat) : Prop := Disjoint.rep s.flOrbits a = Disjoint.rep s.flOrbits b

/-- the colouring of the first leaf -/
def lFof (n : Nat) (gh : Gh) : Array Nat := IR.tab n (fun v => gh.oF.idxOf v)

section
variable (n : Nat) (nb : Nbrs) (rf : Nat) (r : IR.St)

def ACov (lF : Array Nat) (certF : List Nat) (R : Nat → Nat → Prop) (ν : IR.St) : Prop :=
  ∀ vs, IR.IsPath (irG n nb) rf ν vs → IR.target (irG n nb) (IR.nodeAt (irG n nb) rf ν vs) = none →
    IR.cert (irG n nb) (IR.nodeAt (irG n nb) rf ν vs).c = certF →
    ∀ u v, u < n → v < n → IR.col lF u = IR.col (IR.nodeAt (irG n nb) rf ν vs).c v → R u v

def ACovChild (gh : Gh) (s : LS) (vs : List Nat) (ps : List Nat) (st w : Nat) : Prop :=
  ACov n nb rf (lFof n gh) s.firstLeaf.toList (ORel s)
      (IR.childSt (irG n nb) rf (nodeL n nb rf r vs ps.length) st w) ∨
  (onFirstB s ps = true ∧ ∃ x : Int, s.flOrbits[w]? = some x ∧ x ≥ 0)

def ACovFrames (gh : Gh) (s : LS) (vs : List Nat) : Bool → List Nat → List Nat → List (Nat × Nat) → Prop
  | _, [], [], [] => True
  | incl, _ :: ps, c :: cs, (st, _) :: ls =>
      (∀ i w, (if incl then c - st ≤ i else c - st < i) → (cellL n nb rf r vs ps.length st)[i]? = some w →
        ACovChild n nb rf r gh s vs ps st w) ∧
      ACovFrames gh s vs false ps cs ls
  | _, _, _, _ => False

/-- a processed child on a stored path is `ACov` (input of the back-jump) -/
structure FrameAuxA1 (gh : Gh) (s : LS) (us : List Nat) (incl : Bool) (ps : List Nat) (c st : Nat) : Prop where
  abF : 0 < s.count → us.take ps.length = gh.vsF.take ps.length → ∀ i w, (if incl then c - st ≤ i else c - st < i) →
    (cellL n nb rf r us ps.length st)[i]? = some w → gh.vsF[ps.length]? = some w →
    ACov n nb rf (lFof n gh) s.firstLeaf.toList (ORel s) (IR.childSt (irG n nb) rf (nodeL n nb rf r us ps.length) st w)
  abB : 0 < s.count → us.take ps.length = gh.vsB.take ps.length → ∀ i w, (if incl then c - st ≤ i else c - st < i) →
    (cellL n nb rf r us ps.length st)[i]? = some w → gh.vsB[ps.length]? = some w →
    ACov n nb rf (lFof n gh) s.firstLeaf.toList (ORel s) (IR.childSt (irG n nb) rf (nodeL n nb rf r us ps.length) st w)

def FrameAuxA (gh : Gh) (s : LS) (us : List Nat) : Bool → List Nat → List Nat → List (Nat × Nat) → Prop
  | _, [], [], [] => True
  | incl, _ :: ps, c :: cs, (st, _) :: ls =>
      FrameAuxA1 n nb rf r gh s us incl ps c st ∧ FrameAuxA gh s us false ps cs ls
  | _, _, _, _ => False

structure GlobalA (gh : Gh) (s : LS) : Prop where
  /-- the first leaf is never better than the best leaf -/
  bgf : 0 < s.count → compare s.firstLeaf.toList s.currentBest.toList ≠ 1
  /-- if the best leaf has the certificate of the first leaf it is an orbit image of the first leaf -/
  bestA : 0 < s.count → s.currentBest.toList = s.firstLeaf.toList → ∀ u v, u < n → v < n →
    IR.col (lFof n gh) u = IR.col (IR.tab n (fun x => s.bestPerm.toList.idxOf x)) v → ORel s u v
  /-- the automorphisms merged into `currentBestOrbits` have also been merged into `firstLeafOrbits` -/
  bgsM : ∀ γ ∈ gh.bgs, ∀ x, x < n → ORel s x (γ.getD x 0)
  /-- so have the recorded generators -/
  gensM : ∀ k, k < s.ngens → ∀ γ, s.gens[k]? = some γ → ∀ x, x < n → ORel s x (γ.toList.getD x 0)

def ANv (gh : Gh) (lv : List (Nat × Nat)) (s : LS) : Prop :=
  GlobalA n gh s ∧ ACovFrames n nb rf r gh s gh.vs true s.path s.choices lv ∧
    FrameAuxA n nb rf r gh s gh.vs true s.path s.choices lv

def AAv (gh : Gh) (lv : List (Nat × Nat)) (s : LS) : Prop :=
  GlobalA n gh s ∧ ACovFrames n nb rf r gh s gh.vs true s.path s.choices lv ∧
    FrameAuxA n nb rf r gh s gh.vs true s.path s.choices lv ∧
    (s.path = [] → ACov n nb rf (lFof n gh) s.firstLeaf.toList (ORel s) r)

def ASv (gh : Gh) (v : Nat) (lv : List (Nat × Nat)) (s : LS) : Prop :=
  GlobalA n gh s ∧ ACovFrames n nb rf r gh s (gh.vs ++ [v]) false s.path s.choices lv ∧
    FrameAuxA n nb rf r gh s (gh.vs ++ [v]) false s.path s.choices lv

def ANodev (gh : Gh) (lv : List (Nat × Nat)) (s : LS) : Prop :=
  GlobalA n gh s ∧ ACovFrames n nb rf r gh s gh.vs false s.path s.choices lv ∧
    FrameAuxA n nb rf r gh s gh.vs false s.path s.choices lv

/-- D-layer and A-layer with the same ghost data -/
def EN (lv : List (Nat × Nat)) (s : LS) : Prop := ∃ gh, DNv n nb rf r gh lv s ∧ ANv n nb rf r gh lv s
def EA (lv : List (Nat × Nat)) (s : LS) : Prop := ∃ gh, DAv n nb rf r gh lv s ∧ AAv n nb rf r gh lv s
def ES (lv : List (Nat × Nat)) (s : LS) : Prop := ∃ gh t v, DSv n nb rf r gh t v lv s ∧ ASv n nb rf r gh v lv s
def EM (lv : List (Nat × Nat)) (worse : Bool) (s : LS) : Prop :=
  if worse then EA n nb rf r lv s else ∃ gh, DNodev n nb rf r gh lv s ∧ ANodev n nb rf r gh lv s

end
end CanonF
