import Mamba.Lemmas.CodecBase
/-! The size header `N(n)`: the model's writer produces `Formats.Nn n`; `Formats.readN` reads it back. -/
namespace Codec
open Formats

theorem and63 (x : Nat) : x &&& 63 = x % 64 := Nat.and_two_pow_sub_one_eq_mod x 6

theorem hdrByte (n k : Nat) : badd (((n >>> k) &&& 63) % 256) 63 = n / 2 ^ k % 64 + 63 := by
  rw [and63, Nat.shiftRight_eq_div_pow]
  have : n / 2 ^ k % 64 < 64 := Nat.mod_lt _ (by decide)
  rw [Nat.mod_eq_of_lt (by omega), badd_of_lt (by omega)]

theorem hdrByte0 (n : Nat) : badd ((n &&& 63) % 256) 63 = n % 64 + 63 := by
  have := hdrByte n 0
  simpa using this

theorem encHeader_eq (pre : Bytes) (n : Nat) (hn : n ≤ 68719476735) :
    encHeader pre n = .ok (pre ++ (Nn n).toArray) := by
  unfold encHeader Nn
  by_cases h1 : n ≤ 62
  · simp only [h1, if_true]
    rw [Nat.mod_eq_of_lt (by omega)]
    congr 1
  · by_cases h2 : n ≤ 258047
    · simp only [h1, h2, if_true, if_false, hdrByte, hdrByte0]
      congr 1
      apply Array.toList_inj.1
      simp [Nat.shiftRight_eq_div_pow]
    · simp only [h1, h2, hn, if_true, if_false, hdrByte, hdrByte0]
      congr 1
      apply Array.toList_inj.1
      simp [Nat.shiftRight_eq_div_pow]

/-- `Sparse6Encode` writes `':'` and the same size header (its own copy of the code, with its own regenerated constants) -/
theorem encHeaderS6_eq (n : Nat) (hn : n ≤ 68719476735) :
    encHeaderS6 n = .ok (#[58] ++ (Nn n).toArray) :=
  (show encHeaderS6 n = encHeader #[58] n from rfl).trans (encHeader_eq #[58] n hn)

theorem Nn_range (n : Nat) (hn : n ≤ 68719476735) : ∀ c ∈ Nn n, 63 ≤ c ∧ c ≤ 126 := by
  intro c hc
  unfold Nn at hc
  split at hc
  · simp at hc; omega
  · split at hc
    · simp at hc; rcases hc with h | h | h | h <;> omega
    · simp at hc; rcases hc with h | h | h | h | h | h | h <;> omega

theorem Nn_length (n : Nat) : (Nn n).length = if n ≤ 62 then 1 else if n ≤ 258047 then 4 else 8 := by
  unfold Nn; split <;> [rfl; (split <;> rfl)]

theorem readN_Nn (n : Nat) (hn : n ≤ 68719476735) (rest : List Nat) : readN (Nn n ++ rest) = some (n, rest) := by
  unfold Nn
  by_cases h1 : n ≤ 62
  · simp only [h1, if_true, List.cons_append, List.nil_append, readN]
    have : n + 63 ≠ 126 := by omega
    simp [this]
  · by_cases h2 : n ≤ 258047
    · simp only [h1, h2, if_true, if_false, List.cons_append, List.nil_append, readN]
      have : n / 4096 % 64 + 63 ≠ 126 := by omega
      simp only [ne_eq, not_true_eq_false, if_false, this, not_false_eq_true, if_true, Nat.add_sub_cancel]
      congr 2; omega
    · simp only [h1, h2, if_false, List.cons_append, List.nil_append, readN]
      simp only [ne_eq, not_true_eq_false, if_false, Nat.add_sub_cancel]
      congr 2; omega

end Codec
