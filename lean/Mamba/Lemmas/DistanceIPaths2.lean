import Mamba.Lemmas.DistanceIPaths1
/-!
# Lemmas for C10: counting extensions is invariant under an adjacency-preserving embedding onto a closed vertex set
-/
namespace GDist
open GraphSpec Model

/-- `f` embeds `h` into `g` as an induced subgraph whose image is closed under adjacency -/
structure Emb (g h : G) (f : Nat → Nat) : Prop where
  inj : ∀ a b, a < h.n → b < h.n → f a = f b → a = b
  rng : ∀ a, a < h.n → f a < g.n
  adj : ∀ a b, a < h.n → b < h.n → h.adj a b = g.adj (f a) (f b)
  closed : ∀ a w', a < h.n → w' < g.n → g.adj (f a) w' = true → ∃ w, w < h.n ∧ f w = w'

variable {g h : G} {f : Nat → Nat}

theorem goodInduced_map (e : Emb g h f) {q : List Nat} (hq : ∀ x ∈ q, x < h.n) {w : Nat} (hw : w < h.n) :
    goodInduced g (q.map f) (f w) = goodInduced h q w := by
  unfold goodInduced
  have h1 : (q.map f).contains (f w) = q.contains w := by
    rw [Bool.eq_iff_iff]
    simp only [List.contains_iff_mem, List.mem_map]
    constructor
    · rintro ⟨a, ha, hfa⟩
      rw [e.inj a w (hq a ha) hw hfa] at ha; exact ha
    · intro hm; exact ⟨w, hm, rfl⟩
  have h2 : ((q.map f).tail.all fun x => !g.adj (f w) x) = (q.tail.all fun x => !h.adj w x) := by
    rw [Bool.eq_iff_iff, ← List.map_tail]
    simp only [List.all_eq_true, List.mem_map, forall_exists_index, and_imp, forall_apply_eq_imp_iff₂]
    constructor
    · intro hh y hy
      rw [e.adj w y hw (hq y (List.mem_of_mem_tail hy))]; exact hh y hy
    · intro hh y hy
      rw [← e.adj w y hw (hq y (List.mem_of_mem_tail hy))]; exact hh y hy
  rw [h1, h2]

/-- the extensions of the image path are the images of the extensions -/
theorem extend_map_perm (e : Emb g h f) {q : List Nat} (hne : q ≠ []) (hq : ∀ x ∈ q, x < h.n) :
    ((extend h (goodInduced h) q).map (List.map f)).Perm (extend g (goodInduced g) (q.map f)) := by
  obtain ⟨last, t, rfl⟩ := List.exists_cons_of_ne_nil hne
  have hlast : last < h.n := hq last List.mem_cons_self
  have hinjmap : ∀ c ∈ extend h (goodInduced h) (last :: t), ∀ c' ∈ extend h (goodInduced h) (last :: t),
      c.map f = c'.map f → c = c' := by
    intro c hc c' hc' heq
    obtain ⟨_, _, w, hh, hw, _, _, rfl⟩ := mem_extend.1 hc
    obtain ⟨_, _, w', _, hw', _, _, rfl⟩ := mem_extend.1 hc'
    simp only [List.map_cons, List.cons.injEq] at heq
    rw [e.inj w w' hw hw' heq.1]
  have hnd1 : ((extend h (goodInduced h) (last :: t)).map (List.map f)).Nodup :=
    List.Nodup.map_on hinjmap (nodup_extend _)
  have hnd2 : (extend g (goodInduced g) ((last :: t).map f)).Nodup := nodup_extend _
  refine (List.perm_ext_iff_of_nodup hnd1 hnd2).2 ?_
  intro c'
  rw [List.mem_map, mem_extend]
  constructor
  · rintro ⟨c, hc, rfl⟩
    obtain ⟨h0, t0, w, hh, hw, hadj, hgood, rfl⟩ := mem_extend.1 hc
    cases hh
    refine ⟨f last, t.map f, f w, by simp, e.rng w hw, ?_, ?_, by simp⟩
    · rw [← e.adj last w hlast hw]; exact hadj
    · rw [goodInduced_map e hq hw]; exact hgood
  · rintro ⟨h0, t0, w', hh, hw', hadj, hgood, rfl⟩
    simp only [List.map_cons, List.cons.injEq] at hh
    obtain ⟨rfl, rfl⟩ := hh
    obtain ⟨w, hw, rfl⟩ := e.closed last w' hlast hw' hadj
    refine ⟨w :: last :: t, mem_extend.2 ⟨last, t, w, rfl, hw, ?_, ?_, rfl⟩, by simp⟩
    · rw [e.adj last w hlast hw]; exact hadj
    · rw [← goodInduced_map e hq hw]; exact hgood

theorem ext_length_map (e : Emb g h f) :
    ∀ (k : Nat) (q : List Nat), q ≠ [] → (∀ x ∈ q, x < h.n) →
      (ext g (goodInduced g) k (q.map f)).length = (ext h (goodInduced h) k q).length := by
  intro k
  induction k with
  | zero => intro q _ _; simp [ext]
  | succ k ih =>
    intro q hne hq
    rw [ext_succ', ext_succ', length_flatMap_sum, length_flatMap_sum]
    have hp := (extend_map_perm e hne hq).map (fun c => (ext g (goodInduced g) k c).length)
    rw [← hp.sum_eq, List.map_map]
    congr 1
    apply List.map_congr_left
    intro c hc
    obtain ⟨h0, t0, w, hh, hw, _, _, rfl⟩ := mem_extend.1 hc
    simp only [Function.comp]
    apply ih (w :: q) (by simp)
    intro x hx
    rcases List.mem_cons.1 hx with rfl | hx
    · exact hw
    · exact hq x hx

end GDist
