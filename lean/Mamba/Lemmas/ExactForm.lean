import Mamba.Lemmas.ExactCard
namespace Search
open Disjoint Relation GSearch

theorem rootPass_form (ds : DS) :
    ∀ (subs : List (List Nat × Nat)) (ch : Array Nat) (num : Nat), (∀ ci ∈ subs, ci.2 < ds.size) →
      rootPass ds subs ch num =
        .ok (ch ++ ((subs.filter fun ci => decide (ds.getD ci.2 0 < 0)).map fun ci => maskOf ci.1).toArray,
             num + (subs.filter fun ci => decide (ds.getD ci.2 0 < 0)).length)
  | [], ch, num, _ => by simp [rootPass]
  | (c, i) :: rest, ch, num, h => by
    have hi : i < ds.size := h (c, i) List.mem_cons_self
    have ih := fun ch num => rootPass_form ds rest ch num (fun x hx => h x (List.mem_cons_of_mem _ hx))
    have hg : ds.getD i 0 = ds[i] := by simp [Array.getD_eq_getD_getElem?, Array.getElem?_eq_getElem hi]
    simp only [rootPass, Array.getElem?_eq_getElem hi, List.filter_cons, hg]
    by_cases hneg : ds[i] < 0
    · simp only [hneg, if_true, decide_true, ih, List.map_cons, List.length_cons]
      congr 2
      · apply Array.toList_inj.1; simp
      · omega
    · simp only [hneg, if_false, decide_false, ih]
      rfl

theorem orbitRoots_form_aux :
    ∀ (l : List (Int × Nat)) (ch : Array Nat) (num : Nat),
      l.foldl (fun (p : Array Nat × Nat) (vi : Int × Nat) =>
          if vi.1 < 0 then (p.1.push (1 <<< vi.2), p.2 + 1) else p) (ch, num) =
        (ch ++ ((l.filter fun vi => decide (vi.1 < 0)).map fun vi => 1 <<< vi.2).toArray,
         num + (l.filter fun vi => decide (vi.1 < 0)).length)
  | [], ch, num => by simp
  | (v, i) :: rest, ch, num => by
    simp only [List.foldl_cons, List.filter_cons]
    by_cases hneg : v < 0
    · simp only [hneg, if_true, decide_true, orbitRoots_form_aux rest, List.map_cons, List.length_cons]
      congr 1
      · apply Array.toList_inj.1; simp
      · omega
    · simp only [hneg, if_false, decide_false, orbitRoots_form_aux rest]
      rfl

theorem orbitRoots_form (orbits : Array Int) (ch : Array Nat) (num : Nat) :
    orbitRoots orbits ch num =
      (ch ++ ((orbits.toList.zipIdx.filter fun vi => decide (vi.1 < 0)).map fun vi => 1 <<< vi.2).toArray,
       num + (orbits.toList.zipIdx.filter fun vi => decide (vi.1 < 0)).length) := by
  unfold orbitRoots
  exact orbitRoots_form_aux _ ch num

/-- under the invariant, the roots are the fixed points of `rep` -/
theorem root_iff_rep {ds : DS} (h : Disjoint.Inv ds) {i : Nat} (hi : i < ds.size) : ds.getD i 0 < 0 ↔ rep ds i = i := by
  constructor
  · exact rep_of_root ds i
  · intro he
    have := rep_isRoot h i hi
    rw [he] at this
    exact this

end Search
