import Mamba.Lemmas.IRCanon
import Mathlib.Data.Finset.Card
import Mathlib.Data.Finset.Image
import Mathlib.Data.List.Count

namespace IR
open Finset

/-- number of distinct colours on `0..n-1` -/
noncomputable def D (n : Nat) (c : Array Nat) : Nat := ((Finset.range n).image (col c)).card

theorem card_image_le_of_refines {n : Nat} {f f' : Nat → Nat}
    (h : ∀ u v, u < n → v < n → f' u = f' v → f u = f v) :
    ((Finset.range n).image f).card ≤ ((Finset.range n).image f').card := by
  classical
  let φ : Nat → Nat := fun y' => if hx : ∃ x, x < n ∧ f' x = y' then f (Classical.choose hx) else 0
  apply Finset.card_le_card_of_surjOn φ
  intro y hy
  simp only [Finset.coe_image, Set.mem_image, Finset.mem_coe, Finset.mem_range] at hy ⊢
  obtain ⟨x, hx, rfl⟩ := hy
  refine ⟨f' x, ⟨x, hx, rfl⟩, ?_⟩
  have hex : ∃ x0, x0 < n ∧ f' x0 = f' x := ⟨x, hx, rfl⟩
  show (if hx : ∃ x0, x0 < n ∧ f' x0 = f' x then f (Classical.choose hx) else 0) = f x
  rw [dif_pos hex]
  exact h _ _ (Classical.choose_spec hex).1 hx (Classical.choose_spec hex).2

theorem card_image_lt_of_refines {n : Nat} {f f' : Nat → Nat}
    (h : ∀ u v, u < n → v < n → f' u = f' v → f u = f v)
    {v w : Nat} (hv : v < n) (hw : w < n) (hvw : f v = f w) (hne : f' v ≠ f' w) :
    ((Finset.range n).image f).card < ((Finset.range n).image f').card := by
  classical
  let φ : Nat → Nat := fun y' => if hx : ∃ x, x < n ∧ f' x = y' then f (Classical.choose hx) else 0
  have hφ : ∀ x, x < n → φ (f' x) = f x := by
    intro x hx
    have hex : ∃ x0, x0 < n ∧ f' x0 = f' x := ⟨x, hx, rfl⟩
    show (if hx : ∃ x0, x0 < n ∧ f' x0 = f' x then f (Classical.choose hx) else 0) = f x
    rw [dif_pos hex]
    exact h _ _ (Classical.choose_spec hex).1 hx (Classical.choose_spec hex).2
  have hmem : f' w ∈ (Finset.range n).image f' := Finset.mem_image.2 ⟨w, Finset.mem_range.2 hw, rfl⟩
  have h1 : ((Finset.range n).image f).card ≤ (((Finset.range n).image f').erase (f' w)).card := by
    apply Finset.card_le_card_of_surjOn φ
    intro y hy
    simp only [Finset.coe_image, Set.mem_image, Finset.mem_coe, Finset.mem_range] at hy
    obtain ⟨x, hx, rfl⟩ := hy
    by_cases hxw : f' x = f' w
    · refine ⟨f' v, ?_, ?_⟩
      · simp only [Finset.coe_erase, Finset.coe_image, Set.mem_sdiff, Set.mem_image, Finset.mem_coe, Finset.mem_range,
          Set.mem_singleton_iff]
        exact ⟨⟨v, hv, rfl⟩, hne⟩
      · rw [hφ v hv, hvw]; exact (h _ _ hx hw hxw).symm
    · refine ⟨f' x, ?_, hφ x hx⟩
      simp only [Finset.coe_erase, Finset.coe_image, Set.mem_sdiff, Set.mem_image, Finset.mem_coe, Finset.mem_range,
          Set.mem_singleton_iff]
      exact ⟨⟨x, hx, rfl⟩, hxw⟩
  have h2 := Finset.card_erase_lt_of_mem hmem
  omega


/-! ### rank -/

theorem rank_lt {ds : List Nat} {k : Nat} (hk : k ∈ ds) : rank ds k < ds.length := by
  unfold rank
  rw [← List.countP_eq_length_filter]
  have hle := List.countP_le_length (p := fun x => decide (x < k)) (l := ds)
  rcases Nat.lt_or_eq_of_le hle with h | h
  · exact h
  · exfalso
    have := (List.countP_eq_length.1 h) k hk
    simp at this

theorem rank_mono {ds : List Nat} {a b : Nat} (hab : a ≤ b) : rank ds a ≤ rank ds b := by
  unfold rank
  rw [← List.countP_eq_length_filter, ← List.countP_eq_length_filter]
  apply List.countP_mono_left
  intro x _ hx
  simp only [decide_eq_true_eq] at hx ⊢
  omega

theorem rank_lt_rank {ds : List Nat} {a b : Nat} (ha : a ∈ ds) (hab : a < b) : rank ds a < rank ds b := by
  induction ds with
  | nil => cases ha
  | cons x xs ih =>
    unfold rank at ih ⊢
    simp only [List.filter_cons]
    rcases List.mem_cons.1 ha with e | e
    · subst e
      have hm : ((xs.filter (· < a)).length) ≤ (xs.filter (· < b)).length := rank_mono (ds := xs) (Nat.le_of_lt hab)
      simp [hab]
      omega
    · have := ih e
      by_cases h1 : x < a
      · have h2 : x < b := by omega
        simp [h1, h2]; exact this
      · by_cases h2 : x < b
        · simp [h1, h2]; omega
        · simp [h1, h2]; exact this

theorem rank_inj {ds : List Nat} {a b : Nat} (ha : a ∈ ds) (hb : b ∈ ds) (h : rank ds a = rank ds b) : a = b := by
  rcases Nat.lt_trichotomy a b with hlt | heq | hgt
  · have := rank_lt_rank ha hlt; omega
  · exact heq
  · have := rank_lt_rank hb hgt; omega


/-! ### well-formed graphs, keys -/

structure WF (g : G) : Prop where
  lt : ∀ v, v < g.n → ∀ w ∈ g.nbrs v, w < g.n
  nodup : ∀ v, v < g.n → (g.nbrs v).Nodup
  symm : ∀ u v, u < g.n → v < g.n → v ∈ g.nbrs u → u ∈ g.nbrs v
  irrefl : ∀ v, v < g.n → v ∉ g.nbrs v

theorem nbrs_length_le {g : G} (hg : WF g) {v : Nat} (hv : v < g.n) : (g.nbrs v).length ≤ g.n := by
  have hsub : g.nbrs v ⊆ List.range g.n := fun w hw => List.mem_range.2 (hg.lt v hv w hw)
  have := ((hg.nodup v hv).subperm hsub).length_le
  simpa using this

theorem cnt_le {g : G} (hg : WF g) (c : Array Nat) (i : Nat) {v : Nat} (hv : v < g.n) : cnt g c i v ≤ g.n :=
  Nat.le_trans List.countP_le_length (nbrs_length_le hg hv)

theorem key_col {g : G} (hg : WF g) (c : Array Nat) (i : Nat) {u v : Nat} (hu : u < g.n) (hv : v < g.n)
    (h : key g c i u = key g c i v) : col c u = col c v := by
  unfold key at h
  have h1 := cnt_le hg c i hu
  have h2 := cnt_le hg c i hv
  generalize cnt g c i u = a at *
  generalize cnt g c i v = b at *
  generalize col c u = x at *
  generalize col c v = y at *
  generalize hN : g.n + 1 = N at *
  rcases Nat.lt_trichotomy x y with hlt | heq | hgt
  · exfalso
    have : (x + 1) * N ≤ y * N := Nat.mul_le_mul_right N hlt
    rw [Nat.add_mul] at this; omega
  · exact heq
  · exfalso
    have : (y + 1) * N ≤ x * N := Nat.mul_le_mul_right N hgt
    rw [Nat.add_mul] at this; omega

def InvA (g : G) (s : St) : Prop := ∀ v, v < g.n → col s.c v < s.cells
def InvD (g : G) (s : St) : Prop := D g.n s.c = s.cells

theorem D_le (n : Nat) (c : Array Nat) : D n c ≤ n := by
  unfold D
  exact Nat.le_trans Finset.card_image_le (by simp)

theorem D_tab (n : Nat) (F : Nat → Nat) : D n (tab n F) = ((Finset.range n).image F).card := by
  unfold D
  congr 1
  apply Finset.image_congr
  intro v hv
  exact col_tab F (Finset.mem_coe.1 hv |> Finset.mem_range.1)

theorem key_mem {g : G} (c : Array Nat) (i : Nat) {v : Nat} (hv : v < g.n) : key g c i v ∈ dedup (keys g c i) := by
  rw [dedup_eq, List.mem_dedup]
  exact List.mem_map.2 ⟨v, List.mem_range.2 hv, rfl⟩

theorem pass_col {g : G} (s : St) (i : Nat) (rest : List Nat) {v : Nat} (hv : v < g.n) :
    col (pass g s i rest).c v = rank (dedup (keys g s.c i)) (key g s.c i v) := by
  show col (tab g.n _) v = _
  rw [col_tab _ hv]

theorem pass_invA (g : G) (s : St) (i : Nat) (rest : List Nat) : InvA g (pass g s i rest) := by
  intro v hv
  rw [pass_col s i rest hv]
  exact rank_lt (key_mem s.c i hv)

theorem pass_invD (g : G) (s : St) (i : Nat) (rest : List Nat) : InvD g (pass g s i rest) := by
  show D g.n (tab g.n _) = (dedup (keys g s.c i)).length
  have hlen : (dedup (keys g s.c i)).length = (keys g s.c i).toFinset.card := by
    rw [dedup_eq, List.card_toFinset]
  rw [D_tab, hlen]
  have e : (Finset.range g.n).image (fun v => rank (dedup (keys g s.c i)) (key g s.c i v))
      = ((Finset.range g.n).image (key g s.c i)).image (rank (dedup (keys g s.c i))) := by
    rw [Finset.image_image]; rfl
  rw [e, Finset.card_image_of_injOn]
  · apply congrArg Finset.card
    ext k
    simp [keys]
  · intro a ha b hb hab
    simp only [Finset.coe_image, Set.mem_image, Finset.mem_coe, Finset.mem_range] at ha hb
    obtain ⟨u, hu, rfl⟩ := ha
    obtain ⟨v, hv, rfl⟩ := hb
    exact rank_inj (key_mem s.c i hu) (key_mem s.c i hv) hab

theorem pass_refines {g : G} (hg : WF g) (s : St) (i : Nat) (rest : List Nat) {u v : Nat} (hu : u < g.n) (hv : v < g.n)
    (h : col (pass g s i rest).c u = col (pass g s i rest).c v) : col s.c u = col s.c v := by
  rw [pass_col s i rest hu, pass_col s i rest hv] at h
  exact key_col hg s.c i hu hv (rank_inj (key_mem s.c i hu) (key_mem s.c i hv) h)

theorem refine_refines {g : G} (hg : WF g) (fuel : Nat) : ∀ (s : St) {u v : Nat}, u < g.n → v < g.n →
    col (refine g fuel s).c u = col (refine g fuel s).c v → col s.c u = col s.c v := by
  induction fuel with
  | zero => intro s u v _ _ h; exact h
  | succ f ih =>
    intro s u v hu hv h
    unfold refine at h
    cases hp : popMax s.work with
    | none => rw [hp] at h; exact h
    | some p =>
      obtain ⟨i, rest⟩ := p
      rw [hp] at h
      exact pass_refines hg s i rest hu hv (ih _ hu hv h)

theorem refine_inv {g : G} (fuel : Nat) : ∀ (s : St), InvA g s ∧ InvD g s →
    InvA g (refine g fuel s) ∧ InvD g (refine g fuel s) := by
  induction fuel with
  | zero => intro s h; exact h
  | succ f ih =>
    intro s h
    unfold refine
    cases hp : popMax s.work with
    | none => exact h
    | some p => obtain ⟨i, rest⟩ := p; exact ih _ ⟨pass_invA g s i rest, pass_invD g s i rest⟩

theorem refine_inv' {g : G} {fuel : Nat} (hf : 1 ≤ fuel) {s : St} (hw : s.work ≠ []) :
    InvA g (refine g fuel s) ∧ InvD g (refine g fuel s) := by
  obtain ⟨f, rfl⟩ : ∃ f, fuel = f + 1 := ⟨fuel - 1, by omega⟩
  unfold refine
  cases hs : s.work with
  | nil => exact absurd hs hw
  | cons x xs =>
    simp only [popMax]
    exact refine_inv f _ ⟨pass_invA g s _ _, pass_invD g s _ _⟩

theorem refine_cells_le {g : G} (hg : WF g) (fuel : Nat) {s : St} (h : InvA g s ∧ InvD g s) :
    s.cells ≤ (refine g fuel s).cells := by
  have h' := refine_inv fuel s h
  rw [← h.2, ← h'.2]
  unfold D
  exact card_image_le_of_refines (fun u v hu hv e => refine_refines hg fuel s hu hv e)


/-! ### individualisation -/

theorem ind_col {g : G} (s : St) (t v : Nat) {u : Nat} (hu : u < g.n) :
    col (individualise g s t v).c u =
      if u = v then t else if col s.c u > t then col s.c u + 1 else if col s.c u = t then t + 1 else col s.c u := by
  show col (tab g.n _) u = _
  rw [col_tab _ hu]

theorem ind_invA {g : G} {s : St} (h : InvA g s) {t : Nat} (ht : t < s.cells) (v : Nat) :
    InvA g (individualise g s t v) := by
  intro u hu
  rw [ind_col s t v hu]
  have := h u hu
  show _ < s.cells + 1
  split_ifs <;> omega

theorem ind_refines {g : G} (s : St) (t v : Nat) {u w : Nat} (hu : u < g.n) (hw : w < g.n)
    (h : col (individualise g s t v).c u = col (individualise g s t v).c w) : col s.c u = col s.c w := by
  rw [ind_col s t v hu, ind_col s t v hw] at h
  by_cases e1 : u = v <;> by_cases e2 : w = v
  · rw [e1, e2]
  · rw [if_pos e1, if_neg e2] at h; split_ifs at h <;> omega
  · rw [if_neg e1, if_pos e2] at h; split_ifs at h <;> omega
  · rw [if_neg e1, if_neg e2] at h; split_ifs at h <;> omega

theorem mem_cellMembers {g : G} {c : Array Nat} {t v : Nat} : v ∈ cellMembers g c t ↔ v < g.n ∧ col c v = t := by
  unfold cellMembers
  simp [List.mem_filter]

theorem cellMembers_nodup (g : G) (c : Array Nat) (t : Nat) : (cellMembers g c t).Nodup :=
  List.Nodup.filter _ List.nodup_range

/-- a cell with more than one member contains a second vertex -/
theorem exists_other {g : G} {c : Array Nat} {t v : Nat} (hlen : (cellMembers g c t).length > 1) :
    ∃ w, w ∈ cellMembers g c t ∧ w ≠ v := by
  match hl : cellMembers g c t, hlen with
  | a :: b :: _, _ =>
    have hnd := cellMembers_nodup g c t
    rw [hl] at hnd
    have hab : a ≠ b := by
      intro e; subst e; simp at hnd
    by_cases h : a = v
    · exact ⟨b, by simp, by rw [← h]; exact hab.symm⟩
    · exact ⟨a, by simp, h⟩

theorem ind_invD {g : G} {s : St} (hA : InvA g s) (hD : InvD g s) {t v : Nat} (ht : t < s.cells)
    (hv : v ∈ cellMembers g s.c t) (hlen : (cellMembers g s.c t).length > 1) :
    InvD g (individualise g s t v) := by
  obtain ⟨hvn, hvt⟩ := mem_cellMembers.1 hv
  obtain ⟨w, hw, hwv⟩ := exists_other (v := v) hlen
  obtain ⟨hwn, hwt⟩ := mem_cellMembers.1 hw
  have hlt : D g.n s.c < D g.n (individualise g s t v).c := by
    unfold D
    apply card_image_lt_of_refines (fun a b ha hb e => ind_refines s t v ha hb e) hvn hwn (by rw [hvt, hwt])
    rw [ind_col s t v hvn, ind_col s t v hwn, if_pos rfl, if_neg hwv, hwt]
    simp
  have hle : D g.n (individualise g s t v).c ≤ s.cells + 1 := by
    unfold D
    have hsub : (Finset.range g.n).image (col (individualise g s t v).c) ⊆ Finset.range (s.cells + 1) := by
      intro y hy
      obtain ⟨u, hu, rfl⟩ := Finset.mem_image.1 hy
      exact Finset.mem_range.2 (ind_invA hA ht v u (Finset.mem_range.1 hu))
    simpa using Finset.card_le_card hsub
  show D g.n (individualise g s t v).c = s.cells + 1
  rw [hD] at hlt
  omega

/-! ### leaves are discrete -/

theorem target_some {g : G} {s : St} {t : Nat} (h : target g s = some t) :
    t < s.cells ∧ (cellMembers g s.c t).length > 1 := by
  unfold target at h
  have h1 := List.mem_of_find?_eq_some h
  have h2 := List.find?_some h
  exact ⟨List.mem_range.1 h1, by simpa using h2⟩

theorem target_none_inj {g : G} {s : St} (hA : InvA g s) (h : target g s = none) {u v : Nat} (hu : u < g.n) (hv : v < g.n)
    (e : col s.c u = col s.c v) : u = v := by
  by_contra hne
  unfold target at h
  rw [List.find?_eq_none] at h
  have := h (col s.c u) (List.mem_range.2 (hA u hu))
  apply this
  simp only [gt_iff_lt, decide_eq_true_eq]
  have hsub : [u, v] ⊆ cellMembers g s.c (col s.c u) := by
    intro x hx
    simp only [List.mem_cons, List.not_mem_nil, or_false] at hx
    rcases hx with rfl | rfl
    · exact mem_cellMembers.2 ⟨hu, rfl⟩
    · exact mem_cellMembers.2 ⟨hv, e.symm⟩
  have hnd : [u, v].Nodup := by simp [hne]
  have := (hnd.subperm hsub).length_le
  simp only [List.length_cons, List.length_nil] at this
  omega

/-- a leaf colouring is a permutation of `0..n-1` -/
def IsPerm (n : Nat) (l : Array Nat) : Prop :=
  (∀ v, v < n → col l v < n) ∧ ∀ u v, u < n → v < n → col l u = col l v → u = v

theorem leaves_perm {g : G} (hg : WF g) (rf fuel : Nat) : ∀ (s : St), InvA g s → InvD g s → g.n ≤ fuel + s.cells →
    ∀ l ∈ leaves g rf fuel s, IsPerm g.n l := by
  induction fuel with
  | zero =>
    intro s hA hD hn l hl
    simp only [leaves, List.mem_singleton] at hl
    subst hl
    have hDn : D g.n s.c = g.n := by have := D_le g.n s.c; rw [hD] at this ⊢; omega
    refine ⟨fun v hv => by have := hA v hv; rw [← hD, hDn] at this; exact this, ?_⟩
    intro u v hu hv e
    have hinj : Set.InjOn (col s.c) (Finset.range g.n : Set Nat) := by
      apply Finset.card_image_iff.1
      unfold D at hDn
      rw [hDn]; simp
    exact hinj (by simpa using hu) (by simpa using hv) e
  | succ f ih =>
    intro s hA hD hn l hl
    unfold leaves at hl
    cases ht : target g s with
    | none =>
      rw [ht] at hl
      simp only [List.mem_singleton] at hl
      subst hl
      refine ⟨fun v hv => ?_, fun u v hu hv e => target_none_inj hA ht hu hv e⟩
      have := hA v hv
      have := D_le g.n s.c
      rw [hD] at this
      omega
    | some t =>
      rw [ht] at hl
      simp only [List.mem_flatMap] at hl
      obtain ⟨v, hv, hl⟩ := hl
      obtain ⟨htc, hlen⟩ := target_some ht
      have hA' := ind_invA hA htc v
      have hD' := ind_invD hA hD htc hv hlen
      have hinv := refine_inv rf _ ⟨hA', hD'⟩
      have hcells := refine_cells_le hg rf ⟨hA', hD'⟩
      apply ih _ hinv.1 hinv.2 _ l hl
      have : (individualise g s t v).cells = s.cells + 1 := rfl
      omega

theorem allLeaves_perm {g : G} (hg : WF g) {s : St} (hw : s.work ≠ []) : ∀ l ∈ allLeaves g s, IsPerm g.n l := by
  have hinv := refine_inv' (g := g) (fuel := rfuel g) (by unfold rfuel; omega) hw
  exact leaves_perm hg _ _ _ hinv.1 hinv.2 (by omega)

end IR
