import Mamba.Lemmas.C06Trans
/-! C06: sequences of `Contract` / `SplitEdge` applied in place. -/
namespace Construct
open GraphSpec

/-- the arguments of a step are vertices of the current graph (and distinct for `SplitEdge`) -/
def TOp.Valid (g : G) : TOp → Prop
  | .c i j => i < g.n ∧ j < g.n
  | .s i j => i ≠ j ∧ i < g.n ∧ j < g.n

/-- every step of the sequence is valid for the graph it is applied to -/
def ValidSeq : G → List TOp → Prop
  | _, [] => True
  | g, op :: ops => op.Valid g ∧ ∀ h, tstepSpec g op = .ok h → ValidSeq h ops

theorem tstepSpec_wf (g h : G) (op : TOp) (e : tstepSpec g op = .ok h) : h.WF := by
  cases op with
  | c i j => simp only [tstepSpec, Outcome.ok.injEq] at e; subst e; exact symm_wf _ _
  | s i j =>
    simp only [tstepSpec] at e
    split at e
    · cases e
    · simp only [Outcome.ok.injEq] at e; subst e; exact symm_wf _ _

theorem tseq_wf_all (ops : List TOp) (g : G) (gs : List G) (e : tseq tstepSpec g ops = .ok gs) :
    ∀ h ∈ gs, h.WF := by
  induction ops generalizing g gs with
  | nil => simp only [tseq, Outcome.ok.injEq] at e; subst e; simp
  | cons op t ih =>
    simp only [tseq] at e
    obtain ⟨h, e1, e⟩ := bind_eq_ok' e
    obtain ⟨rest, e2, e⟩ := bind_eq_ok' e
    simp only [Outcome.pure_eq, Outcome.ok.injEq] at e; subst e
    intro x hx
    simp only [List.mem_cons] at hx
    rcases hx with rfl | hx
    · exact tstepSpec_wf g _ op e1
    · exact ih h rest e2 x hx

theorem tstep_refines (g : G) (hg : g.WF) (op : TOp) (hv : op.Valid g) : tstepModel g op = tstepSpec g op := by
  cases op with
  | c i j => simp only [tstepModel, tstepSpec, contract_ok g hg i j hv.1]
  | s i j =>
    have hne : (i == j) = false := by simp [hv.1]
    simp only [tstepModel, tstepSpec, hne, Bool.false_eq_true, ↓reduceIte, splitEdge_ok g hg i j hv.1 hv.2.1 hv.2.2]

theorem tseq_refines (ops : List TOp) (g : G) (hg : g.WF) (hv : ValidSeq g ops) :
    tseq tstepModel g ops = tseq tstepSpec g ops := by
  induction ops generalizing g with
  | nil => rfl
  | cons op t ih =>
    simp only [tseq, tstep_refines g hg op hv.1]
    cases e : tstepSpec g op with
    | ok h => simp only [Outcome.bind_ok]; rw [ih h (tstepSpec_wf g h op e) (hv.2 h e)]
    | panic => rfl
    | outOfFuel => rfl

end Construct
