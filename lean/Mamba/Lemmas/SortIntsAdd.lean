import Mamba.Lemmas.SortIntsRange
/-! Lemmas for C17: `Add` — the three loops, then the characterisation of the result. -/
set_option linter.unusedTactic false
set_option linter.unreachableTactic false
set_option linter.unnecessarySeqFocus false
set_option linter.unusedSimpArgs false
namespace SortInts

/-- insertion point of the first kept pair, or `len s` -/
def mNext (s : List Int) : List (Int × Int) → Int
  | [] => s.length
  | (_, idx) :: r => if idx ≠ -1 then idx else mNext s r

/-- number of kept pairs -/
def mKept : List (Int × Int) → Nat
  | [] => 0
  | (_, idx) :: r => if idx ≠ -1 then mKept r + 1 else mKept r

/-- the merged tail that the third loop of `Add` builds for the pairs processed so far -/
def mR (s : List Int) : List (Int × Int) → List Int
  | [] => []
  | (v, idx) :: r =>
    if idx ≠ -1 then v :: ((s.drop idx.toNat).take ((mNext s r).toNat - idx.toNat) ++ mR s r) else mR s r

/-- insertion points are in range and non-decreasing -/
def mWF (s : List Int) : List (Int × Int) → Prop
  | [] => True
  | (_, idx) :: r => mWF s r ∧ (idx ≠ -1 → 0 ≤ idx ∧ idx ≤ mNext s r)

theorem mNext_le (s : List Int) : ∀ l, mWF s l → mNext s l ≤ s.length ∧ 0 ≤ mNext s l
  | [], _ => by simp [mNext]
  | (v, idx) :: r, h => by
    obtain ⟨h1, h2⟩ := h
    have := mNext_le s r h1
    by_cases hi : idx ≠ -1
    · have := h2 hi; simp only [mNext, hi]; simp; omega
    · simp only [mNext, hi]; simpa using this

theorem mKept_append (a b : List (Int × Int)) : mKept (a ++ b) = mKept a + mKept b := by
  induction a with
  | nil => simp [mKept]
  | cons p a ih =>
    obtain ⟨v, idx⟩ := p
    by_cases hi : idx ≠ -1 <;> simp [mKept, hi, ih] <;> omega

theorem mKept_reverse (a : List (Int × Int)) : mKept a.reverse = mKept a := by
  induction a with
  | nil => rfl
  | cons p a ih =>
    obtain ⟨v, idx⟩ := p
    rw [List.reverse_cons, mKept_append, ih]
    by_cases hi : idx ≠ -1 <;> simp [mKept, hi] <;> omega

theorem addMerge_spec (s : List Int) : ∀ (rpre suf : List (Int × Int)) (T : List Int),
    mWF s (rpre.reverse ++ suf) → (T.length : Int) = mNext s suf + mKept rpre →
    ∃ T', addMerge s ((mKept rpre + mKept suf : Nat) : Int) rpre (T ++ mR s suf) (mKept suf : Nat) (mNext s suf)
        = .ok (T' ++ mR s (rpre.reverse ++ suf), mNext s (rpre.reverse ++ suf)) ∧
      (T'.length : Int) = mNext s (rpre.reverse ++ suf) := by
  intro rpre
  induction rpre with
  | nil =>
    intro suf T _ hT
    exact ⟨T, by simp [addMerge], by simpa [mKept] using hT⟩
  | cons p rest ih =>
    intro suf T hwf hT
    obtain ⟨xi, idx⟩ := p
    have hwf' : mWF s (rest.reverse ++ (xi, idx) :: suf) := by simpa using hwf
    have hsplit : (((xi, idx) :: rest).reverse ++ suf) = rest.reverse ++ (xi, idx) :: suf := by simp
    rw [hsplit]
    -- well-formedness of the suffix part
    have hwfsuf : ∀ (a b : List (Int × Int)), mWF s (a ++ b) → mWF s b := by
      intro a b
      induction a with
      | nil => simp
      | cons q a iha => intro h; exact iha h.1
    have hw2 : mWF s ((xi, idx) :: suf) := hwfsuf _ _ hwf'
    have hnl := mNext_le s suf hw2.1
    by_cases hi : idx ≠ -1
    · obtain ⟨h0, hle⟩ := hw2.2 hi
      simp only [addMerge, hi, ne_eq, not_false_eq_true, if_true]
      have hk : mKept ((xi, idx) :: rest) = mKept rest + 1 := by simp [mKept, hi]
      have hk2 : mKept ((xi, idx) :: suf) = mKept suf + 1 := by simp [mKept, hi]
      -- the source slice
      have hsl : sliceI s idx (mNext s suf) = some ((s.drop idx.toNat).take ((mNext s suf).toNat - idx.toNat)) := by
        simp only [sliceI]; rw [if_pos ⟨h0, hle, hnl.1⟩]
      simp only [hsl]
      -- the copy
      set src := (s.drop idx.toNat).take ((mNext s suf).toNat - idx.toNat) with hsrc
      have hsrclen : src.length = (mNext s suf).toNat - idx.toNat := by
        rw [hsrc, List.length_take, List.length_drop]; omega
      have hTl : T.length = (mNext s suf).toNat + mKept rest + 1 := by omega
      set lo : Int := idx + ((mKept ((xi, idx) :: rest) + mKept suf : Nat) : Int) - ((mKept suf : Nat) : Int) with hlo
      set hi' : Int := mNext s suf + ((mKept ((xi, idx) :: rest) + mKept suf : Nat) : Int) - ((mKept suf : Nat) : Int) with hhi
      have hloN : lo = ((idx.toNat + mKept rest + 1 : Nat) : Int) := by rw [hlo, hk]; omega
      have hhiN : hi' = ((T.length : Nat) : Int) := by rw [hhi, hk]; omega
      have hcopy : copyI (T ++ mR s suf) lo hi' src = some (T.take (idx.toNat + mKept rest + 1) ++ src ++ mR s suf) := by
        rw [hloN, hhiN, copyI_nat _ _ _ _ (by omega) (by simp)]
        have hmin : min (T.length - (idx.toNat + mKept rest + 1)) src.length = src.length := by
          rw [hsrclen]; omega
        rw [hmin, List.take_of_length_le (Nat.le_refl _)]
        have e1 : idx.toNat + mKept rest + 1 + src.length = T.length := by rw [hsrclen]; omega
        rw [e1, List.drop_left, List.take_append_of_le_length (by omega)]
      simp only [hcopy]
      -- the single write
      have hsplitT : T.take (idx.toNat + mKept rest + 1) = T.take (idx.toNat + mKept rest) ++ [T[idx.toNat + mKept rest]'(by omega)] := by
        rw [List.take_succ_eq_append_getElem]
      have hset : setI (T.take (idx.toNat + mKept rest + 1) ++ src ++ mR s suf) (lo - 1) xi
          = some (T.take (idx.toNat + mKept rest) ++ mR s ((xi, idx) :: suf)) := by
        have e : lo - 1 = (((T.take (idx.toNat + mKept rest)).length : Nat) : Int) := by
          rw [hloN, List.length_take]; omega
        rw [e, hsplitT]
        have : T.take (idx.toNat + mKept rest) ++ [T[idx.toNat + mKept rest]'(by omega)] ++ src ++ mR s suf
            = T.take (idx.toNat + mKept rest) ++ T[idx.toNat + mKept rest]'(by omega) :: (src ++ mR s suf) := by
          simp only [List.append_assoc, List.singleton_append, List.cons_append, List.nil_append]
        rw [this, setI_append_mid]
        simp [mR, hi, hsrc]
      simp only [hset]
      have hn : mNext s ((xi, idx) :: suf) = idx := by simp [mNext, hi]
      have e1 : ((mKept ((xi, idx) :: rest) + mKept suf : Nat) : Int) = ((mKept rest + mKept ((xi, idx) :: suf) : Nat) : Int) := by
        rw [hk, hk2]; omega
      have e2 : ((mKept suf : Nat) : Int) + 1 = ((mKept ((xi, idx) :: suf) : Nat) : Int) := by rw [hk2]; omega
      rw [e1, e2]
      have := ih ((xi, idx) :: suf) (T.take (idx.toNat + mKept rest)) hwf' (by rw [hn, List.length_take]; omega)
      rw [hn] at this
      exact this
    · have hi2 : idx = -1 := by simpa using hi
      subst hi2
      simp only [addMerge, ne_eq, not_true_eq_false, if_false]
      have hk : mKept ((xi, (-1 : Int)) :: rest) = mKept rest := by simp [mKept]
      have hk2 : mKept ((xi, (-1 : Int)) :: suf) = mKept suf := by simp [mKept]
      have hn : mNext s ((xi, (-1 : Int)) :: suf) = mNext s suf := by simp [mNext]
      have hr : mR s ((xi, (-1 : Int)) :: suf) = mR s suf := by simp [mR]
      have := ih ((xi, (-1 : Int)) :: suf) T hwf' (by rw [hn]; rw [hk] at hT; exact hT)
      rw [hn, hk2, hr] at this
      rw [hk]
      exact this

end SortInts

namespace SortInts

/-- `indices[i]` after the first loop of `Add` -/
def fIdx (s : List Int) (v : Int) : Int := if v ∈ s then -1 else (searchInts s v : Int)

/-- `indices[i]` after the second loop of `Add`, for the argument `v` preceded by `prev` -/
def gIdx (s : List Int) (prev : Option Int) (v : Int) : Int :=
  if v ∈ s ∨ prev = some v then -1 else (searchInts s v : Int)

def specInd (s : List Int) : Option Int → List Int → List Int
  | _, [] => []
  | prev, v :: xs => gIdx s prev v :: specInd s (some v) xs

theorem length_specInd (s : List Int) : ∀ prev xs, (specInd s prev xs).length = xs.length
  | _, [] => rfl
  | prev, v :: xs => by simp [specInd, length_specInd s (some v) xs]

/-- `v` is not discarded by the first loop -/
def newB (s : List Int) (v : Int) : Bool := decide (fIdx s v ≠ -1)

theorem fIdx_ne (s : List Int) (v : Int) : fIdx s v ≠ -1 ↔ v ∉ s := by
  unfold fIdx; split <;> simp_all <;> omega

theorem addIndices_spec (s : List Int) (hs : SS s) : ∀ (x : List Int) (seen : Int),
    ∃ n : Int, addIndices s x seen = (x.map (fIdx s), n) ∧
      n + (x.countP (newB s) : Nat) = seen + x.length := by
  intro x
  induction x with
  | nil => intro seen; exact ⟨seen, by simp [addIndices]⟩
  | cons v xs ih =>
    intro seen
    have hc : (((searchInts s v : Nat) : Int) < (s.length : Int) ∧ getI s ((searchInts s v : Nat) : Int) = some v) ↔ v ∈ s := by
      rw [mem_iff_searchInts s hs v, getI_natCast]; simp
    by_cases hv : v ∈ s
    · obtain ⟨n, h1, h2⟩ := ih (seen + 1)
      refine ⟨n, ?_, ?_⟩
      · simp only [addIndices]; rw [if_pos (hc.mpr hv), h1]; simp [fIdx, hv]
      · have : ¬ fIdx s v ≠ -1 := by rw [fIdx_ne]; simpa using hv
        rw [List.countP_cons_of_neg (by simpa [newB] using this)]
        simp only [List.length_cons]; push_cast; omega
    · obtain ⟨n, h1, h2⟩ := ih seen
      refine ⟨n, ?_, ?_⟩
      · simp only [addIndices]; rw [if_neg (fun h => hv (hc.mp h)), h1]; simp [fIdx, hv]
      · have : fIdx s v ≠ -1 := by rw [fIdx_ne]; exact hv
        rw [List.countP_cons_of_pos (by simpa [newB] using this)]
        simp only [List.length_cons]; push_cast; omega

end SortInts

namespace SortInts

theorem addDups_spec (s : List Int) : ∀ (xs : List Int) (x0 i0 seen : Int),
    ∃ n : Int, addDups (x0 :: xs) (i0 :: xs.map (fIdx s)) seen = (i0 :: specInd s (some x0) xs, n) ∧
      n + (mKept (xs.zip (specInd s (some x0) xs)) : Nat) = seen + (xs.countP (newB s) : Nat) := by
  intro xs
  induction xs with
  | nil => intro x0 i0 seen; exact ⟨seen, by simp [addDups, specInd, mKept]⟩
  | cons x1 xs ih =>
    intro x0 i0 seen
    simp only [List.map_cons, addDups]
    by_cases hd : x0 = x1 ∧ fIdx s x1 ≠ -1
    · rw [if_pos hd]
      obtain ⟨n, h1, h2⟩ := ih x1 (-1) (seen + 1)
      have hg : gIdx s (some x0) x1 = -1 := by simp [gIdx, hd.1]
      refine ⟨n, ?_, ?_⟩
      · rw [h1]; simp [specInd, hg]
      · rw [List.countP_cons_of_pos (by simpa [newB] using hd.2)]
        simp only [specInd, hg, List.zip_cons_cons, mKept]
        simp only [ne_eq, not_true_eq_false, if_false]
        push_cast; omega
    · rw [if_neg hd]
      obtain ⟨n, h1, h2⟩ := ih x1 (fIdx s x1) seen
      by_cases hf : fIdx s x1 ≠ -1
      · have hne : x0 ≠ x1 := fun h => hd ⟨h, hf⟩
        have hx1 : x1 ∉ s := (fIdx_ne s x1).mp hf
        have hg : gIdx s (some x0) x1 = fIdx s x1 := by
          simp [gIdx, fIdx, hx1, hne]
        refine ⟨n, ?_, ?_⟩
        · rw [h1]; simp [specInd, hg]
        · rw [List.countP_cons_of_pos (by simpa [newB] using hf)]
          simp only [specInd, hg, List.zip_cons_cons, mKept]
          rw [if_pos hf]
          push_cast; omega
      · have hf' : fIdx s x1 = -1 := by simpa using hf
        have hx1 : x1 ∈ s := by
          by_contra h; exact hf ((fIdx_ne s x1).mpr h)
        have hg : gIdx s (some x0) x1 = -1 := by simp [gIdx, hx1]
        refine ⟨n, ?_, ?_⟩
        · rw [h1]; simp [specInd, hg, hf']
        · rw [List.countP_cons_of_neg (by simpa [newB] using hf)]
          simp only [specInd, hg, List.zip_cons_cons, mKept]
          simp only [ne_eq, not_true_eq_false, if_false]
          omega

/-- the first two loops of `Add` together -/
theorem add_phases (s : List Int) (hs : SS s) (x : List Int) :
    ∃ seen2 : Int, addDups x (addIndices s x 0).1 (addIndices s x 0).2 = (specInd s none x, seen2) ∧
      seen2 + (mKept (x.zip (specInd s none x)) : Nat) = x.length := by
  cases x with
  | nil => exact ⟨0, by simp [addIndices, addDups, specInd, mKept]⟩
  | cons x0 xs =>
    obtain ⟨n1, h1, h1c⟩ := addIndices_spec s hs (x0 :: xs) 0
    rw [h1]
    simp only [List.map_cons]
    obtain ⟨n2, h2, h2c⟩ := addDups_spec s xs x0 (fIdx s x0) n1
    have hg : gIdx s none x0 = fIdx s x0 := by simp [gIdx, fIdx]
    refine ⟨n2, ?_, ?_⟩
    · rw [h2]; simp [specInd, hg]
    · simp only [specInd, hg, List.zip_cons_cons, mKept]
      by_cases hf : fIdx s x0 ≠ -1
      · rw [List.countP_cons_of_pos (by simpa [newB] using hf)] at h1c
        rw [if_pos hf]; simp only [List.length_cons] at h1c ⊢; push_cast at h1c ⊢; omega
      · rw [List.countP_cons_of_neg (by simpa [newB] using hf)] at h1c
        rw [if_neg hf]; simp only [List.length_cons] at h1c ⊢; push_cast at h1c ⊢; omega

end SortInts

namespace SortInts

theorem searchInts_mono (s : List Int) (v w : Int) (h : v ≤ w) : searchInts s v ≤ searchInts s w := by
  by_contra hlt
  have hlt : searchInts s w < searchInts s v := by omega
  have hl : searchInts s w < s.length := by have := searchInts_le s v; omega
  have h1 := lt_of_lt_searchInts s v _ hlt hl
  have h2 : w ≤ s[searchInts s w] := by
    have := List.findIdx_getElem (p := fun u => decide (w ≤ u)) (xs := s) (w := hl)
    exact of_decide_eq_true this
  omega

/-- elements of `s` from the insertion point of `v` on are `≥ v` -/
theorem ge_of_mem_drop_searchInts (s : List Int) (hs : SS s) (v : Int) (n : Nat) (hn : searchInts s v ≤ n) :
    ∀ y ∈ s.drop n, v ≤ y := by
  intro y hy
  obtain ⟨i, hi, rfl⟩ := List.getElem_of_mem hy
  rw [List.getElem_drop]
  exact ge_of_searchInts_le s hs v (n + i) (by omega) (by simp at hi; omega)

/-- elements of `s` before the insertion point of `v` are `< v` -/
theorem lt_of_mem_take_searchInts (s : List Int) (v : Int) (n : Nat) (hn : n ≤ searchInts s v) :
    ∀ y ∈ s.take n, y < v := by
  intro y hy
  obtain ⟨i, hi, rfl⟩ := List.getElem_of_mem hy
  rw [List.getElem_take]
  simp at hi
  exact lt_of_lt_searchInts s v i (by omega) (by omega)


theorem spec_claims (s : List Int) (hs : SS s) : ∀ (x : List Int) (prev : Option Int), x.Pairwise (· ≤ ·) →
    (∀ p, prev = some p → ∀ y ∈ x, p ≤ y) →
    mWF s (x.zip (specInd s prev x)) ∧
    (∀ w, (∀ y ∈ x, w ≤ y) → (searchInts s w : Int) ≤ mNext s (x.zip (specInd s prev x))) ∧
    (∀ y, y ∈ mR s (x.zip (specInd s prev x)) ↔
      (y ∈ s.drop (mNext s (x.zip (specInd s prev x))).toNat ∨ (y ∈ x ∧ y ∉ s ∧ prev ≠ some y))) ∧
    SS (mR s (x.zip (specInd s prev x))) ∧
    (∀ y ∈ mR s (x.zip (specInd s prev x)), ∀ z ∈ s.take (mNext s (x.zip (specInd s prev x))).toNat, z < y) := by
  intro x
  induction x with
  | nil =>
    intro prev _ _
    refine ⟨by simp [specInd, mWF], ?_, ?_, by simp [specInd, mR, SS], by simp [specInd, mR]⟩
    · intro w _; simp only [specInd, List.zip_nil_right, mNext]
      have := searchInts_le s w; omega
    · intro y; simp [specInd, mR, mNext]
  | cons v xs ih =>
    intro prev hx hprev
    rw [List.pairwise_cons] at hx
    obtain ⟨hv, hxs⟩ := hx
    obtain ⟨ihwf, ihlb, ihmem, ihss, ihlt⟩ := ih (some v) hxs (by intro p hp y hy; cases hp; exact hv y hy)
    have hNle := mNext_le s _ ihwf
    set pairs' := xs.zip (specInd s (some v) xs) with hp'
    set N' := mNext s pairs' with hN'
    have hprevle : ∀ p, prev = some p → p ≤ v := fun p hp => hprev p hp v (by simp)
    simp only [specInd, List.zip_cons_cons]
    by_cases hg : v ∈ s ∨ prev = some v
    · -- discarded
      have hgi : gIdx s prev v = -1 := by simp [gIdx, hg]
      rw [hgi]
      simp only [mWF, mNext, mR, ne_eq, not_true_eq_false, if_false, false_implies, and_true]
      refine ⟨ihwf, ?_, ?_, ihss, ihlt⟩
      · intro w hw; exact ihlb w (fun y hy => hw y (by simp [hy]))
      · intro y; rw [ihmem y]
        constructor
        · rintro (h | ⟨h1, h2, h3⟩)
          · exact Or.inl h
          · refine Or.inr ⟨by simp [h1], h2, ?_⟩
            intro hpy
            have := hprevle y hpy
            have := hv y h1
            exact h3 (by congr 1; omega)
        · rintro (h | ⟨h1, h2, h3⟩)
          · exact Or.inl h
          · refine Or.inr ⟨?_, h2, ?_⟩
            · rcases List.mem_cons.mp h1 with rfl | h1
              · rcases hg with hg | hg
                · exact absurd hg h2
                · exact absurd hg h3
              · exact h1
            · intro hyv
              have hyv : v = y := by injection hyv
              subst hyv
              rcases hg with hg | hg
              · exact h2 hg
              · exact h3 hg
    · -- kept
      have hvs : v ∉ s := fun h => hg (Or.inl h)
      have hpv : prev ≠ some v := fun h => hg (Or.inr h)
      have hgi : gIdx s prev v = (searchInts s v : Int) := by simp [gIdx, hg]
      have hne : ((searchInts s v : Nat) : Int) ≠ -1 := by omega
      rw [hgi]
      have hlbN : (searchInts s v : Int) ≤ N' := ihlb v hv
      simp only [mWF, mNext, mR, hne, ne_eq, not_false_eq_true, if_true, Int.toNat_natCast]
      set lb := searchInts s v with hlb
      set A := (s.drop lb).take (N'.toNat - lb) with hA
      set R' := mR s pairs' with hR'
      have hdec : s.drop lb = A ++ s.drop N'.toNat := by
        rw [hA]
        conv_lhs => rw [← List.take_append_drop (N'.toNat - lb) (s.drop lb)]
        rw [List.drop_drop]; congr 2; omega
      have hmemdrop : ∀ y, y ∈ s.drop lb ↔ y ∈ A ∨ y ∈ s.drop N'.toNat := by
        intro y; rw [hdec, List.mem_append]
      have F1 : ∀ y ∈ s.drop lb, v < y := by
        intro y hy
        have h1 := ge_of_mem_drop_searchInts s hs v lb (Nat.le_refl _) y hy
        have h2 : y ≠ v := fun h => hvs (h ▸ List.mem_of_mem_drop hy)
        omega
      have F2 : ∀ z ∈ s.take lb, z < v := lt_of_mem_take_searchInts s v lb (Nat.le_refl _)
      have F3 : ∀ y ∈ A, y ∈ s.take N'.toNat := by
        intro y hy
        have : A = (s.take N'.toNat).drop lb := by rw [hA, List.drop_take]
        rw [this] at hy; exact List.mem_of_mem_drop hy
      have F4 : ∀ y ∈ R', v < y := by
        intro y hy
        rcases (ihmem y).mp hy with h | ⟨h1, h2, h3⟩
        · exact F1 y ((hmemdrop y).mpr (Or.inr h))
        · have := hv y h1
          have : y ≠ v := fun h => h3 (by rw [h])
          omega
      have hssA : SS A := by
        have : A.Sublist s := (List.take_sublist _ _).trans (List.drop_sublist _ _)
        exact List.Pairwise.sublist this hs
      have htakele : ∀ z ∈ s.take lb, z ∈ s.take N'.toNat := by
        intro z hz
        have : s.take lb = (s.take N'.toNat).take lb := by rw [List.take_take]; congr 1; omega
        rw [this] at hz; exact List.mem_of_mem_take hz
      refine ⟨⟨ihwf, fun _ => ⟨by omega, hlbN⟩⟩, ?_, ?_, ?_, ?_⟩
      · intro w hw
        have := searchInts_mono s w v (hw v (by simp)); omega
      · intro y
        simp only [List.mem_cons, List.mem_append]
        rw [ihmem y, hmemdrop y]
        constructor
        · rintro (rfl | h | h | ⟨h1, h2, h3⟩)
          · exact Or.inr ⟨Or.inl rfl, hvs, hpv⟩
          · exact Or.inl (Or.inl h)
          · exact Or.inl (Or.inr h)
          · refine Or.inr ⟨Or.inr h1, h2, ?_⟩
            intro hpy
            have := hprevle y hpy
            have := hv y h1
            exact h3 (by congr 1; omega)
        · rintro ((h | h) | ⟨h1, h2, h3⟩)
          · exact Or.inr (Or.inl h)
          · exact Or.inr (Or.inr (Or.inl h))
          · rcases h1 with rfl | h1
            · exact Or.inl rfl
            · by_cases hyv : y = v
              · exact Or.inl hyv
              · exact Or.inr (Or.inr (Or.inr ⟨h1, h2, fun h => hyv (by injection h with h; exact h.symm)⟩))
      · rw [SS, List.pairwise_cons, List.pairwise_append]
        refine ⟨?_, hssA, ihss, ?_⟩
        · intro y hy
          rcases List.mem_append.mp hy with h | h
          · exact F1 y ((hmemdrop y).mpr (Or.inl h))
          · exact F4 y h
        · intro a ha b hb
          exact ihlt b hb a (F3 a ha)
      · intro y hy z hz
        have hzv := F2 z hz
        rcases List.mem_cons.mp hy with rfl | hy
        · exact hzv
        · rcases List.mem_append.mp hy with h | h
          · have := F1 y ((hmemdrop y).mpr (Or.inl h)); omega
          · have := F4 y h; omega


theorem add_result (s : List Int) (hs : SS s) (args : List Int) :
    ∃ r, add s args = .ok r ∧ SS r ∧ ∀ y, y ∈ r ↔ (y ∈ s ∨ y ∈ args) := by
  unfold add
  generalize hx : sortInts args = x
  have hxs : x.Pairwise (· ≤ ·) := hx ▸ sortInts_sorted args
  have hxm : ∀ y, y ∈ x ↔ y ∈ args := fun y => hx ▸ mem_sortInts args y
  obtain ⟨seen2, hph, hcnt⟩ := add_phases s hs x
  simp only
  rw [hph]
  simp only
  set pairs := x.zip (specInd s none x) with hpairs
  obtain ⟨hwf, _, hmem, hss, hlt⟩ := spec_claims s hs x none hxs (by intro p hp; cases hp)
  have hlen : ((s.length : Int) + (x.length : Int) - seen2) = ((s.length + mKept pairs : Nat) : Int) := by
    push_cast; omega
  have hoff : ((x.length : Int) - seen2) = ((mKept pairs.reverse + mKept ([] : List (Int × Int)) : Nat) : Int) := by
    rw [mKept_reverse]; simp only [mKept]; push_cast; omega
  rw [hlen, hoff]
  have hnn : ¬ (((s.length + mKept pairs : Nat) : Int) < 0) := by omega
  rw [if_neg hnn]
  have hm := addMerge_spec s pairs.reverse [] (List.replicate (s.length + mKept pairs) 0)
    (by simpa using hwf) (by simp [mNext, mKept_reverse])
  obtain ⟨T', hrun, hT'⟩ := hm
  simp only [mR, List.append_nil, mKept, mNext, List.reverse_reverse, Int.toNat_natCast] at hrun
  simp only [Nat.cast_zero] at hrun
  simp only [List.reverse_reverse, List.append_nil] at hT'
  simp only [mKept, Int.toNat_natCast]
  rw [hrun]
  simp only
  have hN := mNext_le s pairs hwf
  set N := mNext s pairs with hNdef
  have hNn : N = ((N.toNat : Nat) : Int) := by omega
  rw [hNn, sliceI_zero_nat s N.toNat (by omega)]
  simp only
  have hT'n : T'.length = N.toNat := by omega
  have hcopy : copyI (T' ++ mR s pairs) 0 (N.toNat : Int) (s.take N.toNat) = some (s.take N.toNat ++ mR s pairs) := by
    have e0 : (0 : Int) = ((0 : Nat) : Int) := rfl
    rw [e0, copyI_nat _ 0 N.toNat _ (by omega) (by simp; omega)]
    have : min (N.toNat - 0) (s.take N.toNat).length = N.toNat := by simp; omega
    rw [this]
    simp only [List.take_zero, List.nil_append, Nat.zero_add]
    rw [List.take_of_length_le (by simp), ← hT'n, List.drop_left]
  rw [hcopy]
  refine ⟨_, rfl, ?_, ?_⟩
  · rw [SS, List.pairwise_append]
    refine ⟨List.Pairwise.sublist (List.take_sublist _ _) hs, hss, ?_⟩
    intro a ha b hb
    exact hlt b hb a ha
  · intro y
    rw [List.mem_append, hmem y, ← hxm y]
    have hsplit : y ∈ s ↔ (y ∈ s.take N.toNat ∨ y ∈ s.drop N.toNat) := by
      conv_lhs => rw [← List.take_append_drop N.toNat s]
      exact List.mem_append
    constructor
    · rintro (h | h | ⟨h1, _, _⟩)
      · exact Or.inl (hsplit.mpr (Or.inl h))
      · exact Or.inl (hsplit.mpr (Or.inr h))
      · exact Or.inr h1
    · rintro (h | h)
      · rcases hsplit.mp h with h' | h'
        · exact Or.inl h'
        · exact Or.inr (Or.inl h')
      · by_cases hys : y ∈ s
        · rcases hsplit.mp hys with h' | h'
          · exact Or.inl h'
          · exact Or.inr (Or.inl h')
        · exact Or.inr (Or.inr ⟨h, hys, by simp⟩)

end SortInts
