import Mamba.Lemmas.ExactLoop
namespace Search
open Disjoint GSearch

theorem testBit_or_shift (vb i v : Nat) : (vb ||| (1 <<< i)).testBit v = (vb.testBit v || decide (v = i)) := by
  rw [Nat.testBit_or, Nat.testBit_shiftLeft]
  by_cases h : v = i
  · subst h; simp
  · have : (decide (v ≥ i) && (1 : Nat).testBit (v - i)) = false := by
      by_cases hge : v ≥ i
      · have hne : v - i ≠ 0 := by omega
        have : (1 : Nat).testBit (v - i) = false := by
          cases hb : (1 : Nat).testBit (v - i)
          · rfl
          · exact absurd (Nat.testBit_one_eq_true_iff_self_eq_zero.1 hb) hne
        simp [this]
      · simp [hge]
    simp [this, h]

/-- first loop of `isCanonical` -/
theorem degreeScan_spec (degs : Array Int) (degree : Int) :
    ∀ (l : List Nat) (vb : Nat) (r : Option Nat), degreeScan degs degree l vb = .ok r →
      (r = none → ∃ i ∈ l, ∃ d, degs[i]? = some d ∧ d < degree) ∧
      (∀ vb', r = some vb' → (∀ i ∈ l, ∃ d, degs[i]? = some d ∧ degree ≤ d) ∧
        ∀ v, vb'.testBit v = (vb.testBit v || decide (v ∈ l ∧ degs[v]? = some degree)))
  | [], vb, r, h => by
    simp only [degreeScan, Outcome.ok.injEq] at h
    subst h
    simp
  | i :: is, vb, r, h => by
    simp only [degreeScan] at h
    split at h
    · cases h
    · rename_i d hd
      split at h
      · rename_i hlt
        simp only [Outcome.ok.injEq] at h
        subst h
        exact ⟨fun _ => ⟨i, List.mem_cons_self, d, hd, hlt⟩, fun vb' h => by cases h⟩
      · rename_i hge
        split at h
        · rename_i heq
          obtain ⟨h1, h2⟩ := degreeScan_spec degs degree is _ r h
          refine ⟨fun hr => ?_, fun vb' hr => ?_⟩
          · obtain ⟨j, hj, hh⟩ := h1 hr
            exact ⟨j, List.mem_cons_of_mem _ hj, hh⟩
          · obtain ⟨h3, h4⟩ := h2 vb' hr
            refine ⟨?_, ?_⟩
            · intro j hj
              rcases List.mem_cons.1 hj with rfl | hj
              · exact ⟨d, hd, by omega⟩
              · exact h3 j hj
            · intro v
              rw [h4 v, testBit_or_shift]
              by_cases hv : v = i
              · subst hv
                simp [hd, heq]
              · simp [hv]
        · rename_i hne
          obtain ⟨h1, h2⟩ := degreeScan_spec degs degree is vb r h
          refine ⟨fun hr => ?_, fun vb' hr => ?_⟩
          · obtain ⟨j, hj, hh⟩ := h1 hr
            exact ⟨j, List.mem_cons_of_mem _ hj, hh⟩
          · obtain ⟨h3, h4⟩ := h2 vb' hr
            refine ⟨?_, ?_⟩
            · intro j hj
              rcases List.mem_cons.1 hj with rfl | hj
              · exact ⟨d, hd, by omega⟩
              · exact h3 j hj
            · intro v
              rw [h4 v]
              by_cases hv : v = i
              · subst hv
                have : ¬ (degs[v]? = some degree) := by rw [hd]; intro h; exact hne (Option.some.inj h)
                simp [this]
              · simp [hv]

end Search
