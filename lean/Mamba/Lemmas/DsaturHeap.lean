import Mamba.Model.DsaturGo
import Mamba.Lemmas.CliqueColourGreedy
import Mathlib.Data.List.Perm.Basic
import Mathlib.Data.List.Count
/-! The `container/heap` operations of the DSATUR model: permutations (`heap_perm`) and the heap order invariant. -/
namespace CliqueColour
open GraphSpec

/-! ### swapping two entries -/

theorem getD_eq_getElem {l : List Nat} {i : Nat} (hi : i < l.length) : l.getD i 0 = l[i] := by
  simp [List.getD_eq_getElem?_getD, List.getElem?_eq_getElem hi]

theorem swapAt_length (l : List Nat) (i j : Nat) : (swapAt l i j).length = l.length := by simp [swapAt]

theorem swapAt_getD {l : List Nat} {i j : Nat} (hi : i < l.length) (hj : j < l.length) (k : Nat) :
    (swapAt l i j).getD k 0 = if k = j then l.getD i 0 else if k = i then l.getD j 0 else l.getD k 0 := by
  unfold swapAt
  rw [getD_set, getD_set]
  by_cases hkj : k = j
  · subst hkj; rw [if_pos ⟨rfl, by simpa using hj⟩, if_pos rfl]
  · rw [if_neg (fun h => hkj h.1.symm), if_neg hkj]
    by_cases hki : k = i
    · subst hki; rw [if_pos ⟨rfl, hi⟩, if_pos rfl]
    · rw [if_neg (fun h => hki h.1.symm), if_neg hki]

theorem swapAt_perm {l : List Nat} {i j : Nat} (hi : i < l.length) (hj : j < l.length) : (swapAt l i j).Perm l := by
  have hform : swapAt l i j = (l.set i l[j]).set j l[i] := by
    unfold swapAt; rw [getD_eq_getElem hi, getD_eq_getElem hj]
  rw [hform, List.perm_iff_count]
  intro a
  have hj' : j < (l.set i l[j]).length := by simpa using hj
  rw [List.count_set hj', List.count_set hi]
  have hci : l[i] = a → 0 < l.count a := fun h => List.count_pos_iff.2 (h ▸ List.getElem_mem hi)
  have hcj : l[j] = a → 0 < l.count a := fun h => List.count_pos_iff.2 (h ▸ List.getElem_mem hj)
  by_cases hij : i = j
  · subst hij
    simp only [List.getElem_set_self]
    by_cases h : l[i] = a
    · have := hci h; simp [h]; omega
    · simp [h]
  · rw [List.getElem_set_ne hij]
    by_cases h1 : l[i] = a <;> by_cases h2 : l[j] = a
    · have := hci h1; simp [h1, h2]; omega
    · have := hci h1; simp [h1, h2]; omega
    · have := hcj h2; simp [h1, h2]
    · simp [h1, h2]

/-! ### the priority order of `uncolouredHeap.Less` -/

/-- `a` comes strictly before `b`: more seen colours, or as many and a larger degree -/
def lessV (num : List Int) (deg : List Nat) (a b : Nat) : Prop :=
  num.getD a 0 > num.getD b 0 ∨ (num.getD a 0 = num.getD b 0 ∧ deg.getD a 0 > deg.getD b 0)

theorem dsLess_iff (num : List Int) (deg : List Nat) (h : List Nat) (i j : Nat) :
    dsLess num deg h i j = true ↔ lessV num deg (h.getD i 0) (h.getD j 0) := by
  unfold dsLess lessV
  simp only
  generalize num.getD (h.getD i 0) 0 = x
  generalize num.getD (h.getD j 0) 0 = y
  generalize deg.getD (h.getD i 0) 0 = p
  generalize deg.getD (h.getD j 0) 0 = q
  by_cases hne : x = y
  · subst hne; simp
  · have hb : (x != y) = true := by simpa using hne
    rw [hb]
    simp only [if_true, decide_eq_true_eq]
    constructor
    · exact Or.inl
    · rintro (h1 | h1)
      · exact h1
      · exact absurd h1.1 hne

/-- `a` may be the parent of `b` -/
def leV (num : List Int) (deg : List Nat) (a b : Nat) : Prop := ¬ lessV num deg b a

theorem leV_trans {num : List Int} {deg : List Nat} {a b c : Nat} (h1 : leV num deg a b) (h2 : leV num deg b c) :
    leV num deg a c := by
  unfold leV lessV at *; omega

theorem leV_of_lessV {num : List Int} {deg : List Nat} {a b : Nat} (h : lessV num deg a b) : leV num deg a b := by
  unfold leV lessV at *; omega

theorem leV_total (num : List Int) (deg : List Nat) (a b : Nat) : leV num deg a b ∨ leV num deg b a := by
  unfold leV lessV; omega

/-- the edge from the parent of position `e` to `e` respects the order -/
def EdgeOK (num : List Int) (deg : List Nat) (h : List Nat) (e : Nat) : Prop :=
  leV num deg (h.getD ((e - 1) / 2) 0) (h.getD e 0)

/-! ### `up` -/

theorem heapUp_spec (num : List Int) (deg : List Nat) : ∀ (fuel : Nat) (h : List Nat) (j : Nat),
    j < h.length → j + 1 ≤ fuel →
    (∀ e, 0 < e → e < h.length → e ≠ j → EdgeOK num deg h e) →
    (∀ c, 0 < c → c < h.length → (c - 1) / 2 = j → 0 < j → leV num deg (h.getD ((j - 1) / 2) 0) (h.getD c 0)) →
    (heapUp num deg fuel h j).Perm h ∧
      (∀ e, 0 < e → e < h.length → EdgeOK num deg (heapUp num deg fuel h j) e) ∧
      (∀ k, j < k → (heapUp num deg fuel h j).getD k 0 = h.getD k 0) := by
  intro fuel
  induction fuel with
  | zero => intro h j _ hf; omega
  | succ fuel ih =>
    intro h j hj hf hedges hgrand
    simp only [heapUp]
    by_cases hstop : ((j - 1) / 2 == j || !dsLess num deg h j ((j - 1) / 2)) = true
    · rw [if_pos hstop]
      refine ⟨List.Perm.refl _, fun e he0 hel => ?_, fun k _ => rfl⟩
      by_cases hej : e = j
      · subst hej
        simp only [Bool.or_eq_true, beq_iff_eq, Bool.not_eq_true'] at hstop
        rcases hstop with h0 | hl
        · omega
        · unfold EdgeOK leV
          rw [← dsLess_iff]; simp [hl]
      · exact hedges e he0 hel hej
    · rw [if_neg hstop]
      simp only [Bool.or_eq_true, beq_iff_eq, Bool.not_eq_true', not_or, Bool.not_eq_false] at hstop
      obtain ⟨hne, hless⟩ := hstop
      have hj0 : 0 < j := by omega
      have hi : (j - 1) / 2 < h.length := by omega
      have hlt : (j - 1) / 2 < j := by omega
      have hl := (dsLess_iff num deg h j ((j - 1) / 2)).1 hless
      have hA := swapAt_getD hi hj
      obtain ⟨hp, hok, hun⟩ := ih (swapAt h ((j - 1) / 2) j) ((j - 1) / 2) (by rw [swapAt_length]; exact hi)
        (by omega)
        (by
          intro e he0 hel hei
          rw [swapAt_length] at hel
          unfold EdgeOK
          rw [hA, hA]
          by_cases hej : e = j
          · subst hej
            rw [if_pos rfl, if_neg (by omega), if_pos rfl]
            exact leV_of_lessV hl
          · rw [if_neg hej, if_neg hei]
            by_cases hpj : (e - 1) / 2 = j
            · rw [if_pos hpj]
              have := hgrand e he0 hel hpj hj0
              exact this
            · rw [if_neg hpj]
              by_cases hpi : (e - 1) / 2 = (j - 1) / 2
              · rw [if_pos hpi]
                have h1 := hedges e he0 hel hej
                unfold EdgeOK at h1
                rw [hpi] at h1
                exact leV_trans (leV_of_lessV hl) h1
              · rw [if_neg hpi]
                exact hedges e he0 hel hej)
        (by
          intro c hc0 hcl hpc hi0
          rw [swapAt_length] at hcl
          rw [hA, hA]
          have hpp : ((j - 1) / 2 - 1) / 2 ≠ j := by omega
          have hpp' : ((j - 1) / 2 - 1) / 2 ≠ (j - 1) / 2 := by omega
          rw [if_neg hpp, if_neg hpp']
          have hedge_i := hedges ((j - 1) / 2) hi0 hi (by omega)
          unfold EdgeOK at hedge_i
          by_cases hcj : c = j
          · rw [if_pos hcj]; exact hedge_i
          · rw [if_neg hcj, if_neg (by omega)]
            have h1 := hedges c hc0 hcl hcj
            unfold EdgeOK at h1
            rw [hpc] at h1
            exact leV_trans hedge_i h1)
      refine ⟨hp.trans (swapAt_perm hi hj), fun e he0 hel => hok e he0 (by rw [swapAt_length]; exact hel),
        fun k hk => ?_⟩
      rw [hun k (by omega), hA, if_neg (by omega), if_neg (by omega)]

/-! ### `down` -/

theorem leV_refl (num : List Int) (deg : List Nat) (a : Nat) : leV num deg a a := by
  unfold leV lessV; omega

theorem heapDown_spec (num : List Int) (deg : List Nat) (m lo : Nat) : ∀ (fuel : Nat) (h : List Nat) (i : Nat),
    m ≤ h.length → m ≤ i + fuel → lo ≤ i →
    (∀ e, 0 < e → e < m → lo ≤ (e - 1) / 2 → (e - 1) / 2 ≠ i → EdgeOK num deg h e) →
    (∀ c, 0 < c → c < m → (c - 1) / 2 = i → 0 < i → lo ≤ (i - 1) / 2 →
      leV num deg (h.getD ((i - 1) / 2) 0) (h.getD c 0)) →
    (heapDown num deg m fuel h i).1.Perm h ∧
      (∀ e, 0 < e → e < m → lo ≤ (e - 1) / 2 → EdgeOK num deg (heapDown num deg m fuel h i).1 e) ∧
      (∀ k, (k < i ∨ m ≤ k) → (heapDown num deg m fuel h i).1.getD k 0 = h.getD k 0) := by
  intro fuel
  induction fuel with
  | zero =>
    intro h i hm hf hlo hedges _
    refine ⟨List.Perm.refl _, fun e he0 hem hle => hedges e he0 hem hle (by omega), fun k _ => rfl⟩
  | succ fuel ih =>
    intro h i hm hf hlo hedges hgrand
    simp only [heapDown]
    by_cases hleaf : 2 * i + 1 ≥ m
    · rw [if_pos hleaf]
      exact ⟨List.Perm.refl _, fun e he0 hem hle => hedges e he0 hem hle (by omega), fun k _ => rfl⟩
    · rw [if_neg hleaf]
      -- the smaller child
      generalize hjdef : (if (2 * i + 1 + 1 < m && dsLess num deg h (2 * i + 1 + 1) (2 * i + 1)) = true
        then 2 * i + 1 + 1 else 2 * i + 1) = j
      have hjfacts : (j = 2 * i + 1 ∨ j = 2 * i + 2) ∧ j < m ∧
          ∀ s, s < m → (s = 2 * i + 1 ∨ s = 2 * i + 2) → leV num deg (h.getD j 0) (h.getD s 0) := by
        by_cases hc : (2 * i + 1 + 1 < m && dsLess num deg h (2 * i + 1 + 1) (2 * i + 1)) = true
        · rw [if_pos hc] at hjdef
          simp only [Bool.and_eq_true, decide_eq_true_eq] at hc
          subst hjdef
          refine ⟨Or.inr rfl, hc.1, fun s hs hss => ?_⟩
          rcases hss with rfl | rfl
          · exact leV_of_lessV ((dsLess_iff _ _ _ _ _).1 hc.2)
          · exact leV_refl _ _ _
        · rw [if_neg hc] at hjdef
          subst hjdef
          refine ⟨Or.inl rfl, by omega, fun s hs hss => ?_⟩
          rcases hss with rfl | rfl
          · exact leV_refl _ _ _
          · have : ¬ dsLess num deg h (2 * i + 1 + 1) (2 * i + 1) = true := by
              intro hd
              apply hc
              simp only [Bool.and_eq_true, decide_eq_true_eq]
              exact ⟨hs, hd⟩
            unfold leV
            rw [← dsLess_iff]; exact this
      obtain ⟨hjc, hjm, hjmin⟩ := hjfacts
      have hpj : (j - 1) / 2 = i := by omega
      by_cases hstop : (!dsLess num deg h j i) = true
      · rw [if_pos hstop]
        refine ⟨List.Perm.refl _, fun e he0 hem hle => ?_, fun k _ => rfl⟩
        by_cases hpe : (e - 1) / 2 = i
        · have hij : leV num deg (h.getD i 0) (h.getD j 0) := by
            unfold leV
            rw [← dsLess_iff]; simpa using hstop
          unfold EdgeOK
          rw [hpe]
          exact leV_trans hij (hjmin e hem (by omega))
        · exact hedges e he0 hem hle hpe
      · rw [if_neg hstop]
        have hless : lessV num deg (h.getD j 0) (h.getD i 0) := by
          rw [← dsLess_iff]; simpa using hstop
        have hi : i < h.length := by omega
        have hj : j < h.length := by omega
        have hA := swapAt_getD hi hj
        obtain ⟨hp, hok, hun⟩ := ih (swapAt h i j) j (by rw [swapAt_length]; exact hm) (by omega) (by omega)
          (by
            intro e he0 hem hle hpe
            unfold EdgeOK
            rw [hA, hA]
            by_cases hej : e = j
            · subst hej
              rw [if_pos rfl, if_neg (by omega), if_pos hpj]
              exact leV_of_lessV hless
            · rw [if_neg hej, if_neg hpe]
              by_cases hei : e = i
              · subst hei
                rw [if_pos rfl, if_neg (by omega)]
                exact hgrand j (by omega) hjm hpj he0 hle
              · rw [if_neg hei]
                by_cases hpi : (e - 1) / 2 = i
                · rw [if_pos hpi]
                  exact hjmin e hem (by omega)
                · rw [if_neg hpi]
                  exact hedges e he0 hem hle hpi)
          (by
            intro c hc0 hcm hpc hj0 _
            rw [hA, hA, hpj, if_neg (by omega), if_pos rfl, if_neg (by omega), if_neg (by omega)]
            have := hedges c hc0 hcm (by omega) (by omega)
            unfold EdgeOK at this
            rw [hpc] at this
            exact this)
        refine ⟨hp.trans (swapAt_perm hi hj), hok, fun k hk => ?_⟩
        rw [hun k (by omega), hA, if_neg (by omega), if_neg (by omega)]

theorem heapDown_noop (num : List Int) (deg : List Nat) (m : Nat) (fuel : Nat) (h : List Nat) (i : Nat)
    (hc : ∀ c, c < m → (c = 2 * i + 1 ∨ c = 2 * i + 2) → leV num deg (h.getD i 0) (h.getD c 0)) :
    heapDown num deg m fuel h i = (h, i) := by
  cases fuel with
  | zero => rfl
  | succ fuel =>
    simp only [heapDown]
    by_cases hleaf : 2 * i + 1 ≥ m
    · rw [if_pos hleaf]
    · rw [if_neg hleaf]
      have : ∀ j, j < m → (j = 2 * i + 1 ∨ j = 2 * i + 2) → (!dsLess num deg h j i) = true := by
        intro j hj hjj
        have := hc j hj hjj
        unfold leV at this
        rw [← dsLess_iff] at this
        simpa using this
      by_cases hcnd : (2 * i + 1 + 1 < m && dsLess num deg h (2 * i + 1 + 1) (2 * i + 1)) = true
      · rw [if_pos hcnd]
        simp only [Bool.and_eq_true, decide_eq_true_eq] at hcnd
        rw [if_pos (this _ hcnd.1 (Or.inr rfl))]
      · rw [if_neg hcnd, if_pos (this _ (by omega) (Or.inl rfl))]

end CliqueColour
