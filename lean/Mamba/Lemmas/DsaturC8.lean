import Mamba.Lemmas.DsaturC7
/-! DSATUR model: `ChromaticNumber` and `IsKColorable` are exact. -/
namespace CliqueColour
open GraphSpec

theorem chromaticNumberSpec_props {g : G} (hw : g.WF) :
    Colourable g (chromaticNumberSpec g) ∧ (∀ k, k < chromaticNumberSpec g → ¬ Colourable g k) ∧
      chromaticNumberSpec g ≤ g.n := by
  have h := leastFrom_spec (colourableB g) g.n 0 (by
    rw [Nat.zero_add]; exact (colourableB_iff hw _).2 (colourable_n hw))
  refine ⟨(colourableB_iff hw _).1 h.1, fun k hk hc => ?_, by simpa [chromaticNumberSpec] using h.2.2.1⟩
  have := h.2.2.2 k (Nat.zero_le _) hk
  rw [(colourableB_iff hw k).2 hc] at this
  cases this

theorem bestOK_nil {g : G} (hn : g.n = 0) : BestOK g [] 0 :=
  ⟨by simp [hn], fun v hv => by omega, fun u v hu => by omega, fun c hc => by omega⟩

theorem chromaticNumberGo_spec {g : G} (hw : g.WF) :
    ∃ c, chromaticNumberGo g = .ok ((chromaticNumberSpec g : Int), some c) ∧
      BestOK g c (chromaticNumberSpec g : Int) := by
  obtain ⟨hchi, hleast, hle⟩ := chromaticNumberSpec_props hw
  unfold chromaticNumberGo
  rw [cliqueNumberGo_spec hw]
  simp only
  by_cases hn : g.n = 0
  · have hchi0 : chromaticNumberSpec g = 0 := by omega
    refine ⟨[], ?_, by rw [hchi0]; exact bestOK_nil hn⟩
    simp [dfsDsatur, hn, hchi0]
  · obtain ⟨k, c, he, hfin⟩ := dfsDsatur_spec hw (Nat.pos_of_ne_zero hn) (cliqueNumberSpec g : Int)
      (upper0 := (g.n : Int) + 1) (by omega)
    rw [he]
    rcases hfin with ⟨_, _, hno⟩ | ⟨best, hc, hbo, hlt, hopt⟩
    · exfalso
      apply hno
      rw [good_iff_colourable (by omega)]
      exact (colourable_n hw).mono (by omega)
    · have hk1 : 1 ≤ k := by have := hbo.2.1 0 (Nat.pos_of_ne_zero hn); omega
      have hcol := bestOK_colourable hbo
      have hge : chromaticNumberSpec g ≤ k.toNat := by
        by_contra hlt'
        exact hleast _ (by omega) hcol
      have hkeq : k = (chromaticNumberSpec g : Int) := by
        rcases hopt with hkl | hno
        · have := clique_le_chromatic hw
          omega
        · rw [good_iff_colourable hk1] at hno
          have : ¬ ((k - 1).toNat ≥ chromaticNumberSpec g) := fun hh => hno (hchi.mono hh)
          omega
      subst hc
      refine ⟨best, by rw [hkeq], by rw [← hkeq]; exact hbo⟩

theorem isKColorableGo_spec {g : G} (hw : g.WF) (k : Nat) :
    (chromaticNumberSpec g ≤ k → ∃ c k', isKColorableGo g (k : Int) = .ok (true, some c) ∧ BestOK g c k' ∧
      k' ≤ (k : Int)) ∧
    (k < chromaticNumberSpec g → isKColorableGo g (k : Int) = .ok (false, none)) := by
  obtain ⟨hchi, hleast, hle⟩ := chromaticNumberSpec_props hw
  unfold isKColorableGo
  by_cases hn : g.n = 0
  · have hchi0 : chromaticNumberSpec g = 0 := by omega
    have he : dfsDsatur g (k : Int) (k : Int) = .ok (0, some []) := by simp [dfsDsatur, hn]
    rw [he]
    refine ⟨fun _ => ⟨[], 0, by simp, bestOK_nil hn, by omega⟩, fun h => by omega⟩
  · obtain ⟨k', c, he, hfin⟩ := dfsDsatur_spec hw (Nat.pos_of_ne_zero hn) (k : Int) (upper0 := (k : Int)) (by omega)
    rw [he]
    rcases hfin with ⟨hc, hk', hno⟩ | ⟨best, hc, hbo, hlt, _⟩
    · rw [good_iff_colourable (by omega)] at hno
      have hnk : ¬ Colourable g k := by
        intro h; apply hno
        exact h.mono (by omega)
      have hklt : k < chromaticNumberSpec g := by
        by_contra hge
        exact hnk (hchi.mono (by omega))
      subst hc; subst hk'
      exact ⟨fun h => by omega, fun _ => by simp⟩
    · have hk1 : 1 ≤ k' := by have := hbo.2.1 0 (Nat.pos_of_ne_zero hn); omega
      have hcol := bestOK_colourable hbo
      have hge : chromaticNumberSpec g ≤ k'.toNat := by
        by_contra hlt'
        exact hleast _ (by omega) hcol
      subst hc
      have hne : (k' == -1) = false := by
        rw [beq_eq_false_iff_ne]; omega
      simp only [hne, Bool.false_eq_true, if_false]
      exact ⟨fun _ => ⟨best, k', rfl, hbo, by omega⟩, fun h => by omega⟩

end CliqueColour
