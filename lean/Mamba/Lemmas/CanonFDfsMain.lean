import Mamba.Lemmas.CanonFDfsSplit
import Mamba.Lemmas.CanonFDfsInner
import Mamba.Lemmas.CanonFDfsLeafFirst
import Mamba.Lemmas.CanonFDfsLeafAccept
import Mamba.Lemmas.CanonFDfsLeafOther
import Mamba.Lemmas.CanonFDfsLeafEqFirst
import Mamba.Lemmas.CanonFAllocJ
import Mamba.Lemmas.CanonFTreeFinal
import Mamba.Lemmas.CanonFInduced
import Mamba.Lemmas.CanonFDfsLeafEqBest
/-!
# The pruned search returns the canonical certificate (faithful model `Model/CanonF.lean` = IR model `Model/IR.lean`)

Assembly of the complete DFS invariant (`CanonFDfs.lean`) as a `MainJX` instance on top of the certificate invariants
(`certMainJ`), its initial state, and the final theorems `canonF_complete_full` (with vertex classes),
`canonF_eq_IR_canon_full`, `canonF_canon_invariant_full`.
-/
namespace CanonF


section
variable {n m : Nat} {nb : Nbrs} {rf : Nat} {r : IR.St}

theorem dfs_na (lv : List (Nat × Nat)) (s : LS) (h : DN n nb rf r lv s) : DA n nb rf r lv s := by
  obtain ⟨gh, hw, hG, hcov, haux⟩ := h
  refine ⟨gh, hw.toA, hG, hcov, haux, fun hp => ?_⟩
  have := hw.2.2.1
  rw [hp] at this
  simp at this

theorem dfs_deage (lv : List (Nat × Nat)) (s : LS) (op' : OP) (k : Nat) (hc : Core n s)
    (ht : TopOK s.op k s.path s.choices lv) (hage : s.op.age = s.path.length) (h : DA n nb rf r lv s)
    (hd : deage s.op = .ok op') : DN n nb rf r lv { s with op := op' } := by
  obtain ⟨gh, hw, hG, hcov, haux, _⟩ := h
  refine ⟨gh, walk_deage lv s op' k hc ht hage hw hd, ?_, ?_, ?_⟩
  · exact skip_globalInv_congr (s := s) (s' := { s with op := op' }) hG rfl rfl rfl rfl rfl rfl rfl rfl rfl rfl
  · exact CovFrames.congr (s := s) (s' := { s with op := op' }) rfl (fun _ => rfl) rfl true _ _ _ (fun _ _ => rfl) hcov
  · exact FrameAux.congr (s := s) (s' := { s with op := op' }) rfl rfl rfl rfl true _ _ _ (fun _ _ => rfl) haux

theorem dfs_noskip (lv : List (Nat × Nat)) (s : LS) (h : DN n nb rf r lv s) :
    DN n nb rf r lv { s with skipDeage := false } := by
  obtain ⟨gh, hw, hG, hcov, haux⟩ := h
  refine ⟨gh, hw, ?_, ?_, ?_⟩
  · exact skip_globalInv_congr (s := s) (s' := { s with skipDeage := false }) hG rfl rfl rfl rfl rfl rfl rfl rfl rfl rfl
  · exact CovFrames.congr (s := s) (s' := { s with skipDeage := false }) rfl (fun _ => rfl) rfl true _ _ _
      (fun _ _ => rfl) hcov
  · exact FrameAux.congr (s := s) (s' := { s with skipDeage := false }) rfl rfl rfl rfl true _ _ _ (fun _ _ => rfl) haux

end

section
variable {n m : Nat} {nb : Nbrs} {rf : Nat} {r : IR.St}
  (hnb : NbOK nb n) (hsz : nb.size = n) (hm : m = ((nb.toList.map List.length).sum) / 2) (hrf : 3 * n + 3 ≤ rf)
  (hA : IR.InvA (irG n nb) r) (hD : IR.InvD (irG n nb) r)
  (hlenm : ∀ o : List Nat, o.Perm (List.range n) → (certPos nb o n).length = m)

include hnb hA hD hlenm in
/-- the node step of the main loop (leaf with its five cases / inner node / nothing after a worse refinement) -/
theorem dfs_node (lv : List (Nat × Nat)) (worse : Bool) (s s1 : LS) (lv1 : List (Nat × Nat)) (hI : MInv n m nb s)
    (hlv : LevelsOK s.op s.path s.choices lv) (hJ : CertM n m nb lv worse s) (hX : DM n nb rf r lv worse s)
    (hs1 : (if (!worse && s.op.binDividers.len == n) = true then leafNode n m s
      else if (!worse) = true then innerNode s else Outcome.ok s) = .ok s1)
    (hl1 : LevelsOK s1.op s1.path s1.choices lv1) (hJ1 : CertA n m nb lv1 s1) :
    DA n nb rf r lv1 s1 ∧ (s1.skipDeage = true → DN n nb rf r lv1 s1) := by
  by_cases hleaf : (!worse && s.op.binDividers.len == n) = true
  · rw [if_pos hleaf] at hs1
    simp only [Bool.and_eq_true, Bool.not_eq_true', beq_iff_eq] at hleaf
    obtain ⟨hwf, hleaf⟩ := hleaf
    subst hwf
    obtain ⟨gh, hX⟩ : ∃ gh, DNodev n nb rf r gh lv s := by simpa [DM] using hX
    obtain ⟨_, _, _, _, hsk, _⟩ := leafNode_spec hI.core hlv hI.age hs1
    have hJ1' : CertA n m nb lv s1 := hJ1
    have key : ∃ lv1', LevelsOK s1.op s1.path s1.choices lv1' ∧ DA n nb rf r lv1' s1 := by
      by_cases hcnt : s.count = 0
      · exact dfs_leaf_first hnb hA hD hlenm lv s s1 gh hI hlv hleaf hJ hX hs1 hJ1' hcnt
      · have hpos : 0 < s.count := Nat.pos_of_ne_zero hcnt
        by_cases hcmp : CanonF.compare s.op.value.toList s.currentBest.toList = 1
        · exact dfs_leaf_accept hnb hA hD hlenm lv s s1 gh hI hlv hleaf hJ hX hs1 hJ1' hpos hcmp
        · have hc1 : (CanonF.compare s.op.value.toList s.currentBest.toList == 1 || s.count + 1 == 1) = false := by
            simp only [Bool.or_eq_false_iff, beq_eq_false_iff_ne, ne_eq]
            exact ⟨hcmp, by omega⟩
          cases hc0 : (CanonF.compare s.op.value.toList s.currentBest.toList == 0) with
          | true => exact dfs_leaf_eqbest hnb hA hD lv s s1 gh hI hlv hleaf hJ hX hs1 hJ1' hc1 hc0
          | false =>
            cases hcf : (CanonF.compare s.op.value.toList s.firstLeaf.toList == 0) with
            | true => exact dfs_leaf_eqfirst hnb hA hD lv s s1 gh hI hlv hleaf hJ hX hs1 hJ1' hc1 hc0 hcf
            | false => exact dfs_leaf_other hnb lv s s1 gh hI hlv hleaf hJ hX hs1 hJ1' hc1 hc0 hcf
    obtain ⟨lv1', hl', hda⟩ := key
    have := LevelsOK_unique _ _ _ _ hl' hl1
    subst this
    exact ⟨hda, fun hc => by rw [hsk, hI.skip] at hc; cases hc⟩
  · rw [if_neg hleaf] at hs1
    by_cases hnw : (!worse) = true
    · rw [if_pos hnw] at hs1
      have hwf : worse = false := by simpa using hnw
      subst hwf
      have hnl : s.op.binDividers.len ≠ n := by
        intro e; apply hleaf; simp [e]
      have hX' : ∃ gh, DNodev n nb rf r gh lv s := by simpa [DM] using hX
      have hdn := dfs_inner lv s s1 hI hlv hnl hJ hX' hs1 lv1 hl1
      exact ⟨dfs_na lv1 s1 hdn, fun _ => hdn⟩
    · rw [if_neg hnw] at hs1
      cases hs1
      have hwt : worse = true := by simpa using hnw
      subst hwt
      have hX' : DA n nb rf r lv s := by simpa [DM] using hX
      have := LevelsOK_unique _ _ _ _ hlv hl1
      subst this
      exact ⟨hX', fun hc => by rw [hI.skip] at hc; cases hc⟩

include hnb hsz hm hrf hA hD hlenm in
/-- the complete DFS invariant is carried by the main loop (on top of the certificate invariants) -/
theorem dfsMainJX :
    MainJX n m nb (CertA n m nb) (CertN n m nb) (CertN n m nb) (CertM n m nb)
      (DA n nb rf r) (DN n nb rf r) (DS n nb rf r) (DM n nb rf r) where
  na := fun lv s _ h => dfs_na lv s h
  deage := fun lv s op' k hc ht _ hage _ h hd => dfs_deage lv s op' k hc ht hage h hd
  noskip := fun lv s _ _ h => dfs_noskip lv s h
  skipA := fun st sz ls s c cs p ps ce x k hc ht hsk hage hch hpth hget hon hx hx0 hJ h =>
    dfs_skipA st sz ls s c cs p ps ce x k hc ht hsk hage hch hpth hget hon hx hx0 hJ h
  skipB := fun st sz ls s c cs p ps ce bo k hc ht hsk hage hch hpth hget hon hh hJ h =>
    dfs_skipB hnb st sz ls s c cs p ps ce bo k hc ht hsk hage hch hpth hget hon hh hJ h
  split := fun st sz ls s c cs p ps ce bo w op' k hc ht hsk hage hch hpth hget hh _ _ hs hJ h => by
    obtain ⟨q1, q2⟩ := dfs_split hnb hsz hm hrf hA hD st sz ls s c cs p ps ce bo w op' k hc ht hsk hage hch hpth hget hh
      hs hJ h
    exact ⟨fun hw _ => q1 hw, fun hw _ => q2 hw⟩
  pop := fun st sz ls s hc ht hsk hage hJ h => dfs_pop hnb st sz ls s hc ht hsk hage hJ h
  node := fun lv worse s s1 lv1 hI _ hlv hJ hX hs1 hl1 hJ1 _ =>
    dfs_node hnb hA hD hlenm lv worse s s1 lv1 hI hlv hJ hX hs1 hl1 hJ1
  refine := fun lv s w op' sc' hc hl hage hsk htl hJ h hr _ =>
    dfs_refine hnb hsz hm hrf hA hD lv s w op' sc' _ hc hl hage hsk htl hJ h hr

end

/-- the complete DFS invariant (and the certificate invariants) hold when the main loop is entered -/
theorem dfs_init {n m : Nat} {nb : Nbrs} {rf : Nat} (hnb : NbOK nb n) (hrf : 3 * n + 3 ≤ rf) {opts : Options}
    {op0 : OP} {s0 : LS} {si : IR.St} (hp : PartInv n op0) (ha : AgeInv op0) (hm0 : Match n op0 si) (hb0 : BtcInv op0)
    (hbs : BinsSorted op0) (hage0 : op0.age = 0) (hi : InitSt n m nb opts op0 s0) :
    CertM n m nb [] false s0 ∧ DM n nb rf (IR.refine (irG n nb) rf si) [] false s0 := by
  obtain ⟨hI, hC, hcnt, hng, hpth, hch, hbl, hfl, sc, op1, sc1, w2, hsc, htl, href, hexp⟩ := hi
  refine ⟨⟨hC.g, hC.va, hC.vn, ⟨hI.phase1, hI.found⟩⟩, ?_⟩
  obtain ⟨r1, r2, r3, _⟩ := refine_inv stablePerm hp ha hsc href
  obtain ⟨hm', hbt'⟩ := refineMatch hp ha hsc htl hb0 hnb hm0 href rf hrf
  obtain ⟨f1, f2, f3, f4, f5, f6⟩ := expandValue_frame hexp
  have hlv1 : LvOK n op1 0 (IR.refine (irG n nb) rf si) := LvOK.ofMatch hm' r1 r2 (by omega) hbt'
  have hlv2 : LvOK n s0.op 0 (IR.refine (irG n nb) rf si) := hlv1.frame f1 f2 f3
  have hbs2 : BinsSorted s0.op := (refine_binsSorted stablePerm hp ha hsc hbs href).of_frame f1 f2
  have hpos : ¬ 0 < s0.count := by omega
  have hage2 : s0.op.age = 0 := by rw [f5, r3, hage0]
  unfold DM
  rw [if_neg (by simp)]
  refine ⟨⟨[], [], [], [], []⟩, ?_, ?_, ?_, ?_, ?_⟩
  · refine ⟨trivial, by rw [hage2]; rfl, by rw [hpth], ?_, by rw [hpth, hch]; trivial, hbs2, by rw [f4]; exact hbt'⟩
    intro L hL
    have : L = 0 := by simpa using hL
    subst this
    simpa [nodeL, IR.nodeAt] using hlv2
  · exact ⟨fun h => absurd h hpos, fun h => absurd h hpos, fun γ hγ => by simp at hγ, fun _ => hng,
      fun h => absurd h hpos, hbl, hfl⟩
  · rw [hpth, hch]; trivial
  · rw [hpth, hch]; trivial
  · exact fun h => absurd h hpos


open GraphSpec in
/-- the certificate of the permutation returned by the faithful model is the canonical certificate of the IR model -/
theorem canonF_complete_full (fuel : Nat) (g : G) (hg : g.WF) (vc : Classes) (hvc : ClassesOK g.n vc) (hn : g.n ≠ 0)
    (r : Res) (h : canonicalIsomorphFull fuel g vc = .ok r) :
    ∃ op0 p, newOrderedPartition g.n (((nbrsOf g).toList.map List.length).sum / 2) vc = .ok (some op0) ∧
      r.perm = some p ∧ p.Perm (List.range g.n) ∧
      certPos (nbrsOf g) p g.n = IR.canonCertFrom (IR.ofSpec g) (irInit g op0) := by
  obtain ⟨op0, p, hnew, hp, hperm, hleaf⟩ := canonF_leaf_of_tree_all fuel g hg vc hvc hn r h
  refine ⟨op0, p, hnew, hp, hperm, ?_⟩
  obtain ⟨hnbok, hsz⟩ := nbOK_nbrsOf g hg
  have hn0 : 0 < g.n := Nat.pos_of_ne_zero hn
  by_cases hsc : ((nbrsOf g).toList.map List.length).sum / 2 = 0 ∧ op0.binDividers.len = 1
  · have hlen := certPos_length hnbok hsz hperm
    rw [hsc.1] at hlen
    rw [List.length_eq_zero_iff.1 hlen]
    obtain ⟨l, _, e⟩ := IR.canonCertFrom_is_leaf (IR.ofSpec g) (irInit g op0)
    rw [e]
    have hE : ∀ v, (IR.ofSpec g).nbrs v = [] := by
      intro v
      show (nbrsOf g).getD v [] = []
      rw [cnt_getD_nbrsOf]
      split
      · unfold G.nbrs
        apply List.filter_eq_nil_iff.2
        intro u _
        rw [no_edges_of_m_zero g hg hsc.1]
        simp
      · rfl
    unfold IR.cert IR.codes
    have : (List.range (IR.ofSpec g).n).flatMap (fun u => ((IR.ofSpec g).nbrs u).filterMap (fun v =>
        if IR.col l v < IR.col l u then some (IR.tri (IR.col l u) + IR.col l v) else none)) = [] := by
      apply List.flatMap_eq_nil_iff.2
      intro u _
      rw [hE u]; rfl
    rw [this]; simp
  · obtain ⟨op, opR, stR, hnew', hpi, ha, hage, hspl, hval, hal⟩ := full_unfold fuel g vc hvc hn r h
    rw [hnew] at hnew'
    cases hnew'
    obtain ⟨hm0, hb0⟩ := init_match hn0 hvc hnew (nbrsOf g)
    have hbs := new_binsSorted hn0 hvc hnew
    have hw : (IR.initSt (irG g.n (nbrsOf g)) op0.binDividers.len (cellOf op0)).work ≠ [] := by
      show List.range op0.binDividers.len ≠ []
      have := hpi.bdLen_pos
      intro e
      have := congrArg List.length e
      simp at this
      omega
    have hinv := IR.refine_inv' (g := irG g.n (nbrsOf g)) (fuel := g.n * g.n + 10) (by omega) hw
    have hlenm : ∀ o : List Nat, o.Perm (List.range g.n) →
        (certPos (nbrsOf g) o g.n).length = ((nbrsOf g).toList.map List.length).sum / 2 :=
      fun o ho => certPos_length hnbok hsz ho
    have hJ := (certMainJ expandValue_cert hnbok hlenm).extend
      (dfsMainJX (rf := g.n * g.n + 10) hnbok hsz rfl (rfuel_ge g.n) hinv.1 hinv.2 hlenm)
    obtain ⟨s, ⟨hcA, gh, hwA, hG, _, _, hfin⟩, hperm', _, _⟩ := allocated_mainJ stablePerm expandValue_cert hJ hn
      (fun hm h1 => hsc ⟨hm, h1⟩) rfl hpi ha hage hspl hval
      (fun s0 hi => dfs_init hnbok (rfuel_ge g.n) hpi ha hm0 hb0 hbs hage hi) hal
    rw [hp] at hperm'
    cases hperm'
    have hpe : s.path = [] := by
      have := hwA.2.2.2.2.1
      cases hpth : s.path with
      | nil => rfl
      | cons a t => rw [hpth] at this; cases hcc : s.choices <;> simp [FramesOK, hcc] at this
    obtain ⟨hpos, hcomp⟩ := hfin hpe
    have hbest := (hG.best hpos).cert
    rw [hbest] at hcomp
    exact canon_eq_of_complete hg hw hperm hleaf hcomp

open GraphSpec in
/-- without vertex classes: the certificate of the returned permutation is `IR.canonCert`, the decoded graph is
`IR.canonGraph` -/
theorem canonF_eq_IR_canon_full (fuel : Nat) (g : G) (hg : g.WF) (hn : g.n ≠ 0)
    (r : Res) (h : canonicalIsomorphFull fuel g none = .ok r) :
    ∃ p, r.perm = some p ∧ p.Perm (List.range g.n) ∧ certPos (nbrsOf g) p g.n = IR.canonCert (IR.ofSpec g) ∧
      IR.ofCodes g.n (certPos (nbrsOf g) p g.n) = IR.canonGraph (IR.ofSpec g) := by
  obtain ⟨op0, p, hnew, hp, hperm, hc⟩ := canonF_complete_full fuel g hg none trivial hn r h
  rw [irInit_none (Nat.pos_of_ne_zero hn) hnew] at hc
  exact ⟨p, hp, hperm, hc, by rw [hc]; rfl⟩

open GraphSpec in
/-- the canonical certificate computed by the faithful model is invariant under relabelling the input graph -/
theorem canonF_canon_invariant_full (fuel fuel' : Nat) (g g' : G) (hg : g.WF) (hg' : g'.WF) (hn : g.n ≠ 0)
    {σ τ : Nat → Nat} (R : IR.Relabel (IR.ofSpec g) (IR.ofSpec g') σ τ) (r r' : Res)
    (h : canonicalIsomorphFull fuel g none = .ok r) (h' : canonicalIsomorphFull fuel' g' none = .ok r') :
    ∃ p p', r.perm = some p ∧ r'.perm = some p' ∧ p.Perm (List.range g.n) ∧ p'.Perm (List.range g'.n) ∧
      certPos (nbrsOf g') p' g'.n = certPos (nbrsOf g) p g.n := by
  have hn' : g'.n ≠ 0 := by
    have : g'.n = g.n := R.n_eq
    omega
  obtain ⟨p, hp, hperm, hc, _⟩ := canonF_eq_IR_canon_full fuel g hg hn r h
  obtain ⟨p', hp', hperm', hc', _⟩ := canonF_eq_IR_canon_full fuel' g' hg' hn' r' h'
  refine ⟨p, p', hp, hp', hperm, hperm', ?_⟩
  rw [hc, hc']
  exact IR.canonCertFrom_invariant R (IR.init_rel R)

open GraphSpec in
/-- a graph of the specification is determined by its `IR` form -/
theorem ofSpec_inj {a b : G} (ha : ∀ u v, a.adj u v = true → u < a.n ∧ v < a.n)
    (hb : ∀ u v, b.adj u v = true → u < b.n ∧ v < b.n) (h : IR.ofSpec a = IR.ofSpec b) : a = b := by
  have hn : a.n = b.n := congrArg IR.G.n h
  have hadj : ∀ u, u < a.n → a.nbrs u = b.nbrs u := by
    intro u hu
    have := congrArg (fun x => IR.G.nbrs x u) h
    simp only [IR.G.nbrs, IR.ofSpec] at this
    rw [hn] at hu
    simpa [hu, hn] using this
  obtain ⟨an, aadj⟩ := a
  obtain ⟨bn, badj⟩ := b
  simp only at hn
  subst hn
  congr 1
  funext u v
  by_cases hu : u < an
  · by_cases hv : v < an
    · have := hadj u hu
      simp only [G.nbrs] at this
      have h1 : v ∈ (List.range an).filter (fun w => aadj u w) ↔ v ∈ (List.range an).filter (fun w => badj u w) := by
        rw [this]
      simp only [List.mem_filter, List.mem_range, hv, true_and] at h1
      cases ha' : aadj u v <;> cases hb' : badj u v <;> simp_all
    · have e1 : aadj u v = false := by
        cases hx : aadj u v with
        | false => rfl
        | true => exact absurd (ha u v hx).2 hv
      have e2 : badj u v = false := by
        cases hx : badj u v with
        | false => rfl
        | true => exact absurd (hb u v hx).2 hv
      rw [e1, e2]
  · have e1 : aadj u v = false := by
      cases hx : aadj u v with
      | false => rfl
      | true => exact absurd (ha u v hx).1 hu
    have e2 : badj u v = false := by
      cases hx : badj u v with
      | false => rfl
      | true => exact absurd (hb u v hx).1 hu
    rw [e1, e2]

open GraphSpec in
theorem induced_supp (g : G) (p : List Nat) : ∀ u v, (g.induced p).adj u v = true → u < (g.induced p).n ∧ v < (g.induced p).n := by
  intro u v h
  simp only [G.induced, Bool.and_eq_true, decide_eq_true_eq] at h
  exact ⟨h.1.1, h.1.2⟩

open GraphSpec in
/-- `CanonicalIsomorph` followed by `InducedSubgraph`: the result is the canonical graph of the IR model -/
theorem canonF_induced_eq_canonGraph (fuel : Nat) (g : G) (hg : g.WF) (hn : g.n ≠ 0)
    (r : Res) (h : canonicalIsomorphFull fuel g none = .ok r) :
    ∃ p, r.perm = some p ∧ p.Perm (List.range g.n) ∧ IR.ofSpec (g.induced p) = IR.canonGraph (IR.ofSpec g) := by
  obtain ⟨p, hp, hperm, _, hc⟩ := canonF_eq_IR_canon_full fuel g hg hn r h
  exact ⟨p, hp, hperm, by rw [ofSpec_induced_eq_ofCodes g hg p hperm]; exact hc⟩

open GraphSpec in
/-- two graphs get the same canonically relabelled graph if and only if they are isomorphic -/
theorem canonF_induced_complete (fuel fuel' : Nat) (g g' : G) (hg : g.WF) (hg' : g'.WF) (hn : g.n ≠ 0) (hn' : g'.n ≠ 0)
    (r r' : Res) (h : canonicalIsomorphFull fuel g none = .ok r) (h' : canonicalIsomorphFull fuel' g' none = .ok r') :
    ∃ p p', r.perm = some p ∧ r'.perm = some p' ∧
      (g.induced p = g'.induced p' ↔ IR.Iso (IR.ofSpec g) (IR.ofSpec g')) := by
  obtain ⟨p, hp, hperm, hc⟩ := canonF_induced_eq_canonGraph fuel g hg hn r h
  obtain ⟨p', hp', hperm', hc'⟩ := canonF_induced_eq_canonGraph fuel' g' hg' hn' r' h'
  refine ⟨p, p', hp, hp', ?_⟩
  rw [← IR.canonGraph_complete (IR.ofSpec_wf hg) (IR.ofSpec_wf hg'), ← hc, ← hc']
  constructor
  · intro e; rw [e]
  · intro e; exact ofSpec_inj (induced_supp g p) (induced_supp g' p') e
end CanonF
