import Mamba.Lemmas.CanonFStep
import Mamba.Lemmas.CanonFTreeSplit
import Mamba.Lemmas.CanonFSortedSplit
/-!
# The target cell of a stack frame: everything that is known about it, in one place
-/
namespace CanonF

theorem cellMembers_sorted (g : IR.G) (c : Array Nat) (t : Nat) : (IR.cellMembers g c t).Pairwise (· < ·) := by
  unfold IR.cellMembers
  exact List.Pairwise.filter _ List.pairwise_lt_range

theorem frame_facts {n : Nat} {nb : Nbrs} {op : OP} {s : IR.St} (hp : PartInv n op) (ha : AgeInv op) (hm : Match n op s)
    {st sz i : Nat} (hb : IsBinAt (op.age + 1) op st sz) (hsz : 2 ≤ sz) (h1 : st ≤ i) (h2 : i < st + sz) :
    i < n ∧ NonSingleton op.binDividers.toList i ∧ FirstBin op.binDividers.toList i ∧
    binIdx op.binDividers.toList i = st ∧ binStartOf op.binDividers.toList i = st ∧
    op.binDividers.toList[st]? = some (st + sz) ∧ (0 :: op.binDividers.toList)[st]? = some st ∧
    IR.target (irG n nb) s = some st ∧ (IR.cellMembers (irG n nb) s.c st).length = sz ∧
    (BinsSorted op → ∀ k, k < sz → op.order.toList[st + k]? = (IR.cellMembers (irG n nb) s.c st)[k]?) := by
  have hs : op.binDividers.toList.Pairwise (· < ·) := (List.pairwise_cons.1 hp.sorted).2
  have hb' := top_isBin hp ha rfl hb
  have hfb0 := top_firstBin hp ha rfl hb
  obtain ⟨hns, hi⟩ := nonSingleton_of_isBin hp hb' hsz i h1 h2
  have hbl := binIdx_lt _ n i hp.last hi
  have hdi := binIdx_lt_div _ hs i hbl
  have hst := binStartOf_getElem? _ i hbl
  have hdv : op.binDividers.toList[binIdx op.binDividers.toList i]? =
      some (op.binDividers.toList[binIdx op.binDividers.toList i]) := List.getElem?_eq_getElem hbl
  have hle := binStartOf_le_start hp hb'.2.2 hi h2
  have hge : st ≤ binStartOf op.binDividers.toList i := by
    rcases hb'.1 with h0 | hmem
    · omega
    · have := no_div_inside _ hs hst hdv hmem
      omega
  have hstart : binStartOf op.binDividers.toList i = st := by omega
  have hfb : FirstBin op.binDividers.toList i := by
    intro t ht; rw [hstart] at ht; exact hfb0 t ht
  have hsing := firstBin_single hp hi hfb
  have hbi : binIdx op.binDividers.toList i = st := by
    rw [← hstart]
    by_cases h0 : binIdx op.binDividers.toList i = 0
    · rw [h0] at hst
      have : (0 : Nat) = binStartOf op.binDividers.toList i := by simpa using hst
      omega
    · have e := hsing (binIdx op.binDividers.toList i - 1) (by omega)
      rw [show binIdx op.binDividers.toList i = (binIdx op.binDividers.toList i - 1) + 1 by omega,
        List.getElem?_cons_succ, e] at hst
      have := Option.some.inj hst
      omega
  have hd : op.binDividers.toList[st]? = some (st + sz) := by
    rw [← hbi, hdv]
    congr 1
    have a := no_div_inside _ hs hst hdv hb'.2.1
    have b := hb'.2.2 _ (List.getElem_mem hbl)
    omega
  have hbs : (0 :: op.binDividers.toList)[st]? = some st := by
    have := hst; rw [hbi, hstart] at this; exact this
  have htar : IR.target (irG n nb) s = some st := by
    rw [← hbi]; exact target_match hp hm hi hns hfb
  have hlen : (IR.cellMembers (irG n nb) s.c st).length = sz := by
    rw [hm.col, cellMembers_length hp hbs hd]; omega
  refine ⟨hi, hns, hfb, hbi, hstart, hd, hbs, htar, hlen, ?_⟩
  intro hsorted k hk
  have hperm := cellMembers_perm (nb := nb) hp hbs hd
  have hseg := binsSorted_segment hp hsorted hbs hd
  have heq : IR.cellMembers (irG n nb) (colOf n op) st =
      (op.order.toList.drop st).take (st + sz - st) :=
    List.Perm.eq_of_pairwise (le := fun a b => a < b) (fun a b _ _ x y => by omega)
      (cellMembers_sorted _ _ _) hseg hperm
  rw [hm.col, heq, List.getElem?_take, if_pos (by omega), List.getElem?_drop]

end CanonF
