import Mamba.Lemmas.CanonFGenMain
/-!
# Storage reuse, semantic form: the `m == 0` shortcut of `CanonicalIsomorphAllocated` on an arbitrary storage
-/
namespace CanonF
open GraphSpec Relation

/-- a graph with `m = 0` has empty neighbour lists -/
theorem edg_nbrs_nil (g : G) (hg : g.WF) (hm : ((nbrsOf g).toList.map List.length).sum / 2 = 0) (v : Nat) :
    (nbrsOf g).getD v [] = [] := by
  rw [cnt_getD_nbrsOf]
  split
  · unfold G.nbrs
    apply List.filter_eq_nil_iff.2
    intro u _
    rw [no_edges_of_m_zero g hg hm]
    simp
  · rfl

/-- every permutation is an automorphism of a graph without edges -/
theorem edg_isAutL (g : G) (hg : g.WF) (hm : ((nbrsOf g).toList.map List.length).sum / 2 = 0) {γ : List Nat}
    (hγ : γ.Perm (List.range g.n)) : IsAutL (nbrsOf g) g.n γ := by
  refine ⟨hγ, fun x y _ _ => ?_⟩
  rw [edg_nbrs_nil g hg hm, edg_nbrs_nil g hg hm]
  simp

/-- the same for the `m == 0` shortcut (U2) -/
theorem allocated_semantic_short (fuel : Nat) (g : G) (hg : g.WF) (hn : g.n ≠ 0) {op0 : OP} {st : Storage} {r : Res}
    {opR : Option OP} {stR : Storage} (hp : PartInv g.n op0)
    (hsc : ((nbrsOf g).toList.map List.length).sum / 2 = 0 ∧ op0.binDividers.len = 1)
    (hal : canonicalIsomorphAllocated fuel g.n (((nbrsOf g).toList.map List.length).sum / 2) (nbrsOf g) (some op0) st {}
      = .ok (r, opR, stR)) :
    ∃ p ds gs, r.perm = some p ∧ r.orbits = some ds ∧ r.gens = some gs ∧ p.Perm (List.range g.n) ∧ ds.length = g.n ∧
      certPos (nbrsOf g) p g.n = IR.canonCertFrom (IR.ofSpec g) (irInit g op0) ∧
      (∀ γ ∈ gs, IsAutL (nbrsOf g) g.n γ) ∧
      (∀ a b, a < g.n → b < g.n → Disjoint.rep ds.toArray a = Disjoint.rep ds.toArray b →
        EqvGen (fun x y => ∃ γ ∈ gs, γ[x]? = some y) a b) ∧
      (∀ γ, IsAutL (nbrsOf g) g.n γ → (∀ v, v < g.n → cellOf op0 (γ.getD v 0) = cellOf op0 v) →
        (∀ u, u < g.n → Disjoint.rep ds.toArray u = Disjoint.rep ds.toArray (γ.getD u 0)) ∧
        GenBy (fun x => x ∈ gs) g.n γ) := by
  have _ := hp  -- (not needed: the shortcut does not look at the partition)
  obtain ⟨st', he⟩ := allocated_shortcut hn hsc.1 hsc.2 hal
  obtain ⟨gs, ds, hgs, hds, hdl, hperm, heqv⟩ := edgeless_cert hn he
  obtain ⟨ds', hds', _, hrep⟩ := edgeless_orbits_all hn he
  rw [hds] at hds'
  cases hds'
  obtain ⟨gs', hgs', hgen⟩ := edgeless_gens_generate hn he
  rw [hgs] at hgs'
  cases hgs'
  have hpr := (edgeless_gens hn he).1
  obtain ⟨hnbok, hsz⟩ := nbOK_nbrsOf g hg
  refine ⟨List.range g.n, ds, gs, hpr, hds, hgs, List.Perm.refl _, hdl, ?_, ?_, ?_, ?_⟩
  · have hlen := certPos_length hnbok hsz (List.Perm.refl (List.range g.n))
    rw [hsc.1] at hlen
    rw [List.length_eq_zero_iff.1 hlen]
    obtain ⟨l, _, e⟩ := IR.canonCertFrom_is_leaf (IR.ofSpec g) (irInit g op0)
    rw [e]
    have hE : ∀ v, (IR.ofSpec g).nbrs v = [] := fun v => edg_nbrs_nil g hg hsc.1 v
    unfold IR.cert IR.codes
    have : (List.range (IR.ofSpec g).n).flatMap (fun u => ((IR.ofSpec g).nbrs u).filterMap (fun v =>
        if IR.col l v < IR.col l u then some (IR.tri (IR.col l u) + IR.col l v) else none)) = [] := by
      apply List.flatMap_eq_nil_iff.2
      intro u _
      rw [hE u]; rfl
    rw [this]; simp
  · intro γ hγ
    exact edg_isAutL g hg hsc.1 (hperm γ hγ)
  · intro a b ha hb _
    exact heqv a b ha hb
  · intro γ hγ _
    exact ⟨fun u hu => hrep u _ hu (perm_getD_lt hγ.1 hu), hgen γ hγ.1⟩

end CanonF
