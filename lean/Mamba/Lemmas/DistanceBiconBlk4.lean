import Mamba.Lemmas.DistanceBiconBlk3
/-!
# The invariant on `bicoms` / `out` is kept when a non-root vertex is popped (merge loop)
-/
namespace GDist
open GraphSpec Model

variable {h : G} {com : List Nat} {out0 : List (List Nat)} {st : BicSt} {tp : Nat → Nat} {cs : List Nat}

theorem bk_pop (dt : DT h st tp) (la : LA h st tp) (bk : BK h com out0 st tp cs) {v : Nat}
    {rest cur c2 : List Nat} {t : Int} {bs : List (List Nat)} (hstk : st.toCheck = v :: rest) (hv0 : v ≠ 0)
    (hcur : st.bicoms.getLast? = some cur)
    (hm : bicMerge st.depths (dI st v) st.bicoms.dropLast.reverse cur = .ok bs)
    (hc2 : bs.getLast? = some c2)
    (hnopend : ∀ c, c < h.n → bvis st c → c ∉ st.toCheck → c ≠ 0 → pa st c = (v : Int) → v ≠ 0 →
      lo st c ≥ dI st v → False) :
    BK h com out0 (popSt st v rest t bs c2) tp cs := by
  have hvs : v ∈ st.toCheck := by rw [hstk]; exact List.mem_cons_self
  obtain ⟨hvn, hvv⟩ := dt.svis v hvs
  have hvL : v < st.low.size := by rw [dt.ok.lsz]; exact hvn
  have hl : ∀ x, lo (popSt st v rest t bs c2) x = if x = v then t else lo st x := lo_popSt rest t bs c2 hvL
  obtain ⟨taken, kept, e1, e2, ht, hk⟩ := bicMerge_spec _ _ _ _ _ hm
  have hc2' : c2 = cur ++ taken.flatten := by
    rw [e2, List.getLast?_concat] at hc2
    cases hc2; rfl
  have hbic : (popSt st v rest t bs c2).bicoms = kept.reverse ++ [cur ++ taken.flatten ++ [v]] := by
    show setLast bs (c2 ++ [v]) = _
    rw [e2, hc2']
    simp [setLast]
  have hold : st.bicoms = kept.reverse ++ taken.reverse ++ [cur] := by
    have h1 := bicoms_split hcur
    have h2 : st.bicoms.dropLast = kept.reverse ++ taken.reverse := by
      have := congrArg List.reverse e1
      rw [List.reverse_reverse, List.reverse_append] at this
      exact this
    rw [h2] at h1; exact h1
  obtain ⟨rest', hrest⟩ := dt.parent_of_top hstk hv0
  have hvr : v ∉ rest := dt.top_not_in_rest hstk
  have hstk' : (popSt st v rest t bs c2).toCheck = rest := rfl
  have hsub : ∀ y, y ∈ rest → y ∈ st.toCheck := fun y hy => by rw [hstk]; exact List.mem_cons_of_mem _ hy
  have hcurm : cur ∈ st.bicoms := List.mem_of_getLast? hcur
  have hKm : ∀ b, b ∈ kept.reverse → b ∈ st.bicoms := fun b hb => by
    rw [hold]; exact List.mem_append.2 (.inl (List.mem_append.2 (.inl hb)))
  have hTm : ∀ b, b ∈ taken → b ∈ st.bicoms := fun b hb => by
    rw [hold]; exact List.mem_append.2 (.inl (List.mem_append.2 (.inr (List.mem_reverse.2 hb))))
  -- depth bound for the last vertices of the partial blocks
  have hdep : ∀ b ∈ st.bicoms, ∀ x, b.getLast? = some x →
      dI st x ≤ dI st v + 1 ∧ (dI st x = dI st v + 1 → tp x = v) := by
    intro b hb x hx
    obtain ⟨h1, h2, _, h4, h5, _⟩ := bk.btop b hb x hx
    have hd := (dt.tree x h1 h2 h4).2.2.2
    obtain ⟨l1, l2⟩ := dt.stack_depth_le hstk h5
    exact ⟨by omega, fun h0 => l2 (by omega)⟩
  have hnl : ∀ x, x < h.n → bvis st x → x ∉ st.toCheck → x ≠ 0 → tp x = v → pa st x = (tp x : Int) →
      lo st x < dI st v := by
    intro x hx hxv hxs hx0 htx hpx
    by_contra hge
    rw [htx] at hpx
    exact hnopend x hx hxv hxs hx0 hpx hv0 (by omega)
  -- the blocks that are merged belong to children of `v` that do not close a block
  have hT : ∀ b ∈ taken, ∃ x, b.getLast? = some x ∧ tp x = v ∧ x ≠ v ∧ lo st x < dI st v := by
    intro b hb
    obtain ⟨x, hx, hdx⟩ := ht b hb
    obtain ⟨h1, h2, h3, h4, h5, h6⟩ := bk.btop b (hTm b hb) x hx
    have htx := (hdep b (hTm b hb) x hx).2 hdx
    exact ⟨x, hx, htx, fun h0 => h3 (h0 ▸ hvs), hnl x h1 h2 h3 h4 htx h6⟩
  have hC : ∀ x, cur.getLast? = some x → tp x = v ∧ x ≠ v ∧ lo st x < dI st v := by
    intro x hx
    obtain ⟨h1, h2, h3, h4, h5, h6⟩ := bk.btop cur hcurm x hx
    have htx := bk.bcur cur x v rest hcur hx hstk
    exact ⟨htx, fun h0 => h3 (h0 ▸ hvs), hnl x h1 h2 h3 h4 htx h6⟩
  -- the blocks that stay belong to vertices that are not children of `v`
  have hK : ∀ b ∈ kept.reverse, ∀ x, b.getLast? = some x → dI st x ≤ dI st v := by
    intro b hb x hx
    cases hkept : kept with
    | nil => rw [hkept] at hb; cases hb
    | cons b0 kept' =>
      have hb0m : b0 ∈ st.bicoms := hKm b0 (by rw [hkept]; simp)
      have hb0ne : b0 ≠ [] := by
        apply dt.ok.bpre b0
        have : st.bicoms.dropLast = kept.reverse ++ taken.reverse := by
          rw [hold]; simp
        rw [this, hkept]; simp
      obtain ⟨x0, hx0⟩ := getLast?_some_of_ne_nil hb0ne
      have hne := hk b0 x0 (by rw [hkept]; rfl) hx0
      have hdx0 : st.depths.getD x0 (-1) = dI st x0 := rfl
      rw [hdx0] at hne
      have hle0 := (hdep b0 hb0m x0 hx0).1
      have hx0le : dI st x0 ≤ dI st v := by omega
      rw [hkept] at hb
      simp only [List.reverse_cons, List.mem_append, List.mem_reverse, List.mem_singleton] at hb
      rcases hb with hb | hb
      · have hord := bk.bord
        rw [hold, hkept] at hord
        simp only [List.reverse_cons, List.append_assoc] at hord
        rw [List.pairwise_append] at hord
        have := hord.2.2 b (List.mem_reverse.2 hb) b0 (by simp) x x0 hx hx0
        omega
      · subst hb
        rw [hx0] at hx; cases hx; exact hx0le
  have hKtop : ∀ b ∈ kept.reverse, ∀ x, b.getLast? = some x → tp x ∈ rest := by
    intro b hb x hx
    obtain ⟨h1, h2, _, h4, h5, _⟩ := bk.btop b (hKm b hb) x hx
    have hd := (dt.tree x h1 h2 h4).2.2.2
    have := hK b hb x hx
    rw [hstk] at h5
    rcases List.mem_cons.1 h5 with h0 | h0
    · rw [h0] at hd; omega
    · exact h0
  have hA : ∀ a z, z < h.n → bvis st z → (Anc tp a z ↔ Anc tp a z) := fun _ _ _ _ => Iff.rfl
  have hL : ∀ z, z < h.n → bvis st z → z ∉ st.toCheck → z ≠ 0 →
      lo (popSt st v rest t bs c2) z = lo st z ∧ dI (popSt st v rest t bs c2) (tp z) = dI st (tp z) := by
    intro z _ _ hzs _
    have hzv : z ≠ v := fun h0 => hzs (h0 ▸ hvs)
    exact ⟨by rw [hl]; simp [hzv], rfl⟩
  have hNL : ∀ x y, x ∉ st.toCheck → y < h.n → bvis st y →
      (NL (popSt st v rest t bs c2) tp x y ↔ NL st tp x y) :=
    fun x y hxs hy hyv => NL_congr dt hA hL (fun z hz _ => dt.sub_finished hxs hz) hy hyv
  have hNLv : ∀ y, y < h.n → bvis st y → (NL (popSt st v rest t bs c2) tp v y ↔ NL st tp v y) := by
    intro y hy hyv
    refine NL_congr dt hA hL (fun z hz hne hzs => ?_) hy hyv
    rw [hstk] at hzs
    have hp := dt.path
    rw [hstk] at hp
    have h1 := stackPath_anc rest v hp z hzs
    exact hne (dt.anc_antisymm hvn hvv h1 hz)
  have hblk : ∀ S c, IsBlk h com st tp S c → IsBlk h com (popSt st v rest t bs c2) tp S c := by
    rintro S c ⟨⟨hc, hcv, hcs, hc0⟩, hS, hmem⟩
    refine ⟨⟨hc, hcv, fun hm' => hcs (hsub c hm'), hc0⟩, hS, fun w => ?_⟩
    rw [hmem w]
    constructor
    · rintro ⟨y, hy, hyv, hyw, hor⟩
      refine ⟨y, hy, hyv, hyw, ?_⟩
      rcases hor with h0 | h0
      · exact .inl h0
      · exact .inr ((hNL c y hcs hy hyv).2 h0)
    · rintro ⟨y, hy, hyv, hyw, hor⟩
      refine ⟨y, hy, hyv, hyw, ?_⟩
      rcases hor with h0 | h0
      · exact .inl h0
      · exact .inr ((hNL c y hcs hy hyv).1 h0)
  have hLlast : (cur ++ taken.flatten ++ [v]).getLast? = some v := List.getLast?_concat
  have hmemb : ∀ b, b ∈ (popSt st v rest t bs c2).bicoms → b ∈ kept.reverse ∨ b = cur ++ taken.flatten ++ [v] := by
    intro b hb
    rw [hbic] at hb
    rcases List.mem_append.1 hb with h0 | h0
    · exact .inl h0
    · simp at h0; exact .inr (by rw [h0]; simp)
  -- membership in the merged block
  have hLmem : ∀ y, y ∈ cur ++ taken.flatten ++ [v] ↔ (y < h.n ∧ bvis st y ∧ NL st tp v y) := by
    intro y
    constructor
    · intro hy
      rcases List.mem_append.1 hy with hy | hy
      · rcases List.mem_append.1 hy with hy | hy
        · obtain ⟨x, hx⟩ := getLast?_some_of_ne_nil (List.ne_nil_of_mem hy)
          obtain ⟨h1, h2, h3⟩ := hC x hx
          obtain ⟨g1, g2, g3⟩ := (bk.bmem cur hcurm x hx y).1 hy
          exact ⟨g1, g2, (NL_child_iff dt g1 g2).2 (.inr ⟨x, h1, h2, h3, g3⟩)⟩
        · obtain ⟨b, hb, hyb⟩ := List.mem_flatten.1 hy
          obtain ⟨x, hx, h1, h2, h3⟩ := hT b hb
          obtain ⟨g1, g2, g3⟩ := (bk.bmem b (hTm b hb) x hx y).1 hyb
          exact ⟨g1, g2, (NL_child_iff dt g1 g2).2 (.inr ⟨x, h1, h2, h3, g3⟩)⟩
      · simp at hy; subst hy
        exact ⟨hvn, hvv, NL.refl dt hvn hvv⟩
    · rintro ⟨hy, hyv, hn⟩
      rcases (NL_child_iff dt hy hyv).1 hn with h0 | ⟨c, hc1, hc2, hc3, hc4⟩
      · subst h0; simp
      · obtain ⟨hcn, hcv⟩ := dt.anc_vis hy hyv hc4.1
        have hcs : c ∉ st.toCheck := dt.child_of_top_fin hstk hcn hcv hc1 hc2
        have hc0 : c ≠ 0 := by
          intro h0; subst h0
          rw [dt.tp0] at hc1; exact hv0 hc1.symm
        have hpc : pa st c = (tp c : Int) := by
          rcases la.ar1 c hcn hcv hc0 with h0 | h0
          · exact h0
          · have := (la.ar2 c hcn hcv hc0 h0).2.2.1
            rw [hc1] at this; omega
        obtain ⟨b, hb, hbx⟩ := bk.bcov c hcn hcv hcs hc0 (by rw [hc1]; exact hvs) hpc
        have hyb : y ∈ b := (bk.bmem b hb c hbx y).2 ⟨hy, hyv, hc4⟩
        rw [hold] at hb
        rcases List.mem_append.1 hb with hb | hb
        · rcases List.mem_append.1 hb with hb | hb
          · exfalso
            have := hK b hb c hbx
            have hd := (dt.tree c hcn hcv hc0).2.2.2
            rw [hc1] at hd; omega
          · exact List.mem_append.2 (.inl (List.mem_append.2 (.inr
              (List.mem_flatten.2 ⟨b, List.mem_reverse.1 hb, hyb⟩))))
        · simp at hb; subst hb
          exact List.mem_append.2 (.inl (List.mem_append.2 (.inl hyb)))
  refine { btop := ?_, bmem := ?_, bnd := ?_, bord := ?_, bcur := ?_, bcov := ?_, bpend := ?_, broot := ?_,
           out := ?_, csmem := bk.csmem, csnd := bk.csnd }
  · intro b hb x hx
    rcases hmemb b hb with hb' | hb'
    · obtain ⟨h1, h2, h3, h4, h5, h6⟩ := bk.btop b (hKm b hb') x hx
      exact ⟨h1, h2, fun hm' => h3 (hsub x hm'), h4, hKtop b hb' x hx, h6⟩
    · subst hb'
      rw [hLlast] at hx; cases hx
      refine ⟨hvn, hvv, hvr, hv0, ?_, dt.pastk v hvs hv0⟩
      rw [hstk', hrest]; exact List.mem_cons_self
  · intro b hb x hx y
    rcases hmemb b hb with hb' | hb'
    · obtain ⟨h1, h2, h3, h4, h5, h6⟩ := bk.btop b (hKm b hb') x hx
      rw [bk.bmem b (hKm b hb') x hx y]
      constructor
      · rintro ⟨hy, hyv, hn⟩; exact ⟨hy, hyv, (hNL x y h3 hy hyv).2 hn⟩
      · rintro ⟨hy, hyv, hn⟩; exact ⟨hy, hyv, (hNL x y h3 hy hyv).1 hn⟩
    · subst hb'
      rw [hLlast] at hx; cases hx
      rw [hLmem y]
      constructor
      · rintro ⟨hy, hyv, hn⟩; exact ⟨hy, hyv, (hNLv y hy hyv).2 hn⟩
      · rintro ⟨hy, hyv, hn⟩; exact ⟨hy, hyv, (hNLv y hy hyv).1 hn⟩
  · rw [hbic]
    have hnd := bk.bnd
    rw [hold] at hnd
    have hperm : (kept.reverse ++ [cur ++ taken.flatten ++ [v]]).flatten.Perm
        (v :: (kept.reverse ++ taken.reverse ++ [cur]).flatten) := by
      simp only [List.flatten_append, List.flatten_cons, List.flatten_nil, List.append_nil]
      have p1 : taken.flatten.Perm taken.reverse.flatten := (List.reverse_perm taken).flatten.symm
      have p2 : (cur ++ taken.flatten).Perm (taken.reverse.flatten ++ cur) :=
        List.perm_append_comm.trans (List.Perm.append_right cur p1)
      have p3 : (kept.reverse.flatten ++ (cur ++ taken.flatten)).Perm
          (kept.reverse.flatten ++ taken.reverse.flatten ++ cur) := by
        rw [List.append_assoc]; exact List.Perm.append_left _ p2
      have p4 : (kept.reverse.flatten ++ (cur ++ taken.flatten ++ [v])).Perm
          (v :: (kept.reverse.flatten ++ (cur ++ taken.flatten))) := by
        rw [← List.append_assoc]
        exact List.perm_append_singleton _ _
      exact p4.trans (List.Perm.cons v p3)
    rw [hperm.nodup_iff, List.nodup_cons]
    refine ⟨?_, hnd⟩
    intro hm'
    obtain ⟨b, hb, hvb⟩ := List.mem_flatten.1 hm'
    exact (bk.mem_fin dt (by rw [hold]; exact hb) hvb).2.2 hvs
  · rw [hbic, List.pairwise_append]
    have hord := bk.bord
    rw [hold, List.append_assoc, List.pairwise_append] at hord
    refine ⟨hord.1, by simp, ?_⟩
    intro b hb b' hb' x x' hx hx'
    rw [List.mem_singleton] at hb'; subst hb'
    rw [List.getLast?_concat] at hx'
    cases hx'
    exact hK b hb x hx
  · intro cur' x v' rest'' hc' hx' hs'
    rw [hbic, List.getLast?_concat] at hc'
    cases hc'
    rw [List.getLast?_concat] at hx'
    cases hx'
    rw [hstk', hrest] at hs'
    cases hs'; rfl
  · intro x hx hxv hxs hx0 htx hpx
    rw [hstk'] at hxs htx
    by_cases hxv' : x = v
    · subst hxv'
      exact ⟨_, by rw [hbic]; simp, hLlast⟩
    · have hxs' : x ∉ st.toCheck := by
        rw [hstk]; intro hm'
        rcases List.mem_cons.1 hm' with h0 | h0
        · exact hxv' h0
        · exact hxs h0
      obtain ⟨b, hb, hbx⟩ := bk.bcov x hx hxv hxs' hx0 (hsub _ htx) hpx
      have htxv : tp x ≠ v := fun h0 => hvr (h0 ▸ htx)
      rw [hold] at hb
      rcases List.mem_append.1 hb with hb | hb
      · rcases List.mem_append.1 hb with hb | hb
        · exact ⟨b, by rw [hbic]; exact List.mem_append.2 (.inl hb), hbx⟩
        · exfalso
          obtain ⟨x', hx', h1, _⟩ := hT b (List.mem_reverse.1 hb)
          rw [hbx] at hx'; cases hx'
          exact htxv h1
      · exfalso
        simp at hb; subst hb
        exact htxv (hC x hbx).1
  · intro c hc hcv hcs hc0 hpc htc hlc
    rw [hstk'] at hcs
    by_cases hcv' : c = v
    · subst hcv'
      exact ⟨_, by rw [hbic]; exact List.getLast?_concat, hLlast⟩
    · exfalso
      have hcs' : c ∉ st.toCheck := by
        rw [hstk]; intro hm'
        rcases List.mem_cons.1 hm' with h0 | h0
        · exact hcv' h0
        · exact hcs h0
      obtain ⟨e1', e2'⟩ := hL c hc hcv hcs' hc0
      rw [e1', e2'] at hlc
      obtain ⟨rest'', hr, _⟩ := la.ar3 c hc hcv hcs' hc0 hpc htc hlc
      rw [hstk] at hr
      have htcv : tp c = v := by cases hr; rfl
      rw [htcv] at hpc hlc
      exact hnopend c hc hcv hcs' hc0 hpc hv0 hlc
  · intro _ hlast
    rw [hbic, List.getLast?_concat] at hlast
    have := congrArg List.length (Option.some.inj hlast)
    simp at this
  · obtain ⟨E, hE, hF⟩ := bk.out
    exact ⟨E, hE, hF.imp hblk⟩

end GDist
