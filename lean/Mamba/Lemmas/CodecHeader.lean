import Mamba.Lemmas.CodecBase
/-! The decoders' header parser `decHeader` against the format's `Formats.readN`; `inRange` against the format's. -/
namespace Codec
open Formats

theorem inRange_eq_spec (s : Bytes) : inRange s = Formats.inRange s.toList := by
  unfold inRange Formats.inRange
  rw [← Array.all_toList]

theorem inRange_iff (s : Bytes) : inRange s = true ↔ ∀ c ∈ s.toList, 63 ≤ c ∧ c ≤ 126 := by
  rw [inRange_eq_spec]; unfold Formats.inRange
  simp only [List.all_eq_true, Bool.and_eq_true, decide_eq_true_eq]

theorem decHeader_one (a : Nat) (rest : List Nat) (h : a ≠ 126) :
    decHeader (a :: rest).toArray = .ok (some (bsub a 63, 1)) := by
  simp [decHeader, h]

theorem decHeader_short4 (rest : List Nat) (h : rest.length < 3) :
    decHeader (126 :: rest).toArray = .ok none := by
  have : rest.length + 1 < 4 := by omega
  simp [decHeader, this]

theorem decHeader_four (b c d : Nat) (r3 : List Nat) (h : b ≠ 126) :
    decHeader (126 :: b :: c :: d :: r3).toArray =
      .ok (some ((bsub b 63 <<< 12) + (bsub c 63 <<< 6) + bsub d 63, 4)) := by
  simp [decHeader, h]

theorem decHeader_short8 (c d : Nat) (r3 : List Nat) (h : r3.length < 4) :
    decHeader (126 :: 126 :: c :: d :: r3).toArray = .ok none := by
  have : r3.length + 1 + 1 + 1 + 1 < 8 := by omega
  simp [decHeader, this]

theorem decHeader_eight (c d e f g h : Nat) (r7 : List Nat) :
    decHeader (126 :: 126 :: c :: d :: e :: f :: g :: h :: r7).toArray =
      .ok (some ((bsub c 63 <<< 30) + (bsub d 63 <<< 24) + (bsub e 63 <<< 18) + (bsub f 63 <<< 12)
                       + (bsub g 63 <<< 6) + bsub h 63, 8)) := by
  have h1 : ¬ (r7.length + 1 + 1 + 1 + 1 + 1 + 1 + 1 + 1 < 4) := by omega
  have h2 : ¬ (r7.length + 1 + 1 + 1 + 1 + 1 + 1 + 1 + 1 < 8) := by omega
  simp [decHeader, h1, h2]

theorem decHeader_ne_panic (s : Bytes) (h : 0 < s.size) : decHeader s ≠ .panic ∧ decHeader s ≠ .outOfFuel := by
  obtain ⟨l⟩ := s
  match l, h with
  | a :: rest, _ =>
    by_cases ha : a ≠ 126
    · rw [decHeader_one a rest ha]; simp
    · have ha : a = 126 := by omega
      subst ha
      match rest with
      | [] | [_] | [_, _] => rw [decHeader_short4 _ (by simp)]; simp
      | b :: c :: d :: r3 =>
        by_cases hb : b ≠ 126
        · rw [decHeader_four b c d r3 hb]; simp
        · have hb : b = 126 := by omega
          subst hb
          match r3 with
          | [] | [_] | [_, _] | [_, _, _] => rw [decHeader_short8 _ _ _ (by simp)]; simp
          | e :: f :: g :: h :: r7 => rw [decHeader_eight]; simp

theorem decHeader_spec (s : Bytes) (h : 0 < s.size) (hr : inRange s = true) :
    (decHeader s = .ok none ∧ readN s.toList = none) ∨
    (∃ n i, decHeader s = .ok (some (n, i)) ∧ readN s.toList = some (n, s.toList.drop i) ∧ i ≤ s.size ∧
        (i = 1 ∨ i = 4 ∨ i = 8) ∧ n < 2 ^ 36 ∧ (i = 1 → n ≤ 62) ∧ (i = 4 → n < 2 ^ 18)) := by
  rw [inRange_iff] at hr
  obtain ⟨l⟩ := s
  match l, h with
  | a :: rest, _ =>
    have ra := hr a (by simp)
    by_cases ha : a ≠ 126
    · right
      refine ⟨a - 63, 1, ?_, ?_, by simp, by simp, by omega, by omega, by simp⟩
      · rw [decHeader_one a rest ha, bsub_of_le ra.1 (by omega)]
      · simp [readN, ha]
    · have ha : a = 126 := by omega
      subst ha
      match rest with
      | [] | [_] | [_, _] => left; exact ⟨decHeader_short4 _ (by simp), by simp [readN]⟩
      | b :: c :: d :: r3 =>
        have rb := hr b (by simp)
        have rc := hr c (by simp)
        have rd := hr d (by simp)
        by_cases hb : b ≠ 126
        · right
          refine ⟨(b - 63) * 4096 + (c - 63) * 64 + (d - 63), 4, ?_, ?_, by simp, by simp, by omega, by simp, by omega⟩
          · rw [decHeader_four b c d r3 hb, bsub_of_le rb.1 (by omega), bsub_of_le rc.1 (by omega),
              bsub_of_le rd.1 (by omega)]
            simp [Nat.shiftLeft_eq]
          · simp [readN, hb]
        · have hb : b = 126 := by omega
          subst hb
          match r3 with
          | [] | [_] | [_, _] | [_, _, _] => left; exact ⟨decHeader_short8 _ _ _ (by simp), by simp [readN]⟩
          | e :: f :: g :: h :: r7 =>
            have re := hr e (by simp)
            have rf := hr f (by simp)
            have rg := hr g (by simp)
            have rh := hr h (by simp)
            right
            refine ⟨(c - 63) * 1073741824 + (d - 63) * 16777216 + (e - 63) * 262144 + (f - 63) * 4096
                  + (g - 63) * 64 + (h - 63), 8, ?_, ?_, by simp, by simp, by omega, by simp, by simp⟩
            · rw [decHeader_eight, bsub_of_le rc.1 (by omega), bsub_of_le rd.1 (by omega),
                bsub_of_le re.1 (by omega), bsub_of_le rf.1 (by omega), bsub_of_le rg.1 (by omega),
                bsub_of_le rh.1 (by omega)]
              simp [Nat.shiftLeft_eq]
            · simp [readN]

/-- `Sparse6Decode` has its own copy of the size-header reader and of the byte-range loop, with its own regenerated
constants; they are the same functions -/
theorem decHeaderS6_eq : decHeaderS6 = decHeader := rfl
theorem inRangeS6_eq : inRangeS6 = inRange := rfl

end Codec
