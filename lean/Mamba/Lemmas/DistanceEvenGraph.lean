import Mamba.Lemmas.DistanceSpanCycle
/-!
# Even edge sets: the graph of a code list, degrees, and the handshake lemma
-/
namespace GDist
open GraphSpec Model

/-- the graph on `0..n-1` whose edges are the pairs with code in `t` -/
def codeG (n : Nat) (t : List Nat) : G :=
  { n := n, adj := fun x y => decide (x ≠ y) && decide (x < n) && decide (y < n) && decide (edgeCode x y ∈ t) }

theorem codeG_adj {n : Nat} {t : List Nat} {x y : Nat} :
    (codeG n t).adj x y = true ↔ (x ≠ y ∧ x < n ∧ y < n ∧ edgeCode x y ∈ t) := by
  simp [codeG, and_assoc]

theorem codeG_symm (n : Nat) (t : List Nat) (x y : Nat) : (codeG n t).adj x y = (codeG n t).adj y x := by
  rw [Bool.eq_iff_iff, codeG_adj, codeG_adj, edgeCode_comm x y]
  exact ⟨fun ⟨h1, h2, h3, h4⟩ => ⟨Ne.symm h1, h3, h2, h4⟩, fun ⟨h1, h2, h3, h4⟩ => ⟨Ne.symm h1, h3, h2, h4⟩⟩

/-- the number of neighbours of `v` in `codeG n t` is the degree of `v` in `t` -/
theorem deg_bij {n : Nat} {t : List Nat} (hnd : t.Nodup) {v : Nat} (hv : v < n) :
    ((codeG n t).nbrs v).length = degIn n t v := by
  unfold degIn
  rw [List.countP_eq_length_filter]
  have hmap : (((codeG n t).nbrs v).map fun x => edgeCode v x).Nodup := by
    apply List.Nodup.map_on
    · intro x hx y hy hxy
      obtain ⟨_, hax⟩ := mem_nbrs.1 hx
      obtain ⟨_, hay⟩ := mem_nbrs.1 hy
      have h1 := (codeG_adj.1 hax).1
      have h2 := (codeG_adj.1 hay).1
      rcases normE_eq (edgeCode_inj (e := (v, x)) (e' := (v, y)) h1 h2 hxy) with h | h
      · exact h.2
      · exact absurd h.1 h2
    · exact List.nodup_range.filter _
  have hperm : (((codeG n t).nbrs v).map fun x => edgeCode v x).Perm (t.filter (incid n v)) := by
    rw [List.perm_ext_iff_of_nodup hmap (hnd.filter _)]
    intro c
    simp only [List.mem_map, List.mem_filter]
    constructor
    · rintro ⟨x, hx, rfl⟩
      obtain ⟨hxn, hax⟩ := mem_nbrs.1 hx
      obtain ⟨h1, _, _, h4⟩ := codeG_adj.1 hax
      refine ⟨h4, ?_⟩
      unfold incid
      simp only [List.any_eq_true, List.mem_range, Bool.and_eq_true, bne_iff_ne, ne_eq, beq_iff_eq]
      exact ⟨x, hxn, Ne.symm h1, rfl⟩
    · rintro ⟨hct, hinc⟩
      unfold incid at hinc
      simp only [List.any_eq_true, List.mem_range, Bool.and_eq_true, bne_iff_ne, ne_eq, beq_iff_eq] at hinc
      obtain ⟨x, hxn, hxv, hc⟩ := hinc
      exact ⟨x, mem_nbrs.2 ⟨hxn, codeG_adj.2 ⟨fun h => hxv h.symm, hv, hxn, hc ▸ hct⟩⟩, hc.symm⟩
  have := hperm.length_eq
  simpa using this

theorem degsum_cons_inner (adj : Nat → Nat → Bool) (s : Nat) (B : List Nat) : ∀ (A : List Nat),
    (A.map fun v => ((s :: B).filter fun x => adj v x).length).sum
      = A.countP (fun v => adj v s) + (A.map fun v => (B.filter fun x => adj v x).length).sum
  | [] => by simp
  | v :: A => by
    have ih := degsum_cons_inner adj s B A
    simp only [List.map_cons, List.sum_cons, List.countP_cons]
    rw [ih]
    have : ((s :: B).filter fun x => adj v x).length
        = (if adj v s = true then 1 else 0) + (B.filter fun x => adj v x).length := by
      rw [List.filter_cons]
      split <;> simp <;> omega
    rw [this]
    omega

/-- handshake: for a symmetric irreflexive relation the sum of the degrees inside a list is even -/
theorem handshake (adj : Nat → Nat → Bool) (hs : ∀ x y, adj x y = adj y x) (hi : ∀ x, adj x x = false) :
    ∀ (S : List Nat), ((S.map fun v => (S.filter fun x => adj v x).length).sum) % 2 = 0
  | [] => by simp
  | s :: S => by
    have ih := handshake adj hs hi S
    have h1 : ((s :: S).filter fun x => adj s x).length = (S.filter fun x => adj s x).length := by
      simp [List.filter_cons, hi]
    have h2 := degsum_cons_inner adj s S S
    have h3 : S.countP (fun v => adj v s) = (S.filter fun x => adj s x).length := by
      rw [List.countP_eq_length_filter]
      congr 1
      apply List.filter_congr
      intro x _; exact hs x s
    simp only [List.map_cons, List.sum_cons]
    rw [h1, h2, h3]
    omega

end GDist
