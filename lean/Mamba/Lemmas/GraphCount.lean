import Mamba.Spec.GraphOps
import Mathlib.Data.List.Nodup
/-!
# Counting on the abstract graph `GraphSpec.G` (property C05)

How `G.deg` and `G.m` change under the spec operations, and that the spec operations preserve `G.WF`.
Shared by the dense and the sparse refinement proofs.
-/
namespace GraphRep
open GraphSpec

/-- number of `i < k` with `p i` -/
def cnt (k : Nat) (p : Nat → Bool) : Nat := ((List.range k).filter p).length
/-- `Σ_{i<k} f i` -/
def sumTo (k : Nat) (f : Nat → Nat) : Nat := ((List.range k).map f).sum

@[simp] theorem cnt_zero (p) : cnt 0 p = 0 := rfl
@[simp] theorem sumTo_zero (f) : sumTo 0 f = 0 := rfl

theorem cnt_succ (k p) : cnt (k + 1) p = cnt k p + (p k).toNat := by
  unfold cnt
  rw [List.range_succ, List.filter_append, List.length_append]
  cases h : p k <;> simp [h]

theorem sumTo_succ (k f) : sumTo (k + 1) f = sumTo k f + f k := by
  unfold sumTo
  rw [List.range_succ, List.map_append, List.sum_append]; simp

theorem cnt_congr {k : Nat} {p q : Nat → Bool} (h : ∀ i, i < k → p i = q i) : cnt k p = cnt k q := by
  induction k with
  | zero => rfl
  | succ k ih =>
    rw [cnt_succ, cnt_succ, ih (fun i hi => h i (by omega)), h k (by omega)]

theorem sumTo_congr {k : Nat} {f g : Nat → Nat} (h : ∀ i, i < k → f i = g i) : sumTo k f = sumTo k g := by
  induction k with
  | zero => rfl
  | succ k ih =>
    rw [sumTo_succ, sumTo_succ, ih (fun i hi => h i (by omega)), h k (by omega)]

theorem cnt_eq_sumTo (k p) : cnt k p = sumTo k (fun i => (p i).toNat) := by
  induction k with
  | zero => rfl
  | succ k ih => rw [cnt_succ, sumTo_succ, ih]

theorem sumTo_add (k f g) : sumTo k (fun i => f i + g i) = sumTo k f + sumTo k g := by
  induction k with
  | zero => rfl
  | succ k ih => rw [sumTo_succ, sumTo_succ, sumTo_succ, ih]; omega

theorem cnt_le (k p) : cnt k p ≤ k := by
  induction k with
  | zero => simp
  | succ k ih => rw [cnt_succ]; cases p k <;> simp <;> omega

/-- switching one position from false to true adds one -/
theorem cnt_set_true {k a : Nat} {p q : Nat → Bool} (ha : a < k) (hp : p a = false) (hq : q a = true)
    (h : ∀ i, i ≠ a → q i = p i) : cnt k q = cnt k p + 1 := by
  induction k with
  | zero => omega
  | succ k ih =>
    rw [cnt_succ, cnt_succ]
    by_cases hak : a = k
    · subst hak
      rw [cnt_congr (p := q) (q := p) (fun i hi => h i (by omega)), hp, hq]; simp
    · rw [ih (by omega), h k (by omega)]; omega

theorem sumTo_add_one {k a : Nat} {f g : Nat → Nat} (ha : a < k) (hg : g a = f a + 1)
    (h : ∀ i, i ≠ a → g i = f i) : sumTo k g = sumTo k f + 1 := by
  induction k with
  | zero => omega
  | succ k ih =>
    rw [sumTo_succ, sumTo_succ]
    by_cases hak : a = k
    · subst hak
      rw [sumTo_congr (f := g) (g := f) (fun i hi => h i (by omega)), hg]; omega
    · rw [ih (by omega), h k (by omega)]; omega

theorem up_lt {v a : Nat} (h : a < v) : up v a = a := by simp [up, h]
theorem up_ge {v a : Nat} (h : v ≤ a) : up v a = a + 1 := by simp [up]; omega
theorem up_ne (v a : Nat) : up v a ≠ v := by unfold up; split <;> omega

/-- removing position `v` from a count -/
theorem cnt_skip {n v : Nat} (p : Nat → Bool) (hv : v < n) :
    cnt n p = cnt (n - 1) (fun a => p (up v a)) + (p v).toNat := by
  induction n with
  | zero => omega
  | succ k ih =>
    rw [cnt_succ, Nat.add_sub_cancel]
    by_cases hvk : v = k
    · subst hvk
      rw [cnt_congr (p := fun a => p (up v a)) (q := p) (fun i hi => by simp [up_lt hi])]
    · have hk : v < k := by omega
      rw [ih hk]
      obtain ⟨k', rfl⟩ : ∃ k', k = k' + 1 := ⟨k - 1, by omega⟩
      rw [Nat.add_sub_cancel, cnt_succ, up_ge (by omega : v ≤ k')]; omega

theorem sumTo_skip {n v : Nat} (f : Nat → Nat) (hv : v < n) :
    sumTo n f = sumTo (n - 1) (fun a => f (up v a)) + f v := by
  induction n with
  | zero => omega
  | succ k ih =>
    rw [sumTo_succ, Nat.add_sub_cancel]
    by_cases hvk : v = k
    · subst hvk
      rw [sumTo_congr (f := fun a => f (up v a)) (g := f) (fun i hi => by simp [up_lt hi])]
    · have hk : v < k := by omega
      rw [ih hk]
      obtain ⟨k', rfl⟩ : ∃ k', k = k' + 1 := ⟨k - 1, by omega⟩
      rw [Nat.add_sub_cancel, sumTo_succ, up_ge (by omega : v ≤ k')]; omega

theorem sumTo_below {k v : Nat} (f : Nat → Nat) (hv : v ≤ k) :
    sumTo k (fun w => if w < v then f w else 0) = sumTo v f := by
  induction k with
  | zero => have : v = 0 := by omega
            subst this; rfl
  | succ k ih =>
    rw [sumTo_succ]
    by_cases hvk : v = k + 1
    · subst hvk
      rw [sumTo_succ, sumTo_congr (f := fun w => if w < k + 1 then f w else 0) (g := f)
        (fun i hi => by simp; omega)]
      simp
    · rw [ih (by omega)]; simp; omega

/-- a duplicate-free list of numbers below `n` is counted in full -/
theorem cnt_contains {n : Nat} {S : List Nat} (hn : S.Nodup) (hS : ∀ s ∈ S, s < n) :
    cnt n (fun w => S.contains w) = S.length := by
  unfold cnt
  apply List.Perm.length_eq
  rw [List.perm_ext_iff_of_nodup (List.nodup_range.filter _) hn]
  intro a
  simp only [List.mem_filter, List.mem_range, List.contains_iff_mem]
  exact ⟨fun h => h.2, fun h => ⟨hS a h, h⟩⟩

/-! ## `deg` and `m` as counts -/

theorem deg_eq_cnt (g : G) (v : Nat) : g.deg v = cnt g.n (g.adj v) := rfl

theorem m_eq_sumTo (g : G) : g.m = sumTo g.n (fun v => cnt v (fun u => g.adj u v)) := by
  unfold G.m G.edges sumTo cnt
  rw [List.length_flatMap]
  simp

theorem degrees_eq (g : G) : g.degrees = (List.range g.n).map (fun v => cnt g.n (g.adj v)) := rfl

/-! ## the spec operations keep `G.WF` -/

theorem addVertexG_wf {g : G} (h : g.WF) {S : List Nat} (hS : ∀ s ∈ S, s < g.n) : (addVertexG g S).WF where
  symm := by
    intro u v
    simp only [addVertexG]
    rw [h.symm u v]
    cases (u == g.n && S.contains v) <;> cases (v == g.n && S.contains u) <;> simp
  irrefl := by
    intro v
    simp only [addVertexG, h.irrefl, Bool.or_false, Bool.or_self, Bool.and_eq_false_imp, beq_iff_eq]
    intro hv
    subst hv
    cases hc : S.contains g.n
    · rfl
    · have := hS g.n (by simpa using hc); omega
  supp := by
    intro u v
    simp only [addVertexG, Bool.or_eq_true, Bool.and_eq_true, beq_iff_eq, List.contains_iff_mem]
    rintro ((⟨rfl, hv⟩ | ⟨rfl, hu⟩) | huv)
    · have := hS v hv; omega
    · have := hS u hu; omega
    · have := h.supp u v huv; omega

theorem removeVertexG_wf {g : G} (h : g.WF) {v : Nat} (hv : v < g.n) : (removeVertexG g v).WF where
  symm := by intro a b; simp only [removeVertexG]; exact h.symm _ _
  irrefl := by intro a; simp only [removeVertexG]; exact h.irrefl _
  supp := by
    intro a b hab
    simp only [removeVertexG] at hab ⊢
    have := h.supp _ _ hab
    unfold up at this
    constructor
    · split at this <;> omega
    · have := this.2; split at this <;> omega

theorem addEdgeG_wf {g : G} (h : g.WF) {i j : Nat} (hi : i < g.n) (hj : j < g.n) : (addEdgeG g i j).WF where
  symm := by
    intro u v
    simp only [addEdgeG]
    rw [h.symm u v, Bool.or_comm (u == i && v == j), Bool.and_comm (u == j), Bool.and_comm (v == j)]
  irrefl := by
    intro v
    simp only [addEdgeG, h.irrefl, Bool.false_or, Bool.or_self]
    by_cases hij : i = j
    · simp [hij]
    · cases h1 : v == i <;> cases h2 : v == j <;> simp_all
  supp := by
    intro u v
    simp only [addEdgeG, Bool.or_eq_true, Bool.and_eq_true, beq_iff_eq]
    rintro (huv | ⟨_, (⟨rfl, rfl⟩ | ⟨rfl, rfl⟩)⟩)
    · exact h.supp u v huv
    · exact ⟨hi, hj⟩
    · exact ⟨hj, hi⟩

theorem removeEdgeG_wf {g : G} (h : g.WF) (i j : Nat) : (removeEdgeG g i j).WF where
  symm := by
    intro u v
    simp only [removeEdgeG]
    rw [h.symm u v, Bool.or_comm (u == i && v == j), Bool.and_comm (u == j), Bool.and_comm (v == j)]
  irrefl := by intro v; simp [removeEdgeG, h.irrefl]
  supp := by
    intro u v
    simp only [removeEdgeG, Bool.and_eq_true]
    rintro ⟨huv, _⟩
    exact h.supp u v huv

theorem induced_wf {g : G} (h : g.WF) (V : List Nat) : (g.induced V).WF where
  symm := by
    intro u v
    simp only [G.induced]
    rw [h.symm, Bool.and_comm (decide (u < V.length))]
  irrefl := by intro v; simp [G.induced, h.irrefl]
  supp := by
    intro u v
    simp only [G.induced, Bool.and_eq_true, decide_eq_true_eq]
    rintro ⟨⟨hu, hv⟩, _⟩
    exact ⟨hu, hv⟩

theorem stepG_wf {g : G} (h : g.WF) {o : Op} (hv : o.valid g.n) : (stepG g o).WF := by
  cases o with
  | av S => exact addVertexG_wf h hv.2
  | rv v => exact removeVertexG_wf h hv
  | ae i j => exact addEdgeG_wf h hv.1 hv.2
  | re i j => exact removeEdgeG_wf h i j
  | cp => exact h
  | is V => exact induced_wf h V

theorem G_ext {g h : G} (hn : g.n = h.n) (ha : ∀ u v, g.adj u v = h.adj u v) : g = h := by
  cases g; cases h; simp only [G.mk.injEq] at *
  exact ⟨hn, funext fun u => funext fun v => ha u v⟩

/-! ## `AddEdge` / `RemoveEdge` -/

theorem addEdgeG_comm (g : G) (i j : Nat) : addEdgeG g i j = addEdgeG g j i := by
  refine G_ext rfl ?_
  intro u v
  simp only [addEdgeG]
  rw [bne_comm, Bool.or_comm (u == i && v == j)]

theorem addEdgeG_noop {g : G} (h : g.WF) {i j : Nat} (hij : i = j ∨ g.adj i j = true) : addEdgeG g i j = g := by
  refine G_ext rfl ?_
  intro u v
  simp only [addEdgeG]
  rcases hij with rfl | hadj
  · simp
  · by_cases h1 : u = i ∧ v = j
    · obtain ⟨rfl, rfl⟩ := h1; simp [hadj]
    · by_cases h2 : u = j ∧ v = i
      · obtain ⟨rfl, rfl⟩ := h2; rw [h.symm]; simp [hadj]
      · have e1 : (u == i && v == j) = false := by simpa using h1
        have e2 : (u == j && v == i) = false := by simpa using h2
        simp [e1, e2]

theorem removeEdgeG_noop {g : G} (h : g.WF) {i j : Nat} (hadj : g.adj i j = false) : removeEdgeG g i j = g := by
  refine G_ext rfl ?_
  intro u v
  simp only [removeEdgeG]
  by_cases h1 : u = i ∧ v = j
  · obtain ⟨rfl, rfl⟩ := h1; simp [hadj]
  · by_cases h2 : u = j ∧ v = i
    · obtain ⟨rfl, rfl⟩ := h2; rw [h.symm]; simp [hadj]
    · have e1 : (u == i && v == j) = false := by simpa using h1
      have e2 : (u == j && v == i) = false := by simpa using h2
      simp [e1, e2]

theorem addEdgeG_removeEdgeG {g : G} (h : g.WF) {i j : Nat} (hij : i ≠ j) (hadj : g.adj i j = true) :
    addEdgeG (removeEdgeG g i j) i j = g := by
  refine G_ext rfl ?_
  intro u v
  simp only [addEdgeG, removeEdgeG]
  by_cases h1 : u = i ∧ v = j
  · obtain ⟨rfl, rfl⟩ := h1; simp [hadj, hij]
  · by_cases h2 : u = j ∧ v = i
    · obtain ⟨rfl, rfl⟩ := h2; rw [h.symm]; simp [hadj, hij]
    · have e1 : (u == i && v == j) = false := by simpa using h1
      have e2 : (u == j && v == i) = false := by simpa using h2
      simp [e1, e2]

theorem removeEdgeG_adj_self (g : G) (i j : Nat) : (removeEdgeG g i j).adj i j = false := by
  simp [removeEdgeG]

theorem deg_addEdgeG {g : G} (h : g.WF) {i j : Nat} (hj : j < g.n) (hi : i < g.n) (hij : i ≠ j)
    (hadj : g.adj i j = false) (u : Nat) :
    (addEdgeG g i j).deg u = g.deg u + (if u = i ∨ u = j then 1 else 0) := by
  rw [deg_eq_cnt, deg_eq_cnt]
  show cnt g.n ((addEdgeG g i j).adj u) = _
  by_cases hui : u = i
  · subst hui
    rw [cnt_set_true (a := j) (p := g.adj u) hj hadj]
    · simp
    · simp [addEdgeG, hij]
    · intro w hw
      have : (w == j) = false := by simpa using hw
      have e : (u == j) = false := by simpa using hij
      simp [addEdgeG, this, e]
  · by_cases huj : u = j
    · subst huj
      rw [cnt_set_true (a := i) (p := g.adj u) hi (by rw [h.symm]; exact hadj)]
      · simp
      · simp [addEdgeG, hij]
      · intro w hw
        have : (w == i) = false := by simpa using hw
        have e : (u == i) = false := by simpa using hui
        simp [addEdgeG, this, e]
    · have e1 : (u == i) = false := by simpa using hui
      have e2 : (u == j) = false := by simpa using huj
      rw [cnt_congr (q := g.adj u)]
      · simp [hui, huj]
      · intro w _; simp [addEdgeG, e1, e2]

theorem m_addEdgeG_lt {g : G} (h : g.WF) {i j : Nat} (hj : j < g.n) (hij : i < j)
    (hadj : g.adj i j = false) : (addEdgeG g i j).m = g.m + 1 := by
  rw [m_eq_sumTo, m_eq_sumTo]
  show sumTo g.n (fun v => cnt v (fun u => (addEdgeG g i j).adj u v)) = _
  apply sumTo_add_one (a := j) hj
  · apply cnt_set_true (a := i) hij hadj
    · have : (i != j) = true := by simp; omega
      simp [addEdgeG, this]
    · intro w hw
      have : (w == i) = false := by simpa using hw
      have e : (j == i) = false := by simp; omega
      simp [addEdgeG, this, e]
  · intro v hv
    apply cnt_congr
    intro u hu
    have e1 : (v == j) = false := by simpa using hv
    have e2 : (u == j && v == i) = false := by
      simp only [Bool.and_eq_false_imp, beq_iff_eq, beq_eq_false_iff_ne]; intro a b; omega
    simp [addEdgeG, e1, e2]

theorem m_addEdgeG {g : G} (h : g.WF) {i j : Nat} (hi : i < g.n) (hj : j < g.n) (hij : i ≠ j)
    (hadj : g.adj i j = false) : (addEdgeG g i j).m = g.m + 1 := by
  by_cases hlt : i < j
  · exact m_addEdgeG_lt h hj hlt hadj
  · rw [addEdgeG_comm]
    exact m_addEdgeG_lt h hi (by omega) (by rw [h.symm]; exact hadj)

theorem deg_removeEdgeG {g : G} (h : g.WF) {i j : Nat} (hi : i < g.n) (hj : j < g.n) (hij : i ≠ j)
    (hadj : g.adj i j = true) (u : Nat) :
    (removeEdgeG g i j).deg u + (if u = i ∨ u = j then 1 else 0) = g.deg u := by
  have := deg_addEdgeG (removeEdgeG_wf h i j) (i := i) (j := j) hj hi hij (removeEdgeG_adj_self g i j) u
  rw [addEdgeG_removeEdgeG h hij hadj] at this
  exact this.symm

theorem m_removeEdgeG {g : G} (h : g.WF) {i j : Nat} (hi : i < g.n) (hj : j < g.n) (hij : i ≠ j)
    (hadj : g.adj i j = true) : (removeEdgeG g i j).m + 1 = g.m := by
  have := m_addEdgeG (removeEdgeG_wf h i j) (i := i) (j := j) hi hj hij (removeEdgeG_adj_self g i j)
  rw [addEdgeG_removeEdgeG h hij hadj] at this
  exact this.symm

/-! ## `AddVertex` -/

theorem addVertexG_adj_old {g : G} (S : List Nat) {u w : Nat} (hu : u < g.n) (hw : w < g.n) :
    (addVertexG g S).adj u w = g.adj u w := by
  have e1 : (u == g.n) = false := by simp; omega
  have e2 : (w == g.n) = false := by simp; omega
  simp [addVertexG, e1, e2]

theorem addVertexG_adj_new {g : G} (h : g.WF) (S : List Nat) {u : Nat} (hu : u < g.n) :
    (addVertexG g S).adj u g.n = S.contains u := by
  have e1 : (u == g.n) = false := by simp; omega
  have e2 : g.adj u g.n = false := by
    cases hc : g.adj u g.n
    · rfl
    · have := (h.supp _ _ hc).2; omega
  simp [addVertexG, e1, e2]

theorem deg_addVertexG_old {g : G} (h : g.WF) (S : List Nat) {u : Nat} (hu : u < g.n) :
    (addVertexG g S).deg u = g.deg u + (S.contains u).toNat := by
  rw [deg_eq_cnt, deg_eq_cnt]
  show cnt (g.n + 1) _ = _
  rw [cnt_succ, addVertexG_adj_new h S hu]
  congr 1
  exact cnt_congr fun w hw => addVertexG_adj_old S hu hw

theorem deg_addVertexG_new {g : G} (h : g.WF) {S : List Nat} (hn : S.Nodup) (hS : ∀ s ∈ S, s < g.n) :
    (addVertexG g S).deg g.n = S.length := by
  have hwf := addVertexG_wf h hS
  rw [deg_eq_cnt]
  show cnt (g.n + 1) _ = _
  rw [cnt_succ, hwf.irrefl, ← cnt_contains hn hS]
  simp only [Bool.toNat_false, Nat.add_zero]
  exact cnt_congr fun w hw => by rw [hwf.symm, addVertexG_adj_new h S hw]

theorem m_addVertexG {g : G} (h : g.WF) {S : List Nat} (hn : S.Nodup) (hS : ∀ s ∈ S, s < g.n) :
    (addVertexG g S).m = g.m + S.length := by
  rw [m_eq_sumTo, m_eq_sumTo]
  show sumTo (g.n + 1) _ = _
  rw [sumTo_succ, ← cnt_contains hn hS]
  congr 1
  · exact sumTo_congr fun v hv => cnt_congr fun u hu => addVertexG_adj_old S (by omega) hv
  · exact cnt_congr fun w hw => addVertexG_adj_new h S hw

/-! ## `RemoveVertex` -/

theorem deg_removeVertexG (g : G) {v : Nat} (hv : v < g.n) (a : Nat) :
    (removeVertexG g v).deg a + (g.adj (up v a) v).toNat = g.deg (up v a) := by
  rw [deg_eq_cnt, deg_eq_cnt, cnt_skip (g.adj (up v a)) hv]
  rfl

theorem m_removeVertexG {g : G} (h : g.WF) {v : Nat} (hv : v < g.n) :
    (removeVertexG g v).m + g.deg v = g.m := by
  -- the edges above `v` that disappear
  let H : Nat → Nat := fun a => if v ≤ a then (g.adj v (a + 1)).toNat else 0
  have hrow : ∀ a, a < g.n - 1 →
      cnt (up v a) (fun u => g.adj u (up v a)) =
        cnt a (fun u => g.adj (up v u) (up v a)) + H a := by
    intro a _
    by_cases hav : a < v
    · have : H a = 0 := by simp [H]; omega
      rw [this, up_lt hav, Nat.add_zero]
      exact cnt_congr fun u hu => by rw [up_lt (by omega : u < v)]
    · have hva : v ≤ a := by omega
      have : H a = (g.adj v (a + 1)).toNat := by simp [H, hva]
      rw [this, up_ge hva, cnt_skip (fun u => g.adj u (a + 1)) (by omega : v < a + 1), Nat.add_sub_cancel]
  have hm : g.m = (removeVertexG g v).m + sumTo (g.n - 1) H + cnt v (fun u => g.adj u v) := by
    rw [m_eq_sumTo g, sumTo_skip (fun w => cnt w (fun u => g.adj u w)) hv, sumTo_congr hrow, sumTo_add,
      m_eq_sumTo (removeVertexG g v)]
    rfl
  have hd : g.deg v = cnt v (fun u => g.adj u v) + sumTo (g.n - 1) H := by
    rw [deg_eq_cnt, cnt_skip (g.adj v) hv, h.irrefl, cnt_eq_sumTo]
    simp only [Bool.toNat_false, Nat.add_zero]
    rw [sumTo_congr (g := fun a => (if a < v then (g.adj v a).toNat else 0) + H a), sumTo_add,
      sumTo_below _ (by omega : v ≤ g.n - 1), ← cnt_eq_sumTo]
    · congr 1
      exact cnt_congr fun u _ => h.symm v u
    · intro a _
      by_cases hav : a < v
      · have : H a = 0 := by simp [H]; omega
        rw [this, up_lt hav]; simp [hav]
      · have hva : v ≤ a := by omega
        have : H a = (g.adj v (a + 1)).toNat := by simp [H, hva]
        rw [this, up_ge hva]; simp [hav]
  omega

theorem up_lt_up {v a b : Nat} (h : a < b) : up v a < up v b := by
  unfold up; split <;> split <;> omega

theorem cnt_false (k : Nat) : cnt k (fun _ => false) = 0 := by
  induction k with
  | zero => rfl
  | succ k ih => rw [cnt_succ, ih]; rfl

theorem sumTo_const_zero (k : Nat) : sumTo k (fun _ => 0) = 0 := by
  induction k with
  | zero => rfl
  | succ k ih => rw [sumTo_succ, ih]

/-- a graph without edges has `m = 0` and all degrees `0` -/
theorem empty_counts {g : G} (h : ∀ u v, g.adj u v = false) : g.m = 0 ∧ ∀ v, g.deg v = 0 := by
  constructor
  · rw [m_eq_sumTo, sumTo_congr (g := fun _ => 0) (fun v _ => by
      rw [cnt_congr (q := fun _ => false) (fun u _ => h u v), cnt_false]), sumTo_const_zero]
  · intro v
    rw [deg_eq_cnt, cnt_congr (q := fun _ => false) (fun u _ => h v u), cnt_false]

/-- `Neighbours` of the abstract graph is ascending -/
theorem nbrs_pairwise (g : G) (v : Nat) : (g.nbrs v).Pairwise (· < ·) := by
  unfold G.nbrs
  exact List.Pairwise.filter _ List.pairwise_lt_range

theorem mem_nbrs {g : G} (h : g.WF) (v u : Nat) : u ∈ g.nbrs v ↔ g.adj v u = true := by
  unfold G.nbrs
  rw [List.mem_filter, List.mem_range]
  exact ⟨fun x => x.2, fun x => ⟨(h.supp _ _ x).2, x⟩⟩

/-! ## handshake: the degrees add up to twice the number of edges -/

theorem handshake_aux : ∀ (n : Nat) (g : G), g.WF → g.n = n → sumTo n g.deg = 2 * g.m := by
  intro n
  induction n with
  | zero =>
    intro g _ hn
    rw [m_eq_sumTo, hn]; rfl
  | succ k ih =>
    intro g h hn
    have hv : k < g.n := by omega
    have hw := removeVertexG_wf h hv
    have hn' : (removeVertexG g k).n = k := by simp [removeVertexG, hn]
    have ih' := ih (removeVertexG g k) hw hn'
    have hm := m_removeVertexG h hv
    have hdeg : ∀ a, a < k → g.deg a = (removeVertexG g k).deg a + (g.adj a k).toNat := by
      intro a ha
      have := deg_removeVertexG g hv a
      rw [up_lt ha] at this
      omega
    have hlast : g.deg k = cnt k (fun a => g.adj a k) := by
      rw [deg_eq_cnt, hn, cnt_succ, h.irrefl]
      simp only [Bool.toNat_false, Nat.add_zero]
      exact cnt_congr fun a _ => h.symm k a
    rw [sumTo_succ, sumTo_congr hdeg, sumTo_add, ih', ← cnt_eq_sumTo, ← hlast]
    omega

theorem handshake {g : G} (h : g.WF) : sumTo g.n g.deg = 2 * g.m := handshake_aux g.n g h rfl

theorem induced_adj (g : G) (V : List Nat) {i j : Nat} (hi : i < V.length) (hj : j < V.length) :
    (g.induced V).adj i j = g.adj (V.getD i 0) (V.getD j 0) := by
  simp [G.induced, hi, hj]

end GraphRep
