import Mamba.Lemmas.IsoPreds
namespace GSearch
open GraphSpec

/-- a proper 2-colouring of the vertices `0..n-1` -/
def TwoCol (g : G) (f : Nat → Bool) : Prop := ∀ u v, u < g.n → v < g.n → g.adj u v = true → f u ≠ f v

theorem contains_filter_range {n : Nat} (f : Nat → Bool) {v : Nat} (hv : v < n) :
    ((List.range n).filter f).contains v = f v := by
  cases hf : f v
  · have : ¬ v ∈ (List.range n).filter f := by
      intro hm; have := (List.mem_filter.1 hm).2; rw [hf] at this; cases this
    simpa [List.contains_iff_mem] using this
  · exact List.contains_iff_mem.2 (List.mem_filter.2 ⟨List.mem_range.2 hv, hf⟩)

theorem isBipartite_iff {g : G} (hg : g.WF) : isBipartite g = true ↔ ∃ f, TwoCol g f := by
  unfold isBipartite
  simp only [List.any_eq_true, List.all_eq_true]
  constructor
  · rintro ⟨c, -, hc⟩
    refine ⟨fun v => c.contains v, ?_⟩
    intro u v hu hv hadj
    have key : ∀ a b, a < b → b < g.n → g.adj a b = true → c.contains a ≠ c.contains b := by
      intro a b hab hb ha
      have := hc (a, b) (mem_pairs.2 ⟨hab, hb⟩)
      simp only [ha, Bool.true_and, Bool.not_eq_eq_eq_not, Bool.not_true, beq_eq_false_iff_ne] at this
      exact this
    rcases Nat.lt_trichotomy u v with h | h | h
    · exact key u v h hv hadj
    · subst h; rw [hg.irrefl] at hadj; cases hadj
    · rw [hg.symm] at hadj
      exact fun e => key v u h hu hadj e.symm
  · rintro ⟨f, hf⟩
    refine ⟨(List.range g.n).filter f, filter_mem_subsets f _, ?_⟩
    rintro ⟨a, b⟩ hab
    have := mem_pairs.1 hab
    have ha : a < g.n := Nat.lt_trans this.1 this.2
    simp only [contains_filter_range f ha, contains_filter_range f this.2]
    cases hadj : g.adj a b
    · simp
    · have := hf a b ha this.2 hadj
      simp [this]

theorem hereditary_isBipartite : Hereditary isBipartite where
  iso g h hg hh i hp := by
    obtain ⟨hn, σ, hσ, hadj⟩ := i
    obtain ⟨f, hf⟩ := (isBipartite_iff hg).1 hp
    refine (isBipartite_iff hh).2 ⟨fun w => f (hσ.inv w), ?_⟩
    intro a b ha hb hab
    rw [← hn] at ha hb
    have ia := hσ.inv_spec ha
    have ib := hσ.inv_spec hb
    have := hadj _ _ ia.1 ib.1
    rw [ia.2, ib.2, hab] at this
    exact hf _ _ ia.1 ib.1 this
  del g hg _ hp := by
    obtain ⟨f, hf⟩ := (isBipartite_iff hg).1 hp
    refine (isBipartite_iff (delLast_wf hg)).2 ⟨f, ?_⟩
    intro u v hu hv hadj
    have hu' : u < g.n - 1 := hu
    have hv' : v < g.n - 1 := hv
    simp only [delLast, hu', hv', decide_true, Bool.true_and] at hadj
    exact hf u v (by omega) (by omega) hadj

end GSearch

namespace GSearch
open GraphSpec

/-- a set of vertices in which every vertex has at least two neighbours (a graph is a forest iff there is none) -/
structure Core (g : G) (C : List Nat) : Prop where
  nodup : C.Nodup
  lt : ∀ v ∈ C, v < g.n
  deg2 : ∀ v ∈ C, 2 ≤ (C.filter fun u => g.adj v u).length

theorem filter_length_le_of_subset {C A : List Nat} (hC : C.Nodup) (hsub : ∀ v ∈ C, v ∈ A) (p : Nat → Bool) :
    (C.filter p).length ≤ (A.filter p).length := by
  apply List.Subperm.length_le
  apply List.subperm_of_subset (hC.filter p)
  intro v hv
  have := List.mem_filter.1 hv
  exact List.mem_filter.2 ⟨hsub v this.1, this.2⟩

theorem core_subset_peel {g : G} {C : List Nat} (hC : Core g C) :
    ∀ (f : Nat) (alive : List Nat), (∀ v ∈ C, v ∈ alive) → ∀ v ∈ C, v ∈ peel g f alive
  | 0, alive, h => h
  | f + 1, alive, h => by
    apply core_subset_peel hC f
    intro v hv
    refine List.mem_filter.2 ⟨h v hv, ?_⟩
    have := filter_length_le_of_subset hC.nodup h (fun u => g.adj v u)
    have h2 := hC.deg2 v hv
    simp only [decide_eq_true_eq]
    omega

theorem peel_stable (g : G) {alive : List Nat}
    (h : ∀ v ∈ alive, 2 ≤ (alive.filter fun u => g.adj v u).length) : ∀ f, peel g f alive = alive
  | 0 => rfl
  | f + 1 => by
    have : (alive.filter fun v => decide (2 ≤ (alive.filter fun u => g.adj v u).length)) = alive := by
      apply List.filter_eq_self.2
      intro v hv; simpa using h v hv
    simp only [peel, this]
    exact peel_stable g h f

theorem peel_shrinks (g : G) : ∀ (f : Nat) (alive : List Nat),
    (peel g f alive).length + f ≤ alive.length ∨
      ∀ v ∈ peel g f alive, 2 ≤ ((peel g f alive).filter fun u => g.adj v u).length
  | 0, alive => Or.inl (by simp [peel])
  | f + 1, alive => by
    simp only [peel]
    by_cases hst : (alive.filter fun v => decide (2 ≤ (alive.filter fun u => g.adj v u).length)) = alive
    · right
      have h : ∀ v ∈ alive, 2 ≤ (alive.filter fun u => g.adj v u).length := by
        intro v hv
        have := List.filter_eq_self.1 hst v hv
        simpa using this
      rw [hst, peel_stable g h f]
      exact h
    · have hlt : (alive.filter fun v => decide (2 ≤ (alive.filter fun u => g.adj v u).length)).length < alive.length := by
        have hle := List.length_filter_le (fun v => decide (2 ≤ (alive.filter fun u => g.adj v u).length)) alive
        rcases Nat.lt_or_ge (alive.filter fun v => decide (2 ≤ (alive.filter fun u => g.adj v u).length)).length
          alive.length with h | h
        · exact h
        · exact absurd (List.filter_eq_self.2 (List.length_filter_eq_length_iff.1 (Nat.le_antisymm hle h))) hst
      rcases peel_shrinks g f (alive.filter fun v => decide (2 ≤ (alive.filter fun u => g.adj v u).length)) with h | h
      · left; omega
      · right; exact h

theorem peel_nodup (g : G) : ∀ (f : Nat) (alive : List Nat), alive.Nodup → (peel g f alive).Nodup
  | 0, _, h => h
  | f + 1, _, h => peel_nodup g f _ (h.filter _)

theorem peel_subset (g : G) : ∀ (f : Nat) (alive : List Nat), ∀ v ∈ peel g f alive, v ∈ alive
  | 0, _, v, h => h
  | f + 1, _, v, h => (List.mem_filter.1 (peel_subset g f _ v h)).1

/-- acyclic (empty 2-core) iff there is no non-empty core -/
theorem isForest_iff (g : G) : isForest g = true ↔ ∀ C, Core g C → C = [] := by
  unfold isForest
  rw [List.isEmpty_iff]
  constructor
  · intro he C hC
    by_contra hne
    obtain ⟨v, hv⟩ := List.exists_mem_of_ne_nil C hne
    have := core_subset_peel hC g.n (List.range g.n) (fun u hu => List.mem_range.2 (hC.lt u hu)) v hv
    rw [he] at this; cases this
  · intro h
    rcases peel_shrinks g g.n (List.range g.n) with hs | hs
    · simp only [List.length_range] at hs
      exact List.length_eq_zero_iff.1 (by omega)
    · exact h _ ⟨peel_nodup g _ _ List.nodup_range,
        fun v hv => List.mem_range.1 (peel_subset g _ _ v hv), hs⟩

theorem core_iso {g h : G} {σ : Nat → Nat} (hσ : IsBij g.n σ)
    (hadj : ∀ u v, u < g.n → v < g.n → g.adj u v = h.adj (σ u) (σ v)) (hn : g.n = h.n) {C : List Nat} (hC : Core g C) :
    Core h (C.map σ) where
  nodup := List.Nodup.map_on (fun x hx y hy e => hσ.inj x y (hC.lt x hx) (hC.lt y hy) e) hC.nodup
  lt := by
    intro w hw
    obtain ⟨v, hv, rfl⟩ := List.mem_map.1 hw
    exact hn ▸ hσ.maps v (hC.lt v hv)
  deg2 := by
    intro w hw
    obtain ⟨v, hv, rfl⟩ := List.mem_map.1 hw
    rw [List.filter_map, List.length_map]
    have : (C.filter ((fun u => h.adj (σ v) u) ∘ σ)) = C.filter fun u => g.adj v u := by
      apply List.filter_congr
      intro u hu
      simp only [Function.comp]
      exact (hadj v u (hC.lt v hv) (hC.lt u hu)).symm
    rw [this]
    exact hC.deg2 v hv

theorem hereditary_isForest : Hereditary isForest where
  iso g h _ _ i hp := by
    rw [isForest_iff] at hp ⊢
    intro C hC
    have i' := i.symm
    obtain ⟨hn, σ, hσ, hadj⟩ := i'
    have := hp _ (core_iso hσ hadj hn hC)
    exact List.map_eq_nil_iff.1 this
  del g _ _ hp := by
    rw [isForest_iff] at hp ⊢
    intro C hC
    apply hp C
    refine ⟨hC.nodup, fun v hv => ?_, ?_⟩
    · have : v < g.n - 1 := hC.lt v hv
      omega
    · intro v hv
      have hv' : v < g.n - 1 := hC.lt v hv
      have : (C.filter fun u => g.adj v u) = C.filter fun u => (delLast g).adj v u := by
        apply List.filter_congr
        intro u hu
        have hu' : u < g.n - 1 := hC.lt u hu
        simp [delLast, hv', hu']
      rw [this]
      exact hC.deg2 v hv

end GSearch
