import Mamba.Lemmas.C06Fam
import Mathlib.Data.Nat.Bitwise
/-! C06: `HypercubeGraph`, circulants. -/
namespace Construct
open GraphSpec


/-! ### HypercubeGraph -/

theorem xor_pow_ne (i j : Nat) : i ≠ i ^^^ 2 ^ j := by
  intro h
  have : i ^^^ i = i ^^^ (i ^^^ 2 ^ j) := by rw [← h]
  rw [Nat.xor_self, Nat.xor_xor_cancel_left] at this
  have := Nat.two_pow_pos j
  omega

theorem hypercubeGraph_ok (dim : Nat) :
    ∃ d, hypercubeGraph dim = .ok d ∧ d.WF ∧ d.n = 2 ^ dim ∧ d.abs = Families.hypercube dim := by
  obtain ⟨d, e, w, hn, a⟩ := buildByAddEdge_ok (2 ^ dim)
    ((List.range (2 ^ dim)).flatMap fun i => (List.range dim).map fun j => (i, i ^^^ 2 ^ j)) (by
    intro p hp
    simp only [List.mem_flatMap, List.mem_range, List.mem_map] at hp
    obtain ⟨i, hi, j, hj, rfl⟩ := hp
    exact ⟨hi, Nat.xor_lt_two_pow hi (Nat.pow_lt_pow_right (by decide) hj)⟩)
  refine ⟨d, ?_, w, hn, ?_⟩
  · unfold hypercubeGraph hypercubePairs
    simp only [Nat.one_shiftLeft]
    exact e
  · rw [a, Families.hypercube]
    apply ofPairs_eq_symm
    intro u v
    simp only [List.mem_flatMap, List.mem_range, List.mem_map, List.any_eq_true, beq_iff_eq]
    constructor
    · rintro ⟨p, ⟨i, hi, j, hj, rfl⟩, hne, h⟩
      have hlt : i ^^^ 2 ^ j < 2 ^ dim := Nat.xor_lt_two_pow hi (Nat.pow_lt_pow_right (by decide) hj)
      simp only at hne h
      rcases h with ⟨rfl, rfl⟩ | ⟨rfl, rfl⟩
      · exact ⟨hne, hi, hlt, Or.inl ⟨j, hj, Nat.xor_xor_cancel_left _ _⟩⟩
      · exact ⟨Ne.symm hne, hlt, hi, Or.inr ⟨j, hj, Nat.xor_xor_cancel_left _ _⟩⟩
    · rintro ⟨hne, hu, hv, h⟩
      rcases h with ⟨j, hj, h⟩ | ⟨j, hj, h⟩
      · have hv' : v = u ^^^ 2 ^ j := by rw [← h, Nat.xor_xor_cancel_left]
        exact ⟨(u, u ^^^ 2 ^ j), ⟨u, hu, j, hj, rfl⟩, xor_pow_ne u j, Or.inl ⟨rfl, hv'⟩⟩
      · have hu' : u = v ^^^ 2 ^ j := by rw [← h, Nat.xor_xor_cancel_left]
        exact ⟨(v, v ^^^ 2 ^ j), ⟨v, hv, j, hj, rfl⟩, xor_pow_ne v j, Or.inr ⟨hu', rfl⟩⟩


end Construct
