import Mamba.Lemmas.DsaturS4
/-! DSATUR model: the uncolouring loop of a backtracking step. -/
namespace CliqueColour
open GraphSpec

/-- state of the uncolouring loop: the path has been cut back to the prefix `pre` of `s.chosen` -/
structure UInv (g : G) (U0 : Nat) (s : Dsat) (pre : List Nat) (t : Dsat) : Prop where
  chosen : t.chosen = s.chosen
  cur : t.cur = s.cur
  choices : t.choices = s.choices
  maxUsed : t.maxUsed = s.maxUsed
  upper : t.upper = s.upper
  best : t.best = s.best
  lcol : t.colouring.length = g.n
  lseen : t.seen.length = g.n
  lrow : ∀ v, v < g.n → (t.seen.getD v []).length = U0
  colpre : ∀ w ∈ pre, colOf t w = colOf s w
  colrest : ∀ w, w < g.n → w ∉ pre → colOf t w = -1
  hnd : t.heap.Nodup
  hmem : ∀ w, w ∈ t.heap ↔ (w < g.n ∧ w ∉ pre)
  seenH : ∀ u ∈ t.heap, ∀ c, c < U0 → seenAt t u c = cntCol g (colOf s) pre u c
  seenP : ∀ w ∈ pre, ∀ c, seenAt t w c = seenAt s w c

theorem UInv.init {g : G} {U0 : Nat} {s : Dsat} (h : DSInv g U0 s) : UInv g U0 s s.chosen s :=
  { chosen := rfl, cur := rfl, choices := rfl, maxUsed := rfl, upper := rfl, best := rfl,
    lcol := h.lcol, lseen := h.lseen, lrow := h.lrow, colpre := fun _ _ => rfl,
    colrest := h.colun, hnd := h.hnd, hmem := h.hmem, seenH := h.seenH, seenP := fun _ _ _ => rfl }

theorem prefix_facts {l pre : List Nat} {x : Nat} (hp : (pre ++ [x]) <+: l) :
    pre.length < l.length ∧ l.getD pre.length 0 = x ∧ l.take pre.length = pre := by
  obtain ⟨r, hr⟩ := hp
  subst hr
  refine ⟨by simp, ?_, ?_⟩
  · simp [List.getD_eq_getElem?_getD]
  · simp [List.take_append_of_le_length]

theorem undo_step {g : G} (st : Dsat) (cv kc u : Nat) (hu : u < st.seen.length)
    (hk : kc < (st.seen.getD u []).length) :
    SameFrame st (if g.adj u cv then seeDec st u kc else st) ∧
      (if g.adj u cv then seeDec st u kc else st).heap = st.heap ∧
      ∀ u' c', seenAt (if g.adj u cv then seeDec st u kc else st) u' c' = seenAt st u' c' +
        (if u' = u then (if g.adj u cv = true ∧ c' = kc then -1 else 0) else 0) := by
  by_cases hadj : g.adj u cv = true
  · have e : (if g.adj u cv then seeDec st u kc else st) = seeDec st u kc := by simp [hadj]
    rw [e]
    refine ⟨(seeDec_frame st u kc).1, (seeDec_frame st u kc).2, fun u' c' => ?_⟩
    rw [seeDec_seenAt st u kc hu hk]
    by_cases h1 : u' = u
    · by_cases h2 : c' = kc
      · rw [if_pos ⟨h1, h2⟩, if_pos h1, if_pos ⟨hadj, h2⟩]; omega
      · rw [if_neg (fun hh => h2 hh.2), if_pos h1, if_neg (fun hh => h2 hh.2)]; omega
    · rw [if_neg (fun hh => h1 hh.1), if_neg h1]; omega
  · have e : (if g.adj u cv then seeDec st u kc else st) = st := by simp [hadj]
    rw [e]
    refine ⟨SameFrame.refl st, rfl, fun u' c' => ?_⟩
    have : ¬ (g.adj u cv = true ∧ c' = kc) := fun hh => hadj hh.1
    rw [if_neg this]
    split <;> omega

theorem uncolour_one {g : G} {U0 : Nat} {s : Dsat} (h : DSInv g U0 s) {pre : List Nat} {cv : Nat}
    (hp : (pre ++ [cv]) <+: s.chosen) {t : Dsat} (hu : UInv g U0 s (pre ++ [cv]) t) :
    UInv g U0 s pre
      (let s1 := undoLoop g cv (t.colouring.getD cv 0).toNat t
       let s2 := { s1 with colouring := s1.colouring.set cv (-1) }
       { s2 with heap := heapPush s2.num s2.deg s2.heap cv }) := by
  obtain ⟨hk, hget, htake⟩ := prefix_facts hp
  have hcvch : cv ∈ s.chosen := by rw [← hget]; exact getD_mem' hk
  have hcvn : cv < g.n := h.chlt cv hcvch
  have hprend : (pre ++ [cv]).Nodup := (List.IsPrefix.sublist hp).nodup h.chn
  have hcvpre : cv ∉ pre := fun hm => (List.nodup_append.1 hprend).2.2 cv hm cv (by simp) rfl
  -- the colour of `cv`
  obtain ⟨hcurk, hcolk⟩ := h.colch pre.length hk
  rw [hget] at hcolk
  generalize hkc : (s.choices.getD pre.length []).getD (s.cur.getD pre.length 0) 0 = kc at hcolk hcurk
  have hkcU : kc + 2 ≤ U0 := by
    have := (h.optF pre.length hk kc (by rw [← hkc]; exact getD_mem' hcurk)).2.1
    exact this
  have hcolt : t.colouring.getD cv 0 = (kc : Int) := by
    have := hu.colpre cv (by simp)
    unfold colOf at this hcolk
    rw [this, hcolk]
  have hcvheap : cv ∉ t.heap := fun hm => ((hu.hmem cv).1 hm).2 (by simp)
  -- the counter loop
  obtain ⟨hfr, hheap, hseen⟩ := foldl_counters
    (fun st u => if g.adj u cv then seeDec st u kc else st)
    (fun u c' => if g.adj u cv = true ∧ c' = kc then -1 else 0)
    (fun st u => u < st.seen.length ∧ kc < (st.seen.getD u []).length)
    (fun st st' u hfr hP => by rw [hfr.seenLen, hfr.rowLen]; exact hP)
    (fun st u hP => undo_step st cv kc u hP.1 hP.2)
    t.heap t hu.hnd
    (fun u hum => by
      have hun := ((hu.hmem u).1 hum).1
      rw [hu.lseen, hu.lrow u hun]; exact ⟨hun, by omega⟩)
  have hundo : undoLoop g cv (t.colouring.getD cv 0).toNat t =
      t.heap.foldl (fun st u => if g.adj u cv then seeDec st u kc else st) t := by
    unfold undoLoop; rw [hcolt]; rfl
  simp only [hundo]
  generalize t.heap.foldl (fun st u => if g.adj u cv then seeDec st u kc else st) t = t1 at hfr hheap hseen
  have hcolset : ∀ w, (t1.colouring.set cv (-1)).getD w 0 = if w = cv then -1 else colOf t w := by
    intro w
    rw [getD_set]
    by_cases hwc : w = cv
    · subst hwc; rw [if_pos ⟨rfl, by rw [hfr.colouring, hu.lcol]; exact hcvn⟩, if_pos rfl]
    · rw [if_neg (fun e => hwc e.1.symm), if_neg hwc, hfr.colouring]; rfl
  have hpush := heapPush_perm t1.num t1.deg t1.heap cv
  exact
    { chosen := hfr.chosen.trans hu.chosen
      cur := hfr.cur.trans hu.cur
      choices := hfr.choices.trans hu.choices
      maxUsed := hfr.maxUsed.trans hu.maxUsed
      upper := hfr.upper.trans hu.upper
      best := hfr.best.trans hu.best
      lcol := by show (t1.colouring.set cv (-1)).length = g.n; rw [List.length_set, hfr.colouring]; exact hu.lcol
      lseen := by show t1.seen.length = g.n; rw [hfr.seenLen]; exact hu.lseen
      lrow := fun w hw => by show (t1.seen.getD w []).length = U0; rw [hfr.rowLen]; exact hu.lrow w hw
      colpre := by
        intro w hw
        show (t1.colouring.set cv (-1)).getD w 0 = _
        have hne : w ≠ cv := fun e => hcvpre (by rw [← e]; exact hw)
        rw [hcolset w, if_neg hne]
        exact hu.colpre w (List.mem_append_left _ hw)
      colrest := by
        intro w hw hwp
        show (t1.colouring.set cv (-1)).getD w 0 = _
        rw [hcolset w]
        by_cases hwc : w = cv
        · rw [if_pos hwc]
        · rw [if_neg hwc]
          exact hu.colrest w hw (fun hm => by
            rcases List.mem_append.1 hm with h1 | h1
            · exact hwp h1
            · exact hwc (by simpa using h1))
      hnd := by
        show (heapPush t1.num t1.deg t1.heap cv).Nodup
        rw [hpush.nodup_iff, hheap]
        exact List.nodup_cons.2 ⟨hcvheap, hu.hnd⟩
      hmem := by
        intro w
        show w ∈ heapPush t1.num t1.deg t1.heap cv ↔ _
        rw [hpush.mem_iff, hheap, List.mem_cons, hu.hmem w]
        constructor
        · rintro (rfl | ⟨h1, h2⟩)
          · exact ⟨hcvn, hcvpre⟩
          · exact ⟨h1, fun hm => h2 (List.mem_append_left _ hm)⟩
        · rintro ⟨h1, h2⟩
          by_cases hwc : w = cv
          · exact Or.inl hwc
          · exact Or.inr ⟨h1, fun hm => by
              rcases List.mem_append.1 hm with h3 | h3
              · exact h2 h3
              · exact hwc (by simpa using h3)⟩
      seenH := by
        intro u hum c hc
        have hum' : u ∈ cv :: t.heap := by
          have : u ∈ heapPush t1.num t1.deg t1.heap cv := hum
          rw [hpush.mem_iff, hheap] at this; exact this
        show seenAt t1 u c = _
        rw [hseen u c]
        rcases List.mem_cons.1 hum' with rfl | huh
        · rw [if_neg hcvheap, Int.add_zero, hu.seenP u (by simp), ← hget, h.seenC pre.length hk c hc, htake]
        · rw [if_pos huh, hu.seenH u huh c hc, cntCol_snoc, hcolk]
          by_cases hx : g.adj u cv = true ∧ c = kc
          · rw [if_pos hx, if_pos ⟨hx.1, by rw [hx.2]⟩]; omega
          · rw [if_neg hx, if_neg (fun hh => hx ⟨hh.1, by exact_mod_cast hh.2.symm⟩)]; omega
      seenP := by
        intro w hw c
        show seenAt t1 w c = _
        have hwh : w ∉ t.heap := fun hm => ((hu.hmem w).1 hm).2 (List.mem_append_left _ hw)
        rw [hseen w c, if_neg hwh, Int.add_zero]
        exact hu.seenP w (List.mem_append_left _ hw) c }

end CliqueColour
