import Mamba.Lemmas.CanonFPhase
import Mamba.Lemmas.CanonFDeage
import Mamba.Lemmas.CanonFSplit
/-!
# The stepping machinery of the main loop of `CanonicalIsomorphAllocated` (faithful model `Model/CanonF.lean`)

The depth-first search keeps, for every level `ℓ` of the stack (`path`, `choices`), the target cell that was chosen at that
level. The ghost list `lv` of `(start, size)` pairs records these cells; `LevelsOK` says that the cell of level `ℓ` is a
cell of the partition formed by the dividers of age `< ℓ` (ages are attached to dividers; `splitBin`/the refinement of
level `ℓ` only add dividers of age `ℓ`, `deage` removes exactly them), that it has at least two elements, and that
`choices[ℓ] = start + path[ℓ]`. This is what makes every `splitBin` of `jLoop` hit a position inside a non-singleton bin,
which in turn keeps the ordered-partition invariant `PartInv` (`jLoop_spec`, `stepLoop_spec`, `innerNode_spec`,
`backJump_spec`).
-/
namespace CanonF


/-- the dividers of age `< a` -/
def oldDivs (a : Int) (op : OP) : List Nat := ((divs op).filter (fun x => decide (x.2 < a))).map (·.1)

/-- `[start, start+size)` is a bin of the partition formed by the dividers of age `< a` -/
def IsBinAt (a : Int) (op : OP) (start size : Nat) : Prop :=
  (start = 0 ∨ start ∈ oldDivs a op) ∧ start + size ∈ oldDivs a op ∧
    (∀ d ∈ oldDivs a op, ¬ (start < d ∧ d < start + size)) ∧
    ∀ t, t < start → t + 1 ∈ oldDivs a op

theorem filter_filter_of_imp {α : Type} (p q : α → Bool) (l : List α) (h : ∀ x, p x = true → q x = true) :
    (l.filter q).filter p = l.filter p := by
  rw [List.filter_filter]
  apply List.filter_congr
  intro x _
  cases hp : p x <;> simp
  exact h x hp

theorem oldDivs_of_ne {op op' : OP} {A : Int} (h : (divs op').filter (fun x => decide (x.2 ≠ A)) = divs op)
    (a : Int) (ha : a ≤ A) : oldDivs a op' = oldDivs a op := by
  unfold oldDivs
  rw [← h, filter_filter_of_imp]
  intro x hx; simp at hx ⊢; omega

theorem oldDivs_of_lt {op op' : OP} {A : Int}
    (h : (divs op').filter (fun x => decide (x.2 < A)) = (divs op).filter (fun x => decide (x.2 < A)))
    (a : Int) (ha : a ≤ A) : oldDivs a op' = oldDivs a op := by
  unfold oldDivs
  rw [← filter_filter_of_imp (fun x => decide (x.2 < a)) (fun x => decide (x.2 < A)) (divs op'), h, filter_filter_of_imp]
  all_goals (intro x hx; simp at hx ⊢; omega)

theorem oldDivs_of_filter {op op' : OP} {A : Int} (h : divs op' = (divs op).filter (fun x => decide (x.2 ≠ A)))
    (a : Int) (ha : a ≤ A) : oldDivs a op' = oldDivs a op := by
  unfold oldDivs
  rw [h, filter_filter_of_imp]
  intro x hx; simp at hx ⊢; omega

/-- with all ages below `a` the old dividers are all dividers -/
theorem oldDivs_all {op : OP} {a : Int} (hw1 : op.binDividers.WF) (hw2 : op.binAges.WF)
    (hl : op.binAges.len = op.binDividers.len) (h : ∀ x ∈ op.binAges.toList, x < a) :
    oldDivs a op = op.binDividers.toList := by
  unfold oldDivs divs
  rw [List.filter_eq_self.2]
  · rw [List.map_fst_zip]
    rw [Sl.length_toList _ hw1, Sl.length_toList _ hw2]; omega
  · intro x hx
    have := h x.2 (List.of_mem_zip hx).2
    simpa using this


/-- the stack of target cells: level `ℓ` (1-based from the bottom) has the cell `[st, st+sz)` of the partition formed by
the dividers of age `< ℓ`; `choices[ℓ] = st + path[ℓ]`; lists are reversed (head = top level) -/
def LevelsOK (op : OP) : List Nat → List Nat → List (Nat × Nat) → Prop
  | [], [], [] => True
  | p :: ps, c :: cs, (st, sz) :: ls =>
      IsBinAt ((ps.length : Int) + 1) op st sz ∧ 2 ≤ sz ∧ c = st + p ∧ p ≤ sz ∧ LevelsOK op ps cs ls
  | _, _, _ => False

theorem IsBinAt_frame {op op' : OP} {a : Int} (h : oldDivs a op' = oldDivs a op) (st sz : Nat) :
    IsBinAt a op' st sz ↔ IsBinAt a op st sz := by
  unfold IsBinAt; rw [h]

theorem LevelsOK_frame {op op' : OP} {A : Int} (h : ∀ a : Int, a ≤ A → oldDivs a op' = oldDivs a op) :
    ∀ (path choices : List Nat) (lv : List (Nat × Nat)), (path.length : Int) ≤ A →
      LevelsOK op path choices lv → LevelsOK op' path choices lv := by
  intro path
  induction path with
  | nil => intro choices lv _ hl; cases choices <;> cases lv <;> simp_all [LevelsOK]
  | cons p ps ih =>
    intro choices lv hA hl
    cases choices with
    | nil => simp [LevelsOK] at hl
    | cons c cs =>
      cases lv with
      | nil => simp [LevelsOK] at hl
      | cons x ls =>
        obtain ⟨st, sz⟩ := x
        simp only [LevelsOK] at hl ⊢
        obtain ⟨h1, h2, h3, h4, h5⟩ := hl
        simp only [List.length_cons] at hA
        refine ⟨(IsBinAt_frame (h _ (by omega)) st sz).2 h1, h2, h3, h4, ih cs ls (by omega) h5⟩

theorem LevelsOK_length {op : OP} : ∀ (path choices : List Nat) (lv : List (Nat × Nat)),
    LevelsOK op path choices lv → choices.length = path.length ∧ lv.length = path.length := by
  intro path
  induction path with
  | nil => intro choices lv hl; cases choices <;> cases lv <;> simp_all [LevelsOK]
  | cons p ps ih =>
    intro choices lv hl
    cases choices with
    | nil => simp [LevelsOK] at hl
    | cons c cs =>
      cases lv with
      | nil => simp [LevelsOK] at hl
      | cons x ls =>
        obtain ⟨st, sz⟩ := x
        simp only [LevelsOK] at hl
        have := ih cs ls hl.2.2.2.2
        simp; omega

/-- a cell of the current partition with at least two elements: every position in it is in a non-singleton bin -/
theorem nonSingleton_of_isBin {n : Nat} {op : OP} (h : PartInv n op) {st sz : Nat}
    (hb : (st = 0 ∨ st ∈ op.binDividers.toList) ∧ st + sz ∈ op.binDividers.toList ∧
      ∀ d ∈ op.binDividers.toList, ¬ (st < d ∧ d < st + sz))
    (hsz : 2 ≤ sz) (i : Nat) (h1 : st ≤ i) (h2 : i < st + sz) :
    NonSingleton op.binDividers.toList i ∧ i < n := by
  refine ⟨?_, ?_⟩
  · intro hc
    obtain ⟨c1, c2⟩ := hc
    -- i + 1 is a divider in [st+1, st+sz]; if < st+sz contradiction; so i + 1 = st + sz, then i = st+sz-1 > st must be a divider or 0
    have hne : ¬ (st < i + 1 ∧ i + 1 < st + sz) := hb.2.2 _ c2
    have hi : i + 1 = st + sz := by omega
    rcases List.mem_cons.1 c1 with h0 | hm
    · omega
    · have := hb.2.2 _ hm; omega
  · have hk := List.getElem?_of_mem hb.2.1
    obtain ⟨k, hk⟩ := hk
    have := h.bd_le k _ hk
    omega


structure Core (n : Nat) (s : LS) : Prop where
  part : PartInv n s.op
  age : AgeInv s.op
  scr : ScratchOK n s.sc
  bestWf : s.bestPerm.WF
  bestLen : s.bestPerm.len = n
  bestPerm : 0 < s.count → s.bestPerm.toList.Perm (List.range n)

/-- like `LevelsOK`, but the top level is in the middle of its `jLoop`: `choices.head = st + k` for the loop counter `k` -/
def TopOK (op : OP) (k : Nat) : List Nat → List Nat → List (Nat × Nat) → Prop
  | _ :: ps, c :: cs, (st, sz) :: ls =>
      IsBinAt ((ps.length : Int) + 1) op st sz ∧ 2 ≤ sz ∧ c = st + k ∧ k ≤ sz ∧ LevelsOK op ps cs ls
  | _, _, _ => False

theorem TopOK_frame {op op' : OP} {A : Int} (h : ∀ a : Int, a ≤ A → oldDivs a op' = oldDivs a op) (k : Nat)
    (path choices : List Nat) (lv : List (Nat × Nat)) (hA : (path.length : Int) ≤ A)
    (ht : TopOK op k path choices lv) : TopOK op' k path choices lv := by
  match path, choices, lv, ht with
  | _ :: ps, c :: cs, (st, sz) :: ls, ht =>
    simp only [TopOK] at ht ⊢
    simp only [List.length_cons] at hA
    obtain ⟨h1, h2, h3, h4, h5⟩ := ht
    exact ⟨(IsBinAt_frame (h _ (by omega)) st sz).2 h1, h2, h3, h4, LevelsOK_frame h ps cs ls (by omega) h5⟩

/-- the frame of the stepping loops: only `op`, `path`, `choices`, `skipDeage` and (through path compression in the
Heuristic-2 scan) `bestOrbits` change -/
def StepFrame (s s' : LS) : Prop :=
  s' = { s with op := s'.op, path := s'.path, choices := s'.choices, skipDeage := s'.skipDeage,
                bestOrbits := s'.bestOrbits }

theorem StepFrame.refl (s : LS) : StepFrame s s := rfl

theorem StepFrame.trans {a b c : LS} (h1 : StepFrame a b) (h2 : StepFrame b c) : StepFrame a c := by
  unfold StepFrame at *
  rw [h2, h1]

theorem Core.of_frame {n : Nat} {s s' : LS} (hc : Core n s) (hf : StepFrame s s') (hp : PartInv n s'.op)
    (ha : AgeInv s'.op) : Core n s' := by
  unfold StepFrame at hf
  constructor
  · exact hp
  · exact ha
  · rw [hf]; exact hc.scr
  · rw [hf]; exact hc.bestWf
  · rw [hf]; exact hc.bestLen
  · rw [hf]; exact hc.bestPerm


theorem compress_size (tmp : Nat) : ∀ (xs : List Nat) (ds : Disjoint.DS), (Disjoint.compress ds tmp xs).size = ds.size := by
  intro xs
  induction xs with
  | nil => intro ds; rfl
  | cons x xs ih =>
    intro ds
    have : Disjoint.compress ds tmp (x :: xs) = Disjoint.compress (ds.setIfInBounds x (tmp : Int)) tmp xs := rfl
    rw [this, ih]; simp

/-- `Find` never changes the size of the array -/
theorem find_size {ds d' : Disjoint.DS} {x r : Nat} (h : Disjoint.find ds x = .ok (d', r)) : d'.size = ds.size := by
  unfold Disjoint.find Disjoint.findF at h
  osplit h
  · cases h; rfl
  · cases h; exact compress_size _ _ _

theorem orbitScan_size (order : Sl Nat) (rep : Nat) : ∀ (c k : Nat) (ds ds' : Disjoint.DS) (b : Bool),
    orbitScan order rep c k ds = .ok (b, ds') → ds'.size = ds.size := by
  intro c
  induction c with
  | zero => intro k ds ds' b h; simp [orbitScan] at h; rw [h.2]
  | succ c ih =>
    intro k ds ds' b h
    rw [orbitScan] at h
    osplit h
    · rename_i _ _ _ _ d1 r hf _
      cases h; exact find_size hf
    · rename_i _ _ _ _ d1 r hf _
      rw [ih _ _ _ _ h]; exact find_size hf

theorem h2Best_size {op : OP} {ds ds' : Disjoint.DS} {cp ce : Nat} {b : Bool}
    (h : h2Best op ds cp ce = .ok (b, ds')) : ds'.size = ds.size := by
  unfold h2Best at h
  osplit h
  rename_i _ _ _ _ d1 rep hf
  rw [orbitScan_size _ _ _ _ _ _ _ h]; exact find_size hf


/-- an additional invariant of the partition carried through the stepping loops (used for the certificate): `QA` holds at
all times, `QN` after a `deage` and before every `splitBin`; `cb`, `fl` are `currentBest`, `firstLeaf` (unchanged by the
stepping loops) -/
structure StepQ (n : Nat) (nb : Nbrs) (cb fl : Sl Nat) (QA QN QS : OP → Prop) : Prop where
  na : ∀ op, QN op → QA op
  sa : ∀ op, QS op → QA op
  deage : ∀ op op', PartInv n op → AgeInv op → 0 < op.age → QA op → deage op = .ok op' → QN op'
  /-- `splitBin` is only ever called on a position of the first bin with at least two elements; `QS` holds after a
  `splitBin` that has not reported "worse" (the state handed to the refinement) -/
  split : ∀ op op' i w, PartInv n op → AgeInv op → i < n → NonSingleton op.binDividers.toList i →
    (∀ t, t < binStartOf op.binDividers.toList i → t + 1 ∈ op.binDividers.toList) → QN op →
    splitBin nb cb fl op i = .ok (w, op') → (w = false → QS op') ∧ (w = true → QA op')

theorem StepQ.trivial (n : Nat) (nb : Nbrs) (cb fl : Sl Nat) :
    StepQ n nb cb fl (fun _ => True) (fun _ => True) (fun _ => True) :=
  ⟨fun _ _ => True.intro, fun _ _ => True.intro, fun _ _ _ _ _ _ _ => True.intro,
    fun _ _ _ _ _ _ _ _ _ _ _ => ⟨fun _ => True.intro, fun _ => True.intro⟩⟩

theorem maybeDeage_spec {n : Nat} {nb : Nbrs} {cb fl : Sl Nat} {QA QN QS : OP → Prop} (hq : StepQ n nb cb fl QA QN QS)
    {s s' : LS} {lv : List (Nat × Nat)} {k : Nat} (hc : Core n s)
    (ht : TopOK s.op k s.path s.choices lv)
    (hage : s.op.age + (if s.skipDeage then 1 else 0) = s.path.length)
    (hA : QA s.op) (hN : s.skipDeage = true → QN s.op) (h : maybeDeage s = .ok s') :
    Core n s' ∧ TopOK s'.op k s'.path s'.choices lv ∧ s'.op.age + 1 = s'.path.length ∧ s'.skipDeage = false ∧
      s'.path = s.path ∧ s'.choices = s.choices ∧ StepFrame s s' ∧ QN s'.op ∧ s'.bestOrbits = s.bestOrbits := by
  unfold maybeDeage at h
  by_cases hsk : s.skipDeage = true
  · simp only [hsk, Bool.not_true, Bool.false_eq_true, if_false] at h
    cases h
    simp only [hsk, if_true] at hage
    exact ⟨Core.of_frame hc rfl hc.part hc.age, ht, hage, rfl, rfl, rfl, rfl, hN hsk, rfl⟩
  · have hsk' : s.skipDeage = false := by simpa using hsk
    simp only [hsk', Bool.not_false, if_true] at h
    simp only [hsk', Bool.false_eq_true, if_false, Int.add_zero] at hage
    cases hd : deage s.op with
    | ok op' =>
      rw [hd] at h
      simp only at h
      cases h
      have hpl : 0 < s.path.length := by
        match hp : s.path, hc' : s.choices, hl : lv, ht with
        | _ :: ps, c :: cs, (st, sz) :: ls, _ => simp
      obtain ⟨d1, d2, d3, d4, _⟩ := deage_inv hc.part hc.age (by omega) hd
      refine ⟨Core.of_frame hc rfl d1 d2, ?_, ?_, rfl, rfl, rfl, ?_, hq.deage _ _ hc.part hc.age (by omega) hA hd, rfl⟩
      · exact TopOK_frame (fun a ha => oldDivs_of_filter d4 a ha) k _ _ _ (by simp only; omega) ht
      · simp only; omega
      · unfold StepFrame; simp
    | panic => rw [hd] at h; cases h
    | outOfFuel => rw [hd] at h; cases h


theorem ageInv_lt {op : OP} (ha : AgeInv op) : ∀ x ∈ op.binAges.toList, x < op.age + 1 := by
  intro x hx; have := ha.le x hx; omega

/-- under `TopOK` with every divider age `≤ ps.length` the top cell is a cell of the current partition -/
theorem top_isBin {n : Nat} {op : OP} (hp : PartInv n op) (ha : AgeInv op) {a : Int} (hage : op.age + 1 = a)
    {st sz : Nat} (hb : IsBinAt a op st sz) :
    (st = 0 ∨ st ∈ op.binDividers.toList) ∧ st + sz ∈ op.binDividers.toList ∧
      ∀ d ∈ op.binDividers.toList, ¬ (st < d ∧ d < st + sz) := by
  have := oldDivs_all (a := a) hp.wfBd hp.wfAges hp.lenAges (by intro x hx; have := ha.le x hx; omega)
  unfold IsBinAt at hb
  rw [this] at hb
  exact ⟨hb.1, hb.2.1, hb.2.2.1⟩

/-- … and all bins in front of it are singletons -/
theorem top_firstBin {n : Nat} {op : OP} (hp : PartInv n op) (ha : AgeInv op) {a : Int} (hage : op.age + 1 = a)
    {st sz : Nat} (hb : IsBinAt a op st sz) : ∀ t, t < st → t + 1 ∈ op.binDividers.toList := by
  have := oldDivs_all (a := a) hp.wfBd hp.wfAges hp.lenAges (by intro x hx; have := ha.le x hx; omega)
  unfold IsBinAt at hb
  rw [this] at hb
  exact hb.2.2.2

/-- the start of the bin of a position inside a cell is at most the start of the cell -/
theorem binStartOf_le_start {n : Nat} {op : OP} (hp : PartInv n op) {st sz i : Nat}
    (hb : ∀ d ∈ op.binDividers.toList, ¬ (st < d ∧ d < st + sz)) (hi : i < n) (h2 : i < st + sz) :
    binStartOf op.binDividers.toList i ≤ st := by
  have hsd : op.binDividers.toList.Pairwise (· < ·) := (List.pairwise_cons.1 hp.sorted).2
  have hbl : binIdx op.binDividers.toList i < op.binDividers.toList.length := binIdx_lt _ n i hp.last hi
  have hle := binStartOf_le _ hsd i hbl
  rcases List.mem_cons.1 (binStartOf_mem _ i hbl) with h0 | hm
  · omega
  · have := hb _ hm
    omega

set_option maxHeartbeats 400000 in
theorem jLoop_spec {n : Nat} {nb : Nbrs} {cb fl : Sl Nat} {QA QN QS : OP → Prop} (hq : StepQ n nb cb fl QA QN QS) :
    ∀ (k : Nat) (s : LS) (lv : List (Nat × Nat)) (b : Bool) (s' : LS),
    Core n s → TopOK s.op k s.path s.choices lv →
    s.op.age + (if s.skipDeage then 1 else 0) = s.path.length →
    s.currentBest = cb → s.firstLeaf = fl → QA s.op → (s.skipDeage = true → QN s.op) →
    jLoop nb k s = .ok (b, s') →
    Core n s' ∧ StepFrame s s' ∧ s'.path.length = s.path.length ∧
      (b = true → LevelsOK s'.op s'.path s'.choices lv ∧ s'.op.age = s'.path.length ∧ s'.skipDeage = false) ∧
      (b = false → TopOK s'.op 0 s'.path s'.choices lv ∧
        s'.op.age + (if s'.skipDeage then 1 else 0) = s'.path.length) ∧
      (b = true → QS s'.op) ∧ (b = false → QA s'.op ∧ (s'.skipDeage = true → QN s'.op)) ∧
      s'.bestOrbits.size = s.bestOrbits.size := by
  intro k
  induction k with
  | zero =>
    intro s lv b s' hc ht hage hcb hfl hA hN h
    simp [jLoop] at h
    obtain ⟨rfl, rfl⟩ := h
    exact ⟨hc, StepFrame.refl _, rfl, by simp, fun _ => ⟨ht, hage⟩, by simp, fun _ => ⟨hA, hN⟩, rfl⟩
  | succ j ih =>
    intro s lv b s' hc ht hage hcb hfl hA hN h
    rw [jLoop] at h
    cases hm : maybeDeage s with
    | panic => rw [hm] at h; cases h
    | outOfFuel => rw [hm] at h; cases h
    | ok s1 =>
      rw [hm] at h
      simp only at h
      obtain ⟨c1, t1, a1, k1, p1, ch1, f1, n1, bo1⟩ := maybeDeage_spec hq hc ht hage hA hN hm
      have hcb1 : s1.currentBest = cb := by rw [f1]; exact hcb
      have hfl1 : s1.firstLeaf = fl := by rw [f1]; exact hfl
      -- shapes
      cases hpath : s1.path with
      | nil => rw [hpath] at t1; cases hcc : s1.choices <;> simp [TopOK] at t1
      | cons p ps =>
        cases hch : s1.choices with
        | nil => rw [hpath, hch] at t1; simp [TopOK] at t1
        | cons c cs =>
          cases hlv : lv with
          | nil => rw [hpath, hch, hlv] at t1; simp [TopOK] at t1
          | cons x ls =>
            obtain ⟨st, sz⟩ := x
            subst hlv
            rw [hpath, hch] at t1
            simp only [TopOK] at t1
            obtain ⟨tb, tsz, tc, tk, tl⟩ := t1
            rw [hch, hpath] at h
            simp only at h
            have hc0 : ¬ (c = 0) := by omega
            rw [if_neg hc0] at h
            have hlen : (s1.path.length : Int) = ps.length + 1 := by rw [hpath]; simp
            have hage1 : s1.op.age = ps.length := by omega
            -- the top cell is a current cell
            have hbin := top_isBin c1.part c1.age (a := (ps.length : Int) + 1) (by omega) tb
            obtain ⟨hns, hin⟩ := nonSingleton_of_isBin c1.part hbin tsz (c - 1) (by omega) (by omega)
            cases hget : s1.op.order.get (c - 1) with
            | panic => rw [hget] at h; cases h
            | outOfFuel => rw [hget] at h; cases h
            | ok ce =>
              rw [hget] at h
              simp only at h
              -- the state after the decrement of choices
              have frame2 : StepFrame s { s1 with choices := (c - 1) :: cs } := by
                unfold StepFrame at f1 ⊢; rw [f1]
              -- common continuation for the two Heuristic-2 skips
              have hskip : ∀ (bo : Disjoint.DS) (b : Bool) (s' : LS), bo.size = s1.bestOrbits.size →
                  jLoop nb j { s1 with path := p :: ps, choices := (c - 1) :: cs, skipDeage := true, bestOrbits := bo } = .ok (b, s') →
                  Core n s' ∧ StepFrame s s' ∧ s'.path.length = s.path.length ∧
                  (b = true → LevelsOK s'.op s'.path s'.choices ((st, sz) :: ls) ∧ s'.op.age = s'.path.length ∧ s'.skipDeage = false) ∧
                  (b = false → TopOK s'.op 0 s'.path s'.choices ((st, sz) :: ls) ∧
                    s'.op.age + (if s'.skipDeage then 1 else 0) = s'.path.length) ∧
                  (b = true → QS s'.op) ∧ (b = false → QA s'.op ∧ (s'.skipDeage = true → QN s'.op)) ∧
                  s'.bestOrbits.size = s.bestOrbits.size := by
                intro bo b s' hbo hj
                have hfr : StepFrame s { s1 with path := p :: ps, choices := (c - 1) :: cs, skipDeage := true, bestOrbits := bo } := by
                  unfold StepFrame at f1 ⊢; rw [f1]
                obtain ⟨r1, r2, r3, r4, r5, r6, r7, r8⟩ := ih { s1 with path := p :: ps, choices := (c - 1) :: cs, skipDeage := true, bestOrbits := bo } ((st, sz) :: ls) b s'
                  (Core.of_frame hc hfr c1.part c1.age)
                  (by
                    simp only [TopOK]
                    exact ⟨tb, tsz, by omega, by omega, tl⟩)
                  (by simp only [if_true, List.length_cons]; omega) hcb1 hfl1 (hq.na _ n1) (fun _ => n1) hj
                refine ⟨r1, hfr.trans r2, ?_, r4, r5, r6, r7, by rw [r8]; show bo.size = _; rw [hbo, bo1]⟩
                rw [r3]; simp only; rw [← p1, hpath]
              split at h
              · -- first Heuristic 2 test: skip
                exact hskip _ b s' rfl h
              · have hbosz : ∀ (bb : Bool) (bo : Disjoint.DS),
                    (if (decide (s1.count > 0) && !hasPrefix s1.flPath.toList ps.reverse &&
                        hasPrefix s1.bestPath.toList ps.reverse) = true
                      then h2Best s1.op s1.bestOrbits (c - 1) ce else Outcome.ok (false, s1.bestOrbits)) = .ok (bb, bo) →
                    bo.size = s1.bestOrbits.size := by
                  intro bb bo hh
                  split at hh
                  · exact h2Best_size hh
                  · cases hh; rfl
                split at h
                · rename_i bo hh
                  exact hskip bo b s' (hbosz _ _ hh) h
                · -- splitBin
                  rename_i bo hh
                  have hbo := hbosz _ _ hh
                  cases hsp : splitBin nb s1.currentBest s1.firstLeaf s1.op (c - 1) with
                  | panic => rw [hsp] at h; simp at h
                  | outOfFuel => rw [hsp] at h; simp at h
                  | ok r =>
                    obtain ⟨worse, op'⟩ := r
                    rw [hsp] at h
                    simp only at h
                    obtain ⟨q1, q2, q3, q4, _⟩ := splitBin_inv c1.part c1.age hin hns hsp
                    have hsp' : splitBin nb cb fl s1.op (c - 1) = .ok (worse, op') := by rw [← hcb1, ← hfl1]; exact hsp
                    have hfirst : ∀ t, t < binStartOf s1.op.binDividers.toList (c - 1) → t + 1 ∈ s1.op.binDividers.toList := by
                      intro t ht
                      have hle := binStartOf_le_start c1.part hbin.2.2 hin (show c - 1 < st + sz by omega)
                      exact top_firstBin c1.part c1.age (a := (ps.length : Int) + 1) (by omega) tb t (by omega)
                    obtain ⟨qn, qa⟩ := hq.split _ _ _ _ c1.part c1.age hin hns hfirst n1 hsp'
                    have hfr3 : StepFrame s { s1 with choices := (c - 1) :: cs, op := op', path := j :: ps, bestOrbits := bo } := by
                      unfold StepFrame at f1 ⊢; rw [f1]
                    have hfrm : ∀ a : Int, a ≤ s1.op.age + 1 → oldDivs a op' = oldDivs a s1.op :=
                      fun a ha => oldDivs_of_ne q4 a ha
                    have hlev : LevelsOK op' ps cs ls := LevelsOK_frame hfrm ps cs ls (by omega) tl
                    have hbin' : IsBinAt ((ps.length : Int) + 1) op' st sz :=
                      (IsBinAt_frame (hfrm _ (by omega)) st sz).2 tb
                    by_cases hw : worse = true
                    · rw [if_pos hw] at h
                      obtain ⟨r1, r2, r3, r4, r5, r6, r7, r8⟩ := ih _ ((st, sz) :: ls) b s' (Core.of_frame hc hfr3 q1 q2)
                        (by
                          simp only [TopOK]
                          exact ⟨hbin', tsz, by omega, by omega, hlev⟩)
                        (by simp only [k1, Bool.false_eq_true, if_false, List.length_cons]; omega) hcb1 hfl1 (qa hw)
                        (by simp only [k1]; intro hc; cases hc) h
                      refine ⟨r1, hfr3.trans r2, ?_, r4, r5, r6, r7, by rw [r8]; show bo.size = _; rw [hbo, bo1]⟩
                      rw [r3]; simp only [List.length_cons]; rw [← p1, hpath]; simp
                    · rw [if_neg hw] at h
                      simp at h
                      obtain ⟨rfl, rfl⟩ := h
                      refine ⟨Core.of_frame hc hfr3 q1 q2, hfr3, ?_, ?_, by simp, fun _ => qn (by simpa using hw), by simp, by show bo.size = _; rw [hbo, bo1]⟩
                      · simp only [List.length_cons]; rw [← p1, hpath]; simp
                      · intro _
                        refine ⟨?_, ?_, k1⟩
                        · simp only [LevelsOK]
                          exact ⟨hbin', tsz, by omega, by omega, hlev⟩
                        · simp only [List.length_cons]; omega
                · cases h
                · cases h
              · cases h
              · cases h


theorem LevelsOK_top {op : OP} {p : Nat} {ps choices : List Nat} {lv : List (Nat × Nat)}
    (h : LevelsOK op (p :: ps) choices lv) : TopOK op p (p :: ps) choices lv := by
  match choices, lv, h with
  | c :: cs, (st, sz) :: ls, h => simpa [LevelsOK, TopOK] using h

theorem stepLoop_spec {n : Nat} {nb : Nbrs} {cb fl : Sl Nat} {QA QN QS : OP → Prop} (hq : StepQ n nb cb fl QA QN QS) :
    ∀ (k : Nat) (s : LS) (lv : List (Nat × Nat)) (b : Bool) (s' : LS),
    Core n s → LevelsOK s.op s.path s.choices lv →
    s.op.age + (if s.skipDeage then 1 else 0) = s.path.length →
    s.currentBest = cb → s.firstLeaf = fl → QA s.op → (s.skipDeage = true → QN s.op) →
    stepLoop nb k s = .ok (b, s') →
    ∃ lv', Core n s' ∧ StepFrame s s' ∧ LevelsOK s'.op s'.path s'.choices lv' ∧
      s'.op.age + (if s'.skipDeage then 1 else 0) = s'.path.length ∧
      (b = true → s'.skipDeage = false) ∧ (b = false → s'.path = []) ∧
      (b = true → QS s'.op) ∧ QA s'.op ∧ s'.bestOrbits.size = s.bestOrbits.size := by
  intro k
  induction k with
  | zero =>
    intro s lv b s' hc hl hage hcb hfl hA hN h
    rw [stepLoop] at h
    split at h
    · rename_i hp
      cases h
      exact ⟨lv, hc, StepFrame.refl _, hl, hage, by simp, fun _ => hp, by simp, hA, rfl⟩
    · cases h
  | succ k ih =>
    intro s lv b s' hc hl hage hcb hfl hA hN h
    rw [stepLoop] at h
    split at h
    · rename_i hp
      cases h
      exact ⟨lv, hc, StepFrame.refl _, hl, hage, by simp, fun _ => hp, by simp, hA, rfl⟩
    · rename_i p ps hp
      rw [hp] at hl
      have ht := LevelsOK_top hl
      rw [← hp] at ht
      cases hj : jLoop nb p s with
      | panic => rw [hj] at h; simp at h
      | outOfFuel => rw [hj] at h; simp at h
      | ok r =>
        obtain ⟨b1, s1⟩ := r
        rw [hj] at h
        obtain ⟨c1, f1, l1, t1, e1, n1, m1, z1⟩ := jLoop_spec hq p s lv b1 s1 hc ht hage hcb hfl hA hN hj
        cases b1 with
        | true =>
          simp only at h
          cases h
          obtain ⟨a1, a2, a3⟩ := t1 rfl
          exact ⟨lv, c1, f1, a1, by rw [a3]; simpa using a2, fun _ => a3, by simp, fun _ => n1 rfl, hq.sa _ (n1 rfl), z1⟩
        | false =>
          simp only at h
          obtain ⟨t0, g0⟩ := e1 rfl
          cases hm : maybeDeage s1 with
          | panic => rw [hm] at h; cases h
          | outOfFuel => rw [hm] at h; cases h
          | ok s2 =>
            rw [hm] at h
            simp only at h
            obtain ⟨c2, t2, a2, k2, p2, ch2, f2, n2, bo2⟩ := maybeDeage_spec hq c1 t0 g0 (m1 rfl).1 (m1 rfl).2 hm
            -- pop
            cases hpath : s2.path with
            | nil => rw [hpath] at t2; cases hcc : s2.choices <;> simp [TopOK] at t2
            | cons p' ps' =>
              cases hch : s2.choices with
              | nil => rw [hpath, hch] at t2; simp [TopOK] at t2
              | cons c' cs' =>
                cases hlv : lv with
                | nil => rw [hpath, hch, hlv] at t2; simp [TopOK] at t2
                | cons x ls =>
                  obtain ⟨st, sz⟩ := x
                  rw [hpath, hch, hlv] at t2
                  simp only [TopOK] at t2
                  have hfr : StepFrame s { s2 with path := s2.path.drop 1, choices := s2.choices.drop 1 } := by
                    have := f1.trans f2
                    unfold StepFrame at this ⊢; rw [this]
                  have hcb2 : s2.currentBest = cb := by rw [f2, f1]; exact hcb
                  have hfl2 : s2.firstLeaf = fl := by rw [f2, f1]; exact hfl
                  obtain ⟨lv', r1, r2, r3, r4, r5, r6, r7, r8, r9⟩ := ih _ ls b s' (Core.of_frame hc hfr c2.part c2.age)
                    (by simp only [hpath, hch, List.drop_succ_cons, List.drop_zero]; exact t2.2.2.2.2)
                    (by simp only [k2, hpath, List.drop_succ_cons, List.drop_zero, Bool.false_eq_true, if_false]
                        rw [hpath] at a2; simp only [List.length_cons] at a2; omega)
                    hcb2 hfl2 (hq.na _ n2) (by simp only [k2]; intro hc; cases hc) h
                  exact ⟨lv', r1, hfr.trans r2, r3, r4, r5, r6, r7, r8, by rw [r9]; show s2.bestOrbits.size = _; rw [bo2, z1]⟩


/-- `pickCell` finds the first non-singleton bin: its index `i'` is also its start position -/
theorem pickCell_spec (bd : Sl Nat) (hs : (0 :: bd.toList).Pairwise (· < ·)) :
    ∀ (k i prev : Nat) (r : Option (Nat × Nat)), i + k = bd.toList.length → prev = i →
      (∀ t, t < i → bd.toList[t]? = some (t + 1)) →
      pickCell bd k i prev = .ok r →
      (r = none → ∀ t, t < bd.toList.length → bd.toList[t]? = some (t + 1)) ∧
      (∀ d sz, r = some (d, sz) → ∃ i', bd.toList[i']? = some d ∧ sz = d - i' ∧ 2 ≤ sz ∧
        ∀ t, t < i' → bd.toList[t]? = some (t + 1)) := by
  intro k
  induction k with
  | zero =>
    intro i prev r hik hprev hsing h
    simp [pickCell] at h
    subst h
    exact ⟨fun _ t ht => hsing t (by omega), by simp⟩
  | succ k ih =>
    intro i prev r hik hprev hsing h
    rw [pickCell] at h
    cases hg : bd.get i with
    | panic => rw [hg] at h; cases h
    | outOfFuel => rw [hg] at h; cases h
    | ok d =>
      rw [hg] at h
      simp only at h
      have hd : bd.toList[i]? = some d := Sl.get_eq_toList.1 hg
      -- d > i
      have hdi : i < d := by
        have := sorted_getElem_ge (0 :: bd.toList) hs (i + 1)
          (by have := (List.getElem?_eq_some_iff.1 hd).1; simp; omega)
        have hv := (List.getElem?_eq_some_iff.1 hd).2
        simp at this; omega
      by_cases hgt : d - prev > 1
      · rw [if_pos hgt] at h
        cases h
        refine ⟨by simp, ?_⟩
        intro d' sz' he
        simp at he
        obtain ⟨rfl, rfl⟩ := he
        exact ⟨i, hd, by rw [hprev], by omega, hsing⟩
      · rw [if_neg hgt] at h
        have hd1 : d = i + 1 := by omega
        exact ih (i + 1) d r (by omega) hd1
          (by
            intro t ht
            by_cases hti : t = i
            · subst hti; rw [hd, hd1]
            · exact hsing t (by omega)) h

theorem innerNode_spec {n : Nat} {s s' : LS} {lv : List (Nat × Nat)} (hc : Core n s)
    (hl : LevelsOK s.op s.path s.choices lv) (hage : s.op.age = s.path.length)
    (hnl : s.op.binDividers.len ≠ n) (h : innerNode s = .ok s') :
    ∃ st sz, s' = { s with choices := (st + sz) :: s.choices, path := sz :: s.path, skipDeage := true } ∧
      LevelsOK s.op (sz :: s.path) ((st + sz) :: s.choices) ((st, sz) :: lv) ∧
      s.op.binDividers.toList[st]? = some (st + sz) ∧ 2 ≤ sz ∧
      ∀ t, t < st → s.op.binDividers.toList[t]? = some (t + 1) := by
  unfold innerNode at h
  have hbl : s.op.binDividers.toList.length = s.op.binDividers.len := Sl.length_toList _ hc.part.wfBd
  cases hp : pickCell s.op.binDividers s.op.binDividers.len 0 0 with
  | panic => rw [hp] at h; cases h
  | outOfFuel => rw [hp] at h; cases h
  | ok r =>
    rw [hp] at h
    obtain ⟨h1, h2⟩ := pickCell_spec s.op.binDividers hc.part.sorted _ 0 0 r (by omega) rfl (by intro t ht; omega) hp
    cases r with
    | none =>
      exfalso
      -- all bins are singletons: the last divider is its index + 1 = n
      have hall := h1 rfl
      have hpos := hc.part.bdLen_pos
      have hlast := hc.part.last
      rw [List.getLast?_eq_getElem?, hall _ (by omega)] at hlast
      have := Option.some.inj hlast
      omega
    | some x =>
      obtain ⟨d, sz⟩ := x
      simp only at h
      cases h
      obtain ⟨i', g1, g2, g3, g4⟩ := h2 d sz rfl
      have hdi : d = i' + sz := by
        have := hc.part.bd_ge i' d g1; omega
      subst hdi
      refine ⟨i', sz, rfl, ?_, g1, g3, g4⟩
      simp only [LevelsOK]
      refine ⟨?_, g3, trivial, Nat.le_refl _, hl⟩
      -- a cell of the current partition
      unfold IsBinAt
      rw [oldDivs_all hc.part.wfBd hc.part.wfAges hc.part.lenAges (by intro x hx; have := hc.age.le x hx; omega)]
      have hs' : s.op.binDividers.toList.Pairwise (· < ·) := (List.pairwise_cons.1 hc.part.sorted).2
      refine ⟨?_, List.mem_of_getElem? g1, ?_, fun t ht => List.mem_of_getElem? (g4 t ht)⟩
      · by_cases h0 : i' = 0
        · exact Or.inl h0
        · right
          have := g4 (i' - 1) (by omega)
          have hm := List.mem_of_getElem? this
          rwa [show i' - 1 + 1 = i' by omega] at hm
      · intro e he hcon
        obtain ⟨t, ht⟩ := List.getElem?_of_mem he
        have htl := (List.getElem?_eq_some_iff.1 ht).1
        have htv := (List.getElem?_eq_some_iff.1 ht).2
        have hil := (List.getElem?_eq_some_iff.1 g1).1
        have hiv := (List.getElem?_eq_some_iff.1 g1).2
        rcases Nat.lt_trichotomy t i' with hlt | heq | hgt
        · have := g4 t hlt
          rw [ht] at this
          have := Option.some.inj this
          omega
        · subst heq; omega
        · have := List.pairwise_iff_getElem.1 hs' i' t hil htl hgt
          omega


/-- the bin index of a position inside the cell that starts at index/position `t` with singletons in front -/
theorem binIdx_of_cell (bd : List Nat) (hs : (0 :: bd).Pairwise (· < ·)) (t sz i : Nat)
    (hsing : ∀ j, j < t → bd[j]? = some (j + 1)) (hd : bd[t]? = some (t + sz)) (h1 : t ≤ i) (h2 : i < t + sz) :
    binIdx bd i = t := by
  have hs' : bd.Pairwise (· < ·) := (List.pairwise_cons.1 hs).2
  rw [binIdx_eq]
  have htl := (List.getElem?_eq_some_iff.1 hd).1
  have htv := (List.getElem?_eq_some_iff.1 hd).2
  have hA : ¬ (t < bd.countP (fun d => decide (d < i + 1))) := by
    rw [← sorted_lt_iff_idx bd hs' (i + 1) t htl]; omega
  have hB : t ≤ bd.countP (fun d => decide (d < i + 1)) := by
    by_cases ht0 : t = 0
    · omega
    · have h3 := List.getElem?_eq_some_iff.1 (hsing (t - 1) (by omega))
      have := (sorted_lt_iff_idx bd hs' (i + 1) (t - 1) h3.1).1 (by rw [h3.2]; omega)
      omega
  omega

theorem splitBin_phase1 {n : Nat} {nb : Nbrs} {cb fl : Sl Nat} {op op' : OP} {i : Nat} {w : Bool}
    (h : PartInv n op) (ha : AgeInv op) (hcl : CleanPrefix op) (hno : NoEarlierNbr nb op) (hcb : cb.len = 0)
    (hi : i < n) (hns : NonSingleton op.binDividers.toList i) (hbi : binIdx op.binDividers.toList i = op.spl)
    (hs : splitBin nb cb fl op i = .ok (w, op')) :
    w = false ∧ CleanPrefix op' ∧ NoEarlierNbr nb op' := by
  obtain ⟨op1, p1, a1, _, v1, s1, _, hbd, hord, _, _, _, _, hif⟩ := splitBin_decomp h ha hi hns hs
  rw [if_pos hbi] at hif
  -- start of the cell = spl
  have hstart : (if op.spl = 0 then 0 else op.binDividers.toList.getD (op.spl - 1) 0) = op.spl := by
    by_cases h0 : op.spl = 0
    · rw [if_pos h0, h0]
    · rw [if_neg h0]
      have := hcl.single (op.spl - 1) (by omega)
      rw [List.getD_eq_getElem?_getD, this]; simp; omega
  simp only [hbi] at hbd hord
  rw [hstart] at hbd hord
  have hbl : op.binDividers.toList.length = op.binDividers.len := Sl.length_toList _ h.wfBd
  have hbl1 : op1.binDividers.toList.length = op1.binDividers.len := Sl.length_toList _ p1.wfBd
  have hpre : PrefixSingle op1 := by
    constructor
    · rw [s1, ← hbl1, hbd]; simp; have := hcl.le; omega
    · intro j hj
      rw [s1] at hj
      rw [hbd, List.getElem?_append_left (by simp; have := hcl.le; omega), List.getElem?_take, if_pos hj]
      exact hcl.single j hj
  have hno1 : NoEarlierNbr nb op1 := by
    intro hv j u v q hj hu hv' hq
    rw [v1] at hv
    rw [s1] at hj
    have hol : op.order.toList.length = n := by rw [Sl.length_toList _ h.wfOrder, h.lenOrder]
    have hsn : op.spl ≤ n := Nat.le_trans hcl.le h.bdLen_le
    have hlow : ∀ q, q < op.spl → op1.order.toList[q]? = op.order.toList[q]? := by
      intro q hq
      rw [hord, List.getElem?_append_left (by simp; omega), List.getElem?_take, if_pos hq]
    rcases Nat.lt_or_ge q op.spl with hql | hqg
    · rw [hlow q hql] at hq
      rw [hlow j hj] at hu
      exact hno hv j u v q hj hu hv' hq
    · omega
  obtain ⟨r1, _, r3, r4, _, _⟩ := expandValue_phase1 hcb p1 hpre hno1 hif
  exact ⟨r1, r3, r4⟩


theorem LevelsOK_drop {op : OP} : ∀ (k : Nat) (path choices : List Nat) (lv : List (Nat × Nat)),
    LevelsOK op path choices lv → LevelsOK op (path.drop k) (choices.drop k) (lv.drop k) := by
  intro k
  induction k with
  | zero => intro path choices lv h; simpa using h
  | succ k ih =>
    intro path choices lv h
    match path, choices, lv, h with
    | [], [], [], _ => simp [LevelsOK]
    | p :: ps, c :: cs, (st, sz) :: ls, h =>
      simp only [List.drop_succ_cons]
      simp only [LevelsOK] at h
      exact ih ps cs ls h.2.2.2.2

theorem deageTimes_spec {n : Nat} {nb : Nbrs} {cb fl : Sl Nat} {QA QN QS : OP → Prop} (hq : StepQ n nb cb fl QA QN QS) :
    ∀ (k : Nat) (op op' : OP), PartInv n op → AgeInv op → (k : Int) ≤ op.age → QN op →
    deageTimes k op = .ok op' →
    PartInv n op' ∧ AgeInv op' ∧ op'.age = op.age - k ∧
      (∀ a : Int, a ≤ op.age - k + 1 → oldDivs a op' = oldDivs a op) ∧ QN op' := by
  intro k
  induction k with
  | zero =>
    intro op op' hp ha _ hN h
    simp [deageTimes] at h; subst h
    exact ⟨hp, ha, by simp, fun _ _ => rfl, hN⟩
  | succ k ih =>
    intro op op' hp ha hk hN h
    rw [deageTimes] at h
    cases hd : deage op with
    | panic => rw [hd] at h; cases h
    | outOfFuel => rw [hd] at h; cases h
    | ok op1 =>
      rw [hd] at h
      simp only at h
      obtain ⟨d1, d2, d3, d4, _⟩ := deage_inv hp ha (by omega) hd
      obtain ⟨r1, r2, r3, r4, r5⟩ := ih op1 op' d1 d2 (by rw [d3]; omega)
        (hq.deage _ _ hp ha (by omega) (hq.na _ hN) hd) h
      refine ⟨r1, r2, by rw [r3, d3]; push_cast; omega, ?_, r5⟩
      intro a ha'
      rw [r4 a (by rw [d3]; push_cast at ha' ⊢; omega)]
      exact oldDivs_of_filter d4 a (by push_cast at ha'; omega)

theorem h1Index_spec (path : List Nat) (ref : Sl Nat) : ∀ (k i r : Nat), h1Index path ref k i = .ok r →
    r = path.length ∨ (i + 1 ≤ r ∧ r ≤ i + k) := by
  intro k
  induction k with
  | zero => intro i r h; simp [h1Index] at h; exact Or.inl h.symm
  | succ k ih =>
    intro i r h
    rw [h1Index] at h
    split at h
    · split at h
      · cases h; right; omega
      · rcases ih _ _ h with h1 | h1
        · exact Or.inl h1
        · right; omega
    · cases h
    · cases h

/-- the frame of `leafNode`/`backJump` on the partition side: only `op`, `path`, `choices` change -/
theorem backJump_spec {n : Nat} {nb : Nbrs} {cb fl : Sl Nat} {QA QN QS : OP → Prop} (hq : StepQ n nb cb fl QA QN QS)
    {s s' : LS} {lv : List (Nat × Nat)} {ref : Sl Nat} (hc : Core n s)
    (hl : LevelsOK s.op s.path s.choices lv) (hage : s.op.age = s.path.length) (hN : QN s.op)
    (h : backJump s ref = .ok s') :
    ∃ lv', Core n s' ∧ LevelsOK s'.op s'.path s'.choices lv' ∧ s'.op.age = s'.path.length ∧
      s' = { s with op := s'.op, path := s'.path, choices := s'.choices } ∧ QN s'.op := by
  unfold backJump at h
  dsimp only at h
  cases hi : h1Index s.path.reverse ref (s.path.reverse.length - 1) 0 with
  | panic => rw [hi] at h; cases h
  | outOfFuel => rw [hi] at h; cases h
  | ok idx1 =>
    rw [hi] at h
    simp only at h
    cases hd : deageTimes (s.path.reverse.length - idx1) s.op with
    | panic => rw [hd] at h; cases h
    | outOfFuel => rw [hd] at h; cases h
    | ok op' =>
      rw [hd] at h
      simp only at h
      cases h
      have hidx := h1Index_spec _ _ _ _ _ hi
      simp only [List.length_reverse] at hidx hd
      have hk : ((s.path.length - idx1 : Nat) : Int) ≤ s.op.age := by omega
      obtain ⟨r1, r2, r3, r4, r5⟩ := deageTimes_spec hq _ _ _ hc.part hc.age hk hN hd
      obtain ⟨l1, l2⟩ := LevelsOK_length _ _ _ hl
      have e1 : (s.path.reverse.take idx1).reverse = s.path.drop (s.path.length - idx1) := by
        rw [List.take_reverse, List.reverse_reverse]
      have e2 : (s.choices.reverse.take idx1).reverse = s.choices.drop (s.path.length - idx1) := by
        rw [List.take_reverse, List.reverse_reverse, l1]
      refine ⟨lv.drop (s.path.length - idx1), ?_, ?_, ?_, ?_, r5⟩
      · exact Core.of_frame hc (by unfold StepFrame; rfl) r1 r2
      · simp only [e1, e2]
        apply LevelsOK_frame r4
        · simp only [List.length_drop]; omega
        · exact LevelsOK_drop _ _ _ _ hl
      · simp only [e1, List.length_drop]; rw [r3]; omega
      · rfl


end CanonF
