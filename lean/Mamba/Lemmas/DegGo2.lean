import Mamba.Lemmas.DegGo1
/-! Correctness of the faithful model of `graph.Degeneracy`: one round, the loop, the certificate. -/
namespace CliqueColour
open GraphSpec

structure DInv (g : G) (B : Nat) (st : DegState) : Prop where
  minv : MInv g B st.order [] st.bins st.degrees
  onodup : st.order.Nodup
  olt : ∀ v ∈ st.order, v < g.n
  back : ∀ pre v post, st.order = pre ++ v :: post → degIn g (remOf g.n (v :: post)) v ≤ st.d
  low : st.d = 0 ∨ ∃ newer older, st.order = newer ++ older ∧ remOf g.n older ≠ [] ∧
    ∀ v ∈ remOf g.n older, st.d ≤ degIn g (remOf g.n older) v

theorem pend_nil (w : Nat) : pend [] w = 0 := by simp [pend]

theorem exists_live {n : Nat} {order : List Nat} (_hn : order.Nodup) (hl : order.length < n) :
    ∃ w, w < n ∧ w ∉ order := by
  by_contra hcon
  push Not at hcon
  have hsub : (List.range n).Subperm order :=
    List.subperm_of_subset List.nodup_range fun w hw => hcon w (List.mem_range.1 hw)
  have := hsub.length_le
  simp at this
  omega

theorem degStep_spec {g : G} (hw : g.WF) {B : Nat} {st : DegState} (hinv : DInv g B st)
    (hl : st.order.length < g.n) :
    ∃ st', degStep g st = .ok st' ∧ DInv g B st' ∧ st'.order.length = st.order.length + 1 := by
  have hm := hinv.minv
  -- the live vertices and their bins
  have hlive : ∀ w, w < g.n → w ∉ st.order →
      st.degrees.getD w 0 = (curDeg g st.order w : Int) ∧ curDeg g st.order w < B ∧
        w ∈ st.bins.getD (curDeg g st.order w) [] := by
    intro w h1 h2
    have := hm.live w h1 h2
    simpa [pend_nil] using this
  have hbins : ∀ k, k < B → (st.bins.getD k []).Nodup ∧
      ∀ w ∈ st.bins.getD k [], w < g.n ∧ w ∉ st.order ∧ curDeg g st.order w = k := by
    intro k hk
    have := hm.binsok k hk
    simpa [pend_nil] using this
  obtain ⟨w0, hw0, hw0o⟩ := exists_live hinv.onodup hl
  obtain ⟨_, hw0B, hw0m⟩ := hlive w0 hw0 hw0o
  -- the first non-empty bin
  have hex : ∃ b ∈ st.bins, (fun b : List Nat => !b.isEmpty) b = true := by
    refine ⟨st.bins.getD (curDeg g st.order w0) [], getD_mem_of_lt [] (by rw [hm.blen]; exact hw0B), ?_⟩
    cases h : st.bins.getD (curDeg g st.order w0) [] with
    | nil => rw [h] at hw0m; cases hw0m
    | cons a t => rfl
  have hjlt : st.bins.findIdx (fun b => !b.isEmpty) < st.bins.length := List.findIdx_lt_length.2 hex
  have hj : firstNonEmpty st.bins = st.bins.findIdx (fun b => !b.isEmpty) := by
    simp only [firstNonEmpty, hjlt, if_true]
  generalize hjdef : st.bins.findIdx (fun b => !b.isEmpty) = j at hj hjlt
  have hjB : j < B := by rw [← hm.blen]; exact hjlt
  have hjne : st.bins.getD j [] ≠ [] := by
    have := List.findIdx_getElem (w := by rw [hjdef]; exact hjlt) (p := fun b : List Nat => !b.isEmpty) (xs := st.bins)
    simp only [hjdef] at this
    intro he
    rw [List.getD_eq_getElem?_getD, List.getElem?_eq_getElem hjlt, Option.getD_some] at he
    rw [he] at this
    simp at this
  have hbefore : ∀ k, k < j → st.bins.getD k [] = [] := by
    intro k hk
    have hklt : k < st.bins.length := by omega
    have := List.not_of_lt_findIdx (p := fun b : List Nat => !b.isEmpty) (xs := st.bins) (i := k)
      (by rw [hjdef]; exact hk)
    rw [List.getD_eq_getElem?_getD, List.getElem?_eq_getElem hklt, Option.getD_some]
    simpa using this
  -- the chosen vertex
  obtain ⟨v, hvlast⟩ : ∃ v, (st.bins.getD j []).getLast? = some v := by
    cases h : (st.bins.getD j []).getLast? with
    | none => exact absurd (List.getLast?_eq_none_iff.1 h) hjne
    | some v => exact ⟨v, rfl⟩
  have hsplit : st.bins.getD j [] = (st.bins.getD j []).dropLast ++ [v] := by
    have := List.dropLast_append_getLast? v hvlast
    exact this.symm
  obtain ⟨hjn, hjm⟩ := hbins j hjB
  have hvbin : v ∈ st.bins.getD j [] := by rw [hsplit]; simp
  obtain ⟨hvn, hvo, hvdeg⟩ := hjm v hvbin
  have hvdl : v ∉ (st.bins.getD j []).dropLast := by
    rw [hsplit] at hjn
    exact fun h => (List.nodup_append.1 hjn).2.2 v h v (by simp) rfl
  have hge : ∀ w, w < g.n → w ∉ st.order → j ≤ curDeg g st.order w := by
    intro w h1 h2
    by_contra hlt
    have := hbefore _ (by omega : curDeg g st.order w < j)
    have hmem := (hlive w h1 h2).2.2
    rw [this] at hmem; cases hmem
  -- current degrees after the removal of `v`
  have hcur : ∀ w, curDeg g st.order w = curDeg g (v :: st.order) w + (if g.adj w v then 1 else 0) :=
    curDeg_cons hvn hvo
  have hpendv : ∀ w, w < g.n → pend (g.nbrs v) w = (if g.adj w v then 1 else 0) := by
    intro w hwn
    simp only [pend, mem_nbrs, hwn, true_and]
    rw [hw.symm v w]
  have hvd : v < st.degrees.length := by rw [hm.dlen]; exact hvn
  -- the invariant at the start of the neighbour loop
  have hstart : MInv g B (v :: st.order) (g.nbrs v) (st.bins.set j (st.bins.getD j []).dropLast)
      (st.degrees.set v (-1)) := by
    have hgetb : ∀ k, (st.bins.set j (st.bins.getD j []).dropLast).getD k [] =
        if k = j then (st.bins.getD j []).dropLast else st.bins.getD k [] := by
      intro k
      rw [getD_set]
      by_cases hk : k = j
      · subst hk; rw [if_pos ⟨rfl, hjlt⟩, if_pos rfl]
      · rw [if_neg (fun h => hk h.1.symm), if_neg hk]
    refine ⟨by simpa using hm.dlen, by simpa using hm.blen, fun w hwm => ?_, fun w hwn hwo => ?_, fun k hk => ?_⟩
    · rw [getD_set]
      rcases List.mem_cons.1 hwm with rfl | h
      · rw [if_pos ⟨rfl, hvd⟩]
      · have hne : w ≠ v := fun e => hvo (e ▸ h)
        rw [if_neg (fun e => hne e.1.symm)]
        exact hm.removed w h
    · have hne : w ≠ v := fun e => hwo (by simp [e])
      have hwo' : w ∉ st.order := fun h => hwo (List.mem_cons_of_mem _ h)
      obtain ⟨l1, l2, l3⟩ := hlive w hwn hwo'
      rw [hpendv w hwn, ← hcur w, getD_set, if_neg (fun e => hne e.1.symm)]
      refine ⟨l1, l2, ?_⟩
      rw [hgetb]
      by_cases hk : curDeg g st.order w = j
      · rw [if_pos hk]
        rw [hk, hsplit] at l3
        rcases List.mem_append.1 l3 with h | h
        · exact h
        · exact absurd (by simpa using h) hne
      · rw [if_neg hk]; exact l3
    · rw [hgetb]
      by_cases hkj : k = j
      · subst hkj
        rw [if_pos rfl]
        refine ⟨hjn.sublist (List.dropLast_sublist _), fun w hwm => ?_⟩
        have hwb : w ∈ st.bins.getD k [] := (List.dropLast_sublist _).subset hwm
        obtain ⟨m1, m2, m3⟩ := hjm w hwb
        have hne : w ≠ v := fun e => hvdl (e ▸ hwm)
        refine ⟨m1, fun h => ?_, ?_⟩
        · rcases List.mem_cons.1 h with e | h'
          · exact hne e
          · exact m2 h'
        · rw [hpendv w m1, ← hcur w]; exact m3
      · rw [if_neg hkj]
        obtain ⟨hn0, hm0⟩ := hbins k hk
        refine ⟨hn0, fun w hwm => ?_⟩
        obtain ⟨m1, m2, m3⟩ := hm0 w hwm
        have hne : w ≠ v := by
          intro e; subst e; rw [hvdeg] at m3; exact hkj m3.symm
        refine ⟨m1, fun h => ?_, ?_⟩
        · rcases List.mem_cons.1 h with e | h'
          · exact hne e
          · exact m2 h'
        · rw [hpendv w m1, ← hcur w]; exact m3
  obtain ⟨b', d', hrun, hend⟩ := degNbrs_spec (g.nbrs v) _ _ hstart
    (List.nodup_range.sublist List.filter_sublist) (fun u hu => (mem_nbrs.1 hu).1)
  refine ⟨{ bins := b', degrees := d', d := if j > st.d then j else st.d, order := v :: st.order }, ?_, ?_, by simp⟩
  · simp only [degStep, hj, getElem?_eq_some_getD hjlt [], hvlast, hvd, if_true, hrun]
  · have hvself : degIn g (remOf g.n (v :: st.order)) v = j := by
      have := hcur v
      rw [hw.irrefl, hvdeg] at this
      simpa [curDeg] using this.symm
    refine ⟨hend, List.nodup_cons.2 ⟨hvo, hinv.onodup⟩, fun w hwm => ?_, fun pre x post hsp => ?_, ?_⟩
    · rcases List.mem_cons.1 hwm with rfl | h
      · exact hvn
      · exact hinv.olt w h
    · show degIn g (remOf g.n (x :: post)) x ≤ (if j > st.d then j else st.d)
      cases pre with
      | nil =>
        simp only [List.nil_append, List.cons.injEq] at hsp
        rw [← hsp.1, ← hsp.2, hvself]
        split <;> omega
      | cons a pre' =>
        simp only [List.cons_append, List.cons.injEq] at hsp
        have := hinv.back pre' x post hsp.2
        split <;> omega
    · show (if j > st.d then j else st.d) = 0 ∨ _
      by_cases hjd : j > st.d
      · right
        rw [if_pos hjd]
        refine ⟨[v], st.order, rfl, ?_, fun w hwm => ?_⟩
        · intro he
          have : v ∈ remOf g.n st.order := mem_remOf.2 ⟨hvn, hvo⟩
          rw [he] at this; cases this
        · obtain ⟨h1, h2⟩ := mem_remOf.1 hwm
          exact hge w h1 h2
      · rw [if_neg hjd]
        rcases hinv.low with h0 | ⟨newer, older, he, hne, hall⟩
        · exact Or.inl h0
        · exact Or.inr ⟨v :: newer, older, by rw [he]; rfl, hne, hall⟩

theorem degLoop_spec {g : G} (hw : g.WF) {B : Nat} : ∀ (k : Nat) (st : DegState), DInv g B st →
    st.order.length + k = g.n → ∃ st', degLoop g k st = .ok st' ∧ DInv g B st' ∧ st'.order.length = g.n := by
  intro k
  induction k with
  | zero => intro st h hl; exact ⟨st, rfl, h, by omega⟩
  | succ k ih =>
    intro st h hl
    obtain ⟨st1, he1, h1, hl1⟩ := degStep_spec hw h (by omega)
    obtain ⟨st2, he2, h2, hl2⟩ := ih st1 h1 (by omega)
    exact ⟨st2, by simp only [degLoop, he1, he2], h2, hl2⟩

theorem degInit_inv (g : G) : DInv g (maxList g.degrees + 1) (degInit g) := by
  have hcur : ∀ w, curDeg g [] w = g.deg w := by
    intro w
    simp [curDeg, remOf, degIn, G.deg, G.nbrs]
  have hdegB : ∀ w, w < g.n → g.deg w < maxList g.degrees + 1 := by
    intro w hw
    have : g.deg w ≤ maxList g.degrees := le_maxList (List.mem_map.2 ⟨w, List.mem_range.2 hw, rfl⟩)
    omega
  refine ⟨⟨by simp [degInit, G.degrees], by simp [degInit], by simp [degInit], fun w hwn _ => ?_, fun k hk => ?_⟩,
    by simp [degInit], by simp [degInit], fun pre v post h => by simp [degInit] at h, Or.inl rfl⟩
  · rw [pend_nil, Nat.add_zero]
    show (degInit g).degrees.getD w 0 = _ ∧ _ ∧ w ∈ (degInit g).bins.getD _ []
    simp only [degInit, hcur]
    refine ⟨?_, hdegB w hwn, ?_⟩
    · simp [G.degrees, List.getD_eq_getElem?_getD, List.getElem?_map, List.getElem?_range hwn]
    · rw [getD_map_range _ _ _ (hdegB w hwn)]
      exact List.mem_filter.2 ⟨List.mem_range.2 hwn, by simp⟩
  · show ((degInit g).bins.getD k []).Nodup ∧ _
    simp only [degInit]
    rw [getD_map_range _ _ _ hk]
    refine ⟨List.nodup_range.sublist List.filter_sublist, fun w hwm => ?_⟩
    have := List.mem_filter.1 hwm
    refine ⟨List.mem_range.1 this.1, by simp, ?_⟩
    rw [pend_nil, Nat.add_zero]
    show curDeg g [] w = k
    rw [hcur]; simpa using this.2

theorem backOK_iff (g : G) (d : Nat) : ∀ (rev : List Nat),
    backOK g d rev = true ↔ ∀ A v Bs, rev = A ++ v :: Bs → degIn g Bs v ≤ d := by
  intro rev
  induction rev with
  | nil => simp [backOK]
  | cons x t ih =>
    simp only [backOK, Bool.and_eq_true, decide_eq_true_eq, ih]
    constructor
    · rintro ⟨h1, h2⟩ A v Bs he
      cases A with
      | nil =>
        simp only [List.nil_append, List.cons.injEq] at he
        rw [← he.1, ← he.2]; exact h1
      | cons a A' =>
        simp only [List.cons_append, List.cons.injEq] at he
        exact h2 A' v Bs he.2
    · intro h
      exact ⟨h [] x t rfl, fun A v Bs he => h (x :: A) v Bs (by rw [he]; rfl)⟩

theorem degeneracyGo_spec {g : G} (hw : g.WF) :
    ∃ d order, degeneracyGo g = .ok (d, order) ∧ degeneracyCert g d order = true := by
  by_cases hn : g.n = 0
  · refine ⟨0, [], by simp [degeneracyGo, hn], ?_⟩
    simp [degeneracyCert, hn, nodupB, backOK]
  · obtain ⟨st, he, hinv, hlen⟩ := degLoop_spec hw g.n (degInit g) (degInit_inv g) (by simp [degInit])
    refine ⟨st.d, st.order, ?_, ?_⟩
    · have : (g.n == 0) = false := by simpa using hn
      simp only [degeneracyGo, this, Bool.false_eq_true, if_false, he]
    · have hperm := perm_range_of_nodup hlen hinv.onodup hinv.olt
      have hremperm : ∀ pre v post, st.order = pre ++ v :: post → (remOf g.n (v :: post)).Perm pre := by
        intro pre v post hsp
        have hnd := hinv.onodup
        rw [hsp] at hnd
        have hnd' := List.nodup_append.1 hnd
        refine (List.perm_ext_iff_of_nodup (nodup_remOf _ _) hnd'.1).2 fun w => ?_
        rw [mem_remOf]
        constructor
        · rintro ⟨hwn, hwnot⟩
          have : w ∈ st.order := hperm.symm.subset (List.mem_range.2 hwn)
          rw [hsp] at this
          rcases List.mem_append.1 this with h | h
          · exact h
          · exact absurd h hwnot
        · intro hwp
          exact ⟨hinv.olt w (by rw [hsp]; exact List.mem_append_left _ hwp),
            fun h => hnd'.2.2 w hwp w h rfl⟩
      simp only [degeneracyCert, Bool.and_eq_true, beq_iff_eq, nodupB_iff, List.all_eq_true, decide_eq_true_eq,
        Bool.or_eq_true, List.any_eq_true, List.mem_range]
      refine ⟨⟨⟨⟨hlen, hinv.onodup⟩, hinv.olt⟩, ?_⟩, Or.inr ?_⟩
      · rw [backOK_iff]
        intro A v Bs he'
        have hsp : st.order = Bs.reverse ++ v :: A.reverse := by
          have := congrArg List.reverse he'
          simpa using this
        have h1 := hinv.back _ _ _ hsp
        rw [degIn_perm (hremperm _ _ _ hsp), degIn_perm (List.reverse_perm Bs)] at h1
        exact h1
      · rcases hinv.low with h0 | ⟨newer, older, hsp, hne, hall⟩
        · refine ⟨0, Nat.pos_of_ne_zero hn, fun v _ => ?_⟩
          rw [h0]; exact Nat.zero_le _
        · -- `remOf older` is the prefix `newer` of the final order
          have hpre : (remOf g.n older).Perm newer := by
            cases older with
            | nil =>
              have : newer = st.order := by simpa using hsp.symm
              rw [this]
              refine (List.perm_ext_iff_of_nodup (nodup_remOf _ _) hinv.onodup).2 fun w => ?_
              rw [mem_remOf]
              exact ⟨fun h => hperm.symm.subset (List.mem_range.2 h.1), fun h => ⟨hinv.olt w h, by simp⟩⟩
            | cons o os => exact hremperm newer o os hsp
          have hnn : newer ≠ [] := by
            intro he'
            rw [he'] at hpre
            exact hne hpre.eq_nil
          have hnl : newer.length ≤ g.n := by
            rw [← hlen, hsp]; simp
          have hpos : 0 < newer.length := List.length_pos_iff.2 hnn
          refine ⟨newer.length - 1, by omega, fun v hv => ?_⟩
          have htake : st.order.take (newer.length - 1 + 1) = newer := by
            rw [show newer.length - 1 + 1 = newer.length by omega, hsp, List.take_left]
          rw [htake] at hv ⊢
          rw [← degIn_perm hpre]
          exact hall v (hpre.symm.subset hv)

end CliqueColour
