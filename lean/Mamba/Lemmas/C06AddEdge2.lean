import Mamba.Lemmas.C06AddEdge
/-! C06: `(*DenseGraph).AddEdge` preserves well-formedness and adds exactly the edge. -/
namespace Construct
open GraphSpec

theorem addEdge_unfold (g : Dense) (i j : Nat) : addEdge g i j =
    if i == j then .ok g else
    g.isEdge i j >>= fun b => if b then .ok g else
      incrAt g.deg i >>= fun d => incrAt d j >>= fun d =>
        (if i < j then setAt g.edges ((j * (j - 1)) / 2 + i) 1 else setAt g.edges ((i * (i - 1)) / 2 + j) 1) >>= fun e =>
          .ok { n := g.n, m := g.m + 1, deg := d, edges := e } := by
  unfold addEdge
  by_cases h : i = j
  · simp [h]
  · simp only [beq_iff_eq, h, ↓reduceIte]
    rfl


theorem G_ext {g h : G} (hn : g.n = h.n) (ha : ∀ u v, g.adj u v = h.adj u v) : g = h := by
  cases g; cases h; simp only at hn ha; subst hn
  congr 1; funext u v; exact ha u v

theorem bitAt_set (a : Array Nat) (k k' : Nat) (hk : k < a.size) :
    bitAt (a.set k 1) k' = (decide (k' = k) || bitAt a k') := by
  unfold bitAt
  rw [Array.getD_eq_getD_getElem?, Array.getD_eq_getD_getElem?, Array.getElem?_set]
  by_cases h : k = k'
  · subst h; simp [hk]
  · have : ¬ k' = k := fun e => h e.symm
    simp [h, this]

theorem addEdge_ok (d : Dense) (h : d.WF) (i j : Nat) (hi : i < d.n) (hj : j < d.n) :
    ∃ d', addEdge d i j = .ok d' ∧ d'.WF ∧ d'.n = d.n ∧ d'.abs = Families.addEdge d.abs i j := by
  have hs : d.edges.size = tri d.n := h.size_edges
  have hwf := Dense.abs_wf d hs
  rw [addEdge_unfold]
  by_cases hij : i = j
  · subst hij
    refine ⟨d, by simp, h, rfl, ?_⟩
    refine G_ext (show _ = _ from rfl) ?_
    intro u v; simp [Families.addEdge]
  · simp only [beq_iff_eq, hij, ↓reduceIte, Dense.isEdge_eq d hs, Outcome.bind_ok]
    have hadj : d.abs.adj = d.adjF := by simp [Dense.abs, Dense.adj_eq d hs]
    by_cases hb : d.adjF i j = true
    · refine ⟨d, by simp [hb], h, rfl, ?_⟩
      refine G_ext (show _ = _ from rfl) ?_
      intro u v
      rw [addEdge_adj d.abs i j hij hi hj, hadj]
      have hb' : d.adjF j i = true := by rw [Dense.adjF_symm]; exact hb
      cases hp : isPair i j u v
      · simp
      · rcases (isPair_iff i j u v).mp hp with ⟨rfl, rfl⟩ | ⟨rfl, rfl⟩ <;> simp [hb, hb']
    · have hb0 : d.adjF i j = false := by simpa using hb
      obtain ⟨d1, e1, s1, g1⟩ := incrAt_ok d.deg i (by rw [h.size_deg]; exact hi)
      obtain ⟨d2, e2, s2, g2⟩ := incrAt_ok d1 j (by rw [s1, h.size_deg]; exact hj)
      -- the position written
      let a := min i j
      let b := max i j
      have hab : a < b := by simp only [a, b]; omega
      have hbn : b < d.n := by simp only [b]; omega
      have hk : tri b + a < d.edges.size := by rw [hs]; exact tri_add_lt hab hbn
      have hset : (if i < j then setAt d.edges ((j * (j - 1)) / 2 + i) 1 else setAt d.edges ((i * (i - 1)) / 2 + j) 1)
          = .ok (d.edges.set (tri b + a) 1) := by
        by_cases hlt : i < j
        · have : a = i ∧ b = j := by simp only [a, b]; omega
          simp only [hlt, ↓reduceIte, tri_def]
          rw [← this.1, ← this.2, setAt_ok _ hk]
        · have : a = j ∧ b = i := by simp only [a, b]; omega
          simp only [hlt, ↓reduceIte, tri_def]
          rw [← this.1, ← this.2, setAt_ok _ hk]
      let d' : Dense := { n := d.n, m := d.m + 1, deg := d2, edges := d.edges.set (tri b + a) 1 }
      have hs' : d'.edges.size = tri d'.n := by simp [d', hs]
      have habs : d'.abs = Families.addEdge d.abs i j := by
        refine G_ext (show _ = _ from rfl) ?_
        intro u v
        rw [addEdge_adj d.abs i j hij hi hj, hadj]
        simp only [Dense.abs, Dense.adj_eq d' hs']
        -- closed formula on both sides
        unfold Dense.adjF
        simp only [d', bitAt_set _ _ _ hk]
        rcases Nat.lt_trichotomy u v with huv | huv | huv
        · have h1 : ¬ v < u := by omega
          by_cases hv : v < d.n
          · have hu : u < d.n := by omega
            have : decide (tri v + u = tri b + a) = isPair i j u v := by
              rw [Bool.eq_iff_iff, isPair_iff, decide_eq_true_eq]
              constructor
              · intro e; have := tri_inj huv hab e; simp only [a, b] at this; omega
              · intro e
                have : u = a ∧ v = b := by simp only [a, b]; omega
                rw [this.1, this.2]
            simp [huv, hu, hv, this, Bool.or_comm]
          · have : isPair i j u v = false := by
              rw [Bool.eq_false_iff]; intro e; rw [isPair_iff] at e; omega
            simp [hv, this]
        · subst huv
          have : isPair i j u u = false := by
            rw [Bool.eq_false_iff]; intro e; rw [isPair_iff] at e; omega
          simp [this]
        · have h1 : ¬ u < v := by omega
          by_cases hu : u < d.n
          · have hv : v < d.n := by omega
            have : decide (tri u + v = tri b + a) = isPair i j u v := by
              rw [Bool.eq_iff_iff, isPair_iff, decide_eq_true_eq]
              constructor
              · intro e; have := tri_inj huv hab e; simp only [a, b] at this; omega
              · intro e
                have : v = a ∧ u = b := by simp only [a, b]; omega
                rw [this.1, this.2]
            simp [huv, h1, hu, hv, this, Bool.or_comm]
          · have : isPair i j u v = false := by
              rw [Bool.eq_false_iff]; intro e; rw [isPair_iff] at e; omega
            simp [hu, this]
      refine ⟨d', ?_, ⟨hs', by simp [d', s2, s1, h.size_deg], ?_, ?_⟩, rfl, habs⟩
      · simp only [hb0, Bool.false_eq_true, ↓reduceIte, e1, Outcome.bind_ok, e2, hset]; rfl
      · show d.m + 1 = ((d'.abs).m : Int)
        rw [habs, addEdge_m d.abs hwf i j hij hi hj (by rw [hadj]; exact hb0), h.m_eq]; simp
      · intro v hv
        show d2[v]? = some ((d'.abs.deg v : Nat) : Int)
        rw [habs, addEdge_deg d.abs hwf i j hij hi hj (by rw [hadj]; exact hb0), g2 v, g1 v, h.deg_eq v hv]
        simp only [Option.map_some, Option.some.injEq]
        have e1 : (v = i) = (v = i) := rfl
        by_cases c1 : v = i <;> by_cases c2 : v = j <;> simp [c1, c2] <;> omega


end Construct
