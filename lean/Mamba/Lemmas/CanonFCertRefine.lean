import Mamba.Lemmas.CanonFRefine
import Mamba.Lemmas.CanonFCert
/-!
# The certificate invariant (`VN` / `VAny` of CanonFCert.lean) through the refinement: `refine_cert`
-/
namespace CanonF

/-! ## the certificate invariant through the refinement -/

/-- if the split of bin `j` makes its first fragment the singleton `[j, j+1)` although bin `j` was not this singleton
before, the divider at index `j` is new and carries the current age -/
theorem SplitRel.age_at {n j bs dj : Nat} {K nbsL : List Nat} {op op2 : OP}
    (h : SplitRel n j bs dj K nbsL op op2) (hp : PartInv n op)
    (hnext : op.binDividers.toList[j]? ≠ some (j + 1)) (hs : op2.binDividers.toList[j]? = some (j + 1)) :
    op2.binAges.toList[j]? = some op.age := by
  obtain ⟨l1, l2⟩ := h.lens hp
  cases hn : nbsL with
  | nil =>
    exfalso
    have := h.bd
    rw [hn, List.append_nil, List.take_append_drop] at this
    rw [this] at hs
    exact hnext hs
  | cons x xs =>
    have htk : (op.binAges.toList.take j).length = j := by rw [List.length_take]; omega
    rw [h.ages, hn, List.append_assoc, List.getElem?_append_right (by omega), htk, Nat.sub_self,
      List.getElem?_append_left (by simp)]
    simp

/-- the certificate of the prefix does not see the split of a bin behind the prefix -/
theorem SplitRel.certPos_eq {n j bs dj : Nat} {K nbsL : List Nat} {op op2 : OP} (nb : Nbrs)
    (h : SplitRel n j bs dj K nbsL op op2) (hp : PartInv n op) (hps : PrefixSingle op) :
    certPos nb op2.order.toList op.spl = certPos nb op.order.toList op.spl := by
  obtain ⟨s1, s2⟩ := h.spl_le hp hps
  have hle : op.spl ≤ n := Nat.le_trans hps.le hp.bdLen_le
  apply certPos_frame
  · rw [Sl.length_toList _ hp.wfOrder, hp.lenOrder]; exact hle
  · rw [Sl.length_toList _ h.inv.wfOrder, h.inv.lenOrder]; exact hle
  · intro p hpl
    exact h.order_lt hp (by omega)

/-- `splitCell` and the certificate: as long as it returns `false` the state is clean (`VN`), when it returns `true`
the state satisfies `VAny` -/
theorem splitCell_cert (hst : StablePerm) (hx : ExpandCert) {nb : Nbrs} {n : Nat} {cb fl : Sl Nat}
    {opts : Options} {j : Nat} {op op' : OP} {sc sc' : Scratch} {r : Bool}
    (hp : PartInv n op) (hcc : CellCount op sc.timesSeen sc.maxCell sc.numberOfMax j) (hv : VN nb cb fl op)
    (h : splitCell nb n cb fl opts j (false, op, sc) = .ok (r, op', sc')) :
    (r = false → VN nb cb fl op') ∧ (r = true → VAny nb cb fl op') := by
  rcases splitCell_split hst hp hcc h with ⟨rfl, rfl, rfl⟩ | ⟨bs, dj, K, nbsL, op2, sc2, hrel, _, ht⟩
  · exact ⟨(fun _ => hv), (fun h => by cases h)⟩
  · obtain ⟨_, w, hex, hwr, _⟩ := scTail_ok ht
    suffices hw : (w = false → VN nb cb fl op') ∧ (w = true → VAny nb cb fl op') by
      constructor
      · intro hr
        cases w with
        | false => exact hw.1 rfl
        | true => rw [hwr rfl] at hr; cases hr
      · intro _
        cases w with
        | false => exact (hw.1 rfl).any
        | true => exact hw.2 rfl
    have hc : VClean nb op := hv
    have hps : PrefixSingle op := hc.pre.toPrefixSingle
    have hnext := hc.pre.next
    obtain ⟨s1, _⟩ := hrel.spl_le hp hps
    have hps2 := hrel.prefixSingle hp hps
    by_cases hj : j = op2.spl
    · -- bin `spl` has been split: `expandValue` runs
      rw [if_pos hj] at hex
      obtain ⟨_, f2, f3, _, f5, _⟩ := expandValue_frame hex
      have hjs : j = op.spl := by rw [hj, hrel.spl]
      obtain ⟨g1, g2⟩ := hx n nb cb fl op2 op' w hrel.inv hps2 (by rw [hrel.value]; exact hc.wf)
        (by rw [hrel.value, hrel.spl, hrel.certPos_eq nb hp hps]; exact hc.val) hex
      refine ⟨(fun hw => g1 hw), (fun hw => ?_)⟩
      obtain ⟨k1, k2⟩ := g2 hw
      refine Or.inr ⟨k1, j, j + 1, by rw [hj]; exact k2, ?_⟩
      -- the divider at index `j` is now `j + 1` (prefix of `op'`), hence new, hence of the current age
      have hd : op2.binDividers.toList[j]? = some (j + 1) := by
        rw [← f2]; exact k1.pre.single j (by rw [hj]; exact k2)
      have hage := hrel.age_at hp (by rw [hjs]; exact hnext) hd
      unfold divs
      rw [List.getElem?_zip_eq_some, f2, f3, f5, hrel.age]
      exact ⟨hd, hage⟩
    · -- a bin behind `spl` has been split: nothing the certificate depends on has changed
      rw [if_neg hj] at hex
      simp only [Outcome.ok.injEq, Prod.mk.injEq] at hex
      obtain ⟨rfl, rfl⟩ := hex
      have hlt : op.spl < j := by rw [hrel.spl] at hj; omega
      have hnext2 : op2.binDividers.toList[op2.spl]? ≠ some (op2.spl + 1) := by
        rw [hrel.spl, hrel.bd_lt hp hlt]; exact hnext
      refine ⟨(fun _ => ?_), (fun h => by cases h)⟩
      exact ⟨⟨hps2, hnext2⟩, by rw [hrel.value]; exact hc.wf,
        by rw [hrel.value, hrel.spl, hrel.certPos_eq nb hp hps]; exact hc.val⟩

theorem VN.of_btc {nb : Nbrs} {cb fl : Sl Nat} {op : OP} (h : VN nb cb fl op) (b : Sl Int) :
    VN nb cb fl { op with binsToCheck := b } := by
  have hc : VClean nb op := h
  exact ⟨⟨⟨hc.pre.le, hc.pre.single⟩, hc.pre.next⟩, hc.wf, hc.val⟩

theorem carried_cert (hst : StablePerm) (hx : ExpandCert) (nb : Nbrs) (n : Nat) (cb fl : Sl Nat)
    (opts : Options) : Carried2 nb n cb fl opts (VN nb cb fl) (VAny nb cb fl) :=
  ⟨fun _ _ _ _ _ _ hp hcc hq h => splitCell_cert hst hx hp hcc hq h, fun _ b hq => hq.of_btc b⟩

/-- the certificate invariant through the refinement -/
theorem refine_cert (hst : StablePerm) (hx : ExpandCert) {n : Nat} {nb : Nbrs} {cb fl : Sl Nat}
    {opts : Options} {op op' : OP} {sc sc' : Scratch} {w : Bool}
    (h : PartInv n op) (ha : AgeInv op) (hsc : ScratchOK n sc) (hv : VN nb cb fl op)
    (hr : refine nb cb fl opts op sc = .ok (w, op', sc')) :
    (w = false → VN nb cb fl op') ∧ (w = true → VAny nb cb fl op') := by
  unfold refine at hr
  rw [h.lenOrder] at hr
  exact (refineLoop_inv2 hst (carried_cert hst hx nb n cb fl opts) _ op op' sc sc' w h ha hv hsc.scrInv hr).2.1


/-- while bin 0 is the singleton `[0, 1)` and `spl = 0`, the refinement never touches `value` / `spl` -/
theorem carried_init (hst : StablePerm) (nb : Nbrs) (n : Nat) (cb fl : Sl Nat) (opts : Options) (v0 : Sl Nat) :
    Carried nb n cb fl opts (fun op => op.spl = 0 ∧ op.value = v0 ∧ op.binDividers.toList[0]? = some 1) := by
  constructor
  · intro j op op' sc sc' r hp hcc hq h
    obtain ⟨q1, q2, q3⟩ := hq
    rcases splitCell_split hst hp hcc h with ⟨_, rfl, rfl⟩ | ⟨bs, dj, K, nbsL, op2, sc2, hrel, _, ht⟩
    · exact ⟨q1, q2, q3⟩
    · obtain ⟨_, w, hex, _, _⟩ := scTail_ok ht
      have hj0 : 0 < j := by
        apply Nat.pos_of_ne_zero
        intro hj
        subst hj
        have h1 := hrel.hbs
        have h2 := hrel.hdj
        simp only [List.getElem?_cons_zero] at h1
        rw [q3] at h2
        have e1 : bs = 0 := (Option.some.inj h1).symm
        have e2 : dj = 1 := (Option.some.inj h2).symm
        exact hrel.ne1 (by omega)
      have hne : ¬ j = op2.spl := by rw [hrel.spl, q1]; omega
      rw [if_neg hne] at hex
      simp only [Outcome.ok.injEq, Prod.mk.injEq] at hex
      obtain ⟨_, rfl⟩ := hex
      exact ⟨by rw [hrel.spl]; exact q1, by rw [hrel.value]; exact q2, by rw [hrel.bd_lt hp hj0]; exact q3⟩
  · intro op b hq
    exact hq

/-- the initial refinement (`spl = 0`, empty certificate): bin 0 may be a singleton, so the input need not be clean -/
theorem refine_cert_init (hst : StablePerm) (hx : ExpandCert) {n : Nat} {nb : Nbrs} {cb fl : Sl Nat}
    {opts : Options} {op op' : OP} {sc sc' : Scratch} {w : Bool}
    (h : PartInv n op) (ha : AgeInv op) (hsc : ScratchOK n sc) (hspl : op.spl = 0) (hval : op.value.len = 0)
    (hcb : cb.len = 0)
    (hr : refine nb cb fl opts op sc = .ok (w, op', sc')) :
    PrefixSingle op' ∧ op'.value.WF ∧ op'.value.toList = certPos nb op'.order.toList op'.spl := by
  have _ := hcb
  have hwf : op.value.WF := by unfold Sl.WF; omega
  have hnil : op.value.toList = [] := by unfold Sl.toList; rw [hval]; rfl
  have hc0 : ∀ o : List Nat, certPos nb o 0 = [] := fun o => by simp [certPos]
  by_cases hb : op.binDividers.toList[0]? = some 1
  · unfold refine at hr
    rw [h.lenOrder] at hr
    obtain ⟨q1, q2, _⟩ := (refineLoop_inv hst (carried_init hst nb n cb fl opts op.value) _ op op' sc sc' w h ha
      ⟨hspl, rfl, hb⟩ hsc.scrInv hr).2.1
    refine ⟨⟨by rw [q1]; exact Nat.zero_le _, fun j hj => by rw [q1] at hj; omega⟩, by rw [q2]; exact hwf, ?_⟩
    rw [q1, q2, hnil, hc0]
  · have hv : VN nb cb fl op :=
      ⟨⟨⟨by rw [hspl]; exact Nat.zero_le _, fun j hj => by rw [hspl] at hj; omega⟩, by rw [hspl]; exact hb⟩, hwf,
        by rw [hspl, hnil, hc0]⟩
    obtain ⟨g1, g2⟩ := refine_cert hst hx h ha hsc hv hr
    cases w with
    | false =>
      have hc : VClean nb op' := g1 rfl
      exact ⟨hc.pre.toPrefixSingle, hc.wf, hc.val⟩
    | true =>
      rcases g2 rfl with hc | ⟨hs, _⟩
      · exact ⟨hc.pre.toPrefixSingle, hc.wf, hc.val⟩
      · exact ⟨hs.pre, hs.wf, hs.val⟩

end CanonF
