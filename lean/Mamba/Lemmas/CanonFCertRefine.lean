import Mamba.Lemmas.CanonFRefine
import Mamba.Lemmas.CanonFCert
/-!
# The certificate invariant (`VN` / `VAny` of CanonFCert.lean) through the refinement: `refine_cert`
-/
namespace CanonF

/-! ## the certificate invariant through the refinement -/

/-- if the split of bin `j` makes its first fragment the singleton `[j, j+1)` although bin `j` was not this singleton
before, the divider at index `j` is new and carries the current age -/
theorem SplitRel.age_at {n j bs dj : Nat} {K nbsL : List Nat} {op op2 : OP}
    (h : SplitRel n j bs dj K nbsL op op2) (hp : PartInv n op)
    (hnext : op.binDividers.toList[j]? ≠ some (j + 1)) (hs : op2.binDividers.toList[j]? = some (j + 1)) :
    op2.binAges.toList[j]? = some op.age := by
  obtain ⟨l1, l2⟩ := h.lens hp
  cases hn : nbsL with
  | nil =>
    exfalso
    have := h.bd
    rw [hn, List.append_nil, List.take_append_drop] at this
    rw [this] at hs
    exact hnext hs
  | cons x xs =>
    have htk : (op.binAges.toList.take j).length = j := by rw [List.length_take]; omega
    rw [h.ages, hn, List.append_assoc, List.getElem?_append_right (by omega), htk, Nat.sub_self,
      List.getElem?_append_left (by simp)]
    simp

/-- `expandValue` does nothing when bin `spl` is not a singleton -/
theorem expandValue_nonsingle {n : Nat} {nb : Nbrs} {cb fl : Sl Nat} {op op' : OP} {w : Bool}
    (hp : PartInv n op) (hps : PrefixSingle op) (hnext : op.binDividers.toList[op.spl]? ≠ some (op.spl + 1))
    (h : expandValue nb cb fl op = .ok (w, op')) : w = false ∧ op' = op := by
  unfold expandValue at h
  have hle : op.spl ≤ n := Nat.le_trans hps.le hp.bdLen_le
  have hlo := hp.lenOrder
  cases hk : op.order.len - op.spl with
  | zero =>
    rw [hk] at h
    simp only [expandLoop, Outcome.ok.injEq, Prod.mk.injEq] at h
    obtain ⟨rfl, rfl⟩ := h
    refine ⟨rfl, ?_⟩
    have : op.order.len = op.spl := by omega
    rw [this]
  | succ k =>
    rw [hk, expandLoop] at h
    cases hg : op.binDividers.get op.spl with
    | ok a =>
      have ha : a ≠ op.spl + 1 := by
        intro e; subst e
        exact hnext (Sl.get_eq_toList.1 hg)
      by_cases h0 : op.spl = 0
      · simp only [h0, if_true] at h
        rw [h0] at hg ha
        rw [hg] at h
        simp only at h
        rw [if_pos (by omega)] at h
        simp only [Outcome.ok.injEq, Prod.mk.injEq] at h
        obtain ⟨rfl, rfl⟩ := h
        refine ⟨rfl, ?_⟩
        rw [← h0]
      · have hg1 : op.binDividers.get (op.spl - 1) = .ok op.spl := by
          rw [Sl.get_eq_toList, hps.single (op.spl - 1) (by omega)]
          congr 1; omega
        simp only [if_neg h0, hg, hg1] at h
        rw [if_pos (by omega)] at h
        simp only [Outcome.ok.injEq, Prod.mk.injEq] at h
        obtain ⟨rfl, rfl⟩ := h
        exact ⟨rfl, rfl⟩
    | panic =>
      by_cases h0 : op.spl = 0
      · simp only [h0, if_true] at h
        rw [h0] at hg
        rw [hg] at h
        simp at h
      · simp only [if_neg h0, hg] at h
        simp at h
    | outOfFuel =>
      exfalso
      unfold Sl.get at hg
      split at hg
      · split at hg <;> cases hg
      · cases hg


/-- the certificate of the prefix does not see the split of a bin behind the prefix -/
theorem SplitRel.certPos_eq {n j bs dj : Nat} {K nbsL : List Nat} {op op2 : OP} (nb : Nbrs)
    (h : SplitRel n j bs dj K nbsL op op2) (hp : PartInv n op) (hps : PrefixSingle op) :
    certPos nb op2.order.toList op.spl = certPos nb op.order.toList op.spl := by
  obtain ⟨s1, s2⟩ := h.spl_le hp hps
  have hle : op.spl ≤ n := Nat.le_trans hps.le hp.bdLen_le
  apply certPos_frame
  · rw [Sl.length_toList _ hp.wfOrder, hp.lenOrder]; exact hle
  · rw [Sl.length_toList _ h.inv.wfOrder, h.inv.lenOrder]; exact hle
  · intro p hpl
    exact h.order_lt hp (by omega)

theorem SplitRel.vstale {n j bs dj : Nat} {K nbsL : List Nat} {op op2 : OP} {nb : Nbrs} {cb fl : Sl Nat}
    (h : SplitRel n j bs dj K nbsL op op2) (hp : PartInv n op) (hv : VStale nb cb fl op) : VStale nb cb fl op2 := by
  obtain ⟨extra, e1, e2⟩ := hv.val
  refine ⟨h.prefixSingle hp hv.pre, by rw [h.value]; exact hv.wf, ⟨extra, ?_, ?_⟩, by rw [h.value]; exact hv.poisoned,
    by rw [h.spl, h.inv.lenOrder, ← hp.lenOrder]; exact hv.lt⟩
  · rw [h.value, h.spl, h.certPos_eq nb hp hv.pre]; exact e1
  · rw [h.spl]; exact e2

/-- a stale certificate stays stale (with the same `spl`) in the state `expandValue` returns -/
theorem staleAge_of_frame {op2 op' : OP} {a : Int} (e2 : op'.binDividers = op2.binDividers)
    (e3 : op'.binAges = op2.binAges) (e5 : op'.age = a) (es : op'.spl = op2.spl)
    (h : op2.binDividers.toList[op2.spl]? = some (op2.spl + 1) → op2.binAges.toList[op2.spl]? = some a) :
    StaleAge op' := by
  intro hs
  rw [e2, es] at hs
  rw [e3, es, e5]
  exact h hs

/-- `splitCell` and the certificate: as long as it returns `false` the state satisfies `VN`, when it returns `true`
the state satisfies `VAny` -/
theorem splitCell_cert (hst : StablePerm) (hx : ExpandCert) (hy : ExpandStale) {nb : Nbrs} {n : Nat} {cb fl : Sl Nat}
    {opts : Options} {j : Nat} {op op' : OP} {sc sc' : Scratch} {r : Bool}
    (hp : PartInv n op) (hcc : CellCount op sc.timesSeen sc.maxCell sc.numberOfMax j) (hv : VN nb cb fl op)
    (h : splitCell nb n cb fl opts j (false, op, sc) = .ok (r, op', sc')) :
    (r = false → VN nb cb fl op') ∧ (r = true → VAny nb cb fl op') := by
  rcases splitCell_split hst hp hcc h with ⟨rfl, rfl, rfl⟩ | ⟨bs, dj, K, nbsL, op2, sc2, hrel, _, ht⟩
  · exact ⟨(fun _ => hv), (fun h => by cases h)⟩
  · obtain ⟨_, w, hex, hwr, _⟩ := scTail_ok ht
    -- it suffices to treat the result of the `expandValue` step
    suffices hw : (w = false → VN nb cb fl op') ∧ (w = true → VAny nb cb fl op') by
      constructor
      · intro hr
        cases w with
        | false => exact hw.1 rfl
        | true => rw [hwr rfl] at hr; cases hr
      · intro _
        cases w with
        | false => exact (hw.1 rfl).any
        | true => exact hw.2 rfl
    have hps : PrefixSingle op := by
      rcases hv with hc | hs
      · exact hc.pre.toPrefixSingle
      · exact hs.1.pre
    have hnext : op.binDividers.toList[op.spl]? ≠ some (op.spl + 1) := by
      rcases hv with hc | hs
      · exact hc.pre.next
      · exact hs.2
    obtain ⟨s1, _⟩ := hrel.spl_le hp hps
    have hps2 := hrel.prefixSingle hp hps
    by_cases hj : j = op2.spl
    · -- bin `spl` has been split: `expandValue` runs
      rw [if_pos hj] at hex
      obtain ⟨_, f2, f3, _, f5, _⟩ := expandValue_frame hex
      have hjs : j = op.spl := by rw [hj, hrel.spl]
      have hage : op2.binDividers.toList[op2.spl]? = some (op2.spl + 1) →
          op2.binAges.toList[op2.spl]? = some op2.age := by
        rw [← hj, hrel.age]
        intro hs
        exact hrel.age_at hp (by rw [hjs]; exact hnext) hs
      rcases hv with hc | ⟨hs, _⟩
      · obtain ⟨g1, g2⟩ := hx n nb cb fl op2 op' w hrel.inv hps2 (by rw [hrel.value]; exact hc.wf)
          (by rw [hrel.value, hrel.spl, hrel.certPos_eq nb hp hps]; exact hc.val) hex
        refine ⟨fun hw => Or.inl (g1 hw), fun hw => ?_⟩
        obtain ⟨k1, k2⟩ := g2 hw
        exact Or.inr ⟨k1, staleAge_of_frame f2 f3 f5 k2 hage⟩
      · have hs2 := hrel.vstale hp hs
        by_cases hsing : op2.binDividers.toList[op2.spl]? = some (op2.spl + 1)
        · obtain ⟨g1, g2, g3⟩ := hy n nb cb fl op2 op' w hrel.inv hs2 hsing hex
          subst g1
          exact ⟨(fun h => by cases h), (fun _ => Or.inr ⟨g2, staleAge_of_frame f2 f3 f5 g3 hage⟩)⟩
        · obtain ⟨g1, g2⟩ := expandValue_nonsingle hrel.inv hps2 hsing hex
          subst g1; subst g2
          exact ⟨(fun _ => Or.inr ⟨hs2, hsing⟩), (fun h => by cases h)⟩
    · -- a bin behind `spl` has been split: nothing the certificate depends on has changed
      rw [if_neg hj] at hex
      simp only [Outcome.ok.injEq, Prod.mk.injEq] at hex
      obtain ⟨rfl, rfl⟩ := hex
      have hlt : op.spl < j := by rw [hrel.spl] at hj; omega
      have hnext2 : op2.binDividers.toList[op2.spl]? ≠ some (op2.spl + 1) := by
        rw [hrel.spl, hrel.bd_lt hp hlt]; exact hnext
      refine ⟨(fun _ => ?_), (fun h => by cases h)⟩
      rcases hv with hc | ⟨hs, _⟩
      · exact Or.inl ⟨⟨hps2, hnext2⟩, by rw [hrel.value]; exact hc.wf,
          by rw [hrel.value, hrel.spl, hrel.certPos_eq nb hp hps]; exact hc.val⟩
      · exact Or.inr ⟨hrel.vstale hp hs, hnext2⟩

theorem VN.of_btc {nb : Nbrs} {cb fl : Sl Nat} {op : OP} (h : VN nb cb fl op) (b : Sl Int) :
    VN nb cb fl { op with binsToCheck := b } := by
  rcases h with hc | ⟨hs, hn⟩
  · exact Or.inl ⟨⟨⟨hc.pre.le, hc.pre.single⟩, hc.pre.next⟩, hc.wf, hc.val⟩
  · exact Or.inr ⟨⟨⟨hs.pre.le, hs.pre.single⟩, hs.wf, hs.val, hs.poisoned, hs.lt⟩, hn⟩

theorem carried_cert (hst : StablePerm) (hx : ExpandCert) (hy : ExpandStale) (nb : Nbrs) (n : Nat) (cb fl : Sl Nat)
    (opts : Options) : Carried2 nb n cb fl opts (VN nb cb fl) (VAny nb cb fl) :=
  ⟨fun _ _ _ _ _ _ hp hcc hq h => splitCell_cert hst hx hy hp hcc hq h, fun _ b hq => hq.of_btc b⟩

/-- the certificate invariant through the refinement -/
theorem refine_cert (hst : StablePerm) (hx : ExpandCert) (hy : ExpandStale) {n : Nat} {nb : Nbrs} {cb fl : Sl Nat}
    {opts : Options} {op op' : OP} {sc sc' : Scratch} {w : Bool}
    (h : PartInv n op) (ha : AgeInv op) (hsc : ScratchOK n sc) (hv : VN nb cb fl op)
    (hr : refine nb cb fl opts op sc = .ok (w, op', sc')) :
    (w = false → VN nb cb fl op') ∧ (w = true → VAny nb cb fl op') := by
  unfold refine at hr
  rw [h.lenOrder] at hr
  exact (refineLoop_inv2 hst (carried_cert hst hx hy nb n cb fl opts) _ op op' sc sc' w h ha hv hsc.scrInv hr).2.1

end CanonF
