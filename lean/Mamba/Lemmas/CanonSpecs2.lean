import Mamba.Lemmas.CanonTotal
import Mamba.Lemmas.ExactAssemble
namespace Search
open Disjoint GSearch GraphSpec

variable {O : Oracle} {n : Nat}

/-- the transposition of `a` and `b` -/
def swapFn (a b : Nat) : Nat → Nat := fun u => if u = a then b else if u = b then a else u

theorem swapFn_invol (a b u : Nat) : swapFn a b (swapFn a b u) = u := by
  unfold swapFn
  by_cases h1 : u = a
  · subst h1
    by_cases h3 : b = u
    · simp [h3]
    · simp [h3]
  · by_cases h2 : u = b
    · subst h2; simp [h1]
    · simp [h1, h2]

theorem swapFn_bij {nv a b : Nat} (ha : a < nv) (hb : b < nv) : IsBij nv (swapFn a b) := by
  refine ⟨?_, ?_, ?_⟩
  · intro u hu; unfold swapFn; split
    · exact hb
    · split
      · exact ha
      · exact hu
  · intro u v _ _ h
    have := congrArg (swapFn a b) h
    rwa [swapFn_invol, swapFn_invol] at this
  · intro w hw
    refine ⟨swapFn a b w, ?_, swapFn_invol a b w⟩
    unfold swapFn; split
    · exact hb
    · split
      · exact ha
      · exact hw

theorem firstBest_exists {g : DG} {l : List Nat} {v : Nat} (hv : v ∈ l) (hb : Best g v) :
    ∃ w, firstBest g l = some w := by
  unfold firstBest
  cases hf : l.find? fun u => decide (Best g u) with
  | some w => exact ⟨w, rfl⟩
  | none =>
    have := List.find?_eq_none.1 hf v hv
    simp [hb] at this

theorem canon_exists_of_oracle (hO : OracleSpec O n) (Y : G) (hY : Y.WF) (h2 : 2 ≤ Y.n) (hle : Y.n ≤ n) :
    ∃ (P g2 : DG) (x : Nat) (c : Option Ans), Built P ∧ InRange P x ∧ AccK O n P x g2 c ∧ Iso Y g2.toG := by
  -- a built copy of Y
  obtain ⟨Y0, hY0, hY0n, hY0adj⟩ := exists_built Y hY Y.n (by omega)
  have iY0 : Iso Y Y0.toG := ⟨hY0n.symm, fun u => u, IsBij.id _, fun u v hu hv => (hY0adj u v hu hv).symm⟩
  obtain ⟨a0, hga0⟩ := hO.total hY0 (by omega)
  have hperm0 := hO.perm hY0 hga0
  -- its first best vertex
  obtain ⟨v, hv, hmax⟩ := exists_best Y0 Y0.nv (by omega) (Nat.le_refl _)
  have hbv : Best Y0 v := (best_iff_not_better hv).2 hmax
  obtain ⟨w0, hfb0⟩ := firstBest_exists (hperm0.mem_iff.2 (List.mem_range.2 hv)) hbv
  have hw0 := firstBest_some hfb0
  have hw0lt : w0 < Y0.nv := by simpa using hperm0.mem_iff.1 hw0.1
  -- move it to the last position
  have hLlt : Y0.nv - 1 < Y0.nv := by omega
  let π : Nat → Nat := swapFn w0 (Y0.nv - 1)
  have hπ : IsBij Y0.nv π := swapFn_bij hw0lt hLlt
  have hπL : π (Y0.nv - 1) = w0 := by
    simp only [π, swapFn]
    by_cases h : Y0.nv - 1 = w0 <;> simp [h]
  let Y1 : G := { n := Y0.nv, adj := fun u v => decide (u < Y0.nv) && decide (v < Y0.nv) && Y0.toG.adj (π u) (π v) }
  have hY1 : Y1.WF := by
    refine ⟨?_, ?_, ?_⟩
    · intro u v
      simp only [Y1]
      rw [(toG_wf Y0).symm]
      cases decide (u < Y0.nv) <;> cases decide (v < Y0.nv) <;> simp
    · intro u; simp [Y1, (toG_wf Y0).irrefl]
    · intro u v h
      simp only [Y1, Bool.and_eq_true, decide_eq_true_eq] at h
      exact ⟨h.1.1, h.1.2⟩
  obtain ⟨P, g2, x, hP, hPn, hxr, hadd, hadj⟩ := exists_built_child Y1 hY1 (by show 2 ≤ Y0.nv; omega)
  have hPn' : P.nv + 1 = Y0.nv := hPn
  have hb2 : Built g2 := hP.child hxr hadd
  have hn2 : g2.nv = Y0.nv := by rw [addVertex_nv hadd]; exact hPn'
  have iπ : IsIso g2 Y0 π := by
    refine ⟨hn2, hn2 ▸ hπ, ?_⟩
    intro u v hu hv
    rw [hn2] at hu hv
    rw [hadj u v hu hv]
    simp [Y1, hu, hv]
  -- the oracle's answer for the relabelled graph, and the transported first best vertex
  obtain ⟨a2, hga2⟩ := hO.total hb2 (by omega)
  have iD : IsoD Y0 g2 := ⟨iπ.nv.symm, _, iπ.symm.bij, iπ.symm.adj⟩
  obtain ⟨θ, hθ, htr⟩ := canon_transport hO hY0 hb2 iD hga0 hga2
  obtain ⟨haug1, haug2⟩ := child_aug hP hxr hadd
  obtain ⟨c, b, hcan⟩ := isCanonical_total hO hb2 (by omega) haug2
  have hL2 : g2.nv - 1 = Y0.nv - 1 := by rw [hn2]
  have hacc : b = true := by
    apply (accept_iff hO hb2 haug1 haug2 hga2 hcan).2
    refine ⟨?_, θ w0, htr w0 hfb0, ?_⟩
    · have := (iπ.best (v := g2.nv - 1) (by omega)).1 (by rw [hL2, hπL]; exact hw0.2)
      exact this
    · have hθw : θ w0 < g2.nv := hθ.nv ▸ hθ.bij.maps w0 hw0lt
      -- β = π⁻¹ ∘ θ⁻¹
      have hβ := hθ.symm.comp iπ.symm
      refine (hO.orbits hb2 hga2 (θ w0) (g2.nv - 1) hθw (by omega)).2 ⟨_, isAut_iff_isIso.2 hβ, ?_⟩
      show iπ.bij.inv (hθ.bij.inv (θ w0)) = g2.nv - 1
      rw [hθ.bij.inv_left hw0lt, ← hπL, hL2]
      exact iπ.bij.inv_left (by omega)
  subst hacc
  refine ⟨P, g2, x, c, hP, hxr, ⟨hadd, hcan⟩, ?_⟩
  exact iY0.trans (Iso.symm ⟨iπ.nv, π, iπ.bij, iπ.adj⟩)

/-- **the `isCanonical` half of the specifications follows from the oracle specification** -/
theorem canonSpecs_of_oracle (hO : OracleSpec O n) : CanonSpecs O n where
  canon_iso := fun hP1 hP2 h1 h2 hx1 hx2 ha1 ha2 i => canon_iso_of_oracle hO hP1 hP2 h1 h2 hx1 hx2 ha1 ha2 i
  canon_inv := fun hP1 hP2 h1 h2 hx1 hx2 ha1 e hadd hcan =>
    canon_inv_of_oracle hO hP1 hP2 h1 h2 hx1 hx2 ha1 e hadd hcan
  canon_exists := fun Y hY h2 hle => canon_exists_of_oracle hO Y hY h2 hle

end Search
