import Mamba.Lemmas.DistanceEvenGraph
/-!
# Even edge sets: the two ends of an edge stay connected when the edge is deleted
-/
namespace GDist
open GraphSpec Model

theorem sum_even (f : Nat → Nat) : ∀ (S : List Nat), (∀ v ∈ S, f v % 2 = 0) → (S.map f).sum % 2 = 0
  | [], _ => by simp
  | s :: S, h => by
    have h1 := h s List.mem_cons_self
    have h2 := sum_even f S (fun v hv => h v (List.mem_cons_of_mem _ hv))
    simp only [List.map_cons, List.sum_cons]
    omega

theorem sum_parity_one (f : Nat → Nat) (q : Nat) : ∀ (S : List Nat), S.Nodup → q ∈ S → f q % 2 = 1 →
    (∀ v ∈ S, v ≠ q → f v % 2 = 0) → (S.map f).sum % 2 = 1
  | [], _, h, _, _ => by cases h
  | s :: S, hnd, hm, hq, hev => by
    obtain ⟨hsnot, hnd'⟩ := List.nodup_cons.1 hnd
    simp only [List.map_cons, List.sum_cons]
    rcases List.mem_cons.1 hm with rfl | hm
    · have := sum_even f S (fun v hv => hev v (List.mem_cons_of_mem _ hv) (fun h => hsnot (h ▸ hv)))
      omega
    · have hsq : s ≠ q := fun h => hsnot (h ▸ hm)
      have h1 := hev s List.mem_cons_self hsq
      have h2 := sum_parity_one f q S hnd' hm hq (fun v hv hne => hev v (List.mem_cons_of_mem _ hv) hne)
      omega

theorem degIn_erase {n : Nat} {t : List Nat} {ex : Nat} (hex : ex ∈ t) (v : Nat) :
    degIn n (t.erase ex) v + (if incid n v ex = true then 1 else 0) = degIn n t v := by
  unfold degIn
  have := (List.perm_cons_erase hex).countP_eq (incid n v)
  rw [this, List.countP_cons]

/-- in an even edge set, the ends of an edge are still connected after the edge is deleted -/
theorem even_reach {n : Nat} {t : List Nat} (hnd : t.Nodup) (hev : EvenSet n t) {p q : Nat} (hp : p < n)
    (hq : q < n) (hpq : p ≠ q) (hex : edgeCode p q ∈ t) :
    ReachIn (codeG n (t.erase (edgeCode p q))) (List.range n) q p := by
  set H := codeG n (t.erase (edgeCode p q)) with hH
  have hsymH := codeG_symm n (t.erase (edgeCode p q))
  have hnd' : (t.erase (edgeCode p q)).Nodup := hnd.erase _
  by_contra hnr
  let S := componentIn H (List.range n) q
  have hSnd : S.Nodup := List.nodup_range.sublist (componentIn_sublist H _ q)
  have hqS : q ∈ S := mem_componentIn.2 (ReachIn.refl (List.mem_range.2 hq))
  have hpS : p ∉ S := fun h => hnr (mem_componentIn.1 h)
  have hSn : ∀ v ∈ S, v < n := fun v hv => List.mem_range.1 (mem_componentIn.1 hv).mem_V
  have hcl : ∀ v ∈ S, ∀ x, H.adj v x = true → x ∈ S := by
    intro v hv x hadj
    have hxn : x < n := (codeG_adj.1 hadj).2.2.1
    obtain ⟨k, hk⟩ := mem_componentIn.1 hv
    exact mem_componentIn.2 ⟨k + 1, .step hk hadj (List.mem_range.2 hxn)⟩
  have hdeg : ∀ v ∈ S, (S.filter fun x => H.adj v x).length = degIn n (t.erase (edgeCode p q)) v := by
    intro v hv
    rw [← deg_bij hnd' (hSn v hv)]
    apply List.Perm.length_eq
    have hn2 : (H.nbrs v).Nodup := List.nodup_range.filter _
    rw [List.perm_ext_iff_of_nodup (hSnd.filter _) hn2]
    intro x
    rw [List.mem_filter, mem_nbrs]
    constructor
    · rintro ⟨hx, hadj⟩; exact ⟨hSn x hx, hadj⟩
    · rintro ⟨_, hadj⟩; exact ⟨hcl v hv x hadj, hadj⟩
  have hhs := handshake H.adj hsymH (fun x => by
    cases h : H.adj x x with
    | false => rfl
    | true => exact absurd rfl (codeG_adj.1 h).1) S
  have hmap : (S.map fun v => (S.filter fun x => H.adj v x).length)
      = S.map fun v => degIn n (t.erase (edgeCode p q)) v := List.map_congr_left hdeg
  rw [hmap] at hhs
  have hinc : ∀ v, v < n → (incid n v (edgeCode p q) = true ↔ (v = p ∨ v = q)) :=
    fun v _ => incid_edgeCode hp hq hpq
  have hodd := sum_parity_one (fun v => degIn n (t.erase (edgeCode p q)) v) q S hSnd hqS
    (by
      have h1 := degIn_erase (n := n) hex q
      have h2 := hev q hq
      rw [if_pos ((hinc q hq).2 (.inr rfl))] at h1
      show degIn n (t.erase (edgeCode p q)) q % 2 = 1
      omega)
    (by
      intro v hv hvq
      have h1 := degIn_erase (n := n) hex v
      have h2 := hev v (hSn v hv)
      have hvp : v ≠ p := fun h => hpS (h ▸ hv)
      have : ¬ incid n v (edgeCode p q) = true := fun h => by
        rcases (hinc v (hSn v hv)).1 h with h | h
        · exact hvp h
        · exact hvq h
      rw [if_neg this] at h1
      show degIn n (t.erase (edgeCode p q)) v % 2 = 0
      omega)
  omega

end GDist
