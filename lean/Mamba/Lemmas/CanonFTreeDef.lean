import Mamba.Lemmas.CanonFCert
import Mamba.Lemmas.CanonFSplit
import Mamba.Lemmas.CanonFRefine
import Mamba.Model.IR
/-!
# Link between the faithful model (`Model/CanonF.lean`) and the unpruned tree of `Model/IR.lean`: definitions

The colouring of an ordered partition is `inCell` (`cellOf`); `Match n op s` says that the IR state `s` is the ordered
partition `op` seen as a colouring: same colouring, same number of cells, same work list (as a set).
-/
namespace CanonF

/-- the cell (bin index) of a vertex -/
def cellOf (op : OP) (v : Nat) : Nat := (op.inCell.toList[v]?).getD 0

/-- number of neighbours of `v` in cell `i` -/
def cntIn (nb : Nbrs) (op : OP) (i v : Nat) : Nat := (nb.getD v []).countP (fun w => cellOf op w == i)

/-- the IR graph with the same neighbour lists -/
def irG (n : Nat) (nb : Nbrs) : IR.G := { n := n, adj := nb }

/-- the IR colouring of an ordered partition -/
def colOf (n : Nat) (op : OP) : Array Nat := IR.tab n (cellOf op)

/-- the IR state `s` is the ordered partition `op` seen as a colouring -/
structure Match (n : Nat) (op : OP) (s : IR.St) : Prop where
  col : s.c = colOf n op
  cells : s.cells = op.binDividers.len
  nodup : s.work.Nodup
  work : ∀ x : Nat, x ∈ s.work ↔ (x : Int) ∈ op.binsToCheck.toList

/-- all positions in front of the bin of position `i` are singleton bins: the bin of `i` is the first bin that may be
split (`pickCell`) -/
def FirstBin (bd : List Nat) (i : Nat) : Prop := ∀ t, t < binStartOf bd i → t + 1 ∈ bd

/-- the counting loop of one refinement iteration computes, for every vertex, the number of its neighbours in the
splitter bin `i` (proved in `CanonFTreeCount.lean`) -/
def CountSem : Prop :=
  ∀ {n : Nat} {nb : Nbrs} {op : OP} {ts mc nm ts' mc' nm' : Sl Nat} {i bs di : Nat},
    PartInv n op → NbOK nb n →
    (0 :: op.binDividers.toList)[i]? = some bs → op.binDividers.toList[i]? = some di →
    ts.WF → ts.len = n → (∀ v, v < n → ts.toList[v]? = some 0) →
    forRange (countBinStep nb op.order op.inCell) (di - bs) bs (ts, mc, nm) = .ok (ts', mc', nm') →
    ts'.len = n ∧ ts'.WF ∧ ∀ v, v < n → ts'.toList[v]? = some (cntIn nb op i v)

/-- one iteration of the refinement at the level of colourings: the splitter `i` is the largest entry of the work list;
the new cells are ordered by (old cell, number of neighbours in the splitter cell); the new work list consists of the first
fragment of every old entry (other than `i`) and of all fragments of every cell that has been split
(proved in `CanonFTreeRefine.lean`) -/
def RefineIterCol : Prop :=
  ∀ {n : Nat} {nb : Nbrs} {cb fl : Sl Nat} {opts : Options} {op op' : OP} {sc sc' : Scratch},
    PartInv n op → AgeInv op → ScrInv n sc → sc.timesSeen.WF → sc.timesSeen.len = n → BtcInv op →
    0 < op.binsToCheck.len → NbOK nb n →
    refineIter nb n cb fl opts op sc = .ok (false, op', sc') →
    ∃ i : Nat, i < op.binDividers.len ∧ (i : Int) ∈ op.binsToCheck.toList ∧
      (∀ x ∈ op.binsToCheck.toList, x ≤ (i : Int)) ∧
      (∀ u v, u < n → v < n → (cellOf op' u < cellOf op' v ↔
        (cellOf op u < cellOf op v ∨ (cellOf op u = cellOf op v ∧ cntIn nb op i u < cntIn nb op i v)))) ∧
      (∀ v, v < n → (((cellOf op' v : Nat) : Int) ∈ op'.binsToCheck.toList ↔
        ((((cellOf op v : Nat) : Int) ∈ op.binsToCheck.toList ∧ cellOf op v ≠ i ∧
            ∀ u, u < n → cellOf op u = cellOf op v → cntIn nb op i v ≤ cntIn nb op i u) ∨
          (∃ u, u < n ∧ cellOf op u = cellOf op v ∧ cntIn nb op i u ≠ cntIn nb op i v)))) ∧
      BtcInv op' ∧ sc'.timesSeen.WF ∧ sc'.timesSeen.len = n ∧ ScrInv n sc'

end CanonF
