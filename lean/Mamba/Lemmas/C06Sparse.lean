import Mamba.Lemmas.C06Fam4
/-! C06: `NewSparse`. -/
namespace Construct
open GraphSpec


/-! ### NewSparse -/

theorem strictSorted_ext : ∀ (a b : List Nat), a.Pairwise (· < ·) → b.Pairwise (· < ·) → (∀ x, x ∈ a ↔ x ∈ b) → a = b
  | [], [], _, _, _ => rfl
  | [], y :: b, _, _, h => by have := (h y).mpr (by simp); simp at this
  | x :: a, [], _, _, h => by have := (h x).mp (by simp); simp at this
  | x :: a, y :: b, ha, hb, h => by
    have ha' := List.pairwise_cons.mp ha
    have hb' := List.pairwise_cons.mp hb
    have hxy : x = y := by
      have h1 := (h x).mp (by simp)
      have h2 := (h y).mpr (by simp)
      simp only [List.mem_cons] at h1 h2
      rcases h1 with h1 | h1
      · exact h1
      · rcases h2 with h2 | h2
        · exact h2.symm
        · have := hb'.1 x h1; have := ha'.1 y h2; omega
    subst hxy
    congr 1
    apply strictSorted_ext a b ha'.2 hb'.2
    intro z
    have hz := h z
    simp only [List.mem_cons] at hz
    constructor
    · intro hza
      rcases hz.mp (Or.inr hza) with e | e
      · have := ha'.1 z hza; omega
      · exact e
    · intro hzb
      rcases hz.mpr (Or.inr hzb) with e | e
      · have := hb'.1 z hzb; omega
      · exact e

theorem dedupAdj_spec : ∀ (l : List Nat), l.Pairwise (· ≤ ·) →
    (dedupAdj l).Pairwise (· < ·) ∧ ∀ x, x ∈ dedupAdj l ↔ x ∈ l
  | [], _ => by simp [dedupAdj]
  | [a], _ => by simp [dedupAdj]
  | a :: b :: t, h => by
    have h' := List.pairwise_cons.mp h
    obtain ⟨ih1, ih2⟩ := dedupAdj_spec (b :: t) h'.2
    by_cases hab : a = b
    · subst hab
      simp only [dedupAdj, beq_self_eq_true, ↓reduceIte]
      exact ⟨ih1, fun x => by rw [ih2]; simp⟩
    · have hab' : (a == b) = false := by simp [hab]
      simp only [dedupAdj, hab', Bool.false_eq_true, ↓reduceIte]
      refine ⟨?_, fun x => by simp only [List.mem_cons, ih2]⟩
      rw [List.pairwise_cons]
      refine ⟨?_, ih1⟩
      intro x hx
      rw [ih2] at hx
      have h1 := h'.1 b (by simp)
      have h2 : b ≤ x := by
        simp only [List.mem_cons] at hx
        rcases hx with rfl | hx
        · exact Nat.le_refl _
        · exact (List.pairwise_cons.mp h'.2).1 x hx
      omega

theorem newSortedInts_spec (l : List Nat) : (newSortedInts l).Pairwise (· < ·) ∧ ∀ x, x ∈ newSortedInts l ↔ x ∈ l := by
  have hs : (l.mergeSort fun a b => a ≤ b).Pairwise (· ≤ ·) := by
    have := List.pairwise_mergeSort (le := fun a b : Nat => decide (a ≤ b))
      (by intro a b c; simp; omega) (by intro a b; simp; omega) l
    simpa using this
  obtain ⟨h1, h2⟩ := dedupAdj_spec _ hs
  exact ⟨h1, fun x => by rw [newSortedInts, h2, List.mem_mergeSort]⟩




theorem sum_map_add_ite (l : List Nat) (f : Nat → Nat) (p : Nat → Bool) :
    (l.map fun v => f v + (if p v = true then 1 else 0)).sum = (l.map f).sum + l.countP p := by
  induction l with
  | nil => simp
  | cons x t ih =>
    simp only [List.map_cons, List.sum_cons, ih, List.countP_cons]
    omega

/-- handshake: the degrees (within the first `k` vertices) add up to twice the number of edges -/
theorem handshake (adj : Nat → Nat → Bool) (hsymm : ∀ u v, adj u v = adj v u) (hirr : ∀ v, adj v v = false) (k : Nat) :
    ((List.range k).map fun v => (List.range k).countP (fun u => adj v u)).sum =
      2 * (pairs k).countP (fun p => adj p.1 p.2) := by
  induction k with
  | zero => simp [pairs]
  | succ k ih =>
    rw [pairs_succ, List.countP_append, List.countP_map, List.range_succ, List.map_append, List.sum_append]
    have e1 : ((List.range k).map fun v => (List.range k ++ [k]).countP (fun u => adj v u)) =
        (List.range k).map fun v => (List.range k).countP (fun u => adj v u) + (if (fun v => adj v k) v = true then 1 else 0) := by
      apply List.map_congr_left
      intro v _
      simp [List.countP_append, List.countP_singleton]
    rw [e1, sum_map_add_ite, ih]
    have e2 : (List.range k ++ [k]).countP (fun u => adj k u) = (List.range k).countP (fun u => adj u k) := by
      rw [List.countP_append, List.countP_singleton]
      simp only [hirr, Bool.false_eq_true, ↓reduceIte, Nat.add_zero]
      apply List.countP_congr; intro u _; rw [hsymm]
    simp only [List.map_cons, List.map_nil, List.sum_cons, List.sum_nil, e2, Nat.add_zero]
    have e3 : (List.range k).countP ((fun p : Nat × Nat => adj p.1 p.2) ∘ fun i => (i, k)) = (List.range k).countP (fun u => adj u k) := rfl
    rw [e3]; omega

theorem handshake_G (g : G) (hg : g.WF) : ((List.range g.n).map g.deg).sum = 2 * g.m := by
  rw [m_eq_countP, ← handshake g.adj hg.symm hg.irrefl g.n]
  congr 1
  apply List.map_congr_left
  intro v _
  simp [G.deg, G.nbrs, List.countP_eq_length_filter]

/-- the graph described by neighbour lists -/
def sparseSpec (n : Nat) (L : List (List Nat)) : G :=
  { n := n, adj := fun u v => decide (u < n) && (L.getD u []).contains v }

theorem sparseSpec_wf (n : Nat) (L : List (List Nat))
    (hL : ∀ u, u < n → ∀ v ∈ L.getD u [], v < n ∧ v ≠ u ∧ u ∈ L.getD v []) : (sparseSpec n L).WF where
  symm := by
    intro u v
    simp only [sparseSpec]
    rw [Bool.eq_iff_iff]
    simp only [Bool.and_eq_true, decide_eq_true_eq, List.contains_eq_mem]
    constructor
    · rintro ⟨hu, hv⟩; have := hL u hu v hv; exact ⟨this.1, this.2.2⟩
    · rintro ⟨hv, hu⟩; have := hL v hv u hu; exact ⟨this.1, this.2.2⟩
  irrefl := by
    intro v
    simp only [sparseSpec]
    rw [Bool.eq_false_iff]
    simp only [ne_eq, Bool.and_eq_true, decide_eq_true_eq, List.contains_eq_mem, not_and]
    intro hv hmem
    exact (hL v hv v hmem).2.1 rfl
  supp := by
    intro u v h
    simp only [sparseSpec, Bool.and_eq_true, decide_eq_true_eq, List.contains_eq_mem] at h
    exact ⟨h.1, (hL u h.1 v h.2).1⟩

theorem sparse_nbrs (n : Nat) (L : List (List Nat))
    (hL : ∀ u, u < n → ∀ v ∈ L.getD u [], v < n ∧ v ≠ u ∧ u ∈ L.getD v []) (v : Nat) (hv : v < n) :
    newSortedInts (L.getD v []) = (sparseSpec n L).nbrs v := by
  obtain ⟨h1, h2⟩ := newSortedInts_spec (L.getD v [])
  apply strictSorted_ext _ _ h1
  · exact (List.pairwise_lt_range).sublist List.filter_sublist
  · intro x
    rw [h2]
    simp only [G.nbrs, sparseSpec, List.mem_filter, List.mem_range, hv, decide_true, Bool.true_and, List.contains_eq_mem,
      decide_eq_true_eq]
    constructor
    · intro hx; exact ⟨(hL v hv x hx).1, hx⟩
    · intro hx; exact hx.2


end Construct
