import Mamba.Lemmas.CanonFExpandTotal
/-!
# Totality of the refinement with a non-empty `currentBest` (`refine_totalG`, `prog_refine`)

The `cb.len = 0` chain of CanonFRefine.lean (`splitCell_total … refine_no_panic_partial`) is reused: `splitCell` depends on
`currentBest` only through the `expandValue` call in its tail (`rt_splitCell_split`), so the run with an empty
`currentBest` provides everything up to that call, and `expandValue_totalG` the call itself.
-/
namespace CanonF

/-- a skipped bin, evaluated forwards -/
theorem rt_scHead_skip {nb : Nbrs} {n : Nat} {cb fl : Sl Nat} {opts : Options} {j : Nat} {op : OP} {sc : Scratch}
    {bs dj : Nat} (hbs : (0 :: op.binDividers.toList)[j]? = some bs) (hdj : op.binDividers.toList[j]? = some dj)
    (hr : SkipReason sc j bs dj) : scHead nb n cb fl opts j op sc = .ok (false, op, sc) := by
  unfold scHead
  have hgd : op.binDividers.get j = .ok dj := Sl.get_eq_toList.2 hdj
  simp only [rf_binStart_get hbs, hgd]
  rcases hr with h1 | ⟨mc, hmc, h2 | ⟨nm, hnm, h3, h4⟩⟩
  · simp [h1]
  · by_cases h1 : dj = bs + 1
    · simp [h1]
    · simp [h1, hmc, h2]
  · by_cases h1 : dj = bs + 1
    · simp [h1]
    · by_cases h2 : mc = 0
      · simp [h1, hmc, h2]
      · simp [h1, hmc, h2, hnm, h3, h4]

/-- `splitCell_split`, together with the fact that the run depends on `currentBest` only through the tail -/
theorem rt_splitCell_split (hst : StablePerm) {nb : Nbrs} {n : Nat} {cb fl : Sl Nat} {opts : Options} {j : Nat}
    {op op' : OP} {sc sc' : Scratch} {r : Bool}
    (hp : PartInv n op) (hcc : CellCount op sc.timesSeen sc.maxCell sc.numberOfMax j)
    (h : splitCell nb n cb fl opts j (false, op, sc) = .ok (r, op', sc')) :
    (r = false ∧ op' = op ∧ sc' = sc ∧
      ∀ cb' : Sl Nat, splitCell nb n cb' fl opts j (false, op, sc) = .ok (false, op, sc)) ∨
    ∃ bs dj K nbsL op2 sc2, SplitRel n j bs dj K nbsL op op2 ∧ ScrRel sc sc2 ∧
      scTail nb cb fl opts j op2 sc2 = .ok (r, op', sc') ∧
      ∀ cb' : Sl Nat, splitCell nb n cb' fl opts j (false, op, sc) = scTail nb cb' fl opts j op2 sc2 := by
  rw [splitCell_false] at h
  obtain ⟨bs, dj, hbs, hdj, hcase⟩ := scHead_ok2 h
  rcases hcase with ⟨hR, hskip⟩ | ⟨mc, nm, dws0, hne, hle, hmc, hmc0, hnm, hnmB, hd0, h⟩
  · simp only [Prod.mk.injEq] at hR
    exact Or.inl ⟨hR.1, hR.2.1, hR.2.2, fun cb' => by rw [splitCell_false]; exact rt_scHead_skip hbs hdj hskip⟩
  · right
    obtain ⟨dws, hf, h⟩ := scFill_ok h
    obtain ⟨f1, f2, f3, f4⟩ := fill_stage hst hp hcc hbs hdj hmc hnm hd0 hf
    obtain ⟨nbs0, kv0, order1, order2, nbs2, idx, w1, w2, w3, w4, h⟩ := scWrite_ok h
    obtain ⟨nbs3, btc1, bd1, bd2, bd3, u1, u2, u3, u4, u5, h⟩ := scUpd1_ok h
    have hlt : bs < dj := rf_sorted_start_lt hp.sorted hbs hdj
    have hs : op.binDividers.toList.Pairwise (· < ·) := (List.pairwise_cons.1 hp.sorted).2
    have hdn : dj ≤ n := rf_bd_le_last hs hp.last dj (List.mem_of_getElem? hdj)
    obtain ⟨o1, o2, o3, o4, n1, n2, _, n4, n5⟩ :=
      write_stage hp.wfOrder hp.lenOrder hlt hdn f1 f3 w1 w2 w3 w4 u1
    obtain ⟨ag1, ag2, ag3, sp1, sp2, btc2, op2, ha1, ha2, ha3, hs1, hs2, hun, hrec, h⟩ := scUpd2_ok h
    obtain ⟨ic, hic, hrel⟩ := upd_core btc2 hp hbs hdj hne ⟨o1, o2, o3, o4⟩ f4 ⟨n1, n4, n5⟩ u3 u4 u5 ha1 ha2 ha3
    have hrec0 := hrec
    rw [hic] at hrec
    have hop2 := tr_ok_inj hrec
    subst hop2
    have hsz : sp2.data.size = sc.space.data.size := by
      rw [rf_forRange_set_size (fun k => k - j) (fun k => k) _ _ _ _ hs2, (Sl.reslice_len hs1).2.1]
    refine ⟨bs, dj, rfKeys dws, nbs3.toList, _, { sc with dws := dws, nbs := nbs3, space := sp2 }, hrel,
      ⟨rfl, rfl, rfl, f2, n2, hsz⟩, h, ?_⟩
    intro cb'
    have hgd : op.binDividers.get j = .ok dj := Sl.get_eq_toList.2 hdj
    rw [splitCell_false, scHead_eval hbs hgd hmc hnm hle hd0,
      if_neg (by intro hc; rcases hc with hc | hc | hc <;> [exact hne hc; exact hmc0 hc; exact hnmB hc]),
      scFill_eval hf, scWrite_eval w1 w2 w3 w4, scUpd1_eval u1 u2 u3 u4 u5,
      scUpd2_eval ha1 ha2 ha3 hs1 hs2 hun hrec0]


theorem rt_scTail_eval_true {nb : Nbrs} {cb fl : Sl Nat} {opts : Options} {j : Nat} {op op' : OP} (sc : Scratch)
    (hex : (if j = op.spl then expandValue nb cb fl op else .ok (false, op)) = .ok (true, op')) :
    scTail nb cb fl opts j op sc = .ok (true, op', sc) := by
  unfold scTail
  simp only [hex]

/-- the unchanging context -/
structure RtCtx (n : Nat) (nb : Nbrs) (cb fl : Sl Nat) (opts : Options) : Prop where
  nbOK : NbOK nb n
  nbSize : nb.size = n
  cbCap : cb.len = 0 ∨ ((nb.toList.map List.length).sum) / 2 ≤ cb.data.size
  flCap : ((nb.toList.map List.length).sum) / 2 ≤ fl.data.size
  noViab : opts.checkViability = false

/-- `NPOp` plus the certificate invariant -/
structure RtOp (n : Nat) (nb : Nbrs) (op : OP) : Prop where
  np : NPOp n op
  val : op.value.toList = certPos nb op.order.toList op.spl

theorem rt_ctx0 {n : Nat} {nb : Nbrs} {cb fl : Sl Nat} {opts : Options} (h : RtCtx n nb cb fl opts) :
    NPCtx n nb (⟨#[], 0⟩ : Sl Nat) opts :=
  ⟨h.nbSize, rt_nbr_lt h.nbOK, rfl, h.noViab⟩

/-- one call of `splitCell` does not panic; if it returns `false` the invariants hold again and the potential has not
grown -/
theorem rt_splitCell_total (hst : StablePerm) (htot : StableTotal) {nb : Nbrs} {n : Nat} {cb fl : Sl Nat} {opts : Options}
    (hctx : RtCtx n nb cb fl opts) {j : Nat} {op : OP} {sc : Scratch}
    (ho : RtOp n nb op) (hs : SplitScr n sc) (hj : j < op.binDividers.len) (hjm : j < sc.maxCell.len)
    (hjn : j < sc.numberOfMax.len) (hcc : CellCount op sc.timesSeen sc.maxCell sc.numberOfMax j) :
    ∃ r op' sc', splitCell nb n cb fl opts j (false, op, sc) = .ok (r, op', sc') ∧
      (r = false → RtOp n nb op' ∧ refinePotential n op' ≤ refinePotential n op ∧
        op.binDividers.len ≤ op'.binDividers.len) := by
  have hp := ho.np.inv
  obtain ⟨op0, sc0, heq0, g1, g2, g3⟩ := splitCell_total hst htot (rt_ctx0 hctx) (fl := fl) ho.np hs hj hjm hjn hcc
  rcases rt_splitCell_split hst hp hcc heq0 with ⟨_, rfl, rfl, hall⟩ | ⟨bs, dj, K, nbsL, op2, sc2, hrel, _, ht0, hall⟩
  · exact ⟨false, op0, sc0, hall cb, fun _ => ⟨ho, Nat.le_refl _, Nat.le_refl _⟩⟩
  · obtain ⟨_, f1, f2, f3, f4, f5, f6⟩ := scTail_frame ht0
    have hps2 := hrel.prefixSingle hp ho.np.pre
    have hvw2 : op2.value.WF := by rw [hrel.value]; exact ho.np.valWF
    have hval2 : op2.value.toList = certPos nb op2.order.toList op2.spl := by
      rw [hrel.value, hrel.spl, hrel.certPos_eq nb hp ho.np.pre]; exact ho.val
    rw [hall cb]
    -- the invariants of any state that agrees with `op0` outside `value` / `spl`
    have hnp : ∀ opE : OP, opE.order = op2.order → opE.binDividers = op2.binDividers → opE.binAges = op2.binAges →
        opE.binsToCheck = op2.binsToCheck → opE.inCell = op2.inCell → PrefixSingle opE → opE.value.WF →
        NPOp n opE ∧ refinePotential n opE = refinePotential n op0 ∧ opE.binDividers.len = op0.binDividers.len := by
      intro opE e1 e2 e3 e4 e6 hpre hvw
      refine ⟨?_, ?_, by rw [e2, f2]⟩
      · exact
          { inv := PartInv.of_frame g1.inv (e1.trans f1.symm) (e2.trans f2.symm) (e3.trans f3.symm) (e6.trans f6.symm)
            capBd := by rw [e2, ← f2]; exact g1.capBd
            capAges := by rw [e3, ← f3]; exact g1.capAges
            capBtc := by rw [e4, ← f4]; exact g1.capBtc
            btcWF := by rw [e4, ← f4]; exact g1.btcWF
            btcSorted := by rw [e4, ← f4]; exact g1.btcSorted
            btcRange := by rw [e4, e2, ← f4, ← f2]; exact g1.btcRange
            pre := hpre
            valWF := hvw }
      · unfold refinePotential; rw [e4, e2, f4, f2]
    by_cases hjs : j = op2.spl
    · obtain ⟨⟨w, opE⟩, hE⟩ := expandValue_totalG (cb := cb) (fl := fl) hctx.nbOK hctx.nbSize hrel.inv hps2 hvw2 hval2
        hctx.cbCap hctx.flCap
      obtain ⟨e1, e2, e3, e4, _, e6⟩ := expandValue_frame hE
      cases w with
      | true =>
        exact ⟨true, opE, sc2, rt_scTail_eval_true sc2 (by rw [if_pos hjs]; exact hE), fun h => by cases h⟩
      | false =>
        refine ⟨false, opE, sc2, scTail_eval sc2 hctx.noViab (by rw [if_pos hjs]; exact hE), fun _ => ?_⟩
        obtain ⟨hcl, _⟩ := expandValue_cert n nb cb fl op2 opE false hrel.inv hps2 hvw2 hval2 hE
        have hc := hcl rfl
        obtain ⟨q1, q2, q3⟩ := hnp opE e1 e2 e3 e4 e6 hc.pre.toPrefixSingle hc.wf
        exact ⟨⟨q1, hc.val⟩, by rw [q2]; exact g2, by rw [q3]; exact g3⟩
    · refine ⟨false, op2, sc2, scTail_eval sc2 hctx.noViab (by rw [if_neg hjs]), fun _ => ?_⟩
      obtain ⟨q1, q2, q3⟩ := hnp op2 rfl rfl rfl rfl rfl hps2 hvw2
      exact ⟨⟨q1, hval2⟩, by rw [q2]; exact g2, by rw [q3]; exact g3⟩


/-- the loop over the bins does not panic -/
theorem rt_splitLoop_total (hst : StablePerm) (htot : StableTotal) {nb : Nbrs} {n : Nat} {cb fl : Sl Nat} {opts : Options}
    (hctx : RtCtx n nb cb fl opts) {k : Nat} {op : OP} {sc : Scratch}
    (ho : RtOp n nb op) (ha : AgeInv op) (hs : SplitScr n sc) (hk : k ≤ op.binDividers.len)
    (hkm : k ≤ sc.maxCell.len) (hkn : k ≤ sc.numberOfMax.len)
    (hcc : ∀ j, j < k → CellCount op sc.timesSeen sc.maxCell sc.numberOfMax j) :
    ∃ r op' sc', forDown (splitCell nb n cb fl opts) k (false, op, sc) = .ok (r, op', sc') ∧
      (r = false → RtOp n nb op' ∧ AgeInv op' ∧ refinePotential n op' ≤ refinePotential n op ∧ ScrRel sc sc') := by
  obtain ⟨rr, hr, hP⟩ := forDown_total (splitCell nb n cb fl opts)
    (fun i (st : Bool × OP × Scratch) => st.1 = false → (RtOp n nb st.2.1 ∧ AgeInv st.2.1 ∧
      refinePotential n st.2.1 ≤ refinePotential n op ∧ ScrRel sc st.2.2 ∧ i ≤ st.2.1.binDividers.len ∧
      ∀ j, j < i → CellCount st.2.1 sc.timesSeen sc.maxCell sc.numberOfMax j))
    k (false, op, sc) (fun _ => ⟨ho, ha, Nat.le_refl _, ScrRel.refl _, hk, hcc⟩)
    (by
      rintro i ⟨ret, op1, sc1⟩ hi hP
      simp only at hP
      cases ret with
      | true => exact ⟨(true, op1, sc1), splitCell_true .., fun h => by cases h⟩
      | false =>
        obtain ⟨h1, h2, h3, h4, h5, h6⟩ := hP rfl
        have h4' := h4
        obtain ⟨e1, e2, e3, _, _, _⟩ := h4'
        have hcc1 : CellCount op1 sc1.timesSeen sc1.maxCell sc1.numberOfMax i := by
          rw [e1, e2, e3]; exact h6 i (Nat.lt_succ_self i)
        obtain ⟨r2, op2, sc2, heq, hg⟩ := rt_splitCell_total hst htot hctx (j := i) h1 (hs.of_rel h4) (by omega)
          (by rw [e2]; omega) (by rw [e3]; omega) hcc1
        obtain ⟨k1, k2, k3⟩ := splitCell_step hst h1.np.inv h2 hcc1 heq
        refine ⟨(r2, op2, sc2), heq, fun hr2 => ?_⟩
        simp only at hr2
        obtain ⟨g1, g2, g3⟩ := hg hr2
        refine ⟨g1, k1.2.1, Nat.le_trans g2 h3, h4.trans k2, by simp only; omega, ?_⟩
        intro j hj
        have := k3 j hj (by rw [e1, e2, e3]; exact h6 j (by omega))
        rw [e1, e2, e3] at this; exact this)
  obtain ⟨ret, op', sc'⟩ := rr
  refine ⟨ret, op', sc', hr, fun h0 => ?_⟩
  obtain ⟨h1, h2, h3, h4, _, _⟩ := hP h0
  exact ⟨h1, h2, h3, h4⟩

theorem RtOp.pop {n : Nat} {nb : Nbrs} {op : OP} (ho : RtOp n nb op) :
    RtOp n nb { op with binsToCheck := ⟨op.binsToCheck.data, op.binsToCheck.len - 1⟩ } :=
  ⟨ho.np.pop, ho.val⟩


/-- one iteration of the main loop does not panic; if it returns `false` the potential has decreased -/
theorem rt_refineIter_total (hst : StablePerm) (htot : StableTotal) {nb : Nbrs} {n : Nat} {cb fl : Sl Nat} {opts : Options}
    (hctx : RtCtx n nb cb fl opts) {op : OP} {sc : Scratch}
    (hoR : RtOp n nb op) (ha : AgeInv op) (hs : RefScr n sc) (hb : op.binsToCheck.len > 0) :
    ∃ r op' sc', refineIter nb n cb fl opts op sc = .ok (r, op', sc') ∧
      (r = false → RtOp n nb op' ∧ AgeInv op' ∧ RefScr n sc' ∧ refinePotential n op' + 1 ≤ refinePotential n op) := by
  have ho := hoR.np
  have hp := ho.inv
  have hbn : op.binDividers.len ≤ n := hp.bdLen_le
  have hbl : op.binDividers.toList.length = op.binDividers.len := Sl.length_toList _ hp.wfBd
  have h1 : sc.maxCell.fill0.reslice op.binDividers.len = .ok ⟨sc.maxCell.fill0.data, op.binDividers.len⟩ :=
    Sl.reslice_eq_ok.2 ⟨by rw [rf_fill0_size]; have := hs.inv.capM; omega, rfl⟩
  have h2 : sc.numberOfMax.fill0.reslice op.binDividers.len = .ok ⟨sc.numberOfMax.fill0.data, op.binDividers.len⟩ :=
    Sl.reslice_eq_ok.2 ⟨by rw [rf_fill0_size]; have := hs.capNm; omega, rfl⟩
  obtain ⟨i, h3, _⟩ := Sl.get_ok_of_lt ho.btcWF (show op.binsToCheck.len - 1 < op.binsToCheck.len by omega)
  have h4 : op.binsToCheck.reslice (op.binsToCheck.len - 1) = .ok ⟨op.binsToCheck.data, op.binsToCheck.len - 1⟩ :=
    Sl.reslice_eq_ok.2 ⟨by have := ho.btcWF; unfold Sl.WF at this; omega, rfl⟩
  have hir := ho.btcRange i (List.mem_of_getElem? (Sl.get_eq_toList.1 h3))
  have hi : ¬ i < 0 := by omega
  have hil : i.toNat < op.binDividers.len := by omega
  obtain ⟨dj, hgd, _⟩ := Sl.get_ok_of_lt hp.wfBd hil
  have hdj : op.binDividers.toList[i.toNat]? = some dj := Sl.get_eq_toList.1 hgd
  obtain ⟨bs, hbs⟩ : ∃ bs, (0 :: op.binDividers.toList)[i.toNat]? = some bs :=
    ⟨_, List.getElem?_eq_getElem (by simp only [List.length_cons]; omega)⟩
  have hlt : bs < dj := rf_sorted_start_lt hp.sorted hbs hdj
  have hsd : op.binDividers.toList.Pairwise (· < ·) := (List.pairwise_cons.1 hp.sorted).2
  have hdn : dj ≤ n := rf_bd_le_last hsd hp.last dj (List.mem_of_getElem? hdj)
  -- the counting loop
  have horder : ∀ p, p < n → ∃ w, op.order.get p = .ok w ∧ w < n := by
    intro p hp'
    obtain ⟨w, hw, _⟩ := Sl.get_ok_of_lt hp.wfOrder (show p < op.order.len by rw [hp.lenOrder]; exact hp')
    exact ⟨w, hw, perm_range_lt hp.perm (Sl.get_eq_toList.1 hw)⟩
  have hnb : ∀ w, w < n → ∃ l, nbrsGet nb w = .ok l ∧ ∀ v ∈ l, v < n := by
    intro w hw
    have hws : w < nb.size := by rw [hctx.nbSize]; exact hw
    refine ⟨nb[w], ?_, (rt_nbr_lt hctx.nbOK) w _ (Array.getElem?_eq_getElem hws)⟩
    unfold nbrsGet
    rw [Array.getElem?_eq_getElem hws]
  have hmw : (⟨sc.maxCell.fill0.data, op.binDividers.len⟩ : Sl Nat).WF := (Sl.reslice_len h1).2.2
  have hnw : (⟨sc.numberOfMax.fill0.data, op.binDividers.len⟩ : Sl Nat).WF := (Sl.reslice_len h2).2.2
  obtain ⟨st', h7⟩ := countLoop_total (n := n) (K := op.binDividers.len) (nb := nb) (order := op.order)
    (ic := op.inCell) (ts := sc.timesSeen.fill0) (mc := ⟨sc.maxCell.fill0.data, op.binDividers.len⟩)
    (nm := ⟨sc.numberOfMax.fill0.data, op.binDividers.len⟩) horder hnb (fun v hv => hp.inCell_lt hv)
    (rf_fill0_wf hs.tsWF) (by rw [rf_fill0_len]; exact hs.tsLen) hmw (Nat.le_refl _) hnw (Nat.le_refl _)
    (dj - bs) bs (by omega)
  obtain ⟨ts2, mc2, nm2⟩ := st'
  rw [refineIter_eval h1 h2 h3 h4 hi (rf_binStart_get hbs) hgd h7]
  -- the counting invariant
  have hz1 := rfDv_fill0_reslice hs.inv.capM hs.inv.zeroM h1
  have hI0 : CountInv n op.inCell sc.timesSeen.fill0 ⟨sc.maxCell.fill0.data, op.binDividers.len⟩
      ⟨sc.numberOfMax.fill0.data, op.binDividers.len⟩ :=
    countInv_zero (fun v => rfTv_fill0 _ v) (fun c hc => by
      unfold rfDv; rw [hz1 c (by have : c < op.binDividers.len := hc; omega)]; rfl)
  obtain ⟨hI, f1, f2, f3⟩ := countLoop_st (n := n) (Nat.le_of_eq hp.lenInCell) nb op.order _ _ _ hI0 h7
  simp only at hI f1 f2 f3
  have ho1 := hoR.pop
  have ha1 : AgeInv { op with binsToCheck := ⟨op.binsToCheck.data, op.binsToCheck.len - 1⟩ } :=
    AgeInv.of_frame ha rfl rfl
  have hs1 : SplitScr n { sc with timesSeen := ts2, maxCell := mc2, numberOfMax := nm2 } :=
    ⟨hs.capDws, hs.capNbs, hs.capSpace, f1.wf (rf_fill0_wf hs.tsWF), by
      show n ≤ ts2.len; rw [f1.1, rf_fill0_len]; exact hs.tsLen, f2.wf hmw, f3.wf hnw⟩
  have hm2l : mc2.len = op.binDividers.len := f2.1
  have hn2l : nm2.len = op.binDividers.len := f3.1
  obtain ⟨r, op', sc', heq, hg⟩ := rt_splitLoop_total hst htot hctx (k := op.binDividers.len) ho1 ha1 hs1
    (Nat.le_refl _) (by show op.binDividers.len ≤ mc2.len; omega) (by show op.binDividers.len ≤ nm2.len; omega)
    (fun j hj => cellCount_of_countInv ho1.np.inv hI (by rw [hm2l]; exact hj))
  refine ⟨r, op', sc', heq, fun hr => ?_⟩
  obtain ⟨g1, g2, g3, g4⟩ := hg hr
  refine ⟨g1, g2, ?_, ?_⟩
  · obtain ⟨e1, e2, e3, e4, e5, e6⟩ := g4
    simp only at e1 e2 e3 e4 e5 e6
    exact
      { capDws := by rw [e4]; exact hs.capDws
        capNbs := by rw [e5]; exact hs.capNbs
        capSpace := by rw [e6]; exact hs.capSpace
        tsWF := by rw [e1]; exact f1.wf (rf_fill0_wf hs.tsWF)
        tsLen := by rw [e1, f1.1, rf_fill0_len]; exact hs.tsLen
        inv :=
          { lenM := by rw [e2, hm2l]; exact hbn
            capM := by
              rw [e2, f2.2.1]; show n ≤ sc.maxCell.fill0.data.size; rw [rf_fill0_size]; exact hs.inv.capM
            zeroM := by
              intro c h3' h4'
              rw [e2] at h3' ⊢
              rw [hm2l] at h3'
              rw [f2.2.2 c h3']
              exact hz1 c h4' }
        capNm := by
          rw [e3, f3.2.1]; show n ≤ sc.numberOfMax.fill0.data.size; rw [rf_fill0_size]; exact hs.capNm }
  · have : refinePotential n { op with binsToCheck := ⟨op.binsToCheck.data, op.binsToCheck.len - 1⟩ } + 1 =
        refinePotential n op := by
      unfold refinePotential
      show op.binsToCheck.len - 1 + 2 * (n - op.binDividers.len) + 1 = _
      omega
    omega




/-- the main loop terminates within `refinePotential + 1` rounds and does not panic -/
theorem rt_refineLoop_total (hst : StablePerm) (htot : StableTotal) {nb : Nbrs} {n : Nat} {cb fl : Sl Nat} {opts : Options}
    (hctx : RtCtx n nb cb fl opts) : ∀ (f : Nat) (op : OP) (sc : Scratch), refinePotential n op < f →
    RtOp n nb op → AgeInv op → RefScr n sc → ∃ r, refineLoop nb n cb fl opts f op sc = .ok r := by
  intro f
  induction f with
  | zero => intro op sc h; omega
  | succ f ih =>
    intro op sc hpot ho ha hs
    rw [refineLoop]
    by_cases hb : op.binsToCheck.len > 0
    · rw [if_pos hb]
      obtain ⟨r, op1, sc1, heq, hg⟩ := rt_refineIter_total hst htot hctx ho ha hs hb
      rw [heq]
      cases r with
      | true => exact ⟨_, rfl⟩
      | false =>
        obtain ⟨g1, g2, g3, g4⟩ := hg rfl
        exact ih op1 sc1 (by omega) g1 g2 g3
    · rw [if_neg hb]; exact ⟨_, rfl⟩

theorem rt_vany_facts {nb : Nbrs} {cb fl : Sl Nat} {op : OP} (hv : VAny nb cb fl op) :
    PrefixSingle op ∧ op.value.WF ∧ op.value.toList = certPos nb op.order.toList op.spl := by
  rcases hv with hc | ⟨hs, _⟩
  · exact ⟨hc.pre.toPrefixSingle, hc.wf, hc.val⟩
  · exact ⟨hs.pre, hs.wf, hs.val⟩

/-- the refinement in general, with the facts about the stable sort as hypotheses -/
theorem rt_refine_total (hst : StablePerm) (htot : StableTotal) {n : Nat} {nb : Nbrs} {cb fl : Sl Nat} {op : OP}
    {sc : Scratch} (hnbk : NbOK nb n)
    (h : PartInv n op) (ha : AgeInv op) (hsc : ScratchOK n sc) (hv : VAny nb cb fl op)
    (cBd : n ≤ op.binDividers.data.size) (cAges : n ≤ op.binAges.data.size) (cBtc : n ≤ op.binsToCheck.data.size)
    (cDws : n ≤ sc.dws.data.size) (cNbs : n ≤ sc.nbs.data.size) (cSpace : n ≤ sc.space.data.size)
    (cTs : n ≤ sc.timesSeen.len) (hb : BtcInv op) (hnb : nb.size = n)
    (hcb : cb.len = 0 ∨ ((nb.toList.map List.length).sum) / 2 ≤ cb.data.size)
    (hfl : ((nb.toList.map List.length).sum) / 2 ≤ fl.data.size) :
    ∃ r, refine nb cb fl {} op sc = .ok r := by
  obtain ⟨hpre, hvw, hval⟩ := rt_vany_facts hv
  have hctx : RtCtx n nb cb fl {} := ⟨hnbk, hnb, hcb, hfl, rfl⟩
  have ho : RtOp n nb op := ⟨⟨h, cBd, cAges, cBtc, hb.wf, hb.sorted, hb.range, hpre, hvw⟩, hval⟩
  have hs : RefScr n sc :=
    ⟨cDws, cNbs, cSpace, hsc.wfT, cTs, hsc.scrInv, by
      have := hsc.wfN; unfold Sl.WF at this; rw [hsc.lenN] at this; exact this⟩
  have hpot : refinePotential n op < refineFuel n := by
    unfold refinePotential refineFuel
    have h1 := rf_sortedInt_length_le op.binsToCheck.toList 0 op.binDividers.len hb.sorted
      (fun x hx => by have := hb.range x hx; omega) (by omega)
    rw [Sl.length_toList _ hb.wf] at h1
    have h2 := h.bdLen_le
    omega
  unfold refine
  rw [h.lenOrder]
  exact rt_refineLoop_total hst htot hctx (refineFuel n) op sc hpot ho ha hs


/-- the refinement in general (`currentBest` may be non-empty: the "worse" test is active) -/
theorem refine_totalG {n : Nat} {nb : Nbrs} {cb fl : Sl Nat} {op : OP} {sc : Scratch} (hnbk : NbOK nb n)
    (h : PartInv n op) (ha : AgeInv op) (hsc : ScratchOK n sc) (hv : VAny nb cb fl op)
    (cBd : n ≤ op.binDividers.data.size) (cAges : n ≤ op.binAges.data.size) (cBtc : n ≤ op.binsToCheck.data.size)
    (cDws : n ≤ sc.dws.data.size) (cNbs : n ≤ sc.nbs.data.size) (cSpace : n ≤ sc.space.data.size)
    (cTs : n ≤ sc.timesSeen.len) (hb : BtcInv op) (hnb : nb.size = n)
    (hcb : cb.len = 0 ∨ ((nb.toList.map List.length).sum) / 2 ≤ cb.data.size)
    (hfl : ((nb.toList.map List.length).sum) / 2 ≤ fl.data.size) :
    ∃ r, refine nb cb fl {} op sc = .ok r :=
  rt_refine_total stablePerm (fun _ hw => stable_no_panic hw) hnbk h ha hsc hv cBd cAges cBtc cDws cNbs cSpace cTs hb hnb
    hcb hfl

section
variable {n m : Nat} {nb : Nbrs} {rf : Nat} {r : IR.St}
  (hnb : NbOK nb n) (hsz : nb.size = n) (hm : m = ((nb.toList.map List.length).sum) / 2) (hrf : 3 * n + 3 ≤ rf)
  (hA : IR.InvA (irG n nb) r) (hD : IR.InvD (irG n nb) r)
  (hlenm : ∀ o : List Nat, o.Perm (List.range n) → (certPos nb o n).length = m)

set_option linter.unusedVariables false in
include hnb hsz hm in
/-- the refinement step of the main loop returns -/
theorem prog_refine (lv : List (Nat × Nat)) (s : LS) (hc : Core n s) (hl : LevelsOK s.op s.path s.choices lv)
    (hage : s.op.age = s.path.length) (hsk : s.skipDeage = false) (htl : s.sc.timesSeen.len = n)
    (hT : TS n m nb rf r lv s) : ∃ r', refine nb s.currentBest s.firstLeaf {} s.op s.sc = .ok r' := by
  obtain ⟨⟨hJ, hDS⟩, hcap⟩ := hT
  obtain ⟨hg, hvn, _⟩ := hJ
  obtain ⟨gh, t, v, hw, _⟩ := hDS
  obtain ⟨_, _, _, _, _, _, _, hbtc, _, _⟩ := hw
  have hfl := hg.flLen
  refine refine_totalG hnb hc.part hc.age hc.scr hvn.any hcap.bd hcap.ages hcap.btc hcap.dws hcap.nbs hcap.space
    (by omega) hbtc hsz (Or.inr (by rw [← hm]; exact hcap.cb)) ?_
  rw [← hm]
  have := hfl.2; unfold Sl.WF at this; omega

end
end CanonF
