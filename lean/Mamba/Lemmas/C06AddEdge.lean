import Mamba.Lemmas.C06Hand4
/-! C06: `AddEdge` on the abstract graph and on a `Dense`; graphs built by `NewDense(n, nil)` + `AddEdge`. -/
namespace Construct
open GraphSpec


/-- `{u, v} = {i, j}` -/
def isPair (i j u v : Nat) : Bool := (u == i && v == j) || (u == j && v == i)

theorem isPair_iff (i j u v : Nat) : isPair i j u v = true ↔ (u = i ∧ v = j) ∨ (u = j ∧ v = i) := by
  simp [isPair]

theorem addEdge_adj (g : G) (i j : Nat) (hij : i ≠ j) (hi : i < g.n) (hj : j < g.n) (u v : Nat) :
    (Families.addEdge g i j).adj u v = (g.adj u v || isPair i j u v) := by
  have : (i != j) = true := by simp [hij]
  simp [Families.addEdge, this, hi, hj, isPair]

theorem addEdge_wf (g : G) (hg : g.WF) (i j : Nat) : (Families.addEdge g i j).WF where
  symm := by
    intro u v
    simp only [Families.addEdge, hg.symm u v]
    congr 2
    rw [Bool.eq_iff_iff]; simp; omega
  irrefl := by
    intro v
    simp only [Families.addEdge, hg.irrefl v, Bool.false_or]
    rw [Bool.eq_false_iff]; simp; omega
  supp := by
    intro u v h
    simp only [Families.addEdge, Bool.or_eq_true, Bool.and_eq_true, decide_eq_true_eq, beq_iff_eq] at h
    rcases h with h | ⟨⟨⟨_, hi⟩, hj⟩, h⟩
    · exact hg.supp u v h
    · show u < g.n ∧ v < g.n
      omega

theorem countP_pairs_single (n a b : Nat) (hab : a < b) (hb : b < n) :
    (pairs n).countP (fun p => p.1 == a && p.2 == b) = 1 := by
  have h := countP_pairs_mem n [tri b + a] (by simp) (by intro k hk; simp at hk; subst hk; exact tri_add_lt hab hb)
  refine Eq.trans ?_ h
  apply List.countP_congr
  intro p hp
  obtain ⟨h1, h2⟩ := mem_pairs.mp hp
  simp only [Bool.and_eq_true, beq_iff_eq, pos, List.mem_singleton, decide_eq_true_eq]
  constructor
  · rintro ⟨h3, h4⟩; rw [h3, h4]
  · intro h; have := tri_inj h1 hab h; exact ⟨this.1, this.2⟩

/-- adding a new edge raises the edge count by one -/
theorem addEdge_m (g : G) (hg : g.WF) (i j : Nat) (hij : i ≠ j) (hi : i < g.n) (hj : j < g.n) (hnew : g.adj i j = false) :
    (Families.addEdge g i j).m = g.m + 1 := by
  rw [m_eq_countP, m_eq_countP]
  show (pairs g.n).countP _ = _
  have hji : g.adj j i = false := by rw [hg.symm]; exact hnew
  have : (pairs g.n).countP (fun p => (Families.addEdge g i j).adj p.1 p.2) =
      (pairs g.n).countP (fun p => g.adj p.1 p.2 || (p.1 == min i j && p.2 == max i j)) := by
    apply List.countP_congr
    intro p hp
    obtain ⟨h1, h2⟩ := mem_pairs.mp hp
    rw [addEdge_adj g i j hij hi hj]
    simp only [Bool.or_eq_true, isPair_iff, Bool.and_eq_true, beq_iff_eq]
    constructor <;> rintro (h | h) <;> first | exact Or.inl h | (right; omega)
  rw [this, countP_or_disjoint _ _ _ (by
    intro p _ ⟨c1, c2⟩
    simp only [Bool.and_eq_true, beq_iff_eq] at c2
    rcases Nat.lt_or_gt_of_ne hij with h | h
    · rw [Nat.min_eq_left (by omega), Nat.max_eq_right (by omega)] at c2; rw [c2.1, c2.2, hnew] at c1; cases c1
    · rw [Nat.min_eq_right (by omega), Nat.max_eq_left (by omega)] at c2; rw [c2.1, c2.2, hji] at c1; cases c1)]
  rw [countP_pairs_single g.n (min i j) (max i j) (by omega) (by omega)]

theorem addEdge_deg (g : G) (hg : g.WF) (i j : Nat) (hij : i ≠ j) (hi : i < g.n) (hj : j < g.n) (hnew : g.adj i j = false)
    (v : Nat) : (Families.addEdge g i j).deg v = g.deg v + (if v = i then 1 else 0) + (if v = j then 1 else 0) := by
  have hji : g.adj j i = false := by rw [hg.symm]; exact hnew
  simp only [G.deg, G.nbrs, ← List.countP_eq_length_filter]
  show (List.range g.n).countP _ = _
  have : (List.range g.n).countP (fun u => (Families.addEdge g i j).adj v u) =
      (List.range g.n).countP (fun u => (g.adj v u || (u == j && decide (v = i))) || (u == i && decide (v = j))) := by
    apply List.countP_congr
    intro u _
    rw [addEdge_adj g i j hij hi hj]
    simp only [Bool.or_eq_true, isPair_iff, Bool.and_eq_true, beq_iff_eq, decide_eq_true_eq]
    constructor
    · rintro (h | h)
      · exact Or.inl (Or.inl h)
      · rcases h with h | h
        · exact Or.inl (Or.inr ⟨h.2, h.1⟩)
        · exact Or.inr ⟨h.2, h.1⟩
    · rintro ((h | h) | h)
      · exact Or.inl h
      · exact Or.inr (Or.inl ⟨h.2, h.1⟩)
      · exact Or.inr (Or.inr ⟨h.2, h.1⟩)
  rw [this, countP_or_disjoint _ _ _ (by
      intro u _ ⟨c1, c2⟩
      simp only [Bool.or_eq_true, Bool.and_eq_true, beq_iff_eq, decide_eq_true_eq] at c1 c2
      rcases c1 with c1 | c1
      · rw [c2.1, c2.2, hji] at c1; cases c1
      · omega),
    countP_or_disjoint _ _ _ (by
      intro u _ ⟨c1, c2⟩
      simp only [Bool.and_eq_true, beq_iff_eq, decide_eq_true_eq] at c2
      rw [c2.1, c2.2, hnew] at c1; cases c1),
    countP_range_beq_and, countP_range_beq_and]
  simp [hi, hj]


end Construct
