import Mamba.Lemmas.CanonFTotalInv
/-!
# Totality of `expandValue` with a non-empty `currentBest` (`expandValue_totalG`)
-/
namespace CanonF

/-- the neighbour lists are in range -/
theorem rt_nbr_lt {n : Nat} {nb : Nbrs} (hnb : NbOK nb n) : ∀ (u : Nat) (l : List Nat), nb[u]? = some l → ∀ v ∈ l, v < n := by
  intro u l hl v hv
  have : nb.getD u [] = l := by simp [Array.getD_eq_getD_getElem?, hl]
  exact (hnb.lt u v (by rw [this]; exact hv)).2

/-- `worseTest` does not panic when `value` fits into the stored certificates -/
theorem rt_worseTest_total {value cb fl : Sl Nat} (hcb : cb.len = 0 ∨ value.len ≤ cb.data.size)
    (hfl : value.len ≤ fl.data.size) : ∃ b, worseTest value cb fl = .ok b := by
  unfold worseTest
  by_cases h0 : cb.len > 0
  · rw [if_pos h0]
    have hc : value.len ≤ cb.data.size := by rcases hcb with h | h <;> omega
    have h1 : cb.reslice value.len = .ok ⟨cb.data, value.len⟩ := Sl.reslice_eq_ok.2 ⟨hc, rfl⟩
    have h2 : fl.reslice value.len = .ok ⟨fl.data, value.len⟩ := Sl.reslice_eq_ok.2 ⟨hfl, rfl⟩
    simp only [h1, h2]
    split
    · exact ⟨_, rfl⟩
    · exact ⟨_, rfl⟩
  · rw [if_neg h0]; exact ⟨_, rfl⟩

/-- a prefix certificate is not longer than the full one -/
theorem rt_certPos_len {n : Nat} {nb : Nbrs} (hnb : NbOK nb n) (hsz : nb.size = n) {o : List Nat}
    (ho : o.Perm (List.range n)) {j : Nat} (hj : j ≤ n) :
    (certPos nb o j).length ≤ ((nb.toList.map List.length).sum) / 2 := by
  obtain ⟨tail, ht⟩ := certPos_append nb o j n hj
  have := certPos_length hnb hsz ho
  rw [ht, List.length_append] at this
  omega

theorem rt_expandLoop_total {n : Nat} {nb : Nbrs} {cb fl : Sl Nat} (hnb : NbOK nb n) (hsz : nb.size = n)
    (hcb : cb.len = 0 ∨ ((nb.toList.map List.length).sum) / 2 ≤ cb.data.size)
    (hfl : ((nb.toList.map List.length).sum) / 2 ≤ fl.data.size) :
    ∀ (k j : Nat) (op : OP), j + k = n → PartInv n op →
      (∀ t, t < j → op.binDividers.toList[t]? = some (t + 1)) → op.value.WF →
      op.value.toList = certPos nb op.order.toList j →
      ∃ r, expandLoop nb cb fl k j op = .ok r := by
  intro k
  induction k with
  | zero => intro j op _ _ _ _ _; exact ⟨_, rfl⟩
  | succ k ih =>
    intro j op hjk hp hsing hv hval
    have hjn : j < n := by omega
    have hjl := rf_single_lt_len hp hsing hjn
    have hbl : op.binDividers.toList.length = op.binDividers.len := Sl.length_toList _ hp.wfBd
    obtain ⟨a, hga, _⟩ := Sl.get_ok_of_lt hp.wfBd (show j < op.binDividers.len by omega)
    have hal : op.binDividers.toList[j]? = some a := Sl.get_eq_toList.1 hga
    have hg1 : j ≠ 0 → op.binDividers.get (j - 1) = .ok j := by
      intro h0
      rw [Sl.get_eq_toList, hsing (j - 1) (by omega)]
      congr 1; omega
    rw [expandLoop]
    split
    rotate_left
    · rename_i heq
      by_cases h0 : j = 0
      · subst h0; rw [if_pos rfl, hga] at heq; cases heq
      · rw [if_neg h0, hga, hg1 h0] at heq; cases heq
    · rename_i heq
      by_cases h0 : j = 0
      · subst h0; rw [if_pos rfl, hga] at heq; cases heq
      · rw [if_neg h0, hga, hg1 h0] at heq; cases heq
    rename_i bsz heq
    have hbsz : bsz = a - j := by
      by_cases h0 : j = 0
      · subst h0; rw [if_pos rfl, hga] at heq; cases heq; rfl
      · rw [if_neg h0, hga, hg1 h0] at heq; cases heq; rfl
    subst hbsz
    by_cases hne : a - j ≠ 1
    · rw [if_pos hne]; exact ⟨_, rfl⟩
    · rw [if_neg hne]
      have hja : j + 1 ≤ a := hp.bd_ge j a hal
      have haj : a = j + 1 := by omega
      obtain ⟨u, hu, _⟩ := Sl.get_ok_of_lt hp.wfOrder (show j < op.order.len by rw [hp.lenOrder]; exact hjn)
      have hun : u < n := perm_range_lt hp.perm (Sl.get_eq_toList.1 hu)
      have hnu : nbrsGet nb u = .ok (nb[u]'(by omega)) := by
        unfold nbrsGet
        rw [Array.getElem?_eq_getElem (by omega)]
      have hln : ∀ v ∈ nb[u]'(by omega), v < n := rt_nbr_lt hnb u _ (Array.getElem?_eq_getElem (by omega))
      obtain ⟨value1, hc1, hw1⟩ := rf_codeLoop_total hp.wfInCell hp.lenInCell j _ op.value hln hv
      obtain ⟨_, t1⟩ := codeLoop_spec
        (fun v => if op.order.toList.idxOf v < j then some (tri j + op.order.toList.idxOf v) else none)
        (code_fun hp j hsing) _ op.value value1 hv hc1
      have hlen0 : op.value.toList.length = op.value.len := Sl.length_toList _ hv
      have hlen1 : value1.toList.length = value1.len := Sl.length_toList _ hw1
      have hle : op.value.len ≤ value1.len := by
        rw [← hlen1, t1, List.length_append]; omega
      obtain ⟨value2, hs2, hw2⟩ := rf_sortRange_total hw1 hle
      obtain ⟨_, _, t2⟩ := sortRange_spec hw1 hle hs2
      have hraw : rawCodes nb op.order.toList j = (nb[u]'(by omega)).filterMap
          (fun v => if op.order.toList.idxOf v < j then some (tri j + op.order.toList.idxOf v) else none) := by
        unfold rawCodes
        have : op.order.toList.getD j 0 = u := by
          rw [List.getD_eq_getElem?_getD, Sl.get_eq_toList.1 hu]; rfl
        rw [this, nbrsGet_eq hnu]
      have t2' : value2.toList = certPos nb op.order.toList (j + 1) := by
        rw [t2, t1, ← hlen0, List.take_left, List.drop_left, hval, certPos_succ, blockCodes, hraw]
      have hlen2 : value2.len ≤ ((nb.toList.map List.length).sum) / 2 := by
        rw [← Sl.length_toList _ hw2, t2']
        exact rt_certPos_len hnb hsz hp.perm (by omega)
      obtain ⟨b, hwt⟩ := rt_worseTest_total (value := value2) (cb := cb) (fl := fl)
        (by rcases hcb with h | h; exact Or.inl h; exact Or.inr (by omega)) (by omega)
      simp only [hu, hnu, hc1, hs2, hwt]
      cases b with
      | true => exact ⟨_, rfl⟩
      | false =>
        have hp2 : PartInv n { op with value := value2 } := PartInv.of_frame hp rfl rfl rfl rfl
        exact ih (j + 1) { op with value := value2 } (by omega) hp2
          (by
            intro t ht
            by_cases htj : t = j
            · subst htj; show op.binDividers.toList[t]? = some (t + 1); rw [hal, haj]
            · exact hsing t (by omega))
          hw2 t2'

/-- `expandValue` does not panic: every slice access is in range; `worseTest` re-slices `cb` / `fl` to `len(value)`, which
is `≤ m` by the certificate invariant -/
theorem expandValue_totalG {n : Nat} {nb : Nbrs} {cb fl : Sl Nat} {op : OP} (hnb : NbOK nb n) (hsz : nb.size = n)
    (hp : PartInv n op) (hps : PrefixSingle op) (hvw : op.value.WF)
    (hval : op.value.toList = certPos nb op.order.toList op.spl)
    (hcb : cb.len = 0 ∨ ((nb.toList.map List.length).sum) / 2 ≤ cb.data.size)
    (hfl : ((nb.toList.map List.length).sum) / 2 ≤ fl.data.size) :
    ∃ r, expandValue nb cb fl op = .ok r := by
  unfold expandValue
  have hle : op.spl ≤ n := Nat.le_trans hps.le hp.bdLen_le
  exact rt_expandLoop_total hnb hsz hcb hfl _ _ op (by rw [hp.lenOrder]; omega) hp hps.single hvw hval

end CanonF
