import Mamba.Lemmas.CanonFOrbit
import Mamba.Lemmas.CanonFAut
import Mamba.Lemmas.CanonFMain
import Mamba.Lemmas.CanonFCertDeage
import Mamba.Lemmas.CanonFCertSplit
import Mamba.Lemmas.CanonFCertRefine
import Mamba.Lemmas.CanonFCertExpand
import Mamba.Lemmas.CanonFCount
/-!
# Certificates of leaves, generators and orbits in the main loop of `CanonicalIsomorphAllocated`
(faithful model `Model/CanonF.lean`)

* `sameCert_step`: a leaf whose certificate equals that of a reference leaf (`currentBest` or `firstLeaf`) yields the
  automorphism "vertex at position `p` of the reference leaf ↦ vertex at position `p` of this leaf"; the union–find is
  merged along it and it is recorded as a generator iff something was merged.
* `GInv`: `currentBest`/`firstLeaf` are full certificates `certPos nb o n` of leaves `o` whose inverse permutations are
  `currentBestPermInv`/`firstLeafPermInv`; every recorded generator is an automorphism; two vertices with the same
  representative in `firstLeafOrbits` are connected by recorded generators.
-/
namespace CanonF
open Relation

/-- `pinv` is the inverse of the vertex order `o` (`pinv[o[i]] = i`) -/
def InvOf (o : List Nat) (pinv : Sl Nat) : Prop := ∀ i x : Nat, o[i]? = some x → pinv.toList[x]? = some i

/-- the relation `x ↦ γ x` for the first `ngens` recorded generators -/
def GenRelA (gens : Array (Sl Nat)) (ngens : Nat) (x y : Nat) : Prop :=
  ∃ k γ, k < ngens ∧ gens[k]? = some γ ∧ γ.toList[x]? = some y

theorem eqvGen_of_imp {α : Type} {R S : α → α → Prop} (h : ∀ x y, R x y → EqvGen S x y) {a b : α}
    (hab : EqvGen R a b) : EqvGen S a b := by
  induction hab with
  | rel x y hxy => exact h x y hxy
  | refl x => exact EqvGen.refl x
  | symm x y _ ih => exact EqvGen.symm _ _ ih
  | trans x y z _ _ ih1 ih2 => exact EqvGen.trans _ _ _ ih1 ih2

/-- one "equal certificate" event of the leaf branch: the orbit partition is merged along `σ = transport o1 order`
(vertex at position `p` of the reference leaf ↦ vertex at position `p` of this leaf), and `σ` is recorded iff something
was merged. All recorded generators are automorphisms and the orbit partition only joins what they connect. -/
theorem sameCert_step {n : Nat} {nb : Nbrs} (hnb : NbOK nb n) {order pinv : Sl Nat} {o1 : List Nat}
    {ds ds' : Disjoint.DS} {gens gens' : Array (Sl Nat)} {ngens ngens' : Nat} {merges : Bool}
    (ho1 : o1.Perm (List.range n)) (hord : order.toList.Perm (List.range n)) (hlen : order.len = n)
    (hinvof : InvOf o1 pinv) (hcert : certPos nb o1 n = certPos nb order.toList n)
    (hds : Disjoint.Inv ds) (hsz : ds.size = n)
    (hgens : ∀ k, k < ngens → ∃ γ, gens[k]? = some γ ∧ IsAutL nb n γ.toList)
    (horb : ∀ a b, a < n → b < n → Disjoint.rep ds a = Disjoint.rep ds b → EqvGen (GenRelA gens ngens) a b)
    (hloop : forRange (orbitStep order pinv) n 0 (ds, false) = .ok (ds', merges))
    (hrec : (if merges = true then recordGenerator n order pinv gens ngens else Outcome.ok (gens, ngens)) = .ok (gens', ngens')) :
    Disjoint.Inv ds' ∧ ds'.size = n ∧
      (∀ k, k < ngens' → ∃ γ, gens'[k]? = some γ ∧ IsAutL nb n γ.toList) ∧
      (∀ a b, a < n → b < n → Disjoint.rep ds' a = Disjoint.rep ds' b → EqvGen (GenRelA gens' ngens') a b) := by
  obtain ⟨i1, i2, i3, i4, i5, i6⟩ := orbitLoop_spec hds hsz hloop
  by_cases hm : merges = true
  · rw [if_pos hm] at hrec
    obtain ⟨r1, r2, r3, r4, tmp, t1, t2, t3, t4, t5⟩ := recordGenerator_spec hlen hrec
    subst r1
    -- the recorded slice is the transport
    have htmp : tmp.toList = transport n o1 order.toList := by
      rw [← transport_eq (o2 := order.toList) (pinv := pinv.toList) ho1 hinvof]
      apply List.ext_getElem?
      intro i
      by_cases hi : i < n
      · obtain ⟨p, v, hp, hv, hv'⟩ := t5 i hi
        rw [hv', List.getElem?_map, List.getElem?_range hi]
        simp only [Option.map_some]
        have hp' := Sl.get_eq_toList.1 hp
        have hvv := Sl.get_eq_toList.1 hv
        simp only [List.getD_eq_getElem?_getD, hp', Option.getD_some, hvv]
      · rw [List.getElem?_eq_none (by omega), List.getElem?_eq_none (by simp; omega)]
    have haut : IsAutL nb n tmp.toList := by rw [htmp]; exact aut_of_cert hnb ho1 hord hcert
    refine ⟨i1, i2, ?_, ?_⟩
    · intro k hk
      by_cases hkn : k = ngens
      · subst hkn; exact ⟨tmp, t1, haut⟩
      · obtain ⟨γ, g1, g2⟩ := hgens k (by omega)
        exact ⟨γ, by rw [r4 k hkn]; exact g1, g2⟩
    · intro a b ha hb hab
      apply eqvGen_of_imp _ (i5 a b ha hb hab)
      rintro x y ⟨hx, hy, hxy | ⟨p, hp, hv⟩⟩
      · apply eqvGen_of_imp _ (horb x y hx hy hxy)
        rintro u w ⟨k, γ, hk, g1, g2⟩
        exact EqvGen.rel _ _ ⟨k, γ, by omega, by rw [r4 k (by omega)]; exact g1, g2⟩
      · obtain ⟨p', v', hp', hv', hvt⟩ := t5 x hx
        rw [hp] at hp'; cases hp'
        rw [hv] at hv'; cases hv'
        exact EqvGen.rel _ _ ⟨ngens, tmp, by omega, t1, hvt⟩
  · rw [if_neg hm] at hrec
    cases hrec
    have hm' : merges = false := by simpa using hm
    refine ⟨i1, i2, hgens, ?_⟩
    intro a b ha hb hab
    rw [i6 hm' a ha, i6 hm' b hb] at hab
    exact horb a b ha hb hab


theorem compare_eq_zero : ∀ (a b : List Nat), compare a b = 0 ↔ a = b := by
  intro a
  induction a with
  | nil => intro b; cases b <;> simp [compare]
  | cons x xs ih =>
    intro b
    cases b with
    | nil => simp [compare]
    | cons y ys =>
      simp only [compare]
      by_cases h1 : x > y
      · simp [h1]; omega
      · by_cases h2 : x < y
        · simp [h1, h2]; omega
        · have : x = y := by omega
          subst this
          simp [ih ys]

/-- the part of the main-loop invariant that concerns certificates of leaves, generators and orbits -/
structure GInv (n m : Nat) (nb : Nbrs) (s : LS) : Prop where
  best : s.currentBest.len ≠ 0 →
    s.currentBest.toList = certPos nb s.bestPerm.toList n ∧ InvOf s.bestPerm.toList s.bestPermInv
  flLen : s.firstLeaf.len = m ∧ s.firstLeaf.WF
  first : 0 < s.count → ∃ o1, o1.Perm (List.range n) ∧ s.firstLeaf.toList = certPos nb o1 n ∧ InvOf o1 s.flPermInv
  gens : ∀ k, k < s.ngens → ∃ γ, s.gens[k]? = some γ ∧ IsAutL nb n γ.toList
  orb : 0 < s.count → Disjoint.Inv s.flOrbits ∧
    ∀ a b, a < n → b < n → Disjoint.rep s.flOrbits a = Disjoint.rep s.flOrbits b →
      Relation.EqvGen (GenRelA s.gens s.ngens) a b
  orbB : 0 < s.count → Disjoint.Inv s.bestOrbits
  orbSz : s.flOrbits.size = n ∧ s.bestOrbits.size = n
  pinv : s.flPermInv.len = n ∧ s.flPermInv.WF
  bpinv : s.bestPermInv.len = n ∧ s.bestPermInv.WF


theorem copyFrom_data_full {α : Type} (a : Array α) (src : List α) (h : src.length = a.size) :
    (Sl.copyFrom ⟨a, a.size⟩ src).data = src.toArray := by
  have hw : (⟨a, a.size⟩ : Sl α).WF := Nat.le_refl _
  have := Sl.copyFrom_toList ⟨a, a.size⟩ hw src h
  apply Array.ext'
  simp only [Sl.toList, Sl.copyFrom_len] at this
  rw [List.take_of_length_le (by simp [Sl.copyFrom])] at this
  simpa using this

/-- GInv does not depend on the partition, the stacks, the scratch space -/
theorem GInv.congr {n m : Nat} {nb : Nbrs} {s s2 : LS} (h : GInv n m nb s)
    (e1 : s2.currentBest = s.currentBest) (e2 : s2.bestPerm = s.bestPerm) (e3 : s2.bestPermInv = s.bestPermInv)
    (e4 : s2.firstLeaf = s.firstLeaf) (e5 : s2.flPermInv = s.flPermInv) (e6 : s2.gens = s.gens)
    (e7 : s2.ngens = s.ngens) (e8 : s2.flOrbits = s.flOrbits) (e9 : s2.bestOrbits = s.bestOrbits)
    (e10 : s2.count = s.count) : GInv n m nb s2 := by
  constructor
  · rw [e1, e2, e3]; exact h.best
  · rw [e4]; exact h.flLen
  · rw [e10, e4, e5]; exact h.first
  · rw [e7, e6]; exact h.gens
  · rw [e10, e8, e6, e7]; exact h.orb
  · rw [e10, e9]; exact h.orbB
  · rw [e8, e9]; exact h.orbSz
  · rw [e5]; exact h.pinv
  · rw [e3]; exact h.bpinv


set_option maxHeartbeats 1000000 in
/-- the leaf branch keeps `GInv` and leaves the certificate state clean-or-stale-N (`VN`) -/
theorem leafNode_cert {n m : Nat} {nb : Nbrs} (hnb : NbOK nb n)
    (hlenm : ∀ o : List Nat, o.Perm (List.range n) → (certPos nb o n).length = m) (hm0 : 0 < m)
    {s s' : LS} {lv : List (Nat × Nat)}
    (hq : StepQ n nb s.currentBest s.firstLeaf (VAny nb s.currentBest s.firstLeaf) (VN nb s.currentBest s.firstLeaf))
    (hc : Core n s) (hl : LevelsOK s.op s.path s.choices lv) (hage : s.op.age = s.path.length)
    (hg : GInv n m nb s) (h0 : s.count = 0 → s.currentBest.len = 0)
    (hvc : VClean nb s.op) (hspl : s.op.spl = n)
    (h : leafNode n m s = .ok s') :
    GInv n m nb s' ∧ VN nb s'.currentBest s'.firstLeaf s'.op := by
  -- the certificate of this leaf
  have hval : s.op.value.toList = certPos nb s.op.order.toList n := by rw [← hspl]; exact hvc.val
  have hvlen : s.op.value.toList.length = m := by rw [hval]; exact hlenm _ hc.part.perm
  have holen : s.op.order.toList.length = n := by rw [Sl.length_toList _ hc.part.wfOrder, hc.part.lenOrder]
  unfold leafNode at h
  dsimp only at h
  by_cases hc1 : (compare s.op.value.toList s.currentBest.toList == 1) = true
  · rw [if_pos hc1] at h
    cases hrs : s.currentBest.reslice m with
    | panic => rw [hrs] at h; cases h
    | outOfFuel => rw [hrs] at h; cases h
    | ok cb =>
      rw [hrs] at h
      simp only at h
      obtain ⟨cbl, cbd, cbw⟩ := Sl.reslice_len hrs
      split at h
      · rename_i bestPermInv' bestOrbits' hloop
        obtain ⟨r1, r2, r3, r4, r5, _⟩ := resetLoop_spec hc.part.perm hc.part.wfOrder hc.part.lenOrder hg.orbSz.2 hloop
        have hcbT : (cb.copyFrom s.op.value.toList).toList = s.op.value.toList :=
          Sl.copyFrom_toList cb cbw _ (by rw [hvlen, cbl])
        have hbpT : (s.bestPerm.copyFrom s.op.order.toList).toList = s.op.order.toList :=
          Sl.copyFrom_toList _ hc.bestWf _ (by rw [holen, hc.bestLen])
        have hbpiW : bestPermInv'.WF := by
          have := hg.bpinv.2; unfold Sl.WF at this ⊢; omega
        have hbpiL : bestPermInv'.len = n := by rw [r1]; exact hg.bpinv.1
        by_cases hcnt : s.count + 1 = 1
        · rw [if_pos hcnt] at h
          cases h
          have hflT : (s.firstLeaf.copyFrom s.op.value.toList).toList = s.op.value.toList :=
            Sl.copyFrom_toList _ hg.flLen.2 _ (by rw [hvlen, hg.flLen.1])
          have hfpT : (s.flPermInv.copyFrom bestPermInv'.toList).toList = bestPermInv'.toList :=
            Sl.copyFrom_toList _ hg.pinv.2 _ (by rw [Sl.length_toList _ hbpiW, hbpiL, hg.pinv.1])
          have hforb : (Sl.copyFrom ⟨s.flOrbits, s.flOrbits.size⟩ bestOrbits'.toList).data = Disjoint.new n := by
            rw [copyFrom_data_full _ _ (by rw [r4]; simp [Disjoint.new, hg.orbSz.1]), r4]
          refine ⟨?_, Or.inl hvc⟩
          constructor
          · intro _; exact ⟨by rw [hcbT, hbpT]; exact hval, by rw [hbpT]; exact r3⟩
          · exact ⟨by rw [Sl.copyFrom_len]; exact hg.flLen.1, Sl.copyFrom_wf hg.flLen.2 _⟩
          · intro _
            exact ⟨s.op.order.toList, hc.part.perm, by rw [hflT]; exact hval, by
              intro i x hx; show (s.flPermInv.copyFrom bestPermInv'.toList).toList[x]? = some i
              rw [hfpT]; exact r3 i x hx⟩
          · exact hg.gens
          · intro _
            show Disjoint.Inv (Sl.copyFrom ⟨s.flOrbits, s.flOrbits.size⟩ bestOrbits'.toList).data ∧ _
            rw [hforb]
            refine ⟨Disjoint.inv_new' n, ?_⟩
            intro a b ha hb hab
            rw [Disjoint.rep_new n a ha, Disjoint.rep_new n b hb] at hab
            subst hab; exact EqvGen.refl _
          · intro _; show Disjoint.Inv bestOrbits'; exact r5
          · refine ⟨?_, ?_⟩
            · show (Sl.copyFrom ⟨s.flOrbits, s.flOrbits.size⟩ bestOrbits'.toList).data.size = n
              rw [hforb]; exact Disjoint.size_new n
            · show bestOrbits'.size = n; rw [r4]; exact Disjoint.size_new n
          · exact ⟨by rw [Sl.copyFrom_len]; exact hg.pinv.1, Sl.copyFrom_wf hg.pinv.2 _⟩
          · exact ⟨hbpiL, hbpiW⟩
        · rw [if_neg hcnt] at h
          cases h
          have hpos : 0 < s.count := by omega
          refine ⟨?_, Or.inl hvc⟩
          constructor
          · intro _; exact ⟨by rw [hcbT, hbpT]; exact hval, by rw [hbpT]; exact r3⟩
          · exact hg.flLen
          · intro _; exact hg.first hpos
          · exact hg.gens
          · intro _; exact hg.orb hpos
          · intro _; show Disjoint.Inv bestOrbits'; exact r5
          · exact ⟨hg.orbSz.1, by show bestOrbits'.size = n; rw [r4]; exact Disjoint.size_new n⟩
          · exact hg.pinv
          · exact ⟨hbpiL, hbpiW⟩
      · cases h
      · cases h
  · have hc1' : (compare s.op.value.toList s.currentBest.toList == 1) = false := by simpa using hc1
    rw [if_neg hc1] at h
    have hnil : ∀ t : Sl Nat, t.len = 0 → t.toList = [] := by
      intro t ht; simp [Sl.toList, ht]
    by_cases hc0 : (compare s.op.value.toList s.currentBest.toList == 0) = true
    · rw [if_pos hc0] at h
      have heq : s.op.value.toList = s.currentBest.toList := (compare_eq_zero _ _).1 (by simpa using hc0)
      have hcbne : s.currentBest.len ≠ 0 := by
        intro hz
        rw [hnil _ hz] at heq
        rw [heq] at hvlen; simp at hvlen; omega
      have hpos : 0 < s.count := by
        rcases Nat.eq_zero_or_pos s.count with hz | hp
        · exact absurd (h0 hz) hcbne
        · exact hp
      obtain ⟨b1, b2⟩ := hg.best hcbne
      have hbperm := hc.bestPerm hcbne
      split at h
      · rename_i bestOrbits' mm1 hloop1
        split at h
        · rename_i flOrbits' merges hloop2
          split at h
          · rename_i gens' ngens' hrec
            obtain ⟨j1, j2, _⟩ := orbitLoop_spec (hg.orbB hpos) hg.orbSz.2 hloop1
            obtain ⟨o1f, o2f⟩ := hg.orb hpos
            obtain ⟨k1, k2, k3, k4⟩ := sameCert_step hnb hbperm hc.part.perm hc.part.lenOrder b2
              (by rw [← b1, ← heq, hval]) o1f hg.orbSz.1 hg.gens o2f hloop2 hrec
            obtain ⟨lv', c1, c2, c3, c4, c5⟩ := backJump_spec hq (n := n) (lv := lv)
              (by exact Core.congr hc rfl rfl rfl rfl) (by exact hl) (by exact hage) (by exact Or.inl hvc) h
            refine ⟨?_, by rw [c4]; exact c5⟩
            refine GInv.congr (s := { s with count := s.count + 1, bestOrbits := bestOrbits', flOrbits := flOrbits', gens := gens', ngens := ngens' })
              ?_ (by rw [c4]) (by rw [c4]) (by rw [c4]) (by rw [c4]) (by rw [c4])
              (by rw [c4]) (by rw [c4]) (by rw [c4]) (by rw [c4]) (by rw [c4])
            constructor
            · exact hg.best
            · exact hg.flLen
            · intro _; exact hg.first hpos
            · exact k3
            · intro _; exact ⟨k1, k4⟩
            · intro _; exact j1
            · exact ⟨k2, j2⟩
            · exact hg.pinv
            · exact hg.bpinv
          · cases h
          · cases h
        · cases h
        · cases h
      · cases h
      · cases h
    · rw [if_neg hc0] at h
      by_cases hcf : (compare s.op.value.toList s.firstLeaf.toList == 0) = true
      · rw [if_pos hcf] at h
        have heq : s.op.value.toList = s.firstLeaf.toList := (compare_eq_zero _ _).1 (by simpa using hcf)
        -- comp = -1 needs a non-empty currentBest, hence a first leaf
        have hcbne : s.currentBest.len ≠ 0 := by
          intro hz
          have hcn := hnil _ hz
          rw [hcn, compare_nil_right] at hc1'
          have hvne : s.op.value.toList ≠ [] := by
            intro hv; rw [hv] at hvlen; simp at hvlen; omega
          rw [if_neg hvne] at hc1'
          simp at hc1'
        have hpos : 0 < s.count := by
          rcases Nat.eq_zero_or_pos s.count with hz | hp
          · exact absurd (h0 hz) hcbne
          · exact hp
        obtain ⟨o1, p1, p2, p3⟩ := hg.first hpos
        split at h
        · rename_i flOrbits' merges hloop2
          split at h
          · rename_i gens' ngens' hrec
            obtain ⟨o1f, o2f⟩ := hg.orb hpos
            obtain ⟨k1, k2, k3, k4⟩ := sameCert_step hnb p1 hc.part.perm hc.part.lenOrder p3
              (by rw [← p2, ← heq, hval]) o1f hg.orbSz.1 hg.gens o2f hloop2 hrec
            obtain ⟨lv', c1, c2, c3, c4, c5⟩ := backJump_spec hq (n := n) (lv := lv)
              (by exact Core.congr hc rfl rfl rfl rfl) (by exact hl) (by exact hage) (by exact Or.inl hvc) h
            refine ⟨?_, by rw [c4]; exact c5⟩
            refine GInv.congr (s := { s with count := s.count + 1, flOrbits := flOrbits', gens := gens', ngens := ngens' })
              ?_ (by rw [c4]) (by rw [c4]) (by rw [c4]) (by rw [c4]) (by rw [c4])
              (by rw [c4]) (by rw [c4]) (by rw [c4]) (by rw [c4]) (by rw [c4])
            constructor
            · exact hg.best
            · exact hg.flLen
            · intro _; exact hg.first hpos
            · exact k3
            · intro _; exact ⟨k1, k4⟩
            · intro _; exact hg.orbB hpos
            · exact ⟨k2, hg.orbSz.2⟩
            · exact hg.pinv
            · exact hg.bpinv
          · cases h
          · cases h
        · cases h
        · cases h
      · rw [if_neg hcf] at h
        cases h
        refine ⟨?_, Or.inl hvc⟩
        have hpos : 0 < s.count ∨ s.count = 0 := by omega
        constructor
        · exact hg.best
        · exact hg.flLen
        · intro _
          rcases hpos with hp | hz
          · exact hg.first hp
          · -- count = 0: currentBest is empty, so the comparison gave 1: impossible here
            exfalso
            have hcn := hnil _ (h0 hz)
            rw [hcn, compare_nil_right] at hc1'
            have hvne : s.op.value.toList ≠ [] := by
              intro hv; rw [hv] at hvlen; simp at hvlen; omega
            rw [if_neg hvne] at hc1'
            simp at hc1'
        · exact hg.gens
        · intro _
          rcases hpos with hp | hz
          · exact hg.orb hp
          · exfalso
            have hcn := hnil _ (h0 hz)
            rw [hcn, compare_nil_right] at hc1'
            have hvne : s.op.value.toList ≠ [] := by
              intro hv; rw [hv] at hvlen; simp at hvlen; omega
            rw [if_neg hvne] at hc1'
            simp at hc1'
        · intro _
          rcases hpos with hp | hz
          · exact hg.orbB hp
          · exfalso
            have hcn := hnil _ (h0 hz)
            rw [hcn, compare_nil_right] at hc1'
            have hvne : s.op.value.toList ≠ [] := by
              intro hv; rw [hv] at hvlen; simp at hvlen; omega
            rw [if_neg hvne] at hc1'
            simp at hc1'
        · exact hg.orbSz
        · exact hg.pinv
        · exact hg.bpinv



/-- the certificate closure properties of the stepping loops -/
theorem certStepQ (hx : ExpandCert) (hy : ExpandStale) (n : Nat) (nb : Nbrs) (cb fl : Sl Nat) :
    StepQ n nb cb fl (VAny nb cb fl) (VN nb cb fl) where
  na := fun _ h => h.any
  deage := fun _ _ hp ha hage hv hd => deage_cert hp ha hage hv hd
  split := fun _ _ _ _ hp ha hi hns hv hs => splitBin_cert hx hy hp ha hi hns hv hs

/-- at a leaf (all bins singletons) a `VN` state is clean and the whole order is the prefix -/
theorem leaf_clean {n : Nat} {nb : Nbrs} {cb fl : Sl Nat} {op : OP} (hp : PartInv n op) (hleaf : op.binDividers.len = n)
    (hv : VN nb cb fl op) : VClean nb op ∧ op.spl = n := by
  have hsing := leaf_dividers hp hleaf
  rcases hv with hc | ⟨hs, hne⟩
  · refine ⟨hc, ?_⟩
    have := hc.pre.le
    rcases Nat.lt_or_ge op.spl n with hlt | hge
    · exact absurd (hsing _ hlt) hc.pre.next
    · omega
  · exfalso
    have := hs.lt
    rw [hp.lenOrder] at this
    exact hne (hsing _ this)

/-- the certificate part of the main-loop invariant -/
structure CInv (n m : Nat) (nb : Nbrs) (s : LS) (worse : Bool) : Prop where
  g : GInv n m nb s
  vn : worse = false → VN nb s.currentBest s.firstLeaf s.op
  va : VAny nb s.currentBest s.firstLeaf s.op

theorem GInv.of_stepFrame {n m : Nat} {nb : Nbrs} {s s' : LS} (h : GInv n m nb s) (f : StepFrame s s') : GInv n m nb s' := by
  unfold StepFrame at f
  exact h.congr (by rw [f]) (by rw [f]) (by rw [f]) (by rw [f]) (by rw [f]) (by rw [f]) (by rw [f]) (by rw [f])
    (by rw [f]) (by rw [f])

set_option maxHeartbeats 1000000 in
theorem mainLoop_cert (hst : StablePerm) (hx : ExpandCert) (hy : ExpandStale) {n m : Nat} {nb : Nbrs}
    (hnb : NbOK nb n) (hlenm : ∀ o : List Nat, o.Perm (List.range n) → (certPos nb o n).length = m) (hm0 : 0 < m)
    (he : HasEdge nb n) :
    ∀ (fuel : Nat) (worse : Bool) (s s' : LS), MInv n m nb s → (s.count = 0 → worse = false) → CInv n m nb s worse →
      mainLoop nb n m fuel worse s = .ok s' → GInv n m nb s' ∧ 0 < s'.count := by
  intro fuel
  induction fuel with
  | zero => intro worse s s' _ _ _ h; simp [mainLoop] at h
  | succ f ih =>
    intro worse s s' hI hw hC h
    rw [mainLoop] at h
    obtain ⟨lv, hlv⟩ := hI.lev
    have hnode := node_step he hI hw hlv
    cases hs1 : (if (!worse && s.op.binDividers.len == n) = true then leafNode n m s
        else if (!worse) = true then innerNode s else Outcome.ok s) with
    | panic => rw [hs1] at h; cases h
    | outOfFuel => rw [hs1] at h; cases h
    | ok s1 =>
      rw [hs1] at h
      simp only at h
      obtain ⟨lv1, c1, l1, g1, esc, f1, p1⟩ := hnode s1 hs1
      -- certificate facts after the node step
      have hcert1 : GInv n m nb s1 ∧ VAny nb s1.currentBest s1.firstLeaf s1.op ∧
          (s1.skipDeage = true → VN nb s1.currentBest s1.firstLeaf s1.op) ∧
          (worse = false → VN nb s1.currentBest s1.firstLeaf s1.op) := by
        by_cases hleaf : (!worse && s.op.binDividers.len == n) = true
        · rw [if_pos hleaf] at hs1
          simp only [Bool.and_eq_true, Bool.not_eq_true', beq_iff_eq] at hleaf
          obtain ⟨hvc, hspl⟩ := leaf_clean hI.core.part hleaf.2 (hC.vn hleaf.1)
          obtain ⟨q1, q2⟩ := leafNode_cert hnb hlenm hm0 (certStepQ hx hy n nb s.currentBest s.firstLeaf)
            hI.core hlv hI.age hC.g (fun h0 => (hI.phase1 h0).1) hvc hspl hs1
          exact ⟨q1, q2.any, fun _ => q2, fun _ => q2⟩
        · rw [if_neg hleaf] at hs1
          by_cases hnw : (!worse) = true
          · rw [if_pos hnw] at hs1
            have hwf : worse = false := by simpa using hnw
            unfold innerNode at hs1
            have hvn := hC.vn hwf
            split at hs1
            · cases hs1
              exact ⟨hC.g.congr rfl rfl rfl rfl rfl rfl rfl rfl rfl rfl, hvn.any, fun _ => hvn, fun _ => hvn⟩
            · cases hs1
              exact ⟨hC.g, hvn.any, fun _ => hvn, fun _ => hvn⟩
            · cases hs1
            · cases hs1
          · rw [if_neg hnw] at hs1
            cases hs1
            have hwt : worse = true := by simpa using hnw
            exact ⟨hC.g, hC.va, fun hsk => (by rw [hI.skip] at hsk; cases hsk), fun hwf => (by rw [hwt] at hwf; cases hwf)⟩
      obtain ⟨gg1, va1, vs1, _⟩ := hcert1
      cases hst2 : stepLoop nb s1.path.length s1 with
      | panic => rw [hst2] at h; cases h
      | outOfFuel => rw [hst2] at h; cases h
      | ok r =>
        obtain ⟨b, s2⟩ := r
        rw [hst2] at h
        obtain ⟨lv2, c2, fr2, l2, g2, t2, e2, n2, a2⟩ := stepLoop_spec (certStepQ hx hy n nb s1.currentBest s1.firstLeaf)
          _ s1 lv1 b s2 c1 l1 g1 rfl rfl va1 vs1 hst2
        have hcnt : s2.count = s1.count := by rw [fr2]
        have hcb : s2.currentBest = s1.currentBest := by rw [fr2]
        have hfl : s2.firstLeaf = s1.firstLeaf := by rw [fr2]
        have hsc : s2.sc = s1.sc := by rw [fr2]
        have gg2 : GInv n m nb s2 := gg1.of_stepFrame fr2
        cases b with
        | false =>
          simp only at h
          cases h
          have hpos : 0 < s1.count := by
            rcases Nat.eq_zero_or_pos s1.count with h0 | h0
            · have := ((p1 h0).2 false s' hst2).1; cases this
            · exact h0
          exact ⟨gg2, by omega⟩
        | true =>
          simp only at h
          cases hr : refine nb s2.currentBest s2.firstLeaf {} s2.op s2.sc with
          | panic => rw [hr] at h; cases h
          | outOfFuel => rw [hr] at h; cases h
          | ok r3 =>
            obtain ⟨worse', op', sc'⟩ := r3
            rw [hr] at h
            simp only at h
            have hskip : s2.skipDeage = false := t2 rfl
            have hage2 : s2.op.age = s2.path.length := by
              rw [hskip] at g2; simpa using g2
            obtain ⟨r1, r2, r3, r4, _, _, _, z1, z2, z3, _⟩ := refine_inv hst c2.part c2.age c2.scr hr
            have htc : n ≤ s2.sc.timesSeen.data.size := by rw [hsc, esc]; exact hI.tsCap
            have hvn2 : VN nb s2.currentBest s2.firstLeaf s2.op := by rw [hcb, hfl]; exact n2 rfl
            obtain ⟨rc1, rc2⟩ := refine_cert hst hx hy c2.part c2.age c2.scr hvn2 hr
            refine ih worse' _ s' ?_ ?_ ?_ h
            · constructor
              · constructor
                · exact r1
                · exact r2
                · exact scratch_rewrap c2.scr htc z1 z2 z3
                · exact c2.bestWf
                · exact c2.bestLen
                · exact c2.bestPerm
              · exact ⟨lv2, LevelsOK_frame (fun a ha => oldDivs_of_lt r4 a ha) _ _ _
                  (by show ((s2.path.length : Nat) : Int) ≤ s2.op.age; omega) l2⟩
              · show op'.age = _; rw [r3]; exact hage2
              · exact hskip
              · show n ≤ sc'.timesSeen.data.size; omega
              · intro h0
                have h0' : s1.count = 0 := by
                  have : s2.count = 0 := h0
                  omega
                obtain ⟨q1, q2⟩ := p1 h0'
                obtain ⟨_, q3, q4⟩ := q2 true s2 hst2
                have hcb0 : s2.currentBest.len = 0 := by rw [hcb]; exact q1
                exact ⟨hcb0, refine_phase1 hst c2.part c2.age c2.scr q3 q4 hcb0 rfl hr⟩
              · intro hpos
                have : 0 < s1.count := by
                  have : 0 < s2.count := hpos
                  omega
                show s2.currentBest.len = m
                rw [hcb]; exact f1 this
            · intro h0
              have h0' : s1.count = 0 := by
                have : s2.count = 0 := h0
                omega
              have hcb0 : s2.currentBest.len = 0 := by rw [hcb]; exact (p1 h0').1
              exact refine_not_worse hcb0 rfl hr
            · constructor
              · exact gg2.congr rfl rfl rfl rfl rfl rfl rfl rfl rfl rfl
              · intro hw'; exact rc1 hw'
              · cases worse' with
                | false => exact (rc1 rfl).any
                | true => exact rc2 rfl



theorem dsSlice_spec {a : Array Int} {n : Nat} {ds rest : Array Int} (h : dsSlice a n = .ok (ds, rest)) :
    ds.size = n := by
  unfold dsSlice at h
  split at h
  · cases h; simp; omega
  · cases h

set_option maxHeartbeats 1000000 in
/-- generators and orbits returned by `CanonicalIsomorphAllocated` (case `n > 0`, `m > 0`, no viability check) -/
theorem allocated_cert (hst : StablePerm) (hx : ExpandCert) (hy : ExpandStale) {fuel n m : Nat} {nb : Nbrs}
    {op0 : OP} {st : Storage} {opts : Options} {r : Res} {opR : Option OP} {stR : Storage}
    (hn : n ≠ 0) (hm : m ≠ 0) (hv : opts.checkViability = false)
    (hp : PartInv n op0) (ha : AgeInv op0) (hage : op0.age = 0) (hcl : CleanPrefix op0) (hspl : op0.spl = 0)
    (hval : op0.value.len = 0)
    (hnb : NbOK nb n) (hlenm : ∀ o : List Nat, o.Perm (List.range n) → (certPos nb o n).length = m)
    (he : HasEdge nb n)
    (h : canonicalIsomorphAllocated fuel n m nb (some op0) st opts = .ok (r, opR, stR)) :
    ∃ gs ds, r.gens = some gs ∧ r.orbits = some ds ∧ (∀ γ ∈ gs, IsAutL nb n γ) ∧ ds.length = n ∧
      Disjoint.Inv ds.toArray ∧
      ∀ a b, a < n → b < n → Disjoint.rep ds.toArray a = Disjoint.rep ds.toArray b →
        EqvGen (fun x y => ∃ γ ∈ gs, γ[x]? = some y) a b := by
  have hno : NoEarlierNbr nb op0 := by intro _ j u v q hj; rw [hspl] at hj; omega
  unfold canonicalIsomorphAllocated at h
  rw [if_neg hn, if_neg hm] at h
  osplit h
  · rename_i hvw
    simp [hv] at hvw
  · rename_i _ _ _ _ bestPath bestPerm bestPermInv bestOrbits bestRest _ hbpm hbpi hbo _ _ _ _ firstLeaf flPermInv flOrbits flRest flPath hfl hfpi hfo _ _ _ _ space dws nbs _ _ _ _ _ _ timesSeen maxCell numberOfMax hts hmc hnm _ op00 hop _ worse op1 sc1 href hvw _ s hmain
    cases hop
    cases h
    obtain ⟨w1, l1, d1⟩ := slOf_spec hts
    obtain ⟨w2, l2, d2⟩ := slOf_spec hmc
    obtain ⟨w3, l3, d3⟩ := slOf_spec hnm
    obtain ⟨w4, l4, d4⟩ := slOf_spec hbpm
    obtain ⟨w5, l5, _⟩ := slOf_spec hbpi
    obtain ⟨w6, l6, _⟩ := slOf_spec hfl
    obtain ⟨w7, l7, _⟩ := slOf_spec hfpi
    have hsc : ScratchOK n (Scratch.mk dws nbs space timesSeen maxCell numberOfMax) := ⟨w1, w2, w3, l2, l3⟩
    obtain ⟨r1, r2, r3, r4, _, _, _, z1, z2, z3, _⟩ := refine_inv hst hp ha hsc href
    have z1' : sc1.timesSeen.data.size = timesSeen.data.size := z1
    have hph := refine_phase1 hst hp ha hsc hcl hno (cb := ⟨st.currentBest, 0⟩) rfl hv href
    have hwf := refine_not_worse (cb := ⟨st.currentBest, 0⟩) rfl hv href
    have htc : n ≤ timesSeen.data.size := by have := w1; unfold Sl.WF at this; omega
    -- the initial certificate state
    have hvc0 : VClean nb op0 := by
      refine ⟨hcl, by unfold Sl.WF; omega, ?_⟩
      rw [hspl]
      simp [Sl.toList, hval, certPos]
    obtain ⟨rc1, rc2⟩ := refine_cert hst hx hy hp ha hsc (cb := ⟨st.currentBest, 0⟩) (fl := firstLeaf)
      (nb := nb) (Or.inl hvc0) href
    have hI : MInv n m nb
        { op := op1,
          sc := { dws := ⟨sc1.dws.data, n⟩, nbs := ⟨sc1.nbs.data, n⟩, space := ⟨sc1.space.data, n⟩,
                  timesSeen := ⟨sc1.timesSeen.data, n⟩, maxCell := ⟨sc1.maxCell.data, n⟩,
                  numberOfMax := ⟨sc1.numberOfMax.data, n⟩ },
          count := 0, ngens := 0, gens := st.generators, currentBest := ⟨st.currentBest, 0⟩,
          bestPath := bestPath, bestPerm := bestPerm, bestPermInv := bestPermInv, bestOrbits := bestOrbits,
          firstLeaf := firstLeaf, flPermInv := flPermInv, flOrbits := flOrbits, flPath := flPath,
          path := [], choices := [], skipDeage := false } := by
      constructor
      · constructor
        · exact r1
        · exact r2
        · exact scratch_rewrap hsc htc z1 z2 z3
        · exact w4
        · exact l4
        · intro hc; exact absurd rfl hc
      · exact ⟨[], by simp [LevelsOK]⟩
      · show op1.age = _; rw [r3, hage]; rfl
      · rfl
      · show n ≤ sc1.timesSeen.data.size; omega
      · intro _; exact ⟨rfl, hph.1, hph.2⟩
      · intro hc; exact absurd hc (Nat.lt_irrefl 0)
    have hC : CInv n m nb
        { op := op1,
          sc := { dws := ⟨sc1.dws.data, n⟩, nbs := ⟨sc1.nbs.data, n⟩, space := ⟨sc1.space.data, n⟩,
                  timesSeen := ⟨sc1.timesSeen.data, n⟩, maxCell := ⟨sc1.maxCell.data, n⟩,
                  numberOfMax := ⟨sc1.numberOfMax.data, n⟩ },
          count := 0, ngens := 0, gens := st.generators, currentBest := ⟨st.currentBest, 0⟩,
          bestPath := bestPath, bestPerm := bestPerm, bestPermInv := bestPermInv, bestOrbits := bestOrbits,
          firstLeaf := firstLeaf, flPermInv := flPermInv, flOrbits := flOrbits, flPath := flPath,
          path := [], choices := [], skipDeage := false } worse := by
      constructor
      · constructor
        · intro hc; exact absurd rfl hc
        · exact ⟨l6, w6⟩
        · intro hc; exact absurd hc (Nat.lt_irrefl 0)
        · intro k hk; exact absurd hk (Nat.not_lt_zero _)
        · intro hc; exact absurd hc (Nat.lt_irrefl 0)
        · intro hc; exact absurd hc (Nat.lt_irrefl 0)
        · exact ⟨dsSlice_spec hfo, dsSlice_spec hbo⟩
        · exact ⟨l7, w7⟩
        · exact ⟨l5, w5⟩
      · intro hw'; exact rc1 hw'
      · cases worse with
        | false => exact (rc1 rfl).any
        | true => exact rc2 rfl
    obtain ⟨q1, q2⟩ := mainLoop_cert hst hx hy hnb hlenm (Nat.pos_of_ne_zero hm) he fuel worse _ s hI (fun _ => hwf) hC hmain
    obtain ⟨o1, o2⟩ := q1.orb q2
    refine ⟨_, _, rfl, rfl, ?_, ?_, ?_, ?_⟩
    · intro γ hγ
      obtain ⟨t, ht, rfl⟩ := List.mem_map.1 hγ
      obtain ⟨k, hk⟩ := List.getElem?_of_mem ht
      rw [List.getElem?_take] at hk
      split at hk
      · rename_i hkn
        obtain ⟨γ', g1, g2⟩ := q1.gens k hkn
        rw [Array.getElem?_toList] at hk
        rw [g1] at hk; cases hk
        exact g2
      · cases hk
    · simp [q1.orbSz.1]
    · simpa using o1
    · intro a b hab hb hrep
      have := o2 a b hab hb (by simpa using hrep)
      apply eqvGen_of_imp _ this
      rintro x y ⟨k, γ, hk, g1, g2⟩
      refine EqvGen.rel _ _ ⟨γ.toList, ?_, g2⟩
      apply List.mem_map.2
      refine ⟨γ, ?_, rfl⟩
      apply List.mem_of_getElem? (i := k)
      rw [List.getElem?_take, if_pos hk, Array.getElem?_toList]; exact g1


end CanonF
