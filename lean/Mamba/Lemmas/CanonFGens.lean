import Mamba.Lemmas.CanonFOrbit
import Mamba.Lemmas.CanonFAut
import Mamba.Lemmas.CanonFMain
import Mamba.Lemmas.CanonFCertDeage
import Mamba.Lemmas.CanonFCertSplit
import Mamba.Lemmas.CanonFCertRefine
import Mamba.Lemmas.CanonFCertExpand
import Mamba.Lemmas.CanonFCount
/-!
# Certificates of leaves, generators and orbits in the main loop of `CanonicalIsomorphAllocated`
(faithful model `Model/CanonF.lean`)

* `sameCert_step`: a leaf whose certificate equals that of a reference leaf (`currentBest` or `firstLeaf`) yields the
  automorphism "vertex at position `p` of the reference leaf ↦ vertex at position `p` of this leaf"; the union–find is
  merged along it and it is recorded as a generator iff something was merged.
* `GInv`: `currentBest`/`firstLeaf` are full certificates `certPos nb o n` of leaves `o` whose inverse permutations are
  `currentBestPermInv`/`firstLeafPermInv`; every recorded generator is an automorphism; two vertices with the same
  representative in `firstLeafOrbits` are connected by recorded generators.
-/
namespace CanonF
open Relation

/-- `pinv` is the inverse of the vertex order `o` (`pinv[o[i]] = i`) -/
def InvOf (o : List Nat) (pinv : Sl Nat) : Prop := ∀ i x : Nat, o[i]? = some x → pinv.toList[x]? = some i

/-- the relation `x ↦ γ x` for the first `ngens` recorded generators -/
def GenRelA (gens : Array (Sl Nat)) (ngens : Nat) (x y : Nat) : Prop :=
  ∃ k γ, k < ngens ∧ gens[k]? = some γ ∧ γ.toList[x]? = some y

theorem eqvGen_of_imp {α : Type} {R S : α → α → Prop} (h : ∀ x y, R x y → EqvGen S x y) {a b : α}
    (hab : EqvGen R a b) : EqvGen S a b := by
  induction hab with
  | rel x y hxy => exact h x y hxy
  | refl x => exact EqvGen.refl x
  | symm x y _ ih => exact EqvGen.symm _ _ ih
  | trans x y z _ _ ih1 ih2 => exact EqvGen.trans _ _ _ ih1 ih2

/-- one "equal certificate" event of the leaf branch: the orbit partition is merged along `σ = transport o1 order`
(vertex at position `p` of the reference leaf ↦ vertex at position `p` of this leaf), and `σ` is recorded iff something
was merged. All recorded generators are automorphisms and the orbit partition only joins what they connect. -/
theorem sameCert_step {n : Nat} {nb : Nbrs} (hnb : NbOK nb n) {order pinv : Sl Nat} {o1 : List Nat}
    {ds ds' : Disjoint.DS} {gens gens' : Array (Sl Nat)} {ngens ngens' : Nat} {merges : Bool}
    (ho1 : o1.Perm (List.range n)) (hord : order.toList.Perm (List.range n)) (hlen : order.len = n)
    (hinvof : InvOf o1 pinv) (hcert : certPos nb o1 n = certPos nb order.toList n)
    (hds : Disjoint.Inv ds) (hsz : ds.size = n)
    (hgens : ∀ k, k < ngens → ∃ γ, gens[k]? = some γ ∧ IsAutL nb n γ.toList)
    (horb : ∀ a b, a < n → b < n → Disjoint.rep ds a = Disjoint.rep ds b → EqvGen (GenRelA gens ngens) a b)
    (hloop : forRange (orbitStep order pinv) n 0 (ds, false) = .ok (ds', merges))
    (hrec : (if merges = true then recordGenerator n order pinv gens ngens else Outcome.ok (gens, ngens)) = .ok (gens', ngens')) :
    Disjoint.Inv ds' ∧ ds'.size = n ∧
      (∀ k, k < ngens' → ∃ γ, gens'[k]? = some γ ∧ IsAutL nb n γ.toList) ∧
      (∀ a b, a < n → b < n → Disjoint.rep ds' a = Disjoint.rep ds' b → EqvGen (GenRelA gens' ngens') a b) := by
  obtain ⟨i1, i2, i3, i4, i5, i6⟩ := orbitLoop_spec hds hsz hloop
  by_cases hm : merges = true
  · rw [if_pos hm] at hrec
    obtain ⟨r1, r2, r3, r4, tmp, t1, t2, t3, t4, t5⟩ := recordGenerator_spec hlen hrec
    subst r1
    -- the recorded slice is the transport
    have htmp : tmp.toList = transport n o1 order.toList := by
      rw [← transport_eq (o2 := order.toList) (pinv := pinv.toList) ho1 hinvof]
      apply List.ext_getElem?
      intro i
      by_cases hi : i < n
      · obtain ⟨p, v, hp, hv, hv'⟩ := t5 i hi
        rw [hv', List.getElem?_map, List.getElem?_range hi]
        simp only [Option.map_some]
        have hp' := Sl.get_eq_toList.1 hp
        have hvv := Sl.get_eq_toList.1 hv
        simp only [List.getD_eq_getElem?_getD, hp', Option.getD_some, hvv]
      · rw [List.getElem?_eq_none (by omega), List.getElem?_eq_none (by simp; omega)]
    have haut : IsAutL nb n tmp.toList := by rw [htmp]; exact aut_of_cert hnb ho1 hord hcert
    refine ⟨i1, i2, ?_, ?_⟩
    · intro k hk
      by_cases hkn : k = ngens
      · subst hkn; exact ⟨tmp, t1, haut⟩
      · obtain ⟨γ, g1, g2⟩ := hgens k (by omega)
        exact ⟨γ, by rw [r4 k hkn]; exact g1, g2⟩
    · intro a b ha hb hab
      apply eqvGen_of_imp _ (i5 a b ha hb hab)
      rintro x y ⟨hx, hy, hxy | ⟨p, hp, hv⟩⟩
      · apply eqvGen_of_imp _ (horb x y hx hy hxy)
        rintro u w ⟨k, γ, hk, g1, g2⟩
        exact EqvGen.rel _ _ ⟨k, γ, by omega, by rw [r4 k (by omega)]; exact g1, g2⟩
      · obtain ⟨p', v', hp', hv', hvt⟩ := t5 x hx
        rw [hp] at hp'; cases hp'
        rw [hv] at hv'; cases hv'
        exact EqvGen.rel _ _ ⟨ngens, tmp, by omega, t1, hvt⟩
  · rw [if_neg hm] at hrec
    cases hrec
    have hm' : merges = false := by simpa using hm
    refine ⟨i1, i2, hgens, ?_⟩
    intro a b ha hb hab
    rw [i6 hm' a ha, i6 hm' b hb] at hab
    exact horb a b ha hb hab


theorem compare_eq_zero : ∀ (a b : List Nat), compare a b = 0 ↔ a = b := by
  intro a
  induction a with
  | nil => intro b; cases b <;> simp [compare]
  | cons x xs ih =>
    intro b
    cases b with
    | nil => simp [compare]
    | cons y ys =>
      simp only [compare]
      by_cases h1 : x > y
      · simp [h1]; omega
      · by_cases h2 : x < y
        · simp [h1, h2]; omega
        · have : x = y := by omega
          subst this
          simp [ih ys]

/-- the part of the main-loop invariant that concerns certificates of leaves, generators and orbits -/
structure GInv (n m : Nat) (nb : Nbrs) (s : LS) : Prop where
  best : 0 < s.count →
    s.currentBest.toList = certPos nb s.bestPerm.toList n ∧ InvOf s.bestPerm.toList s.bestPermInv
  flLen : s.firstLeaf.len = m ∧ s.firstLeaf.WF
  first : 0 < s.count → ∃ o1, o1.Perm (List.range n) ∧ s.firstLeaf.toList = certPos nb o1 n ∧ InvOf o1 s.flPermInv
  gens : ∀ k, k < s.ngens → ∃ γ, s.gens[k]? = some γ ∧ IsAutL nb n γ.toList
  orb : 0 < s.count → Disjoint.Inv s.flOrbits ∧
    ∀ a b, a < n → b < n → Disjoint.rep s.flOrbits a = Disjoint.rep s.flOrbits b →
      Relation.EqvGen (GenRelA s.gens s.ngens) a b
  orbSz : s.flOrbits.size = n ∧ s.bestOrbits.size = n
  pinv : s.flPermInv.len = n ∧ s.flPermInv.WF
  bpinv : s.bestPermInv.len = n ∧ s.bestPermInv.WF


theorem copyFrom_data_full {α : Type} (a : Array α) (src : List α) (h : src.length = a.size) :
    (Sl.copyFrom ⟨a, a.size⟩ src).data = src.toArray := by
  have hw : (⟨a, a.size⟩ : Sl α).WF := Nat.le_refl _
  have := Sl.copyFrom_toList ⟨a, a.size⟩ hw src h
  apply Array.ext'
  simp only [Sl.toList, Sl.copyFrom_len] at this
  rw [List.take_of_length_le (by simp [Sl.copyFrom])] at this
  simpa using this

/-- GInv does not depend on the partition, the stacks, the scratch space -/
theorem GInv.congr {n m : Nat} {nb : Nbrs} {s s2 : LS} (h : GInv n m nb s)
    (e1 : s2.currentBest = s.currentBest) (e2 : s2.bestPerm = s.bestPerm) (e3 : s2.bestPermInv = s.bestPermInv)
    (e4 : s2.firstLeaf = s.firstLeaf) (e5 : s2.flPermInv = s.flPermInv) (e6 : s2.gens = s.gens)
    (e7 : s2.ngens = s.ngens) (e8 : s2.flOrbits = s.flOrbits) (e9 : s2.bestOrbits = s.bestOrbits)
    (e10 : s2.count = s.count) : GInv n m nb s2 := by
  constructor
  · rw [e10, e1, e2, e3]; exact h.best
  · rw [e4]; exact h.flLen
  · rw [e10, e4, e5]; exact h.first
  · rw [e7, e6]; exact h.gens
  · rw [e10, e8, e6, e7]; exact h.orb
  · rw [e8, e9]; exact h.orbSz
  · rw [e5]; exact h.pinv
  · rw [e3]; exact h.bpinv


theorem link_size {ds d' : Disjoint.DS} {a b : Nat} (h : Disjoint.link ds a b = .ok d') : d'.size = ds.size := by
  unfold Disjoint.link at h
  osplit h <;> (cases h; simp)

theorem union_size {ds d' : Disjoint.DS} {x y : Nat} (h : Disjoint.union ds x y = .ok d') : d'.size = ds.size := by
  unfold Disjoint.union at h
  cases h1 : Disjoint.find ds x with
  | ok r1 =>
    obtain ⟨d1, px⟩ := r1
    rw [h1] at h; simp only at h
    cases h2 : Disjoint.find d1 y with
    | ok r2 =>
      obtain ⟨d2, py⟩ := r2
      rw [h2] at h; simp only at h
      rw [link_size h, find_size h2, find_size h1]
    | panic => rw [h2] at h; cases h
    | outOfFuel => rw [h2] at h; cases h
  | panic => rw [h1] at h; cases h
  | outOfFuel => rw [h1] at h; cases h

theorem orbitStep_size {order permInv : Sl Nat} {i : Nat} {st st' : Disjoint.DS × Bool}
    (h : orbitStep order permInv i st = .ok st') : st'.1.size = st.1.size := by
  obtain ⟨ds, mm⟩ := st
  unfold orbitStep at h
  simp only at h
  cases hp : permInv.get i with
  | ok p =>
    rw [hp] at h; simp only at h
    cases ho : order.get p with
    | ok tmp =>
      rw [ho] at h; simp only at h
      cases h1 : Disjoint.find ds tmp with
      | ok r1 =>
        obtain ⟨d1, q1⟩ := r1
        rw [h1] at h; simp only at h
        cases h2 : Disjoint.find d1 i with
        | ok r2 =>
          obtain ⟨d2, q2⟩ := r2
          rw [h2] at h; simp only at h
          split at h
          · cases h3 : Disjoint.union d2 i tmp with
            | ok d3 =>
              rw [h3] at h; cases h
              show d3.size = ds.size
              rw [union_size h3, find_size h2, find_size h1]
            | panic => rw [h3] at h; cases h
            | outOfFuel => rw [h3] at h; cases h
          · cases h
            show d2.size = ds.size
            rw [find_size h2, find_size h1]
        | panic => rw [h2] at h; cases h
        | outOfFuel => rw [h2] at h; cases h
      | panic => rw [h1] at h; cases h
      | outOfFuel => rw [h1] at h; cases h
    | panic => rw [ho] at h; cases h
    | outOfFuel => rw [ho] at h; cases h
  | panic => rw [hp] at h; cases h
  | outOfFuel => rw [hp] at h; cases h

theorem orbitLoop_size {order permInv : Sl Nat} {n : Nat} {ds ds' : Disjoint.DS} {mm mm' : Bool}
    (h : forRange (orbitStep order permInv) n 0 (ds, mm) = .ok (ds', mm')) : ds'.size = ds.size := by
  have := forRange_inv (orbitStep order permInv) (fun _ (st : Disjoint.DS × Bool) => st.1.size = ds.size)
    n 0 (ds, mm) (ds', mm') rfl (fun i st st' _ _ hst hs => by rw [orbitStep_size hs]; exact hst) h
  exact this

set_option maxHeartbeats 1000000 in
/-- the leaf branch keeps `GInv` and leaves the certificate state clean-or-stale-N (`VN`) -/
theorem leafNode_cert {n m : Nat} {nb : Nbrs} (hnb : NbOK nb n)
    (hlenm : ∀ o : List Nat, o.Perm (List.range n) → (certPos nb o n).length = m)
    {s s' : LS} {lv : List (Nat × Nat)}
    (hq : StepQ n nb s.currentBest s.firstLeaf (VAny nb s.currentBest s.firstLeaf) (VN nb s.currentBest s.firstLeaf)
      (VN nb s.currentBest s.firstLeaf))
    (hc : Core n s) (hl : LevelsOK s.op s.path s.choices lv) (hage : s.op.age = s.path.length)
    (hg : GInv n m nb s)
    (hvc : VClean nb s.op) (hspl : s.op.spl = n)
    (h : leafNode n m s = .ok s') :
    GInv n m nb s' ∧ VN nb s'.currentBest s'.firstLeaf s'.op := by
  -- the certificate of this leaf
  have hval : s.op.value.toList = certPos nb s.op.order.toList n := by rw [← hspl]; exact hvc.val
  have hvlen : s.op.value.toList.length = m := by rw [hval]; exact hlenm _ hc.part.perm
  have holen : s.op.order.toList.length = n := by rw [Sl.length_toList _ hc.part.wfOrder, hc.part.lenOrder]
  unfold leafNode at h
  dsimp only at h
  by_cases hc1 : (compare s.op.value.toList s.currentBest.toList == 1 || s.count + 1 == 1) = true
  · rw [if_pos hc1] at h
    cases hrs : s.currentBest.reslice m with
    | panic => rw [hrs] at h; cases h
    | outOfFuel => rw [hrs] at h; cases h
    | ok cb =>
      rw [hrs] at h
      simp only at h
      obtain ⟨cbl, cbd, cbw⟩ := Sl.reslice_len hrs
      split at h
      · rename_i bestPermInv' bestOrbits' hloop
        obtain ⟨r1, r2, r3, r4, r5, _⟩ := resetLoop_spec hc.part.perm hc.part.wfOrder hc.part.lenOrder hg.orbSz.2 hloop
        have hcbT : (cb.copyFrom s.op.value.toList).toList = s.op.value.toList :=
          Sl.copyFrom_toList cb cbw _ (by rw [hvlen, cbl])
        have hbpT : (s.bestPerm.copyFrom s.op.order.toList).toList = s.op.order.toList :=
          Sl.copyFrom_toList _ hc.bestWf _ (by rw [holen, hc.bestLen])
        have hbpiW : bestPermInv'.WF := by
          have := hg.bpinv.2; unfold Sl.WF at this ⊢; omega
        have hbpiL : bestPermInv'.len = n := by rw [r1]; exact hg.bpinv.1
        by_cases hcnt : s.count + 1 = 1
        · rw [if_pos hcnt] at h
          cases h
          have hflT : (s.firstLeaf.copyFrom s.op.value.toList).toList = s.op.value.toList :=
            Sl.copyFrom_toList _ hg.flLen.2 _ (by rw [hvlen, hg.flLen.1])
          have hfpT : (s.flPermInv.copyFrom bestPermInv'.toList).toList = bestPermInv'.toList :=
            Sl.copyFrom_toList _ hg.pinv.2 _ (by rw [Sl.length_toList _ hbpiW, hbpiL, hg.pinv.1])
          have hforb : (Sl.copyFrom ⟨s.flOrbits, s.flOrbits.size⟩ bestOrbits'.toList).data = Disjoint.new n := by
            rw [copyFrom_data_full _ _ (by rw [r4]; simp [Disjoint.new, hg.orbSz.1]), r4]
          refine ⟨?_, hvc⟩
          constructor
          · intro _; exact ⟨by rw [hcbT, hbpT]; exact hval, by rw [hbpT]; exact r3⟩
          · exact ⟨by rw [Sl.copyFrom_len]; exact hg.flLen.1, Sl.copyFrom_wf hg.flLen.2 _⟩
          · intro _
            exact ⟨s.op.order.toList, hc.part.perm, by rw [hflT]; exact hval, by
              intro i x hx; show (s.flPermInv.copyFrom bestPermInv'.toList).toList[x]? = some i
              rw [hfpT]; exact r3 i x hx⟩
          · exact hg.gens
          · intro _
            show Disjoint.Inv (Sl.copyFrom ⟨s.flOrbits, s.flOrbits.size⟩ bestOrbits'.toList).data ∧ _
            rw [hforb]
            refine ⟨Disjoint.inv_new' n, ?_⟩
            intro a b ha hb hab
            rw [Disjoint.rep_new n a ha, Disjoint.rep_new n b hb] at hab
            subst hab; exact EqvGen.refl _
          · refine ⟨?_, ?_⟩
            · show (Sl.copyFrom ⟨s.flOrbits, s.flOrbits.size⟩ bestOrbits'.toList).data.size = n
              rw [hforb]; exact Disjoint.size_new n
            · show bestOrbits'.size = n; rw [r4]; exact Disjoint.size_new n
          · exact ⟨by rw [Sl.copyFrom_len]; exact hg.pinv.1, Sl.copyFrom_wf hg.pinv.2 _⟩
          · exact ⟨hbpiL, hbpiW⟩
        · rw [if_neg hcnt] at h
          cases h
          have hpos : 0 < s.count := by omega
          refine ⟨?_, hvc⟩
          constructor
          · intro _; exact ⟨by rw [hcbT, hbpT]; exact hval, by rw [hbpT]; exact r3⟩
          · exact hg.flLen
          · intro _; exact hg.first hpos
          · exact hg.gens
          · intro _; exact hg.orb hpos
          · exact ⟨hg.orbSz.1, by show bestOrbits'.size = n; rw [r4]; exact Disjoint.size_new n⟩
          · exact hg.pinv
          · exact ⟨hbpiL, hbpiW⟩
      · cases h
      · cases h
  · have hc1' : (compare s.op.value.toList s.currentBest.toList == 1 || s.count + 1 == 1) = false := by
      simpa using hc1
    have hpos : 0 < s.count := by
      simp only [Bool.or_eq_false_iff, beq_eq_false_iff_ne, ne_eq] at hc1'
      omega
    have hpos' : 0 < s.count + 1 → 0 < s.count := fun _ => hpos
    rw [if_neg hc1] at h
    by_cases hc0 : (compare s.op.value.toList s.currentBest.toList == 0) = true
    · rw [if_pos hc0] at h
      have heq : s.op.value.toList = s.currentBest.toList := (compare_eq_zero _ _).1 (by simpa using hc0)
      obtain ⟨b1, b2⟩ := hg.best hpos
      have hbperm := hc.bestPerm hpos
      split at h
      · rename_i bestOrbits' mm1 hloop1
        split at h
        · rename_i flOrbits' merges hloop2
          split at h
          · rename_i gens' ngens' hrec
            have j2 : bestOrbits'.size = n := by rw [orbitLoop_size hloop1]; exact hg.orbSz.2
            obtain ⟨o1f, o2f⟩ := hg.orb hpos
            obtain ⟨k1, k2, k3, k4⟩ := sameCert_step hnb hbperm hc.part.perm hc.part.lenOrder b2
              (by rw [← b1, ← heq, hval]) o1f hg.orbSz.1 hg.gens o2f hloop2 hrec
            obtain ⟨lv', c1, c2, c3, c4, c5⟩ := backJump_spec hq (n := n) (lv := lv)
              (by exact Core.congr hc rfl rfl rfl hpos') (by exact hl) (by exact hage) (by exact hvc) h
            refine ⟨?_, by rw [c4]; exact c5⟩
            refine GInv.congr (s := { s with count := s.count + 1, bestOrbits := bestOrbits', flOrbits := flOrbits', gens := gens', ngens := ngens' })
              ?_ (by rw [c4]) (by rw [c4]) (by rw [c4]) (by rw [c4]) (by rw [c4])
              (by rw [c4]) (by rw [c4]) (by rw [c4]) (by rw [c4]) (by rw [c4])
            constructor
            · intro _; exact hg.best hpos
            · exact hg.flLen
            · intro _; exact hg.first hpos
            · exact k3
            · intro _; exact ⟨k1, k4⟩
            · exact ⟨k2, j2⟩
            · exact hg.pinv
            · exact hg.bpinv
          · cases h
          · cases h
        · cases h
        · cases h
      · cases h
      · cases h
    · rw [if_neg hc0] at h
      by_cases hcf : (compare s.op.value.toList s.firstLeaf.toList == 0) = true
      · rw [if_pos hcf] at h
        have heq : s.op.value.toList = s.firstLeaf.toList := (compare_eq_zero _ _).1 (by simpa using hcf)
        obtain ⟨o1, p1, p2, p3⟩ := hg.first hpos
        split at h
        · rename_i flOrbits' merges hloop2
          split at h
          · rename_i gens' ngens' hrec
            obtain ⟨o1f, o2f⟩ := hg.orb hpos
            obtain ⟨k1, k2, k3, k4⟩ := sameCert_step hnb p1 hc.part.perm hc.part.lenOrder p3
              (by rw [← p2, ← heq, hval]) o1f hg.orbSz.1 hg.gens o2f hloop2 hrec
            obtain ⟨lv', c1, c2, c3, c4, c5⟩ := backJump_spec hq (n := n) (lv := lv)
              (by exact Core.congr hc rfl rfl rfl hpos') (by exact hl) (by exact hage) (by exact hvc) h
            refine ⟨?_, by rw [c4]; exact c5⟩
            refine GInv.congr (s := { s with count := s.count + 1, flOrbits := flOrbits', gens := gens', ngens := ngens' })
              ?_ (by rw [c4]) (by rw [c4]) (by rw [c4]) (by rw [c4]) (by rw [c4])
              (by rw [c4]) (by rw [c4]) (by rw [c4]) (by rw [c4]) (by rw [c4])
            constructor
            · intro _; exact hg.best hpos
            · exact hg.flLen
            · intro _; exact hg.first hpos
            · exact k3
            · intro _; exact ⟨k1, k4⟩
            · exact ⟨k2, hg.orbSz.2⟩
            · exact hg.pinv
            · exact hg.bpinv
          · cases h
          · cases h
        · cases h
        · cases h
      · rw [if_neg hcf] at h
        cases h
        refine ⟨?_, hvc⟩
        constructor
        · intro _; exact hg.best hpos
        · exact hg.flLen
        · intro _; exact hg.first hpos
        · exact hg.gens
        · intro _; exact hg.orb hpos
        · exact hg.orbSz
        · exact hg.pinv
        · exact hg.bpinv

/-- the certificate closure properties of the stepping loops -/
theorem certStepQ (hx : ExpandCert) (n : Nat) (nb : Nbrs) (cb fl : Sl Nat) :
    StepQ n nb cb fl (VAny nb cb fl) (VN nb cb fl) (VN nb cb fl) where
  na := fun _ h => h.any
  sa := fun _ h => h.any
  deage := fun _ _ hp ha hage hv hd => deage_cert hp ha hage hv hd
  split := fun _ _ _ _ hp ha hi hns _ hv hs => splitBin_cert hx hp ha hi hns hv hs

/-- at a leaf (all bins singletons) the whole order is the prefix -/
theorem leaf_clean {n : Nat} {nb : Nbrs} {cb fl : Sl Nat} {op : OP} (hp : PartInv n op) (hleaf : op.binDividers.len = n)
    (hv : VN nb cb fl op) : VClean nb op ∧ op.spl = n := by
  have hsing := leaf_dividers hp hleaf
  have hc : VClean nb op := hv
  refine ⟨hc, ?_⟩
  have := hc.pre.le
  rcases Nat.lt_or_ge op.spl n with hlt | hge
  · exact absurd (hsing _ hlt) hc.pre.next
  · omega

/-- the certificate part of the main-loop invariant -/
structure CInv (n m : Nat) (nb : Nbrs) (s : LS) (worse : Bool) : Prop where
  g : GInv n m nb s
  vn : worse = false → VN nb s.currentBest s.firstLeaf s.op
  va : VAny nb s.currentBest s.firstLeaf s.op

theorem GInv.of_stepFrame {n m : Nat} {nb : Nbrs} {s s' : LS} (h : GInv n m nb s) (f : StepFrame s s')
    (hsz : s'.bestOrbits.size = s.bestOrbits.size) : GInv n m nb s' := by
  unfold StepFrame at f
  constructor
  · rw [f]; exact h.best
  · rw [f]; exact h.flLen
  · rw [f]; exact h.first
  · rw [f]; exact h.gens
  · rw [f]; exact h.orb
  · exact ⟨by rw [f]; exact h.orbSz.1, by rw [hsz]; exact h.orbSz.2⟩
  · rw [f]; exact h.pinv
  · rw [f]; exact h.bpinv


/-! ## an additional invariant of `order` (the vertex classes) through the main loop -/

/-- closure properties of an additional invariant of the partition through the whole search: `QA` holds at all times,
`QN` at a node (after a refinement that has not reported "worse", after a `deage`), `QS` after a `splitBin` (the state
handed to the refinement; also the initial partition). `PL` is what `QN` says about the order of a leaf, `R` what follows
for the map between two such leaves. -/
structure OrdQ (n : Nat) (nb : Nbrs) (QA QN QS : OP → Prop) (PL R : List Nat → Prop) : Prop where
  na : ∀ op, QN op → QA op
  sa : ∀ op, QS op → QA op
  frame : ∀ op op' : OP, op'.order = op.order → op'.binDividers = op.binDividers → op'.binAges = op.binAges →
    op'.binsToCheck = op.binsToCheck → op'.age = op.age → op'.inCell = op.inCell → QN op → QN op'
  deage : ∀ op op', PartInv n op → AgeInv op → 0 < op.age → QA op → deage op = .ok op' → QN op'
  split : ∀ (cb fl : Sl Nat) op op' i w, PartInv n op → AgeInv op → i < n → NonSingleton op.binDividers.toList i →
    (∀ t, t < binStartOf op.binDividers.toList i → t + 1 ∈ op.binDividers.toList) →
    QN op → splitBin nb cb fl op i = .ok (w, op') → (w = false → QS op') ∧ (w = true → QA op')
  refine : ∀ (cb fl : Sl Nat) (opts : Options) op op' sc sc' w, PartInv n op → AgeInv op → ScratchOK n sc →
    sc.timesSeen.len = n → QS op →
    refine nb cb fl opts op sc = .ok (w, op', sc') → (w = false → QN op') ∧ (w = true → QA op')
  leaf : ∀ op : OP, PartInv n op → AgeInv op → QN op → op.binDividers.len = n → PL op.order.toList
  rel : ∀ o1 o2 : List Nat, o1.Perm (List.range n) → o2.Perm (List.range n) → PL o1 → PL o2 → R (transport n o1 o2)

theorem OrdQ.stepQ {n : Nat} {nb : Nbrs} {QA QN QS : OP → Prop} {PL R : List Nat → Prop} (h : OrdQ n nb QA QN QS PL R)
    (cb fl : Sl Nat) : StepQ n nb cb fl QA QN QS where
  na := h.na
  sa := h.sa
  deage := fun op op' hp ha hage hq hd => h.deage op op' hp ha hage hq hd
  split := fun op op' i w hp ha hi hns hf hq hs => h.split cb fl op op' i w hp ha hi hns hf hq hs

/-- an invariant that does not distinguish the three kinds of states -/
theorem OrdQ.ofSimple {n : Nat} {nb : Nbrs} {PO : OP → Prop} {PL R : List Nat → Prop}
    (hframe : ∀ op op' : OP, op'.order = op.order → op'.binDividers = op.binDividers → op'.binAges = op.binAges →
      PO op → PO op')
    (hdeage : ∀ op op', PartInv n op → AgeInv op → 0 < op.age → PO op → CanonF.deage op = .ok op' → PO op')
    (hsplit : ∀ (cb fl : Sl Nat) op op' i w, PartInv n op → AgeInv op → i < n → NonSingleton op.binDividers.toList i →
      PO op → splitBin nb cb fl op i = .ok (w, op') → PO op')
    (hrefine : ∀ (cb fl : Sl Nat) (opts : Options) op op' sc sc' w, PartInv n op → AgeInv op → ScratchOK n sc → PO op →
      CanonF.refine nb cb fl opts op sc = .ok (w, op', sc') → PO op')
    (hleaf : ∀ op : OP, PO op → PL op.order.toList)
    (hrel : ∀ o1 o2 : List Nat, o1.Perm (List.range n) → o2.Perm (List.range n) → PL o1 → PL o2 →
      R (transport n o1 o2)) :
    OrdQ n nb PO PO PO PL R where
  na := fun _ h => h
  sa := fun _ h => h
  frame := fun op op' e1 e2 e3 _ _ _ h => hframe op op' e1 e2 e3 h
  deage := hdeage
  split := fun cb fl op op' i w hp ha hi hns _ h hs =>
    ⟨fun _ => hsplit cb fl op op' i w hp ha hi hns h hs, fun _ => hsplit cb fl op op' i w hp ha hi hns h hs⟩
  refine := fun cb fl opts op op' sc sc' w hp ha hsc _ h hr =>
    ⟨fun _ => hrefine cb fl opts op op' sc sc' w hp ha hsc h hr, fun _ => hrefine cb fl opts op op' sc sc' w hp ha hsc h hr⟩
  leaf := fun op _ _ h _ => hleaf op h
  rel := hrel

/-- the reference leaves satisfy `PL`, the recorded generators satisfy `R` -/
structure KInv (PL R : List Nat → Prop) (n : Nat) (s : LS) : Prop where
  best : 0 < s.count → PL s.bestPerm.toList
  first : 0 < s.count → ∃ o1, o1.Perm (List.range n) ∧ PL o1 ∧ InvOf o1 s.flPermInv
  gens : ∀ k, k < s.ngens → ∃ γ, s.gens[k]? = some γ ∧ R γ.toList

theorem KInv.congr {PL R : List Nat → Prop} {n : Nat} {s s2 : LS} (h : KInv PL R n s)
    (e2 : s2.bestPerm = s.bestPerm) (e5 : s2.flPermInv = s.flPermInv) (e6 : s2.gens = s.gens)
    (e7 : s2.ngens = s.ngens) (e10 : s2.count = s.count) : KInv PL R n s2 := by
  constructor
  · rw [e10, e2]; exact h.best
  · rw [e10, e5]; exact h.first
  · rw [e7, e6]; exact h.gens

theorem KInv.of_stepFrame {PL R : List Nat → Prop} {n : Nat} {s s' : LS} (h : KInv PL R n s) (f : StepFrame s s') :
    KInv PL R n s' := by
  unfold StepFrame at f
  constructor
  · rw [f]; exact h.best
  · rw [f]; exact h.first
  · rw [f]; exact h.gens

/-- the generator recorded at an "equal certificate" event is the transport between the two leaves -/
theorem sameCert_cls {n : Nat} {R : List Nat → Prop} {order pinv : Sl Nat} {o1 : List Nat}
    {gens gens' : Array (Sl Nat)} {ngens ngens' : Nat} {merges : Bool}
    (ho1 : o1.Perm (List.range n)) (hlen : order.len = n) (hinvof : InvOf o1 pinv)
    (hR : R (transport n o1 order.toList))
    (hgens : ∀ k, k < ngens → ∃ γ, gens[k]? = some γ ∧ R γ.toList)
    (hrec : (if merges = true then recordGenerator n order pinv gens ngens else Outcome.ok (gens, ngens)) = .ok (gens', ngens')) :
    ∀ k, k < ngens' → ∃ γ, gens'[k]? = some γ ∧ R γ.toList := by
  by_cases hm : merges = true
  · rw [if_pos hm] at hrec
    obtain ⟨r1, r2, r3, r4, tmp, t1, t2, t3, t4, t5⟩ := recordGenerator_spec hlen hrec
    subst r1
    have htmp : tmp.toList = transport n o1 order.toList := by
      rw [← transport_eq (o2 := order.toList) (pinv := pinv.toList) ho1 hinvof]
      apply List.ext_getElem?
      intro i
      by_cases hi : i < n
      · obtain ⟨p, v, hp, hv, hv'⟩ := t5 i hi
        rw [hv', List.getElem?_map, List.getElem?_range hi]
        simp only [Option.map_some]
        have hp' := Sl.get_eq_toList.1 hp
        have hvv := Sl.get_eq_toList.1 hv
        simp only [List.getD_eq_getElem?_getD, hp', Option.getD_some, hvv]
      · rw [List.getElem?_eq_none (by omega), List.getElem?_eq_none (by simp; omega)]
    intro k hk
    by_cases hkn : k = ngens
    · subst hkn; exact ⟨tmp, t1, by rw [htmp]; exact hR⟩
    · obtain ⟨γ, g1, g2⟩ := hgens k (by omega)
      exact ⟨γ, by rw [r4 k hkn]; exact g1, g2⟩
  · rw [if_neg hm] at hrec
    cases hrec
    exact hgens

set_option maxHeartbeats 1000000 in
/-- the leaf branch keeps `KInv` and the invariant of `order` -/
theorem leafNode_cls {n m : Nat} {nb : Nbrs} {QA QN QS : OP → Prop} {PL R : List Nat → Prop}
    (hO : OrdQ n nb QA QN QS PL R)
    {s s' : LS} {lv : List (Nat × Nat)}
    (hc : Core n s) (hl : LevelsOK s.op s.path s.choices lv) (hage : s.op.age = s.path.length)
    (hg : GInv n m nb s) (hk : KInv PL R n s) (hpo : QN s.op) (hleaf : s.op.binDividers.len = n)
    (h : leafNode n m s = .ok s') :
    KInv PL R n s' ∧ QN s'.op := by
  have hpl : PL s.op.order.toList := hO.leaf _ hc.part hc.age hpo hleaf
  have holen : s.op.order.toList.length = n := by rw [Sl.length_toList _ hc.part.wfOrder, hc.part.lenOrder]
  unfold leafNode at h
  dsimp only at h
  by_cases hc1 : (compare s.op.value.toList s.currentBest.toList == 1 || s.count + 1 == 1) = true
  · rw [if_pos hc1] at h
    cases hrs : s.currentBest.reslice m with
    | panic => rw [hrs] at h; cases h
    | outOfFuel => rw [hrs] at h; cases h
    | ok cb =>
      rw [hrs] at h
      simp only at h
      split at h
      · rename_i bestPermInv' bestOrbits' hloop
        obtain ⟨r1, r2, r3, r4, r5, _⟩ := resetLoop_spec hc.part.perm hc.part.wfOrder hc.part.lenOrder hg.orbSz.2 hloop
        have hbpT : (s.bestPerm.copyFrom s.op.order.toList).toList = s.op.order.toList :=
          Sl.copyFrom_toList _ hc.bestWf _ (by rw [holen, hc.bestLen])
        have hbpiW : bestPermInv'.WF := by
          have := hg.bpinv.2; unfold Sl.WF at this ⊢; omega
        have hbpiL : bestPermInv'.len = n := by rw [r1]; exact hg.bpinv.1
        by_cases hcnt : s.count + 1 = 1
        · rw [if_pos hcnt] at h
          cases h
          have hfpT : (s.flPermInv.copyFrom bestPermInv'.toList).toList = bestPermInv'.toList :=
            Sl.copyFrom_toList _ hg.pinv.2 _ (by rw [Sl.length_toList _ hbpiW, hbpiL, hg.pinv.1])
          refine ⟨⟨fun _ => ?_, fun _ => ?_, hk.gens⟩, hpo⟩
          · show PL (s.bestPerm.copyFrom s.op.order.toList).toList
            rw [hbpT]; exact hpl
          · exact ⟨s.op.order.toList, hc.part.perm, hpl, by
              intro i x hx; show (s.flPermInv.copyFrom bestPermInv'.toList).toList[x]? = some i
              rw [hfpT]; exact r3 i x hx⟩
        · rw [if_neg hcnt] at h
          cases h
          have hpos : 0 < s.count := by omega
          refine ⟨⟨fun _ => ?_, fun _ => hk.first hpos, hk.gens⟩, hpo⟩
          show PL (s.bestPerm.copyFrom s.op.order.toList).toList
          rw [hbpT]; exact hpl
      · cases h
      · cases h
  · have hc1' : (compare s.op.value.toList s.currentBest.toList == 1 || s.count + 1 == 1) = false := by
      simpa using hc1
    have hpos : 0 < s.count := by
      simp only [Bool.or_eq_false_iff, beq_eq_false_iff_ne, ne_eq] at hc1'
      omega
    have hpos' : 0 < s.count + 1 → 0 < s.count := fun _ => hpos
    rw [if_neg hc1] at h
    by_cases hc0 : (compare s.op.value.toList s.currentBest.toList == 0) = true
    · rw [if_pos hc0] at h
      obtain ⟨_, b2⟩ := hg.best hpos
      have hbperm := hc.bestPerm hpos
      split at h
      · rename_i bestOrbits' mm1 hloop1
        split at h
        · rename_i flOrbits' merges hloop2
          split at h
          · rename_i gens' ngens' hrec
            have k3 := sameCert_cls (R := R) hbperm hc.part.lenOrder b2
              (hO.rel _ _ hbperm hc.part.perm (hk.best hpos) hpl) hk.gens hrec
            obtain ⟨lv', c1, c2, c3, c4, c5⟩ := backJump_spec (hO.stepQ s.currentBest s.firstLeaf) (n := n) (lv := lv)
              (by exact Core.congr hc rfl rfl rfl hpos') (by exact hl) (by exact hage) (by exact hpo) h
            refine ⟨?_, c5⟩
            refine KInv.congr (s := { s with count := s.count + 1, bestOrbits := bestOrbits', flOrbits := flOrbits', gens := gens', ngens := ngens' })
              ?_ (by rw [c4]) (by rw [c4]) (by rw [c4]) (by rw [c4]) (by rw [c4])
            exact ⟨fun _ => hk.best hpos, fun _ => hk.first hpos, k3⟩
          · cases h
          · cases h
        · cases h
        · cases h
      · cases h
      · cases h
    · rw [if_neg hc0] at h
      by_cases hcf : (compare s.op.value.toList s.firstLeaf.toList == 0) = true
      · rw [if_pos hcf] at h
        obtain ⟨o1, p1, p2, p3⟩ := hk.first hpos
        split at h
        · rename_i flOrbits' merges hloop2
          split at h
          · rename_i gens' ngens' hrec
            have k3 := sameCert_cls (R := R) p1 hc.part.lenOrder p3
              (hO.rel _ _ p1 hc.part.perm p2 hpl) hk.gens hrec
            obtain ⟨lv', c1, c2, c3, c4, c5⟩ := backJump_spec (hO.stepQ s.currentBest s.firstLeaf) (n := n) (lv := lv)
              (by exact Core.congr hc rfl rfl rfl hpos') (by exact hl) (by exact hage) (by exact hpo) h
            refine ⟨?_, c5⟩
            refine KInv.congr (s := { s with count := s.count + 1, flOrbits := flOrbits', gens := gens', ngens := ngens' })
              ?_ (by rw [c4]) (by rw [c4]) (by rw [c4]) (by rw [c4]) (by rw [c4])
            exact ⟨fun _ => hk.best hpos, fun _ => hk.first hpos, k3⟩
          · cases h
          · cases h
        · cases h
        · cases h
      · rw [if_neg hcf] at h
        cases h
        exact ⟨⟨fun _ => hk.best hpos, fun _ => hk.first hpos, hk.gens⟩, hpo⟩

set_option maxHeartbeats 1000000 in
theorem mainLoop_cert (hst : StablePerm) (hx : ExpandCert) {n m : Nat} {nb : Nbrs}
    {QA QN QS : OP → Prop} {PL R : List Nat → Prop} (hO : OrdQ n nb QA QN QS PL R)
    (hnb : NbOK nb n) (hlenm : ∀ o : List Nat, o.Perm (List.range n) → (certPos nb o n).length = m) :
    ∀ (fuel : Nat) (worse : Bool) (s s' : LS), MInv n m nb s → (s.count = 0 → worse = false) → CInv n m nb s worse →
      KInv PL R n s → ((worse = false → QN s.op) ∧ QA s.op) →
      mainLoop nb n m fuel worse s = .ok s' → GInv n m nb s' ∧ 0 < s'.count ∧ KInv PL R n s' := by
  intro fuel
  induction fuel with
  | zero => intro worse s s' _ _ _ _ _ h; simp [mainLoop] at h
  | succ f ih =>
    intro worse s s' hI hw hC hK hP h
    rw [mainLoop] at h
    obtain ⟨lv, hlv⟩ := hI.lev
    have hnode := node_step hI hw hlv
    cases hs1 : (if (!worse && s.op.binDividers.len == n) = true then leafNode n m s
        else if (!worse) = true then innerNode s else Outcome.ok s) with
    | panic => rw [hs1] at h; cases h
    | outOfFuel => rw [hs1] at h; cases h
    | ok s1 =>
      rw [hs1] at h
      simp only at h
      obtain ⟨lv1, c1, l1, g1, esc, f1, p1⟩ := hnode s1 hs1
      -- certificate facts after the node step
      have hcert1 : GInv n m nb s1 ∧ VAny nb s1.currentBest s1.firstLeaf s1.op ∧
          (s1.skipDeage = true → VN nb s1.currentBest s1.firstLeaf s1.op) ∧
          (worse = false → VN nb s1.currentBest s1.firstLeaf s1.op) := by
        by_cases hleaf : (!worse && s.op.binDividers.len == n) = true
        · rw [if_pos hleaf] at hs1
          simp only [Bool.and_eq_true, Bool.not_eq_true', beq_iff_eq] at hleaf
          obtain ⟨hvc, hspl⟩ := leaf_clean hI.core.part hleaf.2 (hC.vn hleaf.1)
          obtain ⟨q1, q2⟩ := leafNode_cert hnb hlenm (certStepQ hx n nb s.currentBest s.firstLeaf)
            hI.core hlv hI.age hC.g hvc hspl hs1
          exact ⟨q1, q2.any, fun _ => q2, fun _ => q2⟩
        · rw [if_neg hleaf] at hs1
          by_cases hnw : (!worse) = true
          · rw [if_pos hnw] at hs1
            have hwf : worse = false := by simpa using hnw
            unfold innerNode at hs1
            have hvn := hC.vn hwf
            split at hs1
            · cases hs1
              exact ⟨hC.g.congr rfl rfl rfl rfl rfl rfl rfl rfl rfl rfl, hvn.any, fun _ => hvn, fun _ => hvn⟩
            · cases hs1
              exact ⟨hC.g, hvn.any, fun _ => hvn, fun _ => hvn⟩
            · cases hs1
            · cases hs1
          · rw [if_neg hnw] at hs1
            cases hs1
            have hwt : worse = true := by simpa using hnw
            exact ⟨hC.g, hC.va, fun hsk => (by rw [hI.skip] at hsk; cases hsk), fun hwf => (by rw [hwt] at hwf; cases hwf)⟩
      obtain ⟨gg1, va1, vs1, _⟩ := hcert1
      have hcls1 : KInv PL R n s1 ∧ QA s1.op ∧ (s1.skipDeage = true → QN s1.op) := by
        by_cases hleaf : (!worse && s.op.binDividers.len == n) = true
        · rw [if_pos hleaf] at hs1
          simp only [Bool.and_eq_true, Bool.not_eq_true', beq_iff_eq] at hleaf
          obtain ⟨q1, q2⟩ := leafNode_cls hO hI.core hlv hI.age hC.g hK (hP.1 hleaf.1) hleaf.2 hs1
          exact ⟨q1, hO.na _ q2, fun _ => q2⟩
        · rw [if_neg hleaf] at hs1
          by_cases hnw : (!worse) = true
          · rw [if_pos hnw] at hs1
            have hwf : worse = false := by simpa using hnw
            have hqn := hP.1 hwf
            unfold innerNode at hs1
            split at hs1
            · cases hs1
              exact ⟨⟨hK.best, hK.first, hK.gens⟩, hO.na _ hqn, fun _ => hqn⟩
            · cases hs1
              exact ⟨hK, hO.na _ hqn, fun _ => hqn⟩
            · cases hs1
            · cases hs1
          · rw [if_neg hnw] at hs1
            cases hs1
            exact ⟨hK, hP.2, fun hsk => (by rw [hI.skip] at hsk; cases hsk)⟩
      cases hst2 : stepLoop nb s1.path.length s1 with
      | panic => rw [hst2] at h; cases h
      | outOfFuel => rw [hst2] at h; cases h
      | ok r =>
        obtain ⟨b, s2⟩ := r
        rw [hst2] at h
        obtain ⟨lv2, c2, fr2, l2, g2, t2, e2, n2, a2, z2⟩ := stepLoop_spec (certStepQ hx n nb s1.currentBest s1.firstLeaf)
          _ s1 lv1 b s2 c1 l1 g1 rfl rfl va1 vs1 hst2
        have hcnt : s2.count = s1.count := by rw [fr2]
        have hcb : s2.currentBest = s1.currentBest := by rw [fr2]
        have hfl : s2.firstLeaf = s1.firstLeaf := by rw [fr2]
        have hsc : s2.sc = s1.sc := by rw [fr2]
        have gg2 : GInv n m nb s2 := gg1.of_stepFrame fr2 z2
        have kk2 : KInv PL R n s2 := hcls1.1.of_stepFrame fr2
        obtain ⟨_, _, _, _, _, _, _, ps2, _, _⟩ := stepLoop_spec (hO.stepQ s1.currentBest s1.firstLeaf)
          _ s1 lv1 b s2 c1 l1 g1 rfl rfl hcls1.2.1 hcls1.2.2 hst2
        cases b with
        | false =>
          simp only at h
          cases h
          have hpos : 0 < s1.count := by
            rcases Nat.eq_zero_or_pos s1.count with h0 | h0
            · have := (p1 h0).2 false s' hst2; cases this
            · exact h0
          exact ⟨gg2, by omega, kk2⟩
        | true =>
          simp only at h
          cases hr : refine nb s2.currentBest s2.firstLeaf {} s2.op s2.sc with
          | panic => rw [hr] at h; cases h
          | outOfFuel => rw [hr] at h; cases h
          | ok r3 =>
            obtain ⟨worse', op', sc'⟩ := r3
            rw [hr] at h
            simp only at h
            have hskip : s2.skipDeage = false := t2 rfl
            have hage2 : s2.op.age = s2.path.length := by
              rw [hskip] at g2; simpa using g2
            obtain ⟨r1, r2, r3, r4, _, _, _, z1, z2, z3, _⟩ := refine_inv hst c2.part c2.age c2.scr hr
            have htc : n ≤ s2.sc.timesSeen.data.size := by rw [hsc, esc]; exact hI.tsCap
            have hvn2 : VN nb s2.currentBest s2.firstLeaf s2.op := by rw [hcb, hfl]; exact n2 rfl
            obtain ⟨rc1, rc2⟩ := refine_cert hst hx c2.part c2.age c2.scr hvn2 hr
            refine ih worse' _ s' ?_ ?_ ?_ (by exact ⟨kk2.best, kk2.first, kk2.gens⟩)
              (by
                obtain ⟨x1, x2⟩ := hO.refine _ _ _ _ _ _ _ _ c2.part c2.age c2.scr
                  (by rw [hsc, esc]; exact hI.tsLen) (ps2 rfl) hr
                refine ⟨x1, ?_⟩
                cases worse' with
                | false => exact hO.na _ (x1 rfl)
                | true => exact x2 rfl) h
            · constructor
              · constructor
                · exact r1
                · exact r2
                · exact scratch_rewrap c2.scr htc z1 z2 z3
                · exact c2.bestWf
                · exact c2.bestLen
                · exact c2.bestPerm
              · exact ⟨lv2, LevelsOK_frame (fun a ha => oldDivs_of_lt r4 a ha) _ _ _
                  (by show ((s2.path.length : Nat) : Int) ≤ s2.op.age; omega) l2⟩
              · show op'.age = _; rw [r3]; exact hage2
              · exact hskip
              · show n ≤ sc'.timesSeen.data.size; omega
              · rfl
              · intro h0
                have h0' : s1.count = 0 := by
                  have : s2.count = 0 := h0
                  omega
                show s2.currentBest.len = 0
                rw [hcb]; exact (p1 h0').1
              · intro hpos
                have : 0 < s1.count := by
                  have : 0 < s2.count := hpos
                  omega
                show s2.currentBest.len = m
                rw [hcb]; exact f1 this
            · intro h0
              have h0' : s1.count = 0 := by
                have : s2.count = 0 := h0
                omega
              have hcb0 : s2.currentBest.len = 0 := by rw [hcb]; exact (p1 h0').1
              exact refine_not_worse hcb0 rfl hr
            · constructor
              · exact gg2.congr rfl rfl rfl rfl rfl rfl rfl rfl rfl rfl
              · intro hw'; exact rc1 hw'
              · cases worse' with
                | false => exact (rc1 rfl).any
                | true => exact rc2 rfl



theorem dsSlice_spec {a : Array Int} {n : Nat} {ds rest : Array Int} (h : dsSlice a n = .ok (ds, rest)) :
    ds.size = n := by
  unfold dsSlice at h
  split at h
  · cases h; simp; omega
  · cases h

set_option maxHeartbeats 1000000 in
/-- generators and orbits returned by `CanonicalIsomorphAllocated` (general path, no viability check) -/
theorem allocated_cert (hst : StablePerm) (hx : ExpandCert) {fuel n m : Nat} {nb : Nbrs}
    {QA QN QS : OP → Prop} {PL R : List Nat → Prop} (hO : OrdQ n nb QA QN QS PL R)
    {op0 : OP} {st : Storage} {opts : Options} {r : Res} {opR : Option OP} {stR : Storage}
    (hn : n ≠ 0) (hgen : m = 0 → op0.binDividers.len ≠ 1) (hv : opts.checkViability = false)
    (hp : PartInv n op0) (ha : AgeInv op0) (hage : op0.age = 0) (hspl : op0.spl = 0)
    (hval : op0.value.len = 0) (hpo : QS op0)
    (hnb : NbOK nb n) (hlenm : ∀ o : List Nat, o.Perm (List.range n) → (certPos nb o n).length = m)
    (h : canonicalIsomorphAllocated fuel n m nb (some op0) st opts = .ok (r, opR, stR)) :
    ∃ gs ds, r.gens = some gs ∧ r.orbits = some ds ∧ (∀ γ ∈ gs, IsAutL nb n γ ∧ R γ) ∧ ds.length = n ∧
      Disjoint.Inv ds.toArray ∧ (∃ p, r.perm = some p ∧ PL p) ∧
      ∀ a b, a < n → b < n → Disjoint.rep ds.toArray a = Disjoint.rep ds.toArray b →
        EqvGen (fun x y => ∃ γ ∈ gs, γ[x]? = some y) a b := by
  unfold canonicalIsomorphAllocated at h
  rw [if_neg hn] at h
  have hshort : (if m = 0 then (match (some op0 : Option OP) with
      | none => Outcome.panic
      | some o => Outcome.ok (o.binDividers.len == 1)) else Outcome.ok false) = Outcome.ok false := by
    by_cases hm : m = 0
    · rw [if_pos hm]; simp [hgen hm]
    · rw [if_neg hm]
  simp only [hshort] at h
  osplit h
  · rename_i hvw
    simp [hv] at hvw
  · rename_i _ _ _ _ bestPath bestPerm bestPermInv bestOrbits bestRest _ hbpm hbpi hbo _ _ _ _ firstLeaf flPermInv flOrbits flRest flPath hfl hfpi hfo _ _ _ _ space dws nbs _ _ _ _ _ _ timesSeen maxCell numberOfMax hts hmc hnm _ worse op1 sc1 href hvw _ w2 op2 hexp _ s hmain
    cases h
    obtain ⟨w1, l1, d1⟩ := slOf_spec hts
    obtain ⟨w2', l2, d2⟩ := slOf_spec hmc
    obtain ⟨w3, l3, d3⟩ := slOf_spec hnm
    obtain ⟨w4, l4, d4⟩ := slOf_spec hbpm
    obtain ⟨w5, l5, _⟩ := slOf_spec hbpi
    obtain ⟨w6, l6, _⟩ := slOf_spec hfl
    obtain ⟨w7, l7, _⟩ := slOf_spec hfpi
    have hsc : ScratchOK n (Scratch.mk dws nbs space timesSeen maxCell numberOfMax) := ⟨w1, w2', w3, l2, l3⟩
    obtain ⟨r1, r2, r3, r4, _, _, _, z1, z2, z3, _⟩ := refine_inv hst hp ha hsc href
    have z1' : sc1.timesSeen.data.size = timesSeen.data.size := z1
    have hwf := refine_not_worse (cb := ⟨st.currentBest, 0⟩) rfl hv href
    have htc : n ≤ timesSeen.data.size := by have := w1; unfold Sl.WF at this; omega
    -- the certificate state after the initial refinement and the initial `expandValue`
    obtain ⟨i1, i2, i3⟩ := refine_cert_init hst hx hp ha hsc hspl hval (cb := ⟨st.currentBest, 0⟩) (fl := firstLeaf)
      (nb := nb) rfl href
    have hw2 : w2 = false := by
      unfold expandValue at hexp
      exact expandLoop_not_worse (cb := ⟨st.currentBest, 0⟩) rfl _ _ _ _ _ hexp
    have hvc2 : VClean nb op2 := (hx n nb ⟨st.currentBest, 0⟩ firstLeaf op1 op2 w2 r1 i1 i2 i3 hexp).1 hw2
    obtain ⟨f1, f2, f3, f4, f5, f6⟩ := expandValue_frame hexp
    have hI : MInv n m nb
        { op := op2,
          sc := { dws := ⟨sc1.dws.data, n⟩, nbs := ⟨sc1.nbs.data, n⟩, space := ⟨sc1.space.data, n⟩,
                  timesSeen := ⟨sc1.timesSeen.data, n⟩, maxCell := ⟨sc1.maxCell.data, n⟩,
                  numberOfMax := ⟨sc1.numberOfMax.data, n⟩ },
          count := 0, ngens := 0, gens := st.generators, currentBest := ⟨st.currentBest, 0⟩,
          bestPath := bestPath, bestPerm := bestPerm, bestPermInv := bestPermInv, bestOrbits := bestOrbits,
          firstLeaf := firstLeaf, flPermInv := flPermInv, flOrbits := flOrbits, flPath := flPath,
          path := [], choices := [], skipDeage := false } := by
      constructor
      · constructor
        · exact PartInv.of_frame r1 f1 f2 f3 f6
        · exact AgeInv.of_frame r2 f3 f5
        · exact scratch_rewrap hsc htc z1 z2 z3
        · exact w4
        · exact l4
        · intro hc; exact absurd hc (Nat.lt_irrefl 0)
      · exact ⟨[], by simp [LevelsOK]⟩
      · show op2.age = _; rw [f5, r3, hage]; rfl
      · rfl
      · show n ≤ sc1.timesSeen.data.size; omega
      · rfl
      · intro _; rfl
      · intro hc; exact absurd hc (Nat.lt_irrefl 0)
    have hC : CInv n m nb
        { op := op2,
          sc := { dws := ⟨sc1.dws.data, n⟩, nbs := ⟨sc1.nbs.data, n⟩, space := ⟨sc1.space.data, n⟩,
                  timesSeen := ⟨sc1.timesSeen.data, n⟩, maxCell := ⟨sc1.maxCell.data, n⟩,
                  numberOfMax := ⟨sc1.numberOfMax.data, n⟩ },
          count := 0, ngens := 0, gens := st.generators, currentBest := ⟨st.currentBest, 0⟩,
          bestPath := bestPath, bestPerm := bestPerm, bestPermInv := bestPermInv, bestOrbits := bestOrbits,
          firstLeaf := firstLeaf, flPermInv := flPermInv, flOrbits := flOrbits, flPath := flPath,
          path := [], choices := [], skipDeage := false } worse := by
      constructor
      · constructor
        · intro hc; exact absurd hc (Nat.lt_irrefl 0)
        · exact ⟨l6, w6⟩
        · intro hc; exact absurd hc (Nat.lt_irrefl 0)
        · intro k hk; exact absurd hk (Nat.not_lt_zero _)
        · intro hc; exact absurd hc (Nat.lt_irrefl 0)
        · exact ⟨dsSlice_spec hfo, dsSlice_spec hbo⟩
        · exact ⟨l7, w7⟩
        · exact ⟨l5, w5⟩
      · intro _; exact hvc2
      · exact Or.inl hvc2
    have hpo2 : QN op2 := hO.frame _ _ f1 f2 f3 f4 f5 f6 ((hO.refine _ _ _ _ _ _ _ _ hp ha hsc l1 hpo href).1 hwf)
    obtain ⟨q1, q2, q3⟩ := mainLoop_cert hst hx hO hnb hlenm fuel worse _ s hI (fun _ => hwf) hC
      ⟨fun hc => absurd hc (Nat.lt_irrefl 0), fun hc => absurd hc (Nat.lt_irrefl 0),
        fun k hk => absurd hk (Nat.not_lt_zero _)⟩ ⟨fun _ => hpo2, hO.na _ hpo2⟩ hmain
    obtain ⟨o1, o2⟩ := q1.orb q2
    refine ⟨_, _, rfl, rfl, ?_, ?_, ?_, ⟨_, rfl, q3.best q2⟩, ?_⟩
    · intro γ hγ
      obtain ⟨t, ht, rfl⟩ := List.mem_map.1 hγ
      obtain ⟨k, hk⟩ := List.getElem?_of_mem ht
      rw [List.getElem?_take] at hk
      split at hk
      · rename_i hkn
        obtain ⟨γ', g1, g2⟩ := q1.gens k hkn
        obtain ⟨γ'', g1', g2'⟩ := q3.gens k hkn
        rw [Array.getElem?_toList] at hk
        rw [g1] at g1'; cases g1'
        rw [g1] at hk; cases hk
        exact ⟨g2, g2'⟩
      · cases hk
    · simp [q1.orbSz.1]
    · simpa using o1
    · intro a b hab hb hrep
      have := o2 a b hab hb (by simpa using hrep)
      apply eqvGen_of_imp _ this
      rintro x y ⟨k, γ, hk, g1, g2⟩
      refine EqvGen.rel _ _ ⟨γ.toList, ?_, g2⟩
      apply List.mem_map.2
      refine ⟨γ, ?_, rfl⟩
      apply List.mem_of_getElem? (i := k)
      rw [List.getElem?_take, if_pos hk, Array.getElem?_toList]; exact g1


end CanonF
