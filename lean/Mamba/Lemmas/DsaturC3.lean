import Mamba.Lemmas.DsaturC2
/-! DSATUR model: the backtracking step keeps the search-completeness invariant; exhaustion means nothing is left. -/
namespace CliqueColour
open GraphSpec

/-- the test `currentChoice[j] < len(choices[j])-1 && choices[j][currentChoice[j]+1]+1 < upperBound` -/
def advCond (s : Dsat) (j : Nat) : Prop :=
  s.cur.getD j 0 + 1 < (s.choices.getD j []).length ∧
    (((s.choices.getD j []).getD (s.cur.getD j 0 + 1) 0 : Nat) : Int) + 1 < s.upper

theorem findAdvance_spec (s : Dsat) : ∀ (k : Nat),
    (∀ i, findAdvance s k = some i → i < k ∧ advCond s i ∧ ∀ j, i < j → j < k → ¬ advCond s j) ∧
    (findAdvance s k = none → ∀ j, j < k → ¬ advCond s j) := by
  intro k
  induction k with
  | zero => exact ⟨fun i h => by simp [findAdvance] at h, fun _ j hj => by omega⟩
  | succ k ih =>
    simp only [findAdvance]
    by_cases hc : advCond s k
    · have hb : (decide (s.cur.getD k 0 + 1 < (s.choices.getD k []).length) &&
          decide ((((s.choices.getD k []).getD (s.cur.getD k 0 + 1) 0 : Nat) : Int) + 1 < s.upper)) = true := by
        simp only [Bool.and_eq_true, decide_eq_true_eq]; exact hc
      rw [if_pos hb]
      refine ⟨fun i hi => ?_, fun hn => by cases hn⟩
      have : k = i := by simpa using hi
      subst this
      exact ⟨by omega, hc, fun j h1 h2 => by omega⟩
    · have hb : ¬ ((decide (s.cur.getD k 0 + 1 < (s.choices.getD k []).length) &&
          decide ((((s.choices.getD k []).getD (s.cur.getD k 0 + 1) 0 : Nat) : Int) + 1 < s.upper)) = true) := by
        simp only [Bool.and_eq_true, decide_eq_true_eq]; exact hc
      rw [if_neg hb]
      refine ⟨fun i hi => ?_, fun hn j hj => ?_⟩
      · obtain ⟨h1, h2, h3⟩ := ih.1 i hi
        refine ⟨by omega, h2, fun j hj1 hj2 => ?_⟩
        by_cases hjk : j = k
        · subst hjk; exact hc
        · exact h3 j hj1 (by omega)
      · by_cases hjk : j = k
        · subst hjk; exact hc
        · exact ih.2 hn j (by omega)

/-- the cut position computed by `mustChange` -/
theorem mustChange_spec {g : G} {U0 : Nat} {s : Dsat} (h : DSInv g U0 s) :
    ∃ K, (mustChange s + 1).toNat = K ∧ K ≤ s.chosen.length ∧
      (∀ j, j < K → colOf s (s.chosen.getD j 0) + 2 ≤ s.upper) ∧
      (K < s.chosen.length → s.upper - 1 ≤ colOf s (s.chosen.getD K 0)) := by
  unfold mustChange
  simp only
  generalize hK : s.chosen.findIdx (fun cv => decide (s.colouring.getD cv 0 ≥ s.upper - 1)) = K
  have hbefore : ∀ j, j < K → colOf s (s.chosen.getD j 0) + 2 ≤ s.upper := by
    intro j hj
    have hle := List.findIdx_le_length (p := fun cv => decide (s.colouring.getD cv 0 ≥ s.upper - 1)) (xs := s.chosen)
    rw [hK] at hle
    have hjl : j < s.chosen.length := by omega
    have := List.not_of_lt_findIdx (p := fun cv => decide (s.colouring.getD cv 0 ≥ s.upper - 1)) (xs := s.chosen)
      (i := j) (by rw [hK]; exact hj)
    have h2 : ¬ (s.colouring.getD s.chosen[j] 0 ≥ s.upper - 1) := by
      exact of_decide_eq_false this
    rw [getD_eq_getElem hjl]
    unfold colOf
    omega
  by_cases hlt : K < s.chosen.length
  · rw [if_pos hlt]
    refine ⟨K, by omega, by omega, hbefore, fun _ => ?_⟩
    have := List.findIdx_getElem (w := by rw [hK]; exact hlt)
      (p := fun cv => decide (s.colouring.getD cv 0 ≥ s.upper - 1)) (xs := s.chosen)
    simp only [hK, decide_eq_true_eq] at this
    rw [getD_eq_getElem hlt]
    unfold colOf
    omega
  · rw [if_neg hlt]
    have hle := List.findIdx_le_length (p := fun cv => decide (s.colouring.getD cv 0 ≥ s.upper - 1)) (xs := s.chosen)
    rw [hK] at hle
    have hKe : K = s.chosen.length := by omega
    refine ⟨s.chosen.length, by rw [h.lcur]; omega, Nat.le_refl _, ?_, fun hh => by omega⟩
    rw [← hKe]; exact hbefore

theorem sorted_getD_lt {l : List Nat} (hs : l.Pairwise (· < ·)) {a b : Nat} (hab : a < b) (hb : b < l.length) :
    l.getD a 0 < l.getD b 0 := by
  rw [getD_eq_getElem (by omega), getD_eq_getElem hb]
  exact (List.pairwise_iff_getElem.1 hs) a b (by omega) hb hab

/-- a pending alternative at a position where the advance test fails is dead -/
theorem dead_pending_cond {g : G} {U0 : Nat} {s : Dsat} (h : DSInv g U0 s) {u : Int} (hu : u ≤ s.upper)
    {f : Nat → Nat} (hf : Good g u f) {j t : Nat} (hj : j < s.chosen.length) (hcur : s.cur.getD j 0 < t)
    (ht : t < (s.choices.getD j []).length) (hfe : f (s.chosen.getD j 0) = (s.choices.getD j []).getD t 0)
    (hnc : ¬ advCond s j) : False := by
  have h2 := hf.2 _ (h.chlt _ (getD_mem' hj))
  have hle : (s.choices.getD j []).getD (s.cur.getD j 0 + 1) 0 ≤ (s.choices.getD j []).getD t 0 := by
    by_cases he : s.cur.getD j 0 + 1 = t
    · rw [he]
    · exact Nat.le_of_lt (sorted_getD_lt (h.optS j hj) (by omega) ht)
  unfold advCond at hnc
  rw [hfe] at h2
  have : s.cur.getD j 0 + 1 < (s.choices.getD j []).length := by omega
  have h3 : ¬ ((((s.choices.getD j []).getD (s.cur.getD j 0 + 1) 0 : Nat) : Int) + 1 < s.upper) :=
    fun hh => hnc ⟨this, hh⟩
  omega

/-- a pending alternative at or above the cut position is dead -/
theorem dead_pending_cut {g : G} {U0 : Nat} {s : Dsat} (h : DSInv g U0 s) {u : Int} (hu : u ≤ s.upper)
    {f : Nat → Nat} (hf : Good g u f) {K : Nat} (hK : K < s.chosen.length)
    (hKc : s.upper - 1 ≤ colOf s (s.chosen.getD K 0)) {j t : Nat} (hj : j < s.chosen.length) (hKj : K ≤ j)
    (hcur : s.cur.getD j 0 < t) (ht : t < (s.choices.getD j []).length)
    (he : Ext s (s.chosen.take j) f) (hfe : f (s.chosen.getD j 0) = (s.choices.getD j []).getD t 0) : False := by
  by_cases hKj' : K = j
  · subst hKj'
    have h2 := hf.2 _ (h.chlt _ (getD_mem' hj))
    rw [hfe] at h2
    have hlt := sorted_getD_lt (h.optS K hj) hcur ht
    rw [(h.colch K hj).2] at hKc
    omega
  · have hmem : s.chosen.getD K 0 ∈ s.chosen.take j := (mem_take_iff_getD (by omega)).2 ⟨K, by omega, rfl⟩
    have h1 := he _ hmem
    have h2 := hf.2 _ (h.chlt _ (getD_mem' hK))
    omega

end CliqueColour
