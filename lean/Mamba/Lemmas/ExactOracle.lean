import Mamba.Lemmas.ExactMain
import Mamba.Lemmas.DisjointRun
/-! The specification of the canonical-labelling oracle that the exactness theorem is relative to (the statements of
properties C01 and C02, phrased for the `Search` model's oracle). -/
namespace Search
open GraphSpec GSearch

/-- `σ` is an automorphism of `g` -/
def IsAut (g : DG) (σ : Nat → Nat) : Prop :=
  IsBij g.nv σ ∧ ∀ u v, u < g.nv → v < g.nv → g.toG.adj u v = g.toG.adj (σ u) (σ v)

/-- `σ` is (on `0..nv-1`) a product of the permutations in `gens` -/
inductive Word (nv : Nat) (gens : List (Array Nat)) : (Nat → Nat) → Prop
  | id {σ : Nat → Nat} : (∀ v, v < nv → σ v = v) → Word nv gens σ
  | mul {σ τ : Nat → Nat} {p : Array Nat} : p ∈ gens → Word nv gens τ → (∀ v, v < nv → σ v = p.getD (τ v) 0) →
      Word nv gens σ

/-- **Specification of the oracle** (`graph.CanonicalIsomorphAllocated` as called by `getAutomorphismGroup`) on the
graphs the search builds, `g.nv ≤ n`:
* `total`, `perm`: without viability check it answers, and `perm` is a permutation of the vertices;
* `canon` (C01 `canon_invariant`/`canon_complete`): the graph relabelled by `perm` depends only on the isomorphism class;
* `orbits_inv`, `orbits` (C02 `autGroup_sound`/`autGroup_complete`/`orbits_sound`): the returned union–find structure is
  well formed and its classes are exactly the orbits of `Aut(g)`;
* `gens_aut`, `gens_gen` (C02 `autGroup_sound`, `autGroup_complete` with `closure`): the generators are automorphisms and
  generate `Aut(g)`;
* `early`, `early_reject`: with the viability check the answer is either the early exit `nil` or the same answer, and
  the early exit is only taken when the scan of `perm` in `isCanonical` would reject as well. -/
structure OracleSpec (O : Oracle) (n : Nat) : Prop where
  total : ∀ {g : DG}, Built g → g.nv ≤ n → ∃ a, getAut O n g none = .ok (some a)
  perm : ∀ {g : DG} {a : Ans}, Built g → getAut O n g none = .ok (some a) → a.perm.toList.Perm (List.range g.nv)
  canon : ∀ {g h : DG} {a b : Ans}, Built g → Built h → IsoD g h → getAut O n g none = .ok (some a) →
    getAut O n h none = .ok (some b) → ∀ i j, i < g.nv → j < g.nv →
      g.toG.adj (a.perm.getD i 0) (a.perm.getD j 0) = h.toG.adj (b.perm.getD i 0) (b.perm.getD j 0)
  orbits_inv : ∀ {g : DG} {a : Ans}, Built g → getAut O n g none = .ok (some a) →
    Disjoint.Inv a.orbits ∧ a.orbits.size = g.nv
  orbits : ∀ {g : DG} {a : Ans}, Built g → getAut O n g none = .ok (some a) → ∀ u v, u < g.nv → v < g.nv →
    (Disjoint.rep a.orbits u = Disjoint.rep a.orbits v ↔ ∃ σ, IsAut g σ ∧ σ u = v)
  gens_aut : ∀ {g : DG} {a : Ans}, Built g → getAut O n g none = .ok (some a) → ∀ p ∈ a.gens,
    p.size = g.nv ∧ IsAut g (fun v => p.getD v 0)
  gens_gen : ∀ {g : DG} {a : Ans}, Built g → getAut O n g none = .ok (some a) → ∀ σ, IsAut g σ →
    Word g.nv a.gens σ
  early : ∀ {g : DG} (vb : Nat), Built g →
    getAut O n g (some vb) = .ok none ∨ getAut O n g (some vb) = getAut O n g none
  early_reject : ∀ {g : DG} {a : Ans} {vb : Nat} {ds1 ds2 : Disjoint.DS} {correct : Nat} {b : Bool}, Built g →
    getAut O n g (some vb) = .ok none → getAut O n g none = .ok (some a) →
    Disjoint.find a.orbits (g.nv - 1) = .ok (ds1, correct) →
    permScan g.nv vb correct a.perm.toList ds1 = .ok (ds2, b) → b = false

end Search
