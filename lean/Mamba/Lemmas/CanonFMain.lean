import Mamba.Lemmas.CanonFStep
import Mamba.Lemmas.CanonFRefine
import Mamba.Lemmas.CanonFReset
import Mamba.Lemmas.CanonFSort
/-!
# The main loop of `CanonicalIsomorphAllocated` and the wrappers (faithful model `Model/CanonF.lean`):
the returned slice is a permutation

`MInv` is the invariant at the head of the main `for` loop: the ordered-partition invariant, the stack invariant
`LevelsOK` of `CanonFStep.lean`, `age = len(path)`, and two phases:

* before the first leaf (`count = 0`): `currentBest` is empty, so no certificate comparison can prune
  (`refine_not_worse`, `splitBin_not_worse`): the search walks straight down to the first leaf, which is always accepted
  as the new best (`comp == 1 || count == 1`): `currentBestPerm` becomes a copy of `order`;
* afterwards (`count > 0`): `currentBest` has length `m` and `currentBestPerm` is a copy of `order` at some leaf.

`order` is a permutation at all times (`PartInv`), hence so is the returned `currentBestPerm`.
-/
namespace CanonF

theorem Core.congr {n : Nat} {s s2 : LS} (hc : Core n s) (e1 : s2.op = s.op) (e2 : s2.sc = s.sc)
    (e3 : s2.bestPerm = s.bestPerm) (e5 : 0 < s2.count → 0 < s.count) : Core n s2 := by
  constructor
  · rw [e1]; exact hc.part
  · rw [e1]; exact hc.age
  · rw [e2]; exact hc.scr
  · rw [e3]; exact hc.bestWf
  · rw [e3]; exact hc.bestLen
  · intro h; rw [e3]; exact hc.bestPerm (e5 h)


theorem splitBin_not_worse {n : Nat} {nb : Nbrs} {cb fl : Sl Nat} {op op' : OP} {i : Nat} {w : Bool}
    (hcb : cb.len = 0) (h : PartInv n op) (ha : AgeInv op) (hi : i < n) (hns : NonSingleton op.binDividers.toList i)
    (hs : splitBin nb cb fl op i = .ok (w, op')) : w = false := by
  obtain ⟨op1, _, _, _, _, _, _, _, _, _, _, _, _, hif⟩ := splitBin_decomp h ha hi hns hs
  split at hif
  · unfold expandValue at hif
    exact expandLoop_not_worse hcb _ _ _ _ _ hif
  · exact hif.1


theorem compare_nil_right (l : List Nat) : compare l [] = if l = [] then 0 else 1 := by
  cases l <;> simp [compare]

/-- what the leaf branch does to the part of the state that matters for the returned permutation -/
theorem leafNode_spec {n m : Nat} {s s' : LS} {lv : List (Nat × Nat)} (hc : Core n s)
    (hl : LevelsOK s.op s.path s.choices lv) (hage : s.op.age = s.path.length) (h : leafNode n m s = .ok s') :
    ∃ lv', Core n s' ∧ LevelsOK s'.op s'.path s'.choices lv' ∧ s'.op.age = s'.path.length ∧
      s'.skipDeage = s.skipDeage ∧ s'.count = s.count + 1 ∧ s'.sc = s.sc ∧
      ((compare s.op.value.toList s.currentBest.toList == 1 || s.count + 1 == 1) = true →
        s'.currentBest.len = m ∧ s'.op = s.op) ∧
      ((compare s.op.value.toList s.currentBest.toList == 1 || s.count + 1 == 1) = false →
        s'.currentBest = s.currentBest) := by
  unfold leafNode at h
  dsimp only at h
  by_cases hc1 : (compare s.op.value.toList s.currentBest.toList == 1 || s.count + 1 == 1) = true
  · rw [if_pos hc1] at h
    have hbest : (s.bestPerm.copyFrom s.op.order.toList).toList.Perm (List.range n) := by
      rw [Sl.copyFrom_toList _ hc.bestWf _ (by rw [Sl.length_toList _ hc.part.wfOrder, hc.part.lenOrder, hc.bestLen])]
      exact hc.part.perm
    osplit h
    all_goals
      rename_i cb hcb _ _ _ hloop _
      cases h
      have hm := (Sl.reslice_len hcb).1
      refine ⟨lv, ?_, hl, hage, rfl, rfl, rfl, fun _ => ⟨?_, rfl⟩, fun hf => (by rw [hc1] at hf; cases hf)⟩
      · constructor
        · exact hc.part
        · exact hc.age
        · exact hc.scr
        · exact Sl.copyFrom_wf hc.bestWf _
        · exact hc.bestLen
        · intro _; exact hbest
      · simp only [Sl.copyFrom_len]; exact hm
  · have hc1' : (compare s.op.value.toList s.currentBest.toList == 1 || s.count + 1 == 1) = false := by
      simpa using hc1
    have hpos : 0 < s.count + 1 → 0 < s.count := by
      intro _
      simp only [Bool.or_eq_false_iff, beq_eq_false_iff_ne, ne_eq] at hc1'
      omega
    rw [if_neg hc1] at h
    by_cases hc0 : (compare s.op.value.toList s.currentBest.toList == 0) = true
    · rw [if_pos hc0] at h
      osplit h
      all_goals
        rename_i hbj
        obtain ⟨lv', b1, b2, b3, b4, _⟩ := backJump_spec (StepQ.trivial n #[] default default) (n := n) (lv := lv) (by exact Core.congr hc rfl rfl rfl hpos) (by exact hl) (by exact hage) True.intro h
        refine ⟨lv', b1, b2, b3, ?_, ?_, ?_, fun hf => (by rw [hc1'] at hf; cases hf), fun _ => ?_⟩
        all_goals (rw [b4])
    · rw [if_neg hc0] at h
      by_cases hcf : (compare s.op.value.toList s.firstLeaf.toList == 0) = true
      · rw [if_pos hcf] at h
        osplit h
        all_goals
          obtain ⟨lv', b1, b2, b3, b4, _⟩ := backJump_spec (StepQ.trivial n #[] default default) (n := n) (lv := lv) (by exact Core.congr hc rfl rfl rfl hpos) (by exact hl) (by exact hage) True.intro h
          refine ⟨lv', b1, b2, b3, ?_, ?_, ?_, fun hf => (by rw [hc1'] at hf; cases hf), fun _ => ?_⟩
          all_goals (rw [b4])
      · rw [if_neg hcf] at h
        cases h
        exact ⟨lv, Core.congr hc rfl rfl rfl hpos, hl, hage, rfl, rfl, rfl, fun hf => (by rw [hc1'] at hf; cases hf), fun _ => rfl⟩


/-- before the first leaf (`count = 0`, `currentBest` empty) the first step into a freshly pushed level succeeds -/
theorem stepLoop_phase1 {n : Nat} {nb : Nbrs} {s : LS} {st sz k : Nat} {b : Bool} {s2 : LS}
    (hp : PartInv n s.op) (ha : AgeInv s.op)
    (hcount : s.count = 0) (hcb : s.currentBest.len = 0)
    (hd : s.op.binDividers.toList[st]? = some (st + sz)) (hsz : 2 ≤ sz)
    (hsing : ∀ t, t < st → s.op.binDividers.toList[t]? = some (t + 1))
    (h : stepLoop nb (k + 1) { s with choices := (st + sz) :: s.choices, path := sz :: s.path, skipDeage := true } = .ok (b, s2)) :
    b = true := by
  have hi : st + sz - 1 < n := by have := hp.bd_le st _ hd; omega
  have hns : NonSingleton s.op.binDividers.toList (st + sz - 1) := by
    intro hc
    obtain ⟨c1, c2⟩ := hc
    -- st + sz - 1 > st is strictly inside the cell
    have hs' : s.op.binDividers.toList.Pairwise (· < ·) := (List.pairwise_cons.1 hp.sorted).2
    rcases List.mem_cons.1 c1 with h0 | hm
    · omega
    · obtain ⟨t, ht⟩ := List.getElem?_of_mem hm
      have htl := (List.getElem?_eq_some_iff.1 ht).1
      have htv := (List.getElem?_eq_some_iff.1 ht).2
      have hil := (List.getElem?_eq_some_iff.1 hd).1
      have hiv := (List.getElem?_eq_some_iff.1 hd).2
      rcases Nat.lt_trichotomy t st with hlt | heq | hgt
      · have := hsing t hlt; rw [ht] at this; have := Option.some.inj this; omega
      · subst heq; omega
      · have := List.pairwise_iff_getElem.1 hs' st t hil htl hgt; omega
  rw [stepLoop] at h
  simp only at h
  cases sz with
  | zero => omega
  | succ j =>
    rw [jLoop] at h
    simp only [maybeDeage, Bool.not_true, Bool.false_eq_true, if_false] at h
    have hc0 : ¬ (st + (j + 1) = 0) := by omega
    simp only [hc0, if_false, hcount, Nat.lt_irrefl, gt_iff_lt, decide_false, Bool.false_and, Bool.false_eq_true] at h
    cases hg : s.op.order.get (st + (j + 1) - 1) with
    | panic => rw [hg] at h; simp at h
    | outOfFuel => rw [hg] at h; simp at h
    | ok ce =>
      rw [hg] at h
      simp only at h
      cases hsp : splitBin nb s.currentBest s.firstLeaf s.op (st + (j + 1) - 1) with
      | panic => rw [hsp] at h; simp at h
      | outOfFuel => rw [hsp] at h; simp at h
      | ok r =>
        obtain ⟨worse, op'⟩ := r
        rw [hsp] at h
        simp only at h
        have w1 := splitBin_not_worse hcb hp ha hi hns hsp
        subst w1
        simp at h
        exact h.1


/-- the neighbour lists contain an edge (given in both directions) -/
def HasEdge (nb : Nbrs) (n : Nat) : Prop :=
  ∃ u v, u < n ∧ v < n ∧ u ≠ v ∧ v ∈ nb.getD u [] ∧ u ∈ nb.getD v []

theorem sorted_getElem_gap (l : List Nat) (hs : l.Pairwise (· < ·)) :
    ∀ (d i : Nat) (hi : i + d < l.length), l[i]'(by omega) + d ≤ l[i + d] := by
  intro d
  induction d with
  | zero => intro i hi; simp
  | succ d ih =>
    intro i hi
    have h1 := ih i (by omega)
    have h2 := List.pairwise_iff_getElem.1 hs (i + d) (i + (d + 1)) (by omega) hi (by omega)
    omega

/-- at a leaf every bin is a singleton -/
theorem leaf_dividers {n : Nat} {op : OP} (hp : PartInv n op) (hleaf : op.binDividers.len = n) :
    ∀ k, k < n → op.binDividers.toList[k]? = some (k + 1) := by
  intro k hk
  have hbl : op.binDividers.toList.length = n := by rw [Sl.length_toList _ hp.wfBd, hleaf]
  have hs' : op.binDividers.toList.Pairwise (· < ·) := (List.pairwise_cons.1 hp.sorted).2
  have hkl : k < op.binDividers.toList.length := by omega
  rw [List.getElem?_eq_getElem hkl]
  congr 1
  have h1 := hp.bd_ge k _ (List.getElem?_eq_getElem hkl)
  have hlast := hp.last
  rw [List.getLast?_eq_getElem?, hbl, List.getElem?_eq_getElem (by omega)] at hlast
  have hl := Option.some.inj hlast
  have h2 := sorted_getElem_gap _ hs' (n - 1 - k) k (by omega)
  have : k + (n - 1 - k) = n - 1 := by omega
  simp only [this] at h2
  omega

theorem leaf_value_ne {n : Nat} {nb : Nbrs} {op : OP} (hp : PartInv n op) (hcl : CleanPrefix op)
    (hno : NoEarlierNbr nb op) (hleaf : op.binDividers.len = n) (he : HasEdge nb n) : op.value.toList ≠ [] := by
  intro hv
  have hsing := leaf_dividers hp hleaf
  have hspl : op.spl = n := by
    have := hcl.le
    rcases Nat.lt_or_ge op.spl n with hlt | hge
    · exact absurd (hsing _ hlt) hcl.next
    · omega
  obtain ⟨u, v, hu, hv', hne, huv, hvu⟩ := he
  have hmem : ∀ x : Nat, x < n → ∃ p : Nat, op.order.toList[p]? = some x := by
    intro x hx
    have : x ∈ op.order.toList := hp.perm.mem_iff.2 (List.mem_range.2 hx)
    exact List.getElem?_of_mem this
  obtain ⟨pu, hpu⟩ := hmem u hu
  obtain ⟨pv, hpv⟩ := hmem v hv'
  have hol : op.order.toList.length = n := by rw [Sl.length_toList _ hp.wfOrder, hp.lenOrder]
  have hpun : pu < n := by have := (List.getElem?_eq_some_iff.1 hpu).1; omega
  have hpvn : pv < n := by have := (List.getElem?_eq_some_iff.1 hpv).1; omega
  have h1 := hno hv pu u v pv (by omega) hpu huv hpv
  have h2 := hno hv pv v u pu (by omega) hpv hvu hpu
  have : pu = pv := by omega
  subst this
  rw [hpu] at hpv
  exact hne (Option.some.inj hpv)


/-- the invariant at the head of the main loop -/
structure MInv (n m : Nat) (nb : Nbrs) (s : LS) : Prop where
  core : Core n s
  lev : ∃ lv, LevelsOK s.op s.path s.choices lv
  age : s.op.age = s.path.length
  skip : s.skipDeage = false
  tsCap : n ≤ s.sc.timesSeen.data.size
  tsLen : s.sc.timesSeen.len = n
  phase1 : s.count = 0 → s.currentBest.len = 0
  found : 0 < s.count → s.currentBest.len = m

/-- re-wrapping the scratch slices with length `n` (the caller's slice headers) -/
theorem scratch_rewrap {n : Nat} {sc sc1 : Scratch} (h : ScratchOK n sc) (ht : n ≤ sc.timesSeen.data.size)
    (e1 : sc1.timesSeen.data.size = sc.timesSeen.data.size) (e2 : sc1.maxCell.data.size = sc.maxCell.data.size)
    (e3 : sc1.numberOfMax.data.size = sc.numberOfMax.data.size) :
    ScratchOK n { dws := ⟨sc1.dws.data, n⟩, nbs := ⟨sc1.nbs.data, n⟩, space := ⟨sc1.space.data, n⟩,
                  timesSeen := ⟨sc1.timesSeen.data, n⟩, maxCell := ⟨sc1.maxCell.data, n⟩,
                  numberOfMax := ⟨sc1.numberOfMax.data, n⟩ } := by
  have w1 := h.wfM; have w2 := h.wfN; have l1 := h.lenM; have l2 := h.lenN
  unfold Sl.WF at w1 w2
  constructor
  · show n ≤ sc1.timesSeen.data.size
    omega
  · show n ≤ sc1.maxCell.data.size; omega
  · show n ≤ sc1.numberOfMax.data.size; omega
  · rfl
  · rfl

/-- one node step of the main loop (leaf branch / push of a new level / nothing when `worse`) keeps the invariants -/
theorem node_step {n m : Nat} {nb : Nbrs} {worse : Bool} {s : LS} {lv : List (Nat × Nat)}
    (hI : MInv n m nb s) (hw : s.count = 0 → worse = false) (hlv : LevelsOK s.op s.path s.choices lv) :
    ∀ s1, (if (!worse && s.op.binDividers.len == n) = true then leafNode n m s
    else if (!worse) = true then innerNode s else Outcome.ok s) = .ok s1 →
    ∃ lv1, Core n s1 ∧ LevelsOK s1.op s1.path s1.choices lv1 ∧
      s1.op.age + (if s1.skipDeage then 1 else 0) = s1.path.length ∧ s1.sc = s.sc ∧
      (0 < s1.count → s1.currentBest.len = m) ∧
      (s1.count = 0 → s1.currentBest.len = 0 ∧ ∀ b s2, stepLoop nb s1.path.length s1 = .ok (b, s2) →
        b = true) := by
  intro s1 h1
  by_cases hleaf : (!worse && s.op.binDividers.len == n) = true
  · rw [if_pos hleaf] at h1
    simp only [Bool.and_eq_true, Bool.not_eq_true', beq_iff_eq] at hleaf
    obtain ⟨lv1, a1, a2, a3, a4, a5, a6, a7, a8⟩ := leafNode_spec hI.core hlv hI.age h1
    refine ⟨lv1, a1, a2, by rw [a4, hI.skip]; simpa using a3, a6, ?_, fun h0 => by omega⟩
    intro _
    by_cases hc1 : (compare s.op.value.toList s.currentBest.toList == 1 || s.count + 1 == 1) = true
    · exact (a7 hc1).1
    · have hc1' : (compare s.op.value.toList s.currentBest.toList == 1 || s.count + 1 == 1) = false := by
        simpa using hc1
      have hpos : 0 < s.count := by
        simp only [Bool.or_eq_false_iff, beq_eq_false_iff_ne, ne_eq] at hc1'
        omega
      rw [a8 hc1']; exact hI.found hpos
  · rw [if_neg hleaf] at h1
    by_cases hnw : (!worse) = true
    · rw [if_pos hnw] at h1
      have hnl : s.op.binDividers.len ≠ n := by
        intro hc; apply hleaf; simp [hnw, hc]
      obtain ⟨st, sz, e, i1, i2, i3, i4⟩ := innerNode_spec hI.core hlv hI.age hnl h1
      subst e
      refine ⟨(st, sz) :: lv, Core.of_frame hI.core (by unfold StepFrame; rfl) hI.core.part hI.core.age, i1,
        by simp only [if_true, List.length_cons]; have := hI.age; omega, rfl, hI.found, ?_⟩
      intro h0
      have h0' : s.count = 0 := h0
      have p1 := hI.phase1 h0'
      refine ⟨p1, ?_⟩
      intro b s2 hs
      simp only [List.length_cons] at hs
      exact stepLoop_phase1 hI.core.part hI.core.age h0' p1 i2 i3 i4 hs
    · rw [if_neg hnw] at h1
      cases h1
      have hwt : worse = true := by simpa using hnw
      have hpos : 0 < s.count := by
        rcases Nat.eq_zero_or_pos s.count with h0 | h0
        · have := hw h0; rw [this] at hwt; cases hwt
        · exact h0
      exact ⟨lv, hI.core, hlv, by rw [hI.skip]; simpa using hI.age, rfl, hI.found, fun h0 => by omega⟩

set_option maxHeartbeats 800000 in
theorem mainLoop_spec (hst : StablePerm) {n m : Nat} {nb : Nbrs} :
    ∀ (fuel : Nat) (worse : Bool) (s s' : LS), MInv n m nb s → (s.count = 0 → worse = false) →
      mainLoop nb n m fuel worse s = .ok s' →
      0 < s'.count ∧ Core n s' ∧ s'.currentBest.len = m := by
  intro fuel
  induction fuel with
  | zero => intro worse s s' _ _ h; simp [mainLoop] at h
  | succ f ih =>
    intro worse s s' hI hw h
    rw [mainLoop] at h
    obtain ⟨lv, hlv⟩ := hI.lev
    have hnode := node_step hI hw hlv
    cases hs1 : (if (!worse && s.op.binDividers.len == n) = true then leafNode n m s
        else if (!worse) = true then innerNode s else Outcome.ok s) with
    | panic => rw [hs1] at h; cases h
    | outOfFuel => rw [hs1] at h; cases h
    | ok s1 =>
      rw [hs1] at h
      simp only at h
      obtain ⟨lv1, c1, l1, g1, esc, f1, p1⟩ := hnode s1 hs1
      cases hst2 : stepLoop nb s1.path.length s1 with
      | panic => rw [hst2] at h; cases h
      | outOfFuel => rw [hst2] at h; cases h
      | ok r =>
        obtain ⟨b, s2⟩ := r
        rw [hst2] at h
        obtain ⟨lv2, c2, fr2, l2, g2, t2, e2, _, _⟩ := stepLoop_spec (StepQ.trivial n nb s1.currentBest s1.firstLeaf) _ s1 lv1 b s2 c1 l1 g1 rfl rfl True.intro (fun _ => True.intro) hst2
        have hcnt : s2.count = s1.count := by rw [fr2]
        have hcb : s2.currentBest = s1.currentBest := by rw [fr2]
        have hsc : s2.sc = s1.sc := by rw [fr2]
        cases b with
        | false =>
          simp only at h
          cases h
          have hpos : 0 < s1.count := by
            rcases Nat.eq_zero_or_pos s1.count with h0 | h0
            · have := (p1 h0).2 false s' hst2; cases this
            · exact h0
          exact ⟨by omega, c2, by rw [hcb]; exact f1 hpos⟩
        | true =>
          simp only at h
          cases hr : refine nb s2.currentBest s2.firstLeaf {} s2.op s2.sc with
          | panic => rw [hr] at h; cases h
          | outOfFuel => rw [hr] at h; cases h
          | ok r3 =>
            obtain ⟨worse', op', sc'⟩ := r3
            rw [hr] at h
            simp only at h
            have hskip : s2.skipDeage = false := t2 rfl
            have hage2 : s2.op.age = s2.path.length := by
              rw [hskip] at g2; simpa using g2
            obtain ⟨r1, r2, r3, r4, _, _, _, z1, z2, z3, _⟩ := refine_inv hst c2.part c2.age c2.scr hr
            have htc : n ≤ s2.sc.timesSeen.data.size := by rw [hsc, esc]; exact hI.tsCap
            refine ih worse' _ s' ?_ ?_ h
            · constructor
              · constructor
                · exact r1
                · exact r2
                · exact scratch_rewrap c2.scr htc z1 z2 z3
                · exact c2.bestWf
                · exact c2.bestLen
                · exact c2.bestPerm
              · exact ⟨lv2, LevelsOK_frame (fun a ha => oldDivs_of_lt r4 a ha) _ _ _ (by show ((s2.path.length : Nat) : Int) ≤ s2.op.age; omega) l2⟩
              · show op'.age = _; rw [r3]; exact hage2
              · exact hskip
              · show n ≤ sc'.timesSeen.data.size; omega
              · rfl
              · intro h0
                have h0' : s1.count = 0 := by
                  have : s2.count = 0 := h0
                  omega
                show s2.currentBest.len = 0
                rw [hcb]; exact (p1 h0').1
              · intro hpos
                have : 0 < s1.count := by
                  have : 0 < s2.count := hpos
                  omega
                show s2.currentBest.len = m
                rw [hcb]; exact f1 this
            · intro h0
              have h0' : s1.count = 0 := by
                have : s2.count = 0 := h0
                omega
              have hcb0 : s2.currentBest.len = 0 := by rw [hcb]; exact (p1 h0').1
              exact refine_not_worse hcb0 rfl hr


theorem slOf_spec {α : Type} {a : Array α} {k : Nat} {s : Sl α} (h : slOf a k = .ok s) :
    s.WF ∧ s.len = k ∧ s.data = a := by
  unfold slOf at h
  obtain ⟨h1, h2, h3⟩ := Sl.reslice_len h
  exact ⟨h3, h1, h2⟩

/-- the permutation returned by `CanonicalIsomorphAllocated` (case `n > 0`, `m > 0`, no viability check) -/
theorem allocated_perm (hst : StablePerm) {fuel n m : Nat} {nb : Nbrs} {op0 : OP} {st : Storage} {opts : Options}
    {r : Res} {opR : Option OP} {stR : Storage}
    (hn : n ≠ 0) (hgen : m = 0 → op0.binDividers.len ≠ 1) (hv : opts.checkViability = false)
    (hp : PartInv n op0) (ha : AgeInv op0) (hage : op0.age = 0)
    (h : canonicalIsomorphAllocated fuel n m nb (some op0) st opts = .ok (r, opR, stR)) :
    ∃ p, r.perm = some p ∧ p.Perm (List.range n) := by
  unfold canonicalIsomorphAllocated at h
  rw [if_neg hn] at h
  have hshort : (if m = 0 then (match (some op0 : Option OP) with
      | none => Outcome.panic
      | some o => Outcome.ok (o.binDividers.len == 1)) else Outcome.ok false) = Outcome.ok false := by
    by_cases hm : m = 0
    · rw [if_pos hm]; simp [hgen hm]
    · rw [if_neg hm]
  simp only [hshort] at h
  osplit h
  · rename_i hvw
    simp [hv] at hvw
  · rename_i _ _ _ _ bestPath bestPerm bestPermInv bestOrbits bestRest _ hbpm _ _ _ _ _ _ firstLeaf flPermInv flOrbits flRest flPath _ _ _ _ _ _ _ space dws nbs _ _ _ _ _ _ timesSeen maxCell numberOfMax hts hmc hnm _ worse op1 sc1 href hvw _ w2 op2 hexp _ s hmain
    cases h
    obtain ⟨w1, l1, d1⟩ := slOf_spec hts
    obtain ⟨w2', l2, d2⟩ := slOf_spec hmc
    obtain ⟨w3, l3, d3⟩ := slOf_spec hnm
    obtain ⟨w4, l4, d4⟩ := slOf_spec hbpm
    have hsc : ScratchOK n (Scratch.mk dws nbs space timesSeen maxCell numberOfMax) := ⟨w1, w2', w3, l2, l3⟩
    obtain ⟨r1, r2, r3, r4, _, _, _, z1, z2, z3, _⟩ := refine_inv hst hp ha hsc href
    have z1' : sc1.timesSeen.data.size = timesSeen.data.size := z1
    have hwf := refine_not_worse (cb := ⟨st.currentBest, 0⟩) rfl hv href
    have htc : n ≤ timesSeen.data.size := by have := w1; unfold Sl.WF at this; omega
    obtain ⟨f1, f2, f3, _, f5, f6⟩ := expandValue_frame hexp
    have hI : MInv n m nb
        { op := op2,
          sc := { dws := ⟨sc1.dws.data, n⟩, nbs := ⟨sc1.nbs.data, n⟩, space := ⟨sc1.space.data, n⟩,
                  timesSeen := ⟨sc1.timesSeen.data, n⟩, maxCell := ⟨sc1.maxCell.data, n⟩,
                  numberOfMax := ⟨sc1.numberOfMax.data, n⟩ },
          count := 0, ngens := 0, gens := st.generators, currentBest := ⟨st.currentBest, 0⟩,
          bestPath := bestPath, bestPerm := bestPerm, bestPermInv := bestPermInv, bestOrbits := bestOrbits,
          firstLeaf := firstLeaf, flPermInv := flPermInv, flOrbits := flOrbits, flPath := flPath,
          path := [], choices := [], skipDeage := false } := by
      constructor
      · constructor
        · exact PartInv.of_frame r1 f1 f2 f3 f6
        · exact AgeInv.of_frame r2 f3 f5
        · exact scratch_rewrap hsc htc z1 z2 z3
        · exact w4
        · exact l4
        · intro hc; exact absurd hc (Nat.lt_irrefl 0)
      · exact ⟨[], by simp [LevelsOK]⟩
      · show op2.age = _; rw [f5, r3, hage]; rfl
      · rfl
      · show n ≤ sc1.timesSeen.data.size; omega
      · rfl
      · intro _; rfl
      · intro hc; exact absurd hc (Nat.lt_irrefl 0)
    obtain ⟨q1, q2, q3⟩ := mainLoop_spec hst fuel worse _ s hI (fun _ => hwf) hmain
    exact ⟨_, rfl, q2.bestPerm q1⟩


/-! ## the wrappers -/

theorem nbrsOf_getD (g : GraphSpec.G) (u : Nat) :
    (nbrsOf g).getD u [] = if u < g.n then g.nbrs u else [] := by
  unfold nbrsOf
  rw [Array.getD_eq_getD_getElem?]
  simp only [List.getElem?_toArray, List.getElem?_map]
  by_cases hu : u < g.n
  · rw [if_pos hu, List.getElem?_range hu]; rfl
  · rw [if_neg hu, List.getElem?_eq_none (by simp; omega)]; rfl

theorem sum_pos_exists : ∀ (l : List Nat), 0 < l.sum → ∃ x ∈ l, 0 < x := by
  intro l
  induction l with
  | nil => intro h; simp at h
  | cons x xs ih =>
    intro h
    simp only [List.sum_cons] at h
    by_cases hx : 0 < x
    · exact ⟨x, List.mem_cons_self .., hx⟩
    · obtain ⟨y, hy, hy'⟩ := ih (by omega)
      exact ⟨y, List.mem_cons_of_mem _ hy, hy'⟩

/-- a well-formed graph with `g.M() > 0` has an edge -/
theorem hasEdge_of_wf (g : GraphSpec.G) (hg : g.WF)
    (hm : ((nbrsOf g).toList.map List.length).sum / 2 ≠ 0) : HasEdge (nbrsOf g) g.n := by
  have hpos : 0 < ((nbrsOf g).toList.map List.length).sum := by omega
  obtain ⟨x, hx, hx0⟩ := sum_pos_exists _ hpos
  obtain ⟨l, hl, rfl⟩ := List.mem_map.1 hx
  unfold nbrsOf at hl
  simp only [List.mem_map, List.mem_range] at hl
  obtain ⟨v, hv, rfl⟩ := hl
  obtain ⟨u, hu⟩ := List.exists_mem_of_length_pos hx0
  unfold GraphSpec.G.nbrs at hu
  rw [List.mem_filter, List.mem_range] at hu
  have hne : v ≠ u := by
    intro e; subst e
    have := hg.irrefl v; rw [this] at hu; exact absurd hu.2 (by simp)
  refine ⟨v, u, hv, hu.1, hne, ?_, ?_⟩
  · rw [nbrsOf_getD, if_pos hv]
    unfold GraphSpec.G.nbrs
    rw [List.mem_filter, List.mem_range]; exact hu
  · rw [nbrsOf_getD, if_pos hu.1]
    unfold GraphSpec.G.nbrs
    rw [List.mem_filter, List.mem_range]
    exact ⟨hv, by rw [hg.symm]; exact hu.2⟩

theorem identLoop_toList {n : Nat} {a : Array Nat} {p p' : Sl Nat} (h1 : slOf a n = .ok p)
    (h2 : identLoop n p = .ok p') : p'.toList = List.range n := by
  obtain ⟨w, l, _⟩ := slOf_spec h1
  obtain ⟨o', e, l', z', d'⟩ := identLoop_spec n p w (by omega)
  rw [e] at h2; cases h2
  apply List.ext_getElem?
  intro i
  rw [Sl.getElem?_toList, d', l', l]
  by_cases hi : i < n
  · simp [hi]
  · simp [hi]

theorem edgeless_perm {n : Nat} {st st' : Storage} {r : Res} (h : edgeless n st = .ok (r, st')) :
    r.perm = some (List.range n) := by
  unfold edgeless at h
  split at h
  · rename_i perm ds dsRest hperm hds
    split at h
    · rename_i perm' hid
      have key : perm'.toList = List.range n := identLoop_toList (a := st.currentBestPerm) hperm hid
      osplit h
      all_goals
        simp only [Outcome.ok.injEq, Prod.mk.injEq] at h
        rw [← h.1]
        simp only [key]
    · cases h
    · cases h
  · cases h


theorem scanl_tail_head (l : List Nat) (c : Nat) (cs : List Nat) (h : l = c :: cs) :
    ((l.scanl (· + ·) 0).tail)[0]? = some c := by
  subst h
  rw [List.scanl_cons]
  simp only [List.tail_cons, Nat.zero_add]
  cases cs <;> simp [List.scanl_cons]

/-- the `m == 0` shortcut is taken exactly when `m = 0` and there is a single bin -/
theorem allocated_shortcut {fuel n m : Nat} {nb : Nbrs} {op0 : OP} {st : Storage} {opts : Options}
    {r : Res} {opR : Option OP} {stR : Storage} (hn : n ≠ 0) (hm : m = 0) (h1 : op0.binDividers.len = 1)
    (h : canonicalIsomorphAllocated fuel n m nb (some op0) st opts = .ok (r, opR, stR)) :
    ∃ st', edgeless n st = .ok (r, st') := by
  unfold canonicalIsomorphAllocated at h
  rw [if_neg hn] at h
  simp only [hm, if_true, h1, beq_self_eq_true] at h
  cases he : edgeless n st with
  | panic => rw [he] at h; cases h
  | outOfFuel => rw [he] at h; cases h
  | ok y =>
    obtain ⟨r2, st2⟩ := y
    rw [he] at h
    simp only [Outcome.ok.injEq, Prod.mk.injEq] at h
    exact ⟨st2, by rw [h.1]⟩

/-- (a) `CanonicalIsomorphFull` returns a permutation of `0..n-1` (for every valid choice of vertex classes). -/
theorem canonF_perm_full (hst : StablePerm) (fuel : Nat) (g : GraphSpec.G) (vc : Classes)
    (hvc : ClassesOK g.n vc)
    (r : Res) (h : canonicalIsomorphFull fuel g vc = .ok r) :
    ∃ p, r.perm = some p ∧ p.Perm (List.range g.n) := by
  unfold canonicalIsomorphFull at h
  dsimp only at h
  by_cases hn : g.n = 0
  · -- the empty graph
    have hnew : newOrderedPartition g.n (((nbrsOf g).toList.map List.length).sum / 2) vc = .ok none := by
      simp [newOrderedPartition, hn]
    rw [hnew] at h
    simp only [canonicalIsomorphAllocated, hn, if_true] at h
    cases h
    exact ⟨[], rfl, by simp [hn]⟩
  · obtain ⟨op, hnew, hp, ha, hage, _⟩ :=
      newOrderedPartition_inv (m := ((nbrsOf g).toList.map List.length).sum / 2) (Nat.pos_of_ne_zero hn) hvc
    rw [hnew] at h
    simp only at h
    cases hal : canonicalIsomorphAllocated fuel g.n (((nbrsOf g).toList.map List.length).sum / 2) (nbrsOf g)
        (some op) (newStorage g.n (((nbrsOf g).toList.map List.length).sum / 2)) {} with
    | panic => rw [hal] at h; cases h
    | outOfFuel => rw [hal] at h; cases h
    | ok x =>
      obtain ⟨r', opR, stR⟩ := x
      rw [hal] at h
      simp only at h
      cases h
      by_cases hsc : ((nbrsOf g).toList.map List.length).sum / 2 = 0 ∧ op.binDividers.len = 1
      · -- the m == 0 shortcut: the identity
        obtain ⟨st', he⟩ := allocated_shortcut hn hsc.1 hsc.2 hal
        exact ⟨_, edgeless_perm he, List.Perm.refl _⟩
      · exact allocated_perm hst hn (fun hm h1 => hsc ⟨hm, h1⟩) rfl hp ha hage hal

/-- the hypothesis about the hand-written stable sort is a theorem (`CanonFSort.lean`) -/
theorem stablePerm : StablePerm := fun _ _ _ h => stable_perm h

end CanonF
