import Mamba.Lemmas.DsaturHeap
/-! The heap operations of the DSATUR model as wholes: `Init`, `Remove(h, 0)`, `Fix` after an improvement, `Push`. -/
namespace CliqueColour
open GraphSpec

/-- the heap order invariant of `container/heap` -/
def HeapOK (num : List Int) (deg : List Nat) (h : List Nat) : Prop :=
  ∀ e, 0 < e → e < h.length → EdgeOK num deg h e

theorem heapUp_perm (num : List Int) (deg : List Nat) : ∀ (fuel : Nat) (h : List Nat) (j : Nat), j < h.length →
    (heapUp num deg fuel h j).Perm h := by
  intro fuel
  induction fuel with
  | zero => intro h j _; exact List.Perm.refl _
  | succ fuel ih =>
    intro h j hj
    simp only [heapUp]
    split
    · exact List.Perm.refl _
    · have hi : (j - 1) / 2 < h.length := by omega
      exact (ih _ _ (by rw [swapAt_length]; exact hi)).trans (swapAt_perm hi hj)

theorem heapPush_perm (num : List Int) (deg : List Nat) (h : List Nat) (x : Nat) :
    (heapPush num deg h x).Perm (x :: h) := by
  unfold heapPush
  exact (heapUp_perm num deg _ (h ++ [x]) h.length (by simp)).trans (by
    simpa using (List.perm_append_comm (l₁ := h) (l₂ := [x])))

theorem getD_dropLast {l : List Nat} {k : Nat} (hk : k + 1 < l.length) : l.dropLast.getD k 0 = l.getD k 0 := by
  rw [List.dropLast_eq_take, List.getD_eq_getElem?_getD, List.getD_eq_getElem?_getD,
    List.getElem?_take_of_lt (by omega)]

theorem perm_dropLast_of_last {l t : List Nat} {x : Nat} (hne : l ≠ []) (hp : l.Perm (x :: t))
    (hlast : l.getD (l.length - 1) 0 = x) : l.dropLast.Perm t := by
  have hsplit : l = l.dropLast ++ [x] := by
    have h1 := List.dropLast_append_getLast hne
    have h2 : l.getLast hne = x := by
      rw [← hlast, List.getLast_eq_getElem, getD_eq_getElem]
    rw [h2] at h1
    exact h1.symm
  rw [hsplit] at hp
  have : (x :: l.dropLast).Perm (x :: t) := (List.perm_append_comm (l₁ := [x]) (l₂ := l.dropLast)).trans (by simpa using hp)
  exact List.Perm.cons_inv this

theorem heapDown_perm (num : List Int) (deg : List Nat) (m : Nat) : ∀ (fuel : Nat) (h : List Nat) (i : Nat),
    m ≤ h.length → (heapDown num deg m fuel h i).1.Perm h ∧
      ∀ k, m ≤ k → (heapDown num deg m fuel h i).1.getD k 0 = h.getD k 0 := by
  intro fuel
  induction fuel with
  | zero => intro h i _; exact ⟨List.Perm.refl _, fun _ _ => rfl⟩
  | succ fuel ih =>
    intro h i hm
    simp only [heapDown]
    by_cases hleaf : 2 * i + 1 ≥ m
    · rw [if_pos hleaf]; exact ⟨List.Perm.refl _, fun _ _ => rfl⟩
    · rw [if_neg hleaf]
      generalize hjdef : (if (2 * i + 1 + 1 < m && dsLess num deg h (2 * i + 1 + 1) (2 * i + 1)) = true
        then 2 * i + 1 + 1 else 2 * i + 1) = j
      have hjm : j < m := by
        by_cases hc : (2 * i + 1 + 1 < m && dsLess num deg h (2 * i + 1 + 1) (2 * i + 1)) = true
        · rw [if_pos hc] at hjdef
          simp only [Bool.and_eq_true, decide_eq_true_eq] at hc
          omega
        · rw [if_neg hc] at hjdef; omega
      have hji : i < j := by
        by_cases hc : (2 * i + 1 + 1 < m && dsLess num deg h (2 * i + 1 + 1) (2 * i + 1)) = true
        · rw [if_pos hc] at hjdef; omega
        · rw [if_neg hc] at hjdef; omega
      by_cases hstop : (!dsLess num deg h j i) = true
      · rw [if_pos hstop]; exact ⟨List.Perm.refl _, fun _ _ => rfl⟩
      · rw [if_neg hstop]
        have hi : i < h.length := by omega
        have hj : j < h.length := by omega
        obtain ⟨hp, hun⟩ := ih (swapAt h i j) j (by rw [swapAt_length]; exact hm)
        refine ⟨hp.trans (swapAt_perm hi hj), fun k hk => ?_⟩
        rw [hun k hk, swapAt_getD hi hj, if_neg (by omega), if_neg (by omega)]

theorem heapFix_perm (num : List Int) (deg : List Nat) (h : List Nat) {k : Nat} (hk : k < h.length) :
    (heapFix num deg h k).Perm h := by
  unfold heapFix
  have hd := (heapDown_perm num deg h.length (h.length + 1) h k (Nat.le_refl _)).1
  generalize heapDown num deg h.length (h.length + 1) h k = res at hd
  obtain ⟨h1, i1⟩ := res
  simp only at hd ⊢
  split
  · exact hd
  · exact (heapUp_perm num deg _ h1 k (by rw [hd.length_eq]; exact hk)).trans hd

theorem heapInit_perm (num : List Int) (deg : List Nat) (h : List Nat) : (heapInit num deg h).Perm h := by
  unfold heapInit
  generalize (List.range (h.length / 2)).reverse = idx
  induction idx generalizing h with
  | nil => exact List.Perm.refl _
  | cons a t ih =>
    simp only [List.foldl_cons]
    exact (ih _).trans (heapDown_perm num deg h.length (h.length + 1) h a (Nat.le_refl _)).1

/-- `heap.Remove(h, 0)` removes exactly the entry `h[0]`, whatever the order of the heap -/
theorem heapRemove0_perm (num : List Int) (deg : List Nat) (x : Nat) (t : List Nat) :
    (heapRemove0 num deg (x :: t)).Perm t := by
  unfold heapRemove0
  simp only [List.length_cons, Nat.add_sub_cancel]
  by_cases ht : t.length = 0
  · have : t = [] := List.length_eq_zero_iff.1 ht
    subst this; simp
  · have hne : (t.length != 0) = true := by simpa using ht
    rw [if_pos hne]
    have h0 : 0 < (x :: t).length := by simp
    have hn : t.length < (x :: t).length := by simp
    have hA := swapAt_getD h0 hn
    have hlen1 : (swapAt (x :: t) 0 t.length).length = t.length + 1 := by rw [swapAt_length]; simp
    obtain ⟨hp, hun⟩ := heapDown_perm num deg t.length (t.length + 1) (swapAt (x :: t) 0 t.length) 0 (by omega)
    generalize heapDown num deg t.length (t.length + 1) (swapAt (x :: t) 0 t.length) 0 = res at hp hun
    obtain ⟨h2, i1⟩ := res
    simp only at hp hun ⊢
    have hh3 : (if i1 > 0 then h2 else heapUp num deg (t.length + 1) h2 0) = h2 := by
      split
      · rfl
      · simp [heapUp]
    rw [hh3]
    have hl2 : h2.length = t.length + 1 := by rw [hp.length_eq, hlen1]
    have hlast : h2.getD (h2.length - 1) 0 = x := by
      rw [hl2, Nat.add_sub_cancel, hun t.length (Nat.le_refl _), hA, if_pos rfl]
      simp
    exact perm_dropLast_of_last (by intro h; rw [h] at hl2; simp at hl2) (hp.trans (swapAt_perm h0 hn)) hlast

/-! ### Init -/

theorem heapInit_fold (num : List Int) (deg : List Nat) : ∀ (k : Nat) (h : List Nat),
    (∀ e, 0 < e → e < h.length → k ≤ (e - 1) / 2 → EdgeOK num deg h e) →
    ((List.range k).reverse.foldl (fun hh i => (heapDown num deg hh.length (hh.length + 1) hh i).1) h).Perm h ∧
      HeapOK num deg ((List.range k).reverse.foldl
        (fun hh i => (heapDown num deg hh.length (hh.length + 1) hh i).1) h) := by
  intro k
  induction k with
  | zero =>
    intro h hed
    exact ⟨List.Perm.refl _, fun e he0 hel => hed e he0 hel (Nat.zero_le _)⟩
  | succ k ih =>
    intro h hed
    rw [List.range_succ, List.reverse_append, List.reverse_singleton, List.singleton_append, List.foldl_cons]
    obtain ⟨hp, hok, _⟩ := heapDown_spec num deg h.length k (h.length + 1) h k (Nat.le_refl _) (by omega)
      (Nat.le_refl _)
      (fun e he0 hel hle hne => hed e he0 hel (by omega))
      (fun c _ _ _ hk0 hle => by omega)
    have hlen := hp.length_eq
    obtain ⟨hp2, hok2⟩ := ih _ (fun e he0 hel hle => hok e he0 (by rw [← hlen]; exact hel) hle)
    exact ⟨hp2.trans hp, hok2⟩

theorem heapInit_spec (num : List Int) (deg : List Nat) (h : List Nat) :
    (heapInit num deg h).Perm h ∧ HeapOK num deg (heapInit num deg h) := by
  unfold heapInit
  exact heapInit_fold num deg (h.length / 2) h (fun e he0 hel hle => by omega)

/-! ### Remove(h, 0) -/

theorem heapRemove0_spec (num : List Int) (deg : List Nat) (x : Nat) (t : List Nat)
    (hok : HeapOK num deg (x :: t)) :
    (heapRemove0 num deg (x :: t)).Perm t ∧ HeapOK num deg (heapRemove0 num deg (x :: t)) := by
  unfold heapRemove0
  simp only [List.length_cons, Nat.add_sub_cancel]
  by_cases ht : t.length = 0
  · have : t = [] := List.length_eq_zero_iff.1 ht
    subst this
    simp [HeapOK]
  · have hne : (t.length != 0) = true := by simpa using ht
    rw [if_pos hne]
    have h0 : 0 < (x :: t).length := by simp
    have hn : t.length < (x :: t).length := by simp
    have hA := swapAt_getD h0 hn
    have hlen1 : (swapAt (x :: t) 0 t.length).length = t.length + 1 := by rw [swapAt_length]; simp
    obtain ⟨hp, hokd, hun⟩ := heapDown_spec num deg t.length 0 (t.length + 1) (swapAt (x :: t) 0 t.length) 0
      (by omega) (by omega) (Nat.le_refl _)
      (by
        intro e he0 hel _ hpe
        unfold EdgeOK
        rw [hA, hA, if_neg (by omega), if_neg (by omega), if_neg (by omega), if_neg (by omega)]
        exact hok e he0 (by simp; omega))
      (fun c _ _ _ h00 _ => by omega)
    generalize hres : heapDown num deg t.length (t.length + 1) (swapAt (x :: t) 0 t.length) 0 = res at hp hokd hun
    obtain ⟨h2, i1⟩ := res
    simp only at hp hokd hun ⊢
    have hup : heapUp num deg (t.length + 1) h2 0 = h2 := by simp [heapUp]
    have hh3 : (if i1 > 0 then h2 else heapUp num deg (t.length + 1) h2 0) = h2 := by
      split
      · rfl
      · exact hup
    rw [hh3]
    have hl2 : h2.length = t.length + 1 := by rw [hp.length_eq, hlen1]
    have hlast : h2.getD (h2.length - 1) 0 = x := by
      rw [hl2, Nat.add_sub_cancel, hun t.length (Or.inr (Nat.le_refl _)), hA, if_pos rfl]
      simp
    refine ⟨perm_dropLast_of_last (by intro h; rw [h] at hl2; simp at hl2)
      (hp.trans (swapAt_perm h0 hn)) hlast, ?_⟩
    intro e he0 hel
    have hel' : e < t.length := by
      rw [List.length_dropLast, hl2] at hel; omega
    unfold EdgeOK
    rw [getD_dropLast (by omega), getD_dropLast (by omega)]
    exact hokd e he0 hel' (Nat.zero_le _)

/-! ### Fix after the entry at `k` has improved -/

theorem heapFix_spec (num : List Int) (deg : List Nat) (h : List Nat) {k : Nat} (hk : k < h.length)
    (hedges : ∀ e, 0 < e → e < h.length → e ≠ k → EdgeOK num deg h e)
    (hgrand : ∀ c, 0 < c → c < h.length → (c - 1) / 2 = k → 0 < k →
      leV num deg (h.getD ((k - 1) / 2) 0) (h.getD c 0)) :
    (heapFix num deg h k).Perm h ∧ HeapOK num deg (heapFix num deg h k) ∧
      ∀ p, k < p → (heapFix num deg h k).getD p 0 = h.getD p 0 := by
  unfold heapFix
  have hnoop := heapDown_noop num deg h.length (h.length + 1) h k (by
    intro c hc hcc
    have := hedges c (by omega) hc (by omega)
    unfold EdgeOK at this
    have hpc : (c - 1) / 2 = k := by omega
    rw [hpc] at this
    exact this)
  rw [hnoop]
  simp only [gt_iff_lt, Nat.lt_irrefl, if_false]
  obtain ⟨hp, hok, hun⟩ := heapUp_spec num deg (h.length + 1) h k hk (by omega) hedges hgrand
  exact ⟨hp, fun e he0 hel => hok e he0 (by rw [hp.length_eq] at hel; exact hel), hun⟩

end CliqueColour
