import Mamba.Lemmas.SearchShards
import Mamba.Lemmas.IsoCheck
import Mamba.Lemmas.Orderly
/-! Graph-level vocabulary for the exactness theorem: isomorphism of `DenseGraph` values, equivalence of extensions,
`AddVertex` is the one-vertex extension `GSearch.ext`. -/
namespace Search
open GraphSpec GSearch

/-- isomorphism of `DenseGraph` values (through the abstraction `toG`) -/
def IsoD (g h : DG) : Prop := Iso g.toG h.toG

theorem IsoD.refl (g : DG) : IsoD g g := Iso.refl _
theorem IsoD.symm {g h : DG} (i : IsoD g h) : IsoD h g := Iso.symm i
theorem IsoD.trans {g h k : DG} (i : IsoD g h) (j : IsoD h k) : IsoD g k := Iso.trans i j

/-- `σ` is an isomorphism `g → h` that carries the vertex set `S` onto the vertex set `T` -/
def ExtEquiv (g : DG) (S : List Nat) (h : DG) (T : List Nat) : Prop :=
  g.nv = h.nv ∧ ∃ σ : Nat → Nat, IsBij g.nv σ ∧
    (∀ u v, u < g.nv → v < g.nv → g.toG.adj u v = h.toG.adj (σ u) (σ v)) ∧
    ∀ v, v < g.nv → (v ∈ S ↔ σ v ∈ T)

theorem ExtEquiv.refl (g : DG) (S : List Nat) : ExtEquiv g S g S :=
  ⟨rfl, fun u => u, IsBij.id _, fun _ _ _ _ => rfl, fun _ _ => Iff.rfl⟩

theorem ExtEquiv.symm {g h : DG} {S T : List Nat} (e : ExtEquiv g S h T) : ExtEquiv h T g S := by
  obtain ⟨hn, σ, hσ, hadj, hS⟩ := e
  refine ⟨hn.symm, hσ.inv, hn ▸ hσ.inv_isBij, ?_, ?_⟩
  · intro u v hu hv
    rw [← hn] at hu hv
    have := hadj _ _ (hσ.inv_spec hu).1 (hσ.inv_spec hv).1
    rw [(hσ.inv_spec hu).2, (hσ.inv_spec hv).2] at this
    exact this.symm
  · intro v hv
    rw [← hn] at hv
    have := hS _ (hσ.inv_spec hv).1
    rw [(hσ.inv_spec hv).2] at this
    exact this.symm

theorem ExtEquiv.trans {g h k : DG} {S T U : List Nat} (e1 : ExtEquiv g S h T) (e2 : ExtEquiv h T k U) :
    ExtEquiv g S k U := by
  obtain ⟨hn, σ, hσ, hadj, hS⟩ := e1
  obtain ⟨hn', τ, hτ, hadj', hT⟩ := e2
  refine ⟨hn.trans hn', fun u => τ (σ u), hσ.comp (hn ▸ hτ), ?_, ?_⟩
  · intro u v hu hv
    rw [hadj u v hu hv, hadj' _ _ (hn ▸ hσ.maps u hu) (hn ▸ hσ.maps v hv)]
  · intro v hv
    rw [hS v hv, hT _ (hn ▸ hσ.maps v hv)]

theorem ExtEquiv.iso {g h : DG} {S T : List Nat} (e : ExtEquiv g S h T) : IsoD g h := by
  obtain ⟨hn, σ, hσ, hadj, -⟩ := e
  exact ⟨hn, σ, hσ, hadj⟩

/-- an isomorphism that matches the neighbourhoods of the new vertices extends to the one-vertex extensions -/
theorem ext_iso {g h : G} {S T : List Nat} {σ : Nat → Nat} (hn : g.n = h.n) (hσ : IsBij g.n σ)
    (hadj : ∀ u v, u < g.n → v < g.n → g.adj u v = h.adj (σ u) (σ v))
    (hS : ∀ v, v < g.n → (v ∈ S ↔ σ v ∈ T)) : Iso (ext g S) (ext h T) := by
  let τ : Nat → Nat := fun u => if u < g.n then σ u else u
  have hτ : IsBij (g.n + 1) τ := by
    refine ⟨?_, ?_, ?_⟩
    · intro u hu
      simp only [τ]
      split
      · exact Nat.lt_succ_of_lt (hσ.maps u ‹_›)
      · exact hu
    · intro u v hu hv he
      simp only [τ] at he
      by_cases h1 : u < g.n <;> by_cases h2 : v < g.n <;> simp only [h1, h2, if_true, if_false] at he
      · exact hσ.inj u v h1 h2 he
      · have := hσ.maps u h1; omega
      · have := hσ.maps v h2; omega
      · exact he
    · intro w hw
      by_cases h1 : w < g.n
      · obtain ⟨u, hu, rfl⟩ := hσ.surj w h1
        exact ⟨u, Nat.lt_succ_of_lt hu, by simp [τ, hu]⟩
      · exact ⟨w, hw, by simp [τ, h1]⟩
  refine ⟨by simp [ext, hn], τ, hτ, ?_⟩
  intro u v hu hv
  have hu' : u < g.n + 1 := hu
  have hv' : v < g.n + 1 := hv
  have hc : ∀ w, w < g.n → S.contains w = T.contains (σ w) := by
    intro w hw
    have := hS w hw
    cases h1 : S.contains w <;> cases h2 : T.contains (σ w) <;> simp_all [List.contains_iff_mem]
  have hh : h.n = g.n := hn.symm
  by_cases h1 : u < g.n <;> by_cases h2 : v < g.n
  · have m1 := hσ.maps u h1
    have m2 := hσ.maps v h2
    have e1 : (σ u == g.n) = false := by simp [Nat.ne_of_lt m1]
    have e2 : (σ v == g.n) = false := by simp [Nat.ne_of_lt m2]
    have e3 : (u == g.n) = false := by simp [Nat.ne_of_lt h1]
    have e4 : (v == g.n) = false := by simp [Nat.ne_of_lt h2]
    simp [ext, τ, h1, h2, hh, m1, m2, e1, e2, e3, e4, hadj u v h1 h2]
  · have hv'' : v = g.n := by omega
    rw [hv'']
    have m1 := hσ.maps u h1
    have e1 : (σ u == g.n) = false := by simp [Nat.ne_of_lt m1]
    have e3 : (u == g.n) = false := by simp [Nat.ne_of_lt h1]
    simp [ext, τ, h1, hh, m1, e1, e3, hc u h1]
    exact hS u h1
  · have hu'' : u = g.n := by omega
    rw [hu'']
    have m2 := hσ.maps v h2
    have e2 : (σ v == g.n) = false := by simp [Nat.ne_of_lt m2]
    have e4 : (v == g.n) = false := by simp [Nat.ne_of_lt h2]
    simp [ext, τ, h2, hh, m2, e2, e4, hc v h2]
    exact hS v h2
  · have hu'' : u = g.n := by omega
    have hv'' : v = g.n := by omega
    rw [hu'', hv'']
    simp [ext, τ, hh]

end Search
