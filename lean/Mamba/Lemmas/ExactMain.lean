import Mamba.Lemmas.ExactNode
import Mamba.Lemmas.IsoLevels
namespace Search
open GraphSpec GSearch Orderly

variable {O : Oracle} {n : Nat}

/-- the pruning function that drops the graphs without the property `P` -/
def pruneOf (P : G → Bool) : DG → Bool := fun g => !P g.toG

theorem delLast_ext {g : G} (hg : g.WF) (S : List Nat) : delLast (ext g S) = g := by
  apply G.ext_eq
  · simp [delLast, ext]
  · intro u v
    simp only [delLast, ext, Nat.add_sub_cancel]
    by_cases hu : u < g.n <;> by_cases hv : v < g.n
    · have e1 : (u == g.n) = false := by simp [Nat.ne_of_lt hu]
      have e2 : (v == g.n) = false := by simp [Nat.ne_of_lt hv]
      simp [hu, hv, e1, e2]
    · have : g.adj u v = false := by
        cases hc : g.adj u v
        · rfl
        · exact absurd (hg.supp u v hc).2 hv
      simp [hv, this]
    · have : g.adj u v = false := by
        cases hc : g.adj u v
        · rfl
        · exact absurd (hg.supp u v hc).1 hu
      simp [hu, this]
    · have : g.adj u v = false := by
        cases hc : g.adj u v
        · rfl
        · exact absurd (hg.supp u v hc).1 hu
      simp [hu, this]

/-- the two facts about the pruning function that `Specs` asks for follow from `Hereditary P` -/
theorem pruneOf_iso {P : G → Bool} (hP : Hereditary P) {g h : DG} (i : IsoD g h) : pruneOf P g = pruneOf P h := by
  unfold pruneOf
  cases h1 : P g.toG <;> cases h2 : P h.toG <;> simp
  · have := hP.iso h.toG g.toG (toG_wf h) (toG_wf g) i.symm h2
    rw [h1] at this; cases this
  · have := hP.iso g.toG h.toG (toG_wf g) (toG_wf h) i h1
    rw [h2] at this; cases this

theorem pruneOf_her {P : G → Bool} (hP : Hereditary P) {Q g2 : DG} {l : List Nat} (hQ : Built Q) (hnd : l.Nodup)
    (hl : ∀ v ∈ l, v < Q.nv) (ha : Q.addVertex l = .ok g2) (h : pruneOf P g2 = false) : pruneOf P Q = false := by
  unfold pruneOf at h ⊢
  have h2 : P g2.toG = true := by simpa using h
  rw [addVertex_toG hQ.sized hnd hl ha] at h2
  have := hP.del (ext Q.toG l) (ext_wf (toG_wf Q) l) (by simp [ext]) h2
  rw [delLast_ext (toG_wf Q)] at this
  simp [this]

end Search

namespace Search
open GraphSpec GSearch Orderly

variable {O : Oracle} {n : Nat}

theorem K1_toG_iso {Y : G} (hY : Y.WF) (h1 : Y.n = 1) : Iso Y K1.toG := by
  refine ⟨by simp [h1, K1, DG.toG, DG.single], fun u => u, IsBij.id _, ?_⟩
  intro u v hu hv
  have hu0 : u = 0 := by omega
  have hv0 : v = 0 := by omega
  subst hu0; subst hv0
  rw [hY.irrefl, (toG_wf K1).irrefl]

/-- every graph with the property has a built representative whose canonical ancestors lead back to `K1` -/
theorem anc_exists {P : G → Bool} (hP : Hereditary P) (S : Specs O n (pruneOf P)) :
    ∀ (k : Nat) (Y : G), Y.WF → Y.n = k + 1 → k + 1 ≤ n → P Y = true →
      ∃ Y' : DG, Built Y' ∧ pruneOf P Y' = false ∧ Iso Y Y'.toG ∧ Anc IsoD (ParD O n (pruneOf P)) k K1 Y'
  | 0, Y, hY, hn, _, hPY => by
    have i := K1_toG_iso hY hn
    refine ⟨K1, Built.one, ?_, i, IsoD.refl K1⟩
    have := hP.iso Y K1.toG hY (toG_wf K1) i hPY
    simp [pruneOf, this]
  | k + 1, Y, hY, hn, hle, hPY => by
    obtain ⟨P0, g2, x, c, hb0, hr0, ha0, i⟩ := S.canon_exists Y hY (by omega) (by omega)
    have hp2 : pruneOf P g2 = false := by
      have := hP.iso Y g2.toG hY (toG_wf g2) i hPY
      simp [pruneOf, this]
    have hp0 : pruneOf P P0 = false := S.pre_her hb0 hr0 ha0.1 hp2
    have hn0 : P0.toG.n = k + 1 := by
      have h1 : g2.toG.n = Y.n := i.1.symm
      have h2 : g2.nv = P0.nv + 1 := addVertex_nv ha0.1
      show P0.nv = k + 1
      have : g2.nv = Y.n := h1
      omega
    have hPP0 : P P0.toG = true := by simpa [pruneOf] using hp0
    obtain ⟨W, hbW, hpW, iW, hanc⟩ := anc_exists hP S k P0.toG (toG_wf P0) hn0 (by omega) hPP0
    have hpar : ParD O n (pruneOf P) W g2 :=
      ⟨P0, g2, x, c, hb0, (by have : P0.nv = k + 1 := hn0; omega), hr0, ha0, hp2, IsoD.symm iW, IsoD.refl g2⟩
    exact ⟨g2, hb0.child hr0 ha0.1, hp2, i, anc_snoc (parD_laws S) hanc hpar⟩

/-- descendants of an unpruned node are unpruned -/
theorem anc_unpruned {P : G → Bool} (hP : Hereditary P) :
    ∀ (d : Nat) (X Y : DG), pruneOf P X = false → Anc IsoD (ParD O n (pruneOf P)) d X Y → pruneOf P Y = false
  | 0, X, Y, hX, h => by rw [← pruneOf_iso hP h]; exact hX
  | d + 1, X, Y, _, ⟨Z, ⟨P0, Z', x, c, _, _, _, _, hpZ, _, hZ⟩, ha⟩ =>
    anc_unpruned hP d Z Y (by rw [pruneOf_iso hP hZ]; exact hpZ) ha

/-- **Canonical augmentation is exact** (model level), reduced to the specifications `Specs` of `isCanonical` and
`addAugmentations`: for `n ≥ 2` and a hereditary, isomorphism-invariant property `P` supplied as `preprune`, the graphs
yielded by `WithPruning(n, 0, 1, P)` are an exact transversal of the isomorphism classes of graphs on `n` vertices
with `P`: all have `n` vertices and `P`, no two are isomorphic, and every well-formed graph on `n` vertices with `P`
is isomorphic to one of them. -/
theorem exact_of_specs {P : G → Bool} (hP : Hereditary P) (S : Specs O n (pruneOf P)) (hn : 2 ≤ n) (fuel lim : Nat)
    {outs : List DG} {t : State}
    (h : exhaust O (pruneOf P) noPrune fuel lim (init n 0 1) = .ok (outs, t)) :
    Transversal P n (outs.map DG.toG) := by
  have e := exhaust_init n 0 1 hn fuel lim h
  have hsize : ∀ g ∈ outs, g.nv = n := fun g hg =>
    (exhaust_outputs O _ _ fuel lim _ _ _ h (init_inv n 0 1) g hg).1
  simp only [noPrune, Bool.or_false] at e
  by_cases hpK : pruneOf P K1 = true
  · -- the one-vertex graph is pruned: nothing is yielded, and no graph has P
    simp only [hpK, if_true, Outcome.ok.injEq] at e
    subst e
    refine ⟨by simp, by simp, by simp, ?_⟩
    intro Y hY hYn hPY
    exfalso
    obtain ⟨Y', _, _, _, hanc⟩ := anc_exists hP S (n - 1) Y hY (by omega) (by omega) hPY
    -- K1 is an induced subgraph of every non-empty graph, so P K1 must hold
    have : pruneOf P K1 = false := by
      clear hanc
      have key : ∀ (k : Nat) (Z : G), Z.WF → Z.n = k + 1 → P Z = true → P K1.toG = true := by
        intro k
        induction k with
        | zero => intro Z hZ hZn hPZ; exact hP.iso Z K1.toG hZ (toG_wf K1) (K1_toG_iso hZ hZn) hPZ
        | succ k ih =>
          intro Z hZ hZn hPZ
          exact ih (delLast Z) (delLast_wf hZ) (by simp [delLast, hZn]) (hP.del Z hZ (by omega) hPZ)
      have := key (n - 1) Y hY (by omega) hPY
      simp [pruneOf, this]
    rw [this] at hpK; cases hpK
  · have hpK' : pruneOf P K1 = false := by simpa using hpK
    simp only [hpK', Bool.false_eq_true, if_false] at e
    have T := subNode_exact S (n - 1) K1 none outs Built.one hpK' (Or.inl rfl) (by show 1 + (n - 1) = n; omega) e
    refine ⟨?_, ?_, ?_, ?_⟩
    · intro g hg
      obtain ⟨d, hd, rfl⟩ := List.mem_map.1 hg
      exact hsize d hd
    · intro g hg
      obtain ⟨d, hd, rfl⟩ := List.mem_map.1 hg
      have := anc_unpruned hP (n - 1) K1 d hpK' (T.sound d hd)
      simpa [pruneOf] using this
    · rw [List.pairwise_map]
      exact T.distinct
    · intro Y hY hYn hPY
      obtain ⟨Y', _, _, i, hanc⟩ := anc_exists hP S (n - 1) Y hY (by omega) (by omega) hPY
      obtain ⟨o, ho, io⟩ := T.complete Y' hanc
      exact ⟨o.toG, List.mem_map.2 ⟨o, ho, rfl⟩, i.trans io⟩

end Search
