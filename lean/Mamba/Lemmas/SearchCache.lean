import Mamba.Model.Search
/-! The cached automorphism data is never live across a `Next` boundary (property C04). -/
namespace Search

/-- forget the cached automorphism data -/
def State.core (s : State) : State := { s with cache := none }

/-- forget the cache of the state in a result of `next` / `run` -/
def eraseCache : Outcome (State × Bool) → Outcome (State × Bool)
  | .ok (s, b) => .ok (s.core, b)
  | .panic => .panic
  | .outOfFuel => .outOfFuel

/-- the modes of `run` in which the entry cache is dead: everything except the head of the outer loop with
`cont = false` (which is where `addAugmentations` may use what `isCanonical` has just computed) -/
def Mode.cacheDead : Mode → Bool
  | .outer cont _ => cont
  | .step _ => true
  | .inner _ _ => true

theorem core_eq_iff {s1 s2 : State} : s1.core = s2.core ↔
    s1.n = s2.n ∧ s1.a = s2.a ∧ s1.m = s2.m ∧ s1.first = s2.first ∧ s1.g = s2.g ∧ s1.choices = s2.choices ∧
      s1.currentPath = s2.currentPath := by
  cases s1; cases s2; simp [State.core]

/-- `run` in a cache-dead mode does not depend on the entry cache -/
theorem run_cache_dead (O : Oracle) (pre pr : DG → Bool) :
    ∀ (fuel : Nat) (mode : Mode) (s : State) (c : Option Ans), mode.cacheDead = true →
      eraseCache (run O pre pr fuel mode { s with cache := c }) = eraseCache (run O pre pr fuel mode s)
  | 0, _, _, _, _ => rfl
  | f + 1, .outer cont sf, s, c, h => by
    simp only [Mode.cacheDead] at h
    subst h
    simp only [run, Bool.not_true, Bool.false_eq_true, if_false]
    exact run_cache_dead O pre pr f (.step sf) s c rfl
  | f + 1, .step sf, s, c, _ => by
    simp only [run]
    by_cases h0 : s.choices.size = 0
    · simp only [h0, if_true]; rfl
    · simp only [h0, if_false]
      cases s.currentPath.back? with
      | none => rfl
      | some cp => exact run_cache_dead O pre pr f (.inner sf cp) s c rfl
  | f + 1, .inner sf 0, s, c, _ => by
    simp only [run]
    cases sf with
    | false =>
      -- removeClear overwrites the cache
      simp only [Bool.not_false, if_true, removeClear]
    | true =>
      simp only [Bool.not_true, Bool.false_eq_true, if_false]
      by_cases h0 : s.currentPath.size = 0
      · simp only [h0, if_true]
      · simp only [h0, if_false]
        exact run_cache_dead O pre pr f (.step false) { s with currentPath := s.currentPath.pop } c rfl
  | f + 1, .inner sf (i + 1), s, c, _ => by
    simp only [run]
    cases s.choices.back? with
    | none => rfl
    | some x =>
      simp only
      by_cases hm : s.m = 0
      · simp only [hm, if_true]
      · simp only [hm, if_false]
        by_cases hsplit : (i % s.m != s.a && ((s.currentPath.size : Nat) : Int) == splitLevel s.n) = true
        · simp only [hsplit, if_true]
          exact run_cache_dead O pre pr f (.inner sf i) { s with choices := s.choices.pop } c rfl
        · have hs : (i % s.m != s.a && ((s.currentPath.size : Nat) : Int) == splitLevel s.n) = false := by
            simpa using hsplit
          simp only [hs, Bool.false_eq_true, if_false]
          cases sf with
          | false => simp only [Bool.not_false, if_true, removeClear]
          | true => simp only [Bool.not_true, Bool.false_eq_true, if_false]

end Search
