import Mamba.Lemmas.C06Partite2
/-! C06: `LineGraphDense` — the scans of one round. -/
namespace Construct
open GraphSpec


/-! ### LineGraphDense: the three scans of one round -/

theorem bitAt_set' (a : Array Nat) (k x : Nat) (hk : k < a.size) :
    bitAt (a.set k 1) x = (bitAt a x || x == k) := by
  rw [bitAt_set a k x hk, Bool.or_comm]; congr 1

theorem lineScan1 (i b : Nat) (l : List (Nat × Nat)) (e : Array Nat) (h : ∀ kv ∈ l, tri b + kv.1 < e.size) :
    ∃ e', l.foldlM (fun e (kv : Nat × Nat) =>
        if i == kv.2 then setAt e ((b * (b - 1)) / 2 + kv.1) 1 else pure e) e = .ok e' ∧ e'.size = e.size ∧
      ∀ x, bitAt e' x = (bitAt e x || l.any fun kv => x == tri b + kv.1 && i == kv.2) := by
  induction l generalizing e with
  | nil => exact ⟨e, rfl, rfl, by simp⟩
  | cons kv t ih =>
    have hk := h kv (by simp)
    by_cases hi : i = kv.2
    · obtain ⟨e', f1, f2, f3⟩ := ih (e.set (tri b + kv.1) 1) (by intro q hq; simpa using h q (by simp [hq]))
      refine ⟨e', ?_, by simpa using f2, ?_⟩
      · simp only [List.foldlM_cons, hi, beq_self_eq_true, ↓reduceIte, tri_def, setAt_ok _ hk, Outcome.bind_ok]
        simpa [hi, tri_def] using f1
      · intro x; rw [f3 x, bitAt_set' _ _ _ hk]; simp [hi, Bool.or_assoc]
    · obtain ⟨e', f1, f2, f3⟩ := ih e (by intro q hq; exact h q (by simp [hq]))
      have hi' : (i == kv.2) = false := by simp [hi]
      refine ⟨e', ?_, f2, ?_⟩
      · simp only [List.foldlM_cons, hi', Bool.false_eq_true, ↓reduceIte, Outcome.pure_eq, Outcome.bind_ok]; exact f1
      · intro x; rw [f3 x]; simp [hi']

theorem lineScan2 (i b : Nat) (l : List (Nat × Nat)) (e : Array Nat) (h : ∀ kv ∈ l, tri b + kv.1 < e.size)
    (hsorted : l.Pairwise fun p q => p.2 ≤ q.2) :
    ∃ e', lineScanUpper i b l e = .ok e' ∧ e'.size = e.size ∧
      ∀ x, bitAt e' x = (bitAt e x || l.any fun kv => x == tri b + kv.1 && i == kv.2) := by
  induction l generalizing e with
  | nil => exact ⟨e, rfl, rfl, by simp⟩
  | cons kv t ih =>
    obtain ⟨k, v⟩ := kv
    have hk := h (k, v) (by simp)
    have hs := List.pairwise_cons.mp hsorted
    by_cases hi : i = v
    · obtain ⟨e', f1, f2, f3⟩ := ih (e.set (tri b + k) 1) (by intro q hq; simpa using h q (by simp [hq])) hs.2
      refine ⟨e', ?_, by simpa using f2, ?_⟩
      · simp only [lineScanUpper, hi, beq_self_eq_true, ↓reduceIte, tri_def, setAt_ok _ hk, Outcome.bind_ok]
        simpa [hi] using f1
      · intro x; rw [f3 x, bitAt_set' _ _ _ hk]; simp [hi, Bool.or_assoc]
    · have hi' : (i == v) = false := by simp [hi]
      by_cases hlt : i < v
      · refine ⟨e, by simp [lineScanUpper, hi', hlt], rfl, ?_⟩
        intro x
        have : (t.any fun kv => x == tri b + kv.1 && i == kv.2) = false := by
          rw [List.any_eq_false]
          intro q hq
          have := hs.1 q hq
          have : ¬ i = q.2 := by simp only at this; omega
          simp [this]
        simp [hi', this]
      · obtain ⟨e', f1, f2, f3⟩ := ih e (by intro q hq; exact h q (by simp [hq])) hs.2
        refine ⟨e', by simp [lineScanUpper, hi', hlt, f1], f2, ?_⟩
        intro x; rw [f3 x]; simp [hi']

theorem lineScan3 (j b : Nat) (l : List (Nat × Nat)) (e : Array Nat) (h : ∀ kv ∈ l, tri b + kv.1 < e.size)
    (hsorted : l.Pairwise fun p q => q.2 ≤ p.2) (hle : ∀ kv ∈ l, kv.2 ≤ j) :
    ∃ e', lineScanBack j b l e = .ok e' ∧ e'.size = e.size ∧
      ∀ x, bitAt e' x = (bitAt e x || l.any fun kv => x == tri b + kv.1 && kv.2 == j) := by
  induction l generalizing e with
  | nil => exact ⟨e, rfl, rfl, by simp⟩
  | cons kv t ih =>
    obtain ⟨k, v⟩ := kv
    have hk := h (k, v) (by simp)
    have hs := List.pairwise_cons.mp hsorted
    by_cases hj : v = j
    · obtain ⟨e', f1, f2, f3⟩ := ih (e.set (tri b + k) 1) (by intro q hq; simpa using h q (by simp [hq])) hs.2
        (fun q hq => hle q (by simp [hq]))
      refine ⟨e', ?_, by simpa using f2, ?_⟩
      · simp only [lineScanBack, hj, beq_self_eq_true, ↓reduceIte, tri_def, setAt_ok _ hk, Outcome.bind_ok]
        simpa [hj] using f1
      · intro x; rw [f3 x, bitAt_set' _ _ _ hk]; simp [hj, Bool.or_assoc]
    · have hj' : (v == j) = false := by simp [hj]
      refine ⟨e, by simp [lineScanBack, hj'], rfl, ?_⟩
      intro x
      have hvj : v ≤ j := hle (k, v) (by simp)
      have : (t.any fun kv => x == tri b + kv.1 && kv.2 == j) = false := by
        rw [List.any_eq_false]
        intro q hq
        have := hs.1 q hq
        have : ¬ q.2 = j := by simp only at this; omega
        simp [this]
      simp [hj', this]




/-- two edges share an end point -/
def share (e f : Nat × Nat) : Bool := e.1 == f.1 || e.1 == f.2 || e.2 == f.1 || e.2 == f.2

theorem share_comm (e f : Nat × Nat) : share e f = share f e := by
  unfold share
  rw [Bool.eq_iff_iff]; simp only [Bool.or_eq_true, beq_iff_eq]; omega

/-- the byte array of the line graph of the edge list `E` -/
def lgBit (E : List (Nat × Nat)) (x : Nat) : Bool :=
  (pairs E.length).any fun ab => x == tri ab.2 + ab.1 && share (E.getD ab.1 (0, 0)) (E.getD ab.2 (0, 0))

theorem getD_append_left' (E : List (Nat × Nat)) (q : Nat × Nat) (k : Nat) (hk : k < E.length) :
    (E ++ [q]).getD k (0, 0) = E.getD k (0, 0) := by
  simp [List.getD, List.getElem?_append_left hk]

theorem getD_append_last (E : List (Nat × Nat)) (q : Nat × Nat) : (E ++ [q]).getD E.length (0, 0) = q := by
  simp [List.getD]

theorem any_congr_mem {α : Type} (l : List α) (p q : α → Bool) (h : ∀ a ∈ l, p a = q a) : l.any p = l.any q := by
  induction l with
  | nil => rfl
  | cons a t ih => simp [h a (by simp), ih (fun b hb => h b (by simp [hb]))]

theorem lgBit_snoc (E : List (Nat × Nat)) (q : Nat × Nat) (x : Nat) :
    lgBit (E ++ [q]) x = (lgBit E x || (List.range E.length).any fun k => x == tri E.length + k && share (E.getD k (0, 0)) q) := by
  unfold lgBit
  rw [List.length_append, List.length_singleton, pairs_succ, List.any_append, List.any_map]
  congr 1
  · apply any_congr_mem
    intro ab hab
    obtain ⟨h1, h2⟩ := mem_pairs.mp hab
    rw [getD_append_left' E q ab.1 (by omega), getD_append_left' E q ab.2 h2]
  · apply any_congr_mem
    intro k hk
    have := List.mem_range.mp hk
    simp only [Function.comp]
    rw [getD_append_left' E q k this, getD_append_last]

theorem zip_range_eq (L : List Nat) : (List.range L.length).zip L = (List.range L.length).map fun k => (k, L.getD k 0) := by
  apply List.ext_getElem
  · simp
  · intro k h1 h2
    simp at h1
    simp [List.getD, h1]

theorem pairwise_pairs (n : Nat) : (pairs n).Pairwise fun p q => p.2 ≤ q.2 := by
  induction n with
  | zero => simp [pairs]
  | succ k ih =>
    rw [pairs_succ, List.pairwise_append]
    refine ⟨ih, ?_, ?_⟩
    · rw [List.pairwise_map]; exact List.pairwise_of_forall (by intros; exact Nat.le_refl _)
    · intro a ha b hb
      simp only [List.mem_map, List.mem_range] at hb
      obtain ⟨i, _, rfl⟩ := hb
      have := (mem_pairs.mp ha).2
      simp only; omega


end Construct
