/-!
Shared conventions for every executable model in this project (core Lean only — nothing here or
under `Mamba/Model`, `Mamba/Spec`, `Mamba/Drv` may import Mathlib, so that `mdrv` links).

`Outcome α` is the result of a modelled Go call: a value, or the Go `panic` the real code would raise
(index out of range, explicit `panic(...)`), or exhaustion of an explicit fuel argument.
-/

inductive Outcome (α : Type) where
  | ok : α → Outcome α
  | panic : Outcome α
  | outOfFuel : Outcome α
  deriving Repr, DecidableEq, Inhabited

namespace Outcome

@[inline] def bind {α β : Type} (x : Outcome α) (f : α → Outcome β) : Outcome β :=
  match x with
  | .ok a => f a
  | .panic => .panic
  | .outOfFuel => .outOfFuel

instance : Monad Outcome where
  pure := .ok
  bind := Outcome.bind

def isOk {α : Type} : Outcome α → Bool
  | .ok _ => true
  | _ => false

@[simp] theorem bind_ok {α β : Type} (a : α) (f : α → Outcome β) : (Outcome.ok a >>= f) = f a := rfl
@[simp] theorem bind_panic {α β : Type} (f : α → Outcome β) : ((Outcome.panic : Outcome α) >>= f) = .panic := rfl
@[simp] theorem bind_outOfFuel {α β : Type} (f : α → Outcome β) :
    ((Outcome.outOfFuel : Outcome α) >>= f) = .outOfFuel := rfl
@[simp] theorem pure_eq {α : Type} (a : α) : (pure a : Outcome α) = .ok a := rfl

end Outcome
