import Mamba.Drv.All

/-- `mdrv`: reads request lines on stdin, writes one reply line per request. -/
partial def loop (h : IO.FS.Stream) (out : IO.FS.Stream) : IO Unit := do
  let line ← h.getLine
  if line.isEmpty then return ()
  let l := (line.dropEndWhile (fun c => c == '\n' || c == '\r')).toString
  out.putStrLn (Drv.dispatch l)
  loop h out

def main : IO Unit := do
  let out ← IO.getStdout
  loop (← IO.getStdin) out
  out.flush
