import Mamba.Basic
import Mamba.Proto
import Mamba.Drv.All
import Mamba.Props.C18
import Mamba.Props.C13
import Mamba.Props.C20
import Mamba.Props.C05
import Mamba.Props.C19
