import Mamba.Basic
import Mamba.Proto
import Mamba.Drv.All
import Mamba.Props.C18
