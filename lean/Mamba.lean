import Mamba.Basic
import Mamba.Proto
import Mamba.Drv.All
