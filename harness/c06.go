package main

import (
	"fmt"
	"math/rand"
	"sort"
	"strconv"
	"strings"

	"github.com/Tom-Johnston/mamba/graph"
	"github.com/Tom-Johnston/mamba/sortints"
)

// Protocol c06:  c06 <constructor> <parameters>
//
//	complete n | path n | cycle n | star n | snark n | hypercube d | folded d | friendship n
//	partite k1 k2 ...            rook n m          kneser n k        bikneser n k
//	circulant n d1 d2 ...        circbip n m d1 d2 ...               petersen n k
//	newdense n nil | newdense n b0 b1 ...                  (bytes of the edge array)
//	newsparse n nil | newsparse n k l0 ; l1 ; ... ; l(k-1) (k neighbour lists)
//	compdense G | linegraph G                              (G = n m u1 v1 ... um vm)
//	compview G (a u v | r u v)*                            (edits are applied to the underlying graph)
//	indview G k V1..Vk (a u v | r u v)*
//	split G i j | contract G i j
//	tseq G (c i j | s i j)*                                (a sequence of Contract / SplitEdge applied in place)
//	random n p seed b0 b1 ...    (bi = outcome of the i-th "r.Float64() < p" of the stream of that seed)
//	randtree n seed c0 c1 ...    (ci = i-th r.Intn(n) of the stream of that seed)
//	prufer c0 c1 ... | multicode b0 b1 ...
//	graph6 b0 b1 ... | G         sparse6 b0 b1 ... | G     (bytes of a valid string and the graph G it encodes)
//
// Reply: the observers of the returned value through the Graph interface, exactly as returned:
//
//	n=<N> m=<M> deg=[...] nb=[[...] ...] e=u-v ...      (several dumps joined by " ; " for the live views)
//
// Oracle (independent of the Lean model): well-formedness of the returned value through the interface,
// the family / transformation definition re-implemented here, tree-ness for RandomTree / PruferDecode,
// independence from caller slices for NewDense / NewSparse, live views tracking the underlying graph,
// dense and sparse inputs giving the same result, documented panics actually panicking.

type c06Obs struct {
	N, M int
	Deg  []int
	Nb   [][]int
	E    [][2]int
}

func (o c06Obs) String() string {
	nb := make([]string, len(o.Nb))
	for i, l := range o.Nb {
		nb[i] = showInts(l)
	}
	es := make([]string, len(o.E))
	for i, e := range o.E {
		es[i] = strconv.Itoa(e[0]) + "-" + strconv.Itoa(e[1])
	}
	return fmt.Sprintf("n=%d m=%d deg=%s nb=[%s] e=%s", o.N, o.M, showInts(o.Deg), strings.Join(nb, " "), strings.Join(es, " "))
}

// c06Observe reads a graph through the interface only. ok=false if an observer panicked.
func c06Observe(g graph.Graph) (o c06Obs, ok bool) {
	defer func() {
		if e := recover(); e != nil {
			ok = false
		}
	}()
	o.N = g.N()
	o.M = g.M()
	o.Deg = append([]int{}, g.Degrees()...)
	for v := 0; v < o.N; v++ {
		o.Nb = append(o.Nb, append([]int{}, g.Neighbours(v)...))
	}
	for v := 0; v < o.N; v++ {
		for u := 0; u < v; u++ {
			if g.IsEdge(u, v) {
				o.E = append(o.E, [2]int{u, v})
			}
		}
	}
	return o, true
}

// c06WF is the well-formedness oracle: "" or the first defect found. oor: also probe out-of-range IsEdge arguments
// (false or a panic are both accepted by the interface documentation; true is not).
func c06WF(g graph.Graph, oor bool) (msg string) {
	defer func() {
		if e := recover(); e != nil {
			msg = fmt.Sprintf("an observer panicked on the returned graph: %v", e)
		}
	}()
	n := g.N()
	if n < 0 {
		return fmt.Sprintf("N() = %d", n)
	}
	adj := make([][]bool, n)
	cnt := 0
	for u := 0; u < n; u++ {
		adj[u] = make([]bool, n)
		for v := 0; v < n; v++ {
			adj[u][v] = g.IsEdge(u, v)
		}
	}
	for u := 0; u < n; u++ {
		if adj[u][u] {
			return fmt.Sprintf("IsEdge(%d,%d) = true (loop)", u, u)
		}
		for v := 0; v < u; v++ {
			if adj[u][v] != adj[v][u] {
				return fmt.Sprintf("IsEdge(%d,%d) = %v but IsEdge(%d,%d) = %v", u, v, adj[u][v], v, u, adj[v][u])
			}
			if adj[u][v] {
				cnt++
			}
		}
	}
	if m := g.M(); m != cnt {
		return fmt.Sprintf("M() = %d but IsEdge reports %d edges", m, cnt)
	}
	deg := g.Degrees()
	if len(deg) != n {
		return fmt.Sprintf("len(Degrees()) = %d, N() = %d", len(deg), n)
	}
	for v := 0; v < n; v++ {
		want := []int{}
		for u := 0; u < n; u++ {
			if adj[v][u] {
				want = append(want, u)
			}
		}
		nb := g.Neighbours(v)
		if deg[v] != len(want) {
			return fmt.Sprintf("Degrees()[%d] = %d but %d has %d adjacent vertices", v, deg[v], v, len(want))
		}
		if len(nb) != len(want) {
			return fmt.Sprintf("Neighbours(%d) = %v but the adjacent vertices are %v", v, nb, want)
		}
		for i := range nb {
			if nb[i] != want[i] {
				return fmt.Sprintf("Neighbours(%d) = %v but the adjacent vertices in ascending order are %v", v, nb, want)
			}
		}
	}
	if oor && n > 0 {
		for _, p := range [][2]int{{0, n}, {n, 0}, {n, n + 1}, {-1, 0}, {0, -1}} {
			if guard(func() string {
				if g.IsEdge(p[0], p[1]) {
					return "true"
				}
				return "false"
			}) == "true" {
				return fmt.Sprintf("IsEdge(%d,%d) = true on a graph with %d vertices", p[0], p[1], n)
			}
		}
	}
	return ""
}

// c06Same compares the observed edge set with a definition.
func c06Same(o c06Obs, what string, n int, adj func(u, v int) bool) string {
	if o.N != n {
		return fmt.Sprintf("%s: N() = %d, the definition has %d vertices", what, o.N, n)
	}
	have := map[[2]int]bool{}
	for _, e := range o.E {
		have[e] = true
	}
	for v := 0; v < n; v++ {
		for u := 0; u < v; u++ {
			d := adj(u, v) || adj(v, u)
			if d != have[[2]int{u, v}] {
				return fmt.Sprintf("%s: IsEdge(%d,%d) = %v, the definition says %v", what, u, v, have[[2]int{u, v}], d)
			}
		}
	}
	return ""
}

func c06Popcount(x int) int {
	c := 0
	for ; x != 0; x &= x - 1 {
		c++
	}
	return c
}

func c06Mod(a, n int) int { // mathematical remainder
	if n == 0 {
		return a
	}
	r := a % n
	if r < 0 {
		r += n
	}
	return r
}

// c06Subsets: the k-subsets of {0..n-1} as bit masks in co-lexicographic order (= increasing mask value).
func c06Subsets(n, k int) []int {
	out := []int{}
	if k < 0 || k > n {
		return out
	}
	for mask := 0; mask < 1<<uint(n); mask++ {
		if c06Popcount(mask) == k {
			out = append(out, mask)
		}
	}
	return out
}

// c06Family: definition of a named family (n, directed relation whose symmetric closure minus loops is the edge set).
func c06Family(kind string, p []int) (int, func(u, v int) bool) {
	abs := func(x int) int {
		if x < 0 {
			return -x
		}
		return x
	}
	switch kind {
	case "complete":
		return p[0], func(u, v int) bool { return true }
	case "partite":
		part := []int{}
		for i, k := range p {
			for j := 0; j < k; j++ {
				part = append(part, i)
			}
		}
		return len(part), func(u, v int) bool { return part[u] != part[v] }
	case "path":
		return p[0], func(u, v int) bool { return abs(u-v) == 1 }
	case "cycle":
		n := p[0]
		return n, func(u, v int) bool { return abs(u-v) == 1 || abs(u-v) == n-1 }
	case "star":
		return p[0], func(u, v int) bool { return u == 0 }
	case "rook":
		n := p[0]
		return n * p[1], func(x, y int) bool { return x%n == y%n || x/n == y/n }
	case "snark":
		n := p[0]
		e := map[[2]int]bool{}
		seq := []int{} // the 2n-cycle C_0 .. C_{n-1} D_0 .. D_{n-1}
		for i := 0; i < n; i++ {
			seq = append(seq, 4*i+2)
		}
		for i := 0; i < n; i++ {
			seq = append(seq, 4*i+3)
		}
		for i := 0; i < n; i++ {
			e[[2]int{4 * i, 4*i + 1}] = true
			e[[2]int{4 * i, 4*i + 2}] = true
			e[[2]int{4 * i, 4*i + 3}] = true
			e[[2]int{4*i + 1, 4*((i+1)%n) + 1}] = true
		}
		for i := range seq {
			e[[2]int{seq[i], seq[(i+1)%len(seq)]}] = true
		}
		return 4 * n, func(u, v int) bool { return e[[2]int{u, v}] }
	case "hypercube":
		return 1 << uint(p[0]), func(u, v int) bool { return c06Popcount(u^v) == 1 }
	case "folded":
		d := p[0] - 1
		return 1 << uint(d), func(u, v int) bool { return c06Popcount(u^v) == 1 || c06Popcount(u^v) == d }
	case "kneser":
		s := c06Subsets(p[0], p[1])
		return len(s), func(u, v int) bool { return s[u]&s[v] == 0 }
	case "bikneser":
		a, b := c06Subsets(p[0], p[1]), c06Subsets(p[0], p[0]-p[1])
		N := len(a)
		return 2 * N, func(x, y int) bool {
			if x < N && y >= N {
				s, t := a[x], b[y-N]
				return s&t == s || s&t == t
			}
			return false
		}
	case "circulant":
		n := p[0]
		return n, func(u, v int) bool {
			for _, d := range p[1:] {
				if c06Mod(v-u-d, n) == 0 {
					return true
				}
			}
			return false
		}
	case "circbip":
		n, m := p[0], p[1]
		return n + m, func(x, y int) bool {
			if x < n && y >= n {
				for _, d := range p[2:] {
					if c06Mod((y-n)-x-d, m) == 0 {
						return true
					}
				}
			}
			return false
		}
	case "petersen":
		n, k := p[0], p[1]
		return 2 * n, func(x, y int) bool {
			if x < n && y < n {
				return (x+1)%n == y
			}
			if x < n && y >= n {
				return y == n+x
			}
			if x >= n && y >= n {
				return (x-n+k)%n == y-n
			}
			return false
		}
	case "friendship":
		return 2*p[0] + 1, func(x, y int) bool { return x == 0 || (x > 0 && y > 0 && (x-1)/2 == (y-1)/2) }
	}
	panic("unknown family " + kind)
}

// c06Accepted: does the documentation / signature accept these parameters (otherwise a panic is demanded or tolerated)?
// returns "ok", "panic" (must panic) or "any" (undocumented domain: a panic or a well-formed graph are both accepted)
func c06Accepted(kind string, p []int) string {
	for i, v := range p {
		if v < 0 {
			isDiff := (kind == "circulant" && i >= 1) || (kind == "circbip" && i >= 2)
			if (kind == "kneser" || kind == "bikneser") && i == 1 {
				return "any"
			}
			if !isDiff {
				return "panic"
			}
		}
	}
	switch kind {
	case "cycle":
		if p[0] < 3 {
			return "panic"
		}
	case "snark":
		if p[0]%2 == 0 || p[0] < 3 {
			return "panic"
		}
	case "folded":
		if p[0] < 1 {
			return "panic"
		}
	case "petersen":
		if p[0] < 3 || p[1] > (p[0]-1)/2 {
			return "panic"
		}
	case "circbip":
		if p[1] == 0 && p[0] > 0 && len(p) > 2 {
			return "any" // differences modulo 0
		}
	}
	return "ok"
}

func c06Call(kind string, p []int) graph.Graph {
	switch kind {
	case "complete":
		return graph.CompleteGraph(p[0])
	case "partite":
		return graph.CompletePartiteGraph(p...)
	case "path":
		return graph.Path(p[0])
	case "cycle":
		return graph.Cycle(p[0])
	case "star":
		return graph.Star(p[0])
	case "rook":
		return graph.RookGraph(p[0], p[1])
	case "snark":
		return graph.FlowerSnark(p[0])
	case "hypercube":
		return graph.HypercubeGraph(p[0])
	case "folded":
		return graph.FoldedHypercubeGraph(p[0])
	case "kneser":
		return graph.KneserGraph(p[0], p[1])
	case "bikneser":
		return graph.BipartiteKneserGraph(p[0], p[1])
	case "circulant":
		return graph.CirculantGraph(p[0], p[1:]...)
	case "circbip":
		return graph.CirculantBipartiteGraph(p[0], p[1], p[2:]...)
	case "petersen":
		return graph.GeneralisedPetersenGraph(p[0], p[1])
	case "friendship":
		return graph.FriendshipGraph(p[0])
	}
	panic("unknown family " + kind)
}

// c06FatDense builds g as a *DenseGraph whose edge bytes are arbitrary non-zero values (NewDense documents "> 0 = edge"):
// a consumer that reads Edges directly instead of asking IsEdge must still see the same graph.
func c06FatDense(g EG) *graph.DenseGraph {
	vals := []byte{1, 2, 3, 128, 255, 7}
	edges := make([]byte, g.N*(g.N-1)/2)
	for _, e := range g.E {
		idx := e[1]*(e[1]-1)/2 + e[0]
		edges[idx] = vals[(idx*5+g.N+e[0])%len(vals)]
	}
	return graph.NewDense(g.N, edges)
}

// c06Build runs f under recover; nil graph = panicked.
func c06Build(f func() graph.Graph) (g graph.Graph) {
	defer func() {
		if e := recover(); e != nil {
			g = nil
		}
	}()
	return f()
}

func c06IsTree(o c06Obs) bool {
	if o.N == 0 || len(o.E) != o.N-1 {
		return false
	}
	seen := make([]bool, o.N)
	stack := []int{0}
	seen[0] = true
	c := 1
	for len(stack) > 0 {
		v := stack[len(stack)-1]
		stack = stack[:len(stack)-1]
		for _, e := range o.E {
			for _, w := range [][2]int{{e[0], e[1]}, {e[1], e[0]}} {
				if w[0] == v && !seen[w[1]] {
					seen[w[1]] = true
					c++
					stack = append(stack, w[1])
				}
			}
		}
	}
	return c == o.N
}

// c06Prufer: textbook Prüfer code of a labelled tree given by its edge list (n >= 2).
func c06Prufer(n int, E [][2]int) []int {
	adj := make([]map[int]bool, n)
	for i := range adj {
		adj[i] = map[int]bool{}
	}
	for _, e := range E {
		adj[e[0]][e[1]] = true
		adj[e[1]][e[0]] = true
	}
	code := []int{}
	for step := 0; step < n-2; step++ {
		for v := 0; v < n; v++ {
			if len(adj[v]) == 1 {
				for u := range adj[v] {
					code = append(code, u)
					delete(adj[u], v)
				}
				adj[v] = map[int]bool{}
				break
			}
		}
	}
	return code
}

type c06Edit struct {
	add  bool
	u, v int
}

func c06ParseEdits(toks []string) ([]c06Edit, bool) {
	out := []c06Edit{}
	for i := 0; i < len(toks); i += 3 {
		if i+2 >= len(toks) || (toks[i] != "a" && toks[i] != "r") {
			return nil, false
		}
		out = append(out, c06Edit{toks[i] == "a", atoi(toks[i+1]), atoi(toks[i+2])})
	}
	return out, true
}

func c06ApplyEG(g EG, e c06Edit) EG {
	a := g.Adj()
	if e.u != e.v && e.u < g.N && e.v < g.N {
		a[e.u][e.v] = e.add
		a[e.v][e.u] = e.add
	}
	h := EG{N: g.N}
	for v := 0; v < g.N; v++ {
		for u := 0; u < v; u++ {
			if a[u][v] {
				h.E = append(h.E, [2]int{u, v})
			}
		}
	}
	return h
}

func c06Run(args []string) Result {
	kind := args[0]
	rest := args[1:]
	tagset := map[string]bool{kind: true}
	tag := func(t string) { tagset[t] = true }
	oracle := ""
	ret := func(out string, extra ...string) Result {
		tl := []string{}
		for _, t := range extra {
			tagset[t] = true
		}
		for t := range tagset {
			tl = append(tl, t)
		}
		sort.Strings(tl)
		return Result{Out: out, Oracle: oracle, Tags: tl}
	}
	fail := func(f string, a ...interface{}) {
		if oracle == "" {
			oracle = fmt.Sprintf(f, a...)
		}
	}
	// finish: observe g, check well-formedness and the definition
	finish := func(g graph.Graph, oor bool, def func(o c06Obs) string) string {
		if g == nil {
			tag("panic")
			return "panic"
		}
		o, ok := c06Observe(g)
		if !ok {
			fail("%s: an observer panicked on the returned graph", kind)
			return "panic"
		}
		if w := c06WF(g, oor); w != "" {
			fail("%s: returned graph is not well formed: %s", kind, w)
		} else if def != nil {
			if d := def(o); d != "" {
				fail("%s", d)
			}
		}
		if o.N >= 2 {
			tag("nontrivial")
		}
		return o.String()
	}
	adjOf := func(g EG) func(u, v int) bool {
		a := g.Adj()
		return func(u, v int) bool { return a[u][v] }
	}
	// both: run a transformation on a dense and on a sparse copy of the input; results must coincide
	both := func(g EG, f func(in graph.EditableGraph) graph.Graph, oor bool, def func(o c06Obs) string) string {
		gd := c06Build(func() graph.Graph { return f(g.Dense()) })
		gs := c06Build(func() graph.Graph { return f(g.Sparse()) })
		gf := c06Build(func() graph.Graph { return f(c06FatDense(g)) })
		out := finish(gd, oor, def)
		if (gd == nil) != (gf == nil) {
			fail("%s: dense input panics=%v, dense input with edge bytes > 1 panics=%v", kind, gd == nil, gf == nil)
		} else if gf != nil {
			if w := c06WF(gf, false); w != "" {
				fail("%s on a DenseGraph with edge bytes > 1: returned graph is not well formed: %s", kind, w)
			}
			if of, ok := c06Observe(gf); !ok || of.String() != out {
				fail("%s: result on a DenseGraph with edge bytes > 1 %s differs from the result on the equal 0/1 DenseGraph %s", kind, of.String(), out)
			}
		}
		if (gd == nil) != (gs == nil) {
			fail("%s: dense input panics=%v, sparse input panics=%v", kind, gd == nil, gs == nil)
		} else if gs != nil {
			if w := c06WF(gs, false); w != "" {
				fail("%s on a sparse input: returned graph is not well formed: %s", kind, w)
			}
			if os, ok := c06Observe(gs); !ok || os.String() != out {
				fail("%s: result on a sparse input %s differs from the result on the equal dense input %s", kind, os.String(), out)
			}
		}
		return out
	}

	switch kind {
	case "complete", "partite", "path", "cycle", "star", "rook", "snark", "hypercube", "folded", "kneser", "bikneser",
		"circulant", "circbip", "petersen", "friendship":
		p := atois(rest)
		acc := c06Accepted(kind, p)
		g := c06Build(func() graph.Graph { return c06Call(kind, p) })
		switch acc {
		case "panic":
			if g != nil {
				fail("%s%v: parameters outside the documented domain must panic, got a graph with %d vertices", kind, p, g.N())
			}
			out := finish(g, true, nil)
			return ret(out, "rejected")
		case "any":
			return ret(finish(g, true, nil), "undocumented-domain")
		}
		if g == nil {
			fail("%s%v panicked on accepted parameters", kind, p)
		}
		out := finish(g, true, func(o c06Obs) string {
			n, rel := c06Family(kind, p)
			return c06Same(o, fmt.Sprintf("%s%v", kind, p), n, rel)
		})
		return ret(out)

	case "newdense":
		n := atoi(rest[0])
		var edges []byte
		if !(len(rest) == 2 && rest[1] == "nil") {
			edges = []byte{}
			for _, t := range rest[1:] {
				edges = append(edges, byte(atoi(t)))
			}
		}
		orig := append([]byte{}, edges...)
		g := c06Build(func() graph.Graph { return graph.NewDense(n, edges) })
		if edges != nil && len(edges) != n*(n-1)/2 {
			if g != nil {
				fail("NewDense(%d, %d bytes) must panic", n, len(edges))
			}
			return ret(finish(g, true, nil), "rejected")
		}
		if g == nil {
			fail("NewDense(%d, %v) panicked", n, orig)
		}
		out := finish(g, true, func(o c06Obs) string {
			return c06Same(o, "NewDense", n, func(u, v int) bool {
				return edges != nil && u < v && orig[v*(v-1)/2+u] > 0
			})
		})
		if g != nil && edges != nil {
			// independence from the caller's slice
			for i := range edges {
				if edges[i] == 0 {
					edges[i] = 1
				} else {
					edges[i] = 0
				}
			}
			if o2, ok := c06Observe(g); !ok || o2.String() != out {
				fail("NewDense: the graph changed after the caller modified the slice it was built from: %s became %s", out, o2.String())
			}
			tag("alias-probe")
		}
		return ret(out)

	case "newsparse":
		n := atoi(rest[0])
		var lists []sortints.SortedInts
		if !(len(rest) == 2 && rest[1] == "nil") {
			k := atoi(rest[1])
			lists = []sortints.SortedInts{}
			if k > 0 {
				for _, l := range splitTok(rest[2:], ";") {
					lists = append(lists, sortints.SortedInts(atois(l)))
				}
			}
		}
		member := make([]map[int]bool, len(lists))
		for i, l := range lists {
			member[i] = map[int]bool{}
			for _, x := range l {
				member[i][x] = true
			}
		}
		g := c06Build(func() graph.Graph { return graph.NewSparse(n, lists) })
		if lists != nil && len(lists) != n {
			if g != nil {
				fail("NewSparse(%d, %d lists) must panic", n, len(lists))
			}
			return ret(finish(g, false, nil), "rejected")
		}
		if g == nil {
			fail("NewSparse(%d, %v) panicked", n, lists)
		}
		out := finish(g, true, func(o c06Obs) string {
			return c06Same(o, "NewSparse", n, func(u, v int) bool { return lists != nil && member[u][v] })
		})
		if g != nil && lists != nil {
			for i := range lists {
				for j := range lists[i] {
					lists[i][j] = (lists[i][j] + 1 + j) % n
				}
				lists[i] = lists[i][:0]
			}
			for i := range lists {
				lists[i] = nil
			}
			if o2, ok := c06Observe(g); !ok || o2.String() != out {
				fail("NewSparse: the graph changed after the caller modified the slices it was built from: %s became %s", out, o2.String())
			}
			tag("alias-probe")
		}
		return ret(out)

	case "compdense":
		g, _ := parseEG(rest)
		a := adjOf(g)
		out := both(g, func(in graph.EditableGraph) graph.Graph { return graph.ComplementDense(in) }, true, func(o c06Obs) string {
			return c06Same(o, "ComplementDense", g.N, func(u, v int) bool { return !a(u, v) })
		})
		return ret(out)

	case "linegraph":
		g, _ := parseEG(rest)
		out := both(g, func(in graph.EditableGraph) graph.Graph { return graph.LineGraphDense(in) }, true, func(o c06Obs) string {
			return c06Same(o, "LineGraphDense", len(g.E), func(x, y int) bool {
				e, f := g.E[x], g.E[y]
				return e[0] == f[0] || e[0] == f[1] || e[1] == f[0] || e[1] == f[1]
			})
		})
		return ret(out)

	case "compview", "indview":
		g, r := parseEG(rest)
		var V []int
		if kind == "indview" {
			k := atoi(r[0])
			V = atois(r[1 : 1+k])
			r = r[1+k:]
		}
		eds, ok := c06ParseEdits(r)
		if !ok {
			return Result{Out: "bad-op"}
		}
		mk := func(u graph.Graph) graph.Graph {
			if kind == "compview" {
				return graph.Complement(u)
			}
			return graph.InducedSubgraph(u, append([]int{}, V...))
		}
		def := func(cur EG) func(o c06Obs) string {
			return func(o c06Obs) string {
				a := adjOf(cur)
				if kind == "compview" {
					return c06Same(o, "Complement view", cur.N, func(u, v int) bool { return !a(u, v) })
				}
				return c06Same(o, "InducedSubgraph view", len(V), func(i, j int) bool { return a(V[i], V[j]) })
			}
		}
		ud, us := graph.EditableGraph(g.Dense()), graph.EditableGraph(g.Sparse())
		uf := graph.EditableGraph(c06FatDense(g))
		vd := c06Build(func() graph.Graph { return mk(ud) })
		vs := c06Build(func() graph.Graph { return mk(us) })
		vf := c06Build(func() graph.Graph { return mk(uf) })
		if vd == nil || vs == nil || vf == nil {
			fail("%s: constructing the view panicked", kind)
			return ret("panic")
		}
		outs := []string{}
		cur := g
		step := func() {
			o := finish(vd, false, def(cur))
			if w := c06WF(vs, false); w != "" {
				fail("%s over a sparse graph is not well formed: %s", kind, w)
			}
			if os, ok := c06Observe(vs); !ok || os.String() != o {
				fail("%s over a sparse graph %s differs from the view over the equal dense graph %s", kind, os.String(), o)
			}
			if w := c06WF(vf, false); w != "" {
				fail("%s over a DenseGraph with edge bytes > 1 is not well formed: %s", kind, w)
			}
			if of, ok := c06Observe(vf); !ok || of.String() != o {
				fail("%s over a DenseGraph with edge bytes > 1 %s differs from the view over the equal 0/1 graph %s", kind, of.String(), o)
			}
			outs = append(outs, o)
		}
		step()
		for _, e := range eds {
			if e.add {
				ud.AddEdge(e.u, e.v)
				us.AddEdge(e.u, e.v)
				uf.AddEdge(e.u, e.v)
			} else {
				ud.RemoveEdge(e.u, e.v)
				us.RemoveEdge(e.u, e.v)
				uf.RemoveEdge(e.u, e.v)
			}
			cur = c06ApplyEG(cur, e)
			step()
		}
		if len(eds) > 0 {
			tag("tracks-underlying")
		}
		return ret(strings.Join(outs, " ; "))

	case "split", "contract":
		g, r := parseEG(rest)
		i, j := atoi(r[0]), atoi(r[1])
		a := adjOf(g)
		n := g.N
		if kind == "split" {
			out := both(g, func(in graph.EditableGraph) graph.Graph { graph.SplitEdge(in, i, j); return in }, false, func(o c06Obs) string {
				return c06Same(o, fmt.Sprintf("SplitEdge(%d,%d)", i, j), n+1, func(u, v int) bool {
					if u < n && v < n {
						return a(u, v) && !((u == i && v == j) || (u == j && v == i))
					}
					return v == n && (u == i || u == j)
				})
			})
			if i == j && out != "panic" {
				fail("SplitEdge(g, %d, %d) must panic", i, j)
			}
			if i != j && out == "panic" {
				fail("SplitEdge(g, %d, %d) panicked", i, j)
			}
			return ret(out)
		}
		up := func(x int) int {
			if x < j {
				return x
			}
			return x + 1
		}
		out := both(g, func(in graph.EditableGraph) graph.Graph { graph.Contract(in, i, j); return in }, false, func(o c06Obs) string {
			return c06Same(o, fmt.Sprintf("Contract(%d,%d)", i, j), n-1, func(x, y int) bool {
				u, v := up(x), up(y)
				return a(u, v) || (u == i && a(j, v))
			})
		})
		return ret(out)

	case "tseq":
		g, r := parseEG(rest)
		if len(r)%3 != 0 {
			return Result{Out: "bad-op"}
		}
		gd, gs := graph.EditableGraph(g.Dense()), graph.EditableGraph(g.Sparse())
		gf := graph.EditableGraph(c06FatDense(g))
		cur := g.Adj()
		outs := []string{}
		observe := func(step string) bool {
			n := len(cur)
			a := cur
			def := func(o c06Obs) string {
				return c06Same(o, "after "+step, n, func(u, v int) bool { return a[u][v] })
			}
			o := finish(gd, false, def)
			if w := c06WF(gs, false); w != "" {
				fail("tseq on a SparseGraph after %s: not well formed: %s", step, w)
			}
			if os, ok := c06Observe(gs); !ok || os.String() != o {
				fail("tseq after %s: SparseGraph %s differs from DenseGraph %s", step, os.String(), o)
			}
			if w := c06WF(gf, false); w != "" {
				fail("tseq on a DenseGraph with edge bytes > 1 after %s: not well formed: %s", step, w)
			}
			if of, ok := c06Observe(gf); !ok || of.String() != o {
				fail("tseq after %s: DenseGraph with edge bytes > 1 %s differs from the 0/1 DenseGraph %s", step, of.String(), o)
			}
			outs = append(outs, o)
			return o != "panic"
		}
		observe("construction")
		for k := 0; k < len(r); k += 3 {
			op, i, j := r[k], atoi(r[k+1]), atoi(r[k+2])
			n := len(cur)
			step := fmt.Sprintf("step %d (%s %d %d)", k/3+1, op, i, j)
			if (op != "c" && op != "s") || i < 0 || j < 0 || i >= n || j >= n {
				return Result{Out: "bad-op"}
			}
			if op == "s" && i == j {
				// documented panic, nothing may have been modified; the whole line is a panic
				pd := guard(func() string { graph.SplitEdge(gd, i, j); return "ok" })
				ps := guard(func() string { graph.SplitEdge(gs, i, j); return "ok" })
				pf := guard(func() string { graph.SplitEdge(gf, i, j); return "ok" })
				if pd != "panic" || ps != "panic" || pf != "panic" {
					fail("SplitEdge(g, %d, %d) must panic", i, j)
				}
				return ret("panic", "rejected")
			}
			var pd, ps, pf string
			if op == "c" {
				pd = guard(func() string { graph.Contract(gd, i, j); return "ok" })
				ps = guard(func() string { graph.Contract(gs, i, j); return "ok" })
				pf = guard(func() string { graph.Contract(gf, i, j); return "ok" })
				// expectation: i receives the neighbours of j, then row/column j is deleted
				nb := make([]bool, n)
				copy(nb, cur[j])
				for v := 0; v < n; v++ {
					if nb[v] && v != i {
						cur[i][v], cur[v][i] = true, true
					}
				}
				next := [][]bool{}
				for u := 0; u < n; u++ {
					if u == j {
						continue
					}
					row := []bool{}
					for v := 0; v < n; v++ {
						if v != j {
							row = append(row, cur[u][v])
						}
					}
					next = append(next, row)
				}
				cur = next
			} else {
				pd = guard(func() string { graph.SplitEdge(gd, i, j); return "ok" })
				ps = guard(func() string { graph.SplitEdge(gs, i, j); return "ok" })
				pf = guard(func() string { graph.SplitEdge(gf, i, j); return "ok" })
				cur[i][j], cur[j][i] = false, false
				for u := range cur {
					cur[u] = append(cur[u], u == i || u == j)
				}
				last := make([]bool, n+1)
				last[i], last[j] = true, true
				cur = append(cur, last)
			}
			if pd == "panic" || ps == "panic" || pf == "panic" {
				fail("tseq %s panicked (dense: %s, sparse: %s, dense with edge bytes > 1: %s)", step, pd, ps, pf)
				return ret("panic")
			}
			if !observe(step) {
				return ret("panic")
			}
		}
		if len(r) >= 6 {
			tag("nontrivial")
		}
		return ret(strings.Join(outs, " ; "))

	case "random":
		n := atoi(rest[0])
		p, err := strconv.ParseFloat(rest[1], 64)
		if err != nil {
			return Result{Out: "bad-op"}
		}
		seed, _ := strconv.ParseInt(rest[2], 10, 64)
		g := c06Build(func() graph.Graph { return graph.RandomGraph(n, p, seed) })
		if g == nil {
			fail("RandomGraph(%d, %v, %d) panicked", n, p, seed)
		}
		out := finish(g, true, func(o c06Obs) string {
			if o.N != n {
				return fmt.Sprintf("RandomGraph(%d, ...) has %d vertices", n, o.N)
			}
			if p <= 0 && len(o.E) != 0 {
				return "RandomGraph with p = 0 has an edge"
			}
			if p >= 1 && len(o.E) != n*(n-1)/2 {
				return "RandomGraph with p = 1 is not complete"
			}
			return ""
		})
		return ret(out)

	case "randtree":
		n := atoi(rest[0])
		seed, _ := strconv.ParseInt(rest[1], 10, 64)
		g := c06Build(func() graph.Graph { return graph.RandomTree(n, seed) })
		if n < 2 {
			// RandomTree(n < 2) dies in make([]int, n-2); not documented, a panic or a tree are both accepted
			out := finish(g, true, func(o c06Obs) string {
				if !c06IsTree(o) {
					return fmt.Sprintf("RandomTree(%d) is not a tree", n)
				}
				return ""
			})
			return ret(out, "undocumented-domain")
		}
		if g == nil {
			fail("RandomTree(%d, %d) panicked", n, seed)
		}
		out := finish(g, true, func(o c06Obs) string {
			if o.N != n || !c06IsTree(o) {
				return fmt.Sprintf("RandomTree(%d, %d) is not a tree on %d vertices: %s", n, seed, n, o.String())
			}
			return ""
		})
		return ret(out)

	case "prufer":
		code := atois(rest)
		n := len(code) + 2
		g := c06Build(func() graph.Graph { return graph.PruferDecode(append([]int{}, code...)) })
		if g == nil {
			fail("PruferDecode(%v) panicked", code)
		}
		out := finish(g, true, func(o c06Obs) string {
			if o.N != n || !c06IsTree(o) {
				return fmt.Sprintf("PruferDecode(%v) is not a tree on %d vertices: %s", code, n, o.String())
			}
			if back := c06Prufer(n, o.E); showInts(back) != showInts(code) {
				return fmt.Sprintf("PruferDecode(%v) is the tree with Prüfer code %v", code, back)
			}
			return ""
		})
		return ret(out)

	case "graph6", "sparse6":
		parts := splitTok(rest, "|")
		if len(parts) != 2 {
			return Result{Out: "bad-op"}
		}
		bs := atois(parts[0])
		str := make([]byte, len(bs))
		for i, v := range bs {
			str[i] = byte(v)
		}
		want, _ := parseEG(parts[1])
		a := adjOf(want)
		var g graph.Graph
		var derr error
		if kind == "graph6" {
			g = c06Build(func() graph.Graph { d, err := graph.Graph6Decode(string(str)); derr = err; return d })
		} else {
			g = c06Build(func() graph.Graph { d, err := graph.Sparse6Decode(string(str)); derr = err; return d })
		}
		if g == nil || derr != nil {
			fail("%s decoder rejected or panicked on the valid string %q (%v)", kind, string(str), derr)
			return ret("panic")
		}
		out := finish(g, true, func(o c06Obs) string {
			return c06Same(o, kind+" decode of "+strconv.Quote(string(str)), want.N, a)
		})
		return ret(out)

	case "multicode":
		bs := atois(rest)
		b := make([]byte, len(bs))
		for i, v := range bs {
			b[i] = byte(v)
		}
		g := c06Build(func() graph.Graph { return graph.MulticodeDecode(b) })
		if g == nil {
			fail("MulticodeDecode(%v) panicked", bs)
		}
		out := finish(g, true, func(o c06Obs) string {
			// definition of the format: after the header n, the list of larger neighbours of vertex 0, a 0, those of vertex 1, ...
			e := map[[2]int]bool{}
			cur := 0
			for _, x := range bs[1:] {
				if x == 0 {
					cur++
				} else {
					e[[2]int{cur, x - 1}] = true
				}
			}
			return c06Same(o, "MulticodeDecode", bs[0], func(u, v int) bool { return e[[2]int{u, v}] })
		})
		return ret(out)
	}
	return Result{Out: "bad-op"}
}

// ---- generators ----

func c06Tokens(kind string, p ...int) string {
	if len(p) == 0 {
		return "c06 " + kind
	}
	return "c06 " + kind + " " + joinInts(p)
}

// c06SparseLists: symmetric neighbour lists of g in random order with repeats.
func c06SparseLists(r *rand.Rand, g EG) string {
	lists := make([][]int, g.N)
	for _, e := range g.E {
		lists[e[0]] = append(lists[e[0]], e[1])
		lists[e[1]] = append(lists[e[1]], e[0])
	}
	parts := make([]string, g.N)
	for i, l := range lists {
		if len(l) > 0 {
			for k := r.Intn(3); k > 0; k-- {
				l = append(l, l[r.Intn(len(l))])
			}
			r.Shuffle(len(l), func(a, b int) { l[a], l[b] = l[b], l[a] })
		}
		parts[i] = joinInts(l)
	}
	s := fmt.Sprintf("c06 newsparse %d %d", g.N, g.N)
	if g.N > 0 {
		s += " " + strings.Join(parts, " ; ")
	}
	return strings.Join(strings.Fields(s), " ")
}

func c06DenseBytes(r *rand.Rand, g EG, wild bool) string {
	b := make([]int, g.N*(g.N-1)/2)
	for _, e := range g.E {
		b[e[1]*(e[1]-1)/2+e[0]] = 1
		if wild {
			b[e[1]*(e[1]-1)/2+e[0]] = []int{1, 2, 3, 7, 128, 255}[r.Intn(6)]
		}
	}
	s := fmt.Sprintf("c06 newdense %d", g.N)
	if len(b) > 0 {
		s += " " + joinInts(b)
	}
	return s
}

func c06RandomLine(n int, p float64, seed int64) string {
	rr := rand.New(rand.NewSource(seed))
	bits := []int{}
	for i := 0; i < n; i++ {
		for j := 0; j < i; j++ {
			if rr.Float64() < p {
				bits = append(bits, 1)
			} else {
				bits = append(bits, 0)
			}
		}
	}
	s := fmt.Sprintf("c06 random %d %s %d", n, strconv.FormatFloat(p, 'g', -1, 64), seed)
	if len(bits) > 0 {
		s += " " + joinInts(bits)
	}
	return s
}

func c06TreeLine(n int, seed int64) string {
	s := fmt.Sprintf("c06 randtree %d %d", n, seed)
	if n > 2 {
		rr := rand.New(rand.NewSource(seed))
		code := make([]int, n-2)
		for i := range code {
			code[i] = rr.Intn(n)
		}
		s += " " + joinInts(code)
	}
	return s
}

func c06Multicode(g EG) string {
	b := []int{g.N}
	a := g.Adj()
	for u := 0; u+1 < g.N; u++ {
		for v := u + 1; v < g.N; v++ {
			if a[u][v] {
				b = append(b, v+1)
			}
		}
		b = append(b, 0)
	}
	return "c06 multicode " + joinInts(b)
}

// c06N: the size field N(n) of formats.txt
func c06N(n int) []int {
	if n <= 62 {
		return []int{n + 63}
	}
	return []int{126, (n>>12)&63 + 63, (n>>6)&63 + 63, n&63 + 63}
}

func c06Pack(bits []int, pad int) []int {
	for len(bits)%6 != 0 {
		bits = append(bits, pad)
	}
	out := []int{}
	for i := 0; i < len(bits); i += 6 {
		v := 0
		for j := 0; j < 6; j++ {
			v = v<<1 | bits[i+j]
		}
		out = append(out, v+63)
	}
	return out
}

// c06Graph6: graph6 string of g written from formats.txt (upper triangle column by column, zero padding)
func c06Graph6(g EG, header bool) string {
	a := g.Adj()
	bits := []int{}
	for v := 0; v < g.N; v++ {
		for u := 0; u < v; u++ {
			if a[u][v] {
				bits = append(bits, 1)
			} else {
				bits = append(bits, 0)
			}
		}
	}
	bs := append(c06N(g.N), c06Pack(bits, 0)...)
	if header {
		h := []int{}
		for _, c := range []byte(">>graph6<<") {
			h = append(h, int(c))
		}
		bs = append(h, bs...)
	}
	return "c06 graph6 " + joinInts(bs) + " | " + g.Tokens()
}

// c06Sparse6: sparse6 string of g written from formats.txt. Only called for n that is not a power of two >= 2,
// where padding with 1-bits can never be read as an edge (the special padding rule of the format is C07's business).
func c06Sparse6(g EG) string {
	n := g.N
	k := 0
	for n > 1 && 1<<uint(k) < n {
		k++
	}
	bits := []int{}
	put := func(b, x int) {
		bits = append(bits, b)
		for j := k - 1; j >= 0; j-- {
			bits = append(bits, (x>>uint(j))&1)
		}
	}
	v := 0
	for _, e := range g.E { // sorted by larger end point, then smaller
		u, w := e[0], e[1]
		switch {
		case w == v:
			put(0, u)
		case w == v+1:
			put(1, u)
			v++
		default:
			put(1, w)
			v = w
			put(0, u)
		}
	}
	bs := append([]int{58}, c06N(n)...)
	bs = append(bs, c06Pack(bits, 1)...)
	return "c06 sparse6 " + joinInts(bs) + " | " + g.Tokens()
}

func c06Edits(r *rand.Rand, g EG, k int) string {
	s := ""
	for ; k > 0 && g.N >= 2; k-- {
		u, v := r.Intn(g.N), r.Intn(g.N)
		op := "a"
		if r.Intn(2) == 0 {
			op = "r"
			if len(g.E) > 0 && r.Intn(2) == 0 {
				e := g.E[r.Intn(len(g.E))]
				u, v = e[0], e[1]
			}
		}
		s += fmt.Sprintf(" %s %d %d", op, u, v)
	}
	return s
}

func c06Gen(r *rand.Rand, tier string, emit func(string)) {
	thorough := tier == "thorough"
	// 1. every family, every small parameter value (smallest accepted and rejected values included)
	lim := 9
	if thorough {
		lim = 16
	}
	for n := -1; n <= lim; n++ {
		for _, k := range []string{"complete", "path", "cycle", "star", "friendship"} {
			emit(c06Tokens(k, n))
		}
	}
	for n := -1; n <= lim; n++ {
		emit(c06Tokens("snark", n))
	}
	for d := -1; d <= 5; d++ {
		emit(c06Tokens("hypercube", d))
		emit(c06Tokens("folded", d+1))
	}
	if thorough {
		emit(c06Tokens("hypercube", 6))
		emit(c06Tokens("folded", 7))
	}
	emit(c06Tokens("folded", -1))
	emit(c06Tokens("partite"))
	for a := 0; a <= 4; a++ {
		emit(c06Tokens("partite", a))
		for b := 0; b <= 4; b++ {
			emit(c06Tokens("partite", a, b))
			emit(c06Tokens("rook", a, b))
			for c := 0; c <= 3; c++ {
				emit(c06Tokens("partite", a, b, c))
			}
		}
	}
	kn := 7
	if thorough {
		kn = 8
	}
	for n := 0; n <= kn; n++ {
		for k := -1; k <= n+1; k++ {
			emit(c06Tokens("kneser", n, k))
			emit(c06Tokens("bikneser", n, k))
		}
	}
	for n := 0; n <= 8; n++ {
		emit(c06Tokens("circulant", n))
		for d := -n - 1; d <= n+1; d++ {
			emit(c06Tokens("circulant", n, d))
			if d >= 0 {
				emit(c06Tokens("circulant", n, d, -d, d+1))
			}
		}
		for m := 0; m <= 4; m++ {
			emit(c06Tokens("circbip", n%5, m))
			for d := -m - 1; d <= m+1; d++ {
				emit(c06Tokens("circbip", n%5, m, d))
				emit(c06Tokens("circbip", n%5, m, d, 1))
			}
		}
	}
	for n := 2; n <= 10; n++ {
		for k := -1; k <= n/2+1; k++ {
			emit(c06Tokens("petersen", n, k))
		}
	}
	// 2. NewDense / NewSparse: boundary cases, then random inputs with the aliasing probe
	for n := 0; n <= 3; n++ {
		emit(fmt.Sprintf("c06 newdense %d nil", n))
		emit(fmt.Sprintf("c06 newsparse %d nil", n))
	}
	emit("c06 newdense 0")
	emit("c06 newdense 1")
	emit("c06 newdense 2 0")
	emit("c06 newdense 2 1")
	emit("c06 newdense 2 255")
	emit("c06 newdense 3 1 0")     // too short: documented panic
	emit("c06 newdense 3 1 0 1 1") // too long
	emit("c06 newdense 0 1")
	emit("c06 newsparse 0 0")
	emit("c06 newsparse 2 2 1 ; 0")
	emit("c06 newsparse 2 1 1") // wrong number of lists: documented panic
	emit("c06 newsparse 2 3 1 ; 0 ;")
	emit("c06 newsparse 3 3 2 1 1 2 ; 0 0 ; 0")
	cases := 250
	maxN := 9
	if thorough {
		cases = 25000
		maxN = 15
	}
	for c := 0; c < cases; c++ {
		g := genEG(r, maxN)
		emit(c06DenseBytes(r, g, c%3 == 0))
		emit(c06SparseLists(r, g))
	}
	// 3. transformations and views on all graphs with at most 4 vertices, then random graphs
	small := []EG{}
	for n := 0; n <= 4; n++ {
		for mask := uint64(0); mask < 1<<uint(n*(n-1)/2); mask++ {
			small = append(small, fromMask(n, mask))
		}
	}
	trans := func(g EG) {
		t := g.Tokens()
		emit("c06 compdense " + t)
		emit("c06 linegraph " + t)
		emit("c06 compview " + t + c06Edits(r, g, r.Intn(4)))
		k := 0
		if g.N > 0 {
			k = r.Intn(g.N + 1)
		}
		V := r.Perm(g.N)[:k]
		vs := ""
		if k > 0 {
			vs = " " + joinInts(V)
		}
		emit(fmt.Sprintf("c06 indview %s %d%s%s", t, k, vs, c06Edits(r, g, r.Intn(3))))
		if g.N >= 1 {
			i, j := r.Intn(g.N), r.Intn(g.N)
			if len(g.E) > 0 && r.Intn(2) == 0 {
				e := g.E[r.Intn(len(g.E))]
				i, j = e[0], e[1]
				if r.Intn(2) == 0 {
					i, j = j, i
				}
			}
			emit(fmt.Sprintf("c06 split %s %d %d", t, i, j))
			emit(fmt.Sprintf("c06 contract %s %d %d", t, i, j))
		}
		emit(c06Multicode(g))
		emit(c06Graph6(g, r.Intn(8) == 0))
		if g.N < 2 || g.N&(g.N-1) != 0 {
			emit(c06Sparse6(g))
		}
	}
	for _, g := range small {
		trans(g)
	}
	for c := 0; c < cases; c++ {
		trans(genEG(r, maxN))
	}
	// 3b. sequences of Contract / SplitEdge applied in place (contractions leave spare capacity, splits grow into it)
	tseq := func(g EG, steps int) string {
		n := g.N
		var b strings.Builder
		b.WriteString("c06 tseq " + g.Tokens())
		for k := 0; k < steps; k++ {
			contract := n >= 2 && (n >= 9 || r.Intn(2) == 0 || (k == 0 && r.Intn(2) == 0))
			if n < 2 {
				break
			}
			if contract {
				i, j := r.Intn(n), r.Intn(n)
				if r.Intn(3) != 0 && n >= 2 {
					j = r.Intn(n - 1) // a vertex that is not the last one: the rows above it move down
				}
				fmt.Fprintf(&b, " c %d %d", i, j)
				n--
			} else {
				i, j := r.Intn(n), r.Intn(n)
				for j == i {
					j = r.Intn(n)
				}
				fmt.Fprintf(&b, " s %d %d", i, j)
				n++
			}
		}
		return b.String()
	}
	for n := 3; n <= 8; n++ {
		k := randomEG(r, n, 2) // complete
		emit(tseq(k, 2))
		emit(tseq(k, 2+r.Intn(7)))
		emit(fmt.Sprintf("c06 tseq %s c 0 1 s 0 1", k.Tokens()))
		emit(fmt.Sprintf("c06 tseq %s c %d 0 s 0 %d c 0 0 s 1 0", k.Tokens(), n-1, n-2))
	}
	emit("c06 tseq 1 0 c 0 0")
	emit("c06 tseq 2 1 0 1 s 0 1 s 0 2 c 2 3 c 0 1")
	emit("c06 tseq 3 0 s 1 1")
	tcases := 200
	if thorough {
		tcases = 20000
	}
	for c := 0; c < tcases; c++ {
		var g EG
		switch r.Intn(3) {
		case 0:
			g = randomEG(r, 2+r.Intn(7), 2)
		case 1:
			g = randomEG(r, 2+r.Intn(7), []float64{0.3, 0.5, 0.8}[r.Intn(3)])
		default:
			g = namedEG(r, 8)
		}
		emit(tseq(g, 2+r.Intn(7)))
	}
	// 4. random generators over many seeds; Prüfer codes
	for n := 0; n <= 8; n++ {
		for s := int64(0); s < 6; s++ {
			emit(c06RandomLine(n, []float64{0, 0.3, 0.5, 0.9, 1, 2}[s], 7*int64(n)+s))
			emit(c06TreeLine(n, 11*int64(n)+s))
		}
	}
	for c := 0; c < cases; c++ {
		n := r.Intn(maxN + 4)
		emit(c06RandomLine(n, r.Float64(), r.Int63n(1<<40)))
		emit(c06TreeLine(2+r.Intn(maxN+6), r.Int63n(1<<40)))
	}
	emit("c06 prufer")
	for n := 3; n <= 5; n++ { // every code of length n-2 for n <= 5
		tot := 1
		for i := 0; i < n-2; i++ {
			tot *= n
		}
		for x := 0; x < tot; x++ {
			code := make([]int, n-2)
			y := x
			for i := range code {
				code[i] = y % n
				y /= n
			}
			emit("c06 prufer " + joinInts(code))
		}
	}
	for c := 0; c < cases; c++ {
		n := 3 + r.Intn(maxN+4)
		code := make([]int, n-2)
		for i := range code {
			code[i] = r.Intn(n)
			if r.Intn(3) == 0 && i > 0 {
				code[i] = code[i-1]
			}
		}
		emit("c06 prufer " + joinInts(code))
	}
	emit("c06 multicode 0")
	emit("c06 multicode 1")
	for _, n := range []int{17, 18, 19, 33, 64, 100} { // vertex labels beyond 16: byte arithmetic in the decoder
		emit(c06Multicode(randomEG(r, n, 0.15)))
	}
	emit(c06Graph6(randomEG(r, 63, 0.2), false)) // four-byte size field
	emit(c06Sparse6(randomEG(r, 70, 0.05)))
	// 5. a few larger members of each family
	big := 12
	if thorough {
		big = 60
	}
	for c := 0; c < big; c++ {
		emit(c06Tokens("complete", 10+r.Intn(30)))
		emit(c06Tokens("path", 10+r.Intn(40)))
		emit(c06Tokens("cycle", 10+r.Intn(40)))
		emit(c06Tokens("star", 10+r.Intn(40)))
		emit(c06Tokens("snark", 2*(5+r.Intn(5))+1))
		emit(c06Tokens("friendship", 10+r.Intn(15)))
		emit(c06Tokens("rook", 2+r.Intn(5), 2+r.Intn(5)))
		np := 2 + r.Intn(4)
		parts := make([]int, np)
		for i := range parts {
			parts[i] = r.Intn(7)
		}
		emit(c06Tokens("partite", parts...))
		n := 5 + r.Intn(16)
		nd := 1 + r.Intn(4)
		ds := []int{n}
		for i := 0; i < nd; i++ {
			ds = append(ds, r.Intn(4*n)-2*n)
		}
		emit(c06Tokens("circulant", ds...))
		m := 1 + r.Intn(10)
		ds2 := []int{r.Intn(10), m}
		for i := 0; i < nd; i++ {
			ds2 = append(ds2, r.Intn(4*m+1)-2*m)
		}
		emit(c06Tokens("circbip", ds2...))
		pn := 3 + r.Intn(20)
		emit(c06Tokens("petersen", pn, r.Intn((pn-1)/2+1)))
	}
}

func init() {
	register(&Proto{Name: "c06", Props: []string{"C06"}, Run: c06Run, Gen: c06Gen})
}
