//go:build !verif_nosearch

package main

import (
	"fmt"
	"math/big"
	"math/bits"
	"math/rand"
	"sort"
	"strconv"
	"strings"
	"time"

	"github.com/Tom-Johnston/mamba/graph"
	"github.com/Tom-Johnston/mamba/graph/search"
)

// Protocols c03fn / c03fnx (property C03): function-level examination of isCanonical and addAugmentations on ONE graph,
// far beyond the sizes a full search reaches (8..14 vertices), through the hook graph/search/verif_export.go
// (VerifStep, build tag verif): the graph is built on an iterator by AddVertex exactly as Next does, isCanonical is
// called, then (if accepted) addAugmentations on the same state, and addAugmentations on a fresh state.
//
//	c03fn <nv> <mask>                       oracle only; both sides reply "ok"
//	c03fnx <nv> <mask> tab <entry> <entry>   exact (state-level, strict) comparison with the Search model
//
// <mask> is the decimal edge mask in DenseGraph order (bit v(v-1)/2+u for u<v; a big integer for nv >= 12).
//
// c03fn — oracle (c03fnOracle), independent of the model, of the library's automorphism group and of the particular
// canonical-deletion rule: Aut(g) is computed by a backtracking search over a stabiliser chain (colour refinement +
// adjacency consistency); isCanonical, evaluated with each of several vertices of every orbit in the last position, must
// be constant on Aut(g)-orbits and accept exactly one orbit; the sets pushed by addAugmentations must be pairwise
// inequivalent under Aut(g), their number must be the returned count, and no orbit of neighbourhood sets without a
// representative among them may have an extension that isCanonical accepts.
//
// c03fnx — reply  acc=<0|1>;aug=<num>:<masks>|-;fresh=<num>:<masks>.  The Lean side runs Search.isCanonical /
// Search.addAugmentations of the proved model; the canonical-labelling oracle of the model is answered from the table
// after "tab" (the real library's answers for this graph, on fresh storage): <vb|->:<perm|x>:<orbits>:<gens> — comma
// separated numbers, generators separated by '.', "x" = early exit.  This compares MORE than the property fixes (which
// orbit is accepted, which representatives are pushed, in which order): a strict stream.

type c03fnOut struct {
	accept             bool
	numAfter, numFresh int
	after, fresh       []uint
}

func c03fnMask(m c03Mat) *big.Int {
	x := new(big.Int)
	for v := 0; v < len(m); v++ {
		for u := 0; u < v; u++ {
			if m[u][v] {
				x.SetBit(x, int(c03PairIndex(u, v)), 1)
			}
		}
	}
	return x
}

func c03fnFromMask(nv int, s string) (c03Mat, bool) {
	x, ok := new(big.Int).SetString(s, 10)
	if !ok || x.Sign() < 0 || nv < 0 || nv > 20 || x.BitLen() > nv*(nv-1)/2 {
		return nil, false
	}
	m := make(c03Mat, nv)
	for i := range m {
		m[i] = make([]bool, nv)
	}
	for v := 0; v < nv; v++ {
		for u := 0; u < v; u++ {
			if x.Bit(int(c03PairIndex(u, v))) == 1 {
				m[u][v], m[v][u] = true, true
			}
		}
	}
	return m, true
}

func c03fnDense(m c03Mat) *graph.DenseGraph {
	g := graph.NewDense(len(m), nil)
	for v := 0; v < len(m); v++ {
		for u := 0; u < v; u++ {
			if m[u][v] {
				g.AddEdge(u, v)
			}
		}
	}
	return g
}

func c03fnDegs(m c03Mat) []int {
	d := make([]int, len(m))
	for v := range m {
		for u := range m {
			if m[v][u] {
				d[v]++
			}
		}
	}
	return d
}

// c03fnCanonical: the library's canonical labelling of m, called as getAutomorphismGroup calls it, on fresh storage.
func c03fnCanonical(m c03Mat, check bool, vb uint) c04Ans {
	nv := len(m)
	nb := make([][]int, nv)
	ne := 0
	for v := 0; v < nv; v++ {
		nb[v] = []int{}
		for u := 0; u < nv; u++ {
			if m[v][u] {
				nb[v] = append(nb[v], u)
				ne++
			}
		}
	}
	ne /= 2
	op := graph.NewOrderedPartition(nv, ne, nil)
	st := graph.NewStorage(nv, ne)
	opt := &graph.CanonicalOptions{CheckViability: check, ViableBits: vb}
	perm, orbits, gens := graph.CanonicalIsomorphAllocated(nv, ne, nb, op, st, opt)
	ans := c04Ans{}
	if perm == nil {
		return ans
	}
	ans.perm = append([]int{}, perm...)
	ans.orbits = append([]int{}, orbits...)
	for _, g := range gens {
		ans.gens = append(ans.gens, append([]int{}, g...))
	}
	return ans
}

func c03fnInts(a []int) string {
	s := make([]string, len(a))
	for i, v := range a {
		s[i] = strconv.Itoa(v)
	}
	return strings.Join(s, ",")
}

func c03fnEntry(m c03Mat, check bool, vb uint) string {
	ans := c03fnCanonical(m, check, vb)
	vbs := "-"
	if check {
		vbs = strconv.FormatUint(uint64(vb), 10)
	}
	if ans.perm == nil {
		return vbs + ":x::"
	}
	gs := make([]string, len(ans.gens))
	for i, g := range ans.gens {
		gs[i] = c03fnInts(g)
	}
	return fmt.Sprintf("%s:%s:%s:%s", vbs, c03fnInts(ans.perm), c03fnInts(ans.orbits), strings.Join(gs, "."))
}

// c03fnViable: the degree tests of canonical deletion for the last vertex, from the definition.
// verdict 0 = rejected, 1 = accepted without looking at the automorphism group, 2 = undecided: vb = the other vertices
// that pass the tests as well (the last vertex is canonical iff it is in the orbit of the first of vb ∪ {last} in the
// canonical order).
func c03fnViable(m c03Mat) (verdict int, vb uint) {
	nv := len(m)
	deg := c03fnDegs(m)
	last := nv - 1
	key := func(v int) (s, q int) {
		for j := 0; j < nv; j++ {
			if m[v][j] {
				s += deg[j]
				q += deg[j] * deg[j]
			}
		}
		return
	}
	ls, lq := key(last)
	for v := 0; v < last; v++ {
		if deg[v] < deg[last] {
			return 0, 0
		}
	}
	for v := 0; v < last; v++ {
		if deg[v] != deg[last] {
			continue
		}
		s, q := key(v)
		if s > ls || s == ls && q > lq {
			return 0, 0
		}
		if s == ls && q == lq {
			vb |= 1 << uint(v)
		}
	}
	if vb == 0 {
		return 1, 0
	}
	return 2, vb
}

func c03fnLine(m c03Mat) string {
	nv := len(m)
	entries := []string{c03fnEntry(m, false, 0)}
	if v, vb := c03fnViable(m); v == 2 {
		entries = append(entries, c03fnEntry(m, true, vb))
	}
	return fmt.Sprintf("c03fnx %d %s tab %s", nv, c03fnMask(m).String(), strings.Join(entries, " "))
}

// ---- an independent automorphism group ----

// c03fnColours: the coarsest equitable colouring of m in which the vertices 0..fix-1 have colours of their own;
// colour numbers are assigned from sorted signatures, hence invariant under automorphisms fixing 0..fix-1.
func c03fnColours(m c03Mat, fix int) []int {
	n := len(m)
	col := make([]int, n)
	for v := 0; v < n; v++ {
		if v < fix {
			col[v] = v + 1
		}
	}
	for {
		sigs := make([]string, n)
		for v := 0; v < n; v++ {
			nb := []int{}
			for u := 0; u < n; u++ {
				if m[v][u] {
					nb = append(nb, col[u])
				}
			}
			sort.Ints(nb)
			sigs[v] = fmt.Sprint(col[v], nb)
		}
		uniq := append([]string{}, sigs...)
		sort.Strings(uniq)
		rank := map[string]int{}
		for _, s := range uniq {
			if _, ok := rank[s]; !ok {
				rank[s] = len(rank)
			}
		}
		next := make([]int, n)
		classes := map[int]bool{}
		old := map[int]bool{}
		for v := 0; v < n; v++ {
			next[v] = rank[sigs[v]]
			classes[next[v]] = true
			old[col[v]] = true
		}
		col = next
		if len(classes) == len(old) {
			return col
		}
	}
}

// c03fnAut returns automorphisms generating Aut(m) (a strong generating set along the base 0,1,2,...), or ok=false
// when the search budget is exhausted.
func c03fnAut(m c03Mat) (gens [][]int, ok bool) {
	n := len(m)
	budget := 4000000
	for i := n - 2; i >= 0; i-- {
		col := c03fnColours(m, i)
		// orbit of i under the automorphisms found so far (all of them fix 0..i-1)
		inOrbit := make([]bool, n)
		closure := func() {
			inOrbit[i] = true
			for changed := true; changed; {
				changed = false
				for v := 0; v < n; v++ {
					if inOrbit[v] {
						for _, g := range gens {
							if !inOrbit[g[v]] {
								inOrbit[g[v]] = true
								changed = true
							}
						}
					}
				}
			}
		}
		closure()
		for v := i + 1; v < n; v++ {
			if inOrbit[v] || col[v] != col[i] {
				continue
			}
			sigma := make([]int, n)
			used := make([]bool, n)
			for j := 0; j < i; j++ {
				sigma[j] = j
				used[j] = true
			}
			var rec func(k int) bool
			rec = func(k int) bool {
				if k == n {
					return true
				}
				for w := i; w < n; w++ {
					if k == i && w != v {
						continue
					}
					if used[w] || col[w] != col[k] {
						continue
					}
					good := true
					for j := 0; j < k; j++ {
						if m[j][k] != m[sigma[j]][w] {
							good = false
							break
						}
					}
					if !good {
						continue
					}
					budget--
					if budget < 0 {
						return false
					}
					sigma[k], used[w] = w, true
					if rec(k + 1) {
						return true
					}
					used[w] = false
				}
				return false
			}
			if rec(i) {
				gens = append(gens, sigma)
				closure()
			}
			if budget < 0 {
				return nil, false
			}
		}
	}
	return gens, true
}

type c03fnUF []int

func c03fnNewUF(n int) c03fnUF {
	u := make(c03fnUF, n)
	for i := range u {
		u[i] = i
	}
	return u
}

func (u c03fnUF) find(x int) int {
	for u[x] != x {
		u[x] = u[u[x]]
		x = u[x]
	}
	return x
}

func (u c03fnUF) union(a, b int) {
	a, b = u.find(a), u.find(b)
	if a != b {
		u[a] = b
	}
}

func c03fnImage(g []int, s uint) uint {
	var t uint
	for x := s; x != 0; x &= x - 1 {
		t |= 1 << uint(g[bits.TrailingZeros(x)])
	}
	return t
}

func c03fnShowSet(s uint) string {
	vs := []string{}
	for x := s; x != 0; x &= x - 1 {
		vs = append(vs, strconv.Itoa(bits.TrailingZeros(x)))
	}
	return "{" + strings.Join(vs, ",") + "}"
}

func c03fnStep(m c03Mat) (o c03fnOut, err string) {
	defer func() {
		if e := recover(); e != nil {
			err = fmt.Sprint(e)
		}
	}()
	o.accept, o.numAfter, o.after, o.numFresh, o.fresh = search.VerifStep(c03fnDense(m))
	return o, ""
}

// c03fnSwapLast: m with the labels of v and the last vertex exchanged
func c03fnSwapLast(m c03Mat, v int) c03Mat {
	n := len(m)
	p := make([]int, n)
	for i := range p {
		p[i] = i
	}
	p[v], p[n-1] = n-1, v
	return c03fnRelabel(m, p)
}

// c03fnExtend: m plus a new last vertex adjacent to the set s
func c03fnExtend(m c03Mat, s uint) c03Mat {
	n := len(m)
	r := c03fnEmpty(n + 1)
	for a := 0; a < n; a++ {
		copy(r[a], m[a])
	}
	for x := s; x != 0; x &= x - 1 {
		v := bits.TrailingZeros(x)
		r[n][v], r[v][n] = true, true
	}
	return r
}

// c03fnOracle judges the implementation on m, independently of the model, of the library's automorphism group AND of the
// particular canonical-deletion rule (which vertex orbit is "the one to delete" is not fixed by the property):
//
//	accept(v) := isCanonical on m relabelled so that v is the last vertex (v and the last vertex exchanged), evaluated for
//	the last vertex, the smallest and the largest vertex of every Aut(m)-orbit;
//	(i)  accept is constant on Aut(m)-orbits, (ii) exactly one Aut(m)-orbit is accepted;
//	addAugmentations (right after an accepting isCanonical, and with nothing cached): count = number pushed, the pushed
//	sets are pairwise inequivalent under Aut(m), and no orbit of neighbourhood sets that has no representative among
//	them has an accepted extension (all such orbits of at most mindeg+1 vertices, and a sample of the larger ones).
func c03fnOracle(m c03Mat, r *rand.Rand) (msg string, tags []string) {
	nv := len(m)
	g6 := m.graph6()
	gens, ok := c03fnAut(m)
	if !ok {
		return "", []string{"aut-budget"}
	}
	vuf := c03fnNewUF(nv)
	for _, g := range gens {
		for v := 0; v < nv; v++ {
			vuf.union(v, g[v])
		}
	}
	orbitOf := func(v int) []int {
		o := []int{}
		for u := 0; u < nv; u++ {
			if vuf.find(u) == vuf.find(v) {
				o = append(o, u)
			}
		}
		return o
	}
	norb := 0
	eval := map[int]bool{nv - 1: true}
	for v := 0; v < nv; v++ {
		if o := orbitOf(v); o[0] == v {
			norb++
			eval[o[0]] = true
			eval[o[len(o)-1]] = true
		}
	}
	if norb < nv {
		tags = append(tags, "orbits-nontrivial")
	}
	if norb == 1 {
		tags = append(tags, "vertex-transitive")
	}
	if v, _ := c03fnViable(m); v == 2 { // informative only (the current rule): the canonical labelling decides
		tags = append(tags, "canon-call")
	}
	// --- isCanonical ---
	accept := map[int]bool{}
	var last c03fnOut
	vs := []int{}
	for v := range eval {
		vs = append(vs, v)
	}
	sort.Ints(vs)
	for _, v := range vs {
		o, err := c03fnStep(c03fnSwapLast(m, v))
		if err != "" {
			return fmt.Sprintf("graph %s relabelled so that vertex %d is the last one: isCanonical/addAugmentations panicked: %s", g6, v, err), tags
		}
		accept[v] = o.accept
		if v == nv-1 {
			last = o
		}
	}
	if last.accept {
		tags = append(tags, "accept")
	} else {
		tags = append(tags, "reject")
	}
	accOrbits := [][]int{}
	for _, v := range vs {
		o := orbitOf(v)
		if o[0] != v {
			continue
		}
		for _, u := range o {
			if a, seen := accept[u]; seen && a != accept[v] {
				return fmt.Sprintf("graph %s (%d vertices): isCanonical is not invariant under Aut(g): with vertex %d last it returns %v, with vertex %d last it returns %v, although %d and %d are in the same orbit %v (a class is lost or generated twice)", g6, nv, v, accept[v], u, a, v, u, o), tags
			}
		}
		if accept[v] {
			accOrbits = append(accOrbits, o)
		}
	}
	if len(accOrbits) != 1 {
		return fmt.Sprintf("graph %s (%d vertices): isCanonical accepts the deletion of %d vertex orbits of Aut(g) %v; exactly one orbit must be accepted (none: the class of this graph is never generated; several: it is generated more than once)", g6, nv, len(accOrbits), accOrbits), tags
	}
	// --- addAugmentations ---
	deg := c03fnDegs(m)
	minDeg := nv
	for _, d := range deg {
		if d < minDeg {
			minDeg = d
		}
	}
	size := 1 << uint(nv)
	suf := c03fnNewUF(size)
	for s := 0; s < size; s++ {
		for _, g := range gens {
			suf.union(s, int(c03fnImage(g, uint(s))))
		}
	}
	childAccepted := map[int]int{} // orbit root -> 0 unknown, 1 rejected, 2 accepted
	childOK := func(root int) (bool, string) {
		if childAccepted[root] == 0 {
			o, err := c03fnStep(c03fnExtend(m, uint(root)))
			if err != "" {
				return false, err
			}
			childAccepted[root] = 1
			if o.accept {
				childAccepted[root] = 2
			}
		}
		return childAccepted[root] == 2, ""
	}
	check := func(what string, num int, masks []uint) string {
		if num != len(masks) {
			return fmt.Sprintf("graph %s: addAugmentations (%s) returns %d but pushed %d choices", g6, what, num, len(masks))
		}
		seen := map[int]uint{}
		for _, s := range masks {
			if s >= uint(size) {
				return fmt.Sprintf("graph %s: addAugmentations (%s) pushed the neighbourhood %s, not a set of the %d vertices", g6, what, c03fnShowSet(s), nv)
			}
			rt := suf.find(int(s))
			if t, dup := seen[rt]; dup {
				return fmt.Sprintf("graph %s: addAugmentations (%s) pushed %s and %s, which are equivalent under Aut(g) (the same graph would be generated twice)", g6, what, c03fnShowSet(t), c03fnShowSet(s))
			}
			seen[rt] = s
		}
		// orbits without a representative: none of them may have an accepted extension
		small, large := []int{}, []int{}
		for s := 0; s < size; s++ {
			if suf.find(s) != s {
				continue
			}
			if _, ok := seen[s]; ok {
				continue
			}
			if bits.OnesCount(uint(s)) <= minDeg+1 {
				small = append(small, s)
			} else {
				large = append(large, s)
			}
		}
		if len(small) > 60 {
			small = small[:60]
		}
		sort.Slice(large, func(a, b int) bool {
			if pa, pb := bits.OnesCount(uint(large[a])), bits.OnesCount(uint(large[b])); pa != pb {
				return pa < pb
			}
			return large[a] < large[b]
		})
		pick := small
		for k := 0; k < 3 && k < len(large); k++ {
			pick = append(pick, large[k])
		}
		for k := 0; k < 3 && len(large) > 3; k++ {
			pick = append(pick, large[3+r.Intn(len(large)-3)])
		}
		for _, s := range pick {
			acc, err := childOK(s)
			if err != "" {
				return fmt.Sprintf("graph %s plus a vertex joined to %s: isCanonical/addAugmentations panicked: %s", g6, c03fnShowSet(uint(s)), err)
			}
			if acc {
				return fmt.Sprintf("graph %s: addAugmentations (%s) pushed %d choices, none of them in the Aut(g)-orbit of %s, but isCanonical accepts the graph obtained by adding a vertex joined to %s: that class is never generated", g6, what, len(masks), c03fnShowSet(uint(s)), c03fnShowSet(uint(s)))
			}
		}
		return ""
	}
	if last.accept {
		if e := check("right after isCanonical", last.numAfter, last.after); e != "" {
			return e, tags
		}
	}
	if e := check("no cached automorphisms", last.numFresh, last.fresh); e != "" {
		return e, tags
	}
	return "", tags
}

func c03fnShowMasks(num int, ms []uint) string {
	s := make([]string, len(ms))
	for i, v := range ms {
		s[i] = strconv.FormatUint(uint64(v), 10)
	}
	return strconv.Itoa(num) + ":" + strings.Join(s, ",")
}

// ---- generators ----

func c03fnEmpty(n int) c03Mat {
	m := make(c03Mat, n)
	for i := range m {
		m[i] = make([]bool, n)
	}
	return m
}

func c03fnRelabel(m c03Mat, p []int) c03Mat { // vertex v becomes p[v]
	n := len(m)
	r := c03fnEmpty(n)
	for u := 0; u < n; u++ {
		for v := 0; v < n; v++ {
			if m[u][v] {
				r[p[u]][p[v]] = true
			}
		}
	}
	return r
}

func c03fnComplement(m c03Mat) c03Mat {
	n := len(m)
	r := c03fnEmpty(n)
	for u := 0; u < n; u++ {
		for v := 0; v < n; v++ {
			r[u][v] = u != v && !m[u][v]
		}
	}
	return r
}

func c03fnUnion(parts ...c03Mat) c03Mat {
	n := 0
	for _, p := range parts {
		n += len(p)
	}
	r := c03fnEmpty(n)
	off := 0
	for _, p := range parts {
		for u := range p {
			for v := range p {
				r[off+u][off+v] = p[u][v]
			}
		}
		off += len(p)
	}
	return r
}

func c03fnCirculant(n int, steps ...int) c03Mat {
	r := c03fnEmpty(n)
	for v := 0; v < n; v++ {
		for _, s := range steps {
			u := (v + s) % n
			if u != v {
				r[u][v], r[v][u] = true, true
			}
		}
	}
	return r
}

func c03fnPath(n int) c03Mat {
	r := c03fnEmpty(n)
	for v := 0; v+1 < n; v++ {
		r[v][v+1], r[v+1][v] = true, true
	}
	return r
}

func c03fnStar(leaves int) c03Mat {
	r := c03fnEmpty(leaves + 1)
	for v := 1; v <= leaves; v++ {
		r[0][v], r[v][0] = true, true
	}
	return r
}

func c03fnComplete(n int) c03Mat { return c03fnComplement(c03fnEmpty(n)) }

func c03fnCopies(k int, p c03Mat) c03Mat {
	parts := make([]c03Mat, k)
	for i := range parts {
		parts[i] = p
	}
	return c03fnUnion(parts...)
}

func c03fnProduct(a, b c03Mat) c03Mat { // cartesian product
	na, nb := len(a), len(b)
	r := c03fnEmpty(na * nb)
	for u := 0; u < na*nb; u++ {
		for v := 0; v < na*nb; v++ {
			ua, ub, va, vb := u/nb, u%nb, v/nb, v%nb
			r[u][v] = ua == va && b[ub][vb] || ub == vb && a[ua][va]
		}
	}
	return r
}

func c03fnPetersen() c03Mat {
	r := c03fnEmpty(10)
	e := func(u, v int) { r[u][v], r[v][u] = true, true }
	for i := 0; i < 5; i++ {
		e(i, (i+1)%5)
		e(i, i+5)
		e(5+i, 5+(i+2)%5)
	}
	return r
}

func c03fnPaley13() c03Mat { return c03fnCirculant(13, 1, 3, 4, 9, 10, 12) }

// add a vertex with the same neighbourhood as v (adjacent to v as well if adj)
func c03fnTwin(m c03Mat, v int, adj bool) c03Mat {
	n := len(m)
	r := c03fnEmpty(n + 1)
	for a := 0; a < n; a++ {
		for b := 0; b < n; b++ {
			r[a][b] = m[a][b]
		}
	}
	for u := 0; u < n; u++ {
		if m[v][u] {
			r[n][u], r[u][n] = true, true
		}
	}
	if adj {
		r[n][v], r[v][n] = true, true
	}
	return r
}

func c03fnRandom(r *rand.Rand, n int, p float64) c03Mat {
	m := c03fnEmpty(n)
	for v := 0; v < n; v++ {
		for u := 0; u < v; u++ {
			if r.Float64() < p {
				m[u][v], m[v][u] = true, true
			}
		}
	}
	return m
}

// c03fnVariants: the graph as given, and relabellings that put a vertex passing the degree tests last (so that the
// canonical labelling decides) with the other vertices in random order.
func c03fnVariants(r *rand.Rand, m c03Mat, k int, emit func(c03Mat)) {
	n := len(m)
	if n < 2 {
		return
	}
	emit(m)
	deg := c03fnDegs(m)
	minDeg := n
	for _, d := range deg {
		if d < minDeg {
			minDeg = d
		}
	}
	for i := 0; i < k; i++ {
		p := r.Perm(n)
		if i%4 != 3 { // a best vertex goes last
			best, bs, bq := []int{}, -1, -1
			for v := 0; v < n; v++ {
				if deg[v] != minDeg {
					continue
				}
				s, q := 0, 0
				for u := 0; u < n; u++ {
					if m[v][u] {
						s += deg[u]
						q += deg[u] * deg[u]
					}
				}
				if s > bs || s == bs && q > bq {
					best, bs, bq = []int{v}, s, q
				} else if s == bs && q == bq {
					best = append(best, v)
				}
			}
			v := best[r.Intn(len(best))]
			for a := range p {
				if p[a] == n-1 {
					p[a], p[v] = p[v], p[a]
					break
				}
			}
		}
		emit(c03fnRelabel(m, p))
	}
}

func c03fnFamilies(r *rand.Rand, tier string) []c03Mat {
	out := []c03Mat{}
	add := func(m c03Mat) {
		if len(m) >= 2 && len(m) <= 14 {
			out = append(out, m)
		}
	}
	// deep orbit union-finds: many isomorphic components
	for k := 4; k <= 7; k++ {
		add(c03fnCopies(k, c03fnComplete(2)))
	}
	add(c03fnCopies(3, c03fnCirculant(3, 1)))
	add(c03fnCopies(4, c03fnCirculant(3, 1)))
	add(c03fnCopies(3, c03fnCirculant(4, 1)))
	add(c03fnCopies(2, c03fnCirculant(5, 1)))
	add(c03fnCopies(2, c03fnCirculant(6, 1)))
	add(c03fnCopies(2, c03fnCirculant(7, 1)))
	add(c03fnCopies(3, c03fnPath(3)))
	add(c03fnCopies(4, c03fnPath(3)))
	add(c03fnCopies(3, c03fnPath(4)))
	add(c03fnCopies(3, c03fnStar(3)))
	add(c03fnCopies(3, c03fnComplete(4)))
	add(c03fnCopies(2, c03fnStar(4)))
	add(c03fnUnion(c03fnCopies(3, c03fnCirculant(3, 1)), c03fnEmpty(1)))
	add(c03fnUnion(c03fnCopies(5, c03fnComplete(2)), c03fnEmpty(2)))
	add(c03fnEmpty(8 + r.Intn(5)))
	// complete multipartite
	add(c03fnComplement(c03fnCopies(4, c03fnComplete(2))))
	add(c03fnComplement(c03fnCopies(5, c03fnComplete(2))))
	add(c03fnComplement(c03fnCopies(3, c03fnComplete(3))))
	add(c03fnComplement(c03fnCopies(3, c03fnComplete(4))))
	add(c03fnComplement(c03fnCopies(2, c03fnComplete(5))))
	add(c03fnComplement(c03fnCopies(4, c03fnComplete(3))))
	add(c03fnComplement(c03fnUnion(c03fnComplete(2), c03fnComplete(3), c03fnComplete(4))))
	// vertex-transitive / strongly regular
	for n := 8; n <= 14; n++ {
		add(c03fnCirculant(n, 1))
		add(c03fnCirculant(n, 1, 2))
		if n%2 == 0 {
			add(c03fnCirculant(n, 1, n/2)) // Moebius ladder
			add(c03fnCirculant(n, 2, n/2))
		}
	}
	add(c03fnCirculant(13, 1, 5))
	add(c03fnCirculant(12, 1, 5))
	add(c03fnCirculant(10, 1, 3))
	add(c03fnPetersen())
	add(c03fnComplement(c03fnPetersen())) // T(5)
	add(c03fnPaley13())
	add(c03fnProduct(c03fnComplete(3), c03fnComplete(3))) // Paley 9
	add(c03fnProduct(c03fnComplete(2), c03fnProduct(c03fnComplete(2), c03fnComplete(2))))
	add(c03fnProduct(c03fnCirculant(3, 1), c03fnComplete(2)))
	add(c03fnProduct(c03fnCirculant(4, 1), c03fnCirculant(3, 1)))
	add(c03fnProduct(c03fnCirculant(5, 1), c03fnComplete(2)))
	add(c03fnProduct(c03fnCirculant(6, 1), c03fnComplete(2)))
	add(c03fnProduct(c03fnCirculant(7, 1), c03fnComplete(2)))
	add(c03fnComplete(8))
	add(c03fnComplete(10))
	for _, a := range []int{4, 5, 6} { // crown graphs, complete bipartite
		kab := c03fnComplement(c03fnUnion(c03fnComplete(a), c03fnComplete(a)))
		add(kab)
		crown := c03fnEmpty(2 * a)
		for u := 0; u < a; u++ {
			for v := 0; v < a; v++ {
				if u != v {
					crown[u][a+v], crown[a+v][u] = true, true
				}
			}
		}
		add(crown)
	}
	return out
}

// c03fnDeep: in the library's own answer for m, does the canonical-deletion candidate that isCanonical compares with
// the last vertex sit at depth >= 2 of the orbit union-find, in the orbit of the last vertex, once Find(last) has
// compressed its own path?  (Steers the generator towards states in which Find is not a parent lookup.)
func c03fnDeep(m c03Mat) bool {
	nv := len(m)
	verdict, vb := c03fnViable(m)
	if verdict != 2 {
		return false
	}
	ans := c03fnCanonical(m, true, vb)
	if ans.perm == nil || len(ans.orbits) != nv {
		return false
	}
	par := append([]int{}, ans.orbits...)
	root := func(x int) int {
		for k := 0; par[x] >= 0 && k <= nv; k++ {
			x = par[x]
		}
		return x
	}
	r := root(nv - 1)
	for x := nv - 1; x != r; {
		nx := par[x]
		par[x] = r
		x = nx
	}
	for _, u := range ans.perm {
		if u == nv-1 {
			return false
		}
		if vb>>uint(u)&1 == 1 {
			return u != r && par[u] != r && root(u) == r
		}
	}
	return false
}

// c03fnSeeds: graphs (found by a long random hunt, see c03fnDeep) on which the vertex that isCanonical compares with the
// last one sits at depth 2 of the library's orbit union-find — the first is the 10-vertex graph whose class a parent
// lookup instead of Orbits.Find loses from All(10,0,1).
var c03fnSeeds = []string{"I|TkXnBUW", "IUY^NpqNG", "IpfrBt}ig", "IFU]`ts{?", "HXEKaNG", "ISVJDgyoo", "Iiux{ir\\O",
	"IBelJrST_", "HGSteIg", "IbztKtRYg", "L~Rj}~x~K}f~jz", "L|^|npnvenn^f}", "LJ~}~V{m~Ny^lv", "L{zrl~z~M}J~}m",
	"L~]}~Zquz^T~t}", "L]l~s|n~Nnz]~p"}

// c03fnWitness: the seeds, and the one-vertex deletions of the first
func c03fnWitness() []c03Mat {
	out := []c03Mat{}
	for _, s := range c03fnSeeds {
		if m, ok := c03MatFromGraph6(s); ok {
			out = append(out, m)
		}
	}
	m, ok := c03MatFromGraph6(c03fnSeeds[0])
	if !ok {
		return out
	}
	for d := 0; d < len(m); d++ {
		p := []int{}
		for v := range m {
			if v != d {
				p = append(p, v)
			}
		}
		s := c03fnEmpty(len(p))
		for i, u := range p {
			for j, v := range p {
				s[i][j] = m[u][v]
			}
		}
		out = append(out, s)
	}
	return out
}

// c03fnSym: a random graph whose edge set is closed under a random permutation with cycles of length 2 or 3
func c03fnSym(r *rand.Rand, k int) c03Mat {
	p := r.Perm(k)
	sigma := make([]int, k)
	for i := range sigma {
		sigma[i] = i
	}
	cl := 2 + r.Intn(2)
	for i := 0; i+cl <= k; i += cl {
		if r.Intn(4) == 0 {
			continue
		}
		for j := 0; j < cl; j++ {
			sigma[p[i+j]] = p[i+(j+1)%cl]
		}
	}
	m := c03fnEmpty(k)
	for a := 0; a < k; a++ {
		for b := 0; b < a; b++ {
			if r.Intn(3) == 0 {
				x, y := a, b
				for s := 0; s < 6; s++ {
					m[x][y], m[y][x] = true, true
					x, y = sigma[x], sigma[y]
				}
			}
		}
	}
	return m
}

func init() {
	register(&Proto{
		Name:    "c03fnx",
		Props:   []string{"C03"},
		Timeout: 120 * time.Second,
		Run: func(args []string) Result {
			if len(args) < 3 || args[2] != "tab" {
				return Result{Out: "bad-op"}
			}
			nv := atoi(args[0])
			m, ok := c03fnFromMask(nv, args[1])
			if !ok || nv < 2 || nv > 14 {
				return Result{Out: "bad-op"}
			}
			tags := []string{fmt.Sprintf("fnx-n%d", nv)}
			o, err := c03fnStep(m)
			if err != "" {
				return Result{Out: "panic", Oracle: fmt.Sprintf("graph %s: isCanonical/addAugmentations panicked: %s", m.graph6(), err), Tags: tags}
			}
			acc, after := "0", "-"
			if o.accept {
				acc, after = "1", c03fnShowMasks(o.numAfter, o.after)
			}
			if "c03fnx "+strings.Join(args, " ") != c03fnLine(m) {
				tags = append(tags, "stale-request")
			}
			if nv >= 8 {
				tags = append(tags, "nontrivial")
			}
			return Result{Out: fmt.Sprintf("acc=%s;aug=%s;fresh=%s", acc, after, c03fnShowMasks(o.numFresh, o.fresh)), Tags: tags}
		},
		Gen: func(r *rand.Rand, tier string, emit func(string)) {}, // the lines are emitted by c03fn's generator, graph by graph
	})
	register(&Proto{
		Name:    "c03fn",
		Props:   []string{"C03"},
		Timeout: 120 * time.Second,
		Run: func(args []string) Result {
			if len(args) != 2 {
				return Result{Out: "bad-op"}
			}
			nv := atoi(args[0])
			m, ok := c03fnFromMask(nv, args[1])
			if !ok || nv < 2 || nv > 14 {
				return Result{Out: "bad-op"}
			}
			h := int64(nv)
			for _, c := range args[1] {
				h = h*131 + int64(c)
			}
			msg, t := c03fnOracle(m, rand.New(rand.NewSource(h)))
			tags := append([]string{fmt.Sprintf("fn-n%d", nv)}, t...)
			if nv >= 8 {
				for _, x := range t {
					if x == "orbits-nontrivial" {
						tags = append(tags, "nontrivial")
					}
				}
			}
			return Result{Out: "ok", Oracle: msg, Tags: tags}
		},
		Gen: func(r *rand.Rand, tier string, emit func(string)) {
			seen := map[string]bool{}
			limit := 2500 // admissible neighbourhood sets: bounds the work of the (list-based) model
			if tier == "thorough" {
				limit = 20000
			}
			put := func(m c03Mat) {
				minDeg, adm := len(m), 0
				for _, d := range c03fnDegs(m) {
					if d < minDeg {
						minDeg = d
					}
				}
				for k, c := 0, 1; k <= minDeg+1 && k <= len(m); k++ {
					adm += c
					c = c * (len(m) - k) / (k + 1)
				}
				l := fmt.Sprintf("c03fn %d %s", len(m), c03fnMask(m).String())
				if seen[l] {
					return
				}
				seen[l] = true
				emit(l)
				if adm <= limit {
					emit(c03fnLine(m))
				}
			}
			for _, m := range c03fnWitness() {
				put(m)
			}
			relab, nrand := 3, 6
			if tier == "thorough" {
				relab, nrand = 8, 20
			}
			for _, m := range c03fnFamilies(r, tier) {
				c03fnVariants(r, m, relab, put)
				if len(m) < 14 { // a twin of a random vertex makes the orbits non-trivial in a different way
					c03fnVariants(r, c03fnTwin(m, r.Intn(len(m)), r.Intn(2) == 0), 1, put)
				}
			}
			// hunt for deep orbit union-finds: relabellings of the symmetric families (and of random graphs with twins)
			// in which the vertex compared with the last one hangs at depth >= 2
			hunt := func(m c03Mat, tries, want int) {
				found := 0
				c03fnVariants(r, m, tries, func(x c03Mat) {
					if found < want && c03fnDeep(x) {
						n0 := len(seen)
						put(x)
						if len(seen) > n0 {
							found++
						}
					}
				})
			}
			tries := 24
			if tier == "thorough" {
				tries = 80
			}
			for _, g6 := range c03fnSeeds {
				if m, ok := c03MatFromGraph6(g6); ok {
					hunt(m, tries, 2)
				}
			}
			for i := 0; i < 2*nrand; i++ {
				c03fnVariants(r, c03fnSym(r, 8+r.Intn(6)), 1, put)
			}
			for i := 0; i < 3*nrand; i++ {
				n := 8 + r.Intn(6)
				m := c03fnRandom(r, n, []float64{0.15, 0.3, 0.5}[r.Intn(3)])
				for k := r.Intn(3); k >= 0 && len(m) < 14; k-- {
					m = c03fnTwin(m, r.Intn(len(m)), r.Intn(2) == 0)
				}
				hunt(m, tries/2, 1)
			}
			for n := 8; n <= 14; n++ {
				for _, p := range []float64{0.15, 0.3, 0.5, 0.7} {
					if n >= 13 && p > 0.5 {
						continue
					}
					for i := 0; i < nrand/3+1; i++ {
						m := c03fnRandom(r, n-1, p)
						c03fnVariants(r, m, 1, put)
						t := c03fnTwin(m, r.Intn(n-1), r.Intn(2) == 0)
						c03fnVariants(r, t, 2, put)
					}
				}
			}
		},
	})
}
