package main

import (
	"fmt"
	"math"
	"math/big"
	"math/rand"
	"strconv"
	"strings"
	"sync/atomic"
	"time"

	"github.com/Tom-Johnston/mamba/comb"
	"github.com/Tom-Johnston/mamba/itertools"
)

// Property C16 (package comb). Protocols (one request per line):
//
//	coeffu n k      CoeffUint64(n, k)           reply: value | panic
//	coeff n k       Coeff(n, k)                 reply: value | panic
//	coeffs n        Coeffs(n)                   reply: rows [..] joined by ';' | panic
//	rank c0 c1 ..   Rank(c)                     reply: value | panic
//	unrank r k      Unrank(r, k)                reply: [c0 c1 ..] | panic | timeout
//	colex n k       CombinationsColex(n, k)     reply: all sets joined by ';'  (model side: Unrank(j,k), j = 0..C(n,k)-1)
//
// Oracles are computed with math/big from the mathematical definition, never from the tables in comb.go:
//   - a returned binomial is exact; a panic is only allowed when min(k,n-k)*C(n,k) does not fit the result type;
//   - Coeffs(n), n >= 0: n+1 rows of the documented shape with every entry exact, or a panic, and a panic only
//     when some entry does not fit an int (n >= 67);
//   - Rank(c) for strictly increasing c >= 0: exact sum of C(c_i, i+1) or panic, and a panic only when a term or a
//     partial sum does not fit; Unrank(Rank(c), len c) = c;
//   - Unrank(r, k) for r >= 0, k >= 1 terminates (the framework's timeout turns into an oracle failure), is strictly
//     increasing, non-negative, has length k and its exact rank is r; Rank of it is r or a permitted panic;
//   - CombinationsColex(n,k) yields C(n,k) sets and the j-th has Rank j and equals Unrank(j, k).

var (
	c16Two64  = new(big.Int).Lsh(big.NewInt(1), 64)
	c16MaxInt = big.NewInt(math.MaxInt64)
	c16Huge   = new(big.Int).Lsh(big.NewInt(1), 400) // cap: anything above is reported as "huge"
)

// c16Binom returns C(n,k) exactly, or (nil, true) when it exceeds 2^400 (far beyond every threshold used here).
func c16Binom(n, k *big.Int) (*big.Int, bool) {
	if k.Sign() < 0 || k.Cmp(n) > 0 {
		return big.NewInt(0), false
	}
	kk := new(big.Int).Sub(n, k)
	if k.Cmp(kk) < 0 {
		kk.Set(k)
	}
	// multiplicative formula; the partial values C(n-kk+i, i) are non-decreasing in i
	c := big.NewInt(1)
	base := new(big.Int).Sub(n, kk)
	i := big.NewInt(0)
	one := big.NewInt(1)
	t := new(big.Int)
	for i.Cmp(kk) < 0 {
		i.Add(i, one)
		t.Add(base, i)
		c.Mul(c, t)
		c.Quo(c, i) // exact
		if c.Cmp(c16Huge) > 0 {
			return nil, true
		}
	}
	return c, false
}

func c16MinK(n, k *big.Int) *big.Int {
	kk := new(big.Int).Sub(n, k)
	if k.Cmp(kk) < 0 {
		return new(big.Int).Set(k)
	}
	return kk
}

// c16Needs returns min(k,n-k)*C(n,k) (nil,true if huge): the largest intermediate value of the product formula.
func c16Needs(n, k *big.Int) (*big.Int, bool) {
	c, huge := c16Binom(n, k)
	if huge {
		return nil, true
	}
	return new(big.Int).Mul(c, c16MinK(n, k)), false
}

func c16U(x uint64) *big.Int { return new(big.Int).SetUint64(x) }
func c16I(x int) *big.Int    { return big.NewInt(int64(x)) }

// c16Threshold returns the largest n >= k with k*C(n,k) <= limit (k >= 1), or k-1 if there is none.
func c16Threshold(k int, limit *big.Int) *big.Int {
	K := c16I(k)
	ok := func(n *big.Int) bool {
		if n.Cmp(K) < 0 {
			return true
		}
		c, huge := c16Binom(n, K)
		if huge {
			return false
		}
		// here k is used as the multiplier regardless of whether k <= n/2 (this is what the table entry means)
		return new(big.Int).Mul(c, K).Cmp(limit) <= 0
	}
	lo := c16I(k - 1)                             // ok
	hi := new(big.Int).Lsh(big.NewInt(1), 66)      // not ok for any k >= 1 when limit < 2^64
	for new(big.Int).Sub(hi, lo).Cmp(big.NewInt(1)) > 0 {
		mid := new(big.Int).Add(lo, hi)
		mid.Rsh(mid, 1)
		if ok(mid) {
			lo = mid
		} else {
			hi = mid
		}
	}
	return lo
}

// c16RankBig returns the exact rank sum and whether Rank is allowed to panic on c
// (some term needs more than an int in the product formula, or a partial sum exceeds MaxInt).
func c16RankBig(c []int) (sum *big.Int, mayPanic bool) {
	sum = big.NewInt(0)
	for i, v := range c {
		need, huge := c16Needs(c16I(v), c16I(i+1))
		if huge {
			return nil, true
		}
		if need.Cmp(c16MaxInt) > 0 {
			mayPanic = true
		}
		b, _ := c16Binom(c16I(v), c16I(i+1))
		sum.Add(sum, b)
		if sum.Cmp(c16MaxInt) > 0 {
			mayPanic = true
		}
	}
	return sum, mayPanic
}

func c16StrictIncNonneg(c []int) bool {
	for i, v := range c {
		if v < 0 || (i > 0 && c[i-1] >= v) {
			return false
		}
	}
	return true
}

func c16Max(c []int) int {
	m := 0
	for _, v := range c {
		if v > m {
			m = v
		}
	}
	return m
}

// c16TryRank calls Rank, reporting a panic.
func c16TryRank(c []int) (r int, panicked bool) {
	defer func() {
		if e := recover(); e != nil {
			panicked = true
		}
	}()
	return comb.Rank(c), false
}

const c16IterLimit = 8000000 // Unrank is linear in the largest element of its answer

// Every request generated here needs well under 10^8 loop steps in Unrank (tens of milliseconds).
// A call that has not returned after c16CallTimeout is reported as non-terminating; its goroutine cannot be
// stopped and keeps a core busy, so after c16MaxHangs such calls the remaining Unrank requests of the run are
// answered "skipped" (a divergence without an oracle verdict: the replay always names a call that really hung).
const c16CallTimeout = 6 * time.Second
const c16MaxHangs = 3

var c16Hangs int32

// c16Unrank calls comb.Unrank(r, k) with a deadline. status: "" | "panic" | "timeout" | "skipped".
func c16Unrank(r, k int) (c []int, status string) {
	if atomic.LoadInt32(&c16Hangs) >= c16MaxHangs {
		return nil, "skipped"
	}
	type res struct {
		c        []int
		panicked bool
	}
	done := make(chan res, 1)
	go func() {
		defer func() {
			if e := recover(); e != nil {
				done <- res{nil, true}
			}
		}()
		done <- res{comb.Unrank(r, k), false}
	}()
	select {
	case x := <-done:
		if x.panicked {
			return nil, "panic"
		}
		return x.c, ""
	case <-time.After(c16CallTimeout):
		atomic.AddInt32(&c16Hangs, 1)
		return nil, "timeout"
	}
}

func c16RunCoeffU(args []string) Result {
	n, err1 := strconv.ParseUint(args[0], 10, 64)
	k, err2 := strconv.ParseUint(args[1], 10, 64)
	if len(args) != 2 || err1 != nil || err2 != nil {
		return Result{Out: "bad-op"}
	}
	var v uint64
	out := guard(func() string { v = comb.CoeffUint64(n, k); return strconv.FormatUint(v, 10) })
	tags := []string{}
	if k > 0 && k < n {
		tags = append(tags, "nontrivial")
	}
	oracle := ""
	N, K := c16U(n), c16U(k)
	exact, huge := c16Binom(N, K)
	if out == "panic" {
		tags = append(tags, "coeffu-panic")
		need, h := c16Needs(N, K)
		if k > n || (!h && need.Cmp(c16Two64) < 0) {
			oracle = fmt.Sprintf("CoeffUint64(%d,%d) panicked although min(k,n-k)*C(n,k) = %v fits a uint64", n, k, need)
		}
	} else {
		if n <= 32 {
			tags = append(tags, "coeffu-table")
		} else {
			tags = append(tags, "coeffu-loop")
		}
		if huge || exact.Cmp(c16U(v)) != 0 {
			oracle = fmt.Sprintf("CoeffUint64(%d,%d) = %d but C(n,k) = %v", n, k, v, exact)
		}
	}
	return Result{Out: out, Oracle: oracle, Tags: tags}
}

func c16RunCoeff(args []string) Result {
	if len(args) != 2 {
		return Result{Out: "bad-op"}
	}
	n, k := atoi(args[0]), atoi(args[1])
	var v int
	out := guard(func() string { v = comb.Coeff(n, k); return strconv.Itoa(v) })
	tags := []string{}
	oracle := ""
	if n >= 0 && k >= 0 {
		if k > 0 && k < n {
			tags = append(tags, "nontrivial")
		}
		N, K := c16I(n), c16I(k)
		exact, huge := c16Binom(N, K)
		if out == "panic" {
			tags = append(tags, "coeff-panic")
			need, h := c16Needs(N, K)
			if k > n || (!h && need.Cmp(c16MaxInt) <= 0) {
				oracle = fmt.Sprintf("Coeff(%d,%d) panicked although min(k,n-k)*C(n,k) = %v fits an int", n, k, need)
			}
		} else if huge || exact.Cmp(c16I(v)) != 0 {
			oracle = fmt.Sprintf("Coeff(%d,%d) = %d but C(n,k) = %v", n, k, v, exact)
		}
	} else {
		tags = append(tags, "coeff-negative-arg")
	}
	return Result{Out: out, Oracle: oracle, Tags: tags}
}

func c16RunCoeffs(args []string) Result {
	if len(args) != 1 {
		return Result{Out: "bad-op"}
	}
	n := atoi(args[0])
	var rows [][]int
	out := guard(func() string {
		rows = comb.Coeffs(n)
		parts := make([]string, len(rows))
		for i, r := range rows {
			parts[i] = showInts(r)
		}
		return strings.Join(parts, ";")
	})
	tags := []string{}
	oracle := ""
	if n >= 0 {
		if n >= 2 {
			tags = append(tags, "nontrivial")
		}
		// exact or panic; a panic is only allowed when some entry C(i,j), i <= n, j <= i/2, does not fit an int
		// (on 64 bit: n >= 67, C(67,33) > MaxInt >= C(66,33)); rows are checked up to row 200 at most
		if out == "panic" {
			tags = append(tags, "coeffs-panic")
			fits := true
			for i := 0; i <= n && i <= 200 && fits; i++ {
				if b, _ := c16Binom(c16I(i), c16I(i/2)); b.Cmp(c16MaxInt) > 0 {
					fits = false
				}
			}
			if fits && n <= 200 {
				oracle = fmt.Sprintf("Coeffs(%d) panicked although every entry fits an int", n)
			}
		} else if len(rows) != n+1 {
			oracle = fmt.Sprintf("Coeffs(%d) has %d rows", n, len(rows))
		} else {
			for i, r := range rows {
				if len(r) != i/2+1 {
					oracle = fmt.Sprintf("Coeffs(%d): row %d has %d entries, want %d", n, i, len(r), i/2+1)
					break
				}
				for j, v := range r {
					exact, huge := c16Binom(c16I(i), c16I(j))
					if (huge || exact.Cmp(c16I(v)) != 0) && oracle == "" {
						oracle = fmt.Sprintf("Coeffs(%d)[%d][%d] = %d but C(%d,%d) = %v", n, i, j, v, i, j, exact)
					}
				}
			}
		}
	} else {
		tags = append(tags, "coeffs-negative-arg")
	}
	return Result{Out: out, Oracle: oracle, Tags: tags}
}

func c16RunRank(args []string) Result {
	c := atois(args)
	r, panicked := c16TryRank(append([]int(nil), c...))
	out := "panic"
	if !panicked {
		out = strconv.Itoa(r)
	}
	tags := []string{}
	oracle := ""
	if c16StrictIncNonneg(c) {
		if len(c) >= 2 {
			tags = append(tags, "nontrivial")
		}
		sum, mayPanic := c16RankBig(c)
		if panicked {
			tags = append(tags, "rank-panic")
			if !mayPanic {
				oracle = fmt.Sprintf("Rank(%v) panicked although every term and the sum %v fit an int", c, sum)
			}
		} else {
			if sum == nil || sum.Cmp(c16I(r)) != 0 {
				oracle = fmt.Sprintf("Rank(%v) = %d but the colex rank is %v", c, r, sum)
			} else if len(c) >= 1 && c16Max(c) <= c16IterLimit {
				tags = append(tags, "rank-roundtrip")
				back, st := c16Unrank(r, len(c))
				switch {
				case st == "timeout":
					oracle = fmt.Sprintf("Unrank(Rank(%v) = %d, %d) did not return within %v", c, r, len(c), c16CallTimeout)
				case st == "skipped":
				case st == "panic" || showInts(back) != showInts(c):
					oracle = fmt.Sprintf("Unrank(Rank(%v) = %d, %d) = %v %s", c, r, len(c), back, st)
				}
			}
		}
	} else {
		tags = append(tags, "rank-not-a-set")
	}
	return Result{Out: out, Oracle: oracle, Tags: tags}
}

func c16RunUnrank(args []string) Result {
	if len(args) != 2 {
		return Result{Out: "bad-op"}
	}
	r, k := atoi(args[0]), atoi(args[1])
	c, st := c16Unrank(r, k)
	out := showInts(c)
	if st != "" {
		out = st
	}
	tags := []string{}
	oracle := ""
	if st == "skipped" {
		return Result{Out: out, Tags: []string{"unrank-skipped-after-timeouts"}}
	}
	if st == "timeout" {
		return Result{Out: out, Oracle: fmt.Sprintf("Unrank(%d,%d) did not return within %v", r, k, c16CallTimeout), Tags: []string{"timeout"}}
	}
	if r >= 0 && k >= 0 {
		if k >= 2 && r >= 1 {
			tags = append(tags, "nontrivial")
		}
		switch {
		case out == "panic":
			oracle = fmt.Sprintf("Unrank(%d,%d) panicked", r, k)
		case len(c) != k:
			oracle = fmt.Sprintf("Unrank(%d,%d) has length %d", r, k, len(c))
		case !c16StrictIncNonneg(c):
			oracle = fmt.Sprintf("Unrank(%d,%d) = %v is not a strictly increasing sequence of naturals", r, k, c)
		case k >= 1:
			sum, mayPanic := c16RankBig(c)
			if sum == nil || sum.Cmp(c16I(r)) != 0 {
				oracle = fmt.Sprintf("Unrank(%d,%d) = %v has colex rank %v", r, k, c, sum)
			} else {
				rr, panicked := c16TryRank(append([]int(nil), c...))
				if panicked {
					tags = append(tags, "unrank-rank-panics")
					if !mayPanic {
						oracle = fmt.Sprintf("Rank(Unrank(%d,%d) = %v) panicked although every term fits an int", r, k, c)
					}
				} else if rr != r {
					oracle = fmt.Sprintf("Rank(Unrank(%d,%d) = %v) = %d", r, k, c, rr)
				}
			}
		}
	} else {
		tags = append(tags, "unrank-negative-arg")
	}
	return Result{Out: out, Oracle: oracle, Tags: tags}
}

func c16RunColex(args []string) Result {
	if len(args) != 2 {
		return Result{Out: "bad-op"}
	}
	n, k := atoi(args[0]), atoi(args[1])
	if n < 0 || k < 0 {
		return Result{Out: "bad-op"}
	}
	it := itertools.CombinationsColex(n, k)
	parts := []string{}
	oracle := ""
	j := 0
	for it.Next() {
		v := append([]int(nil), it.Value()...)
		parts = append(parts, showInts(v))
		if oracle == "" {
			if rr, panicked := c16TryRank(append([]int(nil), v...)); panicked || rr != j {
				oracle = fmt.Sprintf("CombinationsColex(%d,%d) yields %v at position %d but Rank gives %d (panic=%v)", n, k, v, j, rr, panicked)
			} else if u, st := c16Unrank(j, k); st != "skipped" && (st != "" || showInts(u) != showInts(v)) {
				oracle = fmt.Sprintf("CombinationsColex(%d,%d) yields %v at position %d but Unrank(%d,%d) = %v %s", n, k, v, j, j, k, u, st)
			}
		}
		j++
		if j > 1<<22 {
			oracle = "CombinationsColex does not stop"
			break
		}
	}
	exact, _ := c16Binom(c16I(n), c16I(k))
	if oracle == "" && exact.Cmp(c16I(j)) != 0 {
		oracle = fmt.Sprintf("CombinationsColex(%d,%d) yields %d sets, C(n,k) = %v", n, k, j, exact)
	}
	tags := []string{}
	if j >= 2 {
		tags = append(tags, "nontrivial")
	}
	return Result{Out: strings.Join(parts, ";"), Oracle: oracle, Tags: tags}
}

// ---- generators ----

// c16LogUniform returns a number in [lo, hi] whose bit length is roughly uniform.
func c16LogUniform(r *rand.Rand, lo, hi uint64) uint64 {
	if hi <= lo {
		return lo
	}
	span := hi - lo
	bitsN := 0
	for s := span; s > 0; s >>= 1 {
		bitsN++
	}
	b := 1 + r.Intn(bitsN)
	var x uint64
	if b >= 64 {
		x = r.Uint64()
	} else {
		x = r.Uint64() & (uint64(1)<<uint(b) - 1)
	}
	if x > span {
		x = span
	}
	return lo + x
}

func c16EmitAround(emit func(string), proto string, t *big.Int, k int, limit *big.Int) {
	for d := -2; d <= 2; d++ {
		n := new(big.Int).Add(t, c16I(d))
		if n.Sign() < 0 || n.Cmp(limit) > 0 {
			continue
		}
		emit(fmt.Sprintf("%s %v %d", proto, n, k))
		// the symmetric argument n-k reaches the same table entry through `k = n - k`
		nk := new(big.Int).Sub(n, c16I(k))
		if nk.Sign() >= 0 {
			emit(fmt.Sprintf("%s %v %v", proto, n, nk))
		}
	}
}

func c16GenCoeffU(r *rand.Rand, tier string, emit func(string)) {
	maxU := new(big.Int).Sub(c16Two64, big.NewInt(1))
	// every row of the built-in table and beyond: all (n,k) with n <= 70, k <= n+1
	for n := 0; n <= 70; n++ {
		for k := 0; k <= n+1; k++ {
			emit(fmt.Sprintf("coeffu %d %d", n, k))
		}
	}
	// both sides of every overflow threshold, thresholds computed from the definition
	for k := 1; k <= 40; k++ {
		t := c16Threshold(k, maxU)
		c16EmitAround(emit, "coeffu", t, k, maxU)
	}
	for _, l := range []string{"18446744073709551615 0", "18446744073709551615 18446744073709551615", "18446744073709551615 2",
		"18446744073709551615 18446744073709551613", "0 18446744073709551615", "4294967296 2", "4294967297 2", "6074001000 2", "33290221 3", "4000000 3", "80 19"} {
		emit("coeffu " + l)
	}
	cases := 3000
	if tier == "thorough" {
		cases = 150000
	}
	thr := make([]uint64, 41)
	for k := 1; k <= 40; k++ {
		thr[k] = c16Threshold(k, maxU).Uint64()
	}
	for c := 0; c < cases; c++ {
		switch p := r.Intn(10); {
		case p < 6: // small k, n log-uniform up to a bit beyond the threshold
			k := 1 + r.Intn(36)
			hi := thr[k]
			if hi < math.MaxUint64/2 {
				hi = hi + hi/8 + 4
			}
			n := c16LogUniform(r, uint64(k), hi)
			if r.Intn(3) == 0 && n >= uint64(k) {
				emit(fmt.Sprintf("coeffu %d %d", n, n-uint64(k)))
			} else {
				emit(fmt.Sprintf("coeffu %d %d", n, k))
			}
		case p < 8: // near a threshold
			k := 2 + r.Intn(34)
			n := thr[k] - uint64(r.Intn(40)) + 8
			emit(fmt.Sprintf("coeffu %d %d", n, k))
		case p < 9: // moderate n, any k
			n := uint64(r.Intn(200))
			emit(fmt.Sprintf("coeffu %d %d", n, r.Intn(int(n)+2)))
		default: // arbitrary 64-bit arguments
			n := r.Uint64()
			k := r.Uint64()
			if r.Intn(2) == 0 {
				k = c16LogUniform(r, 0, n)
			}
			emit(fmt.Sprintf("coeffu %d %d", n, k))
		}
	}
}

func c16GenCoeff(r *rand.Rand, tier string, emit func(string)) {
	for n := 0; n <= 70; n++ {
		for k := 0; k <= n+1; k++ {
			emit(fmt.Sprintf("coeff %d %d", n, k))
		}
	}
	for _, l := range []string{"-1 0", "-1 -1", "5 -1", "0 0", "9223372036854775807 1", "9223372036854775807 0", "9223372036854775807 9223372036854775806",
		"9223372036854775807 9223372036854775807", "9223372036854775807 2", "-9223372036854775808 3", "3 9223372036854775807"} {
		emit("coeff " + l)
	}
	maxU := new(big.Int).Sub(c16Two64, big.NewInt(1))
	thrU := make([]int, 41) // largest int n with k*C(n,k) < 2^64
	thrI := make([]int, 41) // largest int n with k*C(n,k) <= MaxInt
	for k := 1; k <= 40; k++ {
		tu := c16Threshold(k, maxU)
		ti := c16Threshold(k, c16MaxInt)
		c16EmitAround(emit, "coeff", tu, k, c16MaxInt)
		c16EmitAround(emit, "coeff", ti, k, c16MaxInt)
		if tu.Cmp(c16MaxInt) > 0 {
			tu = c16MaxInt
		}
		thrU[k] = int(tu.Int64())
		thrI[k] = int(ti.Int64())
	}
	cases := 1500
	if tier == "thorough" {
		cases = 60000
	}
	for c := 0; c < cases; c++ {
		k := 1 + r.Intn(36)
		switch p := r.Intn(10); {
		case p < 6:
			hi := uint64(thrU[k])
			if hi < math.MaxInt64/2 {
				hi = hi + hi/8 + 4
			}
			n := c16LogUniform(r, uint64(k), hi)
			if r.Intn(3) == 0 {
				emit(fmt.Sprintf("coeff %d %d", n, n-uint64(k)))
			} else {
				emit(fmt.Sprintf("coeff %d %d", n, k))
			}
		case p < 8:
			base := thrI[k]
			if r.Intn(2) == 0 {
				base = thrU[k]
			}
			if base > math.MaxInt64-100 {
				base = math.MaxInt64 - 100
			}
			emit(fmt.Sprintf("coeff %d %d", base-r.Intn(40)+8, k))
		case p < 9:
			n := r.Intn(200)
			emit(fmt.Sprintf("coeff %d %d", n, r.Intn(n+2)))
		default:
			emit(fmt.Sprintf("coeff %d %d", int64(r.Uint64()), int64(r.Uint64())>>uint(r.Intn(64))))
		}
	}
}

func c16GenCoeffs(r *rand.Rand, tier string, emit func(string)) {
	for _, n := range []int{0, 1, 2, 3, 4, 5, 8, 33, 34, 40, 64, 65, 66, 67, 68, 69, 70, 80, 90, 200, -1, -2, -5} {
		emit(fmt.Sprintf("coeffs %d", n))
	}
	cases := 30
	if tier == "thorough" {
		cases = 300
	}
	for c := 0; c < cases; c++ {
		emit(fmt.Sprintf("coeffs %d", r.Intn(85)))
	}
}

// c16RandomSet returns a strictly increasing sequence of k naturals whose largest element is top (top >= k-1).
func c16RandomSet(r *rand.Rand, k int, top int) []int {
	c := make([]int, k)
	c[k-1] = top
	for i := k - 2; i >= 0; i-- {
		// c[i] in [i, c[i+1]-1]; biased towards being close to c[i+1] half of the time
		hi := c[i+1] - 1
		if r.Intn(2) == 0 {
			d := r.Intn(4)
			if hi-d >= i {
				c[i] = hi - d
				continue
			}
		}
		c[i] = i + int(c16LogUniform(r, 0, uint64(hi-i)))
	}
	return c
}

func c16GenRank(r *rand.Rand, tier string, emit func(string)) {
	for _, l := range []string{"", "0", "5", "0 1", "0 1 2", "1 3 4", "0 1 2 3 4 5 6 7", "9223372036854775807", "9223372036854775806 9223372036854775807",
		"4294967295 4294967296", "2147483647 4294967296", "2147483648 4294967296", "2147483649 4294967296", "0 4294967296", "0 4294967297",
		"5 7 200000", "5 7 3329022", "5 7 3329023", "0 2097151 3329022", "-1", "0 0", "2 1", "3 3 3", "0 -1 4", "-3 2"} {
		emit(strings.TrimSpace("rank " + l))
	}
	maxU := new(big.Int).Sub(c16Two64, big.NewInt(1))
	topFit := make([]int, 21) // largest int top with k*C(top,k) < 2^64 (then C(top,k) <= MaxInt as well): Coeff(top,k) returns
	for k := 1; k <= 20; k++ {
		t := c16Threshold(k, maxU)
		if t.Cmp(c16MaxInt) > 0 {
			t = c16MaxInt
		}
		topFit[k] = int(t.Int64())
	}
	cases := 1500
	if tier == "thorough" {
		cases = 50000
	}
	for c := 0; c < cases; c++ {
		k := 1 + r.Intn(8)
		if r.Intn(5) == 0 {
			k = 1 + r.Intn(20)
		}
		var top int
		switch p := r.Intn(10); {
		case p < 5: // small universe
			top = k - 1 + r.Intn(40)
		case p < 8: // anything Coeff can still compute; the sum may or may not fit
			top = k - 1 + int(c16LogUniform(r, 0, uint64(topFit[k]-k+1)))
		default: // around the largest computable top
			top = topFit[k] - r.Intn(6) + 2
			if top < k-1 || top < 0 {
				top = k - 1
			}
		}
		set := c16RandomSet(r, k, top)
		if r.Intn(40) == 0 && k >= 2 { // not a set: swap or repeat
			i := r.Intn(k - 1)
			if r.Intn(2) == 0 {
				set[i], set[i+1] = set[i+1], set[i]
			} else {
				set[i] = set[i+1]
			}
		}
		emit("rank " + joinInts(set))
	}
}

func c16GenUnrank(r *rand.Rand, tier string, emit func(string)) {
	for _, l := range []string{"0 0", "5 0", "0 1", "1 1", "7 1", "0 3", "7 3", "9 3", "10 3", "19 3", "20 3", "-1 3", "-9223372036854775808 2", "5 -1",
		"1333313333400026 3", "9223372036854775807 3", "9223372036854775806 4", "9223372036854775807 10", "9223372036854775807 31", "9223372036854775807 40",
		"9223372036854775807 64", "9223372036854775807 100", "6148913079097324540 3", "1000000 1", "12345678901 2", "0 200", "1 200", "200 200", "201 200"} {
		emit("unrank " + l)
	}
	// positions where the 128-bit product has hi == l-i exactly (C(l+1,k) just above 2^64 while C(l,k) fits an int):
	// the guard in front of bits.Div64 must use >=
	for _, k := range []int{89, 116, 137, 165, 207, 208, 272, 273, 377, 378, 379, 380} {
		emit(fmt.Sprintf("unrank 9223372036854775807 %d", k))
		emit(fmt.Sprintf("unrank 3130921572628162950 %d", k))
	}
	// exact binomials: r = C(n,k)-1, C(n,k), C(n,k)+1
	for k := 2; k <= 12; k++ {
		for _, n := range []int{k, k + 1, k + 5, 2*k + 20} {
			b, _ := c16Binom(c16I(n), c16I(k))
			for d := -1; d <= 1; d++ {
				v := new(big.Int).Add(b, c16I(d))
				if v.Sign() >= 0 && v.Cmp(c16MaxInt) <= 0 {
					emit(fmt.Sprintf("unrank %v %d", v, k))
				}
			}
		}
	}
	cases := 1200
	big3 := 2
	if tier == "thorough" {
		cases = 40000
		big3 = 25
	}
	for c := 0; c < cases; c++ {
		k := 1 + r.Intn(12)
		if r.Intn(6) == 0 {
			k = 1 + r.Intn(70)
			if r.Intn(3) == 0 {
				k = 1 + r.Intn(400)
			}
		}
		var rk uint64
		switch {
		// Unrank is linear in the largest element of its answer (and the Lean model spends about 1 µs per step)
		case k == 1:
			rk = c16LogUniform(r, 0, 20000)
		case k == 2:
			rk = c16LogUniform(r, 0, 200000000) // answer below 20001
		case k == 3:
			rk = c16LogUniform(r, 0, 1<<40) // answer below 2*10^4
		case k == 4:
			rk = c16LogUniform(r, 0, 1<<50)
		case k == 5:
			rk = c16LogUniform(r, 0, 1<<56)
		default:
			rk = c16LogUniform(r, 0, math.MaxInt64)
		}
		if r.Intn(4) == 0 {
			rk = uint64(r.Intn(3000))
		}
		emit(fmt.Sprintf("unrank %d %d", rk, k))
	}
	// a few expensive ones: the answer has an element in the millions
	for c := 0; c < big3; c++ {
		k := 3 + r.Intn(2)
		emit(fmt.Sprintf("unrank %d %d", c16LogUniform(r, 1<<58, math.MaxInt64), k))
	}
}

func c16GenColex(r *rand.Rand, tier string, emit func(string)) {
	maxN := 9
	if tier == "thorough" {
		maxN = 14
	}
	for n := 0; n <= maxN; n++ {
		for k := 0; k <= n+1; k++ {
			emit(fmt.Sprintf("colex %d %d", n, k))
		}
	}
}

func init() {
	register(&Proto{Name: "coeffu", Props: []string{"C16"}, Run: c16RunCoeffU, Gen: c16GenCoeffU})
	register(&Proto{Name: "coeff", Props: []string{"C16"}, Run: c16RunCoeff, Gen: c16GenCoeff})
	register(&Proto{Name: "coeffs", Props: []string{"C16"}, Run: c16RunCoeffs, Gen: c16GenCoeffs})
	register(&Proto{Name: "rank", Props: []string{"C16"}, Run: c16RunRank, Gen: c16GenRank, Timeout: 60 * time.Second})
	register(&Proto{Name: "unrank", Props: []string{"C16"}, Run: c16RunUnrank, Gen: c16GenUnrank, Timeout: 60 * time.Second})
	register(&Proto{Name: "colex", Props: []string{"C16"}, Run: c16RunColex, Gen: c16GenColex, Timeout: 60 * time.Second})
}
